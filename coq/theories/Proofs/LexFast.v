(* Proofs/LexFast.v — the fast path of lexical (Model/Lex.fast_path, binary64) returns the correctly rounded value.

   fast_path takes a significand below 2^53 and an exponent in [-22, 22] (or up to 37 when the surplus power of ten can be
   moved into the significand without leaving 53 bits) and performs ONE IEEE operation on exactly representable operands.
   Whenever it answers, the answer is the bit pattern of the oracle `rne_decimal m e`
   (which FloatOracle.rne_decimal_correct identifies with round-to-nearest-even of m * 10^e).

   The proof reuses C08_exact_oracle (one multiplication / division of exact operands is the correctly rounded result:
   Flocq's Bmult_correct / Bdiv_correct), and checks by computation that the table F64_POW10 extracted from num.rs
   holds 10^0 .. 10^22 and POW10_64 (small_powers.rs) holds 10^0 .. 10^19. *)
From Coq Require Import ZArith NArith Reals Lia Lra List Bool.
From Flocq Require Import Core BinarySingleNaN.
From SJ Require Import Base.Bytes Base.FloatB Gen.Tables Gen.LexTables Model.Read Model.Num Model.Lex.
From SJ Require Import Proofs.FloatDefault Proofs.FloatOracle Proofs.LexOracle.
Open Scope Z_scope.

(* ------------------------------------------------------------------ *)
(** * the generated tables (finite computed checks) *)
Lemma F64_POW10_nth (n : nat) : (n <= 22)%nat -> nth n F64_POW10 0 = 10 ^ Z.of_nat n.
Proof.
  intros Hn.
  do 23 (destruct n as [|n]; [vm_compute; reflexivity|]). lia.
Qed.

Lemma F64_POW10_Z (i : Z) : 0 <= i <= 22 -> nth (Z.to_nat i) F64_POW10 0 = 10 ^ i.
Proof. intros Hi. rewrite F64_POW10_nth by lia. rewrite Z2Nat.id by lia. reflexivity. Qed.

Lemma POW10_64_nth (n : nat) : (n <= 19)%nat -> nth n POW10_64 0%N = Z.to_N (10 ^ Z.of_nat n).
Proof.
  intros Hn.
  do 20 (destruct n as [|n]; [vm_compute; reflexivity|]). lia.
Qed.

Lemma F64_constants :
  F64_MANTISSA_SIZE = 52 /\ F64_EXP_LIMIT_MIN = -22 /\ F64_EXP_LIMIT_MAX = 22 /\ F64_MANTISSA_LIMIT = 15.
Proof. repeat split; reflexivity. Qed.

(* ------------------------------------------------------------------ *)
(** * one exact IEEE operation = the oracle *)
Lemma b64_of_Z_pow10 (i : Z) : 0 <= i <= 22 -> b64_of_Z (10 ^ i) = p10 i.
Proof. intros Hi. rewrite p10_unfold by lia. reflexivity. Qed.

Lemma shiftr_zero_lt (m : N) (k : N) : N.shiftr m k = 0%N -> (m < 2 ^ k)%N.
Proof.
  intros H. rewrite N.shiftr_div_pow2 in H.
  destruct (N.lt_ge_cases m (2 ^ k)) as [Hlt|Hge]; [exact Hlt|].
  exfalso. assert (Hpos : (0 < 2 ^ k)%N) by (apply N.neq_0_lt_0, N.pow_nonzero; discriminate).
  pose proof (N.div_le_mono _ _ (2 ^ k)%N ltac:(lia) Hge) as Hd.
  rewrite N.div_same in Hd by lia. lia.
Qed.

Lemma mul_pow10_oracle (m : N) (e : Z) : (0 < m)%N -> Z.of_N m < 2 ^ 53 -> 0 < e <= 22 ->
  Bmult mode_NE (b64_of_Z (Z.of_N m)) (b64_of_Z (10 ^ e)) = rne_decimal (Z.of_N m) e.
Proof.
  intros Hm Hlt He.
  pose proof (C08_exact_oracle m e Hm Hlt ltac:(lia)) as H.
  rewrite f64_loop_S in H. rewrite Z.abs_eq in H by lia. rewrite pow10_tab_some in H by lia.
  replace (0 <=? e) with true in H by (symmetry; apply Z.leb_le; lia).
  cbn zeta in H. rewrite b64_of_Z_pow10 by lia. unfold b64_mul in H.
  destruct (b64_is_inf (Bmult mode_NE (b64_of_Z (Z.of_N m)) (p10 e))); [discriminate H|].
  injection H as H. exact H.
Qed.

Lemma div_pow10_oracle (m : N) (e : Z) : (0 < m)%N -> Z.of_N m < 2 ^ 53 -> -22 <= e < 0 ->
  Bdiv mode_NE (b64_of_Z (Z.of_N m)) (b64_of_Z (10 ^ (- e))) = rne_decimal (Z.of_N m) e.
Proof.
  intros Hm Hlt He.
  pose proof (C08_exact_oracle m e Hm Hlt ltac:(lia)) as H.
  rewrite f64_loop_S in H. rewrite Z.abs_neq in H by lia. rewrite pow10_tab_some in H by lia.
  replace (0 <=? e) with false in H by (symmetry; apply Z.leb_gt; lia).
  rewrite b64_of_Z_pow10 by lia. unfold b64_div in H. injection H as H. exact H.
Qed.

Lemma cast_oracle (m : Z) : 0 < m -> b64_of_Z m = rne_decimal m 0.
Proof.
  intros Hm. unfold rne_decimal.
  replace (m <=? 0) with false by (symmetry; apply Z.leb_gt; lia).
  change (400 <? 0) with false. cbn match.
  replace (0 <? - (400 + Z.log2 m)) with false
    by (symmetry; apply Z.ltb_ge; pose proof (Z.log2_nonneg m); lia).
  change (0 <=? 0) with true. cbn match. change (10 ^ 0) with 1. rewrite Z.mul_1_r. reflexivity.
Qed.

(* moving a power of ten from the exponent into the significand does not change the oracle (both sides are the
   normalisation of the same integer) *)
Lemma rne_decimal_shift (m a b : Z) : 0 < m -> 0 <= a -> 0 <= b -> a + b <= 400 ->
  rne_decimal (m * 10 ^ a) b = rne_decimal m (a + b).
Proof.
  intros Hm Ha Hb Hab. unfold rne_decimal.
  assert (Hp : 0 < 10 ^ a) by (apply Z.pow_pos_nonneg; lia).
  replace (m * 10 ^ a <=? 0) with false by (symmetry; apply Z.leb_gt; nia).
  replace (m <=? 0) with false by (symmetry; apply Z.leb_gt; lia).
  replace (400 <? b) with false by (symmetry; apply Z.ltb_ge; lia).
  replace (400 <? a + b) with false by (symmetry; apply Z.ltb_ge; lia).
  replace (b <? - (400 + Z.log2 (m * 10 ^ a))) with false
    by (symmetry; apply Z.ltb_ge; pose proof (Z.log2_nonneg (m * 10 ^ a)); lia).
  replace (a + b <? - (400 + Z.log2 m)) with false
    by (symmetry; apply Z.ltb_ge; pose proof (Z.log2_nonneg m); lia).
  replace (0 <=? b) with true by (symmetry; apply Z.leb_le; lia).
  replace (0 <=? a + b) with true by (symmetry; apply Z.leb_le; lia).
  rewrite Z.pow_add_r by lia. rewrite Z.mul_assoc. reflexivity.
Qed.

Lemma Some_inj {A} (a b : A) : Some a = Some b -> a = b.
Proof. intros H. injection H as H. exact H. Qed.

Lemma f_cast_pow10_F64 (m : N) (n : Z) :
  f_cast_pow10 F64 m n =
  bits_of_b64 (if 0 <? n then Bmult mode_NE (b64_of_Z (Z.of_N m)) (b64_of_Z (nth (Z.to_nat (Z.abs n)) F64_POW10 0))
               else Bdiv mode_NE (b64_of_Z (Z.of_N m)) (b64_of_Z (nth (Z.to_nat (Z.abs n)) F64_POW10 0))).
Proof. reflexivity. Qed.

(* ------------------------------------------------------------------ *)
(** * the theorem *)
Theorem lex_fast_correct : forall (m : N) (e : Z) (bits : N),
  fast_path F64 m e = Some bits -> bits = bits_of_b64 (rne_decimal (Z.of_N m) e).
Proof.
  intros m e bits H. unfold fast_path in H.
  change (EXP_LIMIT_MIN F64) with (-22) in H. change (EXP_LIMIT_MAX F64) with 22 in H.
  change (MANTISSA_LIMIT F64) with 15 in H. change (Z.to_N (MANTISSA_SIZE F64 + 1)) with 53%N in H.
  change (22 + 15) with 37 in H.
  destruct (N.eqb_spec m 0) as [Hm0|Hm0].
  { (* zero *) injection H as <-. subst m. reflexivity. }
  assert (Hmpos : (0 < m)%N) by lia.
  destruct (N.eqb_spec (N.shiftr m 53) 0) as [Hsh|Hsh]; cbn [negb] in H; [|discriminate H].
  apply shiftr_zero_lt in Hsh.
  assert (Hlt : Z.of_N m < 2 ^ 53) by (change (2 ^ 53) with (Z.of_N (2 ^ 53)); lia).
  destruct (Z.eqb_spec e 0) as [He0|He0].
  { (* exponent 0: the cast *)
    apply Some_inj in H. subst bits. subst e. unfold f_cast. f_equal. apply cast_oracle. lia. }
  destruct ((-22 <=? e) && (e <=? 22)) eqn:Hr.
  { (* one multiplication or division *)
    apply andb_prop in Hr. destruct Hr as (Hr1 & Hr2). apply Z.leb_le in Hr1, Hr2.
    apply Some_inj in H. subst bits. rewrite f_cast_pow10_F64. f_equal.
    destruct (Z.ltb_spec 0 e) as [Hpos|Hneg].
    - rewrite Z.abs_eq by lia. rewrite F64_POW10_Z by lia. apply mul_pow10_oracle; [exact Hmpos|exact Hlt|lia].
    - rewrite Z.abs_neq by lia. rewrite F64_POW10_Z by lia. apply div_pow10_oracle; [exact Hmpos|exact Hlt|lia]. }
  destruct ((0 <=? e) && (e <=? 37)) eqn:Hd; [|discriminate H].
  apply andb_prop in Hd. destruct Hd as (Hd1 & Hd2). apply Z.leb_le in Hd1, Hd2.
  assert (He : 22 < e <= 37).
  { apply andb_false_iff in Hr. destruct Hr as [Hr|Hr]; [apply Z.leb_gt in Hr; lia|apply Z.leb_gt in Hr; lia]. }
  (* disguised fast path *)
  rewrite POW10_64_nth in H by lia. rewrite Z2Nat.id in H by lia.
  set (sh := e - 22) in *.
  assert (Hpw : 0 < 10 ^ sh) by (apply Z.pow_pos_nonneg; lia).
  destruct (N.leb_spec two64N (m * Z.to_N (10 ^ sh))) as [Hov|Hov]; [discriminate H|].
  destruct (N.eqb_spec (N.shiftr (m * Z.to_N (10 ^ sh)) 53) 0) as [Hsh2|Hsh2]; cbn [negb] in H; [|discriminate H].
  apply shiftr_zero_lt in Hsh2.
  apply Some_inj in H. subst bits. rewrite f_cast_pow10_F64. f_equal.
  replace (0 <? 22) with true by reflexivity. change (Z.abs 22) with 22. rewrite F64_POW10_Z by lia.
  set (v := (m * Z.to_N (10 ^ sh))%N) in *.
  assert (Hv : Z.of_N v = Z.of_N m * 10 ^ sh) by (unfold v; rewrite N2Z.inj_mul, Z2N.id by lia; reflexivity).
  rewrite mul_pow10_oracle.
  - rewrite Hv. replace e with (sh + 22) by (unfold sh; lia). apply rne_decimal_shift; lia.
  - unfold v. nia.
  - change (2 ^ 53) with (Z.of_N (2 ^ 53)). lia.
  - lia.
Qed.

(* m < 2^53, -22 <= e <= 37: the rounded value is far below 2^1024 (m * 10^e < 2^53 * 10^37 < 2^200) *)
Lemma fast_value_small (m e : Z) : 0 <= m -> m < 2 ^ 53 -> -22 <= e <= 37 ->
  (Rabs (RNE64 (IZR m * powerRZ 10 e)) < bpow radix2 1024)%R.
Proof.
  intros Hm Hlt He.
  apply Rle_lt_trans with (bpow radix2 200); [|apply bpow_lt; lia].
  apply RNE64_abs_le; [apply format_bpow64; lia|].
  rewrite Rabs_pos_eq.
  - destruct (Z.leb_spec 0 e) as [Hpos|Hneg].
    + rewrite powerRZ_10_nonneg by lia. rewrite <- mult_IZR, bpow_IZR by lia. apply IZR_le.
      apply Z.le_trans with (2 ^ 53 * 10 ^ 37).
      { apply Z.mul_le_mono_nonneg; try lia. apply Z.pow_le_mono_r; lia. }
      apply Z.leb_le. vm_compute. reflexivity.
    + replace e with (- (- e)) by lia. rewrite powerRZ_10_neg by lia.
      apply Rle_trans with (IZR m).
      { assert (Hp : (1 <= IZR (10 ^ (- e)))%R).
        { apply IZR_le. assert (0 < 10 ^ (- e)) by (apply Z.pow_pos_nonneg; lia). lia. }
        assert (Hm' : (0 <= IZR m)%R) by (apply IZR_le; lia).
        rewrite <- (Rmult_1_r (IZR m)) at 2.
        apply Rmult_le_compat_l; [exact Hm'|].
        rewrite <- Rinv_1. apply Rinv_le_contravar; [lra|exact Hp]. }
      rewrite bpow_IZR by lia. apply IZR_le. assert (2 ^ 53 < 2 ^ 200) by reflexivity. lia.
  - apply Rmult_le_pos; [apply IZR_le; lia|]. apply powerRZ_le. lra.
Qed.

(* with the oracle theorem: the fast path answer is the IEEE value nearest to m * 10^e *)
Corollary lex_fast_correct_real : forall (m : N) (e : Z) (bits : N),
  (0 < m)%N -> fast_path F64 m e = Some bits ->
  exists f : b64, bits = bits_of_b64 f /\ is_finite f = true /\ Bsign f = false /\
                  B2R f = RNE64 (IZR (Z.of_N m) * powerRZ 10 e).
Proof.
  intros m e bits Hm H. exists (rne_decimal (Z.of_N m) e).
  split; [apply lex_fast_correct; exact H|].
  assert (Hlt : Z.of_N m < 2 ^ 53 /\ -22 <= e <= 37).
  { unfold fast_path in H. change (EXP_LIMIT_MIN F64) with (-22) in H. change (EXP_LIMIT_MAX F64) with 22 in H.
    change (MANTISSA_LIMIT F64) with 15 in H. change (Z.to_N (MANTISSA_SIZE F64 + 1)) with 53%N in H.
    destruct (N.eqb_spec m 0) as [Hm0|Hm0]; [lia|].
    destruct (N.eqb_spec (N.shiftr m 53) 0) as [Hsh|Hsh]; cbn [negb] in H; [|discriminate H].
    apply shiftr_zero_lt in Hsh. split; [change (2 ^ 53) with (Z.of_N (2 ^ 53)); lia|].
    destruct (Z.eqb_spec e 0) as [He0|He0]; [lia|].
    destruct ((-22 <=? e) && (e <=? 22)) eqn:Hr.
    - apply andb_prop in Hr. destruct Hr as (Hr1 & Hr2). apply Z.leb_le in Hr1, Hr2. lia.
    - destruct ((0 <=? e) && (e <=? 22 + 15)) eqn:Hd; [|discriminate H].
      apply andb_prop in Hd. destruct Hd as (Hd1 & Hd2). apply Z.leb_le in Hd1, Hd2. lia. }
  destruct Hlt as (Hlt & He).
  destruct (rne_decimal_correct (Z.of_N m) e ltac:(lia)) as (H1 & H2 & H3).
  - apply fast_value_small; lia.
  - split; [exact H1|]. split; [exact H3|exact H2].
Qed.

(* in terms of Model/Num.v: whenever the fast path of the algorithm answers, it answers what the specification
   `f64_fr` (by which Model/Num.v represents lexical::parse_concise_float) answers — never "out of range" *)
Theorem lex_fast_refines : forall (sig : N) (e : Z) (bits : N),
  fast_path F64 sig e = Some bits ->
  exists f : b64, f64_fr sig e = Some f /\ bits_of_b64 f = bits /\
                  parse_concise_float F64 sig e = bits.
Proof.
  intros sig e bits H. exists (rne_decimal (Z.of_N sig) e).
  assert (Hb : bits = bits_of_b64 (rne_decimal (Z.of_N sig) e)) by (apply lex_fast_correct; exact H).
  split; [|split; [symmetry; exact Hb|unfold parse_concise_float, concise_trace; rewrite H; reflexivity]].
  unfold f64_fr. cbv zeta.
  destruct (N.eq_dec sig 0) as [->|Hne].
  - reflexivity.
  - destruct (lex_fast_correct_real sig e bits ltac:(lia) H) as (f & Hf & Hfin & _ & _).
    assert (Hni : b64_is_inf (rne_decimal (Z.of_N sig) e) = false).
    { (* bits determine infinity: the fast-path result is finite *)
      destruct (rne_decimal_cases (Z.of_N sig) e ltac:(lia)) as [(F1 & _)|(I1 & G1)].
      - destruct (rne_decimal (Z.of_N sig) e); try reflexivity; discriminate F1.
      - exfalso.
        (* the rounded value is below 2^200, see lex_fast_correct_real: reuse its finiteness through B2R *)
        assert (Hfast : Z.of_N sig < 2 ^ 53 /\ -22 <= e <= 37).
        { unfold fast_path in H. change (EXP_LIMIT_MIN F64) with (-22) in H. change (EXP_LIMIT_MAX F64) with 22 in H.
          change (MANTISSA_LIMIT F64) with 15 in H. change (Z.to_N (MANTISSA_SIZE F64 + 1)) with 53%N in H.
          destruct (N.eqb_spec sig 0) as [Hm0|Hm0]; [lia|].
          destruct (N.eqb_spec (N.shiftr sig 53) 0) as [Hsh|Hsh]; cbn [negb] in H; [|discriminate H].
          apply shiftr_zero_lt in Hsh. split; [change (2 ^ 53) with (Z.of_N (2 ^ 53)); lia|].
          destruct (Z.eqb_spec e 0) as [He0|He0]; [lia|].
          destruct ((-22 <=? e) && (e <=? 22)) eqn:Hr.
          - apply andb_prop in Hr. destruct Hr as (Hr1 & Hr2). apply Z.leb_le in Hr1, Hr2. lia.
          - destruct ((0 <=? e) && (e <=? 22 + 15)) eqn:Hd; [|discriminate H].
            apply andb_prop in Hd. destruct Hd as (Hd1 & Hd2). apply Z.leb_le in Hd1, Hd2. lia. }
        destruct Hfast as (Hlt & He).
        apply (Rlt_not_le _ _ (fast_value_small (Z.of_N sig) e ltac:(lia) Hlt He)). exact G1. }
    rewrite Hni. reflexivity.
Qed.

Print Assumptions lex_fast_correct.
Print Assumptions lex_fast_refines.
Print Assumptions lex_fast_correct_real.
