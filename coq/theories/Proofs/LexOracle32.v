(* Proofs/LexOracle32.v — the binary32 oracle `rne_decimal32` (Model/Lex.v) is round-to-nearest-even of m * 10^e:
   the binary32 twin of FloatOracle.rne_decimal_correct / LexOracle.rne_decimal_overflow / LexRnd.oracle64_bracket
   (same construction: exact integer for e >= 0, otherwise a quotient with >= 70 significant bits made odd when inexact,
   i.e. rounded to odd in an extended format, then one rounding to nearest even: Flocq's round_N_odd).

     rne_decimal32_cases   finite with B2R = RNE32 (m * 10^e) < 2^128, or +infinity with RNE32 (m * 10^e) >= 2^128
     oracle32_any          bits_of_b32 (rne_decimal32 D e) = rne_bits F32 x M E   from a canonical bracket (M, E) of x = D * 10^e
     oracle32_overflow     2^128 <= x -> rne_decimal32 D e = +infinity *)
From Coq Require Import ZArith NArith Reals Lia Lra List Bool Psatz.
From Flocq Require Import Core BinarySingleNaN Round_odd.
From SJ Require Import Base.Bytes Base.FloatB Gen.Tables Gen.LexTables Model.Read Model.Num Model.Lex.
From SJ Require Import Proofs.FloatDefault Proofs.FloatOracle Proofs.LexRnd Proofs.LexBits Proofs.LexAtof Proofs.LexBh.
Open Scope Z_scope.

Notation fexp32 := (FLT_exp (-149) 24).
Definition RNE32 (x : R) : R := round radix2 fexp32 ZnearestE x.

Lemma fexp32_conv : SpecFloat.fexp 24 128 = fexp32.
Proof. reflexivity. Qed.

Lemma valid_fexp32 : Valid_exp fexp32.
Proof. apply FLT_exp_valid. reflexivity. Qed.

Lemma RNE32_0 : RNE32 0 = 0%R.
Proof. unfold RNE32. apply round_0. apply valid_rnd_N. Qed.

Lemma RNE32_ge_generic x y : generic_format radix2 fexp32 x -> (x <= y)%R -> (x <= RNE32 y)%R.
Proof. intros Hx H. unfold RNE32. apply round_ge_generic; [apply valid_fexp32|apply valid_rnd_N|exact Hx|exact H]. Qed.

Lemma format_bpow32 (k : Z) : -149 <= k -> generic_format radix2 fexp32 (bpow radix2 k).
Proof. intros Hk. apply generic_format_bpow. unfold FLT_exp. lia. Qed.

Lemma RNE32_tiny (x : R) : (Rabs x < bpow radix2 (-150))%R -> RNE32 x = 0%R.
Proof.
  intros Hx. destruct (Req_dec x 0) as [->|Hnz]; [apply RNE32_0|].
  destruct (mag radix2 x) as [ex Hex]. specialize (Hex Hnz).
  unfold RNE32. apply round_N_small with (ex := ex); [exact Hex|].
  assert (ex - 1 < -150). { apply (lt_bpow radix2). apply Rle_lt_trans with (Rabs x); tauto. }
  unfold FLT_exp. lia.
Qed.

Lemma bn32_correct (m e : Z) (sz : bool) :
  (Rabs (RNE32 (F2R (Float radix2 m e))) < bpow radix2 128)%R ->
  let z := binary_normalize 24 128 prec24_gt_0 prec24_lt_emax mode_NE m e sz in
  B2R z = RNE32 (F2R (Float radix2 m e)) /\ is_finite z = true /\
  Bsign z = match Rcompare (F2R (Float radix2 m e)) 0 with Eq => sz | Lt => true | Gt => false end.
Proof.
  intros Hlt z.
  pose proof (binary_normalize_correct 24 128 prec24_gt_0 prec24_lt_emax mode_NE m e sz) as H.
  cbn zeta in H. cbn [round_mode] in H. rewrite fexp32_conv in H. fold (RNE32 (F2R (Float radix2 m e))) in H.
  rewrite Rlt_bool_true in H by exact Hlt. exact H.
Qed.

Lemma bn32_overflow (m e : Z) (sz : bool) :
  (0 < F2R (Float radix2 m e))%R ->
  (bpow radix2 128 <= Rabs (RNE32 (F2R (Float radix2 m e))))%R ->
  binary_normalize 24 128 prec24_gt_0 prec24_lt_emax mode_NE m e sz = B754_infinity false.
Proof.
  intros Hpos Hge.
  pose proof (binary_normalize_correct 24 128 prec24_gt_0 prec24_lt_emax mode_NE m e sz) as H.
  cbn zeta in H. cbn [round_mode] in H. rewrite fexp32_conv in H. fold (RNE32 (F2R (Float radix2 m e))) in H.
  rewrite Rlt_bool_false in H by exact Hge.
  rewrite Rlt_bool_false in H by (apply Rlt_le; exact Hpos).
  unfold binary_overflow in H. cbn [overflow_to_inf] in H.
  destruct (binary_normalize 24 128 prec24_gt_0 prec24_lt_emax mode_NE m e sz) as [s|s| |s mm ee Hb];
    cbn [B2SF] in H; try discriminate H.
  injection H as ->. reflexivity.
Qed.

(* ------------------------------------------------------------------ *)
(** * the extended format of the odd quotient *)
Section OddQuotient32.
Variables (m d k : Z).
Hypothesis Hm : 0 < m.
Hypothesis Hd : 0 < d.
Hypothesis Hk : 0 <= k.
Hypothesis Hbig : 2 ^ 70 * d <= m * 2 ^ k.

Let x : R := (IZR m / IZR d)%R.
Let pe : Z := mag radix2 x + k.
Let fexpe : Z -> Z := FLT_exp (Z.min (- k) (-151)) pe.

Lemma q_dR : (0 < IZR d)%R. Proof. apply IZR_lt. exact Hd. Qed.
Lemma q_mR : (0 < IZR m)%R. Proof. apply IZR_lt. exact Hm. Qed.
Lemma q_x_pos : (0 < x)%R.
Proof. unfold x. apply Rdiv_lt_0_compat; [apply q_mR|apply q_dR]. Qed.

Lemma q_scaled : (x * bpow radix2 k = IZR (m * 2 ^ k) / IZR d)%R.
Proof. unfold x. rewrite mult_IZR, bpow_IZR by exact Hk. field. pose proof q_dR. lra. Qed.

Lemma q_pe_ge : 71 <= pe.
Proof.
  unfold pe. rewrite <- mag_mult_bpow by (pose proof q_x_pos; lra).
  apply mag_ge_bpow. rewrite q_scaled.
  pose proof q_dR as HdR.
  rewrite Rabs_pos_eq.
  - change (71 - 1) with 70. rewrite bpow_IZR by lia.
    apply Rmult_le_reg_r with (IZR d); [exact HdR|].
    unfold Rdiv. rewrite Rmult_assoc, Rinv_l, Rmult_1_r by lra.
    rewrite <- mult_IZR. apply IZR_le. exact Hbig.
  - apply Rlt_le, Rdiv_lt_0_compat; [|exact HdR]. apply IZR_lt.
    pose proof (pow2_pos k Hk). nia.
Qed.

Lemma q_prec : Prec_gt_0 pe.
Proof. unfold Prec_gt_0. pose proof q_pe_ge. lia. Qed.

Lemma q_valid : Valid_exp fexpe.
Proof. unfold fexpe. apply FLT_exp_valid. exact q_prec. Qed.

Lemma q_NE : Exists_NE radix2 fexpe.
Proof. unfold fexpe. apply exists_NE_FLT. right. pose proof q_pe_ge. lia. Qed.

Lemma q_fexpe_le (e : Z) : fexpe e <= fexp32 e - 2.
Proof. unfold fexpe, FLT_exp. pose proof q_pe_ge. lia. Qed.

Lemma q_cexp : cexp radix2 fexpe x = - k.
Proof. unfold cexp, fexpe, FLT_exp, pe. lia. Qed.

Lemma q_round_odd :
  round radix2 fexpe Zrnd_odd x = F2R (Float radix2 (odd_fix (m * 2 ^ k) d) (- k)).
Proof.
  unfold round, scaled_mantissa. rewrite q_cexp, Z.opp_involutive, q_scaled.
  rewrite Zrnd_odd_quot by exact Hd. reflexivity.
Qed.

Lemma q_RNE : RNE32 (F2R (Float radix2 (odd_fix (m * 2 ^ k) d) (- k))) = RNE32 x.
Proof.
  rewrite <- q_round_odd. unfold RNE32.
  apply (@round_N_odd radix2 eq_refl fexp32 fexpe (fun z => negb (Z.even z))
           valid_fexp32 (exists_NE_FLT radix2 (-149) 24 (or_intror eq_refl)) q_valid q_NE q_fexpe_le).
Qed.

Lemma q_num_pos : 0 < odd_fix (m * 2 ^ k) d.
Proof. apply odd_fix_pos; [exact Hd|]. assert (0 < 2 ^ 70) by reflexivity. nia. Qed.

End OddQuotient32.

(* ------------------------------------------------------------------ *)
(** * the guards *)
Lemma guard_small32 (m e : Z) : 0 < m -> e < - (400 + Z.log2 m) ->
  (Rabs (IZR m * powerRZ 10 e) < bpow radix2 (-150))%R.
Proof.
  intros Hm He. apply Rlt_trans with (1 := guard_small m e Hm He). apply bpow_lt. lia.
Qed.

Lemma guard_big32 (m e : Z) : 0 < m -> 400 < e ->
  (bpow radix2 128 <= Rabs (RNE32 (IZR m * powerRZ 10 e)))%R.
Proof.
  intros Hm He. rewrite powerRZ_10_nonneg by lia. rewrite <- mult_IZR.
  assert (H : 2 ^ 128 <= m * 10 ^ e).
  { apply Z.le_trans with (1 * 10 ^ 401).
    - apply Z.leb_le. vm_compute. reflexivity.
    - apply Z.mul_le_mono_nonneg; [lia|lia|apply Z.pow_nonneg; lia|apply Z.pow_le_mono_r; lia]. }
  assert (Hge : (bpow radix2 128 <= RNE32 (IZR (m * 10 ^ e)))%R).
  { apply RNE32_ge_generic; [apply format_bpow32; lia|]. rewrite bpow_IZR by lia. apply IZR_le. exact H. }
  rewrite Rabs_pos_eq; [exact Hge|]. pose proof (bpow_gt_0 radix2 128). lra.
Qed.

(* ------------------------------------------------------------------ *)
(** * the oracle theorem *)
Theorem rne_decimal32_correct : forall m e, (0 < m)%Z ->
  (Rabs (RNE32 (IZR m * powerRZ 10 e)) < bpow radix2 128)%R ->
  is_finite (rne_decimal32 m e) = true /\
  B2R (rne_decimal32 m e) = RNE32 (IZR m * powerRZ 10 e) /\
  Bsign (rne_decimal32 m e) = false.
Proof.
  intros m e Hm Hlt. unfold rne_decimal32.
  replace (m <=? 0) with false by (symmetry; apply Z.leb_gt; exact Hm).
  destruct (Z.ltb_spec 400 e) as [Hbig|Hle].
  { exfalso. apply (Rlt_not_le _ _ Hlt). apply guard_big32; assumption. }
  destruct (Z.ltb_spec e (- (400 + Z.log2 m))) as [Hsmall|Hge].
  { cbn [is_finite B2R Bsign]. rewrite RNE32_tiny by (apply guard_small32; assumption). auto. }
  destruct (Z.leb_spec 0 e) as [Hpos|Hneg].
  - assert (HF : F2R (Float radix2 (m * 10 ^ e) 0) = (IZR m * powerRZ 10 e)%R).
    { rewrite F2R_e0, mult_IZR, powerRZ_10_nonneg by exact Hpos. reflexivity. }
    destruct (bn32_correct (m * 10 ^ e) 0 false) as (H1 & H2 & H3); [rewrite HF; exact Hlt|].
    rewrite HF in H1, H3. split; [exact H2|]. split; [exact H1|]. rewrite H3.
    rewrite Rcompare_Gt; [reflexivity|]. rewrite powerRZ_10_nonneg by exact Hpos.
    apply Rmult_lt_0_compat; apply IZR_lt; [exact Hm|apply pow10_pos; exact Hpos].
  - cbn zeta.
    set (d := 10 ^ (- e)). set (k := Z.max 0 (70 + Z.log2_up d - Z.log2 m)).
    assert (Hd1 : 1 < d).
    { unfold d. apply Z.lt_le_trans with (10 ^ 1); [reflexivity|apply Z.pow_le_mono_r; lia]. }
    destruct (scale_big m d Hm Hd1) as (Hk & Hbig). fold k in Hk, Hbig.
    assert (Hd : 0 < d) by lia.
    change (if m * 2 ^ k mod d =? 0 then m * 2 ^ k / d
            else if Z.even (m * 2 ^ k / d) then m * 2 ^ k / d + 1 else m * 2 ^ k / d)
      with (odd_fix (m * 2 ^ k) d).
    assert (Hx : (IZR m * powerRZ 10 e = IZR m / IZR d)%R).
    { replace e with (- (- e)) by lia. rewrite powerRZ_10_neg by lia. reflexivity. }
    rewrite Hx in Hlt |- *.
    pose proof (q_RNE m d k Hm Hd Hk Hbig) as HR.
    destruct (bn32_correct (odd_fix (m * 2 ^ k) d) (- k) false) as (H1 & H2 & H3); [rewrite HR; exact Hlt|].
    split; [exact H2|]. split; [rewrite H1; exact HR|]. rewrite H3.
    rewrite Rcompare_Gt; [reflexivity|]. apply F2R_gt_0. cbn [Fnum].
    apply (q_num_pos m d k Hm Hd Hk Hbig).
Qed.

Theorem rne_decimal32_overflow : forall m e, (0 < m)%Z ->
  (bpow radix2 128 <= Rabs (RNE32 (IZR m * powerRZ 10 e)))%R ->
  rne_decimal32 m e = B754_infinity false.
Proof.
  intros m e Hm Hge. unfold rne_decimal32.
  replace (m <=? 0) with false by (symmetry; apply Z.leb_gt; exact Hm).
  destruct (Z.ltb_spec 400 e) as [Hbig|Hle]; [reflexivity|].
  destruct (Z.ltb_spec e (- (400 + Z.log2 m))) as [Hsmall|Hge'].
  { exfalso. rewrite RNE32_tiny in Hge by (apply guard_small32; assumption).
    rewrite Rabs_R0 in Hge. pose proof (bpow_gt_0 radix2 128). lra. }
  destruct (Z.leb_spec 0 e) as [Hpos|Hneg].
  - assert (HF : F2R (Float radix2 (m * 10 ^ e) 0) = (IZR m * powerRZ 10 e)%R).
    { rewrite F2R_e0, mult_IZR, powerRZ_10_nonneg by exact Hpos. reflexivity. }
    apply bn32_overflow.
    + rewrite HF. rewrite powerRZ_10_nonneg by exact Hpos.
      apply Rmult_lt_0_compat; apply IZR_lt; [exact Hm|apply pow10_pos; exact Hpos].
    + rewrite HF. exact Hge.
  - cbn zeta.
    set (d := 10 ^ (- e)). set (k := Z.max 0 (70 + Z.log2_up d - Z.log2 m)).
    assert (Hd1 : 1 < d).
    { unfold d. apply Z.lt_le_trans with (10 ^ 1); [reflexivity|apply Z.pow_le_mono_r; lia]. }
    destruct (scale_big m d Hm Hd1) as (Hk & Hbig). fold k in Hk, Hbig.
    assert (Hd : 0 < d) by lia.
    change (if m * 2 ^ k mod d =? 0 then m * 2 ^ k / d
            else if Z.even (m * 2 ^ k / d) then m * 2 ^ k / d + 1 else m * 2 ^ k / d)
      with (odd_fix (m * 2 ^ k) d).
    assert (Hx : (IZR m * powerRZ 10 e = IZR m / IZR d)%R).
    { replace e with (- (- e)) by lia. rewrite powerRZ_10_neg by lia. reflexivity. }
    rewrite Hx in Hge.
    pose proof (q_RNE m d k Hm Hd Hk Hbig) as HR.
    apply bn32_overflow.
    + apply F2R_gt_0. cbn [Fnum]. apply (q_num_pos m d k Hm Hd Hk Hbig).
    + rewrite HR. exact Hge.
Qed.

Theorem rne_decimal32_cases : forall m e, (0 < m)%Z ->
  (is_finite (rne_decimal32 m e) = true /\ Bsign (rne_decimal32 m e) = false /\
   B2R (rne_decimal32 m e) = RNE32 (IZR m * powerRZ 10 e) /\
   (Rabs (RNE32 (IZR m * powerRZ 10 e)) < bpow radix2 128)%R)
  \/ (rne_decimal32 m e = B754_infinity false /\ (bpow radix2 128 <= Rabs (RNE32 (IZR m * powerRZ 10 e)))%R).
Proof.
  intros m e Hpos.
  destruct (Rlt_le_dec (Rabs (RNE32 (IZR m * powerRZ 10 e))) (bpow radix2 128)) as [Hlt|Hge].
  - left. destruct (rne_decimal32_correct m e Hpos Hlt) as (H1 & H2 & H3). repeat split; assumption.
  - right. split; [apply rne_decimal32_overflow; assumption|exact Hge].
Qed.

(* ------------------------------------------------------------------ *)
(** * bits *)
Theorem bits_of_b32_canon : forall (f : b32) (M E : Z),
  is_finite f = true -> Bsign f = false -> B2R f = (IZR M * bpow radix2 E)%R ->
  0 <= M -> M < 2 ^ 24 -> -149 <= E -> (E = -149 \/ 2 ^ 23 <= M) ->
  bits_of_b32 f = Z.to_N (encZ F32 M E).
Proof.
  intros f M E Hfin Hs HR HM0 HM HE Hcan.
  destruct f as [s|s| |s m e Hb]; try discriminate Hfin.
  - cbn [Bsign] in Hs. subst s. cbn [B2R] in HR.
    assert (M = 0).
    { destruct (Z.eq_dec M 0) as [H0|H0]; [exact H0|exfalso].
      assert (0 < IZR M)%R by (apply IZR_lt; lia). pose proof (bpow_gt_0 radix2 E). nra. }
    subst M. reflexivity.
  - cbn [Bsign] in Hs. subst s.
    assert (Hpos : 0 < M).
    { destruct (Z.eq_dec M 0) as [H0|H0]; [exfalso|lia]. subst M.
      cbn [B2R] in HR. rewrite Rmult_0_l in HR.
      pose proof (F2R_gt_0 radix2 (Float radix2 (Zpos m) e) ltac:(reflexivity)) as Hgt.
      cbn [cond_Zopp] in HR. lra. }
    assert (C1 : canonical radix2 fexp32 (Float radix2 (Zpos m) e)).
    { rewrite <- fexp32_conv. apply (canonical_bounded 24 128 false m e Hb). }
    assert (C2 : canonical radix2 fexp32 (Float radix2 M E)).
    { apply canonical_ME; try assumption; try lia. }
    assert (Heq : Float radix2 (Zpos m) e = Float radix2 M E).
    { apply (canonical_unique radix2 fexp32); [exact C1|exact C2|].
      cbn [B2R cond_Zopp] in HR. rewrite HR. reflexivity. }
    injection Heq as HmM HeE. subst M E.
    unfold bits_of_b32, encZ. kconst. change (2 ^ 23) with 8388608.
    destruct (Z.ltb_spec (Zpos m) 8388608) as [Hlt|Hge].
    + reflexivity.
    + change (0 + Z.to_N (e + 150) * 8388608 + (N.pos m - 8388608))%N
        with (Z.to_N (e + 150) * 8388608 + (N.pos m - 8388608))%N.
      lia.
Qed.

Theorem oracle32_overflow : forall (D e : Z), 0 < D ->
  (bpow radix2 128 <= IZR D * powerRZ 10 e)%R ->
  rne_decimal32 D e = B754_infinity false.
Proof.
  intros D e HD Hge. apply rne_decimal32_overflow; [exact HD|].
  assert (H : (bpow radix2 128 <= RNE32 (IZR D * powerRZ 10 e))%R).
  { apply RNE32_ge_generic; [apply format_bpow32; lia|exact Hge]. }
  rewrite Rabs_pos_eq; [exact H|]. pose proof (bpow_gt_0 radix2 128). lra.
Qed.

Theorem oracle32_any : forall D e M E : Z, 0 < D -> 0 <= M < 2 ^ prec F32 -> DENORMAL_EXPONENT F32 <= E ->
  (E = DENORMAL_EXPONENT F32 \/ 2 ^ MANTISSA_SIZE F32 <= M) -> in_ulp (IZR D * powerRZ 10 e) M E ->
  bits_of_b32 (rne_decimal32 D e) = rne_bits F32 (IZR D * powerRZ 10 e) M E.
Proof.
  intros D e M E HD HM HE Hcan Hin. kconst. change (23 + 1) with 24 in HM.
  set (x := (IZR D * powerRZ 10 e)%R) in *.
  assert (Hx : (0 < x)%R) by (apply dval_pos; exact HD).
  change (2 ^ 24) with 16777216 in *. change (2 ^ 23) with 8388608 in *.
  destruct (Z.le_gt_cases E 104) as [Hle|Hgt].
  - pose proof (round_NE_bracket 24 (-149) ltac:(lia) x M E Hx ltac:(lia) ltac:(change (2 ^ 24) with 16777216; lia) ltac:(lia)
                  ltac:(change (2 ^ (24 - 1)) with 8388608; exact Hcan) Hin) as HR.
    fold (RNE32 x) in HR.
    unfold rne_bits.
    set (d := dec_of (Rcompare x (IZR (2 * M + 1) * bpow radix2 (E - 1))) M) in *.
    assert (Hd : 0 <= d <= 1) by apply dec_of_range.
    change (Z.of_N (INFINITY_BITS F32)) with 2139095040.
    destruct (rne_decimal32_cases D e HD) as [(Hfin & Hsg & HB & Hlt)|(Hinf & Hge)]; fold x in HB, Hlt || fold x in Hge.
    + rewrite HR in HB.
      destruct (Z.eq_dec (M + d) 16777216) as [Hc|Hc].
      * assert (HE' : E < 104).
        { destruct (Z.eq_dec E 104) as [->|Hne]; [exfalso|lia].
          rewrite HR, Hc in Hlt. rewrite Rabs_pos_eq in Hlt.
          - change 16777216 with (2 ^ 24) in Hlt. rewrite <- bpow_IZR in Hlt by lia. rewrite <- bpow_plus in Hlt. simpl (24 + 104) in Hlt. lra.
          - apply Rmult_le_pos; [apply IZR_le; lia|apply bpow_ge_0]. }
        rewrite (bits_of_b32_canon (rne_decimal32 D e) 8388608 (E + 1) Hfin Hsg); try lia.
        -- f_equal. unfold encZ. kconst. change (2 ^ 23) with 8388608.
           replace (8388608 <? 8388608) with false by reflexivity.
           destruct (Z.ltb_spec M 8388608) as [H1|H1]; lia.
        -- rewrite HB, Hc. change 16777216 with (8388608 * 2).
           rewrite mult_IZR, bpow_plus. change (bpow radix2 1) with 2%R. ring.
      * rewrite (bits_of_b32_canon (rne_decimal32 D e) (M + d) E Hfin Hsg HB); try lia.
        f_equal. unfold encZ. kconst. change (2 ^ 23) with 8388608.
        destruct (Z.ltb_spec M 8388608) as [H1|H1]; destruct (Z.ltb_spec (M + d) 8388608) as [H2|H2]; lia.
    + rewrite Hinf. rewrite HR in Hge.
      assert (Hc : M + d = 16777216 /\ E = 104).
      { rewrite Rabs_pos_eq in Hge by (apply Rmult_le_pos; [apply IZR_le; lia|apply bpow_ge_0]).
        assert (Htop : (IZR 16777216 * bpow radix2 104 = bpow radix2 128)%R).
        { change 16777216 with (2 ^ 24). rewrite <- bpow_IZR by lia. rewrite <- bpow_plus. reflexivity. }
        destruct (Z.eq_dec (M + d) 16777216) as [H1|H1]; destruct (Z.eq_dec E 104) as [H2|H2]; try (split; assumption); exfalso.
        - assert (bpow radix2 E <= bpow radix2 103)%R by (apply bpow_le; lia).
          assert (bpow radix2 104 = 2 * bpow radix2 103)%R by (change 104 with (1 + 103); rewrite bpow_plus; reflexivity).
          pose proof (bpow_gt_0 radix2 103). rewrite H1 in Hge. nra.
        - subst E. assert (IZR (M + d) <= IZR (16777216 - 1))%R by (apply IZR_le; lia).
          rewrite minus_IZR in H. pose proof (bpow_gt_0 radix2 104). nra.
        - assert (bpow radix2 E <= bpow radix2 103)%R by (apply bpow_le; lia).
          assert (bpow radix2 104 = 2 * bpow radix2 103)%R by (change 104 with (1 + 103); rewrite bpow_plus; reflexivity).
          pose proof (bpow_gt_0 radix2 103).
          assert (0 <= IZR (M + d) <= IZR 16777216)%R by (split; apply IZR_le; lia). nra. }
      destruct Hc as (Hc & ->). unfold encZ. kconst. change (2 ^ 23) with 8388608.
      destruct (Z.ltb_spec M 8388608) as [H1|H1]; [lia|]. cbn [bits_of_b32]. lia.
  - assert (HMn : 8388608 <= M) by (destruct Hcan as [->|H]; [lia|exact H]).
    assert (Hxb : (bpow radix2 128 <= x)%R).
    { destruct Hin as (Hlo & _). apply Rle_trans with (2 := Hlo).
      change 128 with (23 + 105). rewrite bpow_plus. apply Rmult_le_compat; [apply bpow_ge_0|apply bpow_ge_0| |apply bpow_le; lia].
      rewrite bpow_IZR by lia. apply IZR_le. exact HMn. }
    rewrite (oracle32_overflow D e HD Hxb).
    symmetry. apply (rne_bits_huge F32 x M E); [kconst; change (23 + 1) with 24; change (2 ^ 23) with 8388608; change (2 ^ 24) with 16777216; lia|exact Hin|exact Hxb].
Qed.

Print Assumptions rne_decimal32_cases.
Print Assumptions oracle32_any.
