(* Proofs/ViableExamples.v — the side conditions of C11_eof_viable_partial cannot be dropped.

   For each excluded class one input p with  from_input p = Err <Eof-category code> |p| , the side condition it violates,
   and (classes 1–3) a proof that NO continuation of p is accepted; for the number class a few rejected continuations. *)
From Coq Require Import List NArith ZArith Bool Arith Lia ZifyBool ZifyNat ZifyN.
From SJ Require Import Base.Bytes Base.Utf8 Base.FloatB Gen.Tables Model.Read Model.Str Model.Num Model.Value Model.De
  Spec.Syntax Spec.Denote.
From SJ Require Import Proofs.Utf8Lemmas Proofs.GrammarStr Proofs.GrammarNum Proofs.GrammarValueBase Proofs.GrammarFinal
  Proofs.ViableBase Proofs.ViableStr Proofs.ViableNum Proofs.ViableDe Proofs.Viable.
Import ListNotations.
Open Scope N_scope.

Local Notation SE cf := (mkEnv RSlice TEof cf).
Ltac lnm := repeat (rewrite <- ?app_assoc; cbn [app]).

Definition cfg0 := mkCfg false false false false.

(* ---- an accepted text that starts with a quote is one string literal followed by whitespace ---- *)
Lemma quote_head_str cf bs v : Forall P256 (34 :: bs) -> from_input (SE cf) (34 :: bs) = Ok v ->
  exists ps w2, bs = flat_map render_piece ps ++ 34 :: w2 /\ str_ok ps = true /\ str_text ps <> None.
Proof.
  intros HF H. apply value_sound_slice in H; [|exact HF].
  destruct H as (w1 & c & w2 & H1 & Hw1 & _ & Hwf & Hden & _).
  destruct w1 as [|b w1'].
  2:{ exfalso. cbn [app] in H1. injection H1 as <- _. unfold ws_ok in Hw1. cbn [forallb] in Hw1. discriminate Hw1. }
  cbn [app] in H1. destruct c as [| | |n|s|w es|w ms].
  - discriminate H1.
  - discriminate H1.
  - discriminate H1.
  - exfalso. cbn [render wfb] in *. rewrite render_num_abs in H1. destruct (nneg n); [discriminate H1|].
    destruct (render_abs_head n Hwf) as (d & r & Hr & Hd). rewrite Hr in H1. cbn [app] in H1. injection H1 as <- _.
    discriminate Hd.
  - cbn [render wfb denote] in *. unfold render_str in H1. cbn [app] in H1. injection H1 as H1.
    exists s, w2. split; [rewrite H1; lnm; reflexivity|]. split; [exact Hwf|].
    destruct (str_text s); [discriminate|discriminate Hden].
  - rewrite render_arr in H1. discriminate H1.
  - rewrite render_obj in H1. discriminate H1.
Qed.

(* ================= class 1: invalid UTF-8 inside the unterminated string ========================= *)
Definition p_utf8 : bytes := [34; 255].                                   (* quote, 0xff *)
Example p_utf8_eof : from_input (SE cfg0) p_utf8 = Err EofWhileParsingString 2.
Proof. vm_compute. reflexivity. Qed.
Example p_utf8_closed : from_input (SE cfg0) (p_utf8 ++ [34]) = Err InvalidUnicodeCodePoint 3.
Proof. vm_compute. reflexivity. Qed.

Lemma utf8_ff x : utf8_valid (255 :: x) = false.
Proof. destruct x as [|b1 [|b2 [|b3 x3]]]; reflexivity. Qed.

Lemma p_utf8_not_prefix : ~ utf8_prefix p_utf8.
Proof.
  intros (cmp & _ & H). unfold p_utf8 in H. cbn [app] in H. rewrite utf8_valid_cons_ascii in H by lia.
  rewrite utf8_ff in H. discriminate H.
Qed.

Theorem p_utf8_dead : forall cf t v, Forall P256 t -> from_input (SE cf) (p_utf8 ++ t) <> Ok v.
Proof.
  intros cf t v HF H. unfold p_utf8 in H. cbn [app] in H.
  apply quote_head_str in H as (ps & w2 & Hbs & Hok & Htext).
  2:{ constructor; [unfold P256; lia|]. constructor; [unfold P256; lia|exact HF]. }
  destruct ps as [|[b|c|a b c d] ps']; cbn [flat_map render_piece app] in Hbs; try discriminate Hbs.
  injection Hbs as <- _. apply Htext. unfold str_text. rewrite str_decode_raw.
  destruct (str_decode ps') as [w|]; cbn [option_map]; [|reflexivity]. rewrite utf8_ff. reflexivity.
Qed.

(* ================= class 2: a partial \u escape with a non-hex digit ============================= *)
Definition p_hex : bytes := [34; 92; 117; 90].                            (* quote \uZ *)
Example p_hex_eof : from_input (SE cfg0) p_hex = Err EofWhileParsingString 4.
Proof. vm_compute. reflexivity. Qed.
Example p_hex_not_ok : esc_tail_ok p_hex = false.
Proof. vm_compute. reflexivity. Qed.
Example p_hex_padded : from_input (SE cfg0) (p_hex ++ [48; 48; 48; 34]) = Err InvalidEscape 7.
Proof. vm_compute. reflexivity. Qed.

Theorem p_hex_dead : forall cf t v, Forall P256 t -> from_input (SE cf) (p_hex ++ t) <> Ok v.
Proof.
  intros cf t v HF H. unfold p_hex in H. cbn [app] in H.
  apply quote_head_str in H as (ps & w2 & Hbs & Hok & _).
  2:{ repeat (constructor; [unfold P256; lia|]). exact HF. }
  destruct ps as [|[b|c|a b c d] ps']; cbn [flat_map render_piece app] in Hbs; try discriminate Hbs;
    unfold str_ok in Hok; cbn [forallb] in Hok; apply andb_prop in Hok as [Hpc _].
  - injection Hbs as <- _. discriminate Hpc.
  - injection Hbs as <- _. discriminate Hpc.
  - injection Hbs as <- _. discriminate Hpc.
Qed.

(* the lexer distinguishes this from an escaped backslash followed by the letters u s *)
Example path_ok : esc_tail_ok [34; 67; 58; 92; 92; 117; 115] = true.     (* quote C:\\us *)
Proof. vm_compute. reflexivity. Qed.

(* ================= class 3: a partial \u escape that can only become a lone low surrogate ========= *)
Definition p_low : bytes := [34; 92; 117; 100; 99].                       (* quote \udc *)
Example p_low_eof : from_input (SE cfg0) p_low = Err EofWhileParsingString 5.
Proof. vm_compute. reflexivity. Qed.
Example p_low_not_ok : esc_tail_ok p_low = false.
Proof. vm_compute. reflexivity. Qed.
Example p_low_padded : from_input (SE cfg0) (p_low ++ [48; 48; 34]) = Err LoneLeadingSurrogateInHexEscape 7.
Proof. vm_compute. reflexivity. Qed.

Theorem p_low_dead : forall cf t v, Forall P256 t -> from_input (SE cf) (p_low ++ t) <> Ok v.
Proof.
  intros cf t v HF H. unfold p_low in H. cbn [app] in H.
  apply quote_head_str in H as (ps & w2 & Hbs & Hok & Htext).
  2:{ repeat (constructor; [unfold P256; lia|]). exact HF. }
  destruct ps as [|[b|c|a b c d] ps']; cbn [flat_map render_piece app] in Hbs; try discriminate Hbs;
    unfold str_ok in Hok; cbn [forallb] in Hok; apply andb_prop in Hok as [Hpc _].
  - injection Hbs as <- _. discriminate Hpc.
  - injection Hbs as <- _. discriminate Hpc.
  - injection Hbs as <- <- _. cbn [piece_ok] in Hpc.
    apply andb_prop in Hpc as [Hpc Hd]. apply andb_prop in Hpc as [_ Hc].
    apply hexv_lt16 in Hc, Hd. apply Htext. unfold str_text. rewrite str_decode_u4. cbv zeta.
    replace (is_lo_surr (u4_val 100 99 c d)) with true; [reflexivity|].
    unfold is_lo_surr, u4_val. change (hexv 100) with 13. change (hexv 99) with 12. lia.
Qed.

(* after a high surrogate the second escape must be able to become a low surrogate *)
Definition p_pair : bytes := [34; 92; 117; 100; 56; 48; 48; 92; 117; 49; 50].     (* quote \ud800\u12 *)
Example p_pair_eof : from_input (SE cfg0) p_pair = Err EofWhileParsingString 11.
Proof. vm_compute. reflexivity. Qed.
Example p_pair_not_ok : esc_tail_ok p_pair = false.
Proof. vm_compute. reflexivity. Qed.
Example p_pair_good : esc_tail_ok [34; 92; 117; 100; 56; 48; 48; 92; 117; 100] = true.   (* quote \ud800\ud *)
Proof. vm_compute. reflexivity. Qed.

(* ================= class 4: e+ after a mantissa that is already out of range ====================== *)
Definition p_range : bytes := 49 :: repeat 48 330 ++ [101; 43].                  (*  1 0{330} e+  *)
Example p_range_eof : from_input (SE cfg0) p_range = Err EofWhileParsingValue 333.
Proof. vm_compute. reflexivity. Qed.
Example p_range_0 : from_input (SE cfg0) (p_range ++ [48]) = Err NumberOutOfRange 334.
Proof. vm_compute. reflexivity. Qed.
Example p_range_00 : from_input (SE cfg0) (p_range ++ [48; 48]) = Err NumberOutOfRange 335.
Proof. vm_compute. reflexivity. Qed.
Example p_range_1 : from_input (SE cfg0) (p_range ++ [49; 32]) = Err NumberOutOfRange 335.
Proof. vm_compute. reflexivity. Qed.
Example p_range_fr : from_input (SE (mkCfg false true false false)) (p_range ++ [48]) = Err NumberOutOfRange 334.
Proof. vm_compute. reflexivity. Qed.

Lemma p_range_bad : Bad cfg0 p_range.
Proof.
  exists [], p_range, true, 334%nat. split; [reflexivity|]. split.
  - exists (49 :: repeat 48 330), 101. split; [reflexivity|reflexivity].
  - vm_compute. reflexivity.
Qed.

Lemma p_range_not_HR : ~ HRnum cfg0 p_range.
Proof. intros [H|H]; [discriminate H|exact (H p_range_bad)]. Qed.

(* the grammar-level theorem still applies: as JSON (RFC 8259) the text 1 0{330} e+0 is fine, and the
   arbitrary_precision build accepts it *)
Example p_range_ap : exists v, from_input (SE (mkCfg false false true false)) (p_range ++ [48]) = Ok v.
Proof. eexists. vm_compute. reflexivity. Qed.

(* a long integer part followed by a dot is NOT excluded: the completion 0e-9999999999 is accepted *)
Example long_int_dot : exists v,
  from_input (SE cfg0) (91 :: 49 :: repeat 48 400 ++ [46] ++ [48; 101; 45; 57; 57; 57; 57; 57; 57; 57; 57; 57; 57; 93]) = Ok v.
Proof. eexists. vm_compute. reflexivity. Qed.

Print Assumptions p_utf8_dead.
Print Assumptions p_hex_dead.
Print Assumptions p_low_dead.
