(* Proofs/RawDeLeaves.v — the non-recursive requests of the typed deserializer (Model/DeTyped.v) on a `from_str` reader
   standing in front of a rendered well-formed value [c] followed by [x]  (skipws (rest s) = render c ++ x):
   IF the request succeeds, the reader is left at [x] — with ONE exception, do_deserialize_i128 / u128 on a number
   with a fraction or an exponent, which stop in front of the `.` / `e` / `E` ([Stuck0]).
   Also: the container frames (deserialize_seq / map / struct / enum) relative to what their bodies leave behind, and
   the MapKey requests on the text of a key.  Used by the induction of Proofs/RawDeProps.v. *)
From SJ Require Import Base.Bytes Base.Utf8 Base.FloatB Gen.Tables Model.Read Model.Str Model.Num Model.NumF32 Model.Value Model.De
  Model.Ignore Model.Ty Model.DeTyped Spec.Syntax Spec.Denote.
From SJ Require Import Proofs.GrammarStr Proofs.GrammarNum Proofs.SerWf Proofs.SerRender Proofs.TypedTotal Proofs.RawDe Proofs.RawAny
  Proofs.GrammarValueBase Proofs.RawDeBase Proofs.RawDeValue Proofs.RawDeF32.
Require Import Lia ZifyBool ZifyNat ZifyN.
Open Scope N_scope.

(* a number with a fraction or an exponent is the only text on which a 128-bit integer request stops early *)
Definition int_only (c : cst) : Prop :=
  match c with CNum n => nfrac n = None /\ nexp n = None | _ => True end.
Definition Stuck0 (c : cst) (r : bytes) : Prop := ~ int_only c /\ exists b y, r = b :: y /\ bad3 b.

Ltac head_contra Hh :=
  first [ discriminate Hh
        | (destruct Hh as [(Hh & _)|(Hh & _)]; first [discriminate Hh | (unfold is_digit in Hh; lia)]) ].

Section Leaves.
Variable cf : cfg.
Notation E := (mkEnv RStr TEof cf).

(* ------------------------------------------------------------------------------------------ *)
(** * 1. Literals *)

Lemma bool_rest s d s1 c x : deserialize_bool E s = TOk (d, s1) -> skipws (rest s) = render c ++ x -> wfb c = true -> rest s1 = x.
Proof.
  unfold deserialize_bool. intros H Hr Hc. apply tbind_lift_ok in H as ([o s0] & Hpw & H).
  destruct (pw_on_value cf s o s0 c x Hpw Hr Hc) as (b & rc & Hrc & -> & Hs0 & Hd0).
  pose proof (head_cases c b rc Hc Hrc) as Hh. apply fix_ok in H.
  destruct (b =? 116) eqn:E1.
  - apply N.eqb_eq in E1. subst b. apply tbind_lift_ok in H as (s2 & Hid & H). injection H as _ <-.
    apply ident_invE in Hid. rewrite Hd0 in Hid. destruct c; try head_contra Hh.
    cbn in Hrc. injection Hrc as <-. exact (eq_sym (app_inv_head _ _ _ Hid)).
  - destruct (b =? 102) eqn:E2; [|exfalso; exact (pit_never _ _ _ H)].
    apply N.eqb_eq in E2. subst b. apply tbind_lift_ok in H as (s2 & Hid & H). injection H as _ <-.
    apply ident_invE in Hid. rewrite Hd0 in Hid. destruct c; try head_contra Hh.
    cbn in Hrc. injection Hrc as <-. exact (eq_sym (app_inv_head _ _ _ Hid)).
Qed.

Lemma unit_rest s d s1 c x : deserialize_unit E s = TOk (d, s1) -> skipws (rest s) = render c ++ x -> wfb c = true -> rest s1 = x.
Proof.
  unfold deserialize_unit. intros H Hr Hc. apply tbind_lift_ok in H as ([o s0] & Hpw & H).
  destruct (pw_on_value cf s o s0 c x Hpw Hr Hc) as (b & rc & Hrc & -> & Hs0 & Hd0).
  pose proof (head_cases c b rc Hc Hrc) as Hh. apply fix_ok in H.
  destruct (b =? 110) eqn:E1; [|exfalso; exact (pit_never _ _ _ H)].
  apply N.eqb_eq in E1. subst b. apply tbind_lift_ok in H as (s2 & Hid & H). injection H as _ <-.
  apply ident_invE in Hid. rewrite Hd0 in Hid. destruct c; try head_contra Hh.
  cbn in Hrc. injection Hrc as <-. exact (eq_sym (app_inv_head _ _ _ Hid)).
Qed.

(* Option's `null` test: the same ident after the same whitespace skipping *)
Lemma null_rest s0 s2 c x rc : render c = 110 :: rc -> wfb c = true -> rest (discard s0) = rc ++ x ->
  parse_ident E lit_ull (discard s0) = Ok s2 -> rest s2 = x.
Proof.
  intros Hrc Hc Hd0 Hid. pose proof (head_cases c 110 rc Hc Hrc) as Hh.
  apply ident_invE in Hid. rewrite Hd0 in Hid. destruct c; try head_contra Hh.
  cbn in Hrc. injection Hrc as <-. exact (eq_sym (app_inv_head _ _ _ Hid)).
Qed.

(* ------------------------------------------------------------------------------------------ *)
(** * 2. Numbers *)

(* deserialize_number / deserialize_number_s with the integer parser abstracted *)
Definition number_gen (P : bool -> st -> res (pnum * st)) (visit : pnum -> st -> tres (dval * st)) (s : st) : tres (dval * st) :=
  let^ (o, s1) := parse_whitespace E s in
  match o with
  | None => lift (peek_error E s1 EofWhileParsingValue)
  | Some b =>
    fix_position E
      (if b =? 45 then let^ (p, s2) := P false (discard s1) in visit p s2
       else if is_digit b then let^ (p, s2) := P true s1 in visit p s2
       else peek_invalid_type E s1)
  end.

Definition keeps_state (visit : pnum -> st -> tres (dval * st)) : Prop :=
  forall p s d s', visit p s = TOk (d, s') -> s' = s.

Lemma visit_int_keeps t : keeps_state (visit_int t).
Proof.
  intros p s d s'. unfold visit_int. destruct p as [f|n|z|l]; try discriminate.
  - destruct (in_range t (Z.of_N n)); [|discriminate]. now intros [= _ <-].
  - destruct (in_range t z); [|discriminate]. now intros [= _ <-].
Qed.
Lemma visit_f64_keeps : keeps_state visit_f64.
Proof. intros p s d s'. unfold visit_f64. destruct p; try discriminate; now intros [= _ <-]. Qed.
Lemma visit_f32_keeps : keeps_state visit_f32.
Proof. intros p s d s'. unfold visit_f32. destruct p; try discriminate; now intros [= _ <-]. Qed.

Lemma number_gen_rest P visit :
  (forall positive n x s a s2, num_ok n = true -> val_follow x -> rest s = render_abs n ++ x -> P positive s = Ok (a, s2) -> rest s2 = x) ->
  keeps_state visit ->
  forall s d s1 c x, number_gen P visit s = TOk (d, s1) -> skipws (rest s) = render c ++ x -> wfb c = true -> val_follow x ->
  rest s1 = x.
Proof.
  intros HP Hv s d s1 c x H Hr Hc Hx. unfold number_gen in H. apply tbind_lift_ok in H as ([o s0] & Hpw & H).
  destruct (pw_on_value cf s o s0 c x Hpw Hr Hc) as (b & rc & Hrc & -> & Hs0 & Hd0).
  pose proof (head_cases c b rc Hc Hrc) as Hh. apply fix_ok in H.
  destruct (b =? 45) eqn:E45.
  - apply N.eqb_eq in E45. subst b. apply tbind_lift_ok in H as ([p s2] & Hn & H). apply Hv in H. subst s1.
    destruct c as [| | |n|ps|w es|w ms]; try head_contra Hh. cbn [wfb] in Hc.
    destruct Hh as [(_ & _ & Hrn)|(Hdig & _)]; [|unfold is_digit in Hdig; lia]. subst rc.
    exact (HP false n x _ _ _ Hc Hx Hd0 Hn).
  - destruct (is_digit b) eqn:Edig; [|exfalso; exact (pit_never _ _ _ H)].
    apply tbind_lift_ok in H as ([p s2] & Hn & H). apply Hv in H. subst s1.
    destruct c as [| | |n|ps|w es|w ms]; try (subst b; discriminate Edig). cbn [wfb] in Hc.
    destruct Hh as [(Hb & _)|(_ & _ & Hrn)]; [subst b; discriminate E45|].
    assert (Hs0' : rest s0 = render_abs n ++ x). { rewrite Hs0, app_comm_cons, Hrn. reflexivity. }
    exact (HP true n x _ _ _ Hc Hx Hs0' Hn).
Qed.

Lemma number_rest visit : keeps_state visit -> forall s d s1 c x,
  deserialize_number E visit s = TOk (d, s1) -> skipws (rest s) = render c ++ x -> wfb c = true -> val_follow x -> rest s1 = x.
Proof.
  intros Hv s d s1 c x H. change (deserialize_number E visit s) with (number_gen (parse_integer E) visit s) in H. revert H.
  apply number_gen_rest; [|exact Hv]. intros positive n x0 s0 a s2. apply parse_integer_rest.
Qed.

Lemma number_s_rest visit : keeps_state visit -> forall s d s1 c x,
  deserialize_number_s E visit s = TOk (d, s1) -> skipws (rest s) = render c ++ x -> wfb c = true -> val_follow x -> rest s1 = x.
Proof.
  intros Hv s d s1 c x H. change (deserialize_number_s E visit s) with (number_gen (parse_integer_s E) visit s) in H. revert H.
  apply number_gen_rest; [|exact Hv]. intros positive n x0 s0 a s2. apply parse_integer_s_rest.
Qed.

Lemma f32_rest s d s1 c x :
  deserialize_f32 E s = TOk (d, s1) -> skipws (rest s) = render c ++ x -> wfb c = true -> val_follow x -> rest s1 = x.
Proof.
  unfold deserialize_f32. destruct (float_roundtrip (Read.cf E)).
  - apply number_s_rest, visit_f32_keeps.
  - apply number_rest, visit_f32_keeps.
Qed.

(* the integer part of a number text, read by scan_integer128 *)
Lemma scan128_on_num n x s buf s2 : num_ok n = true -> val_follow x -> rest s = render_abs n ++ x ->
  scan_integer128 E s = Ok (buf, s2) -> rest s2 = x \/ Stuck0 (CNum n) (rest s2).
Proof.
  intros Hn Hx Hr H. pose proof (scan128_rest cf n x s buf s2 Hn Hx Hr H) as G.
  destruct (nfrac n) as [f|] eqn:Hf; [|destruct (nexp n) as [ex|] eqn:He].
  - right. split; [unfold int_only; intros [K _]; congruence|].
    assert (Hne : nfrac n <> None \/ nexp n <> None) by (left; congruence).
    destruct (frac_exp_head n Hn Hne x) as (b & y & Hby & Hb).
    rewrite Hf in Hby. rewrite G. eauto.
  - right. split; [unfold int_only; intros [_ K]; congruence|].
    assert (Hne : nfrac n <> None \/ nexp n <> None) by (right; congruence).
    destruct (frac_exp_head n Hn Hne x) as (b & y & Hby & Hb).
    rewrite Hf, He in Hby. rewrite G. eauto.
  - left. rewrite G. reflexivity.
Qed.

Lemma i128_rest s d s1 c x : deserialize_i128 E s = TOk (d, s1) -> skipws (rest s) = render c ++ x -> wfb c = true -> val_follow x ->
  rest s1 = x \/ Stuck0 c (rest s1).
Proof.
  unfold deserialize_i128. intros H Hr Hc Hx. apply tbind_lift_ok in H as ([o s0] & Hpw & H).
  destruct (pw_on_value cf s o s0 c x Hpw Hr Hc) as (b & rc & Hrc & -> & Hs0 & Hd0).
  pose proof (head_cases c b rc Hc Hrc) as Hh. cbv zeta in H.
  apply tbind_lift_ok in H as ([buf s2] & Hsc & H).
  destruct (parse_i128 (b =? 45) buf) as [z|]; [|unfold error in H; discriminate H]. injection H as _ <-.
  destruct (b =? 45) eqn:E45.
  - apply N.eqb_eq in E45. subst b. destruct c as [| | |n|ps|w es|w ms]; try head_contra Hh. cbn [wfb] in Hc.
    destruct Hh as [(_ & _ & Hrn)|(Hdig & _)]; [|unfold is_digit in Hdig; lia]. subst rc.
    exact (scan128_on_num n x _ _ _ Hc Hx Hd0 Hsc).
  - destruct (scan128_digit cf _ _ _ Hsc) as (b' & r' & Hb' & Hdig). rewrite Hs0 in Hb'. injection Hb' as <- _.
    destruct c as [| | |n|ps|w es|w ms]; try (subst b; discriminate Hdig). cbn [wfb] in Hc.
    destruct Hh as [(Hb & _)|(_ & _ & Hrn)]; [subst b; discriminate E45|].
    assert (Hs0' : rest s0 = render_abs n ++ x). { rewrite Hs0, app_comm_cons, Hrn. reflexivity. }
    exact (scan128_on_num n x _ _ _ Hc Hx Hs0' Hsc).
Qed.

Lemma u128_rest s d s1 c x : deserialize_u128 E s = TOk (d, s1) -> skipws (rest s) = render c ++ x -> wfb c = true -> val_follow x ->
  rest s1 = x \/ Stuck0 c (rest s1).
Proof.
  unfold deserialize_u128. intros H Hr Hc Hx. apply tbind_lift_ok in H as ([o s0] & Hpw & H).
  destruct (pw_on_value cf s o s0 c x Hpw Hr Hc) as (b & rc & Hrc & -> & Hs0 & Hd0).
  pose proof (head_cases c b rc Hc Hrc) as Hh.
  destruct (b =? 45) eqn:E45; [unfold peek_error in H; discriminate H|].
  apply tbind_lift_ok in H as ([buf s2] & Hsc & H).
  destruct (parse_u128 buf) as [z|]; [|unfold error in H; discriminate H]. injection H as _ <-.
  destruct (scan128_digit cf _ _ _ Hsc) as (b' & r' & Hb' & Hdig). rewrite Hs0 in Hb'. injection Hb' as <- _.
  destruct c as [| | |n|ps|w es|w ms]; try (subst b; discriminate Hdig). cbn [wfb] in Hc.
  destruct Hh as [(Hb & _)|(_ & _ & Hrn)]; [subst b; discriminate E45|].
  assert (Hs0' : rest s0 = render_abs n ++ x). { rewrite Hs0, app_comm_cons, Hrn. reflexivity. }
  exact (scan128_on_num n x _ _ _ Hc Hx Hs0' Hsc).
Qed.

Lemma int_rest t s d s1 c x : deserialize_int E t s = TOk (d, s1) -> skipws (rest s) = render c ++ x -> wfb c = true -> val_follow x ->
  rest s1 = x \/ (is_128 t = true /\ Stuck0 c (rest s1)).
Proof.
  intros H Hr Hc Hx. destruct t; cbn [deserialize_int] in H;
    try (left; exact (number_rest _ (visit_int_keeps _) _ _ _ _ _ H Hr Hc Hx)).
  - destruct (i128_rest _ _ _ _ _ H Hr Hc Hx) as [G|G]; [left; exact G|right; split; [reflexivity|exact G]].
  - destruct (u128_rest _ _ _ _ _ H Hr Hc Hx) as [G|G]; [left; exact G|right; split; [reflexivity|exact G]].
Qed.

(* ------------------------------------------------------------------------------------------ *)
(** * 3. Strings *)

(* deserialize_str needs a quote after the whitespace *)
Lemma str_head {A} (visit : bytes -> bool -> st -> tres A) s a :
  deserialize_str E visit s = TOk a -> exists r, skipws (rest s) = 34 :: r.
Proof.
  unfold deserialize_str. intros H. apply tbind_lift_ok in H as ([o s0] & Hpw & H).
  apply pw_invE in Hpw as [H1 H2]. destruct o as [b|]; [|discriminate H]. apply fix_ok in H.
  destruct (b =? 34) eqn:E34; [|exfalso; exact (pit_never _ _ _ H)]. apply N.eqb_eq in E34. subst b.
  rewrite <- H1. destruct (rest s0) as [|b r]; [discriminate H2|]. injection H2 as <-. eauto.
Qed.

(* on the text of a string literal (a value or a key) *)
Lemma str_on_lit {A} (pr : A -> st) (visit : bytes -> bool -> st -> tres A) :
  (forall str bw s2 a, visit str bw s2 = TOk a -> pr a = s2) ->
  forall s a ps y, deserialize_str E visit s = TOk a -> skipws (rest s) = 34 :: flat_map render_piece ps ++ 34 :: y ->
  str_ok ps = true -> rest (pr a) = y.
Proof.
  intros Hv s a ps y H Hr Hok. unfold deserialize_str in H. apply tbind_lift_ok in H as ([o s0] & Hpw & H).
  apply pw_invE in Hpw as [H1 H2]. rewrite Hr in H1. rewrite H1 in H2. cbn [hd_error] in H2. subst o.
  apply fix_ok in H. change (34 =? 34) with true in H. cbv iota in H.
  apply tbind_lift_ok in H as ([[str bw] s2] & Hp & H). apply Hv in H. rewrite H.
  apply (parse_str_rest cf ps y (discard s0) str bw s2 Hok); [|exact Hp]. rewrite discard_restE, H1. reflexivity.
Qed.

Lemma str_rest {A} (pr : A -> st) (visit : bytes -> bool -> st -> tres A) :
  (forall str bw s2 a, visit str bw s2 = TOk a -> pr a = s2) ->
  forall s a c x, deserialize_str E visit s = TOk a -> skipws (rest s) = render c ++ x -> wfb c = true -> rest (pr a) = x.
Proof.
  intros Hv s a c x H Hr Hc. destruct (str_head visit s a H) as (r & Hq). rewrite Hr in Hq.
  destruct (render_head c Hc) as (b & rc & Hrc & _). rewrite Hrc in Hq. injection Hq as -> _.
  pose proof (head_cases c 34 rc Hc Hrc) as Hh. destruct c as [| | |n|ps|w es|w ms]; try head_contra Hh.
  cbn [wfb] in Hc. apply (str_on_lit pr visit Hv s a ps x H); [|exact Hc].
  rewrite Hr. cbn [render]. unfold render_str. cbn [app]. rewrite <- app_assoc. reflexivity.
Qed.

Lemma visit_string_st str bw s2 a : visit_string str bw s2 = TOk a -> snd a = s2.
Proof. unfold visit_string. now intros [= <-]. Qed.
Lemma visit_borrowed_st str bw s2 a : visit_borrowed_only str bw s2 = TOk a -> snd a = s2.
Proof. unfold visit_borrowed_only. destruct bw; [|discriminate]. now intros [= <-]. Qed.
Lemma visit_char_st str bw s2 a : visit_char str bw s2 = TOk a -> snd a = s2.
Proof. unfold visit_char. destruct (one_scalar str); [|discriminate]. now intros [= <-]. Qed.
Lemma visit_variant_st {V} (vs : list (bytes * V)) str bw s2 a : visit_variant vs str bw s2 = TOk a -> snd a = s2.
Proof. unfold visit_variant. destruct (index_of str vs) as [[i v]|]; [|discriminate]. now intros [= <-]. Qed.

End Leaves.
