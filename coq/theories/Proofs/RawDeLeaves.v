(* Proofs/RawDeLeaves.v — the non-recursive requests of the typed deserializer (Model/DeTyped.v) on a `from_str` reader
   standing in front of a rendered well-formed value [c] followed by [x]  (skipws (rest s) = render c ++ x):
   IF the request succeeds, the reader is left at [x] — with ONE exception, do_deserialize_i128 / u128 on a number
   with a fraction or an exponent, which stop in front of the `.` / `e` / `E` ([Stuck0]).
   Also: the container frames (deserialize_seq / map / struct / enum) relative to what their bodies leave behind, and
   the MapKey requests on the text of a key.  Used by the induction of Proofs/RawDeProps.v. *)
From SJ Require Import Base.Bytes Base.Utf8 Base.FloatB Gen.Tables Model.Read Model.Str Model.Num Model.NumF32 Model.Value Model.De
  Model.Ignore Model.Ty Model.DeTyped Spec.Syntax Spec.Denote.
From SJ Require Import Proofs.GrammarStr Proofs.GrammarNum Proofs.SerWf Proofs.SerRender Proofs.TypedTotal Proofs.RawDe Proofs.RawAny
  Proofs.GrammarValueBase Proofs.RawDeBase Proofs.RawDeValue Proofs.RawDeF32.
Require Import Lia ZifyBool ZifyNat ZifyN.
Open Scope N_scope.

(* a number with a fraction or an exponent is the only text on which a 128-bit integer request stops early *)
Definition int_only (c : cst) : Prop :=
  match c with CNum n => nfrac n = None /\ nexp n = None | _ => True end.
Definition StuckR (r : bytes) : Prop := exists b y, r = b :: y /\ bad3 b.
Definition Stuck0 (c : cst) (r : bytes) : Prop := ~ int_only c /\ StuckR r.

Ltac head_contra Hh :=
  first [ discriminate Hh
        | (destruct Hh as [(Hh & _)|(Hh & _)]; first [discriminate Hh | (unfold is_digit in Hh; lia)]) ].

Section Leaves.
Variable cf : cfg.
Notation E := (mkEnv RStr TEof cf).

(* ------------------------------------------------------------------------------------------ *)
(** * 1. Literals *)

Lemma bool_rest s d s1 c x : deserialize_bool E s = TOk (d, s1) -> skipws (rest s) = render c ++ x -> wfb c = true -> rest s1 = x.
Proof.
  unfold deserialize_bool. intros H Hr Hc. apply tbind_lift_ok in H as ([o s0] & Hpw & H).
  destruct (pw_on_value cf s o s0 c x Hpw Hr Hc) as (b & rc & Hrc & -> & Hs0 & Hd0).
  pose proof (head_cases c b rc Hc Hrc) as Hh. apply fix_ok in H.
  destruct (b =? 116) eqn:E1.
  - apply N.eqb_eq in E1. subst b. apply tbind_lift_ok in H as (s2 & Hid & H). injection H as _ <-.
    apply ident_invE in Hid. rewrite Hd0 in Hid. destruct c; try head_contra Hh.
    cbn in Hrc. injection Hrc as <-. exact (eq_sym (app_inv_head _ _ _ Hid)).
  - destruct (b =? 102) eqn:E2; [|exfalso; exact (pit_never _ _ _ H)].
    apply N.eqb_eq in E2. subst b. apply tbind_lift_ok in H as (s2 & Hid & H). injection H as _ <-.
    apply ident_invE in Hid. rewrite Hd0 in Hid. destruct c; try head_contra Hh.
    cbn in Hrc. injection Hrc as <-. exact (eq_sym (app_inv_head _ _ _ Hid)).
Qed.

Lemma unit_rest s d s1 c x : deserialize_unit E s = TOk (d, s1) -> skipws (rest s) = render c ++ x -> wfb c = true -> rest s1 = x.
Proof.
  unfold deserialize_unit. intros H Hr Hc. apply tbind_lift_ok in H as ([o s0] & Hpw & H).
  destruct (pw_on_value cf s o s0 c x Hpw Hr Hc) as (b & rc & Hrc & -> & Hs0 & Hd0).
  pose proof (head_cases c b rc Hc Hrc) as Hh. apply fix_ok in H.
  destruct (b =? 110) eqn:E1; [|exfalso; exact (pit_never _ _ _ H)].
  apply N.eqb_eq in E1. subst b. apply tbind_lift_ok in H as (s2 & Hid & H). injection H as _ <-.
  apply ident_invE in Hid. rewrite Hd0 in Hid. destruct c; try head_contra Hh.
  cbn in Hrc. injection Hrc as <-. exact (eq_sym (app_inv_head _ _ _ Hid)).
Qed.

(* Option's `null` test: the same ident after the same whitespace skipping *)
Lemma null_rest s0 s2 c x rc : render c = 110 :: rc -> wfb c = true -> rest (discard s0) = rc ++ x ->
  parse_ident E lit_ull (discard s0) = Ok s2 -> rest s2 = x.
Proof.
  intros Hrc Hc Hd0 Hid. pose proof (head_cases c 110 rc Hc Hrc) as Hh.
  apply ident_invE in Hid. rewrite Hd0 in Hid. destruct c; try head_contra Hh.
  cbn in Hrc. injection Hrc as <-. exact (eq_sym (app_inv_head _ _ _ Hid)).
Qed.

(* ------------------------------------------------------------------------------------------ *)
(** * 2. Numbers *)

(* deserialize_number / deserialize_number_s with the integer parser abstracted *)
Definition number_gen (P : bool -> st -> res (pnum * st)) (visit : pnum -> st -> tres (dval * st)) (s : st) : tres (dval * st) :=
  let^ (o, s1) := parse_whitespace E s in
  match o with
  | None => lift (peek_error E s1 EofWhileParsingValue)
  | Some b =>
    fix_position E
      (if b =? 45 then let^ (p, s2) := P false (discard s1) in visit p s2
       else if is_digit b then let^ (p, s2) := P true s1 in visit p s2
       else peek_invalid_type E s1)
  end.

Definition keeps_state (visit : pnum -> st -> tres (dval * st)) : Prop :=
  forall p s d s', visit p s = TOk (d, s') -> s' = s.

Lemma visit_int_keeps t : keeps_state (visit_int t).
Proof.
  intros p s d s'. unfold visit_int. destruct p as [f|n|z|l]; try discriminate.
  - destruct (in_range t (Z.of_N n)); [|discriminate]. now intros [= _ <-].
  - destruct (in_range t z); [|discriminate]. now intros [= _ <-].
Qed.
Lemma visit_f64_keeps : keeps_state visit_f64.
Proof. intros p s d s'. unfold visit_f64. destruct p; try discriminate; now intros [= _ <-]. Qed.
Lemma visit_f32_keeps : keeps_state visit_f32.
Proof. intros p s d s'. unfold visit_f32. destruct p; try discriminate; now intros [= _ <-]. Qed.

Lemma number_gen_rest P visit :
  (forall positive n x s a s2, num_ok n = true -> val_follow x -> rest s = render_abs n ++ x -> P positive s = Ok (a, s2) -> rest s2 = x) ->
  keeps_state visit ->
  forall s d s1 c x, number_gen P visit s = TOk (d, s1) -> skipws (rest s) = render c ++ x -> wfb c = true -> val_follow x ->
  rest s1 = x.
Proof.
  intros HP Hv s d s1 c x H Hr Hc Hx. unfold number_gen in H. apply tbind_lift_ok in H as ([o s0] & Hpw & H).
  destruct (pw_on_value cf s o s0 c x Hpw Hr Hc) as (b & rc & Hrc & -> & Hs0 & Hd0).
  pose proof (head_cases c b rc Hc Hrc) as Hh. apply fix_ok in H.
  destruct (b =? 45) eqn:E45.
  - apply N.eqb_eq in E45. subst b. apply tbind_lift_ok in H as ([p s2] & Hn & H). apply Hv in H. subst s1.
    destruct c as [| | |n|ps|w es|w ms]; try head_contra Hh. cbn [wfb] in Hc.
    destruct Hh as [(_ & _ & Hrn)|(Hdig & _)]; [|unfold is_digit in Hdig; lia]. subst rc.
    exact (HP false n x _ _ _ Hc Hx Hd0 Hn).
  - destruct (is_digit b) eqn:Edig; [|exfalso; exact (pit_never _ _ _ H)].
    apply tbind_lift_ok in H as ([p s2] & Hn & H). apply Hv in H. subst s1.
    destruct c as [| | |n|ps|w es|w ms]; try (subst b; discriminate Edig). cbn [wfb] in Hc.
    destruct Hh as [(Hb & _)|(_ & _ & Hrn)]; [subst b; discriminate E45|].
    assert (Hs0' : rest s0 = render_abs n ++ x). { rewrite Hs0, app_comm_cons, Hrn. reflexivity. }
    exact (HP true n x _ _ _ Hc Hx Hs0' Hn).
Qed.

Lemma number_rest visit : keeps_state visit -> forall s d s1 c x,
  deserialize_number E visit s = TOk (d, s1) -> skipws (rest s) = render c ++ x -> wfb c = true -> val_follow x -> rest s1 = x.
Proof.
  intros Hv s d s1 c x H. change (deserialize_number E visit s) with (number_gen (parse_integer E) visit s) in H. revert H.
  apply number_gen_rest; [|exact Hv]. intros positive n x0 s0 a s2. apply parse_integer_rest.
Qed.

Lemma number_s_rest visit : keeps_state visit -> forall s d s1 c x,
  deserialize_number_s E visit s = TOk (d, s1) -> skipws (rest s) = render c ++ x -> wfb c = true -> val_follow x -> rest s1 = x.
Proof.
  intros Hv s d s1 c x H. change (deserialize_number_s E visit s) with (number_gen (parse_integer_s E) visit s) in H. revert H.
  apply number_gen_rest; [|exact Hv]. intros positive n x0 s0 a s2. apply parse_integer_s_rest.
Qed.

Lemma f32_rest s d s1 c x :
  deserialize_f32 E s = TOk (d, s1) -> skipws (rest s) = render c ++ x -> wfb c = true -> val_follow x -> rest s1 = x.
Proof.
  unfold deserialize_f32. destruct (float_roundtrip (Read.cf E)).
  - apply number_s_rest, visit_f32_keeps.
  - apply number_rest, visit_f32_keeps.
Qed.

(* the integer part of a number text, read by scan_integer128 *)
Lemma scan128_on_num n x s buf s2 : num_ok n = true -> val_follow x -> rest s = render_abs n ++ x ->
  scan_integer128 E s = Ok (buf, s2) -> rest s2 = x \/ Stuck0 (CNum n) (rest s2).
Proof.
  intros Hn Hx Hr H. pose proof (scan128_rest cf n x s buf s2 Hn Hx Hr H) as G.
  destruct (nfrac n) as [f|] eqn:Hf; [|destruct (nexp n) as [ex|] eqn:He].
  - right. split; [unfold int_only; intros [K _]; congruence|].
    assert (Hne : nfrac n <> None \/ nexp n <> None) by (left; congruence).
    destruct (frac_exp_head n Hn Hne x) as (b & y & Hby & Hb).
    rewrite Hf in Hby. rewrite G. exists b, y. auto.
  - right. split; [unfold int_only; intros [_ K]; congruence|].
    assert (Hne : nfrac n <> None \/ nexp n <> None) by (right; congruence).
    destruct (frac_exp_head n Hn Hne x) as (b & y & Hby & Hb).
    rewrite Hf, He in Hby. rewrite G. exists b, y. auto.
  - left. rewrite G. reflexivity.
Qed.

Lemma i128_rest s d s1 c x : deserialize_i128 E s = TOk (d, s1) -> skipws (rest s) = render c ++ x -> wfb c = true -> val_follow x ->
  rest s1 = x \/ Stuck0 c (rest s1).
Proof.
  unfold deserialize_i128. intros H Hr Hc Hx. apply tbind_lift_ok in H as ([o s0] & Hpw & H).
  destruct (pw_on_value cf s o s0 c x Hpw Hr Hc) as (b & rc & Hrc & -> & Hs0 & Hd0).
  pose proof (head_cases c b rc Hc Hrc) as Hh. cbv zeta in H.
  apply tbind_lift_ok in H as ([buf s2] & Hsc & H).
  destruct (parse_i128 (b =? 45) buf) as [z|]; [|unfold error in H; discriminate H]. injection H as _ <-.
  destruct (b =? 45) eqn:E45.
  - apply N.eqb_eq in E45. subst b. destruct c as [| | |n|ps|w es|w ms]; try head_contra Hh. cbn [wfb] in Hc.
    destruct Hh as [(_ & _ & Hrn)|(Hdig & _)]; [|unfold is_digit in Hdig; lia]. subst rc.
    exact (scan128_on_num n x _ _ _ Hc Hx Hd0 Hsc).
  - destruct (scan128_digit cf _ _ _ Hsc) as (b' & r' & Hb' & Hdig). rewrite Hs0 in Hb'. injection Hb' as <- _.
    destruct c as [| | |n|ps|w es|w ms]; try (subst b; discriminate Hdig). cbn [wfb] in Hc.
    destruct Hh as [(Hb & _)|(_ & _ & Hrn)]; [subst b; discriminate E45|].
    assert (Hs0' : rest s0 = render_abs n ++ x). { rewrite Hs0, app_comm_cons, Hrn. reflexivity. }
    exact (scan128_on_num n x _ _ _ Hc Hx Hs0' Hsc).
Qed.

Lemma u128_rest s d s1 c x : deserialize_u128 E s = TOk (d, s1) -> skipws (rest s) = render c ++ x -> wfb c = true -> val_follow x ->
  rest s1 = x \/ Stuck0 c (rest s1).
Proof.
  unfold deserialize_u128. intros H Hr Hc Hx. apply tbind_lift_ok in H as ([o s0] & Hpw & H).
  destruct (pw_on_value cf s o s0 c x Hpw Hr Hc) as (b & rc & Hrc & -> & Hs0 & Hd0).
  pose proof (head_cases c b rc Hc Hrc) as Hh.
  destruct (b =? 45) eqn:E45; [unfold peek_error in H; discriminate H|].
  apply tbind_lift_ok in H as ([buf s2] & Hsc & H).
  destruct (parse_u128 buf) as [z|]; [|unfold error in H; discriminate H]. injection H as _ <-.
  destruct (scan128_digit cf _ _ _ Hsc) as (b' & r' & Hb' & Hdig). rewrite Hs0 in Hb'. injection Hb' as <- _.
  destruct c as [| | |n|ps|w es|w ms]; try (subst b; discriminate Hdig). cbn [wfb] in Hc.
  destruct Hh as [(Hb & _)|(_ & _ & Hrn)]; [subst b; discriminate E45|].
  assert (Hs0' : rest s0 = render_abs n ++ x). { rewrite Hs0, app_comm_cons, Hrn. reflexivity. }
  exact (scan128_on_num n x _ _ _ Hc Hx Hs0' Hsc).
Qed.

Lemma int_rest t s d s1 c x : deserialize_int E t s = TOk (d, s1) -> skipws (rest s) = render c ++ x -> wfb c = true -> val_follow x ->
  rest s1 = x \/ (is_128 t = true /\ Stuck0 c (rest s1)).
Proof.
  intros H Hr Hc Hx. destruct t; cbn [deserialize_int] in H;
    try (left; exact (number_rest _ (visit_int_keeps _) _ _ _ _ _ H Hr Hc Hx)).
  - destruct (i128_rest _ _ _ _ _ H Hr Hc Hx) as [G|G]; [left; exact G|right; split; [reflexivity|exact G]].
  - destruct (u128_rest _ _ _ _ _ H Hr Hc Hx) as [G|G]; [left; exact G|right; split; [reflexivity|exact G]].
Qed.

(* ------------------------------------------------------------------------------------------ *)
(** * 3. Strings *)

(* deserialize_str needs a quote after the whitespace *)
Lemma str_head {A} (visit : bytes -> bool -> st -> tres A) s a :
  deserialize_str E visit s = TOk a -> exists r, skipws (rest s) = 34 :: r.
Proof.
  unfold deserialize_str. intros H. apply tbind_lift_ok in H as ([o s0] & Hpw & H).
  apply pw_invE in Hpw as [H1 H2]. destruct o as [b|]; [|discriminate H]. apply fix_ok in H.
  destruct (b =? 34) eqn:E34; [|exfalso; exact (pit_never _ _ _ H)]. apply N.eqb_eq in E34. subst b.
  rewrite <- H1. destruct (rest s0) as [|b r]; [discriminate H2|]. injection H2 as <-. eauto.
Qed.

(* on the text of a string literal (a value or a key) *)
Lemma str_on_lit {A} (pr : A -> st) (visit : bytes -> bool -> st -> tres A) :
  (forall str bw s2 a, visit str bw s2 = TOk a -> pr a = s2) ->
  forall s a ps y, deserialize_str E visit s = TOk a -> skipws (rest s) = 34 :: flat_map render_piece ps ++ 34 :: y ->
  str_ok ps = true -> rest (pr a) = y.
Proof.
  intros Hv s a ps y H Hr Hok. unfold deserialize_str in H. apply tbind_lift_ok in H as ([o s0] & Hpw & H).
  apply pw_invE in Hpw as [H1 H2]. rewrite Hr in H1. rewrite H1 in H2. cbn [hd_error] in H2. subst o.
  apply fix_ok in H. change (34 =? 34) with true in H. cbv iota in H.
  apply tbind_lift_ok in H as ([[str bw] s2] & Hp & H). apply Hv in H. rewrite H.
  apply (parse_str_rest cf ps y (discard s0) str bw s2 Hok); [|exact Hp]. rewrite discard_restE, H1. reflexivity.
Qed.

Lemma str_rest {A} (pr : A -> st) (visit : bytes -> bool -> st -> tres A) :
  (forall str bw s2 a, visit str bw s2 = TOk a -> pr a = s2) ->
  forall s a c x, deserialize_str E visit s = TOk a -> skipws (rest s) = render c ++ x -> wfb c = true -> rest (pr a) = x.
Proof.
  intros Hv s a c x H Hr Hc. destruct (str_head visit s a H) as (r & Hq). rewrite Hr in Hq.
  destruct (render_head c Hc) as (b & rc & Hrc & _). rewrite Hrc in Hq. injection Hq as -> _.
  pose proof (head_cases c 34 rc Hc Hrc) as Hh. destruct c as [| | |n|ps|w es|w ms]; try head_contra Hh.
  cbn [wfb] in Hc. apply (str_on_lit pr visit Hv s a ps x H); [|exact Hc].
  rewrite Hr. cbn [render]. unfold render_str. cbn [app]. rewrite <- app_assoc. reflexivity.
Qed.

Lemma visit_string_st str bw s2 a : visit_string str bw s2 = TOk a -> snd a = s2.
Proof. unfold visit_string. now intros [= <-]. Qed.
Lemma visit_borrowed_st str bw s2 a : visit_borrowed_only str bw s2 = TOk a -> snd a = s2.
Proof. unfold visit_borrowed_only. destruct bw; [|discriminate]. now intros [= <-]. Qed.
Lemma visit_char_st str bw s2 a : visit_char str bw s2 = TOk a -> snd a = s2.
Proof. unfold visit_char. destruct (one_scalar str); [|discriminate]. now intros [= <-]. Qed.
Lemma visit_variant_st {V} (vs : list (bytes * V)) str bw s2 a : visit_variant vs str bw s2 = TOk a -> snd a = s2.
Proof. unfold visit_variant. destruct (index_of str vs) as [[i v]|]; [|discriminate]. now intros [= <-]. Qed.


(* ------------------------------------------------------------------------------------------ *)
(** * 4. Frames *)

(* what a map / struct visitor leaves of an object body: the closing brace after whitespace *)
Definition MapRem (x : bytes) (r : bytes) : Prop := exists wl, ws_ok wl = true /\ r = wl ++ 125 :: x.

Lemma map_rem_close x r r' : MapRem x r -> skipws r = 125 :: r' -> r' = x.
Proof. intros (wl & Hwl & ->) H. rewrite skipws_to in H by (try assumption; reflexivity). now injection H as <-. Qed.

Lemma frame_seq_rest {A} (body : st -> tres (A * st)) s0 a s5 w es x :
  frame E end_seq end_seq_st body s0 = TOk (a, s5) -> rest s0 = 91 :: seq_text true w es ++ 93 :: x ->
  (forall s' s3, rest s' = seq_text true w es ++ 93 :: x -> body s' = TOk (a, s3) -> SeqRem x (rest s3) \/ StuckR (rest s3)) ->
  rest s5 = x.
Proof.
  intros H Hs0 Hbody. apply (frame_ok_inv cf) in H as (s2 & s3 & s4 & Hen & Hb & Hlv & Hend).
  assert (Hd2 : rest (discard s2) = seq_text true w es ++ 93 :: x).
  { rewrite discard_restE, (enter_restE cf _ _ Hen), Hs0. reflexivity. }
  destruct (Hbody _ _ Hd2 Hb) as [Hrem|(b & y & Hst & Hbad)].
  - apply end_seq_invE in Hend. rewrite (leave_restE cf _ _ Hlv) in Hend. exact (seq_rem_close x _ _ Hrem Hend).
  - exfalso. rewrite <- (leave_restE cf _ _ Hlv) in Hst. exact (stuck_end_seq cf b y s4 s5 Hbad Hst Hend).
Qed.

Lemma frame_map_rest {A} (body : st -> tres (A * st)) s0 a s5 w ms x :
  frame E end_map end_map_st body s0 = TOk (a, s5) -> rest s0 = 123 :: map_text true w ms ++ 125 :: x ->
  (forall s' s3, rest s' = map_text true w ms ++ 125 :: x -> body s' = TOk (a, s3) -> MapRem x (rest s3)) ->
  rest s5 = x.
Proof.
  intros H Hs0 Hbody. apply (frame_ok_inv cf) in H as (s2 & s3 & s4 & Hen & Hb & Hlv & Hend).
  assert (Hd2 : rest (discard s2) = map_text true w ms ++ 125 :: x).
  { rewrite discard_restE, (enter_restE cf _ _ Hen), Hs0. reflexivity. }
  pose proof (Hbody _ _ Hd2 Hb) as Hrem.
  apply end_map_invE in Hend. rewrite (leave_restE cf _ _ Hlv) in Hend. exact (map_rem_close x _ _ Hrem Hend).
Qed.

Lemma arr_text w es x : render (CArr w es) ++ x = 91 :: seq_text true w es ++ 93 :: x.
Proof. rewrite render_arr. cbn [app]. rewrite <- app_assoc. reflexivity. Qed.
Lemma obj_text w ms x : render (CObj w ms) ++ x = 123 :: map_text true w ms ++ 125 :: x.
Proof. rewrite render_obj. cbn [app]. rewrite <- app_assoc. reflexivity. Qed.

Lemma seq_frame {A} (body : st -> tres (A * st)) s a s5 c x :
  deserialize_seq E body s = TOk (a, s5) -> skipws (rest s) = render c ++ x -> wfb c = true ->
  (forall w es s' s3, c = CArr w es -> rest s' = seq_text true w es ++ 93 :: x -> body s' = TOk (a, s3) -> SeqRem x (rest s3) \/ StuckR (rest s3)) ->
  rest s5 = x.
Proof.
  unfold deserialize_seq. intros H Hr Hc Hbody. apply tbind_lift_ok in H as ([o s0] & Hpw & H).
  destruct (pw_on_value cf s o s0 c x Hpw Hr Hc) as (b & rc & Hrc & -> & Hs0 & Hd0).
  pose proof (head_cases c b rc Hc Hrc) as Hh. apply fix_ok in H.
  destruct (b =? 91) eqn:E91; [|exfalso; exact (pit_never _ _ _ H)]. apply N.eqb_eq in E91. subst b.
  destruct c as [| | |n|ps|w es|w ms]; try head_contra Hh.
  apply (frame_seq_rest body s0 a s5 w es x H); [|intros s' s3; now apply Hbody].
  rewrite Hs0, app_comm_cons, <- Hrc. apply arr_text.
Qed.

Lemma map_frame {A} (body : st -> tres (A * st)) s a s5 c x :
  deserialize_map E body s = TOk (a, s5) -> skipws (rest s) = render c ++ x -> wfb c = true ->
  (forall w ms s' s3, c = CObj w ms -> rest s' = map_text true w ms ++ 125 :: x -> body s' = TOk (a, s3) -> MapRem x (rest s3)) ->
  rest s5 = x.
Proof.
  unfold deserialize_map. intros H Hr Hc Hbody. apply tbind_lift_ok in H as ([o s0] & Hpw & H).
  destruct (pw_on_value cf s o s0 c x Hpw Hr Hc) as (b & rc & Hrc & -> & Hs0 & Hd0).
  pose proof (head_cases c b rc Hc Hrc) as Hh. apply fix_ok in H.
  destruct (b =? 123) eqn:E123; [|exfalso; exact (pit_never _ _ _ H)]. apply N.eqb_eq in E123. subst b.
  destruct c as [| | |n|ps|w es|w ms]; try head_contra Hh.
  apply (frame_map_rest body s0 a s5 w ms x H); [|intros s' s3; now apply Hbody].
  rewrite Hs0, app_comm_cons, <- Hrc. apply obj_text.
Qed.

Lemma struct_frame {A} (body_seq body_map : st -> tres (A * st)) s a s5 c x :
  deserialize_struct E body_seq body_map s = TOk (a, s5) -> skipws (rest s) = render c ++ x -> wfb c = true ->
  (forall w es s' s3, c = CArr w es -> rest s' = seq_text true w es ++ 93 :: x -> body_seq s' = TOk (a, s3) -> SeqRem x (rest s3) \/ StuckR (rest s3)) ->
  (forall w ms s' s3, c = CObj w ms -> rest s' = map_text true w ms ++ 125 :: x -> body_map s' = TOk (a, s3) -> MapRem x (rest s3)) ->
  rest s5 = x.
Proof.
  unfold deserialize_struct. intros H Hr Hc Hbs Hbm. apply tbind_lift_ok in H as ([o s0] & Hpw & H).
  destruct (pw_on_value cf s o s0 c x Hpw Hr Hc) as (b & rc & Hrc & -> & Hs0 & Hd0).
  pose proof (head_cases c b rc Hc Hrc) as Hh. apply fix_ok in H.
  destruct (b =? 91) eqn:E91.
  - apply N.eqb_eq in E91. subst b. destruct c as [| | |n|ps|w es|w ms]; try head_contra Hh.
    apply (frame_seq_rest body_seq s0 a s5 w es x H); [|intros s' s3; now apply Hbs].
    rewrite Hs0, app_comm_cons, <- Hrc. apply arr_text.
  - destruct (b =? 123) eqn:E123; [|exfalso; exact (pit_never _ _ _ H)]. apply N.eqb_eq in E123. subst b.
    destruct c as [| | |n|ps|w es|w ms]; try head_contra Hh.
    apply (frame_map_rest body_map s0 a s5 w ms x H); [|intros s' s3; now apply Hbm].
    rewrite Hs0, app_comm_cons, <- Hrc. apply obj_text.
Qed.

(* deserialize_enum, everything kept *)
Lemma enum_ok_inv {A} (body_map body_unit : st -> tres (A * st)) s a s5 :
  deserialize_enum E body_map body_unit s = TOk (a, s5) ->
  exists b s0, parse_whitespace E s = Ok (Some b, s0) /\
    ((b = 123 /\ exists s2 s3 s4 s6, enter E s0 = Ok s2 /\ body_map (discard s2) = TOk (a, s3) /\ leave E s3 = Ok s4
                 /\ parse_whitespace E s4 = Ok (Some 125, s6) /\ s5 = discard s6)
     \/ (b = 34 /\ body_unit s0 = TOk (a, s5))).
Proof.
  unfold deserialize_enum. intros H. apply tbind_lift_ok in H as ([o s0] & Hpw & H). destruct o as [b|]; [|discriminate H].
  exists b, s0. split; [exact Hpw|].
  destruct (b =? 123) eqn:E123.
  - left. apply N.eqb_eq in E123. split; [exact E123|]. apply tbind_lift_ok in H as (s2 & Hen & H).
    destruct (body_map (discard s2)) as [[a' s3]|c i|kk s'| |] eqn:Hb.
    + apply tbind_lift_ok in H as (s4 & Hlv & H). apply tbind_lift_ok in H as ([o2 s6] & Hpw2 & H).
      destruct o2 as [c|]; [|unfold error in H; discriminate H].
      destruct (c =? 125) eqn:E125; [|unfold error in H; discriminate H]. apply N.eqb_eq in E125. subst c.
      injection H as <- <-. exists s2, s3, s4, s6. auto.
    + discriminate H.
    + apply tbind_lift_ok in H as (s4 & _ & H). discriminate H.
    + discriminate H.
    + discriminate H.
  - destruct (b =? 34) eqn:E34; [|unfold peek_error in H; discriminate H]. right. apply N.eqb_eq in E34. auto.
Qed.

(* ------------------------------------------------------------------------------------------ *)
(** * 5. Map keys: the MapKey requests on the text of a key *)

Lemma peek_invE s o s1 : peek E s = Ok (o, s1) -> rest s1 = rest s /\ o = hd_error (rest s).
Proof. unfold peek. destruct (rest s) as [|b r] eqn:Hr; cbn; intros [= <- <-]; cbn [rest]; auto. Qed.

Lemma peek_or_null_restE s c s1 : peek_or_null E s = Ok (c, s1) -> rest s1 = rest s.
Proof.
  unfold peek_or_null. intros H. apply bind_ok in H as ([o s'] & Hp & H). apply peek_invE in Hp as [Hp _]. now injection H as _ <-.
Qed.

(* the closing quote of a string literal is the first quote that is not preceded by a backslash: a run of plain
   characters followed by a quote ends the literal there *)
Lemma lit_unique u z ps y : forallb rawok u = true -> u ++ 34 :: z = flat_map render_piece ps ++ 34 :: y -> str_ok ps = true -> z = y.
Proof.
  intros Hu Heq Hok. rewrite <- (render_raw u) in Heq.
  destruct (render_unique (map PRaw u) ps z y (raw_pieces_ok u Hu) Hok Heq) as [_ G]. exact G.
Qed.

Lemma numchars_rawok u : forallb numchar u = true -> forallb rawok u = true.
Proof.
  induction u as [|b u IH]; [reflexivity|]. cbn [forallb]. intros H. apply andb_prop in H as [Hb Hu].
  now rewrite (numchar_rawok b Hb), (IH Hu).
Qed.

(* a request that, started on a non-whitespace byte, reads a run of number characters *)
Definition numeric_delegate (dl : st -> tres (dval * st)) : Prop :=
  forall s0 b r d s', rest s0 = b :: r -> ws_byte b = false -> dl s0 = TOk (d, s') ->
  exists u, rest s0 = u ++ rest s' /\ forallb numchar u = true.

Lemma render_abs_numchars n : num_ok n = true -> forallb numchar (render_abs n) = true.
Proof. intros Hn. unfold render_abs. apply num_ok_numchars. exact Hn. Qed.

Lemma number_gen_numeric P visit :
  (forall positive s0 p s1, P positive s0 = Ok (p, s1) -> exists n, num_ok n = true /\ rest s0 = render_abs n ++ rest s1) ->
  keeps_state visit -> numeric_delegate (number_gen P visit).
Proof.
  intros HP Hv s0 b r d s' Hr Hb H. unfold number_gen in H. apply tbind_lift_ok in H as ([o s1] & Hpw & H).
  apply pw_invE in Hpw as [H1 H2]. rewrite Hr, (skipws_head b r Hb) in H1. rewrite H1 in H2. cbn [hd_error] in H2. subst o.
  apply fix_ok in H. destruct (b =? 45) eqn:E45.
  - apply N.eqb_eq in E45. subst b. apply tbind_lift_ok in H as ([p s2] & Hn & H). apply Hv in H. subst s'.
    apply HP in Hn as (n & Hok & Hn). rewrite discard_restE, H1 in Hn. cbn [tl] in Hn.
    exists (45 :: render_abs n). split; [rewrite Hr, Hn; reflexivity|]. cbn [forallb]. now rewrite render_abs_numchars.
  - destruct (is_digit b) eqn:Edig; [|exfalso; exact (pit_never _ _ _ H)].
    apply tbind_lift_ok in H as ([p s2] & Hn & H). apply Hv in H. subst s'.
    apply HP in Hn as (n & Hok & Hn). rewrite H1 in Hn.
    exists (render_abs n). split; [rewrite Hr; exact Hn|]. now apply render_abs_numchars.
Qed.

Lemma number_numeric visit : keeps_state visit -> numeric_delegate (deserialize_number E visit).
Proof.
  intros Hv. change (deserialize_number E visit) with (number_gen (parse_integer E) visit).
  apply number_gen_numeric; [|exact Hv]. intros positive. apply (parse_integer_sound E (HE cf)).
Qed.

Lemma number_s_numeric visit : keeps_state visit -> numeric_delegate (deserialize_number_s E visit).
Proof.
  intros Hv. change (deserialize_number_s E visit) with (number_gen (parse_integer_s E) visit).
  apply number_gen_numeric; [|exact Hv]. intros positive. apply (parse_integer_s_sound E (HE cf)).
Qed.

Lemma f32_numeric : numeric_delegate (deserialize_f32 E).
Proof.
  unfold deserialize_f32. destruct (float_roundtrip (Read.cf E)).
  - apply number_s_numeric, visit_f32_keeps.
  - apply number_numeric, visit_f32_keeps.
Qed.

Lemma scan128_sound s buf s2 : scan_integer128 E s = Ok (buf, s2) -> exists u, rest s = u ++ rest s2 /\ forallb is_digit u = true.
Proof.
  unfold scan_integer128, next. destruct (rest s) as [|c r] eqn:Hr.
  - cbn. discriminate.
  - cbn [bind]. destruct (c =? 48) eqn:E48.
    + apply N.eqb_eq in E48. subst c. intros H. apply bind_ok in H as ([c2 s1] & Hp & H).
      apply peek_or_null_restE in Hp. cbn [rest] in Hp. destruct (is_digit c2); [unfold peek_error in H; discriminate H|].
      injection H as _ <-. exists [48]. rewrite Hp. split; reflexivity.
    + destruct (is_digit19 c) eqn:E19; [|unfold error; discriminate].
      cbn [rest]. cbv zeta. intros H. apply bind_ok in H as ([c2 s1] & Hp & H). apply peek_or_null_restE in Hp.
      unfold advance in Hp. cbn [rest] in Hp. injection H as _ <-.
      exists (c :: firstn (span_len is_digit r) r). split.
      * rewrite Hp. cbn [app]. now rewrite firstn_skipn.
      * cbn [forallb]. rewrite GrammarIgnore.span_len_firstn. unfold is_digit19 in E19. unfold is_digit. lia.
Qed.

Lemma i128_numeric : numeric_delegate (deserialize_i128 E).
Proof.
  intros s0 b r d s' Hr Hb H. unfold deserialize_i128 in H. apply tbind_lift_ok in H as ([o s1] & Hpw & H).
  apply pw_invE in Hpw as [H1 H2]. rewrite Hr, (skipws_head b r Hb) in H1. rewrite H1 in H2. cbn [hd_error] in H2. subst o.
  cbv zeta in H. apply tbind_lift_ok in H as ([buf s2] & Hsc & H).
  destruct (parse_i128 (b =? 45) buf) as [z|]; [|unfold error in H; discriminate H]. injection H as _ <-.
  apply scan128_sound in Hsc as (u & Hu & Hd). destruct (b =? 45) eqn:E45.
  - apply N.eqb_eq in E45. subst b. rewrite discard_restE, H1 in Hu. cbn [tl] in Hu.
    exists (45 :: u). split; [rewrite Hr, Hu; reflexivity|]. cbn [forallb]. now rewrite (digits_numchar u Hd).
  - rewrite H1 in Hu. exists u. split; [rewrite Hr; exact Hu|]. now apply digits_numchar.
Qed.

Lemma u128_numeric : numeric_delegate (deserialize_u128 E).
Proof.
  intros s0 b r d s' Hr Hb H. unfold deserialize_u128 in H. apply tbind_lift_ok in H as ([o s1] & Hpw & H).
  apply pw_invE in Hpw as [H1 H2]. rewrite Hr, (skipws_head b r Hb) in H1. rewrite H1 in H2. cbn [hd_error] in H2. subst o.
  destruct (b =? 45) eqn:E45; [unfold peek_error in H; discriminate H|].
  apply tbind_lift_ok in H as ([buf s2] & Hsc & H).
  destruct (parse_u128 buf) as [z|]; [|unfold error in H; discriminate H]. injection H as _ <-.
  apply scan128_sound in Hsc as (u & Hu & Hd). rewrite H1 in Hu. exists u. split; [rewrite Hr; exact Hu|]. now apply digits_numchar.
Qed.

Lemma int_numeric t : numeric_delegate (deserialize_int E t).
Proof.
  destruct t; try (apply number_numeric, visit_int_keeps); [apply i128_numeric|apply u128_numeric].
Qed.

(* deserialize_numeric_key! : the delegate must stop exactly at the closing quote *)
Lemma numeric_key_rest dl s d s1 ps y : numeric_delegate dl ->
  numeric_key E dl s = TOk (d, s1) -> rest s = 34 :: flat_map render_piece ps ++ 34 :: y -> str_ok ps = true -> rest s1 = y.
Proof.
  intros Hdl H Hr Hok. unfold numeric_key in H. cbv zeta in H. apply tbind_lift_ok in H as ([o s0] & Hpk & H).
  apply peek_invE in Hpk as [H1 H2]. rewrite discard_restE, Hr in H1, H2. cbn [tl] in H1, H2.
  destruct o as [b|]; [|unfold peek_error in H; discriminate H].
  destruct (is_digit b || (b =? 45)) eqn:Eb; [|unfold error in H; discriminate H].
  apply tbind_ok in H as ([d0 s2] & Hd & H). apply tbind_lift_ok in H as ([o2 s3] & Hpk2 & H).
  apply peek_invE in Hpk2 as [H3 H4].
  destruct o2 as [c|]; [|unfold peek_error in H; discriminate H].
  destruct (c =? 34) eqn:E34; [|unfold peek_error in H; discriminate H]. apply N.eqb_eq in E34. subst c.
  injection H as _ <-. rewrite discard_restE, H3.
  destruct (rest s2) as [|q z] eqn:Hs2; [discriminate H4|]. injection H4 as <-. cbn [tl].
  destruct (flat_map render_piece ps ++ 34 :: y) as [|b' r'] eqn:Hlit; [discriminate H2|]. injection H2 as ->.
  assert (Hbw : ws_byte b' = false) by (unfold ws_byte; unfold is_digit in Eb; lia).
  destruct (Hdl s0 b' r' d0 s2 H1 Hbw Hd) as (u & Hu & Hnum). rewrite H1, Hs2 in Hu.
  apply (lit_unique u z ps y (numchars_rawok u Hnum)); [|exact Hok]. rewrite Hlit. symmetry. exact Hu.
Qed.

Lemma key_bool_rest s d s1 ps y :
  key_bool E s = TOk (d, s1) -> rest s = 34 :: flat_map render_piece ps ++ 34 :: y -> str_ok ps = true -> rest s1 = y.
Proof.
  intros H Hr Hok. unfold key_bool in H. cbv zeta in H. apply tbind_lift_ok in H as ([o s0] & Hpk & H).
  apply peek_invE in Hpk as [H1 H2]. rewrite discard_restE, Hr in H1, H2. cbn [tl] in H1, H2.
  destruct o as [b|]; [|unfold peek_error in H; discriminate H]. apply fix_ok in H.
  destruct (flat_map render_piece ps ++ 34 :: y) as [|b' r'] eqn:Hlit; [discriminate H2|]. injection H2 as ->.
  destruct (b' =? 116) eqn:E1.
  - apply N.eqb_eq in E1. subst b'. apply tbind_lift_ok in H as (s2 & Hid & H). injection H as _ <-.
    apply ident_invE in Hid. rewrite discard_restE, H1 in Hid. cbn [tl] in Hid. subst r'.
    apply (lit_unique [116;114;117;101] (rest s2) ps y eq_refl); [|exact Hok]. symmetry. exact Hlit.
  - destruct (b' =? 102) eqn:E2.
    + apply N.eqb_eq in E2. subst b'. apply tbind_lift_ok in H as (s2 & Hid & H). injection H as _ <-.
      apply ident_invE in Hid. rewrite discard_restE, H1 in Hid. cbn [tl] in Hid. subst r'.
      apply (lit_unique [102;97;108;115;101] (rest s2) ps y eq_refl); [|exact Hok]. symmetry. exact Hlit.
    + apply tbind_lift_ok in H as ([x1 s2] & _ & H). discriminate H.
Qed.

End Leaves.

Print Assumptions int_rest.
Print Assumptions numeric_key_rest.
Print Assumptions struct_frame.
