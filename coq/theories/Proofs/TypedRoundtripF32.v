(* Proofs/TypedRoundtripF32.v — C04 (typed half), part 5: f32 targets under float_roundtrip.

   Locality of the single-precision number parser (Model/NumF32.v, `single_precision = true`): on a well-formed number
   literal followed by a byte that cannot continue it, [parse_integer_s] returns what it returns on the literal alone and
   stops right behind it.  This is the success half of the "recognizer" argument of Proofs/GrammarNum.v, replayed for the
   _s functions (same control flow; the float back end asks lexical for an f32).
   Consequence: the in-context hypothesis [reads_f32] of TypedRoundtripMain.v follows, under float_roundtrip, from a statement
   about the printed text ALONE ([reads_f32_of_text_rt]); [C04_typed_text] is the round trip with text-alone hypotheses for
   every float leaf in every configuration. *)
From Coq Require Import Lia ZifyBool ZifyNat ZifyN.
From SJ Require Import Base.Bytes Base.Utf8 Base.FloatB Gen.Tables Model.Read Model.Str Model.Num Model.NumF32 Model.Value Model.De
  Model.Ignore Model.Sval Model.Ser Model.ValueSer Model.Ty Model.SerTyped Spec.Syntax Spec.Denote Spec.Layout
  Proofs.NumInt Proofs.GrammarNum Proofs.GrammarValueBase Proofs.SerBase Proofs.TypedInt Proofs.TypedRk
  Proofs.TypedRoundtripTxt Proofs.TypedRoundtripBase Proofs.TypedRoundtripMain Proofs.TypedRoundtripFloat.
From SJ Require Import Model.DeTyped.
From Flocq Require Import Core BinarySingleNaN.
Open Scope N_scope.

Notation is_e c := ((c =? 101) || (c =? 69)).

Section RunS.
Variable E : env.
Hypothesis HE : tm E = TEof.

(* ---- the float back ends ---- *)
Lemma finish_s_fin : forall positive f, exists o, forall s, fin o (finish_s E positive f s) s.
Proof.
  intros positive f. unfold finish_s. destruct (b32_is_inf f).
  - exists None. intros s. eexists. reflexivity.
  - eexists (Some _). intros s. reflexivity.
Qed.

Lemma f64_from_parts_s_fin : forall positive sg e, exists o, forall s, fin o (f64_from_parts_s E positive sg e s) s.
Proof. intros. apply finish_s_fin. Qed.
Lemma f64_long_s_fin : forall positive i f e, exists o, forall s, fin o (f64_long_from_parts_s E positive i f e s) s.
Proof. intros. apply finish_s_fin. Qed.

(* ---- exponents ---- *)
Lemma parse_exponent_s_eq : forall positive sg se s,
  parse_exponent_s E positive sg se s =
  after_exp E positive (sg =? 0)
    (fun pe e s2 => f64_from_parts_s E positive sg (if pe then i32_sat (se + Z.of_N e) else i32_sat (se - Z.of_N e)) s2) s.
Proof. reflexivity. Qed.
Lemma parse_long_exponent_s_eq : forall positive i f s,
  parse_long_exponent_s E positive i f s =
  after_exp E positive (forallb (N.eqb 48) (i ++ f))
    (fun pe e s2 => f64_long_from_parts_s E positive i f (if pe then Z.of_N e else (- Z.of_N e)%Z) s2) s.
Proof. reflexivity. Qed.

(* ---- continuations (the same shapes as GrammarNum's k2 / k1) ---- *)
Definition run_k2s (positive : bool) (k : k2) (s : st) : res (b64 * st) :=
  let c := hd 0 (rest s) in
  match k with
  | K2s sg e => if is_e c then parse_exponent_s E positive sg e s else f64_from_parts_s E positive sg e s
  | K2l i f => if is_e c then parse_long_exponent_s E positive i f s else f64_long_from_parts_s E positive i f 0 s
  end.

Lemma k2s_fin : forall positive k,
  exists o, forall r off d, is_e (hd 0 r) = false -> fin o (run_k2s positive k (pkd r off d)) (pkd r off d).
Proof.
  intros positive [sg e|i f].
  - destruct (f64_from_parts_s_fin positive sg e) as [o Ho]. exists o. intros r off d He.
    unfold run_k2s. cbv zeta. rewrite rest_pkd, He. apply Ho.
  - destruct (f64_long_s_fin positive i f 0) as [o Ho]. exists o. intros r off d He.
    unfold run_k2s. cbv zeta. rewrite rest_pkd, He. apply Ho.
Qed.

Lemma k2s_exp : forall positive k e sg c1 ds, is_e e = true -> sg_ok sg -> is_digit c1 = true -> digs ds ->
  exists o, forall r off d, nd r ->
    fin o (run_k2s positive k (pkd (e :: sgl sg ++ c1 :: ds ++ r) off d)) (pkd r (off + (2 + length (sgl sg) + length ds)) d).
Proof.
  intros positive [sg0 e0|i f] e sg c1 ds He Hsg Hc1 Hd.
  - destruct (after_exp_good E HE positive (sg0 =? 0)
       (fun pe ex s2 => f64_from_parts_s E positive sg0 (if pe then i32_sat (e0 + Z.of_N ex) else i32_sat (e0 - Z.of_N ex)) s2)
       e sg c1 ds) as [o Ho]; try assumption.
    { intros pe ex. apply f64_from_parts_s_fin. }
    exists o. intros r off d Hr. unfold run_k2s. cbv zeta. rewrite rest_pkd. cbn [hd]. rewrite He, parse_exponent_s_eq. apply Ho, Hr.
  - destruct (after_exp_good E HE positive (forallb (N.eqb 48) (i ++ f))
       (fun pe ex s2 => f64_long_from_parts_s E positive i f (if pe then Z.of_N ex else (- Z.of_N ex)%Z) s2)
       e sg c1 ds) as [o Ho]; try assumption.
    { intros pe ex. apply f64_long_s_fin. }
    exists o. intros r off d Hr. unfold run_k2s. cbv zeta. rewrite rest_pkd. cbn [hd]. rewrite He, parse_long_exponent_s_eq. apply Ho, Hr.
Qed.

(* ---- fractions ---- *)
Lemma parse_long_decimal_s_good : forall positive i f0 ds r o p d, digs ds -> nd r -> f0 ++ ds <> [] ->
  parse_long_decimal_s E positive i f0 (mkSt (ds ++ r) o p d) = run_k2s positive (K2l i (f0 ++ ds)) (pkd r (o + length ds) d).
Proof.
  intros positive i f0 ds r o p d Hd Hr Hne. unfold parse_long_decimal_s. cbn [rest].
  rewrite (span_app ds r Hd Hr), firstn_app_l, advance_mk, skipn_app_l, (peek_or_null_mk E HE). cbn [bind]. cbv beta iota.
  destruct (f0 ++ ds) as [|x fr] eqn:Hfr; [exfalso; apply Hne; reflexivity|]. reflexivity.
Qed.

Lemma parse_decimal_overflow_s_good : forall positive sg e ds2, digs ds2 -> ds2 <> [] ->
  exists k', forall r o p d, nd r ->
    parse_decimal_overflow_s E positive sg e (mkSt (ds2 ++ r) o p d) = run_k2s positive k' (pkd r (o + length ds2) d).
Proof.
  intros positive sg e ds2 Hd Hne. unfold parse_decimal_overflow_s.
  eexists (K2l _ (_ ++ ds2)). intros r o p d Hr. cbv zeta.
  apply parse_long_decimal_s_good; try assumption.
  intros Hnil. apply app_eq_nil in Hnil. apply Hne, Hnil.
Qed.

Lemma parse_decimal_s_good : forall positive sg e ds, sg < two64 -> digs ds -> ds <> [] ->
  exists k', forall r o p d, nd r ->
    parse_decimal_s E positive sg e (mkSt (46 :: ds ++ r) o p d) = run_k2s positive k' (pkd r (o + S (length ds)) d).
Proof.
  intros positive sg e ds Hsg Hd Hne.
  destruct (sig_loop ds sg) as [[n sg'] ov] eqn:Hsl.
  destruct (sig_loop_spec _ _ _ _ _ Hd Hsg Hsl) as (Hsg' & Hn & Hfull & Hpart).
  destruct ov.
  - specialize (Hpart eq_refl).
    destruct (parse_decimal_overflow_s_good positive sg' (e + - Z.of_nat n) (skipn n ds) (digs_skipn n ds Hd)
                (skipn_len_lt_nonnil n ds Hpart)) as (k' & Hrun).
    exists k'. intros r o p d Hr. unfold parse_decimal_s.
    rewrite discard_mk. cbn [tl rest]. rewrite (sig_loop_app ds r sg Hr), Hsl.
    rewrite advance_mk, (skipn_app_le n ds r Hn), (peek_or_null_mk E HE). cbn [bind]. cbv beta iota.
    unfold pkd at 1. rewrite (Hrun r _ _ d Hr). rewrite skipn_length. do 2 f_equal. lia.
  - specialize (Hfull eq_refl). subst n.
    exists (K2s sg' (e + - Z.of_nat (length ds))). intros r o p d Hr. unfold parse_decimal_s.
    rewrite discard_mk. cbn [tl rest]. rewrite (sig_loop_app ds r sg Hr), Hsl.
    rewrite advance_mk, skipn_app_l, (peek_or_null_mk E HE). cbn [bind]. cbv beta iota.
    destruct ds as [|c0 ds0]; [exfalso; apply Hne; reflexivity|]. cbn [length Nat.eqb].
    unfold run_k2s. cbv zeta. rewrite rest_pkd.
    replace (S o + S (length ds0))%nat with (o + S (S (length ds0)))%nat by lia. reflexivity.
Qed.

(* ---- what remains to be done after the integer digits ---- *)
Definition run_k1s (positive : bool) (k : k1) (s : st) : res (pnum * st) :=
  let c := hd 0 (rest s) in
  match k with
  | K1n sg => parse_number_s E positive sg s
  | K1l sg e => wrapF (if c =? 46 then parse_decimal_s E positive sg e s
                       else if is_e c then parse_exponent_s E positive sg e s
                       else f64_from_parts_s E positive sg e s)
  | K1f i => wrapF (if c =? 46 then parse_long_decimal_s E positive i [] (discard s)
                    else if is_e c then parse_long_exponent_s E positive i [] s
                    else f64_long_from_parts_s E positive i [] 0 s)
  end.

Definition neg_small_s (sg : N) : pnum :=
  if (0 <=? wrap_i64 (- wrap_i64 (Z.of_N sg)))%Z
  then PF64 (b64_neg (b64_of_b32 (binary_normalize 24 128 _ _ mode_NE (Z.of_N sg) 0 false)))
  else PI64 (wrap_i64 (- wrap_i64 (Z.of_N sg))).

Lemma parse_number_s_unfold : forall positive sg r o d,
  parse_number_s E positive sg (pkd r o d) =
  let c := hd 0 r in
  if c =? 46 then wrapF (parse_decimal_s E positive sg 0 (pkd r o d))
  else if is_e c then wrapF (parse_exponent_s E positive sg 0 (pkd r o d))
  else if positive then Ok (PU64 sg, pkd r o d)
  else Ok (neg_small_s sg, pkd r o d).
Proof.
  intros positive sg r o d. unfold parse_number_s, neg_small_s. rewrite (peek_or_null_pkd E HE). cbn [bind]. cbv beta iota zeta.
  destruct (hd 0 r =? 46); [reflexivity|]. destruct (is_e (hd 0 r)); [reflexivity|]. destruct positive; [reflexivity|].
  destruct (0 <=? wrap_i64 (- wrap_i64 (Z.of_N sg)))%Z; reflexivity.
Qed.

Lemma k1s_dec : forall positive k ds, k1_ok k -> digs ds -> ds <> [] ->
  exists k', forall r o d, nd r ->
    run_k1s positive k (pkd (46 :: ds ++ r) o d) = wrapF (run_k2s positive k' (pkd r (o + S (length ds)) d)).
Proof.
  intros positive [sg|sg e|i] ds Hk Hd Hne; cbn [k1_ok] in Hk.
  - destruct (parse_decimal_s_good positive sg 0 ds Hk Hd Hne) as (k' & Hrun).
    exists k'. intros r o d Hr. unfold run_k1s. cbv zeta. rewrite parse_number_s_unfold. cbv zeta. cbn [hd].
    change (46 =? 46) with true. cbv iota. unfold pkd at 1. rewrite (Hrun r _ _ d Hr). reflexivity.
  - destruct (parse_decimal_s_good positive sg e ds Hk Hd Hne) as (k' & Hrun).
    exists k'. intros r o d Hr. unfold run_k1s. cbv zeta. rewrite rest_pkd. cbn [hd].
    change (46 =? 46) with true. cbv iota. unfold pkd at 1. rewrite (Hrun r _ _ d Hr). reflexivity.
  - exists (K2l i ds). intros r o d Hr. unfold run_k1s. cbv zeta. rewrite rest_pkd. cbn [hd].
    change (46 =? 46) with true. cbv iota. unfold pkd at 1. rewrite discard_mk. cbn [tl].
    rewrite (parse_long_decimal_s_good positive i [] ds r _ _ d Hd Hr Hne). cbn [app].
    replace (S o + length ds)%nat with (o + S (length ds))%nat by lia. reflexivity.
Qed.

Lemma k1s_exp : forall positive k r o d, is_e (hd 0 r) = true ->
  run_k1s positive k (pkd r o d) = wrapF (run_k2s positive (k2_of k) (pkd r o d)).
Proof.
  intros positive [sg|sg e|i] r o d He; unfold run_k1s, run_k2s, k2_of; cbv zeta.
  - rewrite parse_number_s_unfold. cbv zeta. rewrite rest_pkd, (e_not_dot _ He), He. reflexivity.
  - rewrite rest_pkd, (e_not_dot _ He), He. reflexivity.
  - rewrite rest_pkd, (e_not_dot _ He), He. reflexivity.
Qed.

Lemma k1s_fin : forall positive k,
  exists o, forall r off d, (hd 0 r =? 46) = false -> is_e (hd 0 r) = false ->
    fin o (run_k1s positive k (pkd r off d)) (pkd r off d).
Proof.
  intros positive [sg|sg e|i].
  - exists (Some (if positive then PU64 sg else neg_small_s sg)).
    intros r off d H46 He. unfold run_k1s. cbv zeta. rewrite parse_number_s_unfold. cbv zeta. rewrite H46, He.
    cbn [fin]. destruct positive; reflexivity.
  - destruct (f64_from_parts_s_fin positive sg e) as [o Ho]. exists (option_map PF64 o).
    intros r off d H46 He. unfold run_k1s. cbv zeta. rewrite rest_pkd, H46, He. apply fin_wrapF, Ho.
  - destruct (f64_long_s_fin positive i [] 0) as [o Ho]. exists (option_map PF64 o).
    intros r off d H46 He. unfold run_k1s. cbv zeta. rewrite rest_pkd, H46, He. apply fin_wrapF, Ho.
Qed.

(* ---- the integer part ---- *)
Lemma parse_long_integer_s_good : forall positive sg ds2, digs ds2 ->
  exists k, k1_ok k /\ forall r o p d, nd r ->
    wrapF (parse_long_integer_s E positive sg (mkSt (ds2 ++ r) o p d)) = run_k1s positive k (pkd r (o + length ds2) d).
Proof.
  intros positive sg ds2 Hd. unfold parse_long_integer_s.
  exists (K1f (itoa sg ++ ds2)). split; [exact I|]. intros r o p d Hr. cbn [rest]. cbv zeta.
  rewrite (span_app ds2 r Hd Hr), firstn_app_l, advance_mk, skipn_app_l, (peek_or_null_mk E HE). cbn [bind]. cbv beta iota.
  unfold run_k1s. cbv zeta. rewrite rest_pkd. reflexivity.
Qed.

Lemma parse_integer_s_good : forall positive int, int_ok int = true ->
  exists k, k1_ok k /\ forall r o p d, nd r ->
    parse_integer_s E positive (mkSt (int ++ r) o p d) = run_k1s positive k (pkd r (o + length int) d).
Proof.
  intros positive int Hint. destruct (int_ok_inv int Hint) as [->|(c & ds & -> & Hc & Hd)].
  - exists (K1n 0). split; [reflexivity|]. intros r o p d Hr. unfold parse_integer_s. cbn [app].
    rewrite next_cons. cbn [bind]. cbv beta iota. change (48 =? 48) with true. cbv iota.
    rewrite (peek_or_null_mk E HE). cbn [bind]. cbv beta iota. rewrite Hr. cbn [length].
    replace (o + 1)%nat with (S o) by lia. reflexivity.
  - destruct (digit19_digit c Hc) as (Hcd & Hc48).
    assert (Hdv : digit_val c < two64).
    { unfold digit_val, two64. unfold is_digit in Hcd. lia. }
    destruct (sig_loop ds (digit_val c)) as [[n sg] ov] eqn:Hsl.
    destruct (sig_loop_spec _ _ _ _ _ Hd Hdv Hsl) as (Hsg & Hn & Hfull & Hpart).
    destruct ov.
    + destruct (parse_long_integer_s_good positive sg (skipn n ds) (digs_skipn n ds Hd)) as (k & Hk & Hrun).
      exists k. split; [exact Hk|]. intros r o p d Hr. unfold parse_integer_s. cbn [app].
      rewrite next_cons. cbn [bind]. cbv beta iota. rewrite Hc48, Hc. cbn [rest].
      rewrite (sig_loop_app ds r _ Hr), Hsl, advance_mk, (skipn_app_le n ds r Hn), (peek_or_null_mk E HE). cbn [bind]. cbv beta iota.
      unfold pkd at 1. change (let* (f, s3) := ?x in Ok (PF64 f, s3)) with (wrapF x).
      rewrite (Hrun r _ _ d Hr), skipn_length. cbn [length]. do 2 f_equal. lia.
    + specialize (Hfull eq_refl). subst n.
      exists (K1n sg). split; [exact Hsg|]. intros r o p d Hr. unfold parse_integer_s. cbn [app].
      rewrite next_cons. cbn [bind]. cbv beta iota. rewrite Hc48, Hc. cbn [rest].
      rewrite (sig_loop_app ds r _ Hr), Hsl, advance_mk, skipn_app_l, (peek_or_null_mk E HE). cbn [bind]. cbv beta iota.
      cbn [length run_k1s]. replace (S o + length ds)%nat with (o + S (length ds))%nat by lia. reflexivity.
Qed.

(* ---- a well-formed literal: one outcome for every continuation of the input that cannot continue the literal ---- *)
Lemma parse_integer_s_recognizes : forall positive n, num_ok n = true -> exists o, forall r off p d, fw n r ->
  fin o (parse_integer_s E positive (mkSt (render_abs n ++ r) off p d)) (pkd r (off + length (render_abs n)) d).
Proof.
  intros positive n Hok. destruct (num_ok_inv n Hok) as (Hint & Hf & Hx).
  destruct (parse_integer_s_good positive (nint n) Hint) as (k & Hk & Hrun1).
  destruct (nfrac n) as [f|] eqn:Hfr; destruct (nexp n) as [[[e sg] ds]|] eqn:Hex; cbn [frac_wf exp_wf] in Hf, Hx.
  - destruct Hf as (Hfd & Hfne). destruct Hx as (He & Hsg & c1 & ds' & -> & Hc1 & Hd').
    destruct (k1s_dec positive k f Hk Hfd Hfne) as (k' & Hrun2).
    destruct (k2s_exp positive k' e sg c1 ds' He Hsg Hc1 Hd') as (o & Ho).
    exists (option_map PF64 o). intros r off p d (Hr & _ & _).
    rewrite lit_app, lit_len, Hfr, Hex. cbn [fracl expl app]. rewrite <- app_assoc. cbn [app].
    rewrite (Hrun1 _ off p d (nd_dot _)), (Hrun2 _ _ d (nd_e e _ He)).
    eapply fin_st; [apply fin_wrapF, Ho, Hr|]. apply pkd_off. cbn [length]. rewrite app_length. cbn [length]. lia.
  - destruct Hf as (Hfd & Hfne).
    destruct (k1s_dec positive k f Hk Hfd Hfne) as (k' & Hrun2).
    destruct (k2s_fin positive k') as (o & Ho).
    exists (option_map PF64 o). intros r off p d (Hr & He & _). specialize (He Hex).
    rewrite lit_app, lit_len, Hfr, Hex. cbn [fracl expl app].
    rewrite (Hrun1 _ off p d (nd_dot _)), (Hrun2 _ _ d Hr).
    eapply fin_st; [apply fin_wrapF, Ho, He|]. apply pkd_off. cbn [length]. lia.
  - destruct Hx as (He & Hsg & c1 & ds' & -> & Hc1 & Hd').
    destruct (k2s_exp positive (k2_of k) e sg c1 ds' He Hsg Hc1 Hd') as (o & Ho).
    exists (option_map PF64 o). intros r off p d (Hr & _ & _).
    rewrite lit_app, lit_len, Hfr, Hex. cbn [fracl expl app]. rewrite <- app_assoc. cbn [app].
    rewrite (Hrun1 _ off p d (nd_e e _ He)), k1s_exp by (cbn [hd]; exact He).
    eapply fin_st; [apply fin_wrapF, Ho, Hr|]. apply pkd_off. cbn [length]. rewrite app_length. cbn [length]. lia.
  - destruct (k1s_fin positive k) as (o & Ho).
    exists o. intros r off p d (Hr & He & H46). specialize (He Hex). specialize (H46 Hex Hfr).
    rewrite lit_app, lit_len, Hfr, Hex. cbn [fracl expl app].
    rewrite (Hrun1 _ off p d Hr).
    eapply fin_st; [apply Ho; assumption|]. apply pkd_off. cbn [length]. lia.
Qed.

(* locality: what the literal alone yields, it yields in every such context *)
Theorem number_local_s : forall positive n rst off pk d p s',
  num_ok n = true -> num_follow rst ->
  parse_integer_s E positive (init_st (render_abs n)) = Ok (p, s') ->
  parse_integer_s E positive (mkSt (render_abs n ++ rst) off pk d) = Ok (p, st_end (render_abs n) rst off d).
Proof.
  intros positive n rst off pk d p s' Hok Hfol Hiso.
  destruct (parse_integer_s_recognizes positive n Hok) as (o & Ho).
  pose proof (Ho [] 0%nat false DEPTH0 (fw_nil n)) as H0. rewrite app_nil_r in H0.
  change (mkSt (render_abs n) 0 false DEPTH0) with (init_st (render_abs n)) in H0. rewrite Hiso in H0.
  destruct o as [a|]; cbn [fin] in H0.
  - injection H0 as <- _. exact (Ho rst off pk d (proj2 (fw_iff n rst) (num_follow_weaken n rst Hfol))).
  - destruct H0 as (i & H0). discriminate H0.
Qed.
End RunS.

(* ------------------------------------------------------------------------------------------ *)
(** * f32 targets under float_roundtrip *)
Section F32Text.
  Variable cf : cfg.
  Notation E := (mkEnv RSlice TEof cf).

  (* as [text_visits], through the single-precision parser *)
  Definition text_visits_s (visit : pnum -> st -> tres (dval * st)) (t : bytes) (b : N) : Prop :=
    exists n p s', numlit_of_text t = Some n /\ num_ok n = true /\
      parse_integer_s E (negb (nneg n)) (init_st (render_abs n)) = Ok (p, s') /\ forall s, visit p s = TOk (DFloat b, s).

  Lemma number_in_context_s visit t b s tl : text_visits_s visit t b -> rest s = t ++ tl -> tfollow tl ->
    reads (deserialize_number_s E visit s) (DFloat b) s tl.
  Proof.
    intros (n & p & s' & Hn & Hok & Hiso & Hv) Hr Hfol.
    assert (HL : forall positive o pk d, positive = negb (nneg n) ->
              parse_integer_s E positive (mkSt (render_abs n ++ tl) o pk d) = Ok (p, st_end (render_abs n) tl o d)).
    { intros positive o pk d ->. exact (number_local_s E eq_refl _ n tl o pk d p s' Hok (tfollow_num_follow tl Hfol) Hiso). }
    rewrite <- (numlit_of_text_render t n Hn), render_num_abs in Hr. unfold deserialize_number_s.
    destruct (nneg n) eqn:Hneg; cbn [app] in Hr.
    - destruct (pw_head cf s _ _ Hr eq_refl) as (s1 & Hpw & Hr1 & Hd1). rewrite Hpw. cbn [lift tbind].
      change (45 =? 45) with true. cbv iota. unfold discard. rewrite Hr1. cbn [List.tl].
      rewrite (HL false _ _ _ eq_refl). cbn [lift tbind]. rewrite Hv. cbn [fix_position].
      eexists _, _. split; [reflexivity|]. cbn [rest depth st_end]. auto.
    - destruct (render_abs_head n Hok) as (c & r & Habs & Hc). rewrite Habs in Hr. cbn [app] in Hr.
      destruct (pw_head cf s _ _ Hr (digit_not_ws c Hc)) as (s1 & Hpw & Hr1 & Hd1). rewrite Hpw. cbn [lift tbind].
      rewrite (is_digit_ne45 c Hc), Hc. destruct s1 as [r1 o1 p1 d1]. cbn [rest depth] in Hr1, Hd1. subst r1.
      change (c :: r ++ tl) with ((c :: r) ++ tl). rewrite <- Habs.
      rewrite (HL true _ _ _ eq_refl). cbn [lift tbind]. rewrite Hv. cbn [fix_position].
      eexists _, _. split; [reflexivity|]. cbn [rest depth st_end]. auto.
  Qed.

  Lemma text_visits_s_head visit t b : text_visits_s visit t b -> num_head t.
  Proof.
    intros (n & p & s' & Hn & Hok & _). rewrite <- (numlit_of_text_render t n Hn), render_num_abs. unfold num_head.
    destruct (nneg n); cbn [app].
    - do 2 eexists. split; [reflexivity|]. right. reflexivity.
    - destruct (render_abs_head n Hok) as (c & r & -> & Hc). exists c, r. split; [reflexivity|]. left. exact Hc.
  Qed.

End F32Text.

Section F32.
  Variable cf : cfg.
  Variable fmt32 fmt64 : N -> bytes.
  Notation E := (mkEnv RSlice TEof cf).
  Notation text_visits_s := (text_visits_s cf).

  Theorem reads_f32_of_text_rt b : float_roundtrip cf = true -> f32_finite_bits (f32_bits_of_f64_bits b) = true ->
    text_visits_s visit_f32 (fmt32 (f32_bits_of_f64_bits b)) b -> reads_f32 cf fmt32 b.
  Proof.
    intros Hfr Hfin Htv. split; [exact Hfin|]. split; [exact (text_visits_s_head cf _ _ _ Htv)|].
    intros s tl Hr Hfol. unfold deserialize_f32. cbn [Read.cf]. rewrite Hfr.
    exact (number_in_context_s cf visit_f32 _ b s tl Htv Hr Hfol).
  Qed.

  (* the hypothesis on one float leaf, a statement about its printed text alone, by width and configuration:
       f64                         the text is a JSON number that parse_integer reads as a number the f64 visitor turns into b
       f32, float_roundtrip        ... that parse_integer_s (single precision) reads ... the f32 visitor ...
       f32, no float_roundtrip     ... that parse_integer reads ... the f32 visitor (`as f32`) ...                           *)
  Definition float_text_alone (p : bool * N) : Prop :=
    let b := snd p in
    if fst p then
      f32_finite_bits (f32_bits_of_f64_bits b) = true /\
      (if float_roundtrip cf then text_visits_s visit_f32 (fmt32 (f32_bits_of_f64_bits b)) b
       else text_visits cf visit_f32 (fmt32 (f32_bits_of_f64_bits b)) b)
    else f64_finite_bits b = true /\ text_visits cf visit_f64 (fmt64 b) b.

  Lemma float_text_alone_ok p : float_text_alone p -> float_ok cf fmt32 fmt64 p.
  Proof.
    destruct p as [[|] b]; unfold float_text_alone, float_ok; cbn [fst snd].
    - intros [H1 H2]. destruct (float_roundtrip cf) eqn:Hfr; [apply reads_f32_of_text_rt|apply reads_f32_of_text]; assumption.
    - intros [H1 H2]. apply reads_f64_of_text; assumption.
  Qed.

  (* ======================================================== C04, typed half: every level, text-alone float hypotheses ======================================================== *)
  Theorem C04_typed_text : forall t d sv bufs,
    in_universe t = true -> has_type t d = true -> roundtrip_safe t d = true ->
    Forall float_text_alone (float_leaves t d) ->
    sval_of_dval t d = Some sv -> serialize cf fmt32 fmt64 Compact sv = Ok bufs ->
    (limit_disabled cf = false -> (nest t d <= 127)%nat) ->
    exists d', from_input_typed E t (concat bufs) = TOk d' /\ unb d' = unb d.
  Proof.
    intros t d sv bufs HU HT HS HF Hsv Hser HD. apply (C04_typed cf fmt32 fmt64 t d sv bufs HU HT HS); try assumption.
    unfold floats_ok. eapply Forall_impl; [|exact HF]. intros p. apply float_text_alone_ok.
  Qed.

  (* without the exclusion: what reads back is [norm t d] (every `Some(x)` with x printed as `null` has become `None`) *)
  Theorem C04_typed_text_norm : forall t d sv bufs,
    in_universe t = true -> has_type t d = true -> str_safe t d = true ->
    Forall float_text_alone (float_leaves t d) ->
    sval_of_dval t d = Some sv -> serialize cf fmt32 fmt64 Compact sv = Ok bufs ->
    (limit_disabled cf = false -> (nest t d <= 127)%nat) ->
    exists d', from_input_typed E t (concat bufs) = TOk d' /\ unb d' = unb (norm t d).
  Proof.
    intros t d sv bufs HU HT HS HF Hsv Hser HD. apply (C04_typed_norm cf fmt32 fmt64 t d sv bufs HU HT HS); try assumption.
    unfold floats_ok. eapply Forall_impl; [|exact HF]. intros p. apply float_text_alone_ok.
  Qed.

  (* the same text through an io::Read source (IoRead): same data; &str targets cannot be read from a reader at all *)
  Corollary C04_typed_io : forall t d sv bufs,
    in_universe t = true -> owned_ty t = true -> has_type t d = true -> roundtrip_safe t d = true ->
    Forall float_text_alone (float_leaves t d) ->
    sval_of_dval t d = Some sv -> serialize cf fmt32 fmt64 Compact sv = Ok bufs ->
    (limit_disabled cf = false -> (nest t d <= 127)%nat) ->
    exists d', from_input_typed (mkEnv RIo TEof cf) t (concat bufs) = TOk d' /\ unb d' = unb d.
  Proof.
    intros t d sv bufs HU HO HT HS HF Hsv Hser HD.
    destruct (C04_typed_text t d sv bufs HU HT HS HF Hsv Hser HD) as (d' & Hsl & Hu).
    pose proof (from_input_typed_rk_strong cf t (concat bufs) HO) as H. unfold Eio, Esl in H. rewrite Hsl in H.
    destruct (from_input_typed (mkEnv RIo TEof cf) t (concat bufs)) as [a|c i|k s| |]; cbn [tclose] in H; try contradiction.
    exists a. split; [reflexivity|]. congruence.
  Qed.
End F32.

Print Assumptions number_local_s.
Print Assumptions C04_typed_text.
Print Assumptions C04_typed_text_norm.
Print Assumptions C04_typed_io.
