(* Proofs/TypedPrefixF32.v — prefix dichotomy for the typed deserializer, part 4: Model/NumF32.v
   (number parsing with single_precision set, f32 targets of float_roundtrip builds).  The control flow is that of
   Model/Num.v's float_roundtrip paths, so the proofs are those of Proofs/PrefixNum.v with the `_s` functions. *)
From SJ Require Import Base.Bytes Base.FloatB Gen.Tables Model.Read Model.Num Model.NumF32 Proofs.PrefixBase Proofs.PrefixNum.
From Flocq Require Import Core BinarySingleNaN.
Require Import Lia ZifyBool ZifyNat ZifyN.
Open Scope N_scope.
#[local] Arguments iv {X}.
#[local] Arguments ex {X}.
#[local] Arguments tch {X}.

Section DichF32.
Variable C : ctx.
Notation rk0 := (c_rk C).
Notation cf0 := (c_cf C).
Notation tm1 := (c_tm1 C).
Notation tm2 := (c_tm2 C).
Notation t := (c_t C).
Notation L := (c_L C).
Notation E1 := (mkEnv (c_rk C) (c_tm1 C) (c_cf C)).
Notation E2 := (mkEnv (c_rk C) (c_tm2 C) (c_cf C)).

Lemma finish_s_dich positive f s : inv C s -> okst C s ->
  dich C (ShP C nov) (finish_s E1 positive f s) (finish_s E2 positive f (ext C s)).
Proof.
  intros Hi Hok. unfold finish_s.
  destruct (b32_is_inf f); [|now apply ret_dich]. apply peek_error_dich; [assumption|].
  destruct Hok as [Hl | Htm]; [now left|right; split; [assumption|apply eofish_range]].
Qed.

Lemma finish_s_eofc (bm : b64 -> Prop) positive f s : inv C s -> touched s -> tm1 = TEof ->
  (forall f, bm f) -> eofc C (ShP C bm) (finish_s E1 positive f s).
Proof.
  intros Hi Ht Htm Hbm. unfold finish_s.
  destruct (b32_is_inf f); [|now apply ret_eofc]. apply peek_error_eofc; auto using eofish_range.
Qed.

Lemma f64_from_parts_s_dich positive sig e s : inv C s -> okst C s ->
  dich C (ShP C nov) (f64_from_parts_s E1 positive sig e s) (f64_from_parts_s E2 positive sig e (ext C s)).
Proof. intros Hi Hok. unfold f64_from_parts_s. now apply finish_s_dich. Qed.

Lemma f64_from_parts_s_eofc (bm : b64 -> Prop) positive sig e s : inv C s -> touched s -> tm1 = TEof ->
  (forall f, bm f) ->
  eofc C (ShP C bm) (f64_from_parts_s E1 positive sig e s).
Proof. intros Hi Ht Htm Hbm. unfold f64_from_parts_s. now apply finish_s_eofc. Qed.

Lemma f64_long_from_parts_s_dich positive integer fraction e s : inv C s -> okst C s ->
  dich C (ShP C nov) (f64_long_from_parts_s E1 positive integer fraction e s)
                     (f64_long_from_parts_s E2 positive integer fraction e (ext C s)).
Proof. intros Hi Hok. unfold f64_long_from_parts_s. cbv zeta. now apply finish_s_dich. Qed.

Lemma f64_long_from_parts_s_eofc (bm : b64 -> Prop) positive integer fraction e s : inv C s -> touched s -> tm1 = TEof ->
  (forall f, bm f) ->
  eofc C (ShP C bm) (f64_long_from_parts_s E1 positive integer fraction e s).
Proof. intros Hi Ht Htm Hbm. unfold f64_long_from_parts_s. cbv zeta. now apply finish_s_eofc. Qed.

(* after the exponent digits: peek, then build the float *)
Lemma parse_exponent_s_dich positive sig se s : inv C s -> live s ->
  dich C (ShP C anyv) (parse_exponent_s E1 positive sig se s) (parse_exponent_s E2 positive sig se (ext C s)).
Proof.
  intros Hi Hl. unfold parse_exponent_s.
  apply (bind_dichP C ef_bm); [now apply exponent_front_dich| |].
  - intros [pe [e ov]] s1 _ Hi1. cbv beta iota. destruct ov; [now apply parse_exponent_overflow_dich|].
    apply (bind_dichP C (isZero C)); [now apply peek_or_null_dich| |].
    + intros c s2 Hp Hi2. cbv beta iota. apply dich_strict_any. apply f64_from_parts_s_dich; [assumption|].
      now apply pon_okst in Hp.
    + intros c s2 _ Hi2 Ht2 [_ Htm]. cbv beta iota. apply f64_from_parts_s_eofc; auto. intros; exact I.
  - intros [pe [e ov]] s1 _ Hi1 Ht1 Hbm. red in Hbm. cbn [fst snd] in Hbm. subst ov. cbv beta iota.
    apply (bind_eofcP C (isZero C)); [now apply peek_or_null_eofc|].
    intros c s2 _ Hi2 Ht2 [_ Htm]. cbv beta iota. apply f64_from_parts_s_eofc; auto. intros; exact I.
Qed.

Lemma parse_long_exponent_s_dich positive integer fraction s : inv C s -> live s ->
  dich C (ShP C anyv) (parse_long_exponent_s E1 positive integer fraction s)
                      (parse_long_exponent_s E2 positive integer fraction (ext C s)).
Proof.
  intros Hi Hl. unfold parse_long_exponent_s.
  apply (bind_dichP C ef_bm); [now apply exponent_front_dich| |].
  - intros [pe [e ov]] s1 _ Hi1. cbv beta iota. destruct ov; [now apply parse_exponent_overflow_dich|].
    apply (bind_dichP C (isZero C)); [now apply peek_or_null_dich| |].
    + intros c s2 Hp Hi2. cbv beta iota. apply dich_strict_any. apply f64_long_from_parts_s_dich; [assumption|].
      now apply pon_okst in Hp.
    + intros c s2 _ Hi2 Ht2 [_ Htm]. cbv beta iota. apply f64_long_from_parts_s_eofc; auto. intros; exact I.
  - intros [pe [e ov]] s1 _ Hi1 Ht1 Hbm. red in Hbm. cbn [fst snd] in Hbm. subst ov. cbv beta iota.
    apply (bind_eofcP C (isZero C)); [now apply peek_or_null_eofc|].
    intros c s2 _ Hi2 Ht2 [_ Htm]. cbv beta iota. apply f64_long_from_parts_s_eofc; auto. intros; exact I.
Qed.

Lemma parse_long_decimal_s_dich positive integer fraction0 s : inv C s ->
  dich C (ShP C anyv) (parse_long_decimal_s E1 positive integer fraction0 s)
                      (parse_long_decimal_s E2 positive integer fraction0 (ext C s)).
Proof.
  intros Hi. unfold parse_long_decimal_s. cbv zeta. rewrite rest_ext.
  pose proof (span_len_le is_digit (rest s)) as Hle.
  destruct (span_cases is_digit (rest s)) as [Hb | (b & r & Hs & Hpb & Hn)].
  - apply dich_of_eofc.
    apply (bind_eofcP C (isZero C)); [apply peek_or_null_eofc; [now apply touched_advance_all|now apply inv_advance]|].
    intros c s1 _ Hi1 Ht1 [-> Htm]. cbv beta iota.
    destruct (fraction0 ++ firstn _ (rest s)); [now apply peek_invalid_eofc|].
    cbn [N.eqb orb]. apply f64_long_from_parts_s_eofc; auto. intros; exact I.
  - rewrite Hn, firstn_app_le, advance_ext by assumption.
    apply (bind_dichP C (isZero C)); [apply peek_or_null_dich; now apply inv_advance| |].
    + intros c s1 Hp Hi1. cbv beta iota. apply pon_okst in Hp. destruct Hp as [Hok Hlv].
      destruct (fraction0 ++ firstn _ (rest s)); [now apply peek_invalid_dich|].
      destruct ((c =? 101) || (c =? 69)) eqn:Ee.
      * apply parse_long_exponent_s_dich; [assumption|apply Hlv; lia].
      * apply dich_strict_any. now apply f64_long_from_parts_s_dich.
    + intros c s1 Hp Hi1 Ht1 _. exfalso. eapply pon_not_touched; [exact Hp|eapply live_advance; exact Hs|exact Ht1].
Qed.

Lemma parse_decimal_s_dich positive sig eb s : inv C s -> live s ->
  dich C (ShP C anyv) (parse_decimal_s E1 positive sig eb s) (parse_decimal_s E2 positive sig eb (ext C s)).
Proof.
  intros Hi Hl. unfold parse_decimal_s. cbv zeta. rewrite discard_ext by assumption. rewrite rest_ext.
  assert (Hi0 : inv C (discard s)) by now apply inv_discard.
  set (s0 := discard s) in *.
  destruct (sig_loop_cases (rest s0) sig) as [Hle [[Hb Hov] | [(b & r & Hs) Hin]]].
  - destruct (sig_loop (rest s0) sig) as [[n sg] ov]. cbn [fst snd] in *. subst ov.
    apply dich_of_eofc.
    apply (bind_eofcP C (isZero C)); [apply peek_or_null_eofc; [now apply touched_advance_all|now apply inv_advance]|].
    intros c s1 _ Hi1 Ht1 [-> Htm]. cbv beta iota.
    destruct (Nat.eqb n 0); [now apply peek_invalid_eofc|].
    cbn [N.eqb orb]. apply f64_from_parts_s_eofc; auto. intros; exact I.
  - rewrite Hin. destruct (sig_loop (rest s0) sig) as [[n sg] ov]. cbn [fst snd] in *.
    rewrite advance_ext by assumption.
    apply (bind_dichP C (isZero C)); [apply peek_or_null_dich; now apply inv_advance| |].
    + intros c s1 Hp Hi1. cbv beta iota. apply pon_okst in Hp. destruct Hp as [Hok Hlv].
      destruct ov; [unfold parse_decimal_overflow_s; cbv zeta; now apply parse_long_decimal_s_dich|].
      destruct (Nat.eqb n 0); [now apply peek_invalid_dich|].
      destruct ((c =? 101) || (c =? 69)) eqn:Ee; [apply parse_exponent_s_dich; [assumption|apply Hlv; lia]|].
      apply dich_strict_any. now apply f64_from_parts_s_dich.
    + intros c s1 Hp Hi1 Ht1 _. exfalso. eapply pon_not_touched; [exact Hp|eapply live_advance; exact Hs|exact Ht1].
Qed.

Lemma parse_long_integer_s_dich positive sig s : inv C s ->
  dich C (ShP C anyv) (parse_long_integer_s E1 positive sig s) (parse_long_integer_s E2 positive sig (ext C s)).
Proof.
  intros Hi. unfold parse_long_integer_s. cbv zeta. rewrite rest_ext.
  pose proof (span_len_le is_digit (rest s)) as Hle.
  destruct (span_cases is_digit (rest s)) as [Hb | (b & r & Hs & Hpb & Hn)].
  - apply dich_of_eofc.
    apply (bind_eofcP C (isZero C)); [apply peek_or_null_eofc; [now apply touched_advance_all|now apply inv_advance]|].
    intros c s1 _ Hi1 Ht1 [-> Htm]. cbv beta iota. cbn [N.eqb orb].
    apply f64_long_from_parts_s_eofc; auto. intros; exact I.
  - rewrite Hn, firstn_app_le, advance_ext by assumption.
    apply (bind_dichP C (isZero C)); [apply peek_or_null_dich; now apply inv_advance| |].
    + intros c s1 Hp Hi1. cbv beta iota. apply pon_okst in Hp. destruct Hp as [Hok Hlv].
      destruct (c =? 46) eqn:E46.
      { rewrite discard_ext by (apply Hlv; lia). apply parse_long_decimal_s_dich. apply inv_discard; [assumption|apply Hlv; lia]. }
      destruct ((c =? 101) || (c =? 69)) eqn:Ee; [apply parse_long_exponent_s_dich; [assumption|apply Hlv; lia]|].
      apply dich_strict_any. now apply f64_long_from_parts_s_dich.
    + intros c s1 Hp Hi1 Ht1 _. exfalso. eapply pon_not_touched; [exact Hp|eapply live_advance; exact Hs|exact Ht1].
Qed.

(* ---------- parse_number_s / parse_integer_s ---------- *)
Lemma parse_number_tail_s_eofc positive sig s1 : inv C s1 -> touched s1 ->
  eofc C (ShP C anyv)
    (if 0 =? 46 then let* (f, s2) := parse_decimal_s E1 positive sig 0 s1 in Ok (PF64 f, s2)
     else if (0 =? 101) || (0 =? 69) then let* (f, s2) := parse_exponent_s E1 positive sig 0 s1 in Ok (PF64 f, s2)
     else if positive then Ok (PU64 sig, s1)
     else
       let as_i64 := wrap_i64 (Z.of_N sig) in
       let neg := wrap_i64 (- as_i64) in
       if (0 <=? neg)%Z then Ok (PF64 (b64_neg (b64_of_b32 (binary_normalize 24 128 _ _ mode_NE (Z.of_N sig) 0 false))), s1)
       else Ok (PI64 neg, s1)).
Proof.
  intros Hi Ht. cbn [N.eqb orb]. cbv zeta.
  destruct positive; [apply ret_eofc; auto; exact I|].
  destruct (0 <=? _)%Z; apply ret_eofc; auto; exact I.
Qed.

Lemma parse_number_s_dich positive sig s : inv C s ->
  dich C (ShP C anyv) (parse_number_s E1 positive sig s) (parse_number_s E2 positive sig (ext C s)).
Proof.
  intros Hi. unfold parse_number_s.
  apply (bind_dichP C (isZero C)); [now apply peek_or_null_dich| |].
  - intros c s1 Hp Hi1. cbv beta iota zeta. apply pon_okst in Hp. destruct Hp as [Hok Hlv].
    destruct (c =? 46) eqn:E46.
    { apply (bind_dichP C anyv); [apply parse_decimal_s_dich; [assumption|apply Hlv; lia]| |].
      - intros f s2 _ Hi2. cbv beta iota. now apply ret_dich.
      - intros f s2 _ Hi2 Ht2 _. cbv beta iota. apply ret_eofc; auto; exact I. }
    destruct ((c =? 101) || (c =? 69)) eqn:Ee.
    { apply (bind_dichP C anyv); [apply parse_exponent_s_dich; [assumption|apply Hlv; lia]| |].
      - intros f s2 _ Hi2. cbv beta iota. now apply ret_dich.
      - intros f s2 _ Hi2 Ht2 _. cbv beta iota. apply ret_eofc; auto; exact I. }
    destruct positive; [now apply ret_dich|].
    destruct (0 <=? _)%Z; now apply ret_dich.
  - intros c s1 _ Hi1 Ht1 [-> Htm]. cbv beta iota. now apply parse_number_tail_s_eofc.
Qed.

Lemma parse_number_s_eofc positive sig s : inv C s -> touched s ->
  eofc C (ShP C anyv) (parse_number_s E1 positive sig s).
Proof.
  intros Hi Ht. unfold parse_number_s.
  apply (bind_eofcP C (isZero C)); [now apply peek_or_null_eofc|].
  intros c s1 _ Hi1 Ht1 [-> Htm]. cbv beta iota. now apply parse_number_tail_s_eofc.
Qed.

Lemma parse_integer_s_dich positive s : inv C s ->
  dich C (ShP C anyv) (parse_integer_s E1 positive s) (parse_integer_s E2 positive (ext C s)).
Proof.
  intros Hi. unfold parse_integer_s.
  apply (bind_dichP C (isNone C)); [now apply next_dich| |].
  2:{ intros o s1 _ Hi1 Ht1 [-> Htm]. cbv beta iota. apply error_eofc; auto using eofish_val. }
  intros o s1 _ Hi1. cbv beta iota. destruct o as [c|]; [|now apply error_dich].
  destruct (c =? 48).
  { apply (bind_dichP C (isZero C)); [now apply peek_or_null_dich| |].
    - intros c2 s2 Hp Hi2. cbv beta iota. apply pon_okst in Hp. destruct Hp as [Hok Hlv].
      destruct (is_digit c2) eqn:Hd; [|now apply parse_number_s_dich].
      apply peek_error_dich; [assumption|]. left. apply Hlv. now apply is_digit_nz.
    - intros c2 s2 _ Hi2 Ht2 [-> Htm]. cbv beta iota. change (is_digit 0) with false. cbv iota.
      now apply parse_number_s_eofc. }
  destruct (is_digit19 c); [|now apply error_dich].
  rewrite rest_ext.
  destruct (sig_loop_cases (rest s1) (digit_val c)) as [Hle [[Hb Hov] | [(b & r & Hs) Hin]]].
  - destruct (sig_loop (rest s1) (digit_val c)) as [[n sg] ov]. cbn [fst snd] in *. subst ov.
    apply dich_of_eofc.
    apply (bind_eofcP C (isZero C)); [apply peek_or_null_eofc; [now apply touched_advance_all|now apply inv_advance]|].
    intros c2 s2 _ Hi2 Ht2 _. cbv beta iota. now apply parse_number_s_eofc.
  - rewrite Hin. destruct (sig_loop (rest s1) (digit_val c)) as [[n sg] ov]. cbn [fst snd] in *.
    rewrite advance_ext by assumption.
    apply (bind_dichP C (isZero C)); [apply peek_or_null_dich; now apply inv_advance| |].
    + intros c2 s2 Hp Hi2. cbv beta iota. destruct ov; [|now apply parse_number_s_dich].
      apply (bind_dichP C anyv); [now apply parse_long_integer_s_dich| |].
      * intros f s3 _ Hi3. cbv beta iota. now apply ret_dich.
      * intros f s3 _ Hi3 Ht3 _. cbv beta iota. apply ret_eofc; auto; exact I.
    + intros c2 s2 Hp Hi2 Ht2 _. exfalso. eapply pon_not_touched; [exact Hp|eapply live_advance; exact Hs|exact Ht2].
Qed.

End DichF32.
