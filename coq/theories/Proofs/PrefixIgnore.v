(* Proofs/PrefixIgnore.v — prefix dichotomy, part 5: Model/Ignore.v (ig_outer / ig_inner, ignored_from_input). *)
From SJ Require Import Base.Bytes Gen.Tables Model.Read Model.Str Model.Num Model.De Model.Ignore.
From SJ Require Import Proofs.PrefixBase Proofs.PrefixStr Proofs.PrefixNum Proofs.PrefixDe.
Require Import Lia ZifyBool ZifyNat ZifyN.
Open Scope N_scope.

(* the two local closures of ig_outer / ig_inner, named *)
Definition ig_scalar (f : nat) (E : env) (stk : bytes) (r : res st) : res st :=
  let* s2 := r in
  match stk with
  | [] => Ok s2
  | frame :: stk' => ig_inner f E true frame stk' s2
  end.

Definition ig_continue (f : nat) (E : env) (frame : N) (stk : bytes) (s2 : st) : res st :=
  if frame =? 123 then
    let* (o, s3) := parse_whitespace E s2 in
    match o with
    | None => peek_error E s3 EofWhileParsingObject
    | Some q =>
      if q =? 34 then
        let* s4 := ignore_str E (discard s3) in
        let* (o2, s5) := parse_whitespace E s4 in
        match o2 with
        | None => peek_error E s5 EofWhileParsingObject
        | Some c => if c =? 58 then ig_outer f E (frame :: stk) (discard s5) else peek_error E s5 ExpectedColon
        end
      else peek_error E s3 KeyMustBeAString
    end
  else ig_outer f E (frame :: stk) s2.

Lemma ig_outer_unfold f E stk s :
  ig_outer (S f) E stk s =
  let* (o, s1) := parse_whitespace E s in
  match o with
  | None => peek_error E s1 EofWhileParsingValue
  | Some b =>
    if b =? 110 then ig_scalar f E stk (parse_ident E lit_ull (discard s1))
    else if b =? 116 then ig_scalar f E stk (parse_ident E lit_rue (discard s1))
    else if b =? 102 then ig_scalar f E stk (parse_ident E lit_alse (discard s1))
    else if b =? 45 then ig_scalar f E stk (ignore_integer E (discard s1))
    else if is_digit b then ig_scalar f E stk (ignore_integer E s1)
    else if b =? 34 then ig_scalar f E stk (ignore_str E (discard s1))
    else if (b =? 91) || (b =? 123) then ig_inner f E false b stk (discard s1)
    else peek_error E s1 ExpectedSomeValue
  end.
Proof. reflexivity. Qed.

Lemma ig_inner_unfold f E ac frame stk s :
  ig_inner (S f) E ac frame stk s =
  let* (o, s1) := parse_whitespace E s in
  match o with
  | None => peek_error E s1 (if frame =? 91 then EofWhileParsingList else EofWhileParsingObject)
  | Some b =>
    if (b =? 44) && ac then ig_continue f E frame stk (discard s1)
    else if ((b =? 93) && (frame =? 91)) || ((b =? 125) && (frame =? 123)) then
      match stk with
      | [] => Ok (discard s1)
      | frame' :: stk' => ig_inner f E true frame' stk' (discard s1)
      end
    else if ac then
      peek_error E s1 (if frame =? 91 then ExpectedListCommaOrEnd else ExpectedObjectCommaOrEnd)
    else ig_continue f E frame stk s1
  end.
Proof. reflexivity. Qed.

Section DichIg.
Variable C : ctx.
Notation rk0 := (c_rk C).
Notation cf0 := (c_cf C).
Notation tm1 := (c_tm1 C).
Notation tm2 := (c_tm2 C).
Notation t := (c_t C).
Notation L := (c_L C).
Notation E1 := (mkEnv (c_rk C) (c_tm1 C) (c_cf C)).
Notation E2 := (mkEnv (c_rk C) (c_tm2 C) (c_cf C)).

Lemma eofish_frame (frame : N) : eofish (if frame =? 91 then EofWhileParsingList else EofWhileParsingObject).
Proof. destruct (frame =? 91); left; reflexivity. Qed.

Definition IO f := forall f' stk s, (f <= f')%nat -> inv C s ->
  dich C (ShS C) (ig_outer f E1 stk s) (ig_outer f' E2 stk (ext C s)).
Definition II f := forall f' ac frame stk s, (f <= f')%nat -> inv C s ->
  dich C (ShS C) (ig_inner f E1 ac frame stk s) (ig_inner f' E2 ac frame stk (ext C s)).

Lemma ig_inner_eofc f ac frame stk s : inv C s -> touched s -> eofc C (ShS C) (ig_inner f E1 ac frame stk s).
Proof.
  intros Hi Ht. destruct f; [exact I|]. rewrite ig_inner_unfold.
  apply (bind_eofcP C (isNone C)); [now apply parse_whitespace_eofc|].
  intros o s1 _ Hi1 Ht1 [-> Htm]. cbv beta iota. apply peek_error_eofc; auto using eofish_frame.
Qed.

Lemma ig_scalar_dich f f' stk rp rpt : II f -> (f <= f')%nat ->
  dich C (ShS C) rp rpt -> dich C (ShS C) (ig_scalar f E1 stk rp) (ig_scalar f' E2 stk rpt).
Proof.
  intros IHi Hf Hd. unfold ig_scalar.
  apply (bind_dichS C); [assumption| |].
  - intros s2 _ Hi2. destruct stk; [now apply retS_dich|now apply IHi].
  - intros s2 _ Hi2 Ht2. destruct stk; [now apply retS_eofc|now apply ig_inner_eofc].
Qed.

Lemma ig_continue_dich f f' frame stk s : IO f -> (f <= f')%nat -> inv C s ->
  dich C (ShS C) (ig_continue f E1 frame stk s) (ig_continue f' E2 frame stk (ext C s)).
Proof.
  intros IHo Hf Hi. unfold ig_continue. destruct (frame =? 123); [|now apply IHo].
  apply (bind_dichP C (isNone C)); [now apply parse_whitespace_dich| |].
  2:{ intros o s3 _ Hi3 Ht3 [-> Htm]. cbv beta iota. apply peek_error_eofc; auto using eofish_obj. }
  intros o s3 Hp Hi3. cbv beta iota. apply (pw_facts C) in Hp. destruct o as [q|].
  2:{ apply peek_error_dich; [assumption|]. right. split; [assumption|apply eofish_obj]. }
  destruct (q =? 34); [|apply peek_error_dich; auto].
  rewrite discard_ext by assumption.
  apply (bind_dichSn C); [apply ignore_str_dich; now apply inv_discard|]. intros s4 _ Hi4.
  apply (bind_dichP C (isNone C)); [now apply parse_whitespace_dich| |].
  2:{ intros o2 s5 _ Hi5 Ht5 [-> Htm]. cbv beta iota. apply peek_error_eofc; auto using eofish_obj. }
  intros o2 s5 Hp5 Hi5. cbv beta iota. apply (pw_facts C) in Hp5. destruct o2 as [c|].
  2:{ apply peek_error_dich; [assumption|]. right. split; [assumption|apply eofish_obj]. }
  destruct (c =? 58); [|apply peek_error_dich; auto].
  rewrite discard_ext by assumption. apply IHo; [assumption|now apply inv_discard].
Qed.

Lemma ig_outer_step f : II f -> IO (S f).
Proof.
  intros IHi f' stk s Hf Hi. destruct f' as [|f']; [lia|]. assert (Hf' : (f <= f')%nat) by lia.
  rewrite !ig_outer_unfold.
  apply (bind_dichP C (isNone C)); [now apply parse_whitespace_dich| |].
  2:{ intros o s1 _ Hi1 Ht1 [-> Htm]. cbv beta iota. apply peek_error_eofc; auto using eofish_val. }
  intros o s1 Hp Hi1. cbv beta iota. apply (pw_facts C) in Hp. destruct o as [b|].
  2:{ apply peek_error_dich; [assumption|]. right. split; [assumption|apply eofish_val]. }
  assert (Hid : inv C (discard s1)) by now apply inv_discard.
  destruct (b =? 110).
  { rewrite discard_ext by assumption. apply ig_scalar_dich; auto. apply dich_Sn_S. now apply parse_ident_dich. }
  destruct (b =? 116).
  { rewrite discard_ext by assumption. apply ig_scalar_dich; auto. apply dich_Sn_S. now apply parse_ident_dich. }
  destruct (b =? 102).
  { rewrite discard_ext by assumption. apply ig_scalar_dich; auto. apply dich_Sn_S. now apply parse_ident_dich. }
  destruct (b =? 45).
  { rewrite discard_ext by assumption. apply ig_scalar_dich; auto. now apply ignore_integer_dich. }
  destruct (is_digit b).
  { apply ig_scalar_dich; auto. now apply ignore_integer_dich. }
  destruct (b =? 34).
  { rewrite discard_ext by assumption. apply ig_scalar_dich; auto. apply dich_Sn_S. now apply ignore_str_dich. }
  destruct ((b =? 91) || (b =? 123)); [|apply peek_error_dich; auto].
  rewrite discard_ext by assumption. now apply IHi.
Qed.

Lemma ig_inner_step f : IO f -> II f -> II (S f).
Proof.
  intros IHo IHi f' ac frame stk s Hf Hi. destruct f' as [|f']; [lia|]. assert (Hf' : (f <= f')%nat) by lia.
  rewrite !ig_inner_unfold.
  apply (bind_dichP C (isNone C)); [now apply parse_whitespace_dich| |].
  2:{ intros o s1 _ Hi1 Ht1 [-> Htm]. cbv beta iota. apply peek_error_eofc; auto using eofish_frame. }
  intros o s1 Hp Hi1. cbv beta iota. apply (pw_facts C) in Hp. destruct o as [b|].
  2:{ apply peek_error_dich; [assumption|]. right. split; [assumption|apply eofish_frame]. }
  assert (Hid : inv C (discard s1)) by now apply inv_discard.
  destruct ((b =? 44) && ac).
  { rewrite discard_ext by assumption. now apply ig_continue_dich. }
  destruct (((b =? 93) && (frame =? 91)) || ((b =? 125) && (frame =? 123))).
  { rewrite discard_ext by assumption. destruct stk; [now apply retS_dich|now apply IHi]. }
  destruct ac; [apply peek_error_dich; auto|].
  now apply ig_continue_dich.
Qed.

Lemma ig_all_dich : forall f, IO f /\ II f.
Proof.
  induction f as [|f (IHo & IHi)].
  - split; intros ? **; exact I.
  - split; [now apply ig_outer_step|now apply ig_inner_step].
Qed.

Lemma ignore_fuel_ext s : (ignore_fuel s <= ignore_fuel (ext C s))%nat.
Proof. unfold ignore_fuel, ext. cbn [rest]. rewrite app_length. lia. Qed.

Lemma ignore_value_dich s : inv C s ->
  dich C (ShS C) (ignore_value E1 s) (ignore_value E2 (ext C s)).
Proof. intros Hi. unfold ignore_value. apply (proj1 (ig_all_dich _)); [apply ignore_fuel_ext|assumption]. Qed.

End DichIg.

Theorem ignored_from_input_dich rk cf tm1 tm2 p t :
  let C := mkCtx rk cf tm1 tm2 t (length p) in
  dich C ShT (ignored_from_input (mkEnv rk tm1 cf) p) (ignored_from_input (mkEnv rk tm2 cf) (p ++ t)).
Proof.
  intros C. unfold ignored_from_input.
  assert (Hi : inv C (init_st p)) by (apply inv_mk; [reflexivity|discriminate]).
  change (init_st (p ++ t)) with (ext C (init_st p)).
  apply (bind_dichS C).
  - now apply (ignore_value_dich C).
  - intros s1 _ Hi1.
    apply (bind_dichS C); [now apply (de_end_dich C)| |].
    + intros s2 _ _. cbn [dich ShT iv tch ex]. auto.
    + intros s2 _ _ _. cbn [eofc ShT iv tch]. auto.
  - intros s1 _ Hi1 Ht1.
    apply (bind_eofcS C); [now apply (de_end_eofc C)|].
    intros s2 _ _ _. cbn [eofc ShT iv tch]. auto.
Qed.
