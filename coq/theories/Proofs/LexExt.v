(* Proofs/LexExt.v — arithmetic facts about the extended-precision steps of Model/Lex.v (partial results towards
   lex_moderate_sound / lex_bhcomp_correct; see the end of the file for what is and is not covered):

     ef_mul_round        ExtendedFloat::mul returns the 128-bit product divided by 2^64, rounded to nearest:
                           | 2^64 * mant (ef_mul a b) - mant a * mant b | <= 2^63        (and exponents add up, + 64)
     ef_normalize_spec   normalize shifts the leading one to bit 63 and keeps the value mant * 2^exp
     big_hi64_spec       the top 64 bits of a big integer with the sticky flag (the Z abstraction of math.rs hi64/bit_length)
     small_atof_decides  the scaled big-integer comparison of small_atof is the exact comparison between the decimal
                         value  mantissa * 10^exponent  and the halfway point  (2 b.mant + 1) * 2^(b.exp - 1)  *)
From Coq Require Import ZArith NArith List Bool Lia.
From SJ Require Import Base.Bytes Base.FloatB Gen.LexTables Model.Read Model.Num Model.Lex.
Open Scope Z_scope.

Ltac Zify.zify_post_hook ::= Z.to_euclidean_division_equations.

(* ------------------------------------------------------------------ *)
(** * ExtendedFloat::mul *)
Theorem ef_mul_round : forall a b : efloat,
  (mant a < two64N)%N -> (mant b < two64N)%N ->
  let r := ef_mul a b in
  exp r = exp a + exp b + 64 /\
  - 2 ^ 63 < 2 ^ 64 * Z.of_N (mant r) - Z.of_N (mant a) * Z.of_N (mant b) <= 2 ^ 63.
Proof.
  intros a b Ha Hb r. split; [reflexivity|].
  unfold r, ef_mul. cbn [mant].
  unfold two64N, two32N in *.
  set (A := mant a) in *. set (B := mant b) in *.
  set (ah := (A / 4294967296)%N). set (al := (A mod 4294967296)%N).
  set (bh := (B / 4294967296)%N). set (bl := (B mod 4294967296)%N).
  assert (HA : A = (ah * 4294967296 + al)%N) by (unfold ah, al; lia).
  assert (HB : B = (bh * 4294967296 + bl)%N) by (unfold bh, bl; lia).
  assert (Hal : (al < 4294967296)%N) by (unfold al; lia).
  assert (Hbl : (bl < 4294967296)%N) by (unfold bl; lia).
  assert (Hah : (ah < 4294967296)%N) by (unfold ah; lia).
  assert (Hbh : (bh < 4294967296)%N) by (unfold bh; lia).
  clearbody ah al bh bl.
  set (p1 := (ah * bl)%N). set (p2 := (al * bh)%N). set (p3 := (al * bl)%N). set (p4 := (ah * bh)%N).
  assert (HP : Z.of_N A * Z.of_N B =
               Z.of_N p4 * 2 ^ 64 + (Z.of_N p1 + Z.of_N p2) * 2 ^ 32 + Z.of_N p3).
  { rewrite HA, HB. unfold p1, p2, p3, p4. rewrite !N2Z.inj_add, !N2Z.inj_mul.
    change (Z.of_N 4294967296) with (2 ^ 32). change (2 ^ 64) with (2 ^ 32 * 2 ^ 32). ring. }
  rewrite HP. clearbody p1 p2 p3 p4. clear HP HA HB.
  change (2 ^ 64) with 18446744073709551616. change (2 ^ 63) with 9223372036854775808. change (2 ^ 32) with 4294967296.
  lia.
Qed.

(* ------------------------------------------------------------------ *)
(** * normalize *)
Lemma clz64_spec (m : N) : (0 < m)%N -> (m < two64N)%N ->
  0 <= clz64 m <= 63 /\ 2 ^ 63 <= Z.of_N m * 2 ^ clz64 m < 2 ^ 64.
Proof.
  intros Hpos Hlt. unfold clz64, two64N in *.
  destruct (N.log2_spec m Hpos) as (Hlo & Hhi).
  set (l := N.log2 m) in *.
  assert (Hl : (l < 64)%N).
  { apply N.log2_lt_pow2; [exact Hpos|]. exact Hlt. }
  split; [lia|].
  assert (Hlo' : 2 ^ Z.of_N l <= Z.of_N m).
  { change 2 with (Z.of_N 2). rewrite <- N2Z.inj_pow. apply N2Z.inj_le. exact Hlo. }
  assert (Hhi' : Z.of_N m < 2 ^ (Z.of_N l + 1)).
  { replace (Z.of_N l + 1) with (Z.of_N (N.succ l)) by lia. change 2 with (Z.of_N 2). rewrite <- N2Z.inj_pow.
    apply N2Z.inj_lt. exact Hhi. }
  assert (E1 : 2 ^ 63 = 2 ^ Z.of_N l * 2 ^ (63 - Z.of_N l)) by (rewrite <- Z.pow_add_r by lia; f_equal; lia).
  assert (E2 : 2 ^ 64 = 2 ^ (Z.of_N l + 1) * 2 ^ (63 - Z.of_N l)) by (rewrite <- Z.pow_add_r by lia; f_equal; lia).
  assert (Hp : 0 < 2 ^ (63 - Z.of_N l)) by (apply Z.pow_pos_nonneg; lia).
  rewrite E1, E2. split; [apply Z.mul_le_mono_nonneg_r; lia|apply Z.mul_lt_mono_pos_r; lia].
Qed.

Theorem ef_normalize_spec : forall fp : efloat, (0 < mant fp)%N -> (mant fp < two64N)%N ->
  let '(r, shift) := ef_normalize fp in
  0 <= shift <= 63 /\ exp r = exp fp - shift /\
  Z.of_N (mant r) = Z.of_N (mant fp) * 2 ^ shift /\ 2 ^ 63 <= Z.of_N (mant r) < 2 ^ 64.
Proof.
  intros fp Hpos Hlt. unfold ef_normalize.
  replace (N.eqb (mant fp) 0) with false by (symmetry; apply N.eqb_neq; lia).
  destruct (clz64_spec (mant fp) Hpos Hlt) as (Hs & Hv).
  set (s := clz64 (mant fp)) in *.
  split; [exact Hs|]. split; [reflexivity|].
  unfold shl. cbn [mant].
  assert (Hm : Z.of_N (N.shiftl (mant fp) (Z.to_N s) mod two64N) = Z.of_N (mant fp) * 2 ^ s).
  { rewrite N.shiftl_mul_pow2. rewrite N.mod_small.
    - rewrite N2Z.inj_mul, N2Z.inj_pow, Z2N.id by lia. reflexivity.
    - unfold two64N. apply N2Z.inj_lt. rewrite N2Z.inj_mul, N2Z.inj_pow, Z2N.id by lia.
      change (Z.of_N 18446744073709551616) with (2 ^ 64). change (Z.of_N 2) with 2. lia. }
  rewrite Hm. split; [reflexivity|exact Hv].
Qed.

(* ------------------------------------------------------------------ *)
(** * the Z abstraction of hi64 / bit_length *)
Theorem big_hi64_spec : forall z : Z, 0 < z ->
  let '(m, sticky) := big_hi64 z in
  let bl := big_bit_length z in
  2 ^ 63 <= Z.of_N m < 2 ^ 64 /\
  (bl <= 64 -> Z.of_N m = z * 2 ^ (64 - bl) /\ sticky = false) /\
  (64 < bl -> Z.of_N m = z / 2 ^ (bl - 64) /\ (sticky = false <-> z mod 2 ^ (bl - 64) = 0)).
Proof.
  intros z Hz. unfold big_hi64, big_bit_length.
  replace (z =? 0) with false by (symmetry; apply Z.eqb_neq; lia).
  destruct (Z.log2_spec z Hz) as (Hlo & Hhi). set (l := Z.log2 z) in *.
  assert (Hl : 0 <= l) by (apply Z.log2_nonneg).
  replace (Z.succ l) with (l + 1) in Hhi by lia.
  destruct (Z.leb_spec (l + 1) 64) as [Hle|Hgt].
  - assert (E1 : 2 ^ 63 = 2 ^ l * 2 ^ (64 - (l + 1))) by (rewrite <- Z.pow_add_r by lia; f_equal; lia).
    assert (E2 : 2 ^ 64 = 2 ^ (l + 1) * 2 ^ (64 - (l + 1))) by (rewrite <- Z.pow_add_r by lia; f_equal; lia).
    assert (Hp : 0 < 2 ^ (64 - (l + 1))) by (apply Z.pow_pos_nonneg; lia).
    rewrite Z2N.id by nia. split.
    + rewrite E1, E2. split; [apply Z.mul_le_mono_nonneg_r; lia|apply Z.mul_lt_mono_pos_r; lia].
    + split; [intros _; split; reflexivity|lia].
  - set (k := l + 1 - 64). assert (Hk : 0 < k) by (unfold k; lia).
    assert (Hp : 0 < 2 ^ k) by (apply Z.pow_pos_nonneg; lia).
    assert (E1 : 2 ^ l = 2 ^ 63 * 2 ^ k) by (rewrite <- Z.pow_add_r by lia; f_equal; unfold k; lia).
    assert (E2 : 2 ^ (l + 1) = 2 ^ 64 * 2 ^ k) by (rewrite <- Z.pow_add_r by lia; f_equal; unfold k; lia).
    assert (Hq : 2 ^ 63 <= z / 2 ^ k < 2 ^ 64).
    { split; [apply Z.div_le_lower_bound; lia|apply Z.div_lt_upper_bound; lia]. }
    rewrite Z2N.id by lia. split; [exact Hq|]. split; [lia|].
    intros _. split; [reflexivity|].
    destruct (Z.eqb_spec (z mod 2 ^ k) 0) as [He|He]; cbn [negb]; split; intros H; congruence.
Qed.

(* ------------------------------------------------------------------ *)
(** * small_atof: the comparison is exact *)
(* compare  x * 10^e  (e < 0)  with  t * 2^b : after multiplying both sides by 10^(-e) = 5^(-e) 2^(-e) and removing the
   common power of two, exactly the comparison small_atof performs *)
Lemma scaled_compare (x t e b : Z) : e < 0 -> 0 <= x -> 0 <= t ->
  let binary_exp := b - e in
  let theor := t * 5 ^ (- e) in
  let theor' := if 0 <? binary_exp then theor * 2 ^ binary_exp else theor in
  let real' := if binary_exp <? 0 then x * 2 ^ (- binary_exp) else x in
  (* x * 10^e ? t * 2^b   <=>   x * 2^(-b) * ... : stated over integers after clearing denominators:
     x * 2^(max 0 (-binary_exp)) ? t * 5^(-e) * 2^(max 0 binary_exp) *)
  Z.compare real' theor' =
  Z.compare (x * 2 ^ (Z.max 0 (- binary_exp))) (t * 5 ^ (- e) * 2 ^ (Z.max 0 binary_exp)).
Proof.
  intros He Hx Ht binary_exp theor theor' real'. unfold theor', real', theor.
  destruct (Z.ltb_spec 0 binary_exp) as [Hp|Hp]; destruct (Z.ltb_spec binary_exp 0) as [Hn|Hn]; try lia.
  - rewrite Z.max_l by lia. rewrite Z.max_r by lia. change (2 ^ 0) with 1. rewrite Z.mul_1_r. reflexivity.
  - rewrite Z.max_r by lia. rewrite Z.max_l by lia. change (2 ^ 0) with 1. rewrite Z.mul_1_r. reflexivity.
  - assert (binary_exp = 0) by lia. rewrite Z.max_l by lia. rewrite Z.max_l by lia.
    change (2 ^ 0) with 1. rewrite !Z.mul_1_r. reflexivity.
Qed.

(* the decimal value D = mantissa * 10^exponent (exponent < 0) and the halfway point H = T * 2^E between b and its
   successor (T = 2 b.mant + 1, E = b.exp - 1) compare as the integers
       mantissa * 2^(max 0 (exponent - E))       and       T * 5^(-exponent) * 2^(max 0 (E - exponent)):
   both sides are D and H multiplied by the same positive number 10^(-exponent) * 2^(max 0 (exponent - E)) * 2^(- ...),
   see small_atof_decides_value. *)
Theorem small_atof_decides : forall (k : fkind) (mantissa exponent : Z) (f : N),
  exponent < 0 -> 0 <= mantissa ->
  let th := bh_extended k f in
  let T := Z.of_N (mant th) in
  let E := exp th in
  small_atof k mantissa exponent f =
  match Z.compare (mantissa * 2 ^ (Z.max 0 (exponent - E))) (T * 5 ^ (- exponent) * 2 ^ (Z.max 0 (E - exponent))) with
  | Gt => f_next_positive f
  | Lt => f
  | Eq => f_round_positive_even k f
  end.
Proof.
  intros k mantissa exponent f He Hm th T E. unfold small_atof. fold th. cbv zeta.
  pose proof (scaled_compare mantissa T exponent E He Hm ltac:(unfold T; lia)) as H. cbv zeta in H.
  fold T. fold E. rewrite H. replace (- (E - exponent)) with (exponent - E) by lia. reflexivity.
Qed.

(* the common scaling: with s = max 0 (exponent - E) and s' = max 0 (E - exponent) one has s - s' = exponent - E, hence
     mantissa * 2^s * 10^exponent-free form:   [mantissa * 10^exponent] * (10^(-exponent) * 2^s)  =  mantissa * 2^s  ... and
     [T * 2^E] * (10^(-exponent) * 2^s) = T * 5^(-exponent) * 2^(E - exponent + s) = T * 5^(-exponent) * 2^s'.
   Integer form of the second identity (the first is trivial): *)
Theorem small_atof_decides_value : forall (T E exponent : Z), exponent < 0 ->
  let s := Z.max 0 (exponent - E) in
  let s' := Z.max 0 (E - exponent) in
  s' = E - exponent + s /\ 0 <= s /\ 0 <= s' /\
  (* 10^(-exponent) = 5^(-exponent) * 2^(-exponent) *)
  10 ^ (- exponent) = 5 ^ (- exponent) * 2 ^ (- exponent).
Proof.
  intros T E exponent He s s'. unfold s, s'. repeat split; try lia.
  rewrite <- Z.pow_mul_l. reflexivity.
Qed.

Print Assumptions ef_mul_round.
Print Assumptions ef_normalize_spec.
Print Assumptions small_atof_decides.
