(* Proofs/ValueDeAgreeAp2.v — C16 under `arbitrary_precision`: lifting the leaf agreement (Proofs/ValueDeAgreeAp.v, ValueDeAgreeApValue.v)
   through Option, newtype, Vec, tuples, tuple structs and maps.

   WHY THIS FILE RE-PROVES THE CONTAINER LEMMAS.  The container lemmas of the default build (Proofs/ValueDeAgree.v agree_option ..
   agree_tuple_gen, agree_bool .. agree_ignored; Proofs/ValueDeAgreeMap.v agree_option2, agree_newtype2, elems_agree2, elems_array,
   agree_seq2, tuple_agree2, tuple_array, agree_tuple_gen2, entries_agree2, agree_map2; Proofs/ValueDeAgreeKey.v first_numch, Lk_first,
   core_parse_integer, delegate_*, numeric_key_agree, key_agree) all carry the hypothesis `arbitrary_precision cf = false` in their
   TYPES (Section hypothesis Hap, pulled into the proof terms by `lia`), and [agree_at2k] hard-wires the claim predicate [claimb].
   Only ONE of them uses the hypothesis in earnest: ValueDeAgreeKey.pan_int / core_parse_integer (parse_any_number = parse_integer) —
   here replaced by C20_typed_same (parse_integer does not look at the feature).  Everything else goes through verbatim; the proof
   scripts below are those of the files named above, in a section without the hypothesis, over [agree_at2k] with [claim_ap]
   (= [claimb] + the F12b / F19 / private-token exclusions at the leaves) in place of [claimb].

   New here: the leaves in tree form ([agree_int_ap], [agree_f64_ap], [agree_value_ap]: a number node denotes its own literal,
   C20 num_den_verbatim) and [core_parse_integer] for any configuration. *)
From SJ Require Import Base.Bytes Base.Utf8 Base.FloatB Gen.Tables
  Model.Read Model.Str Model.Num Model.NumF32 Model.Value Model.De Model.Ignore Model.Ty Model.NumberM Model.DeTyped Model.ValueDe
  Spec.Syntax Spec.Denote Proofs.GrammarIgnore Proofs.GrammarValueComplete Proofs.SerValue Proofs.GrammarValueBase Proofs.GrammarStr Proofs.GrammarNum
  Proofs.ValueDeRef Proofs.ValueDeAgree.
From SJ Require Import Proofs.SerRender Proofs.SerWf Proofs.SerDenote Proofs.ValueDeAgreeKey Proofs.ValueDeAgreeMap Proofs.ValueDeAgreeMisc.
From SJ Require Proofs.NumInt Proofs.TypedInt Proofs.StrSource.
From SJ Require Import Proofs.TypedTotal.
From SJ Require Import Proofs.ApNumber Proofs.ValueDeAgreeAp Proofs.ValueDeAgreeApValue.
Require Import Lia ZifyBool ZifyNat ZifyN.
Open Scope N_scope.

(* ================================================================================================================================
   1. Leaves that are not numbers (scripts of Proofs/ValueDeAgree.v, Section Agree, without its hypothesis)
   ================================================================================================================================ *)
Section LeavesAny.
  Variable cf : cfg.
  Variable fx : fenv.
  Local Notation E := (mkEnv RSlice TEof cf).
  Local Notation agree_at := (ValueDeAgree.agree_at cf fx).
  Local Notation reject_not_ok := (ValueDeAgree.reject_not_ok cf).
  Local Notation lit_accept := (ValueDeAgree.lit_accept cf).
  Local Notation str_accept := (ValueDeAgree.str_accept cf).

  Ltac kinds Hkind :=
    cbn [rejects]; repeat split; try reflexivity; try assumption;
    try (destruct Hkind as [Hkind ?]; subst; try reflexivity; discriminate);
    try (subst; try reflexivity; discriminate);
    try (destruct Hkind as [Hkind|Hkind]; [subst; try reflexivity; discriminate | unfold is_digit in *; lia]).

  Ltac start_scalar :=
    intros c v fuel fv s w rst Hwf Hden Hsh Hwv Hw Hfol Hdb Hr Hfuel Hfv;
    destruct fuel as [|f]; [cbn [ty_depth] in Hfuel; lia|];
    destruct fv as [|fv]; [cbn [ty_depth] in Hfv; lia|];
    destruct (render_first c Hwf) as (b & r & Hren & Hbws & Hkind);
    pose proof Hr as Hr0; rewrite Hren in Hr; revert Hr; lnorm; intros Hr.

  Lemma agree_bool : agree_at TBool.
  Proof.
    start_scalar.
    destruct c; destruct v as [|[|]| | | |]; try discriminate Hsh; cbn [de_value_owned okrel verr].
    all: try (apply (reject_not_ok TBool f s w b (r ++ rst) Hw Hbws Hr); kinds Hkind).
    - destruct Hkind as [-> ->].
      destruct (lit_accept s w 116 lit_rue rst Hw eq_refl Hr) as (s1 & s2 & Hpw & Hid & Hr2 & Hd2).
      cbn [de_typed]. unfold deserialize_bool. rewrite Hpw. cbn [lift tbind]. change (116 =? 116) with true. cbv iota.
      rewrite Hid. cbn [lift tbind fix_position]. eauto 8.
    - destruct Hkind as [-> ->].
      destruct (lit_accept s w 102 lit_alse rst Hw eq_refl Hr) as (s1 & s2 & Hpw & Hid & Hr2 & Hd2).
      cbn [de_typed]. unfold deserialize_bool. rewrite Hpw. cbn [lift tbind]. change (102 =? 116) with false. change (102 =? 102) with true. cbv iota.
      rewrite Hid. cbn [lift tbind fix_position]. eauto 8.
  Qed.

  Lemma agree_unit_gen t : t = TUnit \/ t = TUnitStruct -> agree_at t.
  Proof.
    intros Ht. assert (Hd : ty_depth t = 1%nat) by (destruct Ht; subst; reflexivity). revert Hd.
    intros Hd c v fuel fv s w rst Hwf Hden Hsh Hwv Hw Hfol Hdb Hr Hfuel Hfv.
    destruct fuel as [|f]; [lia|]. destruct fv as [|fv]; [lia|].
    destruct (render_first c Hwf) as (b & r & Hren & Hbws & Hkind).
    rewrite Hren in Hr. revert Hr. lnorm. intros Hr.
    assert (Hv : de_value_owned (S fv) cf fx t v = match v with VNull => VOk DUnit | _ => verr MInvalidType end)
      by (destruct Ht; subst; reflexivity).
    assert (Ht' : de_typed (S f) E t s = deserialize_unit E s) by (destruct Ht; subst; reflexivity).
    rewrite Hv, Ht'.
    destruct c; destruct v as [|[|]| | | |]; try discriminate Hsh; cbn [okrel verr].
    all: try (rewrite <- Ht'; apply (reject_not_ok t f s w b (r ++ rst) Hw Hbws Hr); destruct Ht; subst t; kinds Hkind).
    destruct Hkind as [-> ->].
    destruct (lit_accept s w 110 lit_ull rst Hw eq_refl Hr) as (s1 & s2 & Hpw & Hid & Hr2 & Hd2).
    unfold deserialize_unit. rewrite Hpw. cbn [lift tbind]. change (110 =? 110) with true. cbv iota.
    rewrite Hid. cbn [lift tbind fix_position]. eauto 8.
  Qed.

  Lemma agree_str : agree_at TStr.
  Proof.
    start_scalar.
    destruct c as [| | |n|ps|w0 es|w0 ms]; destruct v as [|[|]| |sv| |]; try discriminate Hsh; cbn [de_value_owned okrel verr].
    all: try (apply (reject_not_ok TStr f s w b (r ++ rst) Hw Hbws Hr); kinds Hkind).
    cbn [wfb denote] in Hwf, Hden. destruct (str_text ps) as [sv'|] eqn:Htext; [|discriminate Hden]. injection Hden as <-.
    cbn [render] in Hr0.
    destruct (str_accept visit_string ps sv' s w rst Hwf Htext Hw Hr0) as (bw & s2 & Hds & Hr2 & Hd2).
    cbn [de_typed]. rewrite Hds. unfold visit_string. cbn [of_visit fix_position okrel].
    exists (DStr sv' bw), s2. split; [reflexivity|]. split; [reflexivity|]. split; assumption.
  Qed.

  Lemma agree_char : agree_at TChar.
  Proof.
    start_scalar.
    destruct c as [| | |n|ps|w0 es|w0 ms]; destruct v as [|[|]| |sv| |]; try discriminate Hsh; cbn [de_value_owned okrel verr].
    all: try (apply (reject_not_ok TChar f s w b (r ++ rst) Hw Hbws Hr); kinds Hkind).
    cbn [wfb denote] in Hwf, Hden. destruct (str_text ps) as [sv'|] eqn:Htext; [|discriminate Hden]. injection Hden as <-.
    cbn [render] in Hr0.
    destruct (str_accept visit_char ps sv' s w rst Hwf Htext Hw Hr0) as (bw & s2 & Hds & Hr2 & Hd2).
    cbn [de_typed]. rewrite Hds. unfold visit_char. destruct (one_scalar sv') as [ch|]; cbn [of_visit fix_position okrel verr].
    - exists (DChar ch), s2. split; [reflexivity|]. split; [reflexivity|]. split; assumption.
    - discriminate.
  Qed.

  (* ---- IgnoredAny: the Value route drops the Value, the text route skips one value ----------------------------------------- *)
  Lemma agree_ignored : agree_at TIgnored.
  Proof.
    intros c v fuel fv s w rst Hwf Hden Hsh Hwv Hw Hfol Hdb Hr Hfuel Hfv.
    cbn [ty_depth] in Hfuel, Hfv. destruct fuel as [|f]; [lia|]. destruct fv as [|fv]; [lia|].
    cbn [de_value_owned de_typed okrel]. destruct s as [r0 o0 p0 d0]. cbn [rest depth] in *. subst r0.
    destruct (ignore_value_complete cf w c rst o0 p0 d0 Hw Hwf (follow_nfollow _ Hfol)) as [pk' Hi].
    rewrite Hi. cbn [lift tbind]. eexists. eexists. split; [reflexivity|]. split; [reflexivity|]. split; reflexivity.
  Qed.
End LeavesAny.

(* ================================================================================================================================
   2. Map keys (scripts of Proofs/ValueDeAgreeKey.v, Section Keys; [core_parse_integer] is the one lemma that needed the hypothesis)
   ================================================================================================================================ *)
Section KeysAny.
  Variable cf : cfg.
  Local Notation E := (mkEnv RSlice TEof cf).
  Local Notation Ev := (mkEnv RStr TEof cf).
  Local Notation bytes_lt K := (Forall (fun x : N => x < 256) K).
  Local Notation core_ok := (ValueDeAgreeKey.core_ok cf).
  Local Notation wrap_ok := (ValueDeAgreeKey.wrap_ok cf).
  Local Notation key_delegate := (ValueDeAgreeKey.key_delegate cf).
  Local Notation core_scan128 := (ValueDeAgreeKey.core_scan128 cf).
  Local Notation post_i128 := (ValueDeAgreeKey.post_i128 cf).
  Local Notation post_u128 := (ValueDeAgreeKey.post_u128 cf).
  Local Notation key_str_read := (ValueDeAgreeKey.key_str_read cf).
  Local Notation key_bool_agree := (ValueDeAgreeKey.key_bool_agree cf).
  Local Notation de_key_S := (ValueDeAgreeKey.de_key_S cf).

  (* parse_integer does not look at the feature (C20_typed_same): the instance of the build without it carries over *)
  Lemma core_parse_integer positive : core_ok (fun E' => parse_integer E' positive).
  Proof.
    pose proof (ValueDeAgreeKey.core_parse_integer (cf0 cf) eq_refl positive) as H0.
    assert (HEv : forall s, parse_integer Ev positive s = parse_integer (mkEnv RStr TEof (cf0 cf)) positive s)
      by (intros; apply parse_integer_feature_indep; reflexivity).
    assert (HE : forall s, parse_integer E positive s = parse_integer (mkEnv RSlice TEof (cf0 cf)) positive s)
      by (intros; apply parse_integer_feature_indep; reflexivity).
    intros KN rstk ov pv dv ot pt dt HK. destruct (H0 KN rstk ov pv dv ot pt dt HK) as [C1 C2]. cbv beta in *. split.
    - intros x s2v Hp Hr. rewrite HEv in Hp. destruct (C1 x s2v Hp Hr) as (s2t & Ht & R). exists s2t. rewrite HE. auto.
    - intros x s2t r' Hp Hr. rewrite HE in Hp. destruct (C2 x s2t r' Hp Hr) as (s2v & Hv & R). exists s2v. rewrite HEv. auto.
  Qed.

  Lemma first_numch b : (is_digit b || (b =? 45)) = true -> numch b = true /\ is_ws b = false.
  Proof. intros H. unfold numch, is_ws, WS_SET, is_digit in *. cbn [existsb]. lia. Qed.

  Lemma Lk_first b K : (is_digit b || (b =? 45)) = true -> Lk (b :: K) = b :: Lk K.
  Proof. intros H. rewrite Lk_cons, (numch_raw b (proj1 (first_numch b H))). reflexivity. Qed.

  Lemma delegate_number visit : pure_visit visit -> (forall p s2, tchk false false (vpost s2) (depth s2) (visit p s2)) ->
    key_delegate (fun E' => deserialize_number E' visit).
  Proof.
    intros Hpure Hchk b K rstk sv st_ Hb HK Hrv Hrt.
    assert (Htot := deserialize_number_chk Ev false false visit sv Hchk).
    assert (Hpost : post_ok (fun '(p, s2) => visit p s2) (fun '(p, s2) => visit p s2)).
    { intros p. destruct (Hpure p) as [(d & Hd)|Hn]; [left; exists d; split; exact Hd|right; split; exact Hn]. }
    destruct sv as [rv ov pv dv], st_ as [rt ot pt dt]. cbn [rest depth] in *. subst rv rt.
    destruct (first_numch b Hb) as [Hnb Hws]. pose proof (Lk_first b K Hb) as HLk.
    split; [|split; [|split; [exact (tchk_no_fuel _ _ _ _ Htot)|exact (tchk_no_panic _ _ _ _ Htot)]]]; clear Htot.
    - intros d s2v. unfold deserialize_number. rewrite HLk. cbn [app].
      rewrite !(TypedInt.parse_whitespace_hd _ b _ _ _ _ Hws). cbn [lift tbind].
      destruct (b =? 45) eqn:H45.
      + change (discard (mkSt (b :: K) ov true dv)) with (mkSt K (S ov) false dv).
        change (discard (mkSt (b :: Lk K ++ 34 :: rstk) ot true dt)) with (mkSt (Lk K ++ 34 :: rstk) (S ot) false dt).
        intros H Hr. apply fix_position_ok in H.
        destruct (proj1 (wrap_ok (fun E' => parse_integer E' false) _ _ K rstk (S ov) false dv (S ot) false dt (core_parse_integer false) Hpost HK) d s2v H Hr)
          as (s2t & Ht & Hrt & Hdt).
        exists s2t. split; [apply fix_position_ok; exact Ht|]. auto.
      + assert (Hd : is_digit b = true) by (destruct (is_digit b); [reflexivity|discriminate Hb]). rewrite Hd.
        replace (b :: Lk K ++ 34 :: rstk) with (Lk (b :: K) ++ 34 :: rstk) by (rewrite HLk; reflexivity).
        intros H Hr. apply fix_position_ok in H.
        destruct (proj1 (wrap_ok (fun E' => parse_integer E' true) _ _ (b :: K) rstk ov true dv ot true dt (core_parse_integer true) Hpost
                           (@Forall_cons N (fun x : N => x < 256) b K (numch_lt b Hnb) HK)) d s2v H Hr) as (s2t & Ht & Hrt & Hdt).
        exists s2t. split; [apply fix_position_ok; exact Ht|]. auto.
    - intros d s2t r'. unfold deserialize_number. rewrite HLk. cbn [app].
      rewrite !(TypedInt.parse_whitespace_hd _ b _ _ _ _ Hws). cbn [lift tbind].
      destruct (b =? 45) eqn:H45.
      + change (discard (mkSt (b :: K) ov true dv)) with (mkSt K (S ov) false dv).
        change (discard (mkSt (b :: Lk K ++ 34 :: rstk) ot true dt)) with (mkSt (Lk K ++ 34 :: rstk) (S ot) false dt).
        intros H Hr. apply fix_position_ok in H.
        destruct (proj2 (wrap_ok (fun E' => parse_integer E' false) _ _ K rstk (S ov) false dv (S ot) false dt (core_parse_integer false) Hpost HK) d s2t r' H Hr)
          as (s2v & Hv & Hrv).
        exists s2v. split; [apply fix_position_ok; exact Hv|]. auto.
      + assert (Hd : is_digit b = true) by (destruct (is_digit b); [reflexivity|discriminate Hb]). rewrite Hd.
        replace (b :: Lk K ++ 34 :: rstk) with (Lk (b :: K) ++ 34 :: rstk) by (rewrite HLk; reflexivity).
        intros H Hr. apply fix_position_ok in H.
        destruct (proj2 (wrap_ok (fun E' => parse_integer E' true) _ _ (b :: K) rstk ov true dv ot true dt (core_parse_integer true) Hpost
                           (@Forall_cons N (fun x : N => x < 256) b K (numch_lt b Hnb) HK)) d s2t r' H Hr) as (s2v & Hv & Hrv).
        exists s2v. split; [apply fix_position_ok; exact Hv|]. auto.
  Qed.


  Lemma delegate_i128 : key_delegate deserialize_i128.
  Proof.
    intros b K rstk sv st_ Hb HK Hrv Hrt.
    assert (Htot := deserialize_i128_chk Ev false false sv).
    destruct sv as [rv ov pv dv], st_ as [rt ot pt dt]. cbn [rest depth] in *. subst rv rt.
    destruct (first_numch b Hb) as [Hnb Hws]. pose proof (Lk_first b K Hb) as HLk.
    split; [|split; [|split; [exact (tchk_no_fuel _ _ _ _ Htot)|exact (tchk_no_panic _ _ _ _ Htot)]]]; clear Htot.
    - intros d s2v. unfold deserialize_i128. rewrite HLk. cbn [app].
      rewrite !(TypedInt.parse_whitespace_hd _ b _ _ _ _ Hws). cbn [lift tbind]. cbv zeta.
      destruct (b =? 45) eqn:H45.
      + change (discard (mkSt (b :: K) ov true dv)) with (mkSt K (S ov) false dv).
        change (discard (mkSt (b :: Lk K ++ 34 :: rstk) ot true dt)) with (mkSt (Lk K ++ 34 :: rstk) (S ot) false dt).
        exact (proj1 (wrap_ok scan_integer128 _ _ K rstk (S ov) false dv (S ot) false dt core_scan128 (post_i128 true) HK) d s2v).
      + replace (b :: Lk K ++ 34 :: rstk) with (Lk (b :: K) ++ 34 :: rstk) by (rewrite HLk; reflexivity).
        exact (proj1 (wrap_ok scan_integer128 _ _ (b :: K) rstk ov true dv ot true dt core_scan128 (post_i128 false)
                        (@Forall_cons N (fun x : N => x < 256) b K (numch_lt b Hnb) HK)) d s2v).
    - intros d s2t r'. unfold deserialize_i128. rewrite HLk. cbn [app].
      rewrite !(TypedInt.parse_whitespace_hd _ b _ _ _ _ Hws). cbn [lift tbind]. cbv zeta.
      destruct (b =? 45) eqn:H45.
      + change (discard (mkSt (b :: K) ov true dv)) with (mkSt K (S ov) false dv).
        change (discard (mkSt (b :: Lk K ++ 34 :: rstk) ot true dt)) with (mkSt (Lk K ++ 34 :: rstk) (S ot) false dt).
        exact (proj2 (wrap_ok scan_integer128 _ _ K rstk (S ov) false dv (S ot) false dt core_scan128 (post_i128 true) HK) d s2t r').
      + replace (b :: Lk K ++ 34 :: rstk) with (Lk (b :: K) ++ 34 :: rstk) by (rewrite HLk; reflexivity).
        exact (proj2 (wrap_ok scan_integer128 _ _ (b :: K) rstk ov true dv ot true dt core_scan128 (post_i128 false)
                        (@Forall_cons N (fun x : N => x < 256) b K (numch_lt b Hnb) HK)) d s2t r').
  Qed.

  Lemma delegate_u128 : key_delegate deserialize_u128.
  Proof.
    intros b K rstk sv st_ Hb HK Hrv Hrt.
    assert (Htot := deserialize_u128_chk Ev false false sv).
    destruct sv as [rv ov pv dv], st_ as [rt ot pt dt]. cbn [rest depth] in *. subst rv rt.
    destruct (first_numch b Hb) as [Hnb Hws]. pose proof (Lk_first b K Hb) as HLk.
    split; [|split; [|split; [exact (tchk_no_fuel _ _ _ _ Htot)|exact (tchk_no_panic _ _ _ _ Htot)]]]; clear Htot.
    - intros d s2v. unfold deserialize_u128. rewrite HLk. cbn [app].
      rewrite !(TypedInt.parse_whitespace_hd _ b _ _ _ _ Hws). cbn [lift tbind].
      destruct (b =? 45) eqn:H45; [unfold peek_error, lift; discriminate|].
      replace (b :: Lk K ++ 34 :: rstk) with (Lk (b :: K) ++ 34 :: rstk) by (rewrite HLk; reflexivity).
      exact (proj1 (wrap_ok scan_integer128 _ _ (b :: K) rstk ov true dv ot true dt core_scan128 post_u128
                      (@Forall_cons N (fun x : N => x < 256) b K (numch_lt b Hnb) HK)) d s2v).
    - intros d s2t r'. unfold deserialize_u128. rewrite HLk. cbn [app].
      rewrite !(TypedInt.parse_whitespace_hd _ b _ _ _ _ Hws). cbn [lift tbind].
      destruct (b =? 45) eqn:H45; [unfold peek_error, lift; discriminate|].
      replace (b :: Lk K ++ 34 :: rstk) with (Lk (b :: K) ++ 34 :: rstk) by (rewrite HLk; reflexivity).
      exact (proj2 (wrap_ok scan_integer128 _ _ (b :: K) rstk ov true dv ot true dt core_scan128 post_u128
                      (@Forall_cons N (fun x : N => x < 256) b K (numch_lt b Hnb) HK)) d s2t r').
  Qed.

  Lemma delegate_int it : key_delegate (fun E' => deserialize_int E' it).
  Proof.
    destruct it; first [exact delegate_i128 | exact delegate_u128
                       | exact (delegate_number (visit_int _) (pure_visit_int _) (fun p s2 => visit_int_chk false false _ p s2))].
  Qed.

  Lemma delegate_f64 : key_delegate (fun E' => deserialize_number E' visit_f64).
  Proof. exact (delegate_number visit_f64 pure_visit_f64 (fun p s2 => visit_f64_chk false false p s2)). Qed.

  (* ---- deserialize_numeric_key! on both sides -------------------------------------------------------------------------------------- *)

  Lemma numeric_key_agree dl key s rstk : key_delegate dl -> bytes_lt key -> rest s = 34 :: Lk key ++ 34 :: rstk ->
    okrel unborrow (vkey_numeric cf dl key) (numeric_key E (dl E) s) s rstk.
  Proof.
    intros Hdl HK Hr. destruct s as [r0 o p d]. cbn [rest] in Hr. subst r0.
    unfold vkey_numeric, numeric_key. cbv zeta.
    change (discard (mkSt (34 :: Lk key ++ 34 :: rstk) o p d)) with (mkSt (Lk key ++ 34 :: rstk) (S o) false d).
    destruct key as [|b K].
    - cbn [okrel]. intros a. cbn. discriminate.
    - inversion HK as [|? ? Hb256 HK']; subst.
      change (peek Ev (init_st (b :: K))) with (@Ok (option byte * st) (Some b, mkSt (b :: K) 0 true DEPTH0)). cbv iota beta.
      destruct (is_digit b || (b =? 45)) eqn:Hb.
      + pose proof (Lk_first b K Hb) as HLk. rewrite HLk. cbn [app].
        change (peek E (mkSt (b :: Lk K ++ 34 :: rstk) (S o) false d))
          with (@Ok (option byte * st) (Some b, mkSt (b :: Lk K ++ 34 :: rstk) (S o) true d)).
        cbn [lift tbind]. rewrite Hb.
        set (sv := mkSt (b :: K) 0 true DEPTH0). set (st_ := mkSt (b :: Lk K ++ 34 :: rstk) (S o) true d).
        assert (Hst : rest st_ = Lk (b :: K) ++ 34 :: rstk) by (unfold st_; cbn [rest]; rewrite HLk; reflexivity).
        destruct (Hdl b K rstk sv st_ Hb HK' eq_refl Hst) as (D1 & D2 & D3 & D4).
        match goal with |- okrel _ _ ?T _ _ => set (TXT := T) end.
        assert (Hback : forall a, TXT = TOk a -> exists d' s2v, dl Ev sv = TOk (d', s2v) /\ rest s2v = []).
        { intros a Ha. unfold TXT in Ha. destruct (dl E st_) as [[d' s2t]| | | |] eqn:Ht; cbn [tbind] in Ha; try discriminate Ha.
          unfold peek in Ha. destruct (rest s2t) as [|c r'] eqn:Hrt; [cbn in Ha; discriminate Ha|]. cbn [lift tbind] in Ha.
          destruct (c =? 34) eqn:Hc; [|unfold peek_error, lift in Ha; discriminate Ha]. apply N.eqb_eq in Hc. subst c.
          destruct (D2 d' s2t r' eq_refl Hrt) as (s2v & Hv & Hrv). eauto. }
        destruct (dl Ev sv) as [[dv s2v]|c i|k su| |] eqn:Hv.
        * cbn [of_text vbind]. unfold peek at 1. destruct (rest s2v) as [|c r2] eqn:Hr2.
          -- cbn [at_end tm]. cbn [okrel]. destruct (D1 dv s2v eq_refl Hr2) as (s2t & Ht & Hrt & Hdt).
             unfold TXT. rewrite Ht. cbn [tbind]. unfold peek. rewrite Hrt. cbn [lift tbind]. change (34 =? 34) with true. cbv iota.
             exists dv. eexists. split; [reflexivity|]. split; [reflexivity|]. cbn [discard rest depth tl]. rewrite ?Hrt. cbn [tl].
             split; [reflexivity|]. rewrite Hdt. reflexivity.
          -- cbn [okrel]. intros a Ha. destruct (Hback a Ha) as (d' & s2v' & Hv' & Hr'). injection Hv' as _ <-. rewrite Hr2 in Hr'. discriminate Hr'.
        * destruct (@of_text_err (dval * st) (b :: K) c i) as (c' & l & k & He). rewrite He. cbn [vbind okrel].
          intros a Ha. destruct (Hback a Ha) as (d' & s2v' & Hv' & _). discriminate Hv'.
        * cbn [of_text verr vbind okrel]. intros a Ha. destruct (Hback a Ha) as (d' & s2v' & Hv' & _). discriminate Hv'.
        * exfalso. apply D3. reflexivity.
        * exfalso. apply D4. reflexivity.
      + cbn [okrel]. intros a.
        destruct (Lk_head b K Hb256) as (hb & tl0 & Hh & _ & Hcase). rewrite Hh. cbn [app].
        change (peek E (mkSt (hb :: tl0 ++ 34 :: rstk) (S o) false d))
          with (@Ok (option byte * st) (Some hb, mkSt (hb :: tl0 ++ 34 :: rstk) (S o) true d)).
        cbn [lift tbind].
        assert (Hhb : (is_digit hb || (hb =? 45)) = false).
        { destruct Hcase as [[-> _]|[-> _]]; [exact Hb|reflexivity]. }
        rewrite Hhb. unfold error, lift. discriminate.
  Qed.

  (* ---- string-like keys ------------------------------------------------------------------------------------------------------------ *)

  Theorem key_agree : forall k key fuel s rstk, agree_kty k = true -> utf8_valid key = true ->
    rest s = 34 :: Lk key ++ 34 :: rstk -> (kty_depth k <= fuel)%nat ->
    okrel unborrow (de_value_key cf false k key) (de_key fuel E k s) s rstk.
  Proof.
    induction k as [|it| | | | |k1 IH|k1 IH|names]; intros key fuel s rstk Hk Hu Hr Hf;
      (destruct fuel as [|f]; [cbn [kty_depth] in Hf; lia|]); rewrite de_key_S; cbn [de_value_key].
    - (* KStr *) destruct (key_str_read key s rstk Hu Hr) as (bw & s2 & Hp & Hr2 & Hd2). rewrite Hp. cbn [lift tbind].
      unfold visit_string. cbn [of_visit okrel]. exists (DStr key bw), s2. auto.
    - (* KInt *) apply (numeric_key_agree (fun E' => deserialize_int E' it)); [apply delegate_int|apply Utf8Lemmas.utf8_valid_bytes, Hu|exact Hr].
    - (* KBool *) apply key_bool_agree; [apply Utf8Lemmas.utf8_valid_bytes, Hu|exact Hr].
    - (* KChar *) destruct (key_str_read key s rstk Hu Hr) as (bw & s2 & Hp & Hr2 & Hd2). rewrite Hp. cbn [lift tbind].
      unfold visit_char. destruct (one_scalar key) as [ch|]; cbn [of_visit okrel verr]; [|discriminate].
      exists (DChar ch), s2. auto.
    - (* KF32 *) discriminate Hk.
    - (* KF64 *) apply (numeric_key_agree (fun E' => deserialize_number E' visit_f64)); [apply delegate_f64|apply Utf8Lemmas.utf8_valid_bytes, Hu|exact Hr].
    - (* KOption *) apply okrel_map; [intros a b' Hab; cbn [unborrow]; rewrite Hab; reflexivity|].
      apply IH; try assumption. cbn [kty_depth] in Hf. lia.
    - (* KNewtype *) apply okrel_map; [intros a b' Hab; cbn [unborrow]; rewrite Hab; reflexivity|].
      apply IH; try assumption. cbn [kty_depth] in Hf. lia.
    - (* KUnitEnum *) cbv zeta. set (vs := map (fun n => (n, tt)) names).
      destruct (pws_head cf s [] 34 (Lk key ++ 34 :: rstk) eq_refl eq_refl Hr) as (s1 & Hpw & Hr1 & Hd1).
      unfold deserialize_enum. rewrite Hpw. cbn [lift tbind]. change (34 =? 123) with false. change (34 =? 34) with true. cbv iota.
      destruct (str_accept cf (visit_variant vs) (pieces_of key) key s1 [] rstk
                  (pieces_of_ok key (utf8_valid_bytes key Hu)) (str_text_pieces key Hu) eq_refl) as (bw & s2 & Hds & Hr2 & Hd2).
      { rewrite Hr1. unfold render_str, Lk. cbn [app]. rewrite <- app_assoc. reflexivity. }
      rewrite Hds. unfold visit_variant. destruct (index_of key vs) as [[i a]|]; cbn [of_visit1 vbind fix_position tbind okrel verr].
      + exists (DVariant key DUnit), s2. split; [reflexivity|]. split; [reflexivity|]. split; [exact Hr2|congruence].
      + discriminate.
  Qed.
End KeysAny.

(* ================================================================================================================================
   3. Containers (scripts of Proofs/ValueDeAgreeMap.v, Section Agree2), over [claim_ap]
   ================================================================================================================================ *)
Section Agree2Any.
  Variable NR : numlit -> num -> Prop.
  Variable cf : cfg.
  Variable fx : fenv.
  Local Notation E := (mkEnv RSlice TEof cf).
  Local Notation shp2 := (shape2 NR).
  Local Notation shp2_elems := (shape2_elems NR).
  Local Notation shp2_members := (shape2_members NR).

  (* as ValueDeAgreeMap.agree_at2k, with [claim_ap fx] in place of [claimb] *)
  Definition agree_at2k (k : nat) (t : ty) : Prop := forall c v fuel fv s w rst,
    wfb c = true -> denote cf c = Some v -> shp2 c v -> claim_ap fx fv t v = true -> wf_value cf v = true -> ws_ok w = true -> follow_ok rst ->
    dbudget cf (cdepth c) (depth s) -> rest s = w ++ render c ++ rst ->
    (ty_depth t + vfuel c <= fuel)%nat -> (k + ty_depth t <= fv)%nat ->
    okrel2 unborrow (de_value_owned fv cf fx t v) (de_typed fuel E t s) s rst.
  Definition agree_at2 : ty -> Prop := agree_at2k 1.

  (* every type program of Proofs/ValueDeAgree.v whose lemma does not depend on sub-programs *)
  Lemma agree_at_2k k t : agree_at cf fx t -> agree_at2k k t.
  Proof.
    intros H c v fuel fv s w rst Hwf Hden Hsh _ Hwv Hw Hfol Hdb Hr Hfuel Hfv. apply okrel_2.
    assert (Hfv' : (ty_depth t <= fv)%nat) by (clear - Hfv; lia).
    exact (H c v fuel fv s w rst Hwf Hden (shape2_shape NR c v Hsh) Hwv Hw Hfol Hdb Hr Hfuel Hfv').
  Qed.
  Lemma agree_at_2 t : agree_at cf fx t -> agree_at2 t.
  Proof. apply agree_at_2k. Qed.

  (* ---- wrappers (as in ValueDeAgree.v, over [agree_at2]) ------------------------------------------------------------------------ *)
  Lemma agree_option2 t1 : agree_at2 t1 -> agree_at2 (TOption t1).
  Proof.
    intros IH c v fuel fv s w rst Hwf Hden Hsh Hcl Hwv Hw Hfol Hdb Hr Hfuel Hfv.
    cbn [ty_depth] in Hfuel, Hfv. destruct fuel as [|f]; [lia|]. destruct fv as [|fv]; [lia|].
    destruct (render_first c Hwf) as (b & r & Hren & Hbws & Hkind).
    pose proof Hr as Hr0. rewrite Hren in Hr. revert Hr. lnorm. intros Hr.
    destruct (pws_head cf s w b (r ++ rst) Hw Hbws Hr) as (s1 & Hpw & Hr1 & Hd1).
    cbn [de_typed]. rewrite Hpw. cbn [lift tbind].
    pose proof (shape2_shape NR c v Hsh) as Hsh1.
    destruct (b =? 110) eqn:Hb.
    - apply N.eqb_eq in Hb. subst b.
      assert (Hc : c = CNull).
      { destruct c; try reflexivity; exfalso;
          first [discriminate Hkind | destruct Hkind as [Hk _]; discriminate Hk | destruct Hkind as [Hk|Hk]; discriminate Hk]. }
      subst c. destruct v; try discriminate Hsh1. destruct Hkind as [_ ->].
      destruct (parse_ident_fwd cf lit_ull (discard s1) rst) as (s2 & Hid & Hr2 & Hd2).
      { rewrite discard_rest, Hr1. reflexivity. }
      rewrite Hid. cbn [lift tbind de_value_owned okrel2]. exists DNone, s2. rewrite Hd2, discard_depth. auto.
    - assert (Hnn : v <> VNull).
      { intros ->. destruct c; try discriminate Hsh1. destruct Hkind as [Hk _]. subst b. discriminate Hb. }
      assert (Hv : de_value_owned (S fv) cf fx (TOption t1) v = vmap DSome (de_value_owned fv cf fx t1 v)).
      { destruct v; try reflexivity. congruence. }
      assert (Hcl1 : claim_ap fx fv t1 v = true).
      { destruct v; try exact Hcl. congruence. }
      rewrite Hv. apply okrel2_map; [intros a b' Hab; cbn [unborrow]; rewrite Hab; reflexivity|].
      apply (okrel2_depth unborrow _ _ s1 s rst Hd1).
      apply (IH c v f fv s1 [] rst); try assumption; try reflexivity.
      + rewrite Hd1. exact Hdb.
      + rewrite Hr1, Hren. lnorm. reflexivity.
      + clear - Hfuel. lia.
      + clear - Hfv. lia.
  Qed.

  Lemma agree_newtype2 t1 : agree_at2 t1 -> agree_at2 (TNewtype t1).
  Proof.
    intros IH c v fuel fv s w rst Hwf Hden Hsh Hcl Hwv Hw Hfol Hdb Hr Hfuel Hfv.
    cbn [ty_depth] in Hfuel, Hfv. destruct fuel as [|f]; [lia|]. destruct fv as [|fv]; [lia|].
    cbn [de_typed de_value_owned]. apply okrel2_map; [intros a b' Hab; cbn [unborrow]; rewrite Hab; reflexivity|].
    apply (IH c v f fv s w rst); try assumption; [clear - Hfuel; lia|clear - Hfv; lia].
  Qed.

  (* ---- Vec<T> -------------------------------------------------------------------------------------------------------------------- *)
  Definition elems_rel2 (k : nat) (t1 : ty) : Prop := forall es l fuel fv first s wp rst,
    wfb_elems es = true -> denote_elems cf es = Some l -> shp2_elems es l -> forallb (claim_ap fx fv t1) l = true ->
    forallb (wf_value cf) l = true -> ws_ok wp = true ->
    dbudget cf (cdepth_elems es) (depth s) -> rest s = seq_text first wp es ++ 93 :: rst ->
    (ty_depth t1 + sfuel es <= fuel)%nat -> (k + ty_depth t1 <= fv)%nat ->
    match seq_all (de_value_owned fv cf fx t1) l with
    | VOk (ds, rem) => rem = [] /\ exists ds' s' wl, de_elems fuel E t1 first s = TOk (ds', s') /\ map unborrow ds' = map unborrow ds
                         /\ ws_ok wl = true /\ rest s' = wl ++ 93 :: rst /\ depth s' = depth s
    | VErr _ _ _ => not_ok (de_elems fuel E t1 first s)
    | _ => False
    end.

  Lemma elems_agree2 k t1 : agree_at2k k t1 -> elems_rel2 k t1.
  Proof.
    intros IH es. induction es as [|w1 c w2 rest0 IHr]; intros l fuel fv first s wp rst Hwf Hden Hsh Hcl Hwvl Hwp Hdb Hr Hfuel Hfv.
    - cbn [denote_elems] in Hden. injection Hden as <-. cbn [seq_all]. split; [reflexivity|].
      cbn [sfuel] in Hfuel. destruct fuel as [|f]; [lia|]. cbn [seq_text] in Hr.
      rewrite de_elems_S', (hne_fwd_none cf first s rst). 2:{ rewrite Hr. now apply skipws_to. }
      cbn [lift tbind]. exists [], s, wp. auto.
    - cbn [sfuel] in Hfuel. destruct fuel as [|f]; [lia|].
      cbn [wfb_elems] in Hwf. apply andb_prop in Hwf as [Hwf Hwfr]. apply andb_prop in Hwf as [Hwf Hw2].
      apply andb_prop in Hwf as [Hw1 Hwfc].
      cbn [denote_elems] in Hden. destruct (denote cf c) as [v|] eqn:Hdc; [|discriminate].
      destruct (denote_elems cf rest0) as [vs0|] eqn:Hdr; [|discriminate]. injection Hden as <-.
      cbn [shape2_elems] in Hsh. destruct Hsh as [Hshc Hshr].
      cbn [forallb] in Hwvl, Hcl. apply andb_prop in Hwvl as [Hwvc Hwvr]. apply andb_prop in Hcl as [Hclc Hclr].
      cbn [cdepth_elems] in Hdb.
      destruct (hne_step' cf first s wp w1 c w2 rest0 rst Hwp Hw1 Hwfc Hr) as (s1 & Hh & Hs1 & Hd1).
      set (rst1 := w2 ++ tail_elems rest0 ++ 93 :: rst) in *.
      rewrite de_elems_S', Hh. cbn [lift tbind]. cbn [seq_all].
      assert (Hel := IH c v f fv s1 [] rst1 Hwfc Hdc Hshc Hclc Hwvc eq_refl (follow_elems_tail w2 rest0 rst Hw2)).
      rewrite Hd1 in Hel. specialize (Hel (dbudget_le _ _ _ _ (Nat.le_max_l _ _) Hdb) Hs1).
      assert (Hf1 : (ty_depth t1 + vfuel c <= f)%nat) by (clear - Hfuel; lia). specialize (Hel Hf1 Hfv).
      destruct (de_value_owned fv cf fx t1 v) as [d| | |]; cbn [okrel2 vbind] in Hel |- *; try contradiction.
      + destruct Hel as (d' & s2 & Hv & Hud & Hr2 & Hd2). rewrite Hv. cbn [tbind].
        assert (Hrest := IHr vs0 f fv false s2 w2 rst Hwfr eq_refl Hshr Hclr Hwvr Hw2).
        rewrite Hd2, Hd1 in Hrest. specialize (Hrest (dbudget_le _ _ _ _ (Nat.le_max_r _ _) Hdb)).
        assert (Hr2' : rest s2 = seq_text false w2 rest0 ++ 93 :: rst) by (rewrite Hr2, seq_text_false; unfold rst1; lnorm; reflexivity).
        assert (Hf2 : (ty_depth t1 + sfuel rest0 <= f)%nat) by (clear - Hfuel; lia). specialize (Hrest Hr2' Hf2 Hfv).
        destruct (seq_all (de_value_owned fv cf fx t1) vs0) as [[ds rem]| | |]; cbn [vbind]; try contradiction.
        * destruct Hrest as (-> & ds' & s3 & wl & He & Hu & Hwl & Hr3 & Hd3). split; [reflexivity|].
          rewrite He. cbn [tbind]. exists (d' :: ds'), s3, wl. split; [reflexivity|]. cbn [map]. rewrite Hud, Hu.
          split; [reflexivity|]. split; [exact Hwl|]. split; [exact Hr3|]. congruence.
        * intros a. destruct (de_elems f E t1 false s2) as [[ds' s3]| | | |] eqn:He; cbn [tbind]; try discriminate.
          exfalso. exact (Hrest _ eq_refl).
      + intros a. destruct (de_typed f E t1 s1) as [[d' s2]| | | |] eqn:Hv; cbn [tbind]; try discriminate.
        specialize (Hel _ _ eq_refl).
        destruct (de_elems f E t1 false s2) as [[ds' s3]| | | |] eqn:He; cbn [tbind]; try discriminate.
        exfalso. exact (de_elems_stuck cf f t1 s2 Hel _ He).
  Qed.

  (* `[` elements `]` read by Vec's visitor: visit_array(_owned) against a `[`-frame over de_elems *)
  Lemma elems_array k (C : list dval -> dval) t1 w0 es l f fv s s1 s2 rst :
    (forall a b, map unborrow a = map unborrow b -> unborrow (C a) = unborrow (C b)) ->
    agree_at2k k t1 -> ws_ok w0 = true -> wfb_elems es = true -> denote_elems cf es = Some l -> shp2_elems es l ->
    forallb (claim_ap fx fv t1) l = true -> forallb (wf_value cf) l = true ->
    dbudget cf (cdepth (CArr w0 es)) (depth s) -> enter E s1 = Ok s2 -> rest (discard s2) = seq_text true w0 es ++ 93 :: rst ->
    depth s1 = depth s -> depth (discard s2) = (if limit_disabled cf then depth s else depth s - 1) ->
    dbudget cf (cdepth_elems es) (depth (discard s2)) ->
    (ty_depth t1 + sfuel es <= f)%nat -> (k + ty_depth t1 <= fv)%nat ->
    okrel2 unborrow (vmap C (visit_array_owned l (seq_all (de_value_owned fv cf fx t1))))
                    (tmap C (fix_position E (frame E end_seq end_seq_st (fun s' => de_elems f E t1 true s') s1))) s rst.
  Proof.
    intros HC IH Hw0 Hwfe Hde Hsh Hcl Hwv Hdb Hen Hrb Hd1 Hd2 Hdb2 Hf1 Hf2.
    assert (Hloop := elems_agree2 k t1 IH es l f fv true (discard s2) w0 rst Hwfe Hde Hsh Hcl Hwv Hw0 Hdb2 Hrb Hf1 Hf2).
    unfold visit_array_owned.
    destruct (seq_all (de_value_owned fv cf fx t1) l) as [[ds rem]| | |]; cbn [vbind vmap]; try contradiction.
    - destruct Hloop as (-> & ds' & s3 & wl & He & Hu & Hwl & Hr3 & Hd3). cbn [vbind vmap okrel2].
      destruct (close_frame cf end_seq end_seq_st 93 (fun s' => de_elems f E t1 true s') (cdepth_elems es) s s1 s2 ds' s3 wl rst
                  (closes_seq cf) eq_refl Hdb Hen Hd1 Hd2 He Hwl Hr3 Hd3) as (s5 & Hfr & Hr5 & Hd5).
      rewrite Hfr. cbn [fix_position tmap tbind]. exists (C ds'), s5. split; [reflexivity|]. split; [apply HC, Hu|]. auto.
    - apply okrel2_not_ok. apply tmap_not_ok'. intros a. apply fix_position_not_ok. apply (frame_fail cf _ _ _ s1 s2 Hen). exact Hloop.
  Qed.

  Lemma agree_seq2 t1 : agree_at2 t1 -> agree_at2 (TSeq t1).
  Proof.
    intros IH c v fuel fv s w rst Hwf Hden Hsh Hcl Hwv Hw Hfol Hdb Hr Hfuel Hfv.
    destruct fuel as [|f]; [cbn [ty_depth] in Hfuel; lia|]. destruct fv as [|fv]; [cbn [ty_depth] in Hfv; lia|].
    destruct (render_first c Hwf) as (b & r & Hren & Hbws & _).
    pose proof Hr as Hr0. rewrite Hren in Hr. revert Hr. lnorm. intros Hr.
    destruct (first_not c b r Hwf Hren) as (_ & Hn91 & _).
    destruct c as [| | |n|ps|w0 es|w0 ms]; destruct v as [|[|]| | |l|]; cbn [shape2 shape] in Hsh; try discriminate Hsh; try contradiction;
      cbn [de_value_owned]; unfold verr.
    all: try (apply okrel2_not_ok; intros a0; apply (reject_not_ok cf (TSeq t1) f s w b (r ++ rst) Hw Hbws Hr); apply Hn91; intros; discriminate).
    cbn [wfb denote] in Hwf, Hden. apply andb_prop in Hwf as [Hw0 Hwfe].
    destruct (denote_elems cf es) as [l'|] eqn:Hde; [|discriminate Hden]. injection Hden as <-.
    rewrite render_arr in Hr0. revert Hr0. lnorm. intros Hr0.
    destruct (open_frame cf 91 _ (cdepth_elems es) s w Hw eq_refl Hr0 Hdb) as (s1 & s2 & Hpw & Hen & Hrb & Hd1 & Hd2 & Hdb2).
    cbn [de_typed]. unfold deserialize_seq. rewrite Hpw. cbn [lift tbind]. change (91 =? 91) with true. cbv iota.
    cbn [ty_depth vfuel] in Hfuel, Hfv. cbn [claim_ap] in Hcl. cbn [wf_value] in Hwv.
    apply (elems_array 1 DSeq t1 w0 es l' f fv s s1 s2 rst); try assumption; [|clear - Hfuel; lia|clear - Hfv; lia].
    intros a b' Hab. cbn [unborrow]. rewrite Hab. reflexivity.
  Qed.

  (* ---- tuples / tuple structs / positional structs ------------------------------------------------------------------------------ *)
  Lemma shape2_nil es l : shp2_elems es l -> (l = [] <-> es = ENil).
  Proof. destruct es, l; cbn [shape2_elems]; intros H; try contradiction; split; intros H'; try reflexivity; discriminate H'. Qed.

  Definition tuple_rel2 (ts : list ty) : Prop := forall es l fuel fv first s wp rst D,
    (forall t, In t ts -> agree_at2 t /\ (ty_depth t <= D)%nat) ->
    wfb_elems es = true -> denote_elems cf es = Some l -> shp2_elems es l -> claim_list (claim_ap fx fv) ts l = true ->
    forallb (wf_value cf) l = true -> ws_ok wp = true ->
    dbudget cf (cdepth_elems es) (depth s) -> rest s = seq_text first wp es ++ 93 :: rst ->
    (D + sfuel es <= fuel)%nat -> (D < fv)%nat ->
    match seq_tuple (de_value_owned fv cf fx) ts l with
    | VOk (ds, rem) => exists ds' s' first' wl es', de_tuple fuel E ts first s = TOk (ds', s') /\ map unborrow ds' = map unborrow ds
         /\ ws_ok wl = true /\ rest s' = seq_text first' wl es' ++ 93 :: rst /\ depth s' = depth s
         /\ wfb_elems es' = true /\ (rem = [] <-> es' = ENil)
    | VErr _ _ _ => forall a s', de_tuple fuel E ts first s = TOk (a, s') -> stuck (rest s')
    | _ => False
    end.

  Lemma tuple_agree2 ts : tuple_rel2 ts.
  Proof.
    induction ts as [|t ts' IHts]; intros es l fuel fv first s wp rst D HIH Hwf Hden Hsh Hcl Hwvl Hwp Hdb Hr Hfuel Hfv.
    - cbn [seq_tuple]. pose proof (sfuel_pos' es). destruct fuel as [|f]; [lia|]. rewrite de_tuple_S'.
      exists [], s, first, wp, es. split; [reflexivity|]. split; [reflexivity|]. split; [exact Hwp|]. split; [exact Hr|].
      split; [reflexivity|]. split; [exact Hwf|]. apply shape2_nil. exact Hsh.
    - pose proof (sfuel_pos' es). destruct fuel as [|f]; [lia|]. rewrite de_tuple_S'.
      destruct es as [|w1 c w2 rest0].
      + destruct l; [|contradiction]. cbn [seq_tuple verr]. intros a s'. cbn [seq_text] in Hr.
        rewrite (hne_fwd_none cf first s rst). 2:{ rewrite Hr. now apply skipws_to. }
        cbn [lift tbind]. discriminate.
      + cbn [sfuel] in Hfuel.
        cbn [wfb_elems] in Hwf. apply andb_prop in Hwf as [Hwf Hwfr]. apply andb_prop in Hwf as [Hwf Hw2].
        apply andb_prop in Hwf as [Hw1 Hwfc].
        cbn [denote_elems] in Hden. destruct (denote cf c) as [v|] eqn:Hdc; [|discriminate].
        destruct (denote_elems cf rest0) as [vs0|] eqn:Hdr; [|discriminate]. injection Hden as <-.
        cbn [shape2_elems] in Hsh. destruct Hsh as [Hshc Hshr].
        cbn [forallb] in Hwvl. apply andb_prop in Hwvl as [Hwvc Hwvr].
        cbn [claim_list] in Hcl. apply andb_prop in Hcl as [Hclc Hclr].
        cbn [cdepth_elems] in Hdb.
        destruct (hne_step' cf first s wp w1 c w2 rest0 rst Hwp Hw1 Hwfc Hr) as (s1 & Hh & Hs1 & Hd1).
        set (rst1 := w2 ++ tail_elems rest0 ++ 93 :: rst) in *.
        rewrite Hh. cbn [lift tbind]. cbn [seq_tuple].
        destruct (HIH t (or_introl eq_refl)) as [IHt HtD].
        assert (Hel := IHt c v f fv s1 [] rst1 Hwfc Hdc Hshc Hclc Hwvc eq_refl (follow_elems_tail w2 rest0 rst Hw2)).
        rewrite Hd1 in Hel. specialize (Hel (dbudget_le _ _ _ _ (Nat.le_max_l _ _) Hdb) Hs1).
        assert (Hf1 : (ty_depth t + vfuel c <= f)%nat) by (clear - Hfuel HtD; lia).
        assert (Hf1' : (ty_depth t < fv)%nat) by (clear - Hfv HtD; lia).
        specialize (Hel Hf1 Hf1').
        destruct (de_value_owned fv cf fx t v) as [d| | |]; cbn [okrel2 vbind] in Hel |- *; try contradiction.
        * destruct Hel as (d' & s2 & Hv & Hud & Hr2 & Hd2). rewrite Hv. cbn [tbind].
          assert (Hrest := IHts rest0 vs0 f fv false s2 w2 rst D (fun t' Hin => HIH t' (or_intror Hin)) Hwfr Hdr Hshr Hclr Hwvr Hw2).
          rewrite Hd2, Hd1 in Hrest. specialize (Hrest (dbudget_le _ _ _ _ (Nat.le_max_r _ _) Hdb)).
          assert (Hr2' : rest s2 = seq_text false w2 rest0 ++ 93 :: rst) by (rewrite Hr2, seq_text_false; unfold rst1; lnorm; reflexivity).
          assert (Hf2 : (D + sfuel rest0 <= f)%nat) by (clear - Hfuel; lia). specialize (Hrest Hr2' Hf2 Hfv).
          destruct (seq_tuple (de_value_owned fv cf fx) ts' vs0) as [[ds rem]| | |]; cbn [vbind]; try contradiction.
          -- destruct Hrest as (ds' & s3 & first' & wl & es' & He & Hu & Hwl & Hr3 & Hd3 & Hwf' & Hrem).
             rewrite He. cbn [tbind]. exists (d' :: ds'), s3, first', wl, es'. split; [reflexivity|]. cbn [map]. rewrite Hud, Hu.
             split; [reflexivity|]. split; [exact Hwl|]. split; [exact Hr3|]. split; [congruence|]. split; [exact Hwf'|exact Hrem].
          -- intros a s'. destruct (de_tuple f E ts' false s2) as [[ds' s3]| | | |] eqn:He; cbn [tbind]; try discriminate.
             intros [= _ <-]. exact (Hrest _ _ eq_refl).
        * intros a s'. destruct (de_typed f E t s1) as [[d' s2]| | | |] eqn:Hv; cbn [tbind]; try discriminate.
          specialize (Hel _ _ eq_refl).
          destruct (de_tuple f E ts' false s2) as [[ds' s3]| | | |] eqn:He; cbn [tbind]; try discriminate.
          intros [= _ <-]. exact (de_tuple_stuck cf f ts' s2 Hel _ _ He).
  Qed.

  (* `[` elements `]` read by a fixed-length visitor: visit_array(_owned) against a `[`-frame over de_tuple *)
  Lemma tuple_array (C : list dval -> dval) ts w0 es l f fv s s1 s2 rst D :
    (forall a b, map unborrow a = map unborrow b -> unborrow (C a) = unborrow (C b)) ->
    (forall t, In t ts -> agree_at2 t /\ (ty_depth t <= D)%nat) ->
    ws_ok w0 = true -> wfb_elems es = true -> denote_elems cf es = Some l -> shp2_elems es l -> claim_list (claim_ap fx fv) ts l = true ->
    forallb (wf_value cf) l = true ->
    dbudget cf (cdepth (CArr w0 es)) (depth s) -> enter E s1 = Ok s2 -> rest (discard s2) = seq_text true w0 es ++ 93 :: rst ->
    depth s1 = depth s -> depth (discard s2) = (if limit_disabled cf then depth s else depth s - 1) ->
    dbudget cf (cdepth_elems es) (depth (discard s2)) ->
    (D + sfuel es <= f)%nat -> (D < fv)%nat ->
    okrel2 unborrow (vmap C (visit_array_owned l (seq_tuple (de_value_owned fv cf fx) ts)))
                    (tmap C (fix_position E (frame E end_seq end_seq_st (fun s' => de_tuple f E ts true s') s1))) s rst.
  Proof.
    intros HC HIH Hw0 Hwfe Hde Hsh Hcl Hwv Hdb Hen Hrb Hd1 Hd2 Hdb2 Hf1 Hf2.
    assert (Hloop := tuple_agree2 ts es l f fv true (discard s2) w0 rst D HIH Hwfe Hde Hsh Hcl Hwv Hw0 Hdb2 Hrb Hf1 Hf2).
    unfold visit_array_owned.
    destruct (seq_tuple (de_value_owned fv cf fx) ts l) as [[ds rem]| | |]; cbn [vbind vmap]; try contradiction.
    - destruct Hloop as (ds' & s3 & first' & wl & es' & He & Hu & Hwl & Hr3 & Hd3 & Hwf' & Hrem).
      destruct rem as [|x rem]; unfold verr; cbn [vbind vmap].
      + assert (Hes' : es' = ENil) by (apply Hrem; reflexivity). subst es'. cbn [seq_text] in Hr3.
        destruct (close_frame cf end_seq end_seq_st 93 (fun s' => de_tuple f E ts true s') (cdepth_elems es) s s1 s2 ds' s3 wl rst
                    (closes_seq cf) eq_refl Hdb Hen Hd1 Hd2 He Hwl Hr3 Hd3) as (s5 & Hfr & Hr5 & Hd5).
        rewrite Hfr. cbn [fix_position tmap tbind okrel2]. exists (C ds'), s5. split; [reflexivity|]. split; [apply HC, Hu|]. auto.
      + apply okrel2_not_ok. apply tmap_not_ok'. intros a. apply fix_position_not_ok.
        apply (frame_blocked' cf _ _ _ s1 s2 ds' s3 Hen He).
        intros s4 s5 Hr4. apply (end_seq_blocked' cf first' wl es' rst s4 Hwl Hwf').
        * intros Hn. apply Hrem in Hn. discriminate Hn.
        * rewrite Hr4. exact Hr3.
    - apply okrel2_not_ok. apply tmap_not_ok'. intros a. apply fix_position_not_ok.
      destruct (de_tuple f E ts true (discard s2)) as [[ds' s3]| | | |] eqn:He.
      + apply (frame_blocked' cf _ _ _ s1 s2 ds' s3 Hen He). intros s4 s5 Hr4. apply end_seq_stuck. rewrite Hr4. exact (Hloop _ _ eq_refl).
      + apply (frame_fail cf _ _ _ s1 s2 Hen). rewrite He. discriminate.
      + apply (frame_fail cf _ _ _ s1 s2 Hen). rewrite He. discriminate.
      + apply (frame_fail cf _ _ _ s1 s2 Hen). rewrite He. discriminate.
      + apply (frame_fail cf _ _ _ s1 s2 Hen). rewrite He. discriminate.
  Qed.

  Lemma agree_tuple_gen2 t ts : t = TTuple ts \/ t = TTupleStruct ts -> (forall t', In t' ts -> agree_at2 t') -> agree_at2 t.
  Proof.
    intros Ht HIH.
    assert (Hd : ty_depth t = S (lmax_depth ts)) by (destruct Ht; subst; apply ty_depth_tuple).
    assert (Hv : forall fv v, de_value_owned (S fv) cf fx t v
                 = match v with VArr l => vmap DSeq (visit_array_owned l (seq_tuple (de_value_owned fv cf fx) ts)) | _ => verr MInvalidType end)
      by (intros; destruct Ht; subst; reflexivity).
    assert (Ht' : forall f s, de_typed (S f) E t s = tmap DSeq (deserialize_seq E (fun s' => de_tuple f E ts true s') s))
      by (intros; destruct Ht; subst; reflexivity).
    assert (Hrej : forall b, b <> 91 -> rejects t b) by (intros; destruct Ht; subst; assumption).
    assert (Hcl' : forall fv l, claim_ap fx (S fv) t (VArr l) = claim_list (claim_ap fx fv) ts l) by (intros; destruct Ht; subst; reflexivity).
    intros c v fuel fv s w rst Hwf Hden Hsh Hcl Hwv Hw Hfol Hdb Hr Hfuel Hfv. rewrite Hd in Hfuel, Hfv.
    destruct fuel as [|f]; [lia|]. destruct fv as [|fv]; [lia|].
    destruct (render_first c Hwf) as (b & r & Hren & Hbws & _).
    pose proof Hr as Hr0. rewrite Hren in Hr. revert Hr. lnorm. intros Hr.
    destruct (first_not c b r Hwf Hren) as (_ & Hn91 & _).
    rewrite Hv.
    destruct c as [| | |n|ps|w0 es|w0 ms]; destruct v as [|[|]| | |l|]; cbn [shape2 shape] in Hsh; try discriminate Hsh; try contradiction;
      unfold verr.
    all: try (apply okrel2_not_ok; intros a0; apply (reject_not_ok cf t f s w b (r ++ rst) Hw Hbws Hr); apply Hrej, Hn91; intros; discriminate).
    cbn [wfb denote] in Hwf, Hden. apply andb_prop in Hwf as [Hw0 Hwfe].
    destruct (denote_elems cf es) as [l'|] eqn:Hde; [|discriminate Hden]. injection Hden as <-.
    rewrite render_arr in Hr0. revert Hr0. lnorm. intros Hr0.
    destruct (open_frame cf 91 _ (cdepth_elems es) s w Hw eq_refl Hr0 Hdb) as (s1 & s2 & Hpw & Hen & Hrb & Hd1 & Hd2 & Hdb2).
    rewrite Ht'. unfold deserialize_seq. rewrite Hpw. cbn [lift tbind]. change (91 =? 91) with true. cbv iota.
    rewrite Hcl' in Hcl. cbn [vfuel] in Hfuel. cbn [wf_value] in Hwv.
    apply (tuple_array DSeq ts w0 es l' f fv s s1 s2 rst (lmax_depth ts)); try assumption; [| |clear - Hfuel; lia|clear - Hfv; lia].
    - intros a b' Hab. cbn [unborrow]. rewrite Hab. reflexivity.
    - intros t' Hin. split; [apply HIH, Hin|apply lmax_depth_in', Hin].
  Qed.

  (* ---- objects: the entries of the Value's Map are the members of the tree, in order ------------------------------------------- *)
  Lemma members_keys ms : forall l m, denote_members cf ms = Some l -> shp2_members ms m ->
    forallb (fun kv => utf8_valid (fst kv) && wf_value cf (snd kv)) m = true -> map fst l = map fst m.
  Proof.
    induction ms as [|w1 k w2 w3 c w4 rest0 IH]; intros l m Hden Hsh Hwv.
    - cbn [denote_members] in Hden. injection Hden as <-. destruct m; [reflexivity|contradiction].
    - destruct m as [|kv m']; [contradiction|]. cbn [shape2_members] in Hsh. destruct Hsh as (Hk & _ & Hshr).
      cbn [forallb] in Hwv. apply andb_prop in Hwv as [Hkv Hwvr]. apply andb_prop in Hkv as [Hu _].
      cbn [denote_members] in Hden. subst k. rewrite (str_text_pieces _ Hu) in Hden.
      destruct (denote cf c); [|discriminate]. destruct (denote_members cf rest0) as [vs0|] eqn:Hdr; [|discriminate].
      injection Hden as <-. cbn [map fst]. f_equal. apply (IH vs0 m' eq_refl Hshr Hwvr).
  Qed.

  Lemma obj_members w0 ms m : denote cf (CObj w0 ms) = Some (VObj m) -> shp2_members ms m -> wf_value cf (VObj m) = true ->
    denote_members cf ms = Some m.
  Proof.
    intros Hden Hsh Hwv. cbn [denote] in Hden. destruct (denote_members cf ms) as [l|] eqn:Hdm; [|discriminate]. cbn [option_map] in Hden.
    injection Hden as Hm. cbn [wf_value] in Hwv. apply andb_prop in Hwv as [Hwe Hk].
    pose proof (members_keys ms l m Hdm Hsh Hwe) as Hkeys.
    rewrite map_of_entries_id in Hm by (rewrite Hkeys; exact Hk). subst l. reflexivity.
  Qed.

  (* ---- maps ---------------------------------------------------------------------------------------------------------------------- *)
  Definition ubkv (kv : dval * dval) : dval * dval := (unborrow (fst kv), unborrow (snd kv)).

  Definition entries_rel2 (k : kty) (t1 : ty) : Prop := forall ms m fuel fv first s wp rst,
    wfb_members ms = true -> denote_members cf ms = Some m -> shp2_members ms m ->
    forallb (fun kv => claim_ap fx fv t1 (snd kv)) m = true ->
    forallb (fun kv => utf8_valid (fst kv) && wf_value cf (snd kv)) m = true -> ws_ok wp = true ->
    dbudget cf (cdepth_members ms) (depth s) -> rest s = map_text first wp ms ++ 125 :: rst ->
    (Nat.max (kty_depth k) (ty_depth t1) + mfuel ms <= fuel)%nat -> (ty_depth t1 < fv)%nat ->
    match map_all (de_value_key cf false k) (de_value_owned fv cf fx t1) m with
    | VOk (es, rem) => rem = [] /\ exists es' s' wl, de_entries fuel E k t1 first s = TOk (es', s') /\ map ubkv es' = map ubkv es
                         /\ ws_ok wl = true /\ rest s' = wl ++ 125 :: rst /\ depth s' = depth s
    | VErr _ _ _ => not_ok (de_entries fuel E k t1 first s)
    | _ => False
    end.

  Lemma entries_agree2 k t1 : agree_kty k = true -> agree_at2 t1 -> entries_rel2 k t1.
  Proof.
    intros Hk IH ms. induction ms as [|w1 kp w2 w3 c w4 rest0 IHr]; intros m fuel fv first s wp rst Hwf Hden Hsh Hcl Hwvl Hwp Hdb Hr Hfuel Hfv.
    - cbn [denote_members] in Hden. injection Hden as <-. cbn [map_all]. split; [reflexivity|].
      cbn [mfuel] in Hfuel. destruct fuel as [|f]; [lia|]. cbn [map_text] in Hr.
      rewrite de_entries_S, (hnk_fwd_none cf first s rst). 2:{ rewrite Hr. now apply skipws_to. }
      cbn [lift tbind]. exists [], s, wp. auto.
    - cbn [mfuel] in Hfuel. destruct fuel as [|f]; [lia|].
      cbn [wfb_members] in Hwf. apply andb_prop in Hwf as [Hwf Hwfr]. apply andb_prop in Hwf as [Hwf Hw4].
      apply andb_prop in Hwf as [Hwf Hwfc]. apply andb_prop in Hwf as [Hwf Hw3]. apply andb_prop in Hwf as [Hwf Hw2].
      apply andb_prop in Hwf as [Hw1 Hkok].
      cbn [denote_members] in Hden. destruct (str_text kp) as [kb|] eqn:Hkt; [|discriminate].
      destruct (denote cf c) as [v|] eqn:Hdc; [|discriminate].
      destruct (denote_members cf rest0) as [vs0|] eqn:Hdr; [|discriminate]. injection Hden as <-.
      cbn [shape2_members fst snd] in Hsh. destruct Hsh as (Hkp & Hshc & Hshr).
      cbn [forallb fst snd] in Hwvl, Hcl. apply andb_prop in Hwvl as [Hwvc Hwvr]. apply andb_prop in Hwvc as [Hu Hwvc].
      apply andb_prop in Hcl as [Hclc Hclr].
      cbn [cdepth_members] in Hdb.
      destruct (hnk_step cf first s wp w1 kp w2 w3 c w4 rest0 rst Hwp Hw1 Hr) as (s1 & Hh & Hs1 & Hd1).
      set (rst1 := w4 ++ tail_members rest0 ++ 125 :: rst) in *.
      set (rstk := w2 ++ 58 :: w3 ++ render c ++ rst1) in *.
      rewrite de_entries_S, Hh. cbn [lift tbind map_all].
      subst kp. change (flat_map render_piece (pieces_of kb)) with (Lk kb) in Hs1.
      assert (Hfk : (kty_depth k <= f)%nat) by (clear - Hfuel; lia).
      assert (Hkey := key_agree cf k kb f s1 rstk Hk Hu Hs1 Hfk).
      destruct (de_value_key cf false k kb) as [kd| | |]; cbn [okrel vbind] in Hkey |- *; try contradiction.
      + destruct Hkey as (kd' & s2 & Hkt2 & Hukd & Hr2 & Hd2). rewrite Hkt2. cbn [tbind].
        destruct (colon_step cf s2 w2 (w3 ++ render c ++ rst1) Hw2 Hr2) as (s3 & Hcol & Hr3 & Hd3).
        rewrite Hcol. cbn [lift tbind].
        assert (Hel := IH c v f fv s3 w3 rst1 Hwfc Hdc Hshc Hclc Hwvc Hw3 (follow_members_tail w4 rest0 rst Hw4)).
        rewrite Hd3, Hd2, Hd1 in Hel. specialize (Hel (dbudget_le _ _ _ _ (Nat.le_max_l _ _) Hdb) Hr3).
        assert (Hf1 : (ty_depth t1 + vfuel c <= f)%nat) by (clear - Hfuel; lia). specialize (Hel Hf1 Hfv).
        destruct (de_value_owned fv cf fx t1 v) as [d| | |]; cbn [okrel2 vbind] in Hel |- *; try contradiction.
        * destruct Hel as (d' & s4 & Hv & Hud & Hr4 & Hd4). rewrite Hv. cbn [tbind].
          assert (Hrest := IHr vs0 f fv false s4 w4 rst Hwfr eq_refl Hshr Hclr Hwvr Hw4).
          rewrite Hd4, Hd3, Hd2, Hd1 in Hrest. specialize (Hrest (dbudget_le _ _ _ _ (Nat.le_max_r _ _) Hdb)).
          assert (Hr4' : rest s4 = map_text false w4 rest0 ++ 125 :: rst) by (rewrite Hr4, map_text_false; unfold rst1; lnorm; reflexivity).
          assert (Hf2 : (Nat.max (kty_depth k) (ty_depth t1) + mfuel rest0 <= f)%nat) by (clear - Hfuel; lia).
          specialize (Hrest Hr4' Hf2 Hfv).
          destruct (map_all (de_value_key cf false k) (de_value_owned fv cf fx t1) vs0) as [[es rem]| | |]; cbn [vbind]; try contradiction.
          -- destruct Hrest as (-> & es' & s5 & wl & He & Hu5 & Hwl & Hr5 & Hd5). split; [reflexivity|].
             rewrite He. cbn [tbind]. exists ((kd', d') :: es'), s5, wl. split; [reflexivity|]. cbn [map]. rewrite Hu5.
             unfold ubkv at 1 3. cbn [fst snd]. rewrite Hukd, Hud.
             split; [reflexivity|]. split; [exact Hwl|]. split; [exact Hr5|]. congruence.
          -- intros a. destruct (de_entries f E k t1 false s4) as [[es' s5]| | | |] eqn:He; cbn [tbind]; try discriminate.
             exfalso. exact (Hrest _ eq_refl).
        * intros a. destruct (de_typed f E t1 s3) as [[d' s4]| | | |] eqn:Hv; cbn [tbind]; try discriminate.
          specialize (Hel _ _ eq_refl).
          destruct (de_entries f E k t1 false s4) as [[es' s5]| | | |] eqn:He; cbn [tbind]; try discriminate.
          exfalso. exact (de_entries_stuck cf f k t1 s4 Hel _ He).
      + intros a. destruct (de_key f E k s1) as [[kd' s2]| | | |] eqn:Hkt2; cbn [tbind]; try discriminate.
        exfalso. exact (Hkey _ eq_refl).
  Qed.

  Lemma agree_map2 k t1 : agree_kty k = true -> agree_at2 t1 -> agree_at2 (TMap k t1).
  Proof.
    intros Hk IH c v fuel fv s w rst Hwf Hden Hsh Hcl Hwv Hw Hfol Hdb Hr Hfuel Hfv.
    destruct fuel as [|f]; [cbn [ty_depth] in Hfuel; lia|]. destruct fv as [|fv]; [cbn [ty_depth] in Hfv; lia|].
    destruct (render_first c Hwf) as (b & r & Hren & Hbws & _).
    pose proof Hr as Hr0. rewrite Hren in Hr. revert Hr. lnorm. intros Hr.
    destruct (first_not c b r Hwf Hren) as (_ & _ & Hn123 & _).
    destruct c as [| | |n|ps|w0 es|w0 ms]; destruct v as [|[|]| | | |m]; cbn [shape2 shape] in Hsh; try discriminate Hsh; try contradiction;
      cbn [de_value_owned]; unfold verr.
    all: try (apply okrel2_not_ok; apply tmap_not_ok'; apply (reject_map cf _ s w b (r ++ rst) Hw Hbws Hr); apply Hn123; intros; discriminate).
    pose proof (obj_members w0 ms m Hden Hsh Hwv) as Hdm.
    cbn [wfb] in Hwf. apply andb_prop in Hwf as [Hw0 Hwfm].
    rewrite render_obj in Hr0. revert Hr0. lnorm. intros Hr0.
    destruct (open_frame cf 123 _ (cdepth_members ms) s w Hw eq_refl Hr0 Hdb) as (s1 & s2 & Hpw & Hen & Hrb & Hd1 & Hd2 & Hdb2).
    cbn [de_typed]. unfold deserialize_map. rewrite Hpw. cbn [lift tbind]. change (123 =? 123) with true. cbv iota.
    cbn [ty_depth vfuel] in Hfuel, Hfv. cbn [claim_ap] in Hcl. cbn [wf_value] in Hwv. apply andb_prop in Hwv as [Hwe Hkeys].
    assert (Hf1 : (Nat.max (kty_depth k) (ty_depth t1) + mfuel ms <= f)%nat) by (clear - Hfuel; lia).
    assert (Hf2 : (ty_depth t1 < fv)%nat) by (clear - Hfv; lia).
    assert (Hloop := entries_agree2 k t1 Hk IH ms m f fv true (discard s2) w0 rst Hwfm Hdm Hsh Hcl Hwe Hw0 Hdb2 Hrb Hf1 Hf2).
    unfold map_any_owned.
    destruct (map_all (de_value_key cf false k) (de_value_owned fv cf fx t1) m) as [[es rem]| | |]; cbn [vbind vmap]; try contradiction.
    - destruct Hloop as (-> & es' & s3 & wl & He & Hu & Hwl & Hr3 & Hd3). cbn [vbind vmap okrel2].
      destruct (close_frame cf end_map end_map_st 125 (fun s' => de_entries f E k t1 true s') (cdepth_members ms) s s1 s2 es' s3 wl rst
                  (closes_map cf) eq_refl Hdb Hen Hd1 Hd2 He Hwl Hr3 Hd3) as (s5 & Hfr & Hr5 & Hd5).
      rewrite Hfr. cbn [fix_position tmap tbind]. exists (DMap es'), s5. split; [reflexivity|].
      split; [cbn [unborrow]; f_equal; exact Hu|]. auto.
    - apply okrel2_not_ok. apply tmap_not_ok'. intros a. apply fix_position_not_ok. apply (frame_fail cf _ _ _ s1 s2 Hen). exact Hloop.
  Qed.

End Agree2Any.

(* ================================================================================================================================
   4. The leaves of this build in tree form, and ByteBuf
   ================================================================================================================================ *)
Section LeavesPlain.
  Variable NR : numlit -> num -> Prop.
  Variable cf : cfg.
  Variable fx : fenv.
  Local Notation agree_at2k := (agree_at2k NR cf fx).

  (* bool, unit, unit struct, String, char, IgnoredAny: any configuration *)
  Definition plain_leaf (t : ty) : bool :=
    match t with TBool | TUnit | TUnitStruct | TStr | TChar | TIgnored => true | _ => false end.

  Lemma agree_plain_ap k t : plain_leaf t = true -> agree_at2k k t.
  Proof.
    intros Ht. apply agree_at_2k. destruct t; try discriminate Ht.
    - apply agree_ignored.
    - apply agree_bool.
    - apply agree_char.
    - apply agree_str.
    - apply (agree_unit_gen cf fx TUnit). left. reflexivity.
    - apply (agree_unit_gen cf fx TUnitStruct). right. reflexivity.
  Qed.
End LeavesPlain.

Section LeavesAp.
  Variable NR : numlit -> num -> Prop.
  Variable cf : cfg.
  Variable fx : fenv.
  Hypothesis Hap : arbitrary_precision cf = true.
  Local Notation E := (mkEnv RSlice TEof cf).
  Local Notation shp2 := (shape2 NR).
  Local Notation agree_at2k := (agree_at2k NR cf fx).
  Local Notation agree_at2 := (agree_at2 NR cf fx).

  (* a numeric request on a first byte that starts no number *)
  Definition numeric_ty (t : ty) : bool := match t with TInt _ | TF64 => true | _ => false end.

  Lemma numeric_reject t f s w b r : numeric_ty t = true -> ws_ok w = true -> ws_byte b = false -> rest s = w ++ b :: r ->
    b <> 45 -> is_digit b = false -> not_ok (de_typed (S f) E t s).
  Proof.
    intros Ht Hw Hb Hr H45 Hd. destruct t as [| | | |it| | | | | | | | |t1|t1|t1|ts|ts|kk t1|fs|vs]; try discriminate Ht.
    - destruct (is_128 it) eqn:H128.
      + destruct s as [r0 o p d]. cbn [rest] in Hr. subst r0. apply int128_reject; assumption.
      + intros a. apply (reject_not_ok cf (TInt it) f s w b r Hw Hb Hr). cbn [rejects]. auto.
    - intros a. apply (reject_not_ok cf TF64 f s w b r Hw Hb Hr). cbn [rejects]. auto.
  Qed.

  Lemma numeric_on_other t fv v : numeric_ty t = true -> (forall num, v <> VNum num) ->
    de_value_owned (S fv) cf fx t v = verr MInvalidType.
  Proof.
    intros Ht Hv. destruct t; try discriminate Ht; cbn [de_value_owned]; unfold value_number_owned; rewrite Hap;
      destruct v; try reflexivity; exfalso; eapply Hv; reflexivity.
  Qed.

  (* from the literal form (Proofs/ValueDeAgreeAp.v num_agree) to the tree form: a number node denotes its own literal (C20) *)
  Lemma agree_numeric_ap k t : numeric_ty t = true -> num_agree cf fx t -> agree_at2k k t.
  Proof.
    intros Ht Hnum c v fuel fv s w rst Hwf Hden Hsh Hcl Hwv Hw Hfol Hdb Hr Hfuel Hfv.
    assert (Hd : ty_depth t = 1%nat) by (destruct t; try discriminate Ht; reflexivity). rewrite Hd in Hfuel, Hfv.
    destruct (render_first c Hwf) as (b & r & Hren & Hbws & Hkind).
    destruct c as [| | |n|ps|w0 es|w0 ms].
    4:{ cbn [wfb denote] in Hwf, Hden. rewrite (num_den_verbatim cf n Hap Hwf) in Hden. injection Hden as <-. cbn [render] in Hr.
        apply (Hnum n fuel fv s w rst Hwf Hw Hfol Hr); [rewrite Hd; clear - Hfuel; lia|rewrite Hd; clear - Hfv; lia|exact Hcl]. }
    all: destruct fuel as [|f]; [clear - Hfuel; lia|]; destruct fv as [|fv]; [clear - Hfv; lia|].
    all: pose proof (shape2_shape NR _ v Hsh) as Hsh1.
    all: rewrite (numeric_on_other t fv v Ht) by (intros num Hv; subst v; cbn [shape] in Hsh1; discriminate Hsh1).
    all: unfold verr; apply okrel2_not_ok; rewrite Hren in Hr; revert Hr; lnorm; intros Hr.
    all: apply (numeric_reject t f s w b (r ++ rst) Ht Hw Hbws Hr).
    all: first [destruct Hkind as [Hk _]; subst b | subst b]; first [discriminate|reflexivity].
  Qed.

  Lemma agree_int_ap k (it : Ty.intty) : agree_at2k k (TInt it).
  Proof. apply agree_numeric_ap; [reflexivity|apply num_agree_int, Hap]. Qed.

  Lemma agree_f64_ap k : float_roundtrip cf = true -> agree_at2k k TF64.
  Proof. intros Hfr. apply agree_numeric_ap; [reflexivity|apply num_agree_f64; assumption]. Qed.

  (* T = Value: the Value visitor re-spells (F19): agreement on canonical Values without a private-token object *)
  Lemma agree_value_ap k : agree_at2k k TValue.
  Proof.
    intros c v fuel fv s w rst Hwf Hden Hsh Hcl Hwv Hw Hfol Hdb Hr Hfuel Hfv.
    cbn [ty_depth] in Hfuel, Hfv. destruct fuel as [|f]; [clear - Hfuel; lia|]. destruct fv as [|fv]; [clear - Hfv; lia|].
    cbn [claim_ap] in Hcl. apply andb_prop in Hcl as [HT HC].
    cbn [de_value_owned de_typed]. rewrite (value_of_value_respell cf fx Hap v Hwv HT), (proj2 (respell_id_iff fx v) HC).
    cbn [vmap vbind okrel2].
    destruct (complete_value_any cf c f s w rst v) as (s' & Hp & Hr' & Hd'); try assumption; [clear - Hfuel; lia|].
    rewrite Hp. cbn [lift tbind]. eexists. eexists. split; [reflexivity|]. split; [reflexivity|]. split; assumption.
  Qed.

  (* ---- ByteBuf (script of Proofs/ValueDeAgreeMisc.v agree_bytes2) ------------------------------------------------------------------ *)
  Lemma okrel2_fix r (tr : tres (dval * st)) s rst : okrel2 unborrow r tr s rst -> okrel2 unborrow r (fix_position E tr) s rst.
  Proof.
    unfold okrel2. destruct r; try tauto; destruct tr; cbn [fix_position]; try tauto.
    - intros (d' & s' & Heq & _). discriminate Heq.
    - intros _ d' s' Heq. discriminate Heq.
  Qed.

  Lemma claimb_int fv x : claim_ap fx fv (TInt Ty.U8) x = true.
  Proof. destruct fv; [reflexivity|]. cbn [claim_ap]. destruct x as [| |[| | |lit]| | |]; reflexivity. Qed.

  Lemma agree_bytes2 : agree_at2 TBytes.
  Proof.
    intros c v fuel fv s w rst Hwf Hden Hsh Hcl Hwv Hw Hfol Hdb Hr Hfuel Hfv. cbn [ty_depth] in Hfuel, Hfv.
    destruct fuel as [|f]; [lia|]. destruct fv as [|fv]; [lia|].
    destruct (render_first c Hwf) as (b & r & Hren & Hbws & Hkind).
    pose proof Hr as Hr0. rewrite Hren in Hr. revert Hr. lnorm. intros Hr.
    destruct (first_not c b r Hwf Hren) as (_ & Hn91 & _ & Hn34 & _).
    destruct (pws_head cf s w b (r ++ rst) Hw Hbws Hr) as (s1 & Hpw & Hr1 & Hd1).
    cbn [de_typed]. rewrite Hpw. cbn [lift tbind].
    destruct c as [| | |n|ps|w0 es|w0 ms]; destruct v as [|[|]| |sv|l|m]; cbn [shape2 shape] in Hsh; try discriminate Hsh; try contradiction;
      cbn [de_value_owned]; unfold verr.
    all: try (apply okrel2_not_ok; intros a0; apply fix_position_not_ok;
              assert (H34 : b <> 34) by (apply Hn34; intros; discriminate);
              assert (H91 : b <> 91) by (apply Hn91; intros; discriminate);
              apply N.eqb_neq in H34, H91; rewrite H34, H91; apply pit_not_ok).
    - (* a string *)
      destruct Hkind as [-> ->]. change (34 =? 34) with true. cbv iota.
      cbn [wfb denote] in Hwf, Hden. unfold str_text in Hden. destruct (str_decode ps) as [b0|] eqn:Hdec; [|discriminate Hden].
      destruct (utf8_valid b0); [|discriminate Hden]. cbn [option_map] in Hden. injection Hden as <-.
      unfold discard. rewrite Hr1. cbn [tl]. rewrite <- app_assoc. cbn [app].
      rewrite (StrEscapeBytes.parse_str_raw_complete cf ps rst (S (off s1)) false (depth s1) (StrEscapeBytes.str_ok_raw_of_ok ps Hwf)).
      cbn [lift tbind fix_position okrel2]. eexists. eexists. split; [reflexivity|].
      split; [cbn [unborrow]; f_equal; exact (StrEscapeBytes.str_decode_wtf8_text (length ps) ps (le_n _) b0 Hdec)|].
      split; [reflexivity|exact Hd1].
    - (* an array of u8 *)
      destruct Hkind as [-> ->]. change (91 =? 34) with false. change (91 =? 91) with true. cbv iota.
      apply okrel2_fix. apply (okrel2_depth unborrow _ _ s1 s rst Hd1).
      cbn [wfb denote] in Hwf, Hden. apply andb_prop in Hwf as [Hw0 Hwfe].
      destruct (denote_elems cf es) as [l'|] eqn:Hde; [|discriminate Hden]. injection Hden as <-.
      assert (Hr1' : rest s1 = [] ++ 91 :: seq_text true w0 es ++ 93 :: rst) by (rewrite Hr1; lnorm; reflexivity).
      assert (Hdb1 : dbudget cf (S (cdepth_elems es)) (depth s1)) by (rewrite Hd1; exact Hdb).
      destruct (open_frame cf 91 _ (cdepth_elems es) s1 [] eq_refl eq_refl Hr1' Hdb1) as (s1' & s2 & Hpw' & Hen & Hrb & Hd1' & Hd2 & Hdb2).
      unfold deserialize_seq. rewrite Hpw'. cbn [lift tbind]. change (91 =? 91) with true. cbv iota.
      cbn [vfuel] in Hfuel. cbn [wf_value] in Hwv.
      apply (elems_array NR cf fx 0 (fun ds => DBytes (u8s_of ds)) (TInt U8) w0 es l' f fv s1 s1' s2 rst); try assumption.
      + intros a b' Hab. cbn [unborrow]. f_equal. rewrite <- (u8s_of_ub a), <- (u8s_of_ub b'), Hab. reflexivity.
      + apply agree_int_ap.
      + apply forallb_forall. intros x _. apply claimb_int.
      + cbn [ty_depth]. clear - Hfuel. lia.
      + cbn [ty_depth]. clear - Hfv. lia.
  Qed.
End LeavesAp.

Print Assumptions key_agree.
Print Assumptions agree_map2.
Print Assumptions agree_value_ap.
