(* Proofs/RawAny.v — C19, part 5: a RawValue at ANY position of ANY type program (Model/Ty.v [ty]: array element, map value,
   struct field by name or position, tuple component, Option / newtype wrapper, enum payload, arbitrarily nested), for
   every input and every reader kind:

     every [DRaw span] in the result of the typed deserializer is `render c` for a well-formed tree [c]  (valid JSON: the
     scanner language of C19_scanner_lang), and is a contiguous piece of the input, copied unaltered.

   Method: one induction on fuel over the seven mutually recursive functions of Model/DeTyped.v.  The only producer of
   [DRaw] is [deserialize_raw]; every cursor the deserializer reaches is a suffix of the input (cursor movement facts of
   Proofs/Total.v and Proofs/TypedTotal.v), and on a suffix [deserialize_raw_sound] (Proofs/RawDe.v) applies. *)
From SJ Require Import Base.Bytes Base.Utf8 Base.FloatB Gen.Tables Model.Read Model.Str Model.Num Model.NumF32 Model.Value Model.De
  Model.Ignore Spec.Syntax.
From SJ Require Import Model.Ty Model.DeTyped Model.RawM.
From SJ Require Import Proofs.Total Proofs.TypedTotal Proofs.GrammarIgnore Proofs.RawDe.
Require Import Lia ZifyBool ZifyNat ZifyN.
Open Scope N_scope.

(* ------------------------------------------------------------------------------------------ *)
(** * 1. Inversion helpers *)

Lemma fix_ok {A} E (r : tres A) a : fix_position E r = TOk a -> r = TOk a.
Proof. destruct r; cbn [fix_position]; intros H; try discriminate; exact H. Qed.

Lemma pit_never {A} E s (a : A) : peek_invalid_type E s <> TOk a.
Proof.
  unfold peek_invalid_type.
  destruct (match peek_or_null E s with Ok (b, s') => (b, s') | _ => (0, s) end) as [b s0].
  repeat match goal with
  | |- (if ?c then _ else _) <> _ => destruct c
  | |- tbind (lift ?r) _ <> _ => destruct r as [?| | |]; cbn [lift tbind]; try discriminate
  | |- (let '(_, _) := ?p in _) <> _ => destruct p
  | |- lift (peek_error _ _ _) <> _ => discriminate
  | |- TErr _ _ <> _ => discriminate
  end.
Qed.

Lemma tmap_ok {A B} (f : A -> B) (r : tres (A * st)) b s : tmap f r = TOk (b, s) -> exists a, r = TOk (a, s) /\ b = f a.
Proof.
  unfold tmap. intros H. apply tbind_ok in H as ([a s'] & Hr & H). injection H as <- <-. eauto.
Qed.

(* peel one layer of `let^` / `let+` / fix_position / if / option match off a hypothesis  H : ... = TOk _ *)
Ltac inv H :=
  repeat first
  [ discriminate H
  | apply fix_ok in H
  | (apply tbind_lift_ok in H; let a := fresh "a" in let Ha := fresh "Ha" in destruct H as (a & Ha & H))
  | (apply tbind_ok in H; let a := fresh "a" in let Ha := fresh "Ha" in destruct H as (a & Ha & H))
  | match type of H with (let '(_, _) := ?p in _) = _ => destruct p end
  | match type of H with (match ?o with Some _ => _ | None => _ end) = _ => destruct o end
  | match type of H with (if ?c then _ else _) = _ => destruct c eqn:? end
  | (exfalso; exact (pit_never _ _ _ H))
  | match type of H with lift (peek_error _ _ _) = _ => discriminate H end
  | match type of H with lift (error _ _ _) = _ => discriminate H end
  ].

(* results without any RawValue inside *)
Definition noraw (d : dval) : Prop :=
  match d with
  | DRaw _ | DSome _ | DNewtype _ | DSeq _ | DMap _ | DStruct _ => False
  | DVariant _ DUnit => True
  | DVariant _ _ => False
  | _ => True
  end.

Ltac closeq H := first [ injection H as <- <-; exact I | injection H as <- _; exact I ].

Section Leaves.
Variable E : env.

Lemma bool_noraw s d s1 : deserialize_bool E s = TOk (d, s1) -> noraw d.
Proof. unfold deserialize_bool. intros H. inv H; closeq H. Qed.

Lemma unit_noraw s d s1 : deserialize_unit E s = TOk (d, s1) -> noraw d.
Proof. unfold deserialize_unit. intros H. inv H; closeq H. Qed.

Lemma number_noraw visit s d s1 : (forall p s2 d' s', visit p s2 = TOk (d', s') -> noraw d') ->
  deserialize_number E visit s = TOk (d, s1) -> noraw d.
Proof. intros Hv. unfold deserialize_number. intros H. inv H; eapply Hv; eassumption. Qed.

Lemma number_s_noraw visit s d s1 : (forall p s2 d' s', visit p s2 = TOk (d', s') -> noraw d') ->
  deserialize_number_s E visit s = TOk (d, s1) -> noraw d.
Proof. intros Hv. unfold deserialize_number_s. intros H. inv H; eapply Hv; eassumption. Qed.

Lemma visit_int_noraw t p s2 d' s' : visit_int t p s2 = TOk (d', s') -> noraw d'.
Proof. unfold visit_int. intros H. destruct p; inv H; closeq H. Qed.
Lemma visit_f64_noraw p s2 d' s' : visit_f64 p s2 = TOk (d', s') -> noraw d'.
Proof. unfold visit_f64. intros H. destruct p; inv H; closeq H. Qed.
Lemma visit_f32_noraw p s2 d' s' : visit_f32 p s2 = TOk (d', s') -> noraw d'.
Proof. unfold visit_f32. intros H. destruct p; inv H; closeq H. Qed.

Lemma int_noraw t s d s1 : deserialize_int E t s = TOk (d, s1) -> noraw d.
Proof.
  unfold deserialize_int. intros H.
  destruct t; try (eapply number_noraw; [apply visit_int_noraw|exact H]).
  - unfold deserialize_i128 in H. cbv zeta in H. inv H; closeq H.
  - unfold deserialize_u128 in H. inv H; closeq H.
Qed.

Lemma f32_noraw s d s1 : deserialize_f32 E s = TOk (d, s1) -> noraw d.
Proof.
  unfold deserialize_f32. destruct (float_roundtrip (cf E)); intros H.
  - eapply number_s_noraw; [apply visit_f32_noraw|exact H].
  - eapply number_noraw; [apply visit_f32_noraw|exact H].
Qed.

Lemma f64_noraw s d s1 : deserialize_number E visit_f64 s = TOk (d, s1) -> noraw d.
Proof. apply number_noraw, visit_f64_noraw. Qed.

Lemma str_inv {A} (visit : list N -> bool -> st -> tres A) s a :
  deserialize_str E visit s = TOk a ->
  exists b s1 str bo s2, parse_whitespace E s = Ok (Some b, s1) /\ parse_str E (discard s1) = Ok (str, bo, s2) /\ visit str bo s2 = TOk a.
Proof. unfold deserialize_str. intros H. inv H. eauto 10. Qed.

Lemma str_noraw (visit : list N -> bool -> st -> tres (dval * st)) s d s1 :
  (forall str bo s2 d' s', visit str bo s2 = TOk (d', s') -> noraw d') ->
  deserialize_str E visit s = TOk (d, s1) -> noraw d.
Proof. intros Hv H. apply str_inv in H as (b & s1' & str & bo & s2 & _ & _ & H). eapply Hv; exact H. Qed.

Lemma visit_char_noraw str bo s2 d' s' : visit_char str bo s2 = TOk (d', s') -> noraw d'.
Proof. unfold visit_char. intros H. destruct (one_scalar str); inv H; closeq H. Qed.
Lemma visit_string_noraw str bo s2 d' s' : visit_string str bo s2 = TOk (d', s') -> noraw d'.
Proof. unfold visit_string. intros H. closeq H. Qed.
Lemma visit_borrowed_noraw str bo s2 d' s' : visit_borrowed_only str bo s2 = TOk (d', s') -> noraw d'.
Proof. unfold visit_borrowed_only. intros H. inv H; closeq H. Qed.

Lemma numeric_key_noraw delegate s d s1 : (forall s0 d' s', delegate s0 = TOk (d', s') -> noraw d') ->
  numeric_key E delegate s = TOk (d, s1) -> noraw d.
Proof.
  intros Hd. unfold numeric_key. cbv zeta. intros H. inv H.
  match goal with Hx : delegate _ = TOk _ |- _ => apply Hd in Hx; injection H as <- _; exact Hx end.
Qed.

Lemma key_bool_noraw s d s1 : key_bool E s = TOk (d, s1) -> noraw d.
Proof. unfold key_bool. cbv zeta. intros H. inv H; closeq H. Qed.

Lemma visit_variant_inv {A} (vs : list (list N * A)) str bo s2 name v s3 :
  visit_variant vs str bo s2 = TOk (name, v, s3) -> s3 = s2.
Proof. unfold visit_variant. destruct (index_of str vs) as [[i a]|]; intros H; inv H. now injection H as _ _ <-. Qed.

(* containers: the body runs on a cursor reached by whitespace skipping, `enter` and one discard *)
Lemma frame_inv {A} endf endst (body : st -> tres (A * st)) s1 a s5 :
  frame E endf endst body s1 = TOk (a, s5) -> exists s2 s3, enter E s1 = Ok s2 /\ body (discard s2) = TOk (a, s3).
Proof.
  unfold frame. intros H. apply tbind_lift_ok in H as (s2 & Hen & H).
  destruct (body (discard s2)) as [[a' s3]|c i|kk s'| |] eqn:Hb; inv H.
  injection H as <- _. eauto.
Qed.

Lemma seq_inv {A} (body : st -> tres (A * st)) s a s5 :
  deserialize_seq E body s = TOk (a, s5) ->
  exists b s1 s2 s3, parse_whitespace E s = Ok (Some b, s1) /\ enter E s1 = Ok s2 /\ body (discard s2) = TOk (a, s3).
Proof.
  unfold deserialize_seq. intros H. apply tbind_lift_ok in H as ([o s1] & Hpw & H). destruct o as [b|]; [|discriminate H].
  apply fix_ok in H. destruct (b =? 91); [|exfalso; exact (pit_never _ _ _ H)].
  apply frame_inv in H as (s2 & s3 & H1 & H2). eauto 10.
Qed.

Lemma map_inv {A} (body : st -> tres (A * st)) s a s5 :
  deserialize_map E body s = TOk (a, s5) ->
  exists b s1 s2 s3, parse_whitespace E s = Ok (Some b, s1) /\ enter E s1 = Ok s2 /\ body (discard s2) = TOk (a, s3).
Proof.
  unfold deserialize_map. intros H. apply tbind_lift_ok in H as ([o s1] & Hpw & H). destruct o as [b|]; [|discriminate H].
  apply fix_ok in H. destruct (b =? 123); [|exfalso; exact (pit_never _ _ _ H)].
  apply frame_inv in H as (s2 & s3 & H1 & H2). eauto 10.
Qed.

Lemma struct_inv {A} (body_seq body_map : st -> tres (A * st)) s a s5 :
  deserialize_struct E body_seq body_map s = TOk (a, s5) ->
  exists b s1 s2 s3, parse_whitespace E s = Ok (Some b, s1) /\ enter E s1 = Ok s2
    /\ (body_seq (discard s2) = TOk (a, s3) \/ body_map (discard s2) = TOk (a, s3)).
Proof.
  unfold deserialize_struct. intros H. apply tbind_lift_ok in H as ([o s1] & Hpw & H). destruct o as [b|]; [|discriminate H].
  apply fix_ok in H. destruct (b =? 91).
  - apply frame_inv in H as (s2 & s3 & H1 & H2). eauto 12.
  - destruct (b =? 123); [|exfalso; exact (pit_never _ _ _ H)].
    apply frame_inv in H as (s2 & s3 & H1 & H2). eauto 12.
Qed.

Lemma enum_inv {A} (body_map body_unit : st -> tres (A * st)) s a s5 :
  deserialize_enum E body_map body_unit s = TOk (a, s5) ->
  exists b s1, parse_whitespace E s = Ok (Some b, s1)
    /\ ((exists s2 s3, enter E s1 = Ok s2 /\ body_map (discard s2) = TOk (a, s3)) \/ body_unit s1 = TOk (a, s5)).
Proof.
  unfold deserialize_enum. intros H. apply tbind_lift_ok in H as ([o s1] & Hpw & H). destruct o as [b|]; [|discriminate H].
  exists b, s1. split; [exact Hpw|].
  destruct (b =? 123).
  - left. apply tbind_lift_ok in H as (s2 & Hen & H). exists s2.
    destruct (body_map (discard s2)) as [[a' s3]|c i|kk s'| |] eqn:Hb; inv H.
    injection H as <- _. eauto.
  - destruct (b =? 34); [right; exact H|discriminate H].
Qed.
End Leaves.

(* ------------------------------------------------------------------------------------------ *)
(** * 2. The invariant and the main induction *)
Section Any.
Variable k : rkind.
Variable cf : cfg.
Variable bs : list N.                         (* the whole input *)
Hypothesis Fbs : Forall (fun b => b < 256) bs.
Notation E := (mkEnv k TEof cf).

(* a captured text: valid JSON, and a contiguous piece of the input *)
Definition span_ok (b : list N) : Prop := exists c a z, wfb c = true /\ b = render c /\ bs = a ++ b ++ z.

Fixpoint raws_in (d : dval) : Prop :=
  match d with
  | DRaw b => span_ok b
  | DSome x | DNewtype x | DVariant _ x => raws_in x
  | DSeq l | DStruct l => (fix all (l : list dval) : Prop := match l with [] => True | x :: r => raws_in x /\ all r end) l
  | DMap l => (fix allp (l : list (dval * dval)) : Prop :=
                 match l with [] => True | p :: r => raws_in (fst p) /\ raws_in (snd p) /\ allp r end) l
  | _ => True
  end.

Lemma raws_in_seq l : raws_in (DSeq l) <-> Forall raws_in l.
Proof.
  cbn [raws_in]. induction l as [|x l IH]; [split; auto|]. rewrite IH. split.
  - intros [H1 H2]. constructor; assumption.
  - intros H. inversion H; subst. auto.
Qed.
Lemma raws_in_struct l : raws_in (DStruct l) <-> Forall raws_in l.
Proof. exact (raws_in_seq l). Qed.
Lemma raws_in_map l : raws_in (DMap l) <-> Forall (fun p => raws_in (fst p) /\ raws_in (snd p)) l.
Proof.
  cbn [raws_in]. induction l as [|x l IH]; [split; auto|]. rewrite IH. split.
  - intros (H1 & H2 & H3). constructor; auto.
  - intros H. inversion H as [|? ? [H1 H2] H3]; subst. auto.
Qed.

Lemma noraw_raws d : noraw d -> raws_in d.
Proof. destruct d; cbn [noraw raws_in]; try tauto. destruct d; cbn [raws_in]; tauto. Qed.

(* the cursor is at a suffix of the input *)
Definition suf (s : st) : Prop := exists pre, bs = pre ++ rest s.

Lemma suf_adv n s s1 : adv n s s1 -> suf s -> suf s1.
Proof. intros (pre' & Hr & _) (pre & Hb). exists (pre ++ pre'). now rewrite <- app_assoc, <- Hr. Qed.
Lemma suf_advd n s s1 : advd n s s1 -> suf s -> suf s1.
Proof. intros [H _]. exact (suf_adv n s s1 H). Qed.
Lemma suf_rest s s' : rest s' = rest s -> suf s -> suf s'.
Proof. intros Hr (pre & Hb). exists pre. now rewrite Hr. Qed.
Lemma suf_discard s : suf s -> suf (discard s).
Proof.
  intros (pre & Hb). unfold suf, discard. cbn [rest]. destruct (rest s) as [|x r]; cbn [tl].
  - exists pre. exact Hb.
  - exists (pre ++ [x]). now rewrite <- app_assoc.
Qed.
Lemma suf_lt s : suf s -> Forall (fun b => b < 256) (rest s).
Proof. intros (pre & Hb). rewrite Hb in Fbs. exact (Forall_app_r _ _ _ Fbs). Qed.

Lemma suf_pw s o s1 : suf s -> parse_whitespace E s = Ok (o, s1) -> suf s1.
Proof.
  intros Hs H. pose proof (chk_ok _ _ _ _ _ (parse_whitespace_tot E s) H) as [Ha _]. exact (suf_advd _ _ _ Ha Hs).
Qed.
Lemma suf_enter s s2 : suf s -> enter E s = Ok s2 -> suf s2.
Proof.
  intros Hs H. unfold enter in H. destruct (limit_disabled (Read.cf E)); [injection H as <-; exact Hs|].
  destruct (depth s =? 0); [discriminate H|]. cbn [depth] in H. destruct (depth s - 1 =? 0); [discriminate H|].
  injection H as <-. exact (suf_rest s _ eq_refl Hs).
Qed.
Lemma suf_hne first s s1 : suf s -> has_next_element E first s = Ok (Some s1) -> suf s1 /\ rest s1 <> [].
Proof.
  intros Hs H. pose proof (chk_ok _ _ _ _ _ (has_next_element_tot E first s) H) as [Ha Hne]. split; [exact (suf_advd _ _ _ Ha Hs)|exact Hne].
Qed.
Lemma suf_hnk first s s1 : suf s -> has_next_key E first s = Ok (Some s1) -> suf s1 /\ rest s1 <> [].
Proof.
  intros Hs H. pose proof (chk_ok _ _ _ _ _ (has_next_key_tot E first s) H) as [Ha Hne]. split; [exact (suf_advd _ _ _ Ha Hs)|exact Hne].
Qed.
Lemma suf_colon s s1 : suf s -> parse_object_colon E s = Ok s1 -> suf s1.
Proof. intros Hs H. exact (suf_advd _ _ _ (chk_ok _ _ _ _ _ (parse_object_colon_tot E s) H) Hs). Qed.
Lemma suf_parse_str s r : suf s -> parse_str E s = Ok r -> suf (snd r).
Proof. intros Hs H. exact (suf_advd _ _ _ (chk_ok _ _ _ _ _ (parse_str_tot E s) H) Hs). Qed.
Lemma suf_ignore s s1 : suf s -> ignore_value E s = Ok s1 -> suf s1.
Proof. intros Hs H. exact (suf_advd _ _ _ (chk_ok _ _ _ _ _ (ignore_value_tot E s) H) Hs). Qed.
Lemma suf_typed f t s d s1 : suf s -> de_typed f E t s = TOk (d, s1) -> suf s1.
Proof. intros Hs H. exact (suf_advd _ _ _ (de_typed_ok_advd _ _ _ _ _ _ H) Hs). Qed.
Lemma suf_key f kt s d s1 : suf s -> rest s <> [] -> de_key f E kt s = TOk (d, s1) -> suf s1.
Proof.
  intros Hs Hne H.
  pose proof (proj2 (proj2 (proj2 (proj2 (proj2 (proj2 (dt_main E true true f)))))) kt s (or_introl eq_refl)
                (conj Hne (or_introl eq_refl))) as Hc.
  rewrite H in Hc. exact (suf_advd _ _ _ Hc Hs).
Qed.

(* the producer *)
Lemma raw_ok s d s1 : suf s -> deserialize_raw E s = TOk (d, s1) -> raws_in d.
Proof.
  intros Hs H. pose proof Hs as (pre & Hb).
  apply deserialize_raw_sound in H as (w & c & Hr & _ & Hc & -> & _); [|exact (suf_lt s Hs)].
  cbn [raws_in]. exists c, (pre ++ w), (rest s1). split; [exact Hc|split; [reflexivity|]].
  rewrite Hb, Hr. now rewrite <- app_assoc.
Qed.

Definition slot_ok (o : option dval) : Prop := match o with Some d => raws_in d | None => True end.

Lemma finish_ok fields : forall slots s ds, Forall slot_ok slots -> finish_struct fields slots s = TOk ds -> Forall raws_in ds.
Proof.
  induction fields as [|[n t] fields IH]; intros slots s ds Hs H.
  - cbn [finish_struct] in H. injection H as <-. constructor.
  - destruct slots as [|slot slots]; [discriminate H|]. inversion Hs as [|? ? Hslot Hrest]; subst. cbn [finish_struct] in H.
    destruct slot as [d|].
    + apply tbind_ok in H as (ds' & Hf & H). injection H as <-. constructor; [exact Hslot|exact (IH _ _ _ Hrest Hf)].
    + destruct t; try discriminate H. apply tbind_ok in H as (ds' & Hf & H). injection H as <-.
      constructor; [exact I|exact (IH _ _ _ Hrest Hf)].
Qed.

Lemma set_slot_ok d : raws_in d -> forall i slots, Forall slot_ok slots -> Forall slot_ok (set_slot i d slots).
Proof.
  intros Hd. induction i as [|i IH]; intros [|x r] Hs; cbn [set_slot]; try constructor; inversion Hs; subst; auto.
Qed.

Definition pair_ok (p : dval * dval) : Prop := raws_in (fst p) /\ raws_in (snd p).

Lemma any_main : forall fuel,
  (forall t s d s1, suf s -> de_typed fuel E t s = TOk (d, s1) -> raws_in d) /\
  (forall t first s l s1, suf s -> de_elems fuel E t first s = TOk (l, s1) -> Forall raws_in l) /\
  (forall ts first s l s1, suf s -> de_tuple fuel E ts first s = TOk (l, s1) -> Forall raws_in l) /\
  (forall kt v first s l s1, suf s -> de_entries fuel E kt v first s = TOk (l, s1) -> Forall pair_ok l) /\
  (forall fields slots first s l s1, suf s -> Forall slot_ok slots ->
     de_fields fuel E fields slots first s = TOk (l, s1) -> Forall raws_in l) /\
  (forall fields s d s1, suf s -> de_struct fuel E fields s = TOk (d, s1) -> raws_in d) /\
  (forall kt s d s1, de_key fuel E kt s = TOk (d, s1) -> raws_in d).
Proof.
  induction fuel as [|f IH].
  - repeat split; intros; discriminate.
  - destruct IH as (IHt & IHe & IHtu & IHen & IHf & IHs & IHk).
    assert (Htuple_seq : forall ts s l s5, suf s ->
              deserialize_seq E (fun s' => de_tuple f E ts true s') s = TOk (l, s5) -> Forall raws_in l).
    { intros ts s l s5 Hs H. apply seq_inv in H as (b & s1 & s2 & s3 & Hpw & Hen & Hb).
      eapply IHtu; [|exact Hb]. apply suf_discard. eapply suf_enter; [|exact Hen]. eapply suf_pw; eassumption. }
    split; [|split; [|split; [|split; [|split; [|split]]]]].
    + (* ---------------- de_typed ---------------- *)
      intros t s d s1 Hs H. destruct t.
      * rewrite de_typed_value in H. inv H. injection H as <- _. exact I.
      * rewrite de_typed_ignored in H. inv H. injection H as <- _. exact I.
      * rewrite de_typed_raw in H. exact (raw_ok s d s1 Hs H).
      * rewrite de_typed_bool in H. exact (noraw_raws _ (bool_noraw E _ _ _ H)).
      * rewrite de_typed_int in H. exact (noraw_raws _ (int_noraw E _ _ _ _ H)).
      * rewrite de_typed_f32 in H. exact (noraw_raws _ (f32_noraw E _ _ _ H)).
      * rewrite de_typed_f64 in H. exact (noraw_raws _ (f64_noraw E _ _ _ H)).
      * rewrite de_typed_char in H. exact (noraw_raws _ (str_noraw E _ _ _ _ visit_char_noraw H)).
      * rewrite de_typed_str in H. exact (noraw_raws _ (str_noraw E _ _ _ _ visit_string_noraw H)).
      * rewrite de_typed_borrowed in H. exact (noraw_raws _ (str_noraw E _ _ _ _ visit_borrowed_noraw H)).
      * rewrite de_typed_bytes in H. inv H; injection H as <- _; exact I.
      * rewrite de_typed_unit in H. exact (noraw_raws _ (unit_noraw E _ _ _ H)).
      * rewrite de_typed_unit_struct in H. exact (noraw_raws _ (unit_noraw E _ _ _ H)).
      * rewrite de_typed_option in H. apply tbind_lift_ok in H as ([o s0] & Hpw & H).
        destruct (match o with Some b => b =? 110 | None => false end).
        -- inv H. injection H as <- _. exact I.
        -- apply tmap_ok in H as (x & Hx & ->). cbn [raws_in]. eapply IHt; [|exact Hx]. eapply suf_pw; eassumption.
      * rewrite de_typed_newtype in H. apply tmap_ok in H as (x & Hx & ->). cbn [raws_in]. eapply IHt; eassumption.
      * rewrite de_typed_seq in H. apply tmap_ok in H as (l & Hl & ->). apply raws_in_seq.
        apply seq_inv in Hl as (b & s0 & s2 & s3 & Hpw & Hen & Hb).
        eapply IHe; [|exact Hb]. apply suf_discard. eapply suf_enter; [|exact Hen]. eapply suf_pw; eassumption.
      * rewrite de_typed_tuple in H. apply tmap_ok in H as (l & Hl & ->). apply raws_in_seq. eapply Htuple_seq; eassumption.
      * rewrite de_typed_tuple_struct in H. apply tmap_ok in H as (l & Hl & ->). apply raws_in_seq. eapply Htuple_seq; eassumption.
      * rewrite de_typed_map in H. apply tmap_ok in H as (l & Hl & ->). apply raws_in_map.
        apply map_inv in Hl as (b & s0 & s2 & s3 & Hpw & Hen & Hb).
        eapply IHen; [|exact Hb]. apply suf_discard. eapply suf_enter; [|exact Hen]. eapply suf_pw; eassumption.
      * rewrite de_typed_struct in H. eapply IHs; eassumption.
      * rewrite de_typed_enum in H. apply enum_inv in H as (b & s0 & Hpw & [(s2 & s3 & Hen & Hb)|Hb]).
        -- (* VariantAccess *)
           apply tbind_ok in Hb as ([[name v] s4] & Hstr & Hb).
           apply str_inv in Hstr as (b' & s5 & str & bo & s6 & Hpw2 & Hps & Hvis).
           pose proof (visit_variant_inv _ _ _ _ _ _ _ Hvis) as ->.
           apply tbind_lift_ok in Hb as (s7 & Hcolon & Hb).
           apply tmap_ok in Hb as (x & Hx & ->). cbn [raws_in].
           assert (Hs7 : suf s7).
           { eapply suf_colon; [|exact Hcolon]. apply (suf_parse_str (discard s5) (str, bo, s6)); [|exact Hps].
             apply suf_discard. eapply suf_pw; [|exact Hpw2]. apply suf_discard. eapply suf_enter; [|exact Hen].
             eapply suf_pw; eassumption. }
           destruct v as [|t1|ts|fields].
           ++ exact (noraw_raws _ (unit_noraw E _ _ _ Hx)).
           ++ eapply IHt; eassumption.
           ++ apply tmap_ok in Hx as (l & Hl & ->). apply raws_in_seq. eapply Htuple_seq; eassumption.
           ++ eapply IHs; eassumption.
        -- (* UnitVariantAccess *)
           apply tbind_ok in Hb as ([[name v] s4] & Hstr & Hb). destruct v; try discriminate Hb.
           injection Hb as <- _. exact I.
    + (* ---------------- de_elems ---------------- *)
      intros t first s l s1 Hs H. rewrite de_elems_S in H. apply tbind_lift_ok in H as (o & Hhn & H).
      destruct o as [s0|]; [|injection H as <- _; constructor].
      destruct (suf_hne _ _ _ Hs Hhn) as [Hs0 _].
      apply tbind_ok in H as ([d s2] & Hd & H). apply tbind_ok in H as ([ds s3] & Hds & H). injection H as <- _.
      constructor; [eapply IHt; eassumption|]. eapply IHe; [|exact Hds]. eapply suf_typed; eassumption.
    + (* ---------------- de_tuple ---------------- *)
      intros ts first s l s1 Hs H. destruct ts as [|t ts].
      { rewrite de_tuple_nil in H. injection H as <- _. constructor. }
      rewrite de_tuple_cons in H. apply tbind_lift_ok in H as (o & Hhn & H).
      destruct o as [s0|]; [|discriminate H].
      destruct (suf_hne _ _ _ Hs Hhn) as [Hs0 _].
      apply tbind_ok in H as ([d s2] & Hd & H). apply tbind_ok in H as ([ds s3] & Hds & H). injection H as <- _.
      constructor; [eapply IHt; eassumption|]. eapply IHtu; [|exact Hds]. eapply suf_typed; eassumption.
    + (* ---------------- de_entries ---------------- *)
      intros kt v first s l s1 Hs H. rewrite de_entries_S in H. apply tbind_lift_ok in H as (o & Hhn & H).
      destruct o as [s0|]; [|injection H as <- _; constructor].
      destruct (suf_hnk _ _ _ Hs Hhn) as [Hs0 Hne0].
      apply tbind_ok in H as ([kd s2] & Hkd & H). apply tbind_lift_ok in H as (s3 & Hcolon & H).
      apply tbind_ok in H as ([vd s4] & Hvd & H). apply tbind_ok in H as ([es s5] & Hes & H). injection H as <- _.
      assert (Hs3 : suf s3). { eapply suf_colon; [|exact Hcolon]. eapply suf_key; eassumption. }
      constructor.
      * split; cbn [fst snd]; [eapply IHk; exact Hkd|eapply IHt; eassumption].
      * eapply IHen; [|exact Hes]. eapply suf_typed; eassumption.
    + (* ---------------- de_fields ---------------- *)
      intros fields slots first s l s1 Hs Hslots H. rewrite de_fields_S in H. apply tbind_lift_ok in H as (o & Hhn & H).
      destruct o as [s0|].
      * destruct (suf_hnk _ _ _ Hs Hhn) as [Hs0 _].
        apply tbind_lift_ok in H as ([[name bo] s2] & Hps & H).
        assert (Hs2 : suf s2). { apply (suf_parse_str (discard s0) (name, bo, s2)); [apply suf_discard; exact Hs0|exact Hps]. }
        destruct (index_of name fields) as [[i t]|].
        -- destruct (slot_filled i slots); [discriminate H|].
           apply tbind_lift_ok in H as (s3 & Hcolon & H). apply tbind_ok in H as ([d s4] & Hd & H).
           assert (Hs3 : suf s3) by (eapply suf_colon; eassumption).
           eapply IHf; [| |exact H].
           ++ eapply suf_typed; eassumption.
           ++ apply set_slot_ok; [eapply IHt; eassumption|exact Hslots].
        -- apply tbind_lift_ok in H as (s3 & Hcolon & H). apply tbind_lift_ok in H as (s4 & Hig & H).
           eapply IHf; [|exact Hslots|exact H]. eapply suf_ignore; [|exact Hig]. eapply suf_colon; eassumption.
      * apply tbind_ok in H as (ds & Hfin & H). injection H as <- _. eapply finish_ok; eassumption.
    + (* ---------------- de_struct ---------------- *)
      intros fields s d s1 Hs H. rewrite de_struct_S in H. apply tmap_ok in H as (l & Hl & ->). apply raws_in_struct.
      apply struct_inv in Hl as (b & s0 & s2 & s3 & Hpw & Hen & [Hb|Hb]).
      * eapply IHtu; [|exact Hb]. apply suf_discard. eapply suf_enter; [|exact Hen]. eapply suf_pw; eassumption.
      * eapply IHf; [| |exact Hb].
        -- apply suf_discard. eapply suf_enter; [|exact Hen]. eapply suf_pw; eassumption.
        -- apply Forall_forall. intros x Hx. apply in_map_iff in Hx as (y & <- & _). exact I.
    + (* ---------------- de_key ---------------- *)
      intros kt s d s1 H. destruct kt.
      * rewrite de_key_str in H. inv H. injection H as <- _. exact I.
      * rewrite de_key_int in H. exact (noraw_raws _ (numeric_key_noraw E _ _ _ _ (fun s0 d' s' => int_noraw E t s0 d' s') H)).
      * rewrite de_key_bool in H. exact (noraw_raws _ (key_bool_noraw E _ _ _ H)).
      * rewrite de_key_char in H. inv H. exact (noraw_raws _ (visit_char_noraw _ _ _ _ _ H)).
      * rewrite de_key_f32 in H. exact (noraw_raws _ (numeric_key_noraw E _ _ _ _ (fun s0 d' s' => f32_noraw E s0 d' s') H)).
      * rewrite de_key_f64 in H. exact (noraw_raws _ (numeric_key_noraw E _ _ _ _ (fun s0 d' s' => f64_noraw E s0 d' s') H)).
      * rewrite de_key_option in H. apply tmap_ok in H as (x & Hx & ->). cbn [raws_in]. eapply IHk; exact Hx.
      * rewrite de_key_newtype in H. apply tmap_ok in H as (x & Hx & ->). cbn [raws_in]. eapply IHk; exact Hx.
      * rewrite de_key_unit_enum in H. apply enum_inv in H as (b & s0 & Hpw & [(s2 & s3 & Hen & Hb)|Hb]); [discriminate Hb|].
        apply tbind_ok in Hb as ([[name v] s4] & Hstr & Hb). injection Hb as <- _. exact I.
Qed.

End Any.

(* ------------------------------------------------------------------------------------------ *)
(** * 3. The theorem *)

Theorem de_typed_raws_valid : forall k cf fuel t s d s1,
  Forall (fun b => b < 256) (rest s) ->
  de_typed fuel (mkEnv k TEof cf) t s = TOk (d, s1) -> raws_in (rest s) d.
Proof.
  intros k cf fuel t s d s1 F H.
  apply (proj1 (any_main k cf (rest s) F fuel) t s d s1); [exists []; reflexivity|exact H].
Qed.

Theorem from_input_typed_raws_valid : forall k cf t bs d,
  Forall (fun b => b < 256) bs ->
  from_input_typed (mkEnv k TEof cf) t bs = TOk d -> raws_in bs d.
Proof.
  intros k cf t bs d F H. unfold from_input_typed in H. apply tbind_ok in H as ([d' s1] & Hd & H).
  apply tbind_lift_ok in H as (s2 & _ & H). injection H as <-.
  exact (de_typed_raws_valid k cf _ t (init_st bs) d' s1 F Hd).
Qed.

Print Assumptions from_input_typed_raws_valid.
