(* Proofs/NumInt.v — the model's integer parsing is exact and never wraps.

   Main results
     overflow_mac_spec                 the overflow! macro is the exact comparison  c < a*10+b
     sig_loop_spec                     the significand loop never wraps (the `mod 2^64` of mul10add is a no-op under
                                       the guard) and consumes the maximal digit run unless the next digit would
                                       exceed u64::MAX
     parse_integer_int                 an integer literal followed by a byte that does not continue a number is
                                       PU64 / PI64 with its exact value (or the documented f64 fallbacks)
     parse_integer_frac_exp_is_float   a literal continued by '.', 'e' or 'E' never yields an integer            *)
From SJ Require Import Base.Bytes Base.FloatB Gen.Tables Model.Read Model.Num Spec.Syntax.
From Coq Require Import Lia ZifyBool ZifyNat ZifyN.
Open Scope N_scope.

(* ------------------------------------------------------------------------------------------ *)
(** * Generic helpers *)

Lemma bind_ok {A B} (r : res A) (f : A -> res B) (b : B) :
  bind r f = Ok b -> exists a, r = Ok a /\ f a = Ok b.
Proof.
  destruct r as [a|c i| |]; cbn [bind]; intros Hb; try discriminate Hb.
  exists a; split; [reflexivity|exact Hb].
Qed.

Lemma firstn_app_exact {A} (l1 l2 : list A) : firstn (length l1) (l1 ++ l2) = l1.
Proof.
  induction l1 as [|x l1 IH]; cbn [length app firstn].
  - destruct l2; reflexivity.
  - rewrite IH; reflexivity.
Qed.

Lemma skipn_app_exact {A} (l1 l2 : list A) : skipn (length l1) (l1 ++ l2) = l2.
Proof.
  induction l1 as [|x l1 IH]; cbn [length app skipn]; [reflexivity|exact IH].
Qed.

(* a run of [p]-bytes followed by the end of input or a non-[p] byte *)
Lemma span_len_app (p : N -> bool) (l1 l2 : list N) :
  forallb p l1 = true ->
  match l2 with [] => True | c :: _ => p c = false end ->
  span_len p (l1 ++ l2) = length l1.
Proof.
  intros Hall Hstop. induction l1 as [|x l1 IH]; cbn [app span_len length].
  - destruct l2 as [|c l2]; cbn [span_len]; [reflexivity|rewrite Hstop; reflexivity].
  - cbn [forallb] in Hall. apply andb_true_iff in Hall. destruct Hall as [Hx Hl1].
    rewrite Hx, (IH Hl1). reflexivity.
Qed.

(* ------------------------------------------------------------------------------------------ *)
(** * 1. The overflow! macro *)

Theorem overflow_mac_spec : forall a b c : N, (b < 10)%N -> overflow_mac a b c = (c <? a * 10 + b)%N.
Proof.
  intros a b c Hb. unfold overflow_mac.
  pose proof (N.div_mod c 10 ltac:(discriminate)) as Hdm.
  pose proof (N.mod_lt c 10 ltac:(discriminate)) as Hml.
  set (q := c / 10) in *. set (r := c mod 10) in *. clearbody q r.
  lia.
Qed.

Lemma mul10add_small (a d : N) : (a * 10 + d <= u64_max)%N -> mul10add a d = (a * 10 + d)%N.
Proof.
  intros Hle. unfold mul10add. apply N.mod_small. unfold u64_max in Hle. unfold two64. lia.
Qed.

Lemma is_digit_val (c : N) : is_digit c = true -> (digit_val c < 10)%N.
Proof. unfold is_digit, digit_val. lia. Qed.

Lemma is_digit19_digit (c : N) : is_digit19 c = true -> is_digit c = true.
Proof. unfold is_digit19, is_digit. lia. Qed.

(* ------------------------------------------------------------------------------------------ *)
(** * digits_val *)

Lemma digits_val_acc (l : list N) : forall acc : Z,
  digits_val l acc = (acc * 10 ^ Z.of_nat (length l) + digits_val l 0)%Z.
Proof.
  induction l as [|c r IH]; intros acc; cbn [digits_val length].
  - change (Z.of_nat 0) with 0%Z. rewrite Z.pow_0_r. lia.
  - rewrite (IH (acc * 10 + Z.of_N (digit_val c))%Z), (IH (0 * 10 + Z.of_N (digit_val c))%Z).
    rewrite Nat2Z.inj_succ, Z.pow_succ_r by lia. ring.
Qed.

Lemma digits_val_app (a b : list N) : forall acc : Z,
  digits_val (a ++ b) acc = digits_val b (digits_val a acc).
Proof.
  induction a as [|c a IH]; intros acc; cbn [app digits_val]; [reflexivity|apply IH].
Qed.

Lemma digits_val_ge (l : list N) : forall acc : Z, (0 <= acc)%Z -> (acc <= digits_val l acc)%Z.
Proof.
  induction l as [|c r IH]; intros acc Hacc; cbn [digits_val]; [lia|].
  pose proof (IH (acc * 10 + Z.of_N (digit_val c))%Z ltac:(lia)) as Hrec. lia.
Qed.

Lemma digits_val_cons (c : N) (r : list N) :
  digits_val (c :: r) 0 = (Z.of_N (digit_val c) * 10 ^ Z.of_nat (length r) + digits_val r 0)%Z.
Proof.
  cbn [digits_val]. rewrite digits_val_acc. lia.
Qed.

(* ------------------------------------------------------------------------------------------ *)
(** * 2. The significand loop *)

Theorem sig_loop_spec : forall (l : list N) (sig : N), (sig <= u64_max)%N ->
  let '(n, sg, ov) := sig_loop l sig in
  (n <= span_len is_digit l)%nat
  /\ Z.of_N sg = (Z.of_N sig * 10 ^ Z.of_nat n + digits_val (firstn n l) 0)%Z
  /\ (sg <= u64_max)%N
  /\ (ov = false -> n = span_len is_digit l)
  /\ (ov = true -> exists c, nth_error l n = Some c /\ is_digit c = true /\ (u64_max < sg * 10 + digit_val c)%N).
Proof.
  induction l as [|c r IH]; intros sig Hsig.
  - cbn [sig_loop span_len firstn digits_val].
    change (Z.of_nat 0) with 0%Z. rewrite Z.pow_0_r.
    refine (conj _ (conj _ (conj _ (conj _ _)))).
    + lia.
    + lia.
    + exact Hsig.
    + reflexivity.
    + intros Habs; discriminate Habs.
  - cbn [sig_loop span_len]. destruct (is_digit c) eqn:Hd.
    + rewrite overflow_mac_spec by (apply is_digit_val; exact Hd).
      destruct (u64_max <? sig * 10 + digit_val c) eqn:Hov.
      * cbn [firstn digits_val]. change (Z.of_nat 0) with 0%Z. rewrite Z.pow_0_r.
        refine (conj _ (conj _ (conj _ (conj _ _)))).
        -- lia.
        -- lia.
        -- exact Hsig.
        -- intros Habs; discriminate Habs.
        -- intros _. exists c. cbn [nth_error]. refine (conj eq_refl (conj Hd _)). lia.
      * assert (Hle : (sig * 10 + digit_val c <= u64_max)%N) by lia.
        rewrite (mul10add_small _ _ Hle).
        specialize (IH (sig * 10 + digit_val c)%N Hle).
        destruct (sig_loop r (sig * 10 + digit_val c)) as [[n sg] ov].
        destruct IH as (Hn & Hval & Hsg & Hov0 & Hov1).
        cbv beta iota.
        assert (Hlen : length (firstn n r) = n).
        { apply firstn_length_le. clear - Hn.
          revert n Hn. induction r as [|x r IHr]; intros n Hn; cbn [span_len length] in *; [lia|].
          destruct (is_digit x); [|lia].
          destruct n as [|n]; [lia|]. specialize (IHr n ltac:(lia)). lia. }
        refine (conj _ (conj _ (conj _ (conj _ _)))).
        -- lia.
        -- cbn [firstn]. rewrite digits_val_cons, Hlen, Hval.
           rewrite Nat2Z.inj_succ, Z.pow_succ_r by lia. rewrite N2Z.inj_add, N2Z.inj_mul.
           change (Z.of_N 10) with 10%Z. ring.
        -- exact Hsg.
        -- intros Hf. rewrite (Hov0 Hf). reflexivity.
        -- intros Ht. cbn [nth_error]. exact (Hov1 Ht).
    + cbn [firstn digits_val]. change (Z.of_nat 0) with 0%Z. rewrite Z.pow_0_r.
      refine (conj _ (conj _ (conj _ (conj _ _)))).
      * lia.
      * lia.
      * exact Hsig.
      * reflexivity.
      * intros Habs; discriminate Habs.
Qed.

(* ------------------------------------------------------------------------------------------ *)
(** * Reader steps on explicit states (end of input = TEof) *)

Definition nonempty (l : list N) : bool := match l with [] => false | _ :: _ => true end.

Lemma next_cons (E : env) (c : N) (l : list N) (o : nat) (p : bool) (d : N) :
  next E (mkSt (c :: l) o p d) = Ok (Some c, mkSt l (S o) false d).
Proof. reflexivity. Qed.

Lemma peek_or_null_cons (E : env) (c : N) (l : list N) (o : nat) (p : bool) (d : N) :
  peek_or_null E (mkSt (c :: l) o p d) = Ok (c, mkSt (c :: l) o true d).
Proof. reflexivity. Qed.

Lemma peek_or_null_eof (E : env) (l : list N) (o : nat) (p : bool) (d : N) :
  tm E = TEof ->
  peek_or_null E (mkSt l o p d) = Ok (hd 0 l, mkSt l o (nonempty l) d).
Proof.
  intros HE. destruct l as [|c l]; [|reflexivity].
  unfold peek_or_null, peek, at_end. cbn [Read.rest Read.off Read.depth]. rewrite HE. reflexivity.
Qed.

Lemma advance_mk (n : nat) (l : list N) (o : nat) (p : bool) (d : N) :
  advance n (mkSt l o p d) = mkSt (skipn n l) (o + n) false d.
Proof. reflexivity. Qed.

(* ------------------------------------------------------------------------------------------ *)
(** * 3. Integer literals *)

Definition stops_number (rest : list N) : Prop :=
  match rest with [] => True | c :: _ => is_digit c = false /\ c <> 46%N /\ c <> 101%N /\ c <> 69%N end.
Definition st_after (ds rest : list N) (off : nat) (d : N) : st :=
  mkSt rest (off + length ds) (match rest with [] => false | _ :: _ => true end) d.

Lemma stops_number_hd (rs : list N) : stops_number rs ->
  is_digit (hd 0 rs) = false /\ (hd 0 rs =? 46) = false /\ ((hd 0 rs =? 101) || (hd 0 rs =? 69)) = false.
Proof.
  destruct rs as [|c rs]; cbn [stops_number hd].
  - intros _. repeat split; reflexivity.
  - intros (Hd & H46 & H101 & H69). repeat split; [exact Hd|lia|lia].
Qed.

Lemma stops_number_span (rs : list N) : stops_number rs ->
  match rs with [] => True | c :: _ => is_digit c = false end.
Proof. destruct rs as [|c rs]; cbn [stops_number]; [trivial|intros (Hd & _); exact Hd]. Qed.

(* (significand as i64).wrapping_neg() >= 0  <->  not (0 < significand <= 2^63) *)
Lemma wrapping_neg_spec (sig : N) : (sig <= u64_max)%N ->
  let neg := wrap_i64 (- wrap_i64 (Z.of_N sig)) in
  if (0 <? sig)%N && (sig <=? i64_min_abs)%N then ((0 <=? neg)%Z = false /\ neg = (- Z.of_N sig)%Z)
  else (0 <=? neg)%Z = true.
Proof.
  intros Hsig. unfold wrap_i64, u64_max, i64_min_abs in *.
  destruct ((0 <? sig) && (sig <=? 9223372036854775808)) eqn:Hc; Z.div_mod_to_equations; lia.
Qed.

Lemma parse_number_stop (E : env) (positive : bool) (sig : N) (rs : list N) (o : nat) (p : bool) (d : N) :
  tm E = TEof -> stops_number rs -> (sig <= u64_max)%N ->
  parse_number E positive sig (mkSt rs o p d) =
  Ok ((if positive then PU64 sig
       else if (0 <? sig)%N && (sig <=? i64_min_abs)%N then PI64 (- Z.of_N sig)
       else PF64 (b64_neg (b64_of_Z (Z.of_N sig)))), mkSt rs o (nonempty rs) d).
Proof.
  intros HE Hstop Hsig. unfold parse_number.
  rewrite (peek_or_null_eof E rs o p d HE). cbn [bind].
  destruct (stops_number_hd rs Hstop) as (_ & H46 & Hee). rewrite H46, Hee.
  destruct positive; [reflexivity|].
  pose proof (wrapping_neg_spec sig Hsig) as Hneg. cbv zeta in Hneg.
  destruct ((0 <? sig) && (sig <=? i64_min_abs)).
  - destruct Hneg as [Hlt Heq]. rewrite Hlt, Heq. reflexivity.
  - rewrite Hneg. reflexivity.
Qed.

(* f64_from_parts with a non-negative exponent: one round of the loop, no fuel issue *)
Lemma f64_loop_nonneg (fu : nat) (f : b64) (e : Z) : (0 <= e)%Z -> exists o, f64_loop (S fu) f e = Ok o.
Proof.
  intros He. cbn [f64_loop]. destruct (pow10_tab (Z.abs e)) as [pw|].
  - replace (0 <=? e)%Z with true by lia.
    destruct (b64_is_inf (b64_mul f pw)); eexists; reflexivity.
  - destruct (b64_is_zero f); [eexists; reflexivity|].
    replace (0 <=? e)%Z with true by lia. eexists; reflexivity.
Qed.

Lemma f64_from_parts_nonneg (E : env) (positive : bool) (sig : N) (e : Z) (s : st) : (0 <= e)%Z ->
  (exists f, f64_from_parts E positive sig e s = Ok (f, s))
  \/ (exists i, f64_from_parts E positive sig e s = @Err (b64 * st) NumberOutOfRange i).
Proof.
  intros He. unfold f64_from_parts. destruct (float_roundtrip (cf E)).
  - cbn [bind]. destruct (f64_fr sig e) as [f|].
    + left. eexists; reflexivity.
    + right. unfold peek_error. eexists; reflexivity.
  - destruct (f64_loop_nonneg 3 (b64_of_Z (Z.of_N sig)) e He) as [o Ho].
    rewrite Ho. cbn [bind]. destruct o as [f|].
    + left. eexists; reflexivity.
    + right. unfold peek_error. eexists; reflexivity.
Qed.

(* parse_long_integer on the remaining digits of an integer literal *)
Lemma parse_long_integer_stop (E : env) (positive : bool) (sig : N) (l rs : list N) (o : nat) (p : bool) (d : N) :
  tm E = TEof -> forallb is_digit l = true -> stops_number rs ->
  (exists f, parse_long_integer E positive sig (mkSt (l ++ rs) o p d)
             = Ok (f, mkSt rs (o + length l) (nonempty rs) d))
  \/ (exists i, parse_long_integer E positive sig (mkSt (l ++ rs) o p d) = @Err (b64 * st) NumberOutOfRange i).
Proof.
  intros HE Hl Hstop. unfold parse_long_integer. cbn [Read.rest].
  rewrite (span_len_app is_digit l rs Hl (stops_number_span rs Hstop)).
  rewrite advance_mk, skipn_app_exact, (peek_or_null_eof E rs _ false d HE). cbn [bind].
  destruct (stops_number_hd rs Hstop) as (_ & H46 & Hee). rewrite H46, Hee.
  destruct (float_roundtrip (cf E)).
  - unfold f64_long_from_parts.
    destruct (b64_is_inf (lexical_truncated (itoa sig ++ firstn (length l) (l ++ rs)) [] 0)).
    + right. unfold peek_error. eexists; reflexivity.
    + left. eexists; reflexivity.
  - apply f64_from_parts_nonneg. lia.
Qed.

(* shape of int_ok *)
Lemma int_ok_cons (c : N) (r : list N) : c <> 48 -> int_ok (c :: r) = is_digit19 c && forallb is_digit r.
Proof.
  intros Hne. unfold int_ok.
  destruct c as [|q]; [reflexivity|].
  do 6 (try (destruct q as [q|q|]; try reflexivity)).
  exfalso. apply Hne. reflexivity.
Qed.

Lemma int_ok_inv (ds : list N) : int_ok ds = true ->
  ds = [48] \/ exists c r, ds = c :: r /\ is_digit19 c = true /\ forallb is_digit r = true.
Proof.
  intros Hok. destruct ds as [|c r]; [discriminate Hok|].
  destruct (N.eq_dec c 48) as [Heq|Hne].
  - subst c. destruct r as [|x r]; [left; reflexivity|].
    assert (Hf : int_ok (48 :: x :: r) = false) by reflexivity.
    rewrite Hf in Hok. discriminate Hok.
  - rewrite (int_ok_cons c r Hne) in Hok. apply andb_true_iff in Hok. destruct Hok as [Hc Hr].
    right. exists c, r. repeat split; assumption.
Qed.

(* the literal "0" *)
Lemma parse_integer_zero (E : env) (positive : bool) (rs : list N) (o : nat) (p : bool) (d : N) :
  tm E = TEof -> stops_number rs ->
  parse_integer E positive (mkSt ([48] ++ rs) o p d) =
  Ok ((if positive then PU64 0 else PF64 (b64_neg (b64_of_Z (Z.of_N 0)))), st_after [48] rs o d).
Proof.
  intros HE Hstop. unfold parse_integer. cbn [app]. rewrite next_cons. cbn [bind].
  rewrite N.eqb_refl.
  rewrite (peek_or_null_eof E rs (S o) false d HE). cbn [bind].
  destruct (stops_number_hd rs Hstop) as (Hd & _). rewrite Hd.
  rewrite (parse_number_stop E positive 0 rs (S o) (nonempty rs) d HE Hstop) by (unfold u64_max; lia).
  unfold st_after, nonempty. cbn [length]. rewrite Nat.add_1_r.
  destruct positive; reflexivity.
Qed.

(* the literal [1-9][0-9]*: parse_integer reduced to the significand loop *)
Lemma parse_integer_nonzero_unfold (E : env) (positive : bool) (c : N) (l : list N) (o : nat) (p : bool) (d : N) :
  is_digit19 c = true ->
  parse_integer E positive (mkSt (c :: l) o p d) =
  let '(n, sg, ov) := sig_loop l (digit_val c) in
  let* (_, s2) := peek_or_null E (mkSt (skipn n l) (S o + n) false d) in
  if ov then let* (f, s3) := parse_long_integer E positive sg s2 in Ok (PF64 f, s3)
  else parse_number E positive sg s2.
Proof.
  intros Hc. unfold parse_integer. rewrite next_cons. cbn [bind].
  replace (c =? 48) with false by (unfold is_digit19 in Hc; lia).
  rewrite Hc. cbn [Read.rest]. destruct (sig_loop l (digit_val c)) as [[n sg] ov].
  rewrite advance_mk. reflexivity.
Qed.

Lemma parse_integer_int_aux (E : env) (positive : bool) (ds rs : list N) (o : nat) (p : bool) (d : N) :
  tm E = TEof -> int_ok ds = true -> stops_number rs ->
  let v := Z.to_N (digits_val ds 0) in
  let r := parse_integer E positive (mkSt (ds ++ rs) o p d) in
  if (v <=? u64_max)%N then
    r = Ok ((if positive then PU64 v
             else if (0 <? v)%N && (v <=? i64_min_abs)%N then PI64 (- Z.of_N v)
             else PF64 (b64_neg (b64_of_Z (Z.of_N v)))), st_after ds rs o d)
  else
    match r with
    | Ok (PF64 _, s') => s' = st_after ds rs o d
    | Err NumberOutOfRange _ => True
    | _ => False
    end.
Proof.
  intros HE Hok Hstop v r. subst v r.
  destruct (int_ok_inv ds Hok) as [Hz|(c & l & Hds & Hc & Hl)].
  - (* "0" *)
    subst ds. change (Z.to_N (digits_val [48] 0)) with 0%N.
    change (0 <=? u64_max) with true. cbv iota.
    rewrite (parse_integer_zero E positive rs o p d HE Hstop).
    change ((0 <? 0) && (0 <=? i64_min_abs)) with false. cbv iota. reflexivity.
  - (* [1-9][0-9]* *)
    subst ds. rewrite <- app_comm_cons.
    rewrite (parse_integer_nonzero_unfold E positive c (l ++ rs) o p d Hc).
    assert (Hc10 : (digit_val c < 10)%N) by (apply is_digit_val, is_digit19_digit; exact Hc).
    pose proof (sig_loop_spec (l ++ rs) (digit_val c) ltac:(unfold u64_max; lia)) as HS.
    destruct (sig_loop (l ++ rs) (digit_val c)) as [[n sg] ov].
    destruct HS as (Hn & Hval & Hsg & Hov0 & Hov1).
    rewrite (span_len_app is_digit l rs Hl (stops_number_span rs Hstop)) in Hn, Hov0.
    destruct ov.
    + (* the next digit would overflow u64: the value exceeds u64::MAX, the result is a float *)
      clear Hov0. destruct (Hov1 eq_refl) as (c' & Hnth & Hdc' & Hbig). clear Hov1.
      assert (Hlt : (n < length l)%nat).
      { destruct (Nat.eq_dec n (length l)) as [Heq|Hne]; [exfalso|lia].
        subst n. rewrite nth_error_app2, Nat.sub_diag in Hnth by lia.
        destruct rs as [|x rs]; cbn [nth_error] in Hnth; [discriminate Hnth|].
        injection Hnth as Hx. subst x. destruct Hstop as (Hx & _). rewrite Hx in Hdc'. discriminate Hdc'. }
      rewrite nth_error_app1 in Hnth by exact Hlt.
      destruct (nth_error_split l n Hnth) as (l1 & l2 & Hsplit & Hlen1).
      subst l n. clear Hlt Hn Hnth.
      rewrite <- app_assoc in Hval. rewrite firstn_app_exact in Hval.
      rewrite <- app_assoc. rewrite skipn_app_exact. rewrite <- app_comm_cons.
      rewrite peek_or_null_cons. cbn [bind].
      (* value *)
      assert (Hv : (Z.of_N u64_max < digits_val (c :: l1 ++ c' :: l2) 0)%Z).
      { rewrite app_comm_cons, digits_val_app. cbn [digits_val].
        rewrite <- digits_val_cons in Hval.
        change (digits_val l1 (0 * 10 + Z.of_N (digit_val c))) with (digits_val (c :: l1) 0).
        rewrite <- Hval.
        pose proof (digits_val_ge l2 (Z.of_N sg * 10 + Z.of_N (digit_val c'))%Z ltac:(lia)) as Hge.
        lia. }
      replace (Z.to_N (digits_val (c :: l1 ++ c' :: l2) 0) <=? u64_max) with false by lia.
      (* parser *)
      rewrite forallb_app in Hl. apply andb_true_iff in Hl. destruct Hl as [_ Hl2].
      rewrite (app_comm_cons l2 rs c').
      destruct (parse_long_integer_stop E positive sg (c' :: l2) rs (S o + length l1) true d HE Hl2 Hstop)
        as [[f Hf]|[i Hi]].
      * rewrite Hf. cbn [bind]. unfold st_after, nonempty. f_equal.
        cbn [length]. rewrite app_length. cbn [length]. lia.
      * rewrite Hi. cbn [bind]. exact I.
    + (* the whole digit run fits in u64 *)
      clear Hov1. specialize (Hov0 eq_refl). subst n. clear Hn.
      rewrite firstn_app_exact in Hval. rewrite <- digits_val_cons in Hval.
      rewrite <- Hval. rewrite N2Z.id.
      replace (sg <=? u64_max) with true by lia.
      rewrite skipn_app_exact.
      rewrite (peek_or_null_eof E rs _ false d HE). cbn [bind].
      rewrite (parse_number_stop E positive sg rs _ (nonempty rs) d HE Hstop Hsg).
      unfold st_after, nonempty. cbn [length].
      replace (o + S (length l))%nat with (S o + length l)%nat by lia. reflexivity.
Qed.

Theorem parse_integer_int : forall E positive ds rest off pk d,
  tm E = TEof -> int_ok ds = true -> stops_number rest ->
  let v := Z.to_N (digits_val ds 0) in
  let r := parse_integer E positive (mkSt (ds ++ rest) off pk d) in
  if (v <=? u64_max)%N then
    r = Ok ((if positive then PU64 v
             else if (0 <? v)%N && (v <=? i64_min_abs)%N then PI64 (- Z.of_N v)
             else PF64 (b64_neg (b64_of_Z (Z.of_N v)))), st_after ds rest off d)
  else
    match r with
    | Ok (PF64 _, s') => s' = st_after ds rest off d
    | Err NumberOutOfRange _ => True
    | _ => False
    end.
Proof.
  intros E positive ds rs o p d HE Hok Hstop.
  exact (parse_integer_int_aux E positive ds rs o p d HE Hok Hstop).
Qed.

(* ------------------------------------------------------------------------------------------ *)
(** * 4. A fraction or exponent makes it a float *)

Lemma parse_number_frac (E : env) (positive : bool) (sig c : N) (rs : list N) (o : nat) (p : bool) (d : N)
      (pn : pnum) (s' : st) :
  (c = 46 \/ c = 101 \/ c = 69)%N ->
  parse_number E positive sig (mkSt (c :: rs) o p d) = Ok (pn, s') -> exists f, pn = PF64 f.
Proof.
  intros Hc. unfold parse_number. rewrite peek_or_null_cons. cbn [bind].
  destruct (c =? 46) eqn:H46.
  - intros Hb. apply bind_ok in Hb. destruct Hb as ([f s2] & _ & Hb). cbv beta iota in Hb.
    injection Hb as Hpn _. exists f. symmetry; exact Hpn.
  - destruct ((c =? 101) || (c =? 69)) eqn:Hee; [|exfalso; lia].
    intros Hb. apply bind_ok in Hb. destruct Hb as ([f s2] & _ & Hb). cbv beta iota in Hb.
    injection Hb as Hpn _. exists f. symmetry; exact Hpn.
Qed.

Lemma parse_integer_frac_aux (E : env) (positive : bool) (ds : list N) (c : N) (rs : list N)
      (o : nat) (p : bool) (d : N) (pn : pnum) (s' : st) :
  tm E = TEof -> int_ok ds = true -> (c = 46 \/ c = 101 \/ c = 69)%N ->
  parse_integer E positive (mkSt (ds ++ c :: rs) o p d) = Ok (pn, s') -> exists f, pn = PF64 f.
Proof.
  intros HE Hok Hc.
  assert (Hcd : is_digit c = false) by (unfold is_digit; lia).
  destruct (int_ok_inv ds Hok) as [Hz|(c0 & l & Hds & Hc0 & Hl)].
  - subst ds. unfold parse_integer. cbn [app]. rewrite next_cons. cbn [bind].
    rewrite N.eqb_refl. rewrite peek_or_null_cons. cbn [bind]. rewrite Hcd.
    apply parse_number_frac. exact Hc.
  - subst ds. rewrite <- app_comm_cons.
    rewrite (parse_integer_nonzero_unfold E positive c0 (l ++ c :: rs) o p d Hc0).
    assert (Hc10 : (digit_val c0 < 10)%N) by (apply is_digit_val, is_digit19_digit; exact Hc0).
    pose proof (sig_loop_spec (l ++ c :: rs) (digit_val c0) ltac:(unfold u64_max; lia)) as HS.
    destruct (sig_loop (l ++ c :: rs) (digit_val c0)) as [[n sg] ov].
    destruct HS as (_ & _ & _ & Hov0 & _).
    destruct ov.
    + intros Hb. apply bind_ok in Hb. destruct Hb as ([x s2] & _ & Hb). cbv beta iota in Hb.
      apply bind_ok in Hb. destruct Hb as ([f s3] & _ & Hb). cbv beta iota in Hb.
      injection Hb as Hpn _. exists f. symmetry; exact Hpn.
    + specialize (Hov0 eq_refl). rewrite (span_len_app is_digit l (c :: rs) Hl Hcd) in Hov0. subst n.
      rewrite skipn_app_exact, peek_or_null_cons. cbn [bind].
      apply parse_number_frac. exact Hc.
Qed.

Theorem parse_integer_frac_exp_is_float : forall E positive ds c rest off pk d p s',
  tm E = TEof -> int_ok ds = true -> (c = 46 \/ c = 101 \/ c = 69)%N ->
  parse_integer E positive (mkSt (ds ++ c :: rest) off pk d) = Ok (p, s') -> exists f, p = PF64 f.
Proof.
  intros E positive ds c rs o pk0 d pn s' HE Hok Hc Hp.
  exact (parse_integer_frac_aux E positive ds c rs o pk0 d pn s' HE Hok Hc Hp).
Qed.

(* ------------------------------------------------------------------------------------------ *)
(** * Examples: the hypotheses are satisfiable, the statements say what they should *)

Definition E_slice : env := mkEnv RSlice TEof (mkCfg false false false false).
Definition E_io_rt : env := mkEnv RIo TEof (mkCfg false true false false).

(* "18446744073709551615" = u64::MAX, "18446744073709551616" = u64::MAX + 1,
   "9223372036854775808" = 2^63, "9223372036854775809" = 2^63 + 1 *)
Definition lit_u64_max  : list N := [49;56;52;52;54;55;52;52;48;55;51;55;48;57;53;53;49;54;49;53].
Definition lit_u64_max1 : list N := [49;56;52;52;54;55;52;52;48;55;51;55;48;57;53;53;49;54;49;54].
Definition lit_i64_min  : list N := [57;50;50;51;51;55;50;48;51;54;56;53;52;55;55;53;56;48;56].
Definition lit_i64_min1 : list N := [57;50;50;51;51;55;50;48;51;54;56;53;52;55;55;53;56;48;57].

Lemma stops_comma : stops_number [44].
Proof. cbn [stops_number]. repeat split; discriminate. Qed.

(* 1: 1844674407370955161 * 10 + 5 = u64::MAX does not overflow, ... + 6 does *)
Example overflow_mac_ex :
  overflow_mac 1844674407370955161 5 u64_max = false /\ overflow_mac 1844674407370955161 6 u64_max = true.
Proof. rewrite !overflow_mac_spec by reflexivity. split; reflexivity. Qed.

(* 2: the loop on "8446744073709551616," started with 1 stops before the last digit *)
Example sig_loop_ex_run : sig_loop (tl lit_u64_max1 ++ [44]) 1 = (18%nat, 1844674407370955161, true).
Proof. vm_compute. reflexivity. Qed.

Example sig_loop_ex :
  exists c, nth_error (tl lit_u64_max1 ++ [44]) 18 = Some c /\ is_digit c = true
            /\ (u64_max < 1844674407370955161 * 10 + digit_val c)%N.
Proof.
  pose proof (sig_loop_spec (tl lit_u64_max1 ++ [44]) 1 ltac:(discriminate)) as HS.
  rewrite sig_loop_ex_run in HS. destruct HS as (_ & _ & _ & _ & Hov). exact (Hov eq_refl).
Qed.

Example sig_loop_ex_max : sig_loop (tl lit_u64_max ++ [44]) 1 = (19%nat, u64_max, false).
Proof. vm_compute. reflexivity. Qed.

(* 3 *)
Example parse_integer_int_ex_max :
  parse_integer E_slice true (mkSt (lit_u64_max ++ [44]) 3 true 7)
  = Ok (PU64 18446744073709551615, mkSt [44] 23 true 7).
Proof.
  exact (parse_integer_int E_slice true lit_u64_max [44] 3 true 7 eq_refl eq_refl stops_comma).
Qed.

Example parse_integer_int_ex_i64_min :
  parse_integer E_io_rt false (mkSt (lit_i64_min ++ []) 0 false 128)
  = Ok (PI64 (-9223372036854775808), mkSt [] 19 false 128).
Proof.
  exact (parse_integer_int E_io_rt false lit_i64_min [] 0 false 128 eq_refl eq_refl I).
Qed.

Example parse_integer_int_ex_i64_min1 :
  parse_integer E_slice false (mkSt (lit_i64_min1 ++ [44]) 0 false 128)
  = Ok (PF64 (b64_neg (b64_of_Z 9223372036854775809)), mkSt [44] 19 true 128).
Proof.
  exact (parse_integer_int E_slice false lit_i64_min1 [44] 0 false 128 eq_refl eq_refl stops_comma).
Qed.

Example parse_integer_int_ex_neg_zero :
  parse_integer E_slice false (mkSt ([48] ++ [44]) 5 false 128)
  = Ok (PF64 (b64_neg (b64_of_Z 0)), mkSt [44] 6 true 128).
Proof.
  exact (parse_integer_int E_slice false [48] [44] 5 false 128 eq_refl eq_refl stops_comma).
Qed.

(* u64::MAX + 1 is a float (both builds) positioned after the literal *)
Example parse_integer_int_ex_over : forall E, tm E = TEof ->
  match parse_integer E true (mkSt (lit_u64_max1 ++ [44]) 3 true 7) with
  | Ok (PF64 _, s') => s' = mkSt [44] 23 true 7
  | Err NumberOutOfRange _ => True
  | _ => False
  end.
Proof.
  intros E HE.
  exact (parse_integer_int E true lit_u64_max1 [44] 3 true 7 HE eq_refl stops_comma).
Qed.

Example parse_integer_int_ex_over_run :
  match parse_integer E_io_rt true (mkSt (lit_u64_max1 ++ [44]) 3 true 7) with
  | Ok (PF64 f, s') => bits_of_b64 f = 4895412794951729152%N /\ s' = mkSt [44] 23 true 7   (* 0x43F0000000000000 = 2^64 *)
  | _ => False
  end.
Proof. vm_compute. split; reflexivity. Qed.

(* 4: "12.5" and "12e5" *)
Example parse_integer_frac_ex : forall p s',
  parse_integer E_slice true (mkSt ([49;50] ++ 46 :: [53]) 0 false 128) = Ok (p, s') -> exists f, p = PF64 f.
Proof.
  intros p s'. apply parse_integer_frac_exp_is_float; [reflexivity|reflexivity|left; reflexivity].
Qed.

Example parse_integer_frac_ex_run :
  match parse_integer E_slice true (mkSt ([49;50] ++ 46 :: [53]) 0 false 128) with
  | Ok (PF64 f, s') => bits_of_b64 f = 4623226492472524800%N /\ s' = mkSt [] 4 false 128   (* 0x4029000000000000 = 12.5 *)
  | _ => False
  end.
Proof. vm_compute. split; reflexivity. Qed.

Example parse_integer_exp_ex : forall p s',
  parse_integer E_io_rt false (mkSt ([49;50] ++ 101 :: [53]) 0 false 128) = Ok (p, s') -> exists f, p = PF64 f.
Proof.
  intros p s'. apply parse_integer_frac_exp_is_float; [reflexivity|reflexivity|right; left; reflexivity].
Qed.

Print Assumptions overflow_mac_spec.
Print Assumptions sig_loop_spec.
Print Assumptions parse_integer_int.
Print Assumptions parse_integer_frac_exp_is_float.
