(* Proofs/SerDenote.v — what the printed syntax tree denotes: [denote cf (cst_of v) = image cf v], the data-model image.
   Integers read back exactly (through the proved parser theorem NumInt.parse_integer_int). *)
From SJ Require Import Base.Bytes Base.Utf8 Base.FloatB Gen.Tables Model.Read Model.Num Model.Value Model.De Model.Sval Model.Ser
  Spec.Syntax Spec.Denote Spec.Layout Proofs.SerUtf8 Proofs.SerBase Proofs.SerRender Proofs.SerWf Proofs.NumInt.
From Coq Require Import Lia ZifyBool ZifyN ZifyNat.
Open Scope N_scope.

(* ---- strings ------------------------------------------------------------------------------------------------ *)
Definition piece_decodes (b : N) : bool :=
  match piece_of b with
  | PRaw x => x =? b
  | PEsc c => esc_val c =? b
  | PU4 a1 a2 a3 a4 =>
    let n := u4_val a1 a2 a3 a4 in (n =? b) && (n <? 128) && negb (is_lo_surr n) && negb (is_hi_surr n)
  end.

Lemma piece_decodes_all b : b < 256 -> piece_decodes b = true.
Proof. apply (all_bytes piece_decodes). vm_compute. reflexivity. Qed.

Lemma str_decode_piece b r : b < 256 -> str_decode (piece_of b :: r) = option_map (cons b) (str_decode r).
Proof.
  intros Hb. pose proof (piece_decodes_all b Hb) as H. unfold piece_decodes in H.
  destruct (piece_of b) as [x|c|a1 a2 a3 a4].
  - apply N.eqb_eq in H. subst x. reflexivity.
  - apply N.eqb_eq in H. cbn [str_decode]. rewrite H. reflexivity.
  - cbn zeta in H. apply andb_true_iff in H as [H H4]. apply andb_true_iff in H as [H H3]. apply andb_true_iff in H as [H1 H2].
    apply N.eqb_eq in H1. cbn [str_decode]. cbn zeta.
    destruct (is_lo_surr (u4_val a1 a2 a3 a4)); [discriminate|]. destruct (is_hi_surr (u4_val a1 a2 a3 a4)); [discriminate|].
    rewrite H1. unfold utf8_encode. rewrite H1 in H2. rewrite H2. destruct (str_decode r); reflexivity.
Qed.

Lemma str_decode_pieces s : forallb is_byte s = true -> str_decode (pieces_of s) = Some s.
Proof.
  unfold is_byte. induction s as [|b r IH]; [reflexivity|]. cbn [forallb]. intros H. apply andb_true_iff in H as [H1 H2].
  unfold pieces_of. cbn [map]. rewrite str_decode_piece by lia. fold (pieces_of r). rewrite (IH H2). reflexivity.
Qed.

Lemma str_text_pieces s : utf8_valid s = true -> str_text (pieces_of s) = Some s.
Proof. intros H. unfold str_text. rewrite (str_decode_pieces s (utf8_valid_bytes s H)), H. reflexivity. Qed.

Lemma str_decode_raw t : str_decode (raw_pieces t) = Some t.
Proof. induction t as [|b r IH]; [reflexivity|]. unfold raw_pieces in *. cbn [map str_decode]. rewrite IH. reflexivity. Qed.

Lemma str_text_raw t : asciib t = true -> str_text (raw_pieces t) = Some t.
Proof. intros H. unfold str_text. rewrite str_decode_raw, (forallb_ascii_utf8 t H). reflexivity. Qed.

(* ---- integers ------------------------------------------------------------------------------------------------ *)
Lemma span_len_all (p : N -> bool) l : forallb p l = true -> span_len p l = length l.
Proof. induction l as [|b r IH]; [reflexivity|]. cbn [forallb span_len length]. intros H. apply andb_true_iff in H as [H1 H2]. rewrite H1, (IH H2). reflexivity. Qed.

Lemma take_digits_all ds : forallb is_digit ds = true -> take_digits ds = (ds, []).
Proof. intros H. unfold take_digits. rewrite (span_len_all _ _ H), firstn_all, skipn_all. reflexivity. Qed.

Lemma numlit_of_digits ds : forallb is_digit ds = true -> numlit_of_text ds = Some (mkNum false ds None None).
Proof.
  intros H. unfold numlit_of_text.
  assert (E : match ds with 45 :: r => (true, r) | _ => (false, ds) end = (false, ds)).
  { destruct ds as [|d r]; [reflexivity|]. cbn [forallb] in H. apply andb_true_iff in H as [H _].
    destruct (N.eq_dec d 45) as [->|Hne]; [discriminate H|].
    destruct d as [|p]; [reflexivity|]. do 6 (destruct p as [p|p|]; try reflexivity). exfalso. apply Hne. reflexivity. }
  rewrite E, (take_digits_all ds H). reflexivity.
Qed.

Lemma numlit_of_neg_digits ds : forallb is_digit ds = true -> numlit_of_text (45 :: ds) = Some (mkNum true ds None None).
Proof. intros H. unfold numlit_of_text. rewrite (take_digits_all ds H). reflexivity. Qed.

Lemma numlit_of_itoa_text z : numlit_of_text (itoa_text z) = Some (mkNum (z <? 0)%Z (itoa (Z.to_N (if (z <? 0)%Z then - z else z))) None None).
Proof.
  unfold itoa_text. destruct (z <? 0)%Z; [apply numlit_of_neg_digits | apply numlit_of_digits]; apply itoa_digits.
Qed.

Lemma itoa_text_eq z : itoa_text z = itoa_z z. Proof. reflexivity. Qed.

(* the value of the digits itoa prints *)
Lemma dec_aux_val (fuel : nat) : forall n acc, n < 10 ^ N.of_nat fuel -> (0 < fuel)%nat ->
  digits_val (dec_digits_aux fuel n acc) 0 = (Z.of_N n * 10 ^ Z.of_nat (length acc) + digits_val acc 0)%Z.
Proof.
  induction fuel as [|f IH]; intros n acc Hn Hf; [lia|]. cbn [dec_digits_aux].
  destruct (n <? 10) eqn:E.
  - rewrite digits_val_cons. unfold digit_val. replace (48 + n - 48) with n by lia. reflexivity.
  - assert (Hq : n / 10 < 10 ^ N.of_nat f).
    { apply N.div_lt_upper_bound; [lia|]. rewrite Nnat.Nat2N.inj_succ, N.pow_succ_r' in Hn. lia. }
    assert (Hq1 : 1 <= n / 10) by (apply N.div_le_lower_bound; lia).
    assert (Hf' : (0 < f)%nat) by (destruct f; [cbn in Hq; lia | lia]).
    rewrite (IH _ _ Hq Hf'). rewrite digits_val_cons. cbn [length]. unfold digit_val.
    replace (48 + n mod 10 - 48) with (n mod 10) by lia.
    rewrite Nat2Z.inj_succ, Z.pow_succ_r by lia.
    pose proof (N.div_mod n 10 ltac:(lia)) as Hdm.
    assert (Hz : Z.of_N n = (10 * Z.of_N (n / 10) + Z.of_N (n mod 10))%Z) by lia.
    rewrite Hz. ring.
Qed.

Lemma itoa_val n : n < 10 ^ 40 -> digits_val (itoa n) 0 = Z.of_N n.
Proof. intros H. unfold itoa. rewrite (dec_aux_val 40 n [] H ltac:(lia)). cbn [length digits_val]. change (10 ^ Z.of_nat 0)%Z with 1%Z. lia. Qed.

Section NumDen.
  Variable cf : cfg.
  Hypothesis Hap : arbitrary_precision cf = false.

  Lemma render_abs_int neg ds : render_abs (mkNum neg ds None None) = ds ++ [].
  Proof. unfold render_abs, render_num. cbn [nneg nint nfrac nexp]. rewrite !app_nil_r. reflexivity. Qed.

  Lemma num_den_int neg n : n < 10 ^ 40 -> n <= u64_max ->
    num_den cf (mkNum neg (itoa n) None None)
    = Some (if negb neg then VNum (NPos n)
            else if (0 <? n) && (n <=? i64_min_abs) then VNum (NNeg (- Z.of_N n))
            else visit_number (PF64 (b64_neg (b64_of_Z (Z.of_N n))))).
  Proof.
    intros Hn Hu. unfold num_den. cbn [nneg]. rewrite render_abs_int. unfold parse_any_number, env0. cbn [Read.cf]. rewrite Hap.
    pose proof (parse_integer_int (mkEnv RSlice TEof cf) (negb neg) (itoa n) [] 0%nat false DEPTH0 eq_refl (itoa_int_ok n Hn) I) as H.
    cbn zeta in H. rewrite (itoa_val n Hn), N2Z.id in H.
    destruct (n <=? u64_max) eqn:E; [|lia]. unfold init_st. rewrite H.
    unfold visit_number_cfg. cbn [Read.cf]. rewrite Hap.
    destruct (negb neg); [reflexivity|]. destruct ((0 <? n) && (n <=? i64_min_abs)); reflexivity.
  Qed.

  (* unsigned integers up to u64::MAX and negative integers down to i64::MIN denote themselves *)
  Theorem num_image_int (z : Z) : (- Z.of_N i64_min_abs <= z <= Z.of_N u64_max)%Z ->
    num_image cf (itoa_text z) = Some (VNum (if (z <? 0)%Z then NNeg z else NPos (Z.to_N z))).
  Proof.
    intros Hz. unfold num_image. rewrite numlit_of_itoa_text. unfold u64_max, i64_min_abs in *.
    destruct (z <? 0)%Z eqn:E.
    - rewrite num_den_int; [| change (10 ^ 40) with 10000000000000000000000000000000000000000; lia | unfold u64_max; lia].
      cbn [negb]. assert (Hc : (0 <? Z.to_N (- z)) && (Z.to_N (- z) <=? i64_min_abs) = true) by (unfold i64_min_abs; lia).
      rewrite Hc. rewrite Z2N.id by lia. rewrite Z.opp_involutive. reflexivity.
    - rewrite num_den_int; [reflexivity | change (10 ^ 40) with 10000000000000000000000000000000000000000; lia | unfold u64_max; lia].
  Qed.
End NumDen.

(* ---- containers ------------------------------------------------------------------------------------------------ *)
Lemma denote_elems_of cf cs : denote_elems cf (elems_of cs) = sequence (map (denote cf) cs).
Proof.
  induction cs as [|c r IH]; [reflexivity|]. cbn [elems_of denote_elems map sequence]. rewrite IH.
  destruct (denote cf c); [|reflexivity]. destruct (sequence (map (denote cf) r)); reflexivity.
Qed.

Lemma denote_members_of cf ms :
  denote_members cf (members_of ms) = sequence (map (fun kc => pair_opt (str_text (fst kc)) (denote cf (snd kc))) ms).
Proof.
  induction ms as [|[k c] r IH]; [reflexivity|]. cbn [members_of denote_members map sequence fst snd]. rewrite IH.
  destruct (str_text k); cbn [pair_opt]; [|reflexivity]. destruct (denote cf c); [|reflexivity].
  destruct (sequence (map (fun kc => pair_opt (str_text (fst kc)) (denote cf (snd kc))) r)); reflexivity.
Qed.

Lemma seq_compose {A B C} (f : A -> option B) (g : B -> option C) (h : A -> option C) (l : list A) : forall r,
  sequence (map f l) = Some r -> Forall (fun a => forall b, f a = Some b -> g b = h a) l ->
  sequence (map g r) = sequence (map h l).
Proof.
  induction l as [|a l IH]; intros r E H; cbn [map sequence] in E.
  - inversion E. reflexivity.
  - destruct (f a) as [b|] eqn:Eb; [|discriminate]. destruct (sequence (map f l)) as [r'|] eqn:Er; [|discriminate].
    inversion E. subst r. inversion H as [|? ? Ha Hl]. subst. cbn [map sequence]. rewrite (Ha b Eb), (IH r' eq_refl Hl). reflexivity.
Qed.

Section Den.
  Variable cf : cfg.
  Variable fmt32 fmt64 : N -> bytes.
  Hypothesis H32 : forall b, f32_finite_bits b = true -> number_text_ok (fmt32 b) = true.
  Hypothesis H64 : forall b, f64_finite_bits b = true -> number_text_ok (fmt64 b) = true.
  Notation cst_of := (cst_of cf fmt32 fmt64).
  Notation key_pieces := (key_pieces fmt32 fmt64).
  Notation image := (image cf fmt32 fmt64).
  Notation key_text := (key_text fmt32 fmt64).

  Lemma denote_cint z : denote cf (cint z) = num_image cf (itoa_text z).
  Proof. unfold num_image. rewrite numlit_of_itoa_text. reflexivity. Qed.

  Lemma denote_cnum_text t : number_text_ok t = true -> denote cf (cnum_text t) = num_image cf t.
  Proof. unfold number_text_ok, cnum_text, num_image. destruct (numlit_of_text t); [reflexivity | discriminate]. Qed.

  Lemma denote_str s : utf8_valid s = true -> denote cf (CStr (pieces_of s)) = Some (VStr s).
  Proof. intros H. cbn [denote]. rewrite (str_text_pieces s H). reflexivity. Qed.

  Lemma key_pieces_text : forall k p, wfs k = true -> key_pieces k = Some p -> str_text p = key_text k.
  Proof.
    induction k using sval_ind'; intros p W E; cbn [key_pieces] in E; cbn [wfs] in W; cbn [key_text]; try discriminate.
    - inversion E. destruct b; reflexivity.
    - inversion E. apply str_text_raw, itoa_z_ascii.
    - change (finite32 b) with (f32_finite_bits b). destruct (f32_finite_bits b) eqn:Ef; [|discriminate]. inversion E.
      apply str_text_raw, number_text_ascii, H32, Ef.
    - change (finite64 b) with (f64_finite_bits b). destruct (f64_finite_bits b) eqn:Ef; [|discriminate]. inversion E.
      apply str_text_raw, number_text_ascii, H64, Ef.
    - inversion E. apply str_text_pieces, utf8_encode_valid, W.
    - inversion E. apply str_text_pieces, W.
    - apply IHk; assumption.
    - inversion E. apply str_text_pieces, W.
    - apply IHk; assumption.
    - inversion E. apply str_text_pieces, utf8_valid_concat, forallb_Forall, W.
  Qed.

  Definition D (v : sval) : Prop := wfs v = true -> forall c, cst_of v = Some c -> denote cf c = image v.

  Lemma denote_variant n c x : utf8_valid n = true -> denote cf c = x ->
    denote cf (variant_obj n c) = option_map (fun y => obj_of cf [(n, y)]) x.
  Proof.
    intros Hn Hc. unfold variant_obj. cbn [denote]. rewrite denote_members_of. cbn [map sequence fst snd].
    rewrite (str_text_pieces n Hn), Hc. destruct x; reflexivity.
  Qed.

  Lemma D_elems es cs : Forall D es -> forallb wfs es = true -> sequence (map cst_of es) = Some cs ->
    sequence (map (denote cf) cs) = sequence (map image es).
  Proof.
    intros H W E. apply (seq_compose cst_of (denote cf) image es cs E).
    rewrite Forall_forall in *. rewrite forallb_forall in W. intros e He c Ec. exact (H e He (W e He) c Ec).
  Qed.

  Lemma D_fields (fs : list (bytes * sval)) ms : Forall (fun kv => D (snd kv)) fs ->
    forallb (fun kv => utf8_valid (fst kv) && wfs (snd kv)) fs = true ->
    sequence (map (fun kv => pair_opt (Some (pieces_of (fst kv))) (cst_of (snd kv))) fs) = Some ms ->
    sequence (map (fun kc => pair_opt (str_text (fst kc)) (denote cf (snd kc))) ms)
    = sequence (map (fun kv => pair_opt (Some (fst kv)) (image (snd kv))) fs).
  Proof.
    intros H W E. apply (seq_compose _ _ _ fs ms E).
    rewrite Forall_forall in *. rewrite forallb_forall in W. intros kv Hkv [p c] Ep.
    specialize (W kv Hkv). apply andb_true_iff in W as [Wk Wv]. cbn [pair_opt] in Ep.
    destruct (cst_of (snd kv)) as [c'|] eqn:Ec; [|discriminate]. inversion Ep. subst. cbn [fst snd].
    rewrite (str_text_pieces _ Wk), (H kv Hkv Wv c Ec). reflexivity.
  Qed.

  Theorem denote_cst_of : forall v, D v.
  Proof.
    induction v using sval_ind'; unfold D; intros W c0 E; cbn [cst_of] in E; cbn [wfs] in W; cbn [image].
    - inversion E. destruct b; reflexivity.
    - inversion E. apply denote_cint.
    - inversion E. change (finite32 b) with (f32_finite_bits b). destruct (f32_finite_bits b) eqn:Ef; [|reflexivity].
      apply denote_cnum_text, H32, Ef.
    - inversion E. change (finite64 b) with (f64_finite_bits b). destruct (f64_finite_bits b) eqn:Ef; [|reflexivity].
      apply denote_cnum_text, H64, Ef.
    - inversion E. apply denote_str, utf8_encode_valid, W.
    - inversion E. apply denote_str, W.
    - inversion E. cbn [denote]. rewrite denote_elems_of, map_map.
      f_equal. f_equal. apply map_ext. intros b. apply denote_cint.
    - inversion E. reflexivity.
    - exact (IHv W c0 E).
    - inversion E. reflexivity.
    - inversion E. reflexivity.
    - inversion E. apply denote_str, W.
    - exact (IHv W c0 E).
    - apply andb_true_iff in W as [Wn W]. destruct (cst_of v) as [c|] eqn:Ec; [|discriminate]. inversion E.
      apply denote_variant; [exact Wn | exact (IHv W c Ec)].
    - apply andb_true_iff in W as [_ W]. destruct (sequence (map cst_of es)) as [cs|] eqn:Es; [|discriminate]. inversion E.
      cbn [denote]. rewrite denote_elems_of, (D_elems es cs H W Es). reflexivity.
    - destruct (sequence (map cst_of es)) as [cs|] eqn:Es; [|discriminate]. inversion E.
      cbn [denote]. rewrite denote_elems_of, (D_elems es cs H W Es). reflexivity.
    - destruct (sequence (map cst_of es)) as [cs|] eqn:Es; [|discriminate]. inversion E.
      cbn [denote]. rewrite denote_elems_of, (D_elems es cs H W Es). reflexivity.
    - apply andb_true_iff in W as [Wn W]. destruct (sequence (map cst_of es)) as [cs|] eqn:Es; [|discriminate]. inversion E.
      rewrite (denote_variant n _ (option_map VArr (sequence (map image es))) Wn).
      + destruct (sequence (map image es)); reflexivity.
      + cbn [denote]. rewrite denote_elems_of, (D_elems es cs H W Es). reflexivity.
    - apply andb_true_iff in W as [_ W].
      destruct (sequence (map (fun kv => pair_opt (key_pieces (fst kv)) (cst_of (snd kv))) kvs)) as [ms|] eqn:Es; [|discriminate].
      inversion E. cbn [denote]. rewrite denote_members_of.
      rewrite (seq_compose _ (fun kc => pair_opt (str_text (fst kc)) (denote cf (snd kc)))
                 (fun kv => pair_opt (key_text (fst kv)) (image (snd kv))) kvs ms Es); [reflexivity|].
      rewrite Forall_forall in *. rewrite forallb_forall in W. intros kv Hkv [p c] Ep.
      specialize (W kv Hkv). apply andb_true_iff in W as [Wk Wv]. cbn [fst snd].
      destruct (key_pieces (fst kv)) as [p'|] eqn:Ek; [|discriminate]. destruct (cst_of (snd kv)) as [c'|] eqn:Ec; [|discriminate].
      inversion Ep. subst. rewrite (key_pieces_text _ _ Wk Ek), (proj2 (H kv Hkv) Wv c Ec). reflexivity.
    - destruct (sequence (map (fun kv => pair_opt (Some (pieces_of (fst kv))) (cst_of (snd kv))) fs)) as [ms|] eqn:Es; [|discriminate].
      inversion E. cbn [denote]. rewrite denote_members_of, (D_fields fs ms H W Es). reflexivity.
    - apply andb_true_iff in W as [Wn W].
      destruct (sequence (map (fun kv => pair_opt (Some (pieces_of (fst kv))) (cst_of (snd kv))) fs)) as [ms|] eqn:Es; [|discriminate].
      inversion E.
      rewrite (denote_variant n _ (option_map (obj_of cf) (sequence (map (fun kv => pair_opt (Some (fst kv)) (image (snd kv))) fs))) Wn).
      + destruct (sequence (map (fun kv => pair_opt (Some (fst kv)) (image (snd kv))) fs)); reflexivity.
      + cbn [denote]. rewrite denote_members_of, (D_fields fs ms H W Es). reflexivity.
    - inversion E. apply denote_str, utf8_valid_concat, forallb_Forall, W.
    - destruct (arbitrary_precision cf).
      + inversion E. apply denote_cnum_text, W.
      + injection E as <-.
        assert (Hl : utf8_valid l = true) by (apply forallb_ascii_utf8, number_text_ascii, W).
        exact (denote_variant NUMBER_TOKEN (CStr (pieces_of l)) (Some (VStr l)) eq_refl (denote_str l Hl)).
  Qed.

  Theorem C03_denotes_image v c : wfs v = true -> cst_of v = Some c -> denote cf c = image v.
  Proof. intros W E. exact (denote_cst_of v W c E). Qed.
End Den.

Print Assumptions C03_denotes_image.
Print Assumptions num_image_int.
