(* Proofs/TypedDepth.v — the recursion limit for typed targets (typed clause of C14, model level).

   [nested n t doc]: the document prefix [doc] opens n containers of the type program t, through any mix of
   sequences, tuples, tuple structs, positional structs, maps, structs by name, externally tagged enum wrappers
   (newtype variants), Option and newtype-struct wrappers (which open nothing).

   typed_depth : with the limit enabled and a remaining budget of k+1 < n+1 containers, deserializing any input that
   starts with such a prefix ends with RecursionLimitExceeded (or the explicit fuel ran out) — never Ok, never another
   error.  With the initial budget 128 this is: nesting deeper than 127 typed containers is rejected.              *)
From SJ Require Import Base.Bytes Base.Utf8 Base.FloatB Gen.Tables Model.Read Model.Str Model.Num Model.Value Model.De
  Model.Ignore Model.Ty Model.DeTyped Proofs.TypedInt.
From Coq Require Import Lia ZifyBool ZifyNat ZifyN.
Open Scope N_scope.

Definition rec_or_fuel {A} (r : tres A) : Prop :=
  r = TFuel \/ exists i, r = TErr RecursionLimitExceeded i.

Lemma rof_tbind {A B} (r : tres A) (f : A -> tres B) : rec_or_fuel r -> rec_or_fuel (tbind r f).
Proof.
  intros [H|[i H]]; subst r; cbn [tbind]; [left; reflexivity|right; exists i; reflexivity].
Qed.

Lemma rof_fix {A} (E : env) (r : tres A) : rec_or_fuel r -> rec_or_fuel (fix_position E r).
Proof.
  intros [H|[i H]]; subst r; cbn [fix_position]; [left; reflexivity|right; exists i; reflexivity].
Qed.

Lemma rof_tmap {A B} (f : A -> B) (r : tres (A * st)) : rec_or_fuel r -> rec_or_fuel (tmap f r).
Proof. intros H. unfold tmap. apply rof_tbind. exact H. Qed.

(* key and variant names used by the nesting profiles: "k" and "V" *)
Definition key_k : list N := [34; 107; 34].
Definition name_V : list N := [86].
Definition key_V : list N := [34; 86; 34].
Definition name_a : list N := [97].
Definition key_a : list N := [34; 97; 34].

Inductive nested : nat -> ty -> list N -> Prop :=
  | N_seq n t d : nested n t d -> nested (S n) (TSeq t) (91 :: d)
  | N_tuple n t ts d : nested n t d -> nested (S n) (TTuple (t :: ts)) (91 :: d)
  | N_tuple_struct n t ts d : nested n t d -> nested (S n) (TTupleStruct (t :: ts)) (91 :: d)
  | N_struct_pos n nm t fs d : nested n t d -> nested (S n) (TStruct ((nm, t) :: fs)) (91 :: d)
  | N_map n t d : nested n t d -> nested (S n) (TMap KStr t) (123 :: key_k ++ 58 :: d)
  | N_struct n t fs d : nested n t d -> nested (S n) (TStruct ((name_a, t) :: fs)) (123 :: key_a ++ 58 :: d)
  | N_enum n t vs d : nested n t d -> nested (S n) (TEnum ((name_V, VNewtype t) :: vs)) (123 :: key_V ++ 58 :: d)
  | N_option n t d : nested (S n) t d -> nested (S n) (TOption t) d
  | N_newtype n t d : nested (S n) t d -> nested (S n) (TNewtype t) d
  | N_leaf t d : nested 0 t d.

(* a prefix that opens at least one container starts with a bracket *)
Lemma nested_hd (n : nat) (t : ty) (d : list N) : nested (S n) t d ->
  exists c l, d = c :: l /\ (c = 91 \/ c = 123).
Proof.
  intros H. remember (S n) as m eqn:Hm. revert n Hm.
  induction H as [n t d H IH|n t ts d H IH|n t ts d H IH|n nm t fs d H IH|n t d H IH|n t fs d H IH|n t vs d H IH
                  |n t d H IH|n t d H IH|t d]; intros n0 Hm;
    try (eexists _, _; split; [reflexivity|]; (left; reflexivity) || (right; reflexivity)).
  - exact (IH n eq_refl).
  - exact (IH n eq_refl).
  - discriminate Hm.
Qed.

Lemma ws_91 : is_ws 91 = false. Proof. reflexivity. Qed.
Lemma ws_123 : is_ws 123 = false. Proof. reflexivity. Qed.

Lemma bracket_not_ws (c : N) : c = 91 \/ c = 123 -> is_ws c = false.
Proof. intros [H|H]; subst c; reflexivity. Qed.

(* check_recursion! with the budget spelled as a natural number *)
Lemma enter_budget (E : env) (l : list N) (o : nat) (p : bool) (k : nat) :
  limit_disabled (cf E) = false -> (k < 255)%nat ->
  enter E (mkSt l o p (N.of_nat (S k))) =
    match k with
    | O => peek_error E (mkSt l o p 0) RecursionLimitExceeded
    | S _ => Ok (mkSt l o p (N.of_nat k))
    end.
Proof.
  intros HL Hk. unfold enter. rewrite HL. cbn [Read.depth Read.rest Read.off Read.pk].
  assert (H0 : (N.of_nat (S k) =? 0) = false) by lia. rewrite H0.
  replace (N.of_nat (S k) - 1) with (N.of_nat k) by lia.
  destruct k as [|k']; [reflexivity|].
  assert (H1 : (N.of_nat (S k') =? 0) = false) by lia. rewrite H1. reflexivity.
Qed.

(* the shared container frame: budget exhausted => RecursionLimitExceeded; otherwise whatever the body says *)
Lemma frame_rof {A} (E : env) endf endst (body : st -> tres (A * st)) (l : list N) (o : nat) (p : bool) (k : nat) :
  limit_disabled (cf E) = false -> (k < 255)%nat ->
  (forall k', k = S k' -> rec_or_fuel (body (mkSt (tl l) (S o) false (N.of_nat k)))) ->
  rec_or_fuel (frame E endf endst body (mkSt l o p (N.of_nat (S k)))).
Proof.
  intros HL Hk Hbody. unfold frame. rewrite (enter_budget E l o p k HL Hk).
  destruct k as [|k'].
  - right. unfold peek_error. cbn [lift tbind]. eexists; reflexivity.
  - cbn [lift tbind].
    change (discard (mkSt l o p (N.of_nat (S k')))) with (mkSt (tl l) (S o) false (N.of_nat (S k'))).
    destruct (Hbody k' eq_refl) as [H|[i H]]; rewrite H; [left; reflexivity|right; exists i; reflexivity].
Qed.

(* Read::parse_str on a one-letter ASCII name: any reader *)
Lemma parse_str_one (E : env) (c : N) (l : list N) (o : nat) (p : bool) (d : N) :
  (32 <= c)%N -> (c < 128)%N -> c <> 34 -> c <> 92 ->
  exists b, parse_str E (mkSt (c :: 34 :: l) o p d) = Ok ([c], b, mkSt l (S (S o)) false d).
Proof.
  intros H32 H128 H34 H92.
  assert (Hesc : forall ctrl, is_escape c ctrl = false).
  { intros ctrl. unfold is_escape, ESC_QUOTE, ESC_BSLASH, CTRL_LIMIT. destruct ctrl; lia. }
  assert (Hu : utf8_valid [c] = true).
  { cbn [utf8_valid]. assert (Hlt : (c <? 128) = true) by lia. rewrite Hlt. reflexivity. }
  unfold parse_str, str_fuel. cbn [Read.rest length].
  destruct (rk E).
  - (* slice *)
    cbn [slice_str_loop]. unfold esc_span. cbn [Read.rest span_len]. rewrite (Hesc true). cbn [negb span_len].
    change (is_escape 34 true) with true. cbn [negb firstn].
    unfold advance. cbn [skipn Read.rest Read.off Read.depth].
    change (34 =? 34) with true. cbv iota. cbn [bind]. rewrite Hu.
    exists true. cbn [negb skipn]. repeat f_equal. lia.
  - (* str *)
    cbn [slice_str_loop]. unfold esc_span. cbn [Read.rest span_len]. rewrite (Hesc true). cbn [negb span_len].
    change (is_escape 34 true) with true. cbn [negb firstn].
    unfold advance. cbn [skipn Read.rest Read.off Read.depth].
    change (34 =? 34) with true. cbv iota. cbn [bind].
    exists true. cbn [negb skipn]. repeat f_equal. lia.
  - (* io *)
    cbn [io_str_loop]. unfold next_or_eof. rewrite NumInt.next_cons. cbn [bind]. rewrite (Hesc true). cbn [negb].
    rewrite NumInt.next_cons. cbn [bind]. change (is_escape 34 true) with true. cbn [negb].
    change (34 =? 34) with true. cbv iota. cbn [bind app]. rewrite Hu.
    exists false. reflexivity.
Qed.

Lemma colon_step (E : env) (l : list N) (o : nat) (p : bool) (d : N) :
  parse_object_colon E (mkSt (58 :: l) o p d) = Ok (mkSt l (S o) false d).
Proof.
  unfold parse_object_colon. rewrite (parse_whitespace_hd E 58 l o p d eq_refl). cbn [bind].
  change (58 =? 58) with true. reflexivity.
Qed.

Lemma slot_fresh {A} (i : nat) (fs : list A) : slot_filled i (map (fun _ => None) fs) = false.
Proof.
  unfold slot_filled. revert i. induction fs as [|x fs IH]; intros i; destruct i; cbn [map nth]; try reflexivity.
  apply IH.
Qed.

(* ------------------------------------------------------------------------------------------ *)
Lemma typed_depth_aux (n : nat) (t : ty) (doc : list N) : nested n t doc ->
  forall (E : env) (fuel : nat) (rest : list N) (o : nat) (p : bool) (k : nat),
    limit_disabled (cf E) = false -> (k < n)%nat -> (k < 255)%nat ->
    rec_or_fuel (de_typed fuel E t (mkSt (doc ++ rest) o p (N.of_nat (S k)))).
Proof.
  intros H.
  induction H as [n t d H IH|n t ts d H IH|n t ts d H IH|n nm t fs d H IH|n t d H IH|n t fs d H IH|n t vs d H IH
                  |n t d H IH|n t d H IH|t d];
    intros E fuel rest o p k HL Hkn Hk; (destruct fuel as [|f]; [left; reflexivity|]).
  - (* Vec *)
    cbn [de_typed]. apply rof_tmap. unfold deserialize_seq.
    rewrite <- app_comm_cons, (parse_whitespace_hd E 91 (d ++ rest) o p _ ws_91). cbn [lift tbind].
    change (91 =? 91) with true. cbv iota. apply rof_fix. apply frame_rof; [exact HL|exact Hk|].
    intros k' Hk'. subst k. cbn [tl].
    destruct f as [|f']; [left; reflexivity|]. cbn [de_elems].
    destruct n as [|n']; [lia|].
    destruct (nested_hd n' t d H) as (c & l & Hd & Hc). subst d. rewrite <- app_comm_cons.
    unfold has_next_element. rewrite (parse_whitespace_hd E c (l ++ rest) (S o) false _ (bracket_not_ws c Hc)).
    cbn [bind lift tbind]. assert (H93 : (c =? 93) = false) by (destruct Hc; subst c; reflexivity). rewrite H93.
    cbn [lift tbind]. rewrite app_comm_cons. apply rof_tbind. apply IH; [exact HL|lia|lia].
  - (* tuple *)
    cbn [de_typed]. apply rof_tmap. unfold deserialize_seq.
    rewrite <- app_comm_cons, (parse_whitespace_hd E 91 (d ++ rest) o p _ ws_91). cbn [lift tbind].
    change (91 =? 91) with true. cbv iota. apply rof_fix. apply frame_rof; [exact HL|exact Hk|].
    intros k' Hk'. subst k. cbn [tl].
    destruct f as [|f']; [left; reflexivity|]. cbn [de_tuple].
    destruct n as [|n']; [lia|].
    destruct (nested_hd n' t d H) as (c & l & Hd & Hc). subst d. rewrite <- app_comm_cons.
    unfold has_next_element. rewrite (parse_whitespace_hd E c (l ++ rest) (S o) false _ (bracket_not_ws c Hc)).
    cbn [bind lift tbind]. assert (H93 : (c =? 93) = false) by (destruct Hc; subst c; reflexivity). rewrite H93.
    cbn [lift tbind]. rewrite app_comm_cons. apply rof_tbind. apply IH; [exact HL|lia|lia].
  - (* tuple struct *)
    cbn [de_typed]. apply rof_tmap. unfold deserialize_seq.
    rewrite <- app_comm_cons, (parse_whitespace_hd E 91 (d ++ rest) o p _ ws_91). cbn [lift tbind].
    change (91 =? 91) with true. cbv iota. apply rof_fix. apply frame_rof; [exact HL|exact Hk|].
    intros k' Hk'. subst k. cbn [tl].
    destruct f as [|f']; [left; reflexivity|]. cbn [de_tuple].
    destruct n as [|n']; [lia|].
    destruct (nested_hd n' t d H) as (c & l & Hd & Hc). subst d. rewrite <- app_comm_cons.
    unfold has_next_element. rewrite (parse_whitespace_hd E c (l ++ rest) (S o) false _ (bracket_not_ws c Hc)).
    cbn [bind lift tbind]. assert (H93 : (c =? 93) = false) by (destruct Hc; subst c; reflexivity). rewrite H93.
    cbn [lift tbind]. rewrite app_comm_cons. apply rof_tbind. apply IH; [exact HL|lia|lia].
  - (* struct, positional *)
    cbn [de_typed]. destruct f as [|f]; [left; reflexivity|]. cbn [de_struct]. apply rof_tmap. unfold deserialize_struct.
    rewrite <- app_comm_cons, (parse_whitespace_hd E 91 (d ++ rest) o p _ ws_91). cbn [lift tbind].
    change (91 =? 91) with true. cbv iota. apply rof_fix. apply frame_rof; [exact HL|exact Hk|].
    intros k' Hk'. subst k. cbn [tl map snd].
    destruct f as [|f']; [left; reflexivity|]. cbn [de_tuple].
    destruct n as [|n']; [lia|].
    destruct (nested_hd n' t d H) as (c & l & Hd & Hc). subst d. rewrite <- app_comm_cons.
    unfold has_next_element. rewrite (parse_whitespace_hd E c (l ++ rest) (S o) false _ (bracket_not_ws c Hc)).
    cbn [bind lift tbind]. assert (H93 : (c =? 93) = false) by (destruct Hc; subst c; reflexivity). rewrite H93.
    cbn [lift tbind]. rewrite app_comm_cons. apply rof_tbind. apply IH; [exact HL|lia|lia].
  - (* map with String keys *)
    cbn [de_typed]. apply rof_tmap. unfold deserialize_map.
    rewrite <- app_comm_cons, (parse_whitespace_hd E 123 _ o p _ ws_123). cbn [lift tbind].
    change (123 =? 123) with true. cbv iota. apply rof_fix. apply frame_rof; [exact HL|exact Hk|].
    intros k' Hk'. subst k. cbn [tl].
    destruct f as [|f']; [left; reflexivity|]. cbn [de_entries].
    unfold key_k. cbn [app]. unfold has_next_key.
    rewrite (parse_whitespace_hd E 34 _ (S o) false _ eq_refl). cbn [bind lift tbind].
    change (34 =? 125) with false. change (34 =? 34) with true. cbv iota. cbn [lift tbind].
    destruct f' as [|f'']; [left; reflexivity|]. cbn [de_key].
    change (discard (mkSt (34 :: 107 :: 34 :: 58 :: d ++ rest) (S o) true (N.of_nat (S k'))))
      with (mkSt (107 :: 34 :: 58 :: d ++ rest) (S (S o)) false (N.of_nat (S k'))).
    destruct (parse_str_one E 107 (58 :: d ++ rest) (S (S o)) false (N.of_nat (S k'))) as (b & Hps); try lia.
    rewrite Hps. cbn [lift tbind visit_string]. rewrite colon_step. cbn [lift tbind].
    apply rof_tbind. apply IH; [exact HL|lia|lia].
  - (* struct by name *)
    cbn [de_typed]. destruct f as [|f]; [left; reflexivity|]. cbn [de_struct]. apply rof_tmap. unfold deserialize_struct.
    rewrite <- app_comm_cons, (parse_whitespace_hd E 123 _ o p _ ws_123). cbn [lift tbind].
    change (123 =? 91) with false. change (123 =? 123) with true. cbv iota. apply rof_fix.
    apply frame_rof; [exact HL|exact Hk|].
    intros k' Hk'. subst k. cbn [tl].
    destruct f as [|f']; [left; reflexivity|]. cbn [de_fields].
    unfold key_a. cbn [app]. unfold has_next_key.
    rewrite (parse_whitespace_hd E 34 _ (S o) false _ eq_refl). cbn [bind lift tbind].
    change (34 =? 125) with false. change (34 =? 34) with true. cbv iota. cbn [lift tbind].
    change (discard (mkSt (34 :: 97 :: 34 :: 58 :: d ++ rest) (S o) true (N.of_nat (S k'))))
      with (mkSt (97 :: 34 :: 58 :: d ++ rest) (S (S o)) false (N.of_nat (S k'))).
    destruct (parse_str_one E 97 (58 :: d ++ rest) (S (S o)) false (N.of_nat (S k'))) as (b & Hps); try lia.
    rewrite Hps. cbn [lift tbind].
    assert (Hix : index_of [97] ((name_a, t) :: fs) = Some (O, t)) by reflexivity.
    rewrite Hix. rewrite (slot_fresh O ((name_a, t) :: fs)). rewrite colon_step. cbn [lift tbind].
    apply rof_tbind. apply IH; [exact HL|lia|lia].
  - (* externally tagged enum, newtype variant *)
    cbn [de_typed]. unfold deserialize_enum.
    rewrite <- app_comm_cons, (parse_whitespace_hd E 123 _ o p _ ws_123). cbn [lift tbind].
    change (123 =? 123) with true. cbv iota.
    rewrite (enter_budget E _ o true k HL Hk).
    destruct k as [|k']; [right; unfold peek_error; cbn [lift tbind]; eexists; reflexivity|].
    cbn [lift tbind].
    unfold key_V. cbn [app].
    change (discard (mkSt (123 :: 34 :: 86 :: 34 :: 58 :: d ++ rest) o true (N.of_nat (S k'))))
      with (mkSt (34 :: 86 :: 34 :: 58 :: d ++ rest) (S o) false (N.of_nat (S k'))).
    unfold deserialize_str at 1.
    rewrite (parse_whitespace_hd E 34 _ (S o) false _ eq_refl). cbn [lift tbind].
    change (34 =? 34) with true. cbv iota.
    change (discard (mkSt (34 :: 86 :: 34 :: 58 :: d ++ rest) (S o) true (N.of_nat (S k'))))
      with (mkSt (86 :: 34 :: 58 :: d ++ rest) (S (S o)) false (N.of_nat (S k'))).
    destruct (parse_str_one E 86 (58 :: d ++ rest) (S (S o)) false (N.of_nat (S k'))) as (b & Hps); try lia.
    rewrite Hps. cbn [lift tbind]. unfold visit_variant.
    assert (Hix : index_of [86] ((name_V, VNewtype t) :: vs) = Some (O, VNewtype t)) by reflexivity.
    rewrite Hix. cbn [fix_position tbind]. rewrite colon_step. cbn [lift tbind].
    assert (Hrof : rec_or_fuel (de_typed f E t (mkSt (d ++ rest) (S (S (S (S (S o))))) false (N.of_nat (S k')))))
      by (apply IH; [exact HL|lia|lia]).
    destruct Hrof as [Hr|[i Hr]]; rewrite Hr; cbn [tmap tbind]; [left; reflexivity|right; exists i; reflexivity].
  - (* Option: the next byte is a bracket, not `n` *)
    cbn [de_typed].
    destruct (nested_hd n t d H) as (c & l & Hd & Hc). subst d. rewrite <- app_comm_cons.
    rewrite (parse_whitespace_hd E c (l ++ rest) o p _ (bracket_not_ws c Hc)). cbn [lift tbind].
    assert (H110 : (c =? 110) = false) by (destruct Hc; subst c; reflexivity). rewrite H110.
    apply rof_tmap. rewrite app_comm_cons. apply IH; [exact HL|exact Hkn|exact Hk].
  - (* newtype struct *)
    cbn [de_typed]. apply rof_tmap. apply IH; [exact HL|exact Hkn|exact Hk].
  - lia.
Qed.

(* Nesting deeper than the remaining budget of typed containers is rejected with the recursion-limit error. *)
Theorem typed_depth : forall n t doc E fuel rest off pk k,
  nested n t doc -> limit_disabled (cf E) = false -> (k < n)%nat -> (k < 255)%nat ->
  let r := de_typed fuel E t (mkSt (doc ++ rest) off pk (N.of_nat (S k))) in
  r = TFuel \/ exists i, r = TErr RecursionLimitExceeded i.
Proof.
  intros n t doc E fuel rest o p k Hn HL Hkn Hk. cbv zeta.
  exact (typed_depth_aux n t doc Hn E fuel rest o p k HL Hkn Hk).
Qed.

(* from the initial state: the budget is DEPTH0 = 128, so 128 or more containers are rejected *)
Corollary typed_depth_128 : forall n t doc E rest,
  nested n t doc -> limit_disabled (cf E) = false -> (128 <= n)%nat ->
  let r := from_input_typed E t (doc ++ rest) in
  r = TFuel \/ exists i, r = TErr RecursionLimitExceeded i.
Proof.
  intros n t doc E rest Hn HL Hge. cbv zeta. unfold from_input_typed, init_st.
  change DEPTH0 with (N.of_nat (S 127)).
  destruct (typed_depth_aux n t doc Hn E (typed_fuel t (doc ++ rest)) rest 0%nat false 127%nat HL ltac:(lia) ltac:(lia)) as [H|[i H]];
    rewrite H; cbn [tbind]; [left; reflexivity|right; exists i; reflexivity].
Qed.

(* the statement is not vacuous: 127 levels are accepted, the 128th is rejected (with the fuel of from_input_typed) *)
Fixpoint seq_ty (n : nat) (t : ty) : ty := match n with O => t | S n' => TSeq (seq_ty n' t) end.
Fixpoint enum_ty (n : nat) (t : ty) : ty := match n with O => t | S n' => TEnum [(name_V, VNewtype (enum_ty n' t))] end.
Fixpoint enum_doc (n : nat) (inner : list N) : list N :=
  match n with O => inner | S n' => 123 :: key_V ++ 58 :: enum_doc n' inner ++ [125] end.

Example depth_127_seq_ok :
  exists d, from_input_typed E_sl (seq_ty 127 (TInt I8)) (repeat 91 127 ++ [49] ++ repeat 93 127) = TOk d.
Proof. eexists. vm_compute. reflexivity. Qed.
Example depth_128_seq_rejected :
  from_input_typed E_sl (seq_ty 128 (TInt I8)) (repeat 91 128 ++ [49] ++ repeat 93 128) = TErr RecursionLimitExceeded 128.
Proof. vm_compute. reflexivity. Qed.
Example depth_127_enum_ok :
  exists d, from_input_typed E_sl (enum_ty 127 (TInt I8)) (enum_doc 127 [49]) = TOk d.
Proof. eexists. vm_compute. reflexivity. Qed.
Example depth_128_enum_rejected :
  exists i, from_input_typed E_sl (enum_ty 128 (TInt I8)) (enum_doc 128 [49]) = TErr RecursionLimitExceeded i.
Proof. eexists. vm_compute. reflexivity. Qed.

Print Assumptions typed_depth.
Print Assumptions typed_depth_128.
