(* Proofs/StrRefine.v — the byte-at-a-time (IoRead) and the chunk-wise (SliceRead) string scanners
   of src/read.rs compute the same contents, the same final cursor and the same error code / index,
   for every input and every start state; and neither runs out of fuel or panics.

   Structure
     1. generic helpers (post-conditions on [res], dropping the Borrowed/Copied flag)
     2. arithmetic: decode_four_hex <= 0xFFFF, surrogate pair <= 0x10FFFF, push_wtf8 total
     3. the reader primitives on an end-of-input terminated source do not depend on the reader kind
     4. unicode_loop / parse_escape / ignore_escape: independence of reader kind and of (sufficient) fuel, totality
     5. one-step unfoldings of the four loops
     6. io loop = slice loop (strong induction on the remaining input)
     7. totality of the loops
     8. the theorems about parse_str / parse_str_raw / ignore_str *)
From SJ Require Import Base.Bytes Base.Utf8 Gen.Tables Model.Read Model.Str.
Require Import Lia ZifyBool ZifyNat ZifyN.
Open Scope N_scope.

(* ------------------------------------------------------------------------------------------ *)
(** * 1. Generic helpers *)

Definition drop_flag (r : res (list N * bool * st)) : res (list N * st) :=
  match r with Ok (b, _, s) => Ok (b, s) | Err c i => Err c i | OutOfFuel => OutOfFuel | Panic => Panic end.

(* [post P r]: [r] is neither OutOfFuel nor Panic, and if it is [Ok a] then [P a]. *)
Definition post {A} (P : A -> Prop) (r : res A) : Prop :=
  match r with Ok a => P a | Err _ _ => True | OutOfFuel => False | Panic => False end.

Lemma post_bind {A B} (P : A -> Prop) (Q : B -> Prop) (r : res A) (f : A -> res B) :
  post P r -> (forall a, P a -> post Q (f a)) -> post Q (bind r f).
Proof.
  intros Hr Hf. destruct r as [a|c i| |]; cbn [bind post] in *; auto.
Qed.

Lemma post_weaken {A} (P Q : A -> Prop) (r : res A) :
  post P r -> (forall a, P a -> Q a) -> post Q r.
Proof.
  intros Hr Hpq. destruct r as [a|c i| |]; cbn [post] in *; auto.
Qed.

Lemma post_total {A} (P : A -> Prop) (r : res A) : post P r -> r <> OutOfFuel /\ r <> Panic.
Proof.
  intros Hr. destruct r as [a|c i| |]; cbn [post] in Hr; try contradiction; split; discriminate.
Qed.

Lemma post_drop_flag (P : list N * st -> Prop) (r : res (list N * bool * st)) :
  post P (drop_flag r) -> post (fun x => P (fst (fst x), snd x)) r.
Proof.
  destruct r as [[[b c] s]|c i| |]; cbn [drop_flag post fst snd]; auto.
Qed.

(* ------------------------------------------------------------------------------------------ *)
(** * 2. Arithmetic on code points *)

Lemma N_lor_lt_pow2 (a b n : N) : a < 2 ^ n -> b < 2 ^ n -> N.lor a b < 2 ^ n.
Proof.
  intros Ha Hb.
  destruct (N.eq_dec a 0) as [Ea|Na]; [subst a; rewrite N.lor_0_l; exact Hb|].
  destruct (N.eq_dec b 0) as [Eb|Nb]; [subst b; rewrite N.lor_0_r; exact Ha|].
  assert (Hl : N.lor a b <> 0) by (rewrite N.lor_eq_0_iff; tauto).
  apply N.log2_lt_pow2; [lia|].
  rewrite N.log2_lor.
  apply N.log2_lt_pow2 in Ha; [|lia].
  apply N.log2_lt_pow2 in Hb; [|lia].
  lia.
Qed.

Lemma hex_lookup_bound (rs : list (N * N * N)) :
  forallb (fun t => let '(lo, hi, add) := t in (lo <=? hi) && (hi - lo + add <=? 15)) rs = true ->
  forall b v, hex_lookup rs b = Some v -> v <= 15.
Proof.
  induction rs as [|[[lo hi] add] rs IH]; intros Hall b v Hv; cbn [hex_lookup forallb] in *.
  - discriminate.
  - apply andb_true_iff in Hall. destruct Hall as [Hhd Htl].
    destruct ((lo <=? b) && (b <=? hi)) eqn:Hin.
    + injection Hv as <-. lia.
    + eapply IH; eauto.
Qed.

Lemma hex_val_bound (b v : N) : hex_val b = Some v -> v <= 15.
Proof.
  unfold hex_val. apply hex_lookup_bound. vm_compute. reflexivity.
Qed.

Lemma Z_lor_of_N (a b : N) : Z.lor (Z.of_N a) (Z.of_N b) = Z.of_N (N.lor a b).
Proof. destruct a, b; reflexivity. Qed.

Lemma Z_shiftl_of_N (a n : N) : Z.shiftl (Z.of_N a) (Z.of_N n) = Z.of_N (a * 2 ^ n).
Proof.
  rewrite Z.shiftl_mul_pow2 by apply N2Z.is_nonneg.
  rewrite N2Z.inj_mul, N2Z.inj_pow. reflexivity.
Qed.

Lemma hex_tab_cases (sh b : N) :
  hex_tab sh b = (-1)%Z \/ exists v, v <= 15 /\ hex_tab sh b = Z.of_N (v * 2 ^ sh).
Proof.
  unfold hex_tab. destruct (hex_val b) as [v|] eqn:Hv.
  - right. exists v. split; [eapply hex_val_bound; eauto|].
    apply Z_shiftl_of_N.
  - left. reflexivity.
Qed.

Lemma decode_four_hex_bound (a b c d v : N) : decode_four_hex a b c d = Some v -> v <= 65535.
Proof.
  unfold decode_four_hex.
  set (cp := Z.lor _ _).
  destruct (0 <=? cp)%Z eqn:Hpos; [|discriminate].
  intros Hv. injection Hv as <-.
  apply Z.leb_le in Hpos.
  assert (Hneg : forall x y : Z, (x < 0)%Z \/ (y < 0)%Z -> (Z.lor x y < 0)%Z)
    by (intros x y Hxy; apply Z.lor_neg; exact Hxy).
  destruct (hex_tab_cases 4 a) as [Ea|[va [Hva Ea]]].
  { exfalso. subst cp. rewrite Ea in Hpos.
    assert ((-1 < 0)%Z) by lia.
    pose proof (Hneg (-1)%Z (hex_tab 0 b) (or_introl H)) as H1.
    pose proof (proj2 (Z.shiftl_neg _ 8) H1) as H2.
    pose proof (Hneg _ (hex_tab 4 c) (or_introl H2)) as H3.
    pose proof (Hneg _ (hex_tab 0 d) (or_introl H3)) as H4. lia. }
  destruct (hex_tab_cases 0 b) as [Eb|[vb [Hvb Eb]]].
  { exfalso. subst cp. rewrite Eb in Hpos.
    assert ((-1 < 0)%Z) by lia.
    pose proof (Hneg (hex_tab 4 a) (-1)%Z (or_intror H)) as H1.
    pose proof (proj2 (Z.shiftl_neg _ 8) H1) as H2.
    pose proof (Hneg _ (hex_tab 4 c) (or_introl H2)) as H3.
    pose proof (Hneg _ (hex_tab 0 d) (or_introl H3)) as H4. lia. }
  destruct (hex_tab_cases 4 c) as [Ec|[vc [Hvc Ec]]].
  { exfalso. subst cp. rewrite Ec in Hpos.
    assert ((-1 < 0)%Z) by lia.
    pose proof (Hneg (Z.shiftl (Z.lor (hex_tab 4 a) (hex_tab 0 b)) 8) (-1)%Z (or_intror H)) as H3.
    pose proof (Hneg _ (hex_tab 0 d) (or_introl H3)) as H4. lia. }
  destruct (hex_tab_cases 0 d) as [Ed|[vd [Hvd Ed]]].
  { exfalso. subst cp. rewrite Ed in Hpos.
    assert ((-1 < 0)%Z) by lia.
    pose proof (Hneg (Z.lor (Z.shiftl (Z.lor (hex_tab 4 a) (hex_tab 0 b)) 8) (hex_tab 4 c)) (-1)%Z
                  (or_intror H)) as H4. lia. }
  subst cp. rewrite Ea, Eb, Ec, Ed.
  change 8%Z with (Z.of_N 8).
  rewrite Z_lor_of_N, Z_shiftl_of_N, !Z_lor_of_N, N2Z.id.
  change (2 ^ 4) with 16. change (2 ^ 0) with 1. change (2 ^ 8) with 256.
  assert (H1 : N.lor (va * 16) (vb * 1) < 2 ^ 8) by (apply N_lor_lt_pow2; change (2 ^ 8) with 256; lia).
  change (2 ^ 8) with 256 in H1.
  assert (H2 : N.lor (N.lor (N.lor (va * 16) (vb * 1) * 256) (vc * 16)) (vd * 1) < 2 ^ 16).
  { apply N_lor_lt_pow2; [apply N_lor_lt_pow2|]; change (2 ^ 16) with 65536; lia. }
  change (2 ^ 16) with 65536 in H2. lia.
Qed.

Lemma surrogate_pair_bound (n1 n2 : N) :
  55296 <= n1 -> n1 <= 56319 -> 56320 <= n2 -> n2 <= 57343 ->
  N.lor (N.shiftl (n1 - 55296) 10) (n2 - 56320) + 65536 <= 1114111.
Proof.
  intros H1 H2 H3 H4.
  assert (H : N.lor (N.shiftl (n1 - 55296) 10) (n2 - 56320) < 2 ^ 20).
  { apply N_lor_lt_pow2; rewrite ?N.shiftl_mul_pow2;
      change (2 ^ 20) with 1048576; change (2 ^ 10) with 1024; lia. }
  change (2 ^ 20) with 1048576 in H. lia.
Qed.

Lemma push_wtf8_total (n : N) : n <= 1114111 -> exists w, push_wtf8 n = Ok w.
Proof.
  intros Hn. unfold push_wtf8.
  destruct (n <? 128); [eauto|].
  destruct (n <=? 2047); [eauto|].
  destruct (n <=? 65535); [eauto|].
  destruct (n <=? 1114111) eqn:H; [eauto|]. lia.
Qed.

(* ------------------------------------------------------------------------------------------ *)
(** * 3. Reader primitives at an end-of-input terminated source *)

Section Prims.
Variables (rk0 : rkind) (cf0 : cfg).
Let E := mkEnv rk0 TEof cf0.

Lemma error_false (l : list N) (o : nat) (d : N) (c : ecode) (A : Type) :
  @error A E (mkSt l o false d) c = Err c o.
Proof.
  unfold error, err_idx, is_io, E. cbn [rk pk off]. destruct rk0; f_equal; lia.
Qed.

Lemma next_or_eof_cons (b : N) (r : list N) (o : nat) (p : bool) (d : N) :
  next_or_eof E (mkSt (b :: r) o p d) = Ok (b, mkSt r (S o) false d).
Proof. reflexivity. Qed.

Lemma next_or_eof_nil (o : nat) (p : bool) (d : N) :
  next_or_eof E (mkSt [] o p d) = Err EofWhileParsingString o.
Proof.
  unfold next_or_eof, next, at_end, E. cbn [rest tm bind off depth].
  apply error_false.
Qed.

Lemma peek_or_eof_cons (b : N) (r : list N) (o : nat) (p : bool) (d : N) :
  peek_or_eof E (mkSt (b :: r) o p d) = Ok (b, mkSt (b :: r) o true d).
Proof. reflexivity. Qed.

Lemma peek_or_eof_nil (o : nat) (p : bool) (d : N) :
  peek_or_eof E (mkSt [] o p d) = Err EofWhileParsingString o.
Proof.
  unfold peek_or_eof, peek, at_end, E. cbn [rest tm bind off depth].
  apply error_false.
Qed.

End Prims.

(* reader-independent description of decode_hex_escape *)
Definition dhe (s : st) : res (N * st) :=
  match rest s with
  | a :: b :: c :: d :: r =>
    match decode_four_hex a b c d with
    | Some v => Ok (v, mkSt r (off s + 4) false (depth s))
    | None => Err InvalidEscape (off s + 4)
    end
  | _ => Err EofWhileParsingString (off s + length (rest s))
  end.

Lemma decode_hex_escape_dhe rk0 cf0 (s : st) : decode_hex_escape (mkEnv rk0 TEof cf0) s = dhe s.
Proof.
  destruct s as [l o p dp]. unfold decode_hex_escape, dhe, is_io. cbn [rk rest off depth].
  destruct rk0.
  - (* slice *)
    destruct l as [|a [|b [|c [|d r]]]]; unfold advance; cbn [rest off depth length skipn];
      try destruct (decode_four_hex a b c d); rewrite ?error_false; reflexivity.
  - (* str *)
    destruct l as [|a [|b [|c [|d r]]]]; unfold advance; cbn [rest off depth length skipn];
      try destruct (decode_four_hex a b c d); rewrite ?error_false; reflexivity.
  - (* io *)
    destruct l as [|a [|b [|c [|d r]]]]; cbn [length];
      rewrite ?next_or_eof_cons, ?next_or_eof_nil; cbn [bind];
      rewrite ?next_or_eof_cons, ?next_or_eof_nil; cbn [bind];
      rewrite ?next_or_eof_cons, ?next_or_eof_nil; cbn [bind];
      rewrite ?next_or_eof_cons, ?next_or_eof_nil; cbn [bind];
      try (f_equal; lia).
    destruct (decode_four_hex a b c d).
    + do 2 f_equal. f_equal. lia.
    + rewrite error_false. f_equal. lia.
Qed.


Lemma dhe_post (s : st) :
  post (fun x => fst x <= 65535 /\ pk (snd x) = false /\ (length (rest (snd x)) + 4 = length (rest s))%nat) (dhe s).
Proof.
  destruct s as [l o p dp]. unfold dhe. cbn [rest off depth].
  destruct l as [|a [|b [|c [|d r]]]]; cbn [post]; auto.
  destruct (decode_four_hex a b c d) as [v|] eqn:Hv; cbn [post fst snd rest pk length]; auto.
  split; [eapply decode_four_hex_bound; eauto|]. split; [reflexivity|lia].
Qed.

(* ------------------------------------------------------------------------------------------ *)
(** * 4. Escapes *)

Lemma parse_escape_nonu_eq rk1 rk2 cf0 (s : st) :
  parse_escape_nonu (mkEnv rk1 TEof cf0) s = parse_escape_nonu (mkEnv rk2 TEof cf0) s.
Proof.
  destruct s as [l o p d]. unfold parse_escape_nonu.
  destruct l as [|b r].
  - rewrite !next_or_eof_nil. reflexivity.
  - rewrite !next_or_eof_cons. cbn [bind].
    destruct (escape_simple b); [reflexivity|]. rewrite !error_false. reflexivity.
Qed.

Lemma parse_escape_nonu_post rk0 cf0 (s : st) :
  post (fun x => length (rest (snd x)) <= length (rest s))%nat (parse_escape_nonu (mkEnv rk0 TEof cf0) s).
Proof.
  destruct s as [l o p d]. unfold parse_escape_nonu.
  destruct l as [|b r].
  - rewrite next_or_eof_nil. exact I.
  - rewrite next_or_eof_cons. cbn [bind].
    destruct (escape_simple b); [cbn [post snd rest length]; lia|]. rewrite error_false. exact I.
Qed.

(* unicode_loop: same result for any two reader kinds and any two sufficient amounts of fuel *)
Lemma unicode_loop_eq rk1 rk2 cf0 (v : bool) :
  forall (m : nat) (s : st) (n : N) (f1 f2 : nat),
    length (rest s) = m -> (m < f1)%nat -> (m < f2)%nat ->
    unicode_loop f1 (mkEnv rk1 TEof cf0) v n s = unicode_loop f2 (mkEnv rk2 TEof cf0) v n s.
Proof.
  induction m as [m IH] using lt_wf_ind.
  intros s n f1 f2 Hm Hf1 Hf2.
  destruct f1 as [|f1]; [lia|]. destruct f2 as [|f2]; [lia|].
  destruct s as [l o p d]. cbn [rest] in Hm.
  cbn [unicode_loop].
  destruct ((n <? 55296) || (56319 <? n)); [reflexivity|].
  destruct l as [|b l]; [rewrite !peek_or_eof_nil; reflexivity|].
  rewrite !peek_or_eof_cons. cbn [bind].
  destruct (b =? 92); unfold discard; cbn [rest tl off depth].
  2:{ destruct v; [rewrite !error_false; reflexivity|reflexivity]. }
  destruct l as [|b2 l]; [rewrite !peek_or_eof_nil; reflexivity|].
  rewrite !peek_or_eof_cons. cbn [bind rest tl off depth].
  destruct (b2 =? 117).
  2:{ destruct v; [rewrite !error_false; reflexivity|].
      rewrite (parse_escape_nonu_eq rk1 rk2). reflexivity. }
  rewrite !decode_hex_escape_dhe.
  pose proof (dhe_post (mkSt l (S (S o)) false d)) as Hp.
  destruct (dhe (mkSt l (S (S o)) false d)) as [[n2 s5]|c i| |]; cbn [bind]; try reflexivity.
  cbn [post fst snd rest] in Hp. destruct Hp as (Hn2 & Hpk & Hlen).
  destruct ((n2 <? 56320) || (57343 <? n2)); [|reflexivity].
  destruct v.
  { destruct s5 as [l5 o5 p5 d5]. cbn [pk] in Hpk. subst p5. rewrite !error_false. reflexivity. }
  cbn [length] in Hm.
  rewrite (IH (length (rest s5))) with (f2 := f2); [reflexivity|lia|reflexivity|lia|lia].
Qed.

Lemma unicode_loop_post rk0 cf0 (v : bool) :
  forall (m : nat) (s : st) (n : N) (f : nat),
    length (rest s) = m -> (m < f)%nat -> n <= 65535 ->
    post (fun x => length (rest (snd x)) <= length (rest s))%nat
         (unicode_loop f (mkEnv rk0 TEof cf0) v n s).
Proof.
  induction m as [m IH] using lt_wf_ind.
  intros s n f Hm Hf Hn.
  destruct f as [|f]; [lia|].
  destruct s as [l o p d]. cbn [rest] in Hm. cbn [rest].
  cbn [unicode_loop].
  destruct ((n <? 55296) || (56319 <? n)) eqn:Hsur.
  { destruct (push_wtf8_total n) as [w Hw]; [lia|]. rewrite Hw. cbn [bind post snd rest]. lia. }
  destruct (push_wtf8_total n) as [w Hw]; [lia|].
  destruct l as [|b l]; [rewrite peek_or_eof_nil; exact I|].
  rewrite peek_or_eof_cons. cbn [bind].
  destruct (b =? 92); unfold discard; cbn [rest tl off depth].
  2:{ destruct v; [rewrite error_false; exact I|]. rewrite Hw. cbn [bind post snd rest]. lia. }
  destruct l as [|b2 l]; [rewrite peek_or_eof_nil; exact I|].
  rewrite peek_or_eof_cons. cbn [bind rest tl off depth].
  destruct (b2 =? 117).
  2:{ destruct v; [rewrite error_false; exact I|]. rewrite Hw. cbn [bind].
      eapply post_bind; [apply parse_escape_nonu_post|].
      intros [w' s4] Hs4. cbn [post snd rest length] in *. lia. }
  rewrite decode_hex_escape_dhe.
  eapply post_bind; [apply dhe_post|].
  intros [n2 s5] (Hn2 & Hpk & Hlen). cbn [fst snd rest] in Hn2, Hpk, Hlen.
  destruct ((n2 <? 56320) || (57343 <? n2)) eqn:Hlow.
  - destruct v.
    { destruct s5 as [l5 o5 p5 d5]. cbn [pk] in Hpk. subst p5. rewrite error_false. exact I. }
    rewrite Hw. cbn [bind].
    cbn [length] in Hm.
    eapply post_bind; [apply (IH (length (rest s5))); [lia|reflexivity|lia|lia]|].
    intros [w' s6] Hs6. cbn [post snd rest length] in *. lia.
  - destruct (push_wtf8_total (N.lor (N.shiftl (n - 55296) 10) (n2 - 56320) + 65536)) as [w2 Hw2].
    { apply surrogate_pair_bound; lia. }
    rewrite Hw2. cbn [bind post snd rest length]. lia.
Qed.

Lemma parse_escape_eq rk1 rk2 cf0 (v : bool) (s : st) (f1 f2 : nat) :
  (length (rest s) < f1)%nat -> (length (rest s) < f2)%nat ->
  parse_escape f1 (mkEnv rk1 TEof cf0) v s = parse_escape f2 (mkEnv rk2 TEof cf0) v s.
Proof.
  intros Hf1 Hf2. destruct s as [l o p d]. cbn [rest] in *. unfold parse_escape.
  destruct l as [|b r]; [rewrite !next_or_eof_nil; reflexivity|].
  rewrite !next_or_eof_cons. cbn [bind].
  destruct (b =? 117).
  - unfold parse_unicode_escape. rewrite !decode_hex_escape_dhe.
    pose proof (dhe_post (mkSt r (S o) false d)) as Hp.
    destruct (dhe (mkSt r (S o) false d)) as [[n s1]|c i| |]; cbn [bind]; try reflexivity.
    cbn [post fst snd rest] in Hp. destruct Hp as (Hn & Hpk & Hlen).
    destruct (v && (56320 <=? n) && (n <=? 57343)).
    + destruct s1 as [l1 o1 p1 d1]. cbn [pk] in Hpk. subst p1. rewrite !error_false. reflexivity.
    + cbn [length] in *. eapply unicode_loop_eq; [reflexivity|lia|lia].
  - destruct (escape_simple b); [reflexivity|]. rewrite !error_false. reflexivity.
Qed.

Lemma parse_escape_post rk0 cf0 (v : bool) (s : st) (f : nat) :
  (length (rest s) < f)%nat ->
  post (fun x => length (rest (snd x)) < length (rest s))%nat (parse_escape f (mkEnv rk0 TEof cf0) v s).
Proof.
  intros Hf. destruct s as [l o p d]. cbn [rest] in *. unfold parse_escape.
  destruct l as [|b r]; [rewrite next_or_eof_nil; exact I|].
  rewrite next_or_eof_cons. cbn [bind].
  destruct (b =? 117).
  - unfold parse_unicode_escape. rewrite decode_hex_escape_dhe.
    eapply post_bind; [apply dhe_post|].
    intros [n s1] (Hn & Hpk & Hlen). cbn [fst snd rest] in Hn, Hpk, Hlen.
    destruct (v && (56320 <=? n) && (n <=? 57343)).
    + destruct s1 as [l1 o1 p1 d1]. cbn [pk] in Hpk. subst p1. rewrite error_false. exact I.
    + cbn [length] in *.
      eapply post_weaken; [apply (unicode_loop_post rk0 cf0 v (length (rest s1))); [reflexivity|lia|lia]|].
      intros [w s2] Hs2. cbn [snd] in *. lia.
  - destruct (escape_simple b); [cbn [post snd rest length]; lia|]. rewrite error_false. exact I.
Qed.

Lemma ignore_escape_eq rk1 rk2 cf0 (s : st) :
  ignore_escape (mkEnv rk1 TEof cf0) s = ignore_escape (mkEnv rk2 TEof cf0) s.
Proof.
  destruct s as [l o p d]. unfold ignore_escape.
  destruct l as [|b r]; [rewrite !next_or_eof_nil; reflexivity|].
  rewrite !next_or_eof_cons. cbn [bind].
  destruct (b =? 117).
  - rewrite !decode_hex_escape_dhe. reflexivity.
  - destruct (escape_simple b); [reflexivity|]. rewrite !error_false. reflexivity.
Qed.

Lemma ignore_escape_post rk0 cf0 (s : st) :
  post (fun s' => length (rest s') < length (rest s))%nat (ignore_escape (mkEnv rk0 TEof cf0) s).
Proof.
  destruct s as [l o p d]. cbn [rest]. unfold ignore_escape.
  destruct l as [|b r]; [rewrite next_or_eof_nil; exact I|].
  rewrite next_or_eof_cons. cbn [bind].
  destruct (b =? 117).
  - rewrite decode_hex_escape_dhe.
    eapply post_bind; [apply dhe_post|].
    intros [n s1] (Hn & Hpk & Hlen). cbn [fst snd rest post length] in *. lia.
  - destruct (escape_simple b); [cbn [post rest length]; lia|]. rewrite error_false. exact I.
Qed.

(* ------------------------------------------------------------------------------------------ *)
(** * 5. One-step unfoldings of the loops *)

Lemma esc_span_cons (v : bool) (b : N) (r : list N) :
  esc_span v (b :: r) = if negb (is_escape b v) then S (esc_span v r) else O.
Proof. reflexivity. Qed.

(* a byte that is special for the scanner but neither quote nor backslash: only when validating *)
Lemma is_escape_other (ch : N) (v : bool) :
  is_escape ch v = true -> (ch =? 34) = false -> (ch =? 92) = false -> v = true /\ is_escape ch true = true.
Proof.
  unfold is_escape. change ESC_QUOTE with 34. change ESC_BSLASH with 92.
  intros H H1 H2. rewrite H1, H2 in *. cbn [orb] in *.
  destruct v; [auto|discriminate].
Qed.

Lemma is_escape_false_true (ch : N) :
  is_escape ch false = true -> is_escape ch true = true.
Proof.
  unfold is_escape. intros H. destruct (ch =? ESC_QUOTE); [reflexivity|].
  destruct (ch =? ESC_BSLASH); [reflexivity|]. discriminate.
Qed.

Lemma is_escape_quote (v : bool) (ch : N) : (ch =? 34) = true -> is_escape ch v = true.
Proof. unfold is_escape. change ESC_QUOTE with 34. intros ->. reflexivity. Qed.

Lemma is_escape_bslash (v : bool) (ch : N) : (ch =? 92) = true -> is_escape ch v = true.
Proof.
  unfold is_escape. change ESC_BSLASH with 92. intros ->. rewrite orb_true_r. reflexivity.
Qed.

(* the io loop, with the two "push this byte" arms merged *)
Lemma io_str_step rk0 cf0 (v : bool) (f : nat) (ch : N) (r : list N) (o : nat) (p : bool) (d : N) :
  let E := mkEnv rk0 TEof cf0 in
  let s1 := mkSt r (S o) false d in
  io_str_loop (S f) E v (mkSt (ch :: r) o p d) =
  if negb (is_escape ch v) then
    let* (out, s2) := io_str_loop f E v s1 in Ok (ch :: out, s2)
  else if ch =? 34 then Ok ([], s1)
  else if ch =? 92 then
    let* (w, s2) := parse_escape f E v s1 in
    let* (out, s3) := io_str_loop f E v s2 in Ok (w ++ out, s3)
  else Err ControlCharacterWhileParsingString (S o).
Proof.
  intros E s1. cbn [io_str_loop]. unfold E. rewrite next_or_eof_cons. cbn [bind]. fold E. fold s1.
  destruct (is_escape ch v) eqn:Hv; cbn [negb].
  - assert (Ht : is_escape ch true = true) by (destruct v; [exact Hv|apply is_escape_false_true; exact Hv]).
    rewrite Ht. cbn [negb].
    destruct (ch =? 34) eqn:H34; [reflexivity|].
    destruct (ch =? 92) eqn:H92; [reflexivity|].
    destruct (is_escape_other ch v Hv H34 H92) as [-> _].
    unfold E, s1. rewrite error_false. reflexivity.
  - destruct (is_escape ch true) eqn:Ht; cbn [negb]; [|reflexivity].
    destruct (ch =? 34) eqn:H34; [rewrite (is_escape_quote v ch H34) in Hv; discriminate|].
    destruct (ch =? 92) eqn:H92; [rewrite (is_escape_bslash v ch H92) in Hv; discriminate|].
    destruct v; [rewrite Ht in Hv; discriminate|]. reflexivity.
Qed.

Lemma io_ignore_step rk0 cf0 (f : nat) (ch : N) (r : list N) (o : nat) (p : bool) (d : N) :
  let E := mkEnv rk0 TEof cf0 in
  let s1 := mkSt r (S o) false d in
  io_ignore_loop (S f) E (mkSt (ch :: r) o p d) =
  if negb (is_escape ch true) then io_ignore_loop f E s1
  else if ch =? 34 then Ok s1
  else if ch =? 92 then let* s2 := ignore_escape E s1 in io_ignore_loop f E s2
  else Err ControlCharacterWhileParsingString (S o).
Proof.
  intros E s1. cbn [io_ignore_loop]. unfold E. rewrite next_or_eof_cons. cbn [bind]. fold E. fold s1.
  destruct (negb (is_escape ch true)); [reflexivity|].
  destruct (ch =? 34); [reflexivity|]. destruct (ch =? 92); [reflexivity|].
  unfold E, s1. rewrite error_false. reflexivity.
Qed.

Lemma advance_S (n : nat) (ch : N) (r : list N) (o : nat) (p p' : bool) (d : N) :
  advance (S n) (mkSt (ch :: r) o p d) = advance n (mkSt r (S o) p' d).
Proof. unfold advance. cbn [rest off depth skipn]. f_equal. lia. Qed.

(* the slice loop: a leading ordinary byte can be peeled off the chunk *)
Lemma slice_str_push E (v : bool) (f : nat) (ch : N) (r : list N) (o : nat) (p p' : bool) (d : N) :
  is_escape ch v = false ->
  slice_str_loop (S f) E v (mkSt (ch :: r) o p d) =
  let* (out, c, s2) := slice_str_loop (S f) E v (mkSt r (S o) p' d) in Ok (ch :: out, c, s2).
Proof.
  intros Hv. cbn [slice_str_loop rest]. rewrite esc_span_cons, Hv. cbn [negb firstn].
  rewrite (advance_S _ ch r o p p' d).
  destruct (rest (advance (esc_span v r) (mkSt r (S o) p' d))) as [|b t].
  - unfold error. reflexivity.
  - destruct (b =? 34); [reflexivity|].
    destruct (b =? 92); [|unfold error; reflexivity].
    destruct (parse_escape f E v _) as [[w s2]|c i| |]; cbn [bind]; try reflexivity.
    destruct (slice_str_loop f E v s2) as [[[out c] s3]|c i| |]; cbn [bind]; reflexivity.
Qed.

(* the slice loop at a special byte *)
Lemma slice_str_special rk0 cf0 (v : bool) (f : nat) (ch : N) (r : list N) (o : nat) (p : bool) (d : N) :
  let E := mkEnv rk0 TEof cf0 in
  let s1 := mkSt r (S o) false d in
  is_escape ch v = true ->
  slice_str_loop (S f) E v (mkSt (ch :: r) o p d) =
  if ch =? 34 then Ok ([], false, s1)
  else if ch =? 92 then
    let* (w, s2) := parse_escape f E v s1 in
    let* (out, _, s3) := slice_str_loop f E v s2 in Ok (w ++ out, true, s3)
  else Err ControlCharacterWhileParsingString (S o).
Proof.
  intros E s1 Hv. cbn [slice_str_loop rest]. rewrite esc_span_cons, Hv. cbn [negb firstn].
  assert (H1 : advance 1 (advance 0 (mkSt (ch :: r) o p d)) = s1).
  { unfold advance, s1. cbn [rest off depth skipn]. f_equal. lia. }
  rewrite H1. unfold advance at 1. cbn [rest skipn].
  destruct (ch =? 34); [reflexivity|].
  destruct (ch =? 92); [reflexivity|].
  unfold E, s1. rewrite error_false. reflexivity.
Qed.

Lemma slice_str_nil rk0 cf0 (v : bool) (f : nat) (o : nat) (p : bool) (d : N) :
  slice_str_loop (S f) (mkEnv rk0 TEof cf0) v (mkSt [] o p d) = Err EofWhileParsingString o.
Proof.
  cbn [slice_str_loop rest]. unfold esc_span, advance. cbn [span_len rest skipn off depth].
  rewrite error_false. f_equal. lia.
Qed.

Lemma slice_ignore_push E (f : nat) (ch : N) (r : list N) (o : nat) (p p' : bool) (d : N) :
  is_escape ch true = false ->
  slice_ignore_loop (S f) E (mkSt (ch :: r) o p d) = slice_ignore_loop (S f) E (mkSt r (S o) p' d).
Proof.
  intros Hv. cbn [slice_ignore_loop rest]. rewrite esc_span_cons, Hv. cbn [negb].
  rewrite (advance_S _ ch r o p p' d). reflexivity.
Qed.

Lemma slice_ignore_special rk0 cf0 (f : nat) (ch : N) (r : list N) (o : nat) (p : bool) (d : N) :
  let E := mkEnv rk0 TEof cf0 in
  let s1 := mkSt r (S o) false d in
  is_escape ch true = true ->
  slice_ignore_loop (S f) E (mkSt (ch :: r) o p d) =
  if ch =? 34 then Ok s1
  else if ch =? 92 then let* s2 := ignore_escape E s1 in slice_ignore_loop f E s2
  else Err ControlCharacterWhileParsingString (S o).
Proof.
  intros E s1 Hv. cbn [slice_ignore_loop rest]. rewrite esc_span_cons, Hv. cbn [negb].
  assert (H1 : advance 1 (advance 0 (mkSt (ch :: r) o p d)) = s1).
  { unfold advance, s1. cbn [rest off depth skipn]. f_equal. lia. }
  rewrite H1. unfold advance at 1. cbn [rest skipn].
  destruct (ch =? 34); [reflexivity|].
  destruct (ch =? 92); [reflexivity|].
  unfold E, s1. rewrite error_false. reflexivity.
Qed.

Lemma slice_ignore_nil rk0 cf0 (f : nat) (o : nat) (p : bool) (d : N) :
  slice_ignore_loop (S f) (mkEnv rk0 TEof cf0) (mkSt [] o p d) = Err EofWhileParsingString o.
Proof.
  cbn [slice_ignore_loop rest]. unfold esc_span, advance. cbn [span_len rest skipn off depth].
  rewrite error_false. f_equal. lia.
Qed.

(* ------------------------------------------------------------------------------------------ *)
(** * 6. The io loops compute what the slice loops compute *)

Lemma str_loop_eq rk1 rk2 cf0 (v : bool) :
  forall (m : nat) (s : st) (f1 f2 : nat),
    length (rest s) = m -> (m < f1)%nat -> (m < f2)%nat ->
    io_str_loop f1 (mkEnv rk1 TEof cf0) v s = drop_flag (slice_str_loop f2 (mkEnv rk2 TEof cf0) v s).
Proof.
  induction m as [m IH] using lt_wf_ind.
  intros s f1 f2 Hm Hf1 Hf2.
  destruct f1 as [|f1]; [lia|]. destruct f2 as [|f2]; [lia|].
  destruct s as [l o p d]. cbn [rest] in Hm.
  destruct l as [|ch r].
  { rewrite slice_str_nil. cbn [io_str_loop]. rewrite next_or_eof_nil. reflexivity. }
  cbn [length] in Hm.
  rewrite io_str_step.
  destruct (is_escape ch v) eqn:Hv; cbn [negb].
  - rewrite slice_str_special by exact Hv.
    destruct (ch =? 34); [reflexivity|].
    destruct (ch =? 92); [|reflexivity].
    rewrite (parse_escape_eq rk1 rk2 cf0 v _ f1 f2) by (cbn [rest]; lia).
    pose proof (parse_escape_post rk2 cf0 v (mkSt r (S o) false d) f2) as Hp.
    cbn [rest] in Hp. specialize (Hp ltac:(lia)).
    destruct (parse_escape f2 (mkEnv rk2 TEof cf0) v (mkSt r (S o) false d)) as [[w s2]|c i| |];
      cbn [bind drop_flag]; try reflexivity.
    cbn [post snd] in Hp.
    rewrite (IH (length (rest s2))) with (f2 := f2); [|lia|reflexivity|lia|lia].
    destruct (slice_str_loop f2 (mkEnv rk2 TEof cf0) v s2) as [[[out c] s3]|c i| |];
      cbn [bind drop_flag]; reflexivity.
  - rewrite (slice_str_push _ v f2 ch r o p false d Hv).
    rewrite (IH (length r)) with (f2 := S f2); [|lia|reflexivity|lia|lia].
    destruct (slice_str_loop (S f2) (mkEnv rk2 TEof cf0) v (mkSt r (S o) false d)) as [[[out c] s3]|c i| |];
      cbn [bind drop_flag]; reflexivity.
Qed.

Lemma ignore_loop_eq rk1 rk2 cf0 :
  forall (m : nat) (s : st) (f1 f2 : nat),
    length (rest s) = m -> (m < f1)%nat -> (m < f2)%nat ->
    io_ignore_loop f1 (mkEnv rk1 TEof cf0) s = slice_ignore_loop f2 (mkEnv rk2 TEof cf0) s.
Proof.
  induction m as [m IH] using lt_wf_ind.
  intros s f1 f2 Hm Hf1 Hf2.
  destruct f1 as [|f1]; [lia|]. destruct f2 as [|f2]; [lia|].
  destruct s as [l o p d]. cbn [rest] in Hm.
  destruct l as [|ch r].
  { rewrite slice_ignore_nil. cbn [io_ignore_loop]. rewrite next_or_eof_nil. reflexivity. }
  cbn [length] in Hm.
  rewrite io_ignore_step.
  destruct (is_escape ch true) eqn:Hv; cbn [negb].
  - rewrite slice_ignore_special by exact Hv.
    destruct (ch =? 34); [reflexivity|].
    destruct (ch =? 92); [|reflexivity].
    rewrite (ignore_escape_eq rk1 rk2).
    pose proof (ignore_escape_post rk2 cf0 (mkSt r (S o) false d)) as Hp. cbn [rest] in Hp.
    destruct (ignore_escape (mkEnv rk2 TEof cf0) (mkSt r (S o) false d)) as [s2|c i| |];
      cbn [bind]; try reflexivity.
    cbn [post] in Hp.
    apply (IH (length (rest s2))); [lia|reflexivity|lia|lia].
  - rewrite (slice_ignore_push _ f2 ch r o p false d Hv).
    apply (IH (length r)); [lia|reflexivity|lia|lia].
Qed.

(* ------------------------------------------------------------------------------------------ *)
(** * 7. Totality (and: the final cursor has an empty peek slot) *)

Lemma io_str_loop_post rk0 cf0 (v : bool) :
  forall (m : nat) (s : st) (f : nat),
    length (rest s) = m -> (m < f)%nat ->
    post (fun x => pk (snd x) = false) (io_str_loop f (mkEnv rk0 TEof cf0) v s).
Proof.
  induction m as [m IH] using lt_wf_ind.
  intros s f Hm Hf.
  destruct f as [|f]; [lia|].
  destruct s as [l o p d]. cbn [rest] in Hm.
  destruct l as [|ch r].
  { cbn [io_str_loop]. rewrite next_or_eof_nil. exact I. }
  cbn [length] in Hm.
  rewrite io_str_step.
  destruct (negb (is_escape ch v)).
  - eapply post_bind; [apply (IH (length r)); [lia|reflexivity|lia]|].
    intros [out s2] Hs2. exact Hs2.
  - destruct (ch =? 34); [reflexivity|].
    destruct (ch =? 92); [|exact I].
    eapply post_bind; [apply parse_escape_post; cbn [rest]; lia|].
    intros [w s2] Hs2. cbn [snd rest] in Hs2.
    eapply post_bind; [apply (IH (length (rest s2))); [lia|reflexivity|lia]|].
    intros [out s3] Hs3. exact Hs3.
Qed.

Lemma io_ignore_loop_post rk0 cf0 :
  forall (m : nat) (s : st) (f : nat),
    length (rest s) = m -> (m < f)%nat ->
    post (fun _ => True) (io_ignore_loop f (mkEnv rk0 TEof cf0) s).
Proof.
  induction m as [m IH] using lt_wf_ind.
  intros s f Hm Hf.
  destruct f as [|f]; [lia|].
  destruct s as [l o p d]. cbn [rest] in Hm.
  destruct l as [|ch r].
  { cbn [io_ignore_loop]. rewrite next_or_eof_nil. exact I. }
  cbn [length] in Hm.
  rewrite io_ignore_step.
  destruct (negb (is_escape ch true)).
  - apply (IH (length r)); [lia|reflexivity|lia].
  - destruct (ch =? 34); [exact I|].
    destruct (ch =? 92); [|exact I].
    eapply post_bind; [apply ignore_escape_post|].
    intros s2 Hs2. cbn [rest] in Hs2.
    apply (IH (length (rest s2))); [lia|reflexivity|lia].
Qed.

Lemma slice_str_loop_post rk0 cf0 (v : bool) (s : st) :
  post (fun x => pk (snd x) = false) (slice_str_loop (str_fuel s) (mkEnv rk0 TEof cf0) v s).
Proof.
  pose proof (io_str_loop_post rk0 cf0 v (length (rest s)) s (str_fuel s) eq_refl) as Hp.
  unfold str_fuel in *. specialize (Hp ltac:(lia)).
  rewrite (str_loop_eq rk0 rk0 cf0 v (length (rest s)) s _ (S (S (length (rest s)))) eq_refl) in Hp by lia.
  apply post_drop_flag in Hp. exact Hp.
Qed.

(* ------------------------------------------------------------------------------------------ *)
(** * 8. Main theorems *)

Theorem parse_str_io_slice : forall cf s,
  drop_flag (parse_str (mkEnv RIo TEof cf) s) = drop_flag (parse_str (mkEnv RSlice TEof cf) s).
Proof.
  intros cf0 s. unfold parse_str. cbn [rk].
  rewrite (str_loop_eq RIo RSlice cf0 true (length (rest s)) s (str_fuel s) (str_fuel s) eq_refl)
    by (unfold str_fuel; lia).
  pose proof (slice_str_loop_post RSlice cf0 true s) as Hp.
  destruct (slice_str_loop (str_fuel s) (mkEnv RSlice TEof cf0) true s) as [[[out c] s1]|c i| |];
    cbn [drop_flag bind]; try reflexivity.
  cbn [post snd] in Hp. destruct s1 as [l1 o1 p1 d1]. cbn [pk] in Hp. subst p1.
  destruct (utf8_valid out); [reflexivity|].
  rewrite !error_false. reflexivity.
Qed.

Theorem parse_str_raw_io_slice : forall cf s,
  drop_flag (parse_str_raw (mkEnv RIo TEof cf) s) = drop_flag (parse_str_raw (mkEnv RSlice TEof cf) s).
Proof.
  intros cf0 s. unfold parse_str_raw. cbn [rk].
  rewrite (str_loop_eq RIo RSlice cf0 false (length (rest s)) s (str_fuel s) (str_fuel s) eq_refl)
    by (unfold str_fuel; lia).
  destruct (slice_str_loop (str_fuel s) (mkEnv RSlice TEof cf0) false s) as [[[out c] s1]|c i| |];
    cbn [drop_flag bind]; reflexivity.
Qed.

Theorem ignore_str_io_slice : forall cf s,
  ignore_str (mkEnv RIo TEof cf) s = ignore_str (mkEnv RSlice TEof cf) s.
Proof.
  intros cf0 s. unfold ignore_str. cbn [rk].
  apply (ignore_loop_eq RIo RSlice cf0 (length (rest s))); [reflexivity| |]; unfold str_fuel; lia.
Qed.

(* and neither ever runs out of fuel or panics *)
Theorem parse_str_total : forall rk cf s,
  let r := parse_str (mkEnv rk TEof cf) s in r <> OutOfFuel /\ r <> Panic.
Proof.
  intros rk0 cf0 s r. subst r.
  apply (post_total (fun _ => True)).
  unfold parse_str. cbn [rk].
  destruct rk0.
  - eapply post_bind; [apply slice_str_loop_post|].
    intros [[out c] s1] Hs1. cbn [snd] in Hs1.
    destruct (utf8_valid out); [exact I|].
    destruct s1 as [l1 o1 p1 d1]. cbn [pk] in Hs1. subst p1. rewrite error_false. exact I.
  - eapply post_bind; [apply slice_str_loop_post|].
    intros [[out c] s1] Hs1. exact I.
  - eapply post_bind; [apply (io_str_loop_post RIo cf0 true (length (rest s))); [reflexivity|unfold str_fuel; lia]|].
    intros [out s1] Hs1. cbn [snd] in Hs1.
    destruct (utf8_valid out); [exact I|].
    destruct s1 as [l1 o1 p1 d1]. cbn [pk] in Hs1. subst p1. rewrite error_false. exact I.
Qed.

Theorem parse_str_raw_total : forall rk cf s,
  let r := parse_str_raw (mkEnv rk TEof cf) s in r <> OutOfFuel /\ r <> Panic.
Proof.
  intros rk0 cf0 s r. subst r.
  apply (post_total (fun _ => True)).
  unfold parse_str_raw. cbn [rk].
  destruct rk0.
  - eapply post_bind; [apply slice_str_loop_post|]. intros [[out c] s1] Hs1. exact I.
  - eapply post_bind; [apply slice_str_loop_post|]. intros [[out c] s1] Hs1. exact I.
  - eapply post_bind; [apply (io_str_loop_post RIo cf0 false (length (rest s))); [reflexivity|unfold str_fuel; lia]|].
    intros [out s1] Hs1. exact I.
Qed.

Theorem ignore_str_total : forall rk cf s,
  let r := ignore_str (mkEnv rk TEof cf) s in r <> OutOfFuel /\ r <> Panic.
Proof.
  intros rk0 cf0 s r. subst r.
  apply (post_total (fun _ => True)).
  unfold ignore_str. cbn [rk].
  assert (Hio : forall rk1, post (fun _ => True) (io_ignore_loop (str_fuel s) (mkEnv rk1 TEof cf0) s)).
  { intros rk1. apply (io_ignore_loop_post rk1 cf0 (length (rest s))); [reflexivity|unfold str_fuel; lia]. }
  destruct rk0.
  - rewrite <- (ignore_loop_eq RSlice RSlice cf0 (length (rest s)) s (str_fuel s) (str_fuel s) eq_refl)
      by (unfold str_fuel; lia). apply Hio.
  - rewrite <- (ignore_loop_eq RStr RStr cf0 (length (rest s)) s (str_fuel s) (str_fuel s) eq_refl)
      by (unfold str_fuel; lia). apply Hio.
  - apply Hio.
Qed.

Print Assumptions parse_str_io_slice.
Print Assumptions parse_str_raw_io_slice.
Print Assumptions ignore_str_io_slice.
Print Assumptions parse_str_total.
Print Assumptions parse_str_raw_total.
Print Assumptions ignore_str_total.
