(* Proofs/StrSrc2.v — part 2 of Proofs/StrSrc.v: the reader-driven functions of the escape decoding,
       ignore_escape = Str.ignore_escape,  parse_escape = Str.parse_escape,  parse_unicode_escape = Str.parse_unicode_escape (its `loop` = Str.unicode_loop)
   as translated from src/read.rs on this run (Gen/StrTables.v), and the exported conjunction [escape_decoding_is_translated_source]. *)
From Coq Require Import String.
From SJ Require Import Base.Bytes Gen.Tables Model.Read Model.Str Model.StrAst Gen.StrTables Proofs.StrSrc.
Require Import Lia ZifyBool ZifyNat ZifyN.
Local Open Scope string_scope.
Local Open Scope list_scope.
Local Open Scope N_scope.
Local Open Scope Z_scope.

#[local] Arguments wrap : simpl never.
#[local] Arguments in_range : simpl never.
#[local] Arguments static_get : simpl never.
#[local] Arguments Z.lor : simpl nomatch.
#[local] Arguments Z.land : simpl nomatch.
#[local] Arguments Z.shiftl : simpl never.
#[local] Arguments Z.shiftr : simpl never.
#[local] Arguments Z.ltb : simpl nomatch.
#[local] Arguments Z.leb : simpl nomatch.
#[local] Arguments Z.eqb : simpl nomatch.
#[local] Arguments Z.add : simpl nomatch.
#[local] Arguments Z.sub : simpl nomatch.
#[local] Arguments Z.of_N : simpl nomatch.
#[local] Arguments Z.to_N : simpl nomatch.
#[local] Arguments N.eqb : simpl nomatch.
#[local] Arguments N.leb : simpl nomatch.
#[local] Arguments N.ltb : simpl nomatch.
#[local] Arguments N.lor : simpl nomatch.
#[local] Arguments N.land : simpl nomatch.
#[local] Arguments N.shiftr : simpl never.
#[local] Arguments N.shiftl : simpl never.
#[local] Arguments exec : simpl never.
#[local] Arguments call_fn : simpl never.
#[local] Arguments exec_block : simpl never.
#[local] Arguments Str.next_or_eof : simpl never.
#[local] Arguments Str.peek_or_eof : simpl never.
#[local] Arguments Str.decode_hex_escape : simpl never.
#[local] Arguments discard : simpl never.
#[local] Arguments error : simpl never.
#[local] Arguments push_wtf8 : simpl never.

Definition lift_app (buf : bytes) (r : res (bytes * st)) : res (retv * bytes * st) :=
  let* (w, s') := r in Ok (RvUnit, buf ++ w, s').

(* ---- cursor facts ------------------------------------------------------------------------------------------------------ *)
Lemma noe_ok E s b s1 : Str.next_or_eof E s = Ok (b, s1) -> exists r, rest s = b :: r /\ s1 = mkSt r (S (off s)) false (depth s).
Proof.
  unfold Str.next_or_eof, next, at_end, error. destruct (rest s) as [|x r]; cbn.
  - destruct (tm E); cbn; discriminate.
  - intros H. inversion H. subst. exists r. split; reflexivity.
Qed.
Lemma poe_ok E s b s1 : Str.peek_or_eof E s = Ok (b, s1) -> exists r, rest s = b :: r /\ s1 = mkSt (rest s) (off s) true (depth s).
Proof.
  unfold Str.peek_or_eof, peek, at_end, error. destruct (rest s) as [|x r]; cbn.
  - destruct (tm E); cbn; discriminate.
  - intros H. inversion H. subst. exists r. split; reflexivity.
Qed.
Lemma rest_discard s : rest (discard s) = tl (rest s).
Proof. reflexivity. Qed.

(* every table entry, for any byte value (non-hex bytes, including values >= 256 of the unbounded model bytes: -1) *)
Lemma tab_in_all a : In (hex_tab 4 a) SA /\ In (hex_tab 0 a) SB.
Proof.
  destruct (N.ltb_spec a 256) as [H|H]; [apply tab_in; exact H|].
  assert (Hv : hex_val a = None).
  { unfold hex_val, HEX_RANGES. cbn [hex_lookup].
    repeat match goal with |- context[if ?c then _ else _] => replace c with false by lia end. reflexivity. }
  unfold hex_tab. rewrite Hv. split; left; reflexivity.
Qed.
Lemma dfh_bound a b c d n : decode_four_hex a b c d = Some n -> (n < 65536)%N.
Proof.
  unfold decode_four_hex.
  destruct (tab_in_all a) as [Ia _]. destruct (tab_in_all b) as [_ Ib]. destruct (tab_in_all c) as [Ic _]. destruct (tab_in_all d) as [_ Id].
  pose proof (cp_ok_all _ _ _ _ Ia Ib Ic Id) as Hok. unfold cp_ok in Hok. apply andb_prop in Hok. destruct Hok as [_ H2].
  fold (cp_m (hex_tab 4 a) (hex_tab 0 b) (hex_tab 4 c) (hex_tab 0 d)).
  set (cp := cp_m (hex_tab 4 a) (hex_tab 0 b) (hex_tab 4 c) (hex_tab 0 d)) in *.
  destruct (0 <=? cp) eqn:Hcp; [|discriminate]. intros H. inversion H. subst n. apply Z.eqb_eq in H2.
  unfold wrap in H2. cbn [signed bits] in H2. change (2 ^ 16) with 65536 in H2.
  pose proof (Z.mod_pos_bound cp 65536). lia.
Qed.
Lemma dhe_ok E s n s1 : Str.decode_hex_escape E s = Ok (n, s1) -> (n < 65536)%N /\ (length (rest s1) + 4 = length (rest s))%nat.
Proof.
  unfold Str.decode_hex_escape. destruct (is_io E).
  - destruct (Str.next_or_eof E s) as [[a s2]| | |] eqn:H1; cbn; try discriminate.
    destruct (Str.next_or_eof E s2) as [[b s3]| | |] eqn:H2; cbn; try discriminate.
    destruct (Str.next_or_eof E s3) as [[c s4]| | |] eqn:H3; cbn; try discriminate.
    destruct (Str.next_or_eof E s4) as [[d s5]| | |] eqn:H4; cbn; try discriminate.
    apply noe_ok in H1, H2, H3, H4. destruct H1 as [r1 [R1 ->]]. destruct H2 as [r2 [R2 ->]]. destruct H3 as [r3 [R3 ->]]. destruct H4 as [r4 [R4 ->]].
    cbn [rest] in *. subst.
    destruct (decode_four_hex a b c d) as [m|] eqn:Hd; [|unfold error; discriminate].
    intros H. inversion H. subst. split; [exact (dfh_bound _ _ _ _ _ Hd)|]. rewrite R1. cbn [rest length]. lia.
  - destruct (rest s) as [|a [|b [|c [|d r]]]] eqn:Hr; try (unfold error; discriminate).
    destruct (decode_four_hex a b c d) as [m|] eqn:Hd; [|unfold error; discriminate].
    intros H. inversion H. subst. split; [exact (dfh_bound _ _ _ _ _ Hd)|]. unfold advance. cbn [rest]. rewrite Hr. cbn [skipn length]. lia.
Qed.

(* ---- ignore_escape ----------------------------------------------------------------------------------------------------- *)
(* case analysis on the escape letter: each listed letter by computation, the rest with all the tests false *)
Ltac letter ch k := destruct (N.eqb_spec ch k) as [->|?].
Ltac letters ch :=
  letter ch 34%N; [|letter ch 92%N; [|letter ch 47%N; [|letter ch 98%N; [|letter ch 102%N; [|letter ch 110%N; [|letter ch 114%N;
    [|letter ch 116%N; [|letter ch 117%N]]]]]]]].
Ltac others ch := repeat match goal with H : ch <> ?k |- _ => rewrite (proj2 (N.eqb_neq ch k) H) in *; clear H end.

Section Rd.
Variable E : env.
Theorem ignore_escape_src : forall v s buf fuel, (3 <= fuel)%nat ->
  run_str fuel E v T "ignore_escape" [] s buf = let* s' := ignore_escape E s in Ok (RvUnit, buf, s').
Proof.
  intros v s buf fuel Hf. destruct fuel as [|[|[|f]]]; [lia ..|]. clear Hf.
  enter "ignore_escape" STR_ignore_escape. step. unfold ignore_escape.
  destruct (Str.next_or_eof E s) as [[ch s1]| | |]; cbn; try reflexivity.
  step. rewrite N2Z.id. unfold escape_simple, ESCAPE_DECODE.
  letters ch; cbn.
  1-8: repeat step; reflexivity.
  - step. destruct (Str.decode_hex_escape E s1) as [[cp s2]| | |]; cbn; reflexivity.
  - others ch. cbn. repeat step. reflexivity.
Qed.

Lemma call_parse_escape_nonu v s buf f : (3 <= f)%nat -> (forall b r, rest s = b :: r -> b <> 117%N) ->
  call_fn (exec f E v T) T "parse_escape" [] s buf = lift_app buf (parse_escape_nonu E s).
Proof.
  intros Hf Hnu. destruct f as [|[|[|f]]]; [lia ..|]. clear Hf.
  enter "parse_escape" STR_parse_escape. step. unfold parse_escape_nonu, lift_app.
  destruct (Str.next_or_eof E s) as [[ch s1]| | |] eqn:Hn; cbn; try reflexivity.
  apply noe_ok in Hn. destruct Hn as [r [Hr _]]. specialize (Hnu ch r Hr).
  step. rewrite N2Z.id. unfold escape_simple, ESCAPE_DECODE.
  letters ch; cbn.
  1-8: repeat step; reflexivity.
  - contradiction.
  - others ch. cbn. repeat step. reflexivity.
Qed.

Definition ULOOP_BODY : list stmt := Eval cbv in match nth 2 (fbody STR_parse_unicode_escape) SContinue with SLoop b => b | _ => [] end.
Definition ULOOP : stmt := SLoop ULOOP_BODY.
Lemma uloop_is_source : nth 2 (fbody STR_parse_unicode_escape) SContinue = ULOOP.
Proof. reflexivity. Qed.
Lemma uloop_unfold v f l buf s : exec (S f) E v T ULOOP l buf s =
  let* o := exec_scope (exec f E v T) ULOOP_BODY l buf s in
  match o with
  | OFall l' buf' s' | OCont l' buf' s' => exec f E v T ULOOP l' buf' s'
  | ORet _ _ _ => Ok o
  end.
Proof. reflexivity. Qed.

Lemma if_or {A} (c d : bool) (k : bool -> res A) : (let* t := (if c then Ok true else Ok d) in k t) = k (c || d).
Proof. destruct c; reflexivity. Qed.
Lemma if_and {A} (c d : bool) (k : bool -> res A) : (let* t := (if c then Ok d else Ok false) in k t) = k (c && d).
Proof. destruct c; reflexivity. Qed.
Lemma in_range_u16 z : 0 <= z < 65536 -> in_range U16 z = true.
Proof. intros H. unfold in_range. cbn [signed bits]. change (2 ^ 16) with 65536. lia. Qed.
Lemma in_range_u32 z : 0 <= z < 4294967296 -> in_range U32 z = true.
Proof. intros H. unfold in_range. cbn [signed bits]. change (2 ^ 32) with 4294967296. lia. Qed.

(* n = ((((n1 - 0xD800) as u32) << 10) | (n2 - 0xDC00) as u32) + 0x1_0000 : no overflow anywhere, and it is the model's formula *)
Lemma combine_arith n1 n2 : (55296 <= n1 <= 56319)%N -> (56320 <= n2 <= 57343)%N ->
  in_range U16 (Z.of_N n1 - 55296) = true /\ in_range U16 (Z.of_N n2 - 56320) = true /\
  in_range U32 (Z.lor (wrap U32 (Z.shiftl (wrap U32 (Z.of_N n1 - 55296)) 10)) (wrap U32 (Z.of_N n2 - 56320)) + 65536) = true /\
  Z.lor (wrap U32 (Z.shiftl (wrap U32 (Z.of_N n1 - 55296)) 10)) (wrap U32 (Z.of_N n2 - 56320)) + 65536 =
  Z.of_N (N.lor (N.shiftl (n1 - 55296) 10) (n2 - 56320) + 65536).
Proof.
  intros H1 H2.
  split; [apply in_range_u16; lia|]. split; [apply in_range_u16; lia|].
  rewrite !(wrap_u32 (Z.of_N _ - _)) by lia.
  replace (Z.of_N n1 - 55296) with (Z.of_N (n1 - 55296)) by lia.
  replace (Z.of_N n2 - 56320) with (Z.of_N (n2 - 56320)) by lia.
  replace (Z.shiftl (Z.of_N (n1 - 55296)) 10) with (Z.of_N (N.shiftl (n1 - 55296) 10)) by apply of_N_shiftl.
  assert (Hs : (N.shiftl (n1 - 55296) 10 < 2 ^ 20)%N).
  { rewrite N.shiftl_mul_pow2. change (2 ^ 10)%N with 1024%N. change (2 ^ 20)%N with 1048576%N. lia. }
  assert (Hl : (N.lor (N.shiftl (n1 - 55296) 10) (n2 - 56320) < 2 ^ 20)%N).
  { apply lor_lt_pow2; [exact Hs|]. change (2 ^ 20)%N with 1048576%N. lia. }
  change (2 ^ 20)%N with 1048576%N in Hs, Hl.
  rewrite wrap_u32 by lia. rewrite <- of_N_lor.
  split; [apply in_range_u32; lia|lia].
Qed.

Lemma uloop_src : forall v k, forall s, (length (rest s) <= k)%nat -> forall fuel mfuel n buf,
  (n < 65536)%N -> (k + 12 <= fuel)%nat -> (k + 1 <= mfuel)%nat ->
  exec fuel E v T ULOOP [[("n", (U16, Z.of_N n))]] buf s =
  let* (w, s') := unicode_loop mfuel E v n s in Ok (ORet RvUnit (buf ++ w) s').
Proof.
  intros v. induction k as [k IH] using lt_wf_ind. intros s Hk fuel mfuel n buf Hn Hf Hm.
  do 11 (destruct fuel as [|fuel]; [exfalso; lia|]). destruct mfuel as [|mfuel]; [exfalso; lia|].
  rewrite uloop_unfold. unfold ULOOP_BODY. step. cbn [unicode_loop]. rewrite if_or.
  destruct ((n <? 55296)%N || (56319 <? n)%N) eqn:Hs; conds.
  - (* not a leading surrogate: push it *)
    step. rewrite wrap_u32 by lia. rewrite call_push_wtf8 by lia.
    destruct (push_wtf8 n) as [w| | |]; cbn; reflexivity.
  - step. step. step.
    destruct (Str.peek_or_eof E s) as [[b s1]| | |] eqn:Hp1; cbn; try reflexivity.
    replace (Z.of_N b =? 92) with (b =? 92)%N by lia.
    destruct (b =? 92)%N eqn:Hb1; cbn.
    + step. step. step.
      destruct (Str.peek_or_eof E (discard s1)) as [[b2 s3]| | |] eqn:Hp2; cbn; try reflexivity.
      replace (Z.of_N b2 =? 117) with (b2 =? 117)%N by lia.
      destruct (b2 =? 117)%N eqn:Hb2; cbn.
      * step. step. step.
        destruct (Str.decode_hex_escape E (discard s3)) as [[n2 s5]| | |] eqn:Hd; cbn; try reflexivity.
        destruct (dhe_ok _ _ _ _ Hd) as [Hn2 Hl5].
        assert (Hlen : (length (rest s5) + 6 = length (rest s))%nat).
        { destruct (poe_ok _ _ _ _ Hp1) as [r1 [Hr1 Hs1]]. destruct (poe_ok _ _ _ _ Hp2) as [r3 [Hr3 Hs3]].
          assert (Hrs1 : rest s1 = rest s) by (rewrite Hs1; reflexivity).
          assert (Hrs3 : rest s3 = rest (discard s1)) by (rewrite Hs3; reflexivity).
          rewrite rest_discard in Hl5, Hr3. rewrite Hrs3 in Hl5. rewrite rest_discard in Hl5. rewrite Hrs1 in Hl5, Hr3.
          rewrite Hr1 in Hl5, Hr3 |- *. cbn [tl] in Hl5, Hr3. rewrite Hr3 in Hl5 |- *. cbn [tl length] in Hl5 |- *. lia. }
        step. rewrite if_or.
        destruct ((n2 <? 56320)%N || (57343 <? n2)%N) eqn:Hs2; conds.
        -- step. destruct v; cbn.
           ++ reflexivity.
           ++ step. step. rewrite wrap_u32 by lia. rewrite call_push_wtf8 by lia.
              destruct (push_wtf8 n) as [w| | |]; cbn; try reflexivity.
              step. step.
              rewrite (IH (length (rest s5))) with (mfuel := mfuel) by lia.
              destruct (unicode_loop mfuel E false n2 s5) as [[w' s6]| | |]; cbn; try reflexivity.
              rewrite app_assoc. reflexivity.
        -- step. step.
           destruct (combine_arith n n2) as [A1 [A2 [A3 A4]]]; [lia|lia|].
           rewrite A1. cbn. rewrite A2. cbn. rewrite A3. cbn. rewrite A4.
           step. rewrite call_push_wtf8 by lia.
           destruct (push_wtf8 _) as [w| | |]; cbn; reflexivity.
      * (* `\` not followed by `u` *)
        step. destruct v; cbn.
        -- reflexivity.
        -- step. rewrite wrap_u32 by lia. rewrite call_push_wtf8 by lia.
           destruct (push_wtf8 n) as [w| | |]; cbn; try reflexivity.
           step. rewrite call_parse_escape_nonu.
           ++ unfold lift_app. destruct (parse_escape_nonu E s3) as [[w' s4]| | |]; cbn; try reflexivity.
              rewrite app_assoc. reflexivity.
           ++ lia.
           ++ intros x r Hx. destruct (poe_ok _ _ _ _ Hp2) as [r3 [Hr3 Hs3]].
              assert (Hrs3 : rest s3 = rest (discard s1)) by (rewrite Hs3; reflexivity).
              rewrite Hrs3, Hr3 in Hx. inversion Hx. subst x. intros ->. discriminate Hb2.
    + (* no `\` after the leading surrogate *)
      step. destruct v; cbn.
      * reflexivity.
      * step. rewrite wrap_u32 by lia. rewrite call_push_wtf8 by lia.
        destruct (push_wtf8 n) as [w| | |]; cbn; reflexivity.
Qed.

Theorem parse_unicode_escape_src : forall v s buf fuel mfuel, (length (rest s) + 14 <= fuel)%nat -> (length (rest s) + 1 <= mfuel)%nat ->
  run_str fuel E v T "parse_unicode_escape" [] s buf = lift_app buf (parse_unicode_escape mfuel E v s).
Proof.
  intros v s buf fuel mfuel Hf Hm. destruct fuel as [|[|fuel]]; [exfalso; lia ..|].
  enter "parse_unicode_escape" STR_parse_unicode_escape. step. unfold parse_unicode_escape, lift_app.
  destruct (Str.decode_hex_escape E s) as [[n s1]| | |] eqn:Hd; cbn; try reflexivity.
  destruct (dhe_ok _ _ _ _ Hd) as [Hn Hl].
  step.
  assert (Hloop : forall l', l' = [[("n", (U16, Z.of_N n))]] ->
    (let* o := exec_block (exec (S (S fuel)) E v T) [ULOOP] l' buf s1 in
     match o with ORet r buf' s' => Ok (r, buf', s') | _ => Panic end) =
    (let* (w, s') := unicode_loop mfuel E v n s1 in Ok (RvUnit, buf ++ w, s'))).
  { intros l' ->. rewrite blk_cons. rewrite (uloop_src v (length (rest s1))) with (mfuel := mfuel) by lia.
    destruct (unicode_loop mfuel E v n s1) as [[w s2]| | |]; cbn; reflexivity. }
  destruct v; cbn.
  - rewrite if_and. destruct ((56320 <=? n)%N && (n <=? 57343)%N) eqn:Hr; conds.
    + reflexivity.
    + step. apply Hloop. reflexivity.
  - step. apply Hloop. reflexivity.
Qed.

Lemma call_parse_unicode_escape v s buf f mfuel : (length (rest s) + 14 <= f)%nat -> (length (rest s) + 1 <= mfuel)%nat ->
  call_fn (exec f E v T) T "parse_unicode_escape" [] s buf = lift_app buf (parse_unicode_escape mfuel E v s).
Proof. apply parse_unicode_escape_src. Qed.

Theorem parse_escape_src : forall v s buf fuel mfuel, (length (rest s) + 16 <= fuel)%nat -> (length (rest s) + 1 <= mfuel)%nat ->
  run_str fuel E v T "parse_escape" [] s buf = lift_app buf (parse_escape mfuel E v s).
Proof.
  intros v s buf fuel mfuel Hf Hm. destruct fuel as [|[|[|fuel]]]; [exfalso; lia ..|].
  enter "parse_escape" STR_parse_escape. step. unfold parse_escape, lift_app.
  destruct (Str.next_or_eof E s) as [[ch s1]| | |] eqn:Hn; cbn; try reflexivity.
  apply noe_ok in Hn. destruct Hn as [r [Hr Hs1]].
  assert (Hl : (S (length (rest s1)) = length (rest s))%nat) by (rewrite Hs1, Hr; reflexivity).
  step. rewrite N2Z.id. unfold escape_simple, ESCAPE_DECODE.
  letters ch; cbn.
  1-8: repeat step; reflexivity.
  - step. rewrite call_parse_unicode_escape with (mfuel := mfuel) by lia. unfold lift_app.
    destruct (parse_unicode_escape mfuel E v s1) as [[w s2]| | |]; cbn; reflexivity.
  - others ch. cbn. repeat step. reflexivity.
Qed.
End Rd.

(* ---- the exported statement ------------------------------------------------------------------------------------------------ *)
Theorem escape_decoding_is_translated_source : forall (E : env) (v : bool) (s : st) (buf : bytes) (fuel mfuel : nat),
  (* push_wtf8_codepoint(n, scratch) *)
  (forall n : N, (3 <= fuel)%nat ->
     run_str fuel E v STR_PROG "push_wtf8_codepoint" [(U32, Z.of_N n)] s buf = let* w := push_wtf8 n in Ok (RvUnit, buf ++ w, s)) /\
  (* the statics HEX0 / HEX1, as built by build_hex_table from decode_hex_val_slow *)
  STR_HEX_SLOW = map (fun '(lo, hi, add) => (Z.of_N lo, Z.of_N hi, Z.of_N lo, Z.of_N add)) HEX_RANGES /\
  (forall a : N, (a < 256)%N ->
     static_get STR_PROG "HEX0" (Z.of_N a) = Ok (I16, hex_tab 0 a) /\ static_get STR_PROG "HEX1" (Z.of_N a) = Ok (I16, hex_tab 4 a)) /\
  (* decode_four_hex_digits(a, b, c, d) *)
  (forall a b c d : N, (a < 256)%N -> (b < 256)%N -> (c < 256)%N -> (d < 256)%N -> (2 <= fuel)%nat ->
     run_str fuel E v STR_PROG "decode_four_hex_digits" [(U8, Z.of_N a); (U8, Z.of_N b); (U8, Z.of_N c); (U8, Z.of_N d)] s buf =
     Ok (RvOpt (option_map (fun n => (U16, Z.of_N n)) (decode_four_hex a b c d)), buf, s)) /\
  (* ignore_escape(read) *)
  ((3 <= fuel)%nat ->
     run_str fuel E v STR_PROG "ignore_escape" [] s buf = let* s' := ignore_escape E s in Ok (RvUnit, buf, s')) /\
  (* parse_escape(read, validate, scratch) *)
  ((length (rest s) + 16 <= fuel)%nat -> (length (rest s) + 1 <= mfuel)%nat ->
     run_str fuel E v STR_PROG "parse_escape" [] s buf = lift_app buf (parse_escape mfuel E v s)) /\
  (* parse_unicode_escape(read, validate, scratch) *)
  ((length (rest s) + 14 <= fuel)%nat -> (length (rest s) + 1 <= mfuel)%nat ->
     run_str fuel E v STR_PROG "parse_unicode_escape" [] s buf = lift_app buf (parse_unicode_escape mfuel E v s)).
Proof.
  intros E v s buf fuel mfuel.
  split; [intros n Hf; apply push_wtf8_codepoint_src; exact Hf|].
  split; [exact hex_slow_is_ranges|].
  split; [intros a Ha; split; [apply static_hex0|apply static_hex1]; exact Ha|].
  split; [intros a b c d Ha Hb Hc Hd Hf; apply decode_four_hex_digits_src; assumption|].
  split; [intros Hf; apply ignore_escape_src; exact Hf|].
  split; [intros Hf Hm; apply parse_escape_src; assumption|].
  intros Hf Hm; apply parse_unicode_escape_src; assumption.
Qed.

(* not vacuous: the interpreted source on uD83D\uDE00 + closing quote (the text after the first backslash), appended to a scratch buffer holding [7];
   on a lone leading surrogate followed by `\n` in both modes; and with too little fuel *)
Example parse_escape_runs :
  run_str 28 (mkEnv RSlice TEof (mkCfg false false false false)) true STR_PROG "parse_escape" []
          (init_st [117; 68; 56; 51; 68; 92; 117; 68; 69; 48; 48; 34]%N) [7%N]
  = Ok (RvUnit, [7; 240; 159; 152; 128]%N, mkSt [34%N] 11 false Gen.Tables.DEPTH0).
Proof. vm_compute. reflexivity. Qed.
Example parse_escape_lone_surrogate :
  run_str 24 (mkEnv RIo TEof (mkCfg false false false false)) false STR_PROG "parse_escape" []
          (init_st [117; 68; 56; 51; 68; 92; 110; 34]%N) []
  = Ok (RvUnit, [237; 160; 189; 10]%N, mkSt [34%N] 7 false Gen.Tables.DEPTH0)
  /\ run_str 24 (mkEnv RIo TEof (mkCfg false false false false)) true STR_PROG "parse_escape" []
          (init_st [117; 68; 56; 51; 68; 92; 110; 34]%N) []
  = Err UnexpectedEndOfHexEscape 7.
Proof. split; vm_compute; reflexivity. Qed.
Example parse_escape_out_of_fuel :
  run_str 4 (mkEnv RSlice TEof (mkCfg false false false false)) true STR_PROG "parse_escape" []
          (init_st [117; 68; 56; 51; 68; 92; 117; 68; 69; 48; 48; 34]%N) [] = OutOfFuel.
Proof. vm_compute. reflexivity. Qed.

Print Assumptions escape_decoding_is_translated_source.
