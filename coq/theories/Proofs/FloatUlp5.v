(* Proofs/FloatUlp5.v — property C08, the LOW BAND (net exponent e < -308, two divisions) with the property's constant.

   FloatUlp.v proves 5.5 ulp for that band by counting five generic roundings.  Two of the five are not generic:
     * the second divisor 10^j, j = -e-308.  A result v = sig*10^e >= 2^-1022 with sig < 2^64 forces -e <= 330,
       i.e. j <= 22: the table entry is EXACT (no error);
     * the first divisor 1e308 = POW10[308] is one specific double, 5010420900022432 * 2^971, whose relative
       distance to 10^308 is 0.0989 * 2^-53 (checked in Z by computation) -- not the generic 1 * 2^-53.
   Error budget, in units of u = 2^-53 (relative), normal results (v >= 2^-1022):
       sig as f64                   1      (0 when sig < 2^53)
       1e308 vs 10^308              1/10   (exact constant 0.0989)
       first quotient, rounded      1
       10^j vs its table entry      0      (j <= 22)
       second quotient, rounded     1
       second-order terms           2^-40
     -------------------------------------
       |f - v| <= (3.1 + 2^-40) u v                  [ (2.1 + 2^-40) u v  when sig < 2^53 ]
       |f - RNE(v)| <= (3.6 + 2^-40) ulp(v) <= 5 ulp(v)      [ 2.6 ]
   The normality hypothesis is also weakened from v >= 2^-1021 (FloatUlp.v) to v >= 2^-1022 (all normal v). *)
From Coq Require Import ZArith NArith Reals Lia Lra List Bool Psatz.
From Flocq Require Import Core BinarySingleNaN Relative.
From SJ Require Import Base.Bytes Base.FloatB Gen.Tables Model.Read Model.Num.
From SJ Require Import Proofs.FloatDefault Proofs.FloatUlp.
Open Scope Z_scope.

(* ------------------------------------------------------------------ *)
(** * A. the double 1e308, exactly *)

Definition b64_mant_exp (x : b64) : Z * Z :=
  match x with
  | B754_finite s m e _ => (cond_Zopp s (Zpos m), e)
  | _ => (0, 0)
  end.

Lemma B2R_mant_exp (x : b64) : B2R x = (IZR (fst (b64_mant_exp x)) * bpow radix2 (snd (b64_mant_exp x)))%R.
Proof.
  destruct x as [s|s| |s m e Hb]; cbn [B2R b64_mant_exp fst snd]; try (rewrite Rmult_0_l; reflexivity).
  unfold F2R. cbn [Fnum Fexp]. reflexivity.
Qed.

Definition M308 : Z := 5010420900022432.

Lemma P308_mant_exp : b64_mant_exp P308 = (M308, 971).
Proof. vm_compute. reflexivity. Qed.

Lemma P308_val : B2R P308 = IZR (M308 * 2 ^ 971).
Proof.
  rewrite B2R_mant_exp, P308_mant_exp. cbn [fst snd].
  rewrite mult_IZR, bpow_IZR by lia. reflexivity.
Qed.

(* |1e308 - 10^308| <= (u / 10) * 10^308, as an integer inequality *)
Lemma P308_err_Z : Z.abs (M308 * 2 ^ 971 - 10 ^ 308) * (10 * 2 ^ 53) <= 10 ^ 308.
Proof. apply Z.leb_le. vm_compute. reflexivity. Qed.

(* ... and it is not better than u / 11 (the constant 1/10 is tight to one digit) *)
Lemma P308_err_Z_lower : 10 ^ 308 < Z.abs (M308 * 2 ^ 971 - 10 ^ 308) * (11 * 2 ^ 53).
Proof. apply Z.ltb_lt. vm_compute. reflexivity. Qed.

Definition d308 : R := (u / 10)%R.

Lemma P308_near : near d308 (B2R P308) (IZR (10 ^ 308)).
Proof.
  unfold near, d308. rewrite P308_val, <- minus_IZR, <- abs_IZR.
  pose proof P308_err_Z as H. apply IZR_le in H. rewrite mult_IZR in H.
  set (D := IZR (Z.abs (M308 * 2 ^ 971 - 10 ^ 308))) in *. set (T := IZR (10 ^ 308)) in *.
  rewrite u_val. change (10 * 2 ^ 53) with 90071992547409920 in H. lra.
Qed.

Lemma RNE_P308_near : near d308 (RNE64 (IZR (10 ^ 308))) (IZR (10 ^ 308)).
Proof.
  destruct (p10_props 308) as (_ & HP & _); [lia|]. rewrite <- HP. exact P308_near.
Qed.

(* ------------------------------------------------------------------ *)
(** * B. rounding near the bottom of the normal range *)

Lemma eta_u : eta = (u * bpow radix2 (-1022))%R.
Proof. unfold eta, u. rewrite <- bpow_plus. reflexivity. Qed.

(* below 2^-1021 the spacing is 2^-1074: the rounding error is at most eta = 2^-1075 *)
Lemma RNE64_err_small (y : R) : (Rabs y < bpow radix2 (-1021))%R -> (Rabs (RNE64 y - y) <= eta)%R.
Proof.
  intros Hy.
  pose proof (error_le_half_ulp radix2 fexp64 (fun z => negb (Z.even z)) y) as He. fold (RNE64 y) in He.
  rewrite (ulp_FLT_small radix2 (-1074) 53 y) in He by exact Hy.
  rewrite half_emin_eta in He. exact He.
Qed.

(* near_rnd without a normality hypothesis on the rounded quantity: it is enough that the target A is normal *)
Lemma near_rnd_lo (k y A : R) : (0 <= k)%R -> (bpow radix2 (-1022) <= A)%R -> near k y A ->
  near (k + u * (1 + k)) (RNE64 y) A.
Proof.
  intros Hk HA Hy.
  pose proof (bpow_gt_0 radix2 (-1022)) as H22.
  destruct (Rle_or_lt (bpow radix2 (-1022)) (Rabs y)) as [Hn|Hs].
  - apply near_rnd; [exact Hk|lra|exact Hy|exact Hn].
  - unfold near in *.
    assert (Hs' : (Rabs y < bpow radix2 (-1021))%R).
    { apply Rlt_trans with (1 := Hs). apply bpow_lt. lia. }
    pose proof (RNE64_err_small y Hs') as Hr. rewrite eta_u in Hr.
    assert (Hu : (0 <= u)%R) by apply bpow_ge_0.
    assert (H1 : (u * bpow radix2 (-1022) <= u * A)%R) by (apply Rmult_le_compat_l; assumption).
    assert (H2 : (0 <= u * k * A)%R) by (apply Rmult_le_pos; [apply Rmult_le_pos|]; lra).
    replace (RNE64 y - A)%R with ((RNE64 y - y) + (y - A))%R by ring.
    apply Rle_trans with (1 := Rabs_triang _ _). lra.
Qed.

(* division by an exactly known divisor keeps the relative error *)
Lemma near_div_exact (k x A B : R) : (0 < B)%R -> near k x A -> near k (x / B) (A / B).
Proof.
  unfold near. intros HB H.
  replace (x / B - A / B)%R with ((x - A) * / B)%R by (field; lra).
  rewrite Rabs_mult, (Rabs_pos_eq (/ B)) by (left; apply Rinv_0_lt_compat; exact HB).
  replace (k * (A / B))%R with (k * A * / B)%R by (field; lra).
  apply Rmult_le_compat_r; [left; apply Rinv_0_lt_compat; exact HB|exact H].
Qed.

(* ------------------------------------------------------------------ *)
(** * C. the chain  RNE( RNE( x / 1e308 ) / 10^j )  with x within a of A *)

Definition kq1 (a : R) : R := ((a + d308) / (1 - d308))%R.        (* x / 1e308            vs A / 10^308 *)
Definition kq2 (a : R) : R := (kq1 a + u * (1 + kq1 a))%R.        (* its rounding                        *)
Definition kq3 (a : R) : R := (kq2 a + u * (1 + kq2 a))%R.        (* / 10^j exact, then the last rounding *)

Definition C31 : R := ((3 + / 10 + / 1099511627776) * u)%R.
Definition C21 : R := ((2 + / 10 + / 1099511627776) * u)%R.

Lemma kq3_u : (kq3 u <= C31)%R.
Proof. unfold C31, kq3, kq2, kq1, d308. rewrite u_val. lra. Qed.

Lemma kq3_0 : (kq3 0 <= C21)%R.
Proof. unfold C21, kq3, kq2, kq1, d308. rewrite u_val. lra. Qed.

Lemma chain_low (a A x B2 : R) : (0 <= a <= u)%R -> (0 < A)%R -> near a x A -> (10 <= B2)%R ->
  (bpow radix2 (-1022) <= A / IZR (10 ^ 308) / B2)%R ->
  near (kq3 a) (RNE64 (RNE64 (x / RNE64 (IZR (10 ^ 308))) / B2)) (A / IZR (10 ^ 308) / B2).
Proof.
  intros Ha HA Hx HB2 Hnorm.
  pose proof (pow10_ge1 308 ltac:(lia)) as Hp1.
  assert (HB1 : (1 <= IZR (10 ^ 308))%R) by (apply IZR_le; exact Hp1).
  set (B1 := IZR (10 ^ 308)) in *. set (s := (A / B1)%R) in *.
  assert (Hs : (0 < s)%R) by (apply Rdiv_lt_0_compat; lra).
  assert (Hd : (0 <= d308 < 1)%R) by (unfold d308; rewrite u_val; lra).
  assert (Hu : (0 <= u <= / 1000000)%R) by (rewrite u_val; lra).
  pose proof (bpow_gt_0 radix2 (-1022)) as H22.
  (* s = v * B2 >= 10 * 2^-1022 *)
  assert (Hs10 : (10 * bpow radix2 (-1022) <= s)%R).
  { assert (Hv : (s = s / B2 * B2)%R) by (field; lra). rewrite Hv, (Rmult_comm 10).
    apply Rmult_le_compat; lra. }
  (* first quotient *)
  pose proof (near_div _ _ _ _ _ _ (Rlt_le _ _ HA) (Rlt_le_trans _ _ _ Rlt_0_1 HB1) (proj1 Ha) Hd Hx RNE_P308_near) as Hy1.
  fold B1 s in Hy1. fold (kq1 a) in Hy1.
  assert (Hk1 : (0 <= kq1 a <= / 4)%R).
  { unfold kq1, d308. rewrite u_val in *. split.
    - apply Rmult_le_pos; [lra|]. left. apply Rinv_0_lt_compat. lra.
    - apply Rle_trans with ((/ 9007199254740992 + / 9007199254740992 / 10) / (1 - / 9007199254740992 / 10))%R; [|lra].
      unfold Rdiv at 1 3. apply Rmult_le_compat_r; [left; apply Rinv_0_lt_compat; lra|lra]. }
  pose proof (near_bounds _ _ _ Hy1) as [Hy1lo _].
  assert (Hn1 : (bpow radix2 (-1022) <= Rabs (x / RNE64 B1))%R).
  { assert ((1 - kq1 a) * s >= / 2 * s)%R by nra. rewrite Rabs_pos_eq; lra. }
  pose proof (near_rnd _ _ _ (proj1 Hk1) (Rlt_le _ _ Hs) Hy1 Hn1) as Hf1.
  fold (kq2 a) in Hf1.
  assert (Hk2 : (0 <= kq2 a)%R) by (unfold kq2; nra).
  (* second quotient: exact divisor *)
  pose proof (near_div_exact _ _ _ B2 ltac:(lra) Hf1) as Hy2.
  pose proof (near_rnd_lo _ _ _ Hk2 Hnorm Hy2) as Hf.
  exact Hf.
Qed.

(* ------------------------------------------------------------------ *)
(** * D. the low band, normal results *)

Lemma pow10_331_big : (bpow radix2 1086 < IZR (10 ^ 331))%R.
Proof. rewrite bpow_IZR by lia. apply IZR_lt. apply Z.ltb_lt. vm_compute. reflexivity. Qed.

(* a normal result with a u64 significand has a net exponent >= -330 *)
Lemma normal_exponent_range (sig : N) (e : Z) : (0 < sig)%N -> (sig <= u64_max)%N -> e < 0 ->
  (bpow radix2 (-1022) <= exact_val sig e)%R -> -330 <= e.
Proof.
  intros Hpos Hsig He Hnorm.
  destruct (Z_le_gt_dec (-330) e) as [H|H]; [exact H|exfalso].
  rewrite exact_val_neg_e in Hnorm by lia.
  assert (Hs64 : (IZR (Z.of_N sig) <= bpow radix2 64)%R).
  { rewrite bpow_IZR by lia. apply IZR_le. change u64_max with (Z.to_N (2 ^ 64 - 1)) in Hsig. lia. }
  assert (HA : (1 <= IZR (Z.of_N sig))%R) by (apply IZR_le; lia).
  assert (Hd : (bpow radix2 1086 < IZR (10 ^ (- e)))%R).
  { apply Rlt_le_trans with (1 := pow10_331_big). apply IZR_le. apply Z.pow_le_mono_r; lia. }
  pose proof (bpow_gt_0 radix2 1086) as H86. pose proof (bpow_gt_0 radix2 64) as H64.
  assert (Hq : (IZR (Z.of_N sig) / IZR (10 ^ (- e)) <= bpow radix2 64 * / bpow radix2 1086)%R).
  { unfold Rdiv. apply Rmult_le_compat; [lra|left; apply Rinv_0_lt_compat; lra|exact Hs64|].
    apply Rinv_le_contravar; lra. }
  rewrite <- bpow_opp, <- bpow_plus in Hq. change (64 + - (1086)) with (-1022) in Hq.
  (* equality is impossible: the inequality Hd is strict *)
  assert (Hq' : (IZR (Z.of_N sig) / IZR (10 ^ (- e)) < bpow radix2 64 * / bpow radix2 1086)%R).
  { unfold Rdiv. apply Rle_lt_trans with (bpow radix2 64 * / IZR (10 ^ (- e)))%R.
    - apply Rmult_le_compat_r; [left; apply Rinv_0_lt_compat; lra|exact Hs64].
    - apply Rmult_lt_compat_l; [exact H64|]. apply Rinv_lt_contravar; [apply Rmult_lt_0_compat; lra|exact Hd]. }
  rewrite <- bpow_opp, <- bpow_plus in Hq'. change (64 + - (1086)) with (-1022) in Hq'. lra.
Qed.

(* the value computed in the low band, with the exact second divisor *)
Lemma loop_low (sig : N) (e : Z) : (sig <= u64_max)%N -> -330 <= e < -308 ->
  exists f, f64_loop 4 (b64_of_Z (Z.of_N sig)) e = Ok (Some f) /\
            B2R f = RNE64 (RNE64 (RNE64 (IZR (Z.of_N sig)) / RNE64 (IZR (10 ^ 308))) / IZR (10 ^ (- e - 308))).
Proof.
  intros Hsig He.
  destruct (loop_band_U sig e Hsig ltac:(lia)) as (f & Hl & HR).
  exists f. split; [exact Hl|]. rewrite HR.
  rewrite (RNE64_generic (IZR (10 ^ (- e - 308)))) by (apply pow10_format_small; lia). reflexivity.
Qed.

Lemma near_RNE_exact (z : Z) : 0 <= z < 2 ^ 53 -> near 0 (RNE64 (IZR z)) (IZR z).
Proof.
  intros Hz. unfold near. rewrite RNE64_generic by (apply format_IZR; lia).
  unfold Rminus. rewrite Rplus_opp_r, Rabs_R0. lra.
Qed.

Lemma low_band_setup (sig : N) (e : Z) : (0 < sig)%N -> -330 <= e < -308 ->
  (0 < IZR (Z.of_N sig))%R /\ (10 <= IZR (10 ^ (- e - 308)))%R /\
  exact_val sig e = (IZR (Z.of_N sig) / IZR (10 ^ 308) / IZR (10 ^ (- e - 308)))%R.
Proof.
  intros Hpos He. set (j := - e - 308).
  assert (HA : (0 < IZR (Z.of_N sig))%R) by (apply IZR_lt; lia).
  assert (Hp2 : 10 <= 10 ^ j). { change 10 with (10 ^ 1) at 1. apply Z.pow_le_mono_r; lia. }
  assert (HB2 : (10 <= IZR (10 ^ j))%R) by (apply IZR_le; exact Hp2).
  pose proof (pow10_ge1 308 ltac:(lia)) as Hp1.
  assert (HB1 : (1 <= IZR (10 ^ 308))%R) by (apply IZR_le; exact Hp1).
  split; [exact HA|]. split; [exact HB2|].
  rewrite exact_val_neg_e by lia.
  assert (Hsplit : IZR (10 ^ (- e)) = (IZR (10 ^ 308) * IZR (10 ^ j))%R).
  { replace (- e) with (308 + j) by lia. rewrite Z.pow_add_r by lia. apply mult_IZR. }
  rewrite Hsplit. field. lra.
Qed.

(* relative error in the low band: (3.1 + 2^-40) u *)
Theorem C08_err_low : forall sig e f, (0 < sig)%N -> (sig <= u64_max)%N -> e < -308 ->
  f64_loop 4 (b64_of_Z (Z.of_N sig)) e = Ok (Some f) ->
  (bpow radix2 (-1022) <= exact_val sig e)%R ->
  (Rabs (B2R f - exact_val sig e) <= C31 * exact_val sig e)%R.
Proof.
  intros sig e f Hpos Hsig He Hl Hnorm.
  pose proof (normal_exponent_range sig e Hpos Hsig ltac:(lia) Hnorm) as He'.
  destruct (loop_low sig e Hsig ltac:(lia)) as (f' & Hl' & HR). rewrite Hl in Hl'. injection Hl' as <-.
  destruct (low_band_setup sig e Hpos ltac:(lia)) as (HA & HB2 & Hv).
  rewrite HR, Hv in *.
  assert (Hu : (0 <= u <= u)%R) by (rewrite u_val; lra).
  pose proof (chain_low u _ _ _ Hu HA (near_RNE_int (Z.of_N sig) ltac:(lia)) HB2 Hnorm) as H.
  apply (near_weaken _ C31) in H; [exact H|exact kq3_u|].
  apply Rle_trans with (2 := Hnorm). apply bpow_ge_0.
Qed.

(* ... and (2.1 + 2^-40) u when the significand converts exactly *)
Theorem C08_err_low_53 : forall sig e f, (0 < sig)%N -> (Z.of_N sig < 2 ^ 53)%Z -> e < -308 ->
  f64_loop 4 (b64_of_Z (Z.of_N sig)) e = Ok (Some f) ->
  (bpow radix2 (-1022) <= exact_val sig e)%R ->
  (Rabs (B2R f - exact_val sig e) <= C21 * exact_val sig e)%R.
Proof.
  intros sig e f Hpos Hsig53 He Hl Hnorm.
  assert (Hsig : (sig <= u64_max)%N).
  { change u64_max with (Z.to_N (2 ^ 64 - 1)). assert (2 ^ 53 < 2 ^ 64 - 1) by reflexivity. lia. }
  pose proof (normal_exponent_range sig e Hpos Hsig ltac:(lia) Hnorm) as He'.
  destruct (loop_low sig e Hsig ltac:(lia)) as (f' & Hl' & HR). rewrite Hl in Hl'. injection Hl' as <-.
  destruct (low_band_setup sig e Hpos ltac:(lia)) as (HA & HB2 & Hv).
  rewrite HR, Hv in *.
  assert (Hu : (0 <= 0 <= u)%R) by (rewrite u_val; lra).
  pose proof (chain_low 0 _ _ _ Hu HA (near_RNE_exact (Z.of_N sig) ltac:(lia)) HB2 Hnorm) as H.
  apply (near_weaken _ C21) in H; [exact H|exact kq3_0|].
  apply Rle_trans with (2 := Hnorm). apply bpow_ge_0.
Qed.

(* ------------------------------------------------------------------ *)
(** * E. in ulps: the property's constant *)

(* the low band: within 3.6 ulp, hence within 5 *)
Theorem C08_ulp_low : forall sig e f, (0 < sig)%N -> (sig <= u64_max)%N -> e < -308 ->
  f64_loop 4 (b64_of_Z (Z.of_N sig)) e = Ok (Some f) ->
  (bpow radix2 (-1022) <= exact_val sig e)%R ->
  let v := exact_val sig e in
  let c := (3 + / 10 + / 1099511627776)%R in
  (Rabs (B2R f - v) <= c * u * v)%R /\
  (Rabs (B2R f - RNE64 v) <= (c + / 2) * ulp radix2 fexp64 v)%R.
Proof.
  intros sig e f Hpos Hsig He Hl Hnorm v c.
  pose proof (exact_val_pos sig e Hpos) as Hvpos. fold v in Hvpos.
  assert (Hrel : (Rabs (B2R f - v) <= c * u * v)%R) by exact (C08_err_low sig e f Hpos Hsig He Hl Hnorm).
  split; [exact Hrel|]. apply rel_to_ulp; [exact Hvpos|unfold c; lra|exact Hrel].
Qed.

Theorem C08_ulp_5 : forall sig e f, (0 < sig)%N -> (sig <= u64_max)%N -> e < -308 ->
  f64_loop 4 (b64_of_Z (Z.of_N sig)) e = Ok (Some f) ->
  (bpow radix2 (-1021) <= exact_val sig e)%R ->
  (Rabs (B2R f - RNE64 (exact_val sig e)) <= 5 * ulp radix2 fexp64 (exact_val sig e))%R.
Proof.
  intros sig e f Hpos Hsig He Hl Hnorm.
  assert (Hnorm' : (bpow radix2 (-1022) <= exact_val sig e)%R).
  { apply Rle_trans with (2 := Hnorm). apply bpow_le. lia. }
  destruct (C08_ulp_low sig e f Hpos Hsig He Hl Hnorm') as (_ & H).
  apply Rle_trans with (1 := H). apply Rmult_le_compat_r; [apply ulp_ge_0|lra].
Qed.

Theorem C08_ulp_low_53 : forall sig e f, (0 < sig)%N -> (Z.of_N sig < 2 ^ 53)%Z -> e < -308 ->
  f64_loop 4 (b64_of_Z (Z.of_N sig)) e = Ok (Some f) ->
  (bpow radix2 (-1022) <= exact_val sig e)%R ->
  let v := exact_val sig e in
  let c := (2 + / 10 + / 1099511627776)%R in
  (Rabs (B2R f - v) <= c * u * v)%R /\
  (Rabs (B2R f - RNE64 v) <= (c + / 2) * ulp radix2 fexp64 v)%R.
Proof.
  intros sig e f Hpos Hsig He Hl Hnorm v c.
  pose proof (exact_val_pos sig e Hpos) as Hvpos. fold v in Hvpos.
  assert (Hrel : (Rabs (B2R f - v) <= c * u * v)%R) by exact (C08_err_low_53 sig e f Hpos Hsig He Hl Hnorm).
  split; [exact Hrel|]. apply rel_to_ulp; [exact Hvpos|unfold c; lra|exact Hrel].
Qed.

(* band T- with the weaker normality hypothesis v >= 2^-1022 (FloatUlp.C08_err_Tneg asks for 2^-1021) *)
Theorem C08_err_Tneg_1022 : forall sig e f, (0 < sig)%N -> (sig <= u64_max)%N -> -308 <= e < 0 ->
  f64_loop 4 (b64_of_Z (Z.of_N sig)) e = Ok (Some f) ->
  (bpow radix2 (-1022) <= exact_val sig e)%R ->
  (Rabs (B2R f - exact_val sig e) <= K3 * exact_val sig e)%R.
Proof.
  intros sig e f Hpos Hsig He Hl Hnorm.
  destruct (loop_band_Tneg sig e Hsig He) as (f' & Hl' & HR). rewrite Hl in Hl'. injection Hl' as <-.
  rewrite HR. rewrite exact_val_neg_e in * by lia.
  assert (Hz : 1 <= Z.of_N sig) by lia. pose proof (pow10_ge1 (- e) ltac:(lia)) as Hp.
  assert (HA : (1 <= IZR (Z.of_N sig))%R) by (apply IZR_le; exact Hz).
  assert (HB : (1 <= IZR (10 ^ (- e)))%R) by (apply IZR_le; exact Hp).
  assert (Hu : (0 <= u < 1)%R) by (rewrite u_val; lra).
  assert (HA0 : (0 <= IZR (Z.of_N sig))%R) by lra. assert (HB0 : (0 < IZR (10 ^ (- e)))%R) by lra.
  pose proof (near_div _ _ _ _ _ _ HA0 HB0 (proj1 Hu) Hu (near_RNE_int _ Hz) (near_RNE_int _ Hp)) as Hy.
  set (v := (IZR (Z.of_N sig) / IZR (10 ^ (- e)))%R) in *.
  pose proof (bpow_gt_0 radix2 (-1022)) as H22.
  assert (Hk : (0 <= (u + u) / (1 - u))%R) by (rewrite u_val; lra).
  pose proof (near_rnd_lo _ _ _ Hk Hnorm Hy) as Hf.
  apply (near_weaken _ K3) in Hf; [exact Hf| |lra]. unfold K3. rewrite u_val. lra.
Qed.

(* every band, every normal value: the property's "within 5 ulp" clause (3.5 / 3.6 proved) *)
Theorem C08_ulp_5_normal : forall sig e f, (0 < sig)%N -> (sig <= u64_max)%N ->
  f64_loop 4 (b64_of_Z (Z.of_N sig)) e = Ok (Some f) ->
  (bpow radix2 (-1022) <= exact_val sig e)%R ->
  let v := exact_val sig e in
  let c := if (-308 <=? e) then (3 + / 1099511627776)%R else (3 + / 10 + / 1099511627776)%R in
  (Rabs (B2R f - v) <= c * u * v)%R /\
  (Rabs (B2R f - RNE64 v) <= (c + / 2) * ulp radix2 fexp64 v)%R /\
  (Rabs (B2R f - RNE64 v) <= 5 * ulp radix2 fexp64 v)%R.
Proof.
  intros sig e f Hpos Hsig Hl Hnorm v c.
  pose proof (exact_val_pos sig e Hpos) as Hvpos. fold v in Hvpos, Hnorm.
  assert (Hc : (0 <= c <= 4)%R) by (unfold c; destruct (-308 <=? e); lra).
  assert (Hrel : (Rabs (B2R f - v) <= c * u * v)%R).
  { unfold c, v. destruct (Z.leb_spec (-308) e) as [Hge|Hlt].
    - destruct (Z_lt_le_dec e 0) as [Hneg|Hnn].
      + apply (C08_err_Tneg_1022 sig e f Hpos Hsig ltac:(lia) Hl Hnorm).
      + destruct (Z_le_gt_dec e 308) as [Hle|Hgt].
        * apply (C08_err_Tpos sig e f Hpos Hsig ltac:(lia) Hl).
        * rewrite f64_loop_overflow_rejects in Hl by (try assumption; lia). discriminate Hl.
    - apply (C08_err_low sig e f Hpos Hsig Hlt Hl Hnorm). }
  pose proof (rel_to_ulp c (B2R f) v Hvpos (proj1 Hc) Hrel) as Hulp.
  split; [exact Hrel|]. split; [exact Hulp|].
  apply Rle_trans with (1 := Hulp). apply Rmult_le_compat_r; [apply ulp_ge_0|lra].
Qed.

Print Assumptions P308_near.
Print Assumptions C08_err_low.
Print Assumptions C08_err_low_53.
Print Assumptions C08_ulp_low.
Print Assumptions C08_ulp_5.
Print Assumptions C08_ulp_low_53.
Print Assumptions C08_err_Tneg_1022.
Print Assumptions C08_ulp_5_normal.
