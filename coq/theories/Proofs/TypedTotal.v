(* Proofs/TypedTotal.v — totality of the TYPED text deserializer model (Model/DeTyped.v), property C14 (typed clause):
   for every type program [t], every input and every environment, [de_typed] / [from_input_typed] never run out
   of the fuel they are given by [typed_fuel], never Panic (given a u8 depth budget in 1..255, or the limit
   disabled), restore the depth budget after each successfully read value, and move the cursor consistently.

   Method (the one of Proofs/Total.v, lifted to [tres]).  [tchk af ap P d r] says
     r = TOk a -> P a,   r = TUnpos k s' -> depth s' = d,   r = TFuel -> af = true,   r = TPanic -> ap = true.
   The [TUnpos] clause is needed because `frame` / `deserialize_enum` still run `leave` (the `+= 1` of
   check_recursion!) on the reader state carried by an unpositioned data error.
   The seven mutually recursive functions of DeTyped.v are handled by ONE induction on fuel ([dt_main]), for all
   flag combinations; the fuel invariant is  4 * |rest s| + 2 * (depth of the type program) + c <= fuel.
   Nothing is assumed about byte values, reader kind, terminator or cfg. *)
From SJ Require Import Base.Bytes Base.Utf8 Base.FloatB Gen.Tables Model.Read Model.Str Model.Num Model.NumF32
  Model.Value Model.De Model.Ignore Model.Stream Model.Ty Model.DeTyped Model.StreamTyped Proofs.Total.
From SJ Require Extract.Driver.
Require Import Lia ZifyBool ZifyNat ZifyN.
Open Scope N_scope.

(* ================================================================== *)
(** * Part 1 — outcome predicate for [tres] *)

Definition tchk {A} (af ap : bool) (P : A -> Prop) (d : N) (r : tres A) : Prop :=
  match r with
  | TOk a => P a
  | TErr _ _ => True
  | TUnpos _ s' => depth s' = d
  | TFuel => af = true
  | TPanic => ap = true
  end.

Notation ttot := (tchk false false).

Lemma tchk_lift {A} af ap (P : A -> Prop) d (r : res A) : chk af ap P r -> tchk af ap P d (lift r).
Proof. destruct r as [a|c i| |]; cbn [chk lift tchk]; auto. Qed.

Lemma tchk_tbind {A B} af ap (P : A -> Prop) (Q : B -> Prop) d (r : tres A) (f : A -> tres B) :
  tchk af ap P d r -> (forall a, P a -> tchk af ap Q d (f a)) -> tchk af ap Q d (tbind r f).
Proof. destruct r as [a|c i|k s'| |]; cbn [tchk tbind]; auto. Qed.

Lemma tchk_bind_lift {A B} af ap (P : A -> Prop) (Q : B -> Prop) d (r : res A) (f : A -> tres B) :
  chk af ap P r -> (forall a, P a -> tchk af ap Q d (f a)) -> tchk af ap Q d (tbind (lift r) f).
Proof. intros Hr Hf. eapply tchk_tbind; [apply tchk_lift; exact Hr|exact Hf]. Qed.

Lemma tchk_weaken {A} af ap (P Q : A -> Prop) d (r : tres A) :
  tchk af ap P d r -> (forall a, P a -> Q a) -> tchk af ap Q d r.
Proof. destruct r as [a|c i|k s'| |]; cbn [tchk]; auto. Qed.

Lemma ttot_tchk {A} af ap (P : A -> Prop) d (r : tres A) : ttot P d r -> tchk af ap P d r.
Proof. destruct r as [a|c i|k s'| |]; cbn [tchk]; auto; discriminate. Qed.

Lemma tchk_depth_eq {A} af ap (P : A -> Prop) d d' (r : tres A) : d = d' -> tchk af ap P d r -> tchk af ap P d' r.
Proof. intros ->. auto. Qed.

(* after fix_position no unpositioned error is left *)
Lemma tchk_fix {A} af ap (P : A -> Prop) d d' E (r : tres A) : tchk af ap P d r -> tchk af ap P d' (fix_position E r).
Proof. destruct r as [a|c i|k s'| |]; cbn [tchk fix_position]; auto. Qed.

Lemma tchk_tmap {A B} af ap (Q : st -> Prop) d (f : A -> B) (r : tres (A * st)) :
  tchk af ap (fun p => Q (snd p)) d r -> tchk af ap (fun p => Q (snd p)) d (tmap f r).
Proof.
  intros H. unfold tmap. eapply tchk_tbind; [exact H|]. intros [a s1] Ha. exact Ha.
Qed.

Lemma tchk_ok {A} af ap (P : A -> Prop) d r a : tchk af ap P d r -> r = TOk a -> P a.
Proof. intros H ->. exact H. Qed.
Lemma tchk_no_fuel {A} ap (P : A -> Prop) d r : tchk false ap P d r -> r <> TFuel.
Proof. intros H ->. discriminate H. Qed.
Lemma tchk_no_panic {A} af (P : A -> Prop) d r : tchk af false P d r -> r <> TPanic.
Proof. intros H ->. discriminate H. Qed.

(* one monadic step `let^ x := r in k` whose first computation is total by lemma [lem] *)
Tactic Notation "tbw" constr(lem) "as" simple_intropattern(pat) :=
  note_moves2;
  eapply tchk_bind_lift; [ apply tot_chk; apply lem; side | ];
  let Hp := fresh "Hp" in
  intros pat Hp;
  unfold pk_post, pn_post in Hp; cbn [fst snd] in Hp; split_hyps.

Ltac tbrk :=
  match goal with
  | |- tchk _ _ _ _ (lift (error _ _ _)) => exact I
  | |- tchk _ _ _ _ (lift (peek_error _ _ _)) => exact I
  | |- tchk _ _ _ _ (TErr _ _) => exact I
  | |- tchk _ _ _ _ (if ?c then _ else _) => destruct c eqn:?
  | |- tchk _ _ _ _ (match ?o with Some _ => _ | None => _ end) => destruct o
  end.

Ltac tokk := cbn [tchk fst snd]; note_moves2; try advs.

(* length facts of all cursor movements in the context *)
Ltac lens :=
  repeat match goal with
  | H : advd ?n ?s ?t |- _ =>
      lazymatch goal with
      | _ : (length (rest t) + n <= length (rest s))%nat |- _ => fail
      | _ => pose proof (advd_len _ _ _ H)
      end
  | H : adv ?n ?s ?t |- _ =>
      lazymatch goal with
      | _ : (length (rest t) + n <= length (rest s))%nat |- _ => fail
      | _ => pose proof (adv_len _ _ _ H)
      end
  end.

(* ================================================================== *)
(** * Part 2 — more about Model/Read.v and Model/De.v *)

Lemma parse_whitespace_hd E s b s1 : parse_whitespace E s = Ok (Some b, s1) -> exists r, rest s1 = b :: r.
Proof.
  unfold parse_whitespace, peek. destruct (rest (advance (span_len is_ws (rest s)) s)) as [|c r] eqn:Hr.
  - unfold at_end. destruct (tm E); discriminate.
  - intros H. injection H as <- <-. cbn [rest]. exists r. first [exact Hr | reflexivity].
Qed.

Lemma parse_whitespace_quote E s r o s1 : rest s = 34 :: r -> parse_whitespace E s = Ok (o, s1) -> o = Some 34.
Proof.
  intros Hr. unfold parse_whitespace. rewrite Hr.
  change (span_len is_ws (34 :: r)) with 0%nat.
  unfold peek, advance. cbn [rest skipn]. rewrite Hr. intros H. injection H as <- _. reflexivity.
Qed.

Lemma has_next_key_quote E first s s1 : has_next_key E first s = Ok (Some s1) -> exists r, rest s1 = 34 :: r.
Proof.
  unfold has_next_key.
  destruct (parse_whitespace E s) as [[o sa]|c i| |] eqn:Hw; cbn [bind]; try discriminate.
  destruct o as [b|]; [|discriminate].
  destruct (b =? 125); [discriminate|].
  destruct first.
  - destruct (b =? 34) eqn:Hb; [|discriminate]. intros H. injection H as <-.
    apply parse_whitespace_hd in Hw. destruct Hw as [r Hr]. exists r. rewrite Hr. f_equal. lia.
  - destruct (b =? 44); [|discriminate].
    destruct (parse_whitespace E (discard sa)) as [[o2 sb]|c i| |] eqn:Hw2; cbn [bind]; try discriminate.
    destruct o2 as [b2|]; [|discriminate].
    destruct (b2 =? 34) eqn:Hb; [|destruct (b2 =? 125); discriminate]. intros H. injection H as <-.
    apply parse_whitespace_hd in Hw2. destruct Hw2 as [r Hr]. exists r. rewrite Hr. f_equal. lia.
Qed.

Lemma depth_ok_advd E ap n s s' : advd n s s' -> depth_ok E ap s -> depth_ok E ap s'.
Proof. intros Ha [H|H]; [left; exact H|right; eapply dok_advd; eauto]. Qed.

Lemma depth_ok_advd0 E ap s s' : depth_ok E ap s -> advd 0 s s' -> depth_ok E ap s'.
Proof. intros Hd Ha. eapply depth_ok_advd; eauto. Qed.

(* ================================================================== *)
(** * Part 3 — numbers: scan_integer128 and the single-precision path (Model/NumF32.v) *)

Lemma scan_integer128_tot E s : tot (fun p => advd 1 s (snd p)) (scan_integer128 E s).
Proof.
  unfold scan_integer128. bw next_tot as [o s1]. destruct o as [c|]; [|exact I].
  brk; [|brk]; [| |exact I].
  - bw peek_or_null_tot as [c2 s2]. brk; [exact I|okk].
  - cbv zeta. bw peek_or_null_tot as [c2 s2]. okk.
Qed.

Lemma finish_s_tot E positive f s : tot (fun p => advd 0 s (snd p)) (finish_s E positive f s).
Proof. unfold finish_s. brk; [exact I|okk]. Qed.

Lemma f64_from_parts_s_tot E positive sig e s : tot (fun p => advd 0 s (snd p)) (f64_from_parts_s E positive sig e s).
Proof. unfold f64_from_parts_s. apply finish_s_tot. Qed.

Lemma f64_long_from_parts_s_tot E positive i f e s :
  tot (fun p => advd 0 s (snd p)) (f64_long_from_parts_s E positive i f e s).
Proof. unfold f64_long_from_parts_s. cbv zeta. apply finish_s_tot. Qed.

Lemma parse_exponent_s_tot E positive sig se s : rest s <> [] ->
  tot (fun p => advd 1 s (snd p)) (parse_exponent_s E positive sig se s).
Proof.
  intros Hne. unfold parse_exponent_s. bw exponent_front_tot as [[pe [e ov]] s1].
  brk.
  - fin parse_exponent_overflow_tot as [f s2].
  - bw peek_or_null_tot as [c2 s2]. fin f64_from_parts_s_tot as [f s3].
Qed.

Lemma parse_long_exponent_s_tot E positive i f s : rest s <> [] ->
  tot (fun p => advd 1 s (snd p)) (parse_long_exponent_s E positive i f s).
Proof.
  intros Hne. unfold parse_long_exponent_s. bw exponent_front_tot as [[pe [e ov]] s1].
  brk.
  - fin parse_exponent_overflow_tot as [x s2].
  - bw peek_or_null_tot as [c2 s2]. fin f64_long_from_parts_s_tot as [x s3].
Qed.

Lemma parse_long_decimal_s_tot E positive i f0 s :
  tot (fun p => advd 0 s (snd p)) (parse_long_decimal_s E positive i f0 s).
Proof.
  unfold parse_long_decimal_s. bw peek_or_null_tot as [c s1].
  destruct (f0 ++ firstn (span_len is_digit (rest s)) (rest s)) as [|d fr].
  - bw peek_tot as [o s2]. brk; exact I.
  - brk.
    + fin parse_long_exponent_s_tot as [x s2].
    + fin f64_long_from_parts_s_tot as [x s2].
Qed.

Lemma parse_decimal_overflow_s_tot E positive sig e s :
  tot (fun p => advd 0 s (snd p)) (parse_decimal_overflow_s E positive sig e s).
Proof. unfold parse_decimal_overflow_s. cbv zeta. apply parse_long_decimal_s_tot. Qed.

Lemma parse_decimal_s_tot E positive sig eb s : rest s <> [] ->
  tot (fun p => advd 1 s (snd p)) (parse_decimal_s E positive sig eb s).
Proof.
  intros Hne. unfold parse_decimal_s.
  destruct (sig_loop (rest (discard s)) sig) as [[n sg] ov] eqn:Hsl.
  apply sig_loop_le in Hsl. destruct Hsl as [Hn _].
  bw peek_or_null_tot as [c s1]. brk.
  - fin parse_decimal_overflow_s_tot as [x s2].
  - brk.
    + bw peek_tot as [o s2]. brk; exact I.
    + brk.
      * fin parse_exponent_s_tot as [x s2].
      * fin f64_from_parts_s_tot as [x s2].
Qed.

Lemma parse_long_integer_s_tot E positive sig s :
  tot (fun p => advd 0 s (snd p)) (parse_long_integer_s E positive sig s).
Proof.
  unfold parse_long_integer_s. bw peek_or_null_tot as [c s1]. brk.
  - fin parse_long_decimal_s_tot as [x s2].
  - brk.
    + fin parse_long_exponent_s_tot as [x s2].
    + fin f64_long_from_parts_s_tot as [x s2].
Qed.

Lemma parse_number_s_tot E positive sig s :
  tot (fun p => advd 0 s (snd p)) (parse_number_s E positive sig s).
Proof.
  unfold parse_number_s. bw peek_or_null_tot as [c s1]. brk; [|brk].
  - bw parse_decimal_s_tot as [f s2]. okk.
  - bw parse_exponent_s_tot as [f s2]. okk.
  - brk; [okk|]. cbv zeta. brk; okk.
Qed.

Lemma parse_integer_s_tot E positive s : tot (fun p => advd 1 s (snd p)) (parse_integer_s E positive s).
Proof.
  unfold parse_integer_s. bw next_tot as [o s1]. destruct o as [c|]; [|exact I].
  brk; [|brk]; [| |exact I].
  - bw peek_or_null_tot as [c2 s2]. brk; [exact I|].
    fin parse_number_s_tot as [x s3].
  - destruct (sig_loop (rest s1) (digit_val c)) as [[n sg] ov] eqn:Hsl.
    apply sig_loop_le in Hsl. destruct Hsl as [Hn _].
    bw peek_or_null_tot as [c2 s2]. brk.
    + bw parse_long_integer_s_tot as [f s3]. okk.
    + fin parse_number_s_tot as [x s3].
Qed.

(* ================================================================== *)
(** * Part 4 — scalar requests of Model/DeTyped.v *)

(* [depth a = depth b] from the cursor movements in the context *)
Ltac deq :=
  match goal with
  | |- depth ?a = depth ?b =>
      first [ reflexivity
            | let H := fresh in assert (H : advd 0 b a) by advs; exact (proj2 H)
            | let H := fresh in assert (H : advd 0 a b) by advs; symmetry; exact (proj2 H) ]
  end.

(* last step: a [tres] computation described by lemma [lem] (stated at its own depth) *)
Tactic Notation "tfin" constr(lem) "as" simple_intropattern(pat) :=
  note_moves2;
  eapply tchk_weaken; [ eapply tchk_depth_eq; [ | apply lem ]; deq | ];
  let Hp := fresh "Hp" in
  intros pat Hp; cbn [fst snd] in *; split_hyps; try advs.

Lemma peek_invalid_type_chk {A} E af ap (P : A -> Prop) d s : tchk af ap P d (@peek_invalid_type A E s).
Proof.
  unfold peek_invalid_type.
  destruct (match peek_or_null E s with Ok (b, s') => (b, s') | _ => (0, s) end) as [b s0].
  cbv beta iota zeta.
  tbrk. { eapply tchk_bind_lift; [apply tot_chk, parse_ident_tot|]. intros s2 _. exact I. }
  tbrk. { eapply tchk_bind_lift; [apply tot_chk, parse_ident_tot|]. intros s2 _. exact I. }
  tbrk. { eapply tchk_bind_lift; [apply tot_chk, parse_ident_tot|]. intros s2 _. exact I. }
  tbrk. { eapply tchk_bind_lift; [apply tot_chk, parse_any_number_tot|]. intros [x s2] _. exact I. }
  tbrk. { eapply tchk_bind_lift; [apply tot_chk, parse_any_number_tot|]. intros [x s2] _. exact I. }
  tbrk. { eapply tchk_bind_lift; [apply tot_chk, parse_str_tot|]. intros [[x y] s2] _. exact I. }
  tbrk; exact I.
Qed.

Definition vpost (s : st) (q : dval * st) : Prop := advd 0 s (snd q).

Lemma visit_int_chk af ap t p s : tchk af ap (vpost s) (depth s) (visit_int t p s).
Proof.
  unfold visit_int, vpost. destruct p; try destruct (in_range _ _); cbn [tchk snd]; try reflexivity; apply advd_refl.
Qed.

Lemma visit_f64_chk af ap p s : tchk af ap (vpost s) (depth s) (visit_f64 p s).
Proof. unfold visit_f64, vpost. destruct p; cbn [tchk snd]; try reflexivity; apply advd_refl. Qed.

Lemma visit_f32_chk af ap p s : tchk af ap (vpost s) (depth s) (visit_f32 p s).
Proof. unfold visit_f32, vpost. destruct p; cbn [tchk snd]; try reflexivity; apply advd_refl. Qed.

Lemma visit_string_chk af ap str bo s : tchk af ap (fun q => advd 0 s (snd q) /\ True) (depth s) (visit_string str bo s).
Proof. unfold visit_string. cbn [tchk snd]. split; [apply advd_refl|exact I]. Qed.

Lemma visit_borrowed_only_chk af ap str bo s :
  tchk af ap (fun q => advd 0 s (snd q) /\ True) (depth s) (visit_borrowed_only str bo s).
Proof. unfold visit_borrowed_only. destruct bo; cbn [tchk snd]; [split; [apply advd_refl|exact I]|reflexivity]. Qed.

Lemma visit_char_chk af ap str bo s : tchk af ap (fun q => advd 0 s (snd q) /\ True) (depth s) (visit_char str bo s).
Proof. unfold visit_char. destruct (one_scalar str); cbn [tchk snd]; [split; [apply advd_refl|exact I]|reflexivity]. Qed.

Definition var_in {A} (vs : list (bytes * A)) (q : bytes * A * st) : Prop :=
  exists i, index_of (fst (fst q)) vs = Some (i, snd (fst q)).

Lemma visit_variant_chk {A} af ap (vs : list (bytes * A)) str bo s :
  tchk af ap (fun q => advd 0 s (snd q) /\ var_in vs q) (depth s) (visit_variant vs str bo s).
Proof.
  unfold visit_variant, var_in. destruct (index_of str vs) as [[i a]|] eqn:Hi; cbn [tchk fst snd]; [|reflexivity].
  split; [apply advd_refl|exists i; exact Hi].
Qed.

Section Scalars.
Variables (E : env) (af ap : bool).

Lemma deserialize_number_chk visit s :
  (forall p s2, tchk af ap (vpost s2) (depth s2) (visit p s2)) ->
  tchk af ap (fun q => advd 1 s (snd q)) (depth s) (deserialize_number E visit s).
Proof.
  intros Hv. unfold deserialize_number. tbw parse_whitespace_tot as [o s1]. destruct o as [b|]; [|exact I].
  apply tchk_fix with (d := depth s).
  tbrk; [|tbrk].
  - tbw parse_integer_tot as [p s2]. unfold vpost in Hv. tfin Hv as [x s3].
  - tbw parse_integer_tot as [p s2]. unfold vpost in Hv. tfin Hv as [x s3].
  - apply peek_invalid_type_chk.
Qed.

Lemma deserialize_number_s_chk visit s :
  (forall p s2, tchk af ap (vpost s2) (depth s2) (visit p s2)) ->
  tchk af ap (fun q => advd 1 s (snd q)) (depth s) (deserialize_number_s E visit s).
Proof.
  intros Hv. unfold deserialize_number_s. tbw parse_whitespace_tot as [o s1]. destruct o as [b|]; [|exact I].
  apply tchk_fix with (d := depth s).
  tbrk; [|tbrk].
  - tbw parse_integer_s_tot as [p s2]. unfold vpost in Hv. tfin Hv as [x s3].
  - tbw parse_integer_s_tot as [p s2]. unfold vpost in Hv. tfin Hv as [x s3].
  - apply peek_invalid_type_chk.
Qed.

Lemma deserialize_f32_chk s : tchk af ap (fun q => advd 1 s (snd q)) (depth s) (deserialize_f32 E s).
Proof.
  unfold deserialize_f32. destruct (float_roundtrip (cf E)).
  - apply deserialize_number_s_chk. intros p s2. apply visit_f32_chk.
  - apply deserialize_number_chk. intros p s2. apply visit_f32_chk.
Qed.

Lemma deserialize_i128_chk s : tchk af ap (fun q => advd 1 s (snd q)) (depth s) (deserialize_i128 E s).
Proof.
  unfold deserialize_i128. tbw parse_whitespace_tot as [o s1]. destruct o as [b|]; [|exact I]. cbv zeta.
  destruct (b =? 45) eqn:Hb.
  - tbw scan_integer128_tot as [buf s2]. destruct (parse_i128 true buf); [tokk|exact I].
  - tbw scan_integer128_tot as [buf s2]. destruct (parse_i128 false buf); [tokk|exact I].
Qed.

Lemma deserialize_u128_chk s : tchk af ap (fun q => advd 1 s (snd q)) (depth s) (deserialize_u128 E s).
Proof.
  unfold deserialize_u128. tbw parse_whitespace_tot as [o s1]. destruct o as [b|]; [|exact I].
  tbrk; [exact I|].
  tbw scan_integer128_tot as [buf s2]. destruct (parse_u128 buf); [tokk|exact I].
Qed.

Lemma deserialize_int_chk t s : tchk af ap (fun q => advd 1 s (snd q)) (depth s) (deserialize_int E t s).
Proof.
  unfold deserialize_int.
  destruct t; first [ apply deserialize_i128_chk | apply deserialize_u128_chk
                    | apply deserialize_number_chk; intros p s2; apply visit_int_chk ].
Qed.

Lemma deserialize_bool_chk s : tchk af ap (fun q => advd 1 s (snd q)) (depth s) (deserialize_bool E s).
Proof.
  unfold deserialize_bool. tbw parse_whitespace_tot as [o s1]. destruct o as [b|]; [|exact I].
  apply tchk_fix with (d := depth s).
  tbrk; [|tbrk].
  - tbw parse_ident_tot as s2. tokk.
  - tbw parse_ident_tot as s2. tokk.
  - apply peek_invalid_type_chk.
Qed.

Lemma deserialize_unit_chk s : tchk af ap (fun q => advd 1 s (snd q)) (depth s) (deserialize_unit E s).
Proof.
  unfold deserialize_unit. tbw parse_whitespace_tot as [o s1]. destruct o as [b|]; [|exact I].
  apply tchk_fix with (d := depth s).
  tbrk.
  - tbw parse_ident_tot as s2. tokk.
  - apply peek_invalid_type_chk.
Qed.

Lemma deserialize_str_chk {A} (visit : bytes -> bool -> st -> tres (A * st)) (R : A * st -> Prop) s :
  (forall str bo s2, tchk af ap (fun q => advd 0 s2 (snd q) /\ R q) (depth s2) (visit str bo s2)) ->
  tchk af ap (fun q => advd 1 s (snd q) /\ R q) (depth s) (deserialize_str E visit s).
Proof.
  intros Hv. unfold deserialize_str. tbw parse_whitespace_tot as [o s1]. destruct o as [b|]; [|exact I].
  apply tchk_fix with (d := depth s).
  tbrk.
  - tbw parse_str_tot as [[str bo] s2].
    eapply tchk_weaken; [eapply tchk_depth_eq; [|apply Hv]; deq|].
    intros [x s3] [Hx HR]. cbn [fst snd] in *. split; [advs|exact HR].
  - apply peek_invalid_type_chk.
Qed.

Lemma deserialize_raw_chk s : tchk af ap (fun q => advd 1 s (snd q)) (depth s) (deserialize_raw E s).
Proof.
  unfold deserialize_raw. tbw parse_whitespace_tot as [o s0]. tbw ignore_value_tot as s1. cbv zeta.
  destruct (rk E); [tbrk; [tokk|exact I]|tokk|tbrk; [tokk|exact I]].
Qed.

(* ---- map keys ---- *)
Lemma numeric_key_chk delegate s : rest s <> [] ->
  (forall s1, tchk af ap (fun q => advd 1 s1 (snd q)) (depth s1) (delegate s1)) ->
  tchk af ap (fun q => advd 1 s (snd q)) (depth s) (numeric_key E delegate s).
Proof.
  intros Hne Hd. unfold numeric_key. cbv zeta. tbw peek_tot as [o s1]. destruct o as [b|]; [|exact I].
  tbrk; [|exact I].
  eapply tchk_tbind; [eapply tchk_depth_eq; [|apply Hd]; deq|].
  intros [d s2] H2. cbn [snd] in H2.
  tbw peek_tot as [o2 s3]. destruct o2 as [c|]; [|exact I]. tbrk; [tokk|exact I].
Qed.

Lemma key_bool_chk s : rest s <> [] -> tchk af ap (fun q => advd 1 s (snd q)) (depth s) (key_bool E s).
Proof.
  intros Hne. unfold key_bool. cbv zeta. tbw peek_tot as [o s1]. destruct o as [b|]; [|exact I].
  apply tchk_fix with (d := depth s).
  tbrk; [|tbrk].
  - tbw parse_ident_tot as s2. tokk.
  - tbw parse_ident_tot as s2. tokk.
  - tbw parse_str_tot as [x s2]. cbn [tchk]. deq.
Qed.
End Scalars.

(* ================================================================== *)
(** * Part 5 — containers: the check_recursion! frame, deserialize_seq / map / struct / enum *)

Lemma pw_depth E s o s1 : parse_whitespace E s = Ok (o, s1) -> depth s1 = depth s.
Proof.
  intros H. pose proof (parse_whitespace_tot E s) as Hc. rewrite H in Hc.
  destruct Hc as [[_ Hd] _]. exact Hd.
Qed.

Lemma end_seq_st_depth E s : depth (end_seq_st E s) = depth s.
Proof.
  unfold end_seq_st. destruct (parse_whitespace E s) as [[[b|] s1]|c i| |] eqn:Hw; try reflexivity.
  - apply pw_depth in Hw. destruct (b =? 93); [exact Hw|]. destruct (b =? 44); [|exact Hw].
    destruct (parse_whitespace E (discard s1)) as [[o2 s2]|c i| |] eqn:Hw2; try exact Hw.
    apply pw_depth in Hw2. rewrite Hw2. exact Hw.
  - apply pw_depth in Hw. exact Hw.
Qed.

Lemma end_map_st_depth E s : depth (end_map_st E s) = depth s.
Proof.
  unfold end_map_st. destruct (parse_whitespace E s) as [[[b|] s1]|c i| |] eqn:Hw; try reflexivity.
  - apply pw_depth in Hw. destruct (b =? 125); exact Hw.
  - apply pw_depth in Hw. exact Hw.
Qed.

Section Containers.
Variables (E : env) (af ap : bool).

(* what a container body may assume about the state it starts in / must establish *)
Definition body_ok {A} (s1 : st) (body : st -> tres (A * st)) : Prop :=
  forall s', adv 1 s1 s' -> depth_ok E ap s' -> tchk af ap (fun p => advd 0 s' (snd p)) (depth s') (body s').

Lemma enter_discard s1 s2 : rest s1 <> [] -> depth_ok E ap s1 -> enter_post E s1 s2 ->
  adv 1 s1 (discard s2) /\ depth_ok E ap (discard s2) /\ depth (discard s2) = depth s2 /\
  (ap = true \/ limit_disabled (cf E) = true \/ depth s2 < 255).
Proof.
  intros Hne Hdo (Ha2 & Hr2 & Hd2).
  assert (Hne2 : rest s2 <> []) by congruence.
  assert (Hm2 : advd 1 s2 (discard s2)) by (apply advd_discard; exact Hne2).
  split; [eapply adv_trans; [exact Ha2|exact (proj1 Hm2)|lia]|].
  split; [|split; [reflexivity|]].
  - destruct Hdo as [Hdo|Hdo]; [left; exact Hdo|right]. unfold dok in *. cbn [discard depth].
    destruct (limit_disabled (cf E)); [left; reflexivity|right; lia].
  - destruct Hdo as [Hdo|Hdo]; [left; exact Hdo|right]. unfold dok in *.
    destruct (limit_disabled (cf E)); [left; reflexivity|right; lia].
Qed.

Lemma frame_chk {A} endf endst (body : st -> tres (A * st)) s1 :
  rest s1 <> [] -> depth_ok E ap s1 ->
  (forall s, tot (fun s' => advd 1 s s') (endf E s)) ->
  (forall s, depth (endst E s) = depth s) ->
  body_ok s1 body ->
  tchk af ap (fun p => advd 2 s1 (snd p)) (depth s1) (frame E endf endst body s1).
Proof.
  intros Hne Hdo Hend Hest Hbody. unfold frame.
  eapply tchk_bind_lift; [apply enter_chk; exact Hdo|]. intros s2 Hen.
  destruct (enter_discard s1 s2 Hne Hdo Hen) as (Hadv & Hdo2 & Hdd & Hlv).
  destruct Hen as (Ha2 & Hr2 & Hd2).
  specialize (Hbody (discard s2) Hadv Hdo2).
  destruct (body (discard s2)) as [[a s3]|c i|k s3| |]; cbn [tchk snd] in Hbody |- *; auto.
  - (* the visitor succeeded *)
    destruct Hbody as [Ha3 Hd3].
    eapply tchk_bind_lift.
    { apply leave_chk. rewrite Hd3, Hdd. exact Hlv. }
    intros s4 (Ha4 & Hd4).
    eapply tchk_bind_lift; [apply tot_chk, Hend|]. intros s5 [Ha5 Hd5]. cbn [tchk snd].
    split.
    + eapply adv_trans; [exact Hadv|eapply adv_trans; [exact Ha3|eapply adv_trans; [exact Ha4|exact Ha5|reflexivity]|reflexivity]|lia].
    + rewrite Hd5. rewrite Hd3, Hdd in Hd4. destruct (limit_disabled (cf E)); lia.
  - (* the visitor failed with an unpositioned data error: `leave` and end_xxx() still run *)
    eapply tchk_bind_lift.
    { apply leave_chk. rewrite Hbody, Hdd. exact Hlv. }
    intros s4 (Ha4 & Hd4). cbn [tchk]. rewrite Hest.
    rewrite Hbody, Hdd in Hd4. destruct (limit_disabled (cf E)); lia.
Qed.

Lemma deserialize_seq_chk {A} (body : st -> tres (A * st)) s :
  depth_ok E ap s -> (forall s1, advd 0 s s1 -> body_ok s1 body) ->
  tchk af ap (fun p => advd 1 s (snd p)) (depth s) (deserialize_seq E body s).
Proof.
  intros Hdo Hb. unfold deserialize_seq. tbw parse_whitespace_tot as [o s1]. destruct o as [b|]; [|exact I].
  apply tchk_fix with (d := depth s1).
  tbrk; [|apply peek_invalid_type_chk].
  eapply tchk_weaken.
  - apply frame_chk; [ne_solve|apply (depth_ok_advd0 _ _ s); [exact Hdo|advs]|apply end_seq_tot|apply end_seq_st_depth|].
    apply Hb. advs.
  - intros [a s5] H5. cbn [snd] in *. advs.
Qed.

Lemma deserialize_map_chk {A} (body : st -> tres (A * st)) s :
  depth_ok E ap s -> (forall s1, advd 0 s s1 -> body_ok s1 body) ->
  tchk af ap (fun p => advd 1 s (snd p)) (depth s) (deserialize_map E body s).
Proof.
  intros Hdo Hb. unfold deserialize_map. tbw parse_whitespace_tot as [o s1]. destruct o as [b|]; [|exact I].
  apply tchk_fix with (d := depth s1).
  tbrk; [|apply peek_invalid_type_chk].
  eapply tchk_weaken.
  - apply frame_chk; [ne_solve|apply (depth_ok_advd0 _ _ s); [exact Hdo|advs]|apply end_map_tot|apply end_map_st_depth|].
    apply Hb. advs.
  - intros [a s5] H5. cbn [snd] in *. advs.
Qed.

Lemma deserialize_struct_chk {A} (body_seq body_map : st -> tres (A * st)) s :
  depth_ok E ap s -> (forall s1, advd 0 s s1 -> body_ok s1 body_seq) -> (forall s1, advd 0 s s1 -> body_ok s1 body_map) ->
  tchk af ap (fun p => advd 1 s (snd p)) (depth s) (deserialize_struct E body_seq body_map s).
Proof.
  intros Hdo Hbs Hbm. unfold deserialize_struct. tbw parse_whitespace_tot as [o s1]. destruct o as [b|]; [|exact I].
  apply tchk_fix with (d := depth s1).
  tbrk; [|tbrk]; [| |apply peek_invalid_type_chk].
  - eapply tchk_weaken.
    + apply frame_chk; [ne_solve|apply (depth_ok_advd0 _ _ s); [exact Hdo|advs]|apply end_seq_tot|apply end_seq_st_depth|].
      apply Hbs. advs.
    + intros [a s5] H5. cbn [snd] in *. advs.
  - eapply tchk_weaken.
    + apply frame_chk; [ne_solve|apply (depth_ok_advd0 _ _ s); [exact Hdo|advs]|apply end_map_tot|apply end_map_st_depth|].
      apply Hbm. advs.
    + intros [a s5] H5. cbn [snd] in *. advs.
Qed.

(* deserialize_enum: the `{` branch may assume the input does not start with a quote (used by the MapKey
   deserializer, whose VariantAccess branch is unreachable); the unit-variant branch starts at a quote *)
Lemma deserialize_enum_chk {A} (body_map body_unit : st -> tres (A * st)) s :
  ((forall r, rest s <> 34 :: r) -> depth_ok E ap s /\ forall s1, advd 0 s s1 -> body_ok s1 body_map) ->
  (forall s1, advd 0 s s1 -> rest s1 <> [] -> tchk af ap (fun p => advd 1 s1 (snd p)) (depth s1) (body_unit s1)) ->
  tchk af ap (fun p => advd 1 s (snd p)) (depth s) (deserialize_enum E body_map body_unit s).
Proof.
  intros Hbm Hbu. unfold deserialize_enum.
  pose proof (parse_whitespace_tot E s) as Hw.
  destruct (parse_whitespace E s) as [[o s1]|c i| |] eqn:Hpw; cbn [chk] in Hw; try discriminate Hw; cbn [lift tbind]; [|exact I].
  destruct Hw as [H01 Hne1]. cbn [fst snd] in H01, Hne1.
  destruct o as [b|]; [|exact I].
  assert (Hne : rest s1 <> []) by (apply Hne1; discriminate).
  destruct (b =? 123) eqn:Hb; [|tbrk; [|exact I]].
  - assert (Hnq : forall r, rest s <> 34 :: r).
    { intros r Hr. pose proof (parse_whitespace_quote E s r _ _ Hr Hpw) as Ho. injection Ho as ->. discriminate Hb. }
    destruct (Hbm Hnq) as [Hdo Hbm']. clear Hbm. pose proof (Hbm' s1 H01) as Hbm. clear Hbm'.
    assert (Hdo1 : depth_ok E ap s1) by (eapply depth_ok_advd; eauto).
    eapply tchk_bind_lift; [apply enter_chk; exact Hdo1|]. intros s2 Hen.
    destruct (enter_discard s1 s2 Hne Hdo1 Hen) as (Hadv & Hdo2 & Hdd & Hlv).
    destruct Hen as (Ha2 & Hr2 & Hd2).
    specialize (Hbm (discard s2) Hadv Hdo2).
    destruct (body_map (discard s2)) as [[a s3]|c i|k s3| |]; cbn [tchk snd] in Hbm |- *; auto.
    + destruct Hbm as [Ha3 Hd3].
      eapply tchk_bind_lift.
      { apply leave_chk. rewrite Hd3, Hdd. exact Hlv. }
      intros s4 (Ha4 & Hd4).
      assert (H14 : advd 1 s1 s4).
      { split.
        - eapply adv_trans; [exact Hadv|eapply adv_trans; [exact Ha3|exact Ha4|reflexivity]|lia].
        - rewrite Hd3, Hdd in Hd4. destruct (limit_disabled (cf E)); lia. }
      tbw parse_whitespace_tot as [o2 s5]. destruct o2 as [c|]; [|exact I].
      tbrk; [tokk|exact I].
    + eapply tchk_bind_lift.
      { apply leave_chk. rewrite Hbm, Hdd. exact Hlv. }
      intros s4 (Ha4 & Hd4). cbn [tchk].
      rewrite Hbm, Hdd in Hd4. destruct H01 as [_ Hd01]. destruct (limit_disabled (cf E)); lia.
  - eapply tchk_weaken; [eapply tchk_depth_eq; [|apply Hbu; [exact H01|exact Hne]]; deq|].
    intros [a s3] H3. cbn [snd] in *. advs.
Qed.
End Containers.

(* ================================================================== *)
(** * Part 6 — the nesting measure of type programs, struct slots *)

Fixpoint lmaxd (l : list ty) : nat :=
  match l with [] => O | x :: r => Nat.max (ty_depth x) (lmaxd r) end.
Fixpoint fmaxd (l : list (bytes * ty)) : nat :=
  match l with [] => O | x :: r => Nat.max (ty_depth (snd x)) (fmaxd r) end.

Lemma ty_depth_tuple ts : ty_depth (TTuple ts) = S (lmaxd ts).
Proof.
  induction ts as [|a ts IH]; [reflexivity|].
  change (ty_depth (TTuple (a :: ts))) with (S (Nat.max (ty_depth a) (pred (ty_depth (TTuple ts))))).
  rewrite IH. reflexivity.
Qed.

Lemma ty_depth_tuple_struct ts : ty_depth (TTupleStruct ts) = S (lmaxd ts).
Proof. rewrite <- ty_depth_tuple. reflexivity. Qed.

Lemma ty_depth_struct fs : ty_depth (TStruct fs) = S (S (fmaxd fs)).
Proof.
  induction fs as [|a fs IH]; [reflexivity|].
  change (ty_depth (TStruct (a :: fs))) with (S (S (Nat.max (ty_depth (snd a)) (pred (pred (ty_depth (TStruct fs))))))).
  rewrite IH. reflexivity.
Qed.

Definition vdepth (v : variant) : nat :=
  match v with
  | VUnit => 1%nat
  | VNewtype t1 => ty_depth t1
  | VTuple ts => S (lmaxd ts)
  | VStruct fs => S (S (fmaxd fs))
  end.
Fixpoint vmaxd (l : list (bytes * variant)) : nat :=
  match l with [] => O | x :: r => Nat.max (vdepth (snd x)) (vmaxd r) end.

Definition vdepth' (v : variant) : nat :=
  match v with
  | VUnit => 1%nat
  | VNewtype t1 => ty_depth t1
  | VTuple ts => ty_depth (TTuple ts)
  | VStruct fs => ty_depth (TStruct fs)
  end.

Lemma vdepth'_eq v : vdepth' v = vdepth v.
Proof. destruct v; cbn [vdepth' vdepth]; [reflexivity|reflexivity|apply ty_depth_tuple|apply ty_depth_struct]. Qed.

Lemma ty_depth_enum vs : ty_depth (TEnum vs) = S (vmaxd vs).
Proof.
  induction vs as [|a vs IH]; [reflexivity|].
  change (ty_depth (TEnum (a :: vs))) with (S (Nat.max (vdepth' (snd a)) (pred (ty_depth (TEnum vs))))).
  rewrite IH, vdepth'_eq. reflexivity.
Qed.

Lemma ty_depth_option t : ty_depth (TOption t) = S (ty_depth t). Proof. reflexivity. Qed.
Lemma ty_depth_newtype t : ty_depth (TNewtype t) = S (ty_depth t). Proof. reflexivity. Qed.
Lemma ty_depth_seq t : ty_depth (TSeq t) = S (ty_depth t). Proof. reflexivity. Qed.
Lemma ty_depth_map k v : ty_depth (TMap k v) = S (Nat.max (kty_depth k) (ty_depth v)). Proof. reflexivity. Qed.

Lemma ty_depth_ge1 t : (1 <= ty_depth t)%nat.
Proof.
  destruct t; cbn [ty_depth]; lia.
Qed.

Lemma kty_depth_ge1 k : (1 <= kty_depth k)%nat.
Proof. destruct k; cbn [kty_depth]; lia. Qed.

Lemma lmaxd_map_snd fs : lmaxd (map snd fs) = fmaxd fs.
Proof. induction fs as [|a fs IH]; cbn [map lmaxd fmaxd]; [reflexivity|rewrite IH; reflexivity]. Qed.

Lemma index_of_fmaxd name fields : forall i t, index_of name fields = Some (i, t) -> (ty_depth t <= fmaxd fields)%nat.
Proof.
  induction fields as [|[n a] l IH]; intros i t H; cbn [index_of] in H; [discriminate|].
  cbn [fmaxd snd]. destruct (beq_bytes name n).
  - injection H as _ <-. lia.
  - destruct (index_of name l) as [[i' a']|]; [|discriminate]. injection H as _ <-.
    specialize (IH i' a' eq_refl). lia.
Qed.

Lemma index_of_vmaxd name vs : forall i v, index_of name vs = Some (i, v) -> (vdepth v <= vmaxd vs)%nat.
Proof.
  induction vs as [|[n a] l IH]; intros i v H; cbn [index_of] in H; [discriminate|].
  cbn [vmaxd snd]. destruct (beq_bytes name n).
  - injection H as _ <-. lia.
  - destruct (index_of name l) as [[i' a']|]; [|discriminate]. injection H as _ <-.
    specialize (IH i' a' eq_refl). lia.
Qed.

Lemma set_slot_length d : forall i slots, length (set_slot i d slots) = length slots.
Proof.
  induction i as [|i IH]; intros [|x r]; cbn [set_slot length]; try reflexivity.
  rewrite IH. reflexivity.
Qed.

Lemma finish_struct_chk af ap s : forall fields slots, length slots = length fields ->
  tchk af ap (fun _ => True) (depth s) (finish_struct fields slots s).
Proof.
  induction fields as [|[n t] fields IH]; intros slots Hl; cbn [finish_struct]; [exact I|].
  destruct slots as [|slot slots]; [discriminate Hl|]. cbn [length] in Hl.
  assert (Hr : tchk af ap (fun _ : list dval => True) (depth s) (finish_struct fields slots s)) by (apply IH; lia).
  destruct slot as [d|].
  - eapply tchk_tbind; [exact Hr|]. intros ds _. exact I.
  - destruct t; try reflexivity.
    eapply tchk_tbind; [exact Hr|]. intros ds _. exact I.
Qed.

(* ---- one-step unfoldings of the seven mutually recursive functions ---- *)
Section Unfold.
Variables (f : nat) (E : env) (s : st).
Lemma de_typed_value : de_typed (S f) E TValue s = (let^ (v, s1) := parse_value f E s in TOk (DValue (Driver.show_value v), s1)).
Proof. reflexivity. Qed.
Lemma de_typed_ignored : de_typed (S f) E TIgnored s = (let^ s1 := ignore_value E s in TOk (DIgnored, s1)).
Proof. reflexivity. Qed.
Lemma de_typed_raw : de_typed (S f) E TRaw s = deserialize_raw E s. Proof. reflexivity. Qed.
Lemma de_typed_bool : de_typed (S f) E TBool s = deserialize_bool E s. Proof. reflexivity. Qed.
Lemma de_typed_int it : de_typed (S f) E (TInt it) s = deserialize_int E it s. Proof. reflexivity. Qed.
Lemma de_typed_f32 : de_typed (S f) E TF32 s = deserialize_f32 E s. Proof. reflexivity. Qed.
Lemma de_typed_f64 : de_typed (S f) E TF64 s = deserialize_number E visit_f64 s. Proof. reflexivity. Qed.
Lemma de_typed_char : de_typed (S f) E TChar s = deserialize_str E visit_char s. Proof. reflexivity. Qed.
Lemma de_typed_str : de_typed (S f) E TStr s = deserialize_str E visit_string s. Proof. reflexivity. Qed.
Lemma de_typed_borrowed : de_typed (S f) E TBorrowedStr s = deserialize_str E visit_borrowed_only s. Proof. reflexivity. Qed.
Lemma de_typed_bytes : de_typed (S f) E TBytes s =
  (let^ (o, s1) := parse_whitespace E s in
   match o with
   | None => lift (peek_error E s1 EofWhileParsingValue)
   | Some b =>
     fix_position E
       (if b =? 34 then let^ (str, _, s2) := parse_str_raw E (discard s1) in TOk (DBytes str, s2)
        else if b =? 91 then
          tmap (fun l => DBytes (u8s_of l)) (deserialize_seq E (fun s' => de_elems f E (TInt U8) true s') s1)
        else peek_invalid_type E s1)
   end).
Proof. reflexivity. Qed.
Lemma de_typed_unit : de_typed (S f) E TUnit s = deserialize_unit E s. Proof. reflexivity. Qed.
Lemma de_typed_unit_struct : de_typed (S f) E TUnitStruct s = deserialize_unit E s. Proof. reflexivity. Qed.
Lemma de_typed_option t1 : de_typed (S f) E (TOption t1) s =
  (let^ (o, s1) := parse_whitespace E s in
   if (match o with Some b => b =? 110 | None => false end)
   then let^ s2 := parse_ident E lit_ull (discard s1) in TOk (DNone, s2)
   else tmap DSome (de_typed f E t1 s1)).
Proof. reflexivity. Qed.
Lemma de_typed_newtype t1 : de_typed (S f) E (TNewtype t1) s = tmap DNewtype (de_typed f E t1 s). Proof. reflexivity. Qed.
Lemma de_typed_seq t1 : de_typed (S f) E (TSeq t1) s =
  tmap DSeq (deserialize_seq E (fun s' => de_elems f E t1 true s') s).
Proof. reflexivity. Qed.
Lemma de_typed_tuple ts : de_typed (S f) E (TTuple ts) s =
  tmap DSeq (deserialize_seq E (fun s' => de_tuple f E ts true s') s).
Proof. reflexivity. Qed.
Lemma de_typed_tuple_struct ts : de_typed (S f) E (TTupleStruct ts) s =
  tmap DSeq (deserialize_seq E (fun s' => de_tuple f E ts true s') s).
Proof. reflexivity. Qed.
Lemma de_typed_map k v : de_typed (S f) E (TMap k v) s =
  tmap DMap (deserialize_map E (fun s' => de_entries f E k v true s') s).
Proof. reflexivity. Qed.
Lemma de_typed_struct fields : de_typed (S f) E (TStruct fields) s = de_struct f E fields s. Proof. reflexivity. Qed.
Lemma de_typed_enum vs : de_typed (S f) E (TEnum vs) s =
  deserialize_enum E
    (fun s' =>
       let+ (name, v, s2) := deserialize_str E (visit_variant vs) s' in
       let^ s3 := parse_object_colon E s2 in
       tmap (DVariant name)
         (match v with
          | VUnit => deserialize_unit E s3
          | VNewtype t1 => de_typed f E t1 s3
          | VTuple ts => tmap DSeq (deserialize_seq E (fun s'' => de_tuple f E ts true s'') s3)
          | VStruct fields => de_struct f E fields s3
          end))
    (fun s' =>
       let+ (name, v, s2) := deserialize_str E (visit_variant vs) s' in
       match v with
       | VUnit => TOk (DVariant name DUnit, s2)
       | _ => TUnpos MInvalidType s2
       end)
    s.
Proof. reflexivity. Qed.

Lemma de_elems_S t first : de_elems (S f) E t first s =
  (let^ o := has_next_element E first s in
   match o with
   | None => TOk ([], s)
   | Some s1 =>
     let+ (d, s2) := de_typed f E t s1 in
     let+ (ds, s3) := de_elems f E t false s2 in
     TOk (d :: ds, s3)
   end).
Proof. reflexivity. Qed.

Lemma de_tuple_nil first : de_tuple (S f) E [] first s = TOk ([], s). Proof. reflexivity. Qed.
Lemma de_tuple_cons t ts' first : de_tuple (S f) E (t :: ts') first s =
  (let^ o := has_next_element E first s in
   match o with
   | None => TUnpos MInvalidLength s
   | Some s1 =>
     let+ (d, s2) := de_typed f E t s1 in
     let+ (ds, s3) := de_tuple f E ts' false s2 in
     TOk (d :: ds, s3)
   end).
Proof. reflexivity. Qed.

Lemma de_entries_S k v first : de_entries (S f) E k v first s =
  (let^ o := has_next_key E first s in
   match o with
   | None => TOk ([], s)
   | Some s1 =>
     let+ (kd, s2) := de_key f E k s1 in
     let^ s3 := parse_object_colon E s2 in
     let+ (vd, s4) := de_typed f E v s3 in
     let+ (es, s5) := de_entries f E k v false s4 in
     TOk ((kd, vd) :: es, s5)
   end).
Proof. reflexivity. Qed.

Lemma de_fields_S fields slots first : de_fields (S f) E fields slots first s =
  (let^ o := has_next_key E first s in
   match o with
   | None => let+ ds := finish_struct fields slots s in TOk (ds, s)
   | Some s1 =>
     let^ (name, _, s2) := parse_str E (discard s1) in
     match index_of name fields with
     | Some (i, t) =>
       if slot_filled i slots then TUnpos MDuplicateField s2
       else
         let^ s3 := parse_object_colon E s2 in
         let+ (d, s4) := de_typed f E t s3 in
         de_fields f E fields (set_slot i d slots) false s4
     | None =>
       let^ s3 := parse_object_colon E s2 in
       let^ s4 := ignore_value E s3 in
       de_fields f E fields slots false s4
     end
   end).
Proof. reflexivity. Qed.

Lemma de_struct_S fields : de_struct (S f) E fields s =
  tmap DStruct
    (deserialize_struct E
       (fun s' => de_tuple f E (map snd fields) true s')
       (fun s' => de_fields f E fields (map (fun _ => None) fields) true s')
       s).
Proof. reflexivity. Qed.

Lemma de_key_str : de_key (S f) E KStr s =
  (let^ (str, borrowed, s2) := parse_str E (discard s) in visit_string str borrowed s2).
Proof. reflexivity. Qed.
Lemma de_key_char : de_key (S f) E KChar s =
  (let^ (str, borrowed, s2) := parse_str E (discard s) in visit_char str borrowed s2).
Proof. reflexivity. Qed.
Lemma de_key_int it : de_key (S f) E (KInt it) s = numeric_key E (deserialize_int E it) s. Proof. reflexivity. Qed.
Lemma de_key_f32 : de_key (S f) E KF32 s = numeric_key E (deserialize_f32 E) s. Proof. reflexivity. Qed.
Lemma de_key_f64 : de_key (S f) E KF64 s = numeric_key E (deserialize_number E visit_f64) s. Proof. reflexivity. Qed.
Lemma de_key_bool : de_key (S f) E KBool s = key_bool E s. Proof. reflexivity. Qed.
Lemma de_key_option k1 : de_key (S f) E (KOption k1) s = tmap DSome (de_key f E k1 s). Proof. reflexivity. Qed.
Lemma de_key_newtype k1 : de_key (S f) E (KNewtype k1) s = tmap DNewtype (de_key f E k1 s). Proof. reflexivity. Qed.
Lemma de_key_unit_enum names : de_key (S f) E (KUnitEnum names) s =
  deserialize_enum E
    (fun s' => TPanic)
    (fun s' => let+ (name, _, s2) := deserialize_str E (visit_variant (map (fun n => (n, tt)) names)) s' in
               TOk (DVariant name DUnit, s2))
    s.
Proof. reflexivity. Qed.
End Unfold.

Lemma parse_str_raw_tot E s : tot (fun p => advd 1 s (snd p)) (parse_str_raw E s).
Proof.
  unfold parse_str_raw, str_fuel. destruct (rk E).
  - bw slice_str_loop_tot as [[out cp] s1]. okk.
  - bw slice_str_loop_tot as [[out cp] s1]. okk.
  - bw io_str_loop_tot as [out s1]. okk.
Qed.

(* ================================================================== *)
(** * Part 7 — the main induction *)
Section Main.
Variables (E : env) (af ap : bool).

(* fuel invariant: [m] is the nesting of the type program still to be interpreted *)
Definition fok (c fuel m : nat) (s : st) : Prop := af = true \/ (4 * length (rest s) + 2 * m + c <= fuel)%nat.
(* MapKey deserializer: the opening quote has been peeked *)
Definition key_pre (s : st) : Prop := rest s <> [] /\ (ap = true \/ exists r, rest s = 34 :: r).

Notation dk := (depth_ok E ap).
Notation R0 s := (tchk af ap (fun p => advd 0 s (snd p)) (depth s)).
Notation R1 s := (tchk af ap (fun p => advd 1 s (snd p)) (depth s)).

Ltac fu Hfu :=
  let H := fresh "Hfu'" in
  unfold fok in Hfu |- *; destruct Hfu as [H|H]; [left; exact H|right];
  rewrite ?ty_depth_option, ?ty_depth_newtype, ?ty_depth_seq, ?ty_depth_tuple, ?ty_depth_tuple_struct,
          ?ty_depth_map, ?ty_depth_struct, ?ty_depth_enum in H;
  cbn [kty_depth lmaxd] in H;
  change (ty_depth (TInt U8)) with 1%nat;
  lens; lia.

Ltac dkk s Hdo := apply (depth_ok_advd0 _ _ s); [exact Hdo|advs].

Lemma dt_main : forall fuel,
  (forall t s, fok 2 fuel (ty_depth t) s -> dk s -> R1 s (de_typed fuel E t s)) /\
  (forall t first s, fok 3 fuel (ty_depth t) s -> dk s -> R0 s (de_elems fuel E t first s)) /\
  (forall ts first s, fok 3 fuel (lmaxd ts) s -> dk s -> R0 s (de_tuple fuel E ts first s)) /\
  (forall k v first s, fok 3 fuel (Nat.max (kty_depth k) (ty_depth v)) s -> dk s -> R0 s (de_entries fuel E k v first s)) /\
  (forall fields slots first s, fok 3 fuel (fmaxd fields) s -> dk s -> length slots = length fields ->
     R0 s (de_fields fuel E fields slots first s)) /\
  (forall fields s, fok 5 fuel (fmaxd fields) s -> dk s -> R1 s (de_struct fuel E fields s)) /\
  (forall k s, fok 2 fuel (kty_depth k) s -> key_pre s -> R1 s (de_key fuel E k s)).
Proof.
  induction fuel as [|f IH].
  - repeat split; intros; cbn [de_typed de_elems de_tuple de_entries de_fields de_struct de_key tchk];
      match goal with H : fok _ _ _ _ |- _ => destruct H as [H|H]; [exact H|lia] end.
  - destruct IH as (IHt & IHe & IHtu & IHen & IHf & IHs & IHk).
    split; [|split; [|split; [|split; [|split; [|split]]]]].
    + (* ---------------- de_typed ---------------- *)
      intros t s Hfu Hdo. pose proof (ty_depth_ge1 t) as Hge. destruct t.
      * (* TValue *)
        rewrite de_typed_value.
        eapply tchk_bind_lift.
        { apply (proj1 (pv_main E af ap f) s); [|exact Hdo].
          unfold fuel_ok. unfold fok in Hfu. destruct Hfu as [H|H]; [left; exact H|right; lia]. }
        intros [v s1] H1. cbn [snd] in H1. tokk.
      * (* TIgnored *) rewrite de_typed_ignored. tbw ignore_value_tot as s1. tokk.
      * (* TRaw *) rewrite de_typed_raw. apply deserialize_raw_chk.
      * (* TBool *) rewrite de_typed_bool. apply deserialize_bool_chk.
      * (* TInt *) rewrite de_typed_int. apply deserialize_int_chk.
      * (* TF32 *) rewrite de_typed_f32. apply deserialize_f32_chk.
      * (* TF64 *) rewrite de_typed_f64. apply deserialize_number_chk. intros p s2. apply visit_f64_chk.
      * (* TChar *)
        rewrite de_typed_char. eapply tchk_weaken.
        -- apply deserialize_str_chk. intros str bo s2. apply visit_char_chk.
        -- intros q [Hq _]. exact Hq.
      * (* TStr *)
        rewrite de_typed_str. eapply tchk_weaken.
        -- apply deserialize_str_chk. intros str bo s2. apply visit_string_chk.
        -- intros q [Hq _]. exact Hq.
      * (* TBorrowedStr *)
        rewrite de_typed_borrowed. eapply tchk_weaken.
        -- apply deserialize_str_chk. intros str bo s2. apply visit_borrowed_only_chk.
        -- intros q [Hq _]. exact Hq.
      * (* TBytes *)
        rewrite de_typed_bytes. tbw parse_whitespace_tot as [o s1]. destruct o as [b|]; [|exact I].
        apply tchk_fix with (d := depth s).
        tbrk; [|tbrk].
        -- tbw parse_str_raw_tot as [[str bo] s2]. tokk.
        -- apply tchk_tmap. eapply tchk_weaken.
           ++ eapply tchk_depth_eq; [|apply deserialize_seq_chk; [dkk s Hdo|]]; [deq|].
              intros sa Ha sb Hb Hdob. apply IHe; [fu Hfu|exact Hdob].
           ++ intros [l s5] H5. cbn [snd] in *. advs.
        -- apply peek_invalid_type_chk.
      * (* TUnit *) rewrite de_typed_unit. apply deserialize_unit_chk.
      * (* TUnitStruct *) rewrite de_typed_unit_struct. apply deserialize_unit_chk.
      * (* TOption *)
        rewrite de_typed_option. tbw parse_whitespace_tot as [o s1].
        assert (Hsome : tchk af ap (fun p => advd 1 s (snd p)) (depth s) (tmap DSome (de_typed f E t s1))).
        { apply tchk_tmap. eapply tchk_weaken.
          - eapply tchk_depth_eq; [|apply IHt; [fu Hfu|dkk s Hdo]]. deq.
          - intros [d s2] H2. cbn [snd] in *. advs. }
        destruct o as [b|]; [|exact Hsome].
        tbrk; [|exact Hsome].
        tbw parse_ident_tot as s2. tokk.
      * (* TNewtype *)
        rewrite de_typed_newtype. apply tchk_tmap. apply IHt; [fu Hfu|exact Hdo].
      * (* TSeq *)
        rewrite de_typed_seq. apply tchk_tmap. apply deserialize_seq_chk; [exact Hdo|].
        intros sa Ha sb Hb Hdob. apply IHe; [fu Hfu|exact Hdob].
      * (* TTuple *)
        rewrite de_typed_tuple. apply tchk_tmap. apply deserialize_seq_chk; [exact Hdo|].
        intros sa Ha sb Hb Hdob. apply IHtu; [fu Hfu|exact Hdob].
      * (* TTupleStruct *)
        rewrite de_typed_tuple_struct. apply tchk_tmap. apply deserialize_seq_chk; [exact Hdo|].
        intros sa Ha sb Hb Hdob. apply IHtu; [fu Hfu|exact Hdob].
      * (* TMap *)
        rewrite de_typed_map. apply tchk_tmap. apply deserialize_map_chk; [exact Hdo|].
        intros sa Ha sb Hb Hdob. apply IHen; [fu Hfu|exact Hdob].
      * (* TStruct *)
        rewrite de_typed_struct. apply IHs; [fu Hfu|exact Hdo].
      * (* TEnum *)
        rewrite de_typed_enum. apply deserialize_enum_chk.
        -- (* VariantAccess *)
           intros _. split; [exact Hdo|]. intros s1 H1 s' Ha' Hdo'.
           eapply tchk_tbind.
           { apply deserialize_str_chk. intros str bo s2. apply visit_variant_chk. }
           intros [[name v] s2] [H2 [i Hidx]]. cbn [fst snd] in H2, Hidx.
           apply index_of_vmaxd in Hidx.
           tbw parse_object_colon_tot as s3.
           apply tchk_tmap.
           destruct v as [|t1|ts|fields]; cbn [vdepth] in Hidx.
           ++ tfin deserialize_unit_chk as [x s4].
           ++ eapply tchk_weaken.
              ** eapply tchk_depth_eq; [|apply IHt; [fu Hfu|dkk s' Hdo']]. deq.
              ** intros [x s4] H4. cbn [snd] in *. advs.
           ++ apply tchk_tmap. eapply tchk_weaken.
              ** eapply tchk_depth_eq; [|apply deserialize_seq_chk; [dkk s' Hdo'|]]; [deq|].
                 intros sa Ha sb Hb Hdob. apply IHtu; [fu Hfu|exact Hdob].
              ** intros [x s4] H4. cbn [snd] in *. advs.
           ++ eapply tchk_weaken.
              ** eapply tchk_depth_eq; [|apply IHs; [fu Hfu|dkk s' Hdo']]. deq.
              ** intros [x s4] H4. cbn [snd] in *. advs.
        -- (* UnitVariantAccess *)
           intros s1 H1 Hne1.
           eapply tchk_tbind.
           { apply deserialize_str_chk. intros str bo s2. apply visit_variant_chk. }
           intros [[name v] s2] [H2 _]. cbn [fst snd] in H2.
           destruct v; cbn [tchk snd]; first [exact H2 | deq].
    + (* ---------------- de_elems ---------------- *)
      intros t first s Hfu Hdo. rewrite de_elems_S.
      tbw has_next_element_tot as o. destruct o as [s1|]; [|tokk].
      match goal with H : hn_post _ _ _ |- _ => destruct H as [H1 Hne1] end.
      assert (H1' : advd 0 s s1) by (eapply advd_le; [exact H1|lia]). clear H1.
      eapply tchk_tbind.
      { eapply tchk_depth_eq; [|apply IHt; [fu Hfu|dkk s Hdo]]. deq. }
      intros [d s2] H2. cbn [snd] in H2.
      eapply tchk_tbind.
      { eapply tchk_depth_eq; [|apply IHe; [fu Hfu|dkk s Hdo]]. deq. }
      intros [ds s3] H3. cbn [snd] in H3. tokk.
    + (* ---------------- de_tuple ---------------- *)
      intros ts first s Hfu Hdo. destruct ts as [|t ts'].
      { rewrite de_tuple_nil. cbn [tchk snd]. apply advd_refl. }
      rewrite de_tuple_cons.
      tbw has_next_element_tot as o. destruct o as [s1|]; [|reflexivity].
      match goal with H : hn_post _ _ _ |- _ => destruct H as [H1 Hne1] end.
      assert (H1' : advd 0 s s1) by (eapply advd_le; [exact H1|lia]). clear H1.
      eapply tchk_tbind.
      { eapply tchk_depth_eq; [|apply IHt; [fu Hfu|dkk s Hdo]]. deq. }
      intros [d s2] H2. cbn [snd] in H2.
      eapply tchk_tbind.
      { eapply tchk_depth_eq; [|apply IHtu; [fu Hfu|dkk s Hdo]]. deq. }
      intros [ds s3] H3. cbn [snd] in H3. tokk.
    + (* ---------------- de_entries ---------------- *)
      intros k v first s Hfu Hdo. rewrite de_entries_S.
      pose proof (has_next_key_tot E first s) as Hh.
      destruct (has_next_key E first s) as [o|c i| |] eqn:Hk; cbn [chk] in Hh; try discriminate Hh;
        cbn [lift tbind]; [|exact I].
      destruct o as [s1|]; [|tokk].
      destruct Hh as [H1 Hne1].
      assert (H1' : advd 0 s s1) by (eapply advd_le; [exact H1|lia]). clear H1.
      apply has_next_key_quote in Hk.
      eapply tchk_tbind.
      { eapply tchk_depth_eq; [|apply IHk; [fu Hfu|split; [exact Hne1|right; exact Hk]]]. deq. }
      intros [kd s2] H2. cbn [snd] in H2.
      tbw parse_object_colon_tot as s3.
      eapply tchk_tbind.
      { eapply tchk_depth_eq; [|apply IHt; [fu Hfu|dkk s Hdo]]. deq. }
      intros [vd s4] H4. cbn [snd] in H4.
      eapply tchk_tbind.
      { eapply tchk_depth_eq; [|apply IHen; [fu Hfu|dkk s Hdo]]. deq. }
      intros [es s5] H5. cbn [snd] in H5. tokk.
    + (* ---------------- de_fields ---------------- *)
      intros fields slots first s Hfu Hdo Hlen. rewrite de_fields_S.
      tbw has_next_key_tot as o. destruct o as [s1|].
      2:{ eapply tchk_tbind; [apply finish_struct_chk; exact Hlen|]. intros ds _. tokk. }
      match goal with H : hn_post _ _ _ |- _ => destruct H as [H1 Hne1] end.
      assert (H1' : advd 0 s s1) by (eapply advd_le; [exact H1|lia]). clear H1.
      tbw parse_str_tot as [[name bo] s2].
      destruct (index_of name fields) as [[i t]|] eqn:Hidx.
      * apply index_of_fmaxd in Hidx.
        tbrk. { cbn [tchk]. deq. }
        tbw parse_object_colon_tot as s3.
        eapply tchk_tbind.
        { eapply tchk_depth_eq; [|apply IHt; [fu Hfu|dkk s Hdo]]. deq. }
        intros [d s4] H4. cbn [snd] in H4.
        eapply tchk_weaken.
        -- eapply tchk_depth_eq; [|apply IHf; [fu Hfu|dkk s Hdo|rewrite set_slot_length; exact Hlen]]. deq.
        -- intros [x s5] H5. cbn [snd] in *. advs.
      * tbw parse_object_colon_tot as s3. tbw ignore_value_tot as s4.
        eapply tchk_weaken.
        -- eapply tchk_depth_eq; [|apply IHf; [fu Hfu|dkk s Hdo|exact Hlen]]. deq.
        -- intros [x s5] H5. cbn [snd] in *. advs.
    + (* ---------------- de_struct ---------------- *)
      intros fields s Hfu Hdo. rewrite de_struct_S. apply tchk_tmap.
      apply deserialize_struct_chk; [exact Hdo| |].
      * intros sa Ha sb Hb Hdob. apply IHtu; [rewrite lmaxd_map_snd; fu Hfu|exact Hdob].
      * intros sa Ha sb Hb Hdob. apply IHf; [fu Hfu|exact Hdob|rewrite !map_length; reflexivity].
    + (* ---------------- de_key ---------------- *)
      intros k s Hfu [Hne Hq]. pose proof (kty_depth_ge1 k) as Hge. destruct k.
      * (* KStr *)
        rewrite de_key_str. tbw parse_str_tot as [[str bo] s2].
        eapply tchk_weaken; [eapply tchk_depth_eq; [|apply visit_string_chk]; deq|].
        intros [x s3] [Hx _]. cbn [snd] in *. advs.
      * (* KInt *)
        rewrite de_key_int. apply numeric_key_chk; [exact Hne|]. intros s1. apply deserialize_int_chk.
      * (* KBool *) rewrite de_key_bool. apply key_bool_chk. exact Hne.
      * (* KChar *)
        rewrite de_key_char. tbw parse_str_tot as [[str bo] s2].
        eapply tchk_weaken; [eapply tchk_depth_eq; [|apply visit_char_chk]; deq|].
        intros [x s3] [Hx _]. cbn [snd] in *. advs.
      * (* KF32 *)
        rewrite de_key_f32. apply numeric_key_chk; [exact Hne|]. intros s1. apply deserialize_f32_chk.
      * (* KF64 *)
        rewrite de_key_f64. apply numeric_key_chk; [exact Hne|]. intros s1.
        apply deserialize_number_chk. intros p s2. apply visit_f64_chk.
      * (* KOption *)
        rewrite de_key_option. apply tchk_tmap. apply IHk; [fu Hfu|split; assumption].
      * (* KNewtype *)
        rewrite de_key_newtype. apply tchk_tmap. apply IHk; [fu Hfu|split; assumption].
      * (* KUnitEnum *)
        rewrite de_key_unit_enum. apply deserialize_enum_chk.
        -- intros Hnq. destruct Hq as [Hap|[r Hr]]; [|exfalso; exact (Hnq r Hr)].
           split; [left; exact Hap|]. intros s1 H1 s' Ha' Hdo'. exact Hap.
        -- intros s1 H1 Hne1.
           eapply tchk_tbind.
           { apply deserialize_str_chk. intros str bo s2. apply visit_variant_chk. }
           intros [[name v] s2] [H2 _]. cbn [fst snd] in H2. cbn [tchk snd]. exact H2.
Qed.
End Main.

(* ================================================================== *)
(** * Part 8 — the theorems *)

Lemma de_typed_ok_advd fuel E t s d s' : de_typed fuel E t s = TOk (d, s') -> advd 1 s s'.
Proof.
  intros H. pose proof (proj1 (dt_main E true true fuel) t s (or_introl eq_refl) (or_introl eq_refl)) as Hc.
  rewrite H in Hc. exact Hc.
Qed.

(* ---- fuel ---- *)
Theorem de_typed_no_fuel_strong : forall E t s fuel, (typed_fuel t (rest s) <= fuel)%nat -> de_typed fuel E t s <> TFuel.
Proof.
  intros E t s fuel Hf. eapply tchk_no_fuel. apply (proj1 (dt_main E false true fuel) t s).
  - right. unfold typed_fuel in Hf. lia.
  - left; reflexivity.
Qed.

Theorem de_typed_no_fuel : forall E t s, de_typed (typed_fuel t (rest s)) E t s <> TFuel.
Proof. intros E t s. apply de_typed_no_fuel_strong. lia. Qed.

(* ---- panic ---- *)
Theorem de_typed_no_panic : forall fuel E t s,
  (limit_disabled (cf E) = true \/ (1 <= depth s <= 255)%N) -> de_typed fuel E t s <> TPanic.
Proof.
  intros fuel E t s Hd. eapply tchk_no_panic. apply (proj1 (dt_main E true false fuel) t s).
  - left; reflexivity.
  - right. exact Hd.
Qed.

(* ---- depth budget and offsets ---- *)
Theorem de_typed_depth_restored : forall fuel E t s d s', de_typed fuel E t s = TOk (d, s') -> depth s' = depth s.
Proof. intros fuel E t s d s' H. apply de_typed_ok_advd in H. exact (proj2 H). Qed.

Theorem de_typed_offsets_strong : forall fuel E t s d s', de_typed fuel E t s = TOk (d, s') ->
  exists k, rest s = firstn k (rest s) ++ rest s' /\ off s' = (off s + k)%nat /\ (1 <= k <= length (rest s))%nat.
Proof.
  intros fuel E t s d s' H. apply de_typed_ok_advd in H. destruct H as [H _].
  apply adv_firstn in H. destruct H as (k & H1 & H2 & H3 & H4). exists k. repeat split; auto.
Qed.

Theorem de_typed_offsets : forall fuel E t s d s', de_typed fuel E t s = TOk (d, s') ->
  exists k, rest s = firstn k (rest s) ++ rest s' /\ off s' = (off s + k)%nat /\ (k <= length (rest s))%nat.
Proof.
  intros fuel E t s d s' H. apply de_typed_offsets_strong in H. destruct H as (k & H1 & H2 & H3 & H4).
  exists k. repeat split; auto.
Qed.

(* an unpositioned data error carries a reader state with the budget restored as well
   (this is what makes the `+= 1` of check_recursion! on the error path safe) *)
Theorem de_typed_unpos_depth : forall fuel E t s k s', de_typed fuel E t s = TUnpos k s' -> depth s' = depth s.
Proof.
  intros fuel E t s k s' H.
  pose proof (proj1 (dt_main E true true fuel) t s (or_introl eq_refl) (or_introl eq_refl)) as Hc.
  rewrite H in Hc. exact Hc.
Qed.

(* ---- from_input_typed ---- *)
Lemma from_input_typed_chk E t bs : ttot (fun _ => True) (depth (init_st bs)) (from_input_typed E t bs).
Proof.
  unfold from_input_typed. eapply tchk_tbind.
  - apply (proj1 (dt_main E false false (typed_fuel t bs)) t (init_st bs)).
    + right. unfold typed_fuel, init_st; cbn [rest]. lia.
    + right. right. unfold init_st; cbn [depth]. rewrite DEPTH0_val. lia.
  - intros [d s1] _. tbw de_end_tot as s2. exact I.
Qed.

Theorem from_input_typed_no_fuel : forall E t bs, from_input_typed E t bs <> TFuel.
Proof. intros E t bs. eapply tchk_no_fuel, from_input_typed_chk. Qed.

Theorem from_input_typed_no_panic : forall E t bs, from_input_typed E t bs <> TPanic.
Proof. intros E t bs. eapply tchk_no_panic, from_input_typed_chk. Qed.

(* ---- the MapKey deserializer.  [s] has the opening quote peeked (this is how de_entries calls it:
        [has_next_key_quote]); without it, `KUnitEnum` reaches the unreachable!() VariantAccess branch. ---- *)
Lemma de_key_ok_advd fuel E k s d s' : rest s <> [] -> de_key fuel E k s = TOk (d, s') -> advd 1 s s'.
Proof.
  intros Hne H.
  pose proof (proj2 (proj2 (proj2 (proj2 (proj2 (proj2 (dt_main E true true fuel)))))) k s (or_introl eq_refl)
                (conj Hne (or_introl eq_refl))) as Hc.
  rewrite H in Hc. exact Hc.
Qed.

Theorem de_key_no_fuel : forall E k s fuel, rest s <> [] ->
  (4 * length (rest s) + 2 * kty_depth k + 2 <= fuel)%nat -> de_key fuel E k s <> TFuel.
Proof.
  intros E k s fuel Hne Hf. eapply tchk_no_fuel.
  apply (proj2 (proj2 (proj2 (proj2 (proj2 (proj2 (dt_main E false true fuel)))))) k s).
  - right. exact Hf.
  - split; [exact Hne|left; reflexivity].
Qed.

Theorem de_key_no_panic : forall fuel E k s, (exists r, rest s = 34 :: r) -> de_key fuel E k s <> TPanic.
Proof.
  intros fuel E k s [r Hr]. eapply tchk_no_panic.
  apply (proj2 (proj2 (proj2 (proj2 (proj2 (proj2 (dt_main E true false fuel)))))) k s).
  - left; reflexivity.
  - split; [rewrite Hr; discriminate|right; exists r; exact Hr].
Qed.

Theorem de_key_depth_restored : forall fuel E k s d s', rest s <> [] ->
  de_key fuel E k s = TOk (d, s') -> depth s' = depth s.
Proof. intros fuel E k s d s' Hne H. apply de_key_ok_advd in H; [exact (proj2 H)|exact Hne]. Qed.

Theorem de_key_offsets : forall fuel E k s d s', rest s <> [] -> de_key fuel E k s = TOk (d, s') ->
  exists n, rest s = firstn n (rest s) ++ rest s' /\ off s' = (off s + n)%nat /\ (n <= length (rest s))%nat.
Proof.
  intros fuel E k s d s' Hne H. apply de_key_ok_advd in H; [|exact Hne]. destruct H as [H _].
  apply adv_firstn in H. destruct H as (n & H1 & H2 & H3 & H4). exists n. repeat split; auto.
Qed.

(* de_entries only ever calls de_key on a peeked quote, with enough fuel *)
Theorem de_key_called_on_quote : forall E first s s1, has_next_key E first s = Ok (Some s1) -> exists r, rest s1 = 34 :: r.
Proof. exact has_next_key_quote. Qed.

(* ---- typed streams: StreamDeserializer::next never yields a fuel/panic item ---- *)
Theorem stream_next_typed_no_bad : forall E t ss,
  (limit_disabled (cf E) = true \/ 1 <= depth (ss_st ss) <= 255) ->
  fst (stream_next_typed E t ss) <> Some TIBad.
Proof.
  intros E t ss Hd. unfold stream_next_typed.
  destruct (is_io E && ss_failed ss); [cbn [fst]; discriminate|].
  pose proof (parse_whitespace_tot E (ss_st ss)) as Hw.
  destruct (parse_whitespace E (ss_st ss)) as [[o s1]|c i| |]; cbn [chk] in Hw; try discriminate Hw;
    [|cbn [fst res_titem]; discriminate].
  destruct Hw as [Ha Hn]; cbn [fst snd] in Ha, Hn.
  destruct o as [b|]; [|cbn [fst]; discriminate].
  cbv zeta.
  assert (Hit : ttot (fun p => advd 1 s1 (snd p)) (depth s1) (de_typed (typed_fuel t (rest s1)) E t s1)).
  { apply (proj1 (dt_main E false false _)).
    - right. unfold typed_fuel. lia.
    - right. eapply dok_advd; eauto. }
  destruct (de_typed (typed_fuel t (rest s1)) E t s1) as [[v s2]|c i|k s'| |]; cbn [tchk] in Hit;
    try discriminate Hit; try (cbn [fst tres_item]; discriminate).
  destruct ((b =? 91) || (b =? 34) || (b =? 123)); [cbn [fst]; discriminate|].
  pose proof (peek_end_of_value_tot E s2) as Hp.
  destruct (peek_end_of_value E s2) as [s3|c i| |]; cbn [chk] in Hp; try discriminate Hp;
    [cbn [fst]; discriminate|].
  destruct c; cbn [fst res_titem]; discriminate.
Qed.

(* ---- the hypotheses cannot be dropped ---- *)
Definition E_sl0 : env := mkEnv RSlice TEof (mkCfg false false false false).

(* a budget of 0 (resp. 256, not a u8) on entry makes the model Panic at `-= 1` (resp. `+= 1`) *)
Example typed_depth_0_panics : de_typed 10 E_sl0 (TSeq TBool) (mkSt [91; 93] 0 false 0) = TPanic.
Proof. vm_compute. reflexivity. Qed.
Example typed_depth_256_panics : de_typed 10 E_sl0 (TSeq TBool) (mkSt [91; 93] 0 false 256) = TPanic.
Proof. vm_compute. reflexivity. Qed.
Example typed_depth_255_ok : de_typed 10 E_sl0 (TSeq TBool) (mkSt [91; 93] 0 false 255) = TOk (DSeq [], mkSt [] 2 false 255).
Proof. vm_compute. reflexivity. Qed.
(* the MapKey deserializer on something that is not a quote: `{"A":1}` as a unit-enum key *)
Example de_key_not_on_quote_panics :
  de_key 5 E_sl0 (KUnitEnum [[65]]) (init_st [123; 34; 65; 34; 58; 49; 125]) = TPanic.
Proof. vm_compute. reflexivity. Qed.

Print Assumptions de_typed_no_fuel.
Print Assumptions de_typed_no_fuel_strong.
Print Assumptions from_input_typed_no_fuel.
Print Assumptions de_typed_no_panic.
Print Assumptions from_input_typed_no_panic.
Print Assumptions de_typed_depth_restored.
Print Assumptions de_typed_offsets.
Print Assumptions de_typed_offsets_strong.
Print Assumptions de_typed_unpos_depth.
Print Assumptions de_key_no_fuel.
Print Assumptions de_key_no_panic.
Print Assumptions de_key_depth_restored.
Print Assumptions de_key_offsets.
Print Assumptions stream_next_typed_no_bad.
