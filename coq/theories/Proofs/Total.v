(* Proofs/Total.v — totality of the byte-level model (no OutOfFuel, no Panic), cursor/offset consistency,
   restoration of the depth budget, and the recursion limit.

   Method.  Every modelled function returns a [res]; the predicate [chk af ap P r] says
     r = Ok a   -> P a,      r = OutOfFuel -> af = true,      r = Panic -> ap = true
   so [tot P := chk false false P] means "never OutOfFuel, never Panic, and P on success".
   [advd n s s'] says that cursor s' is s after consuming at least n bytes (rest s = pre ++ rest s',
   off s' = off s + |pre|, n <= |pre|) with the same depth budget.  Each model function gets one lemma
   [f_tot : tot (advd n s) (f E s)], proved compositionally with [chk_bind]; the mutual recursion
   parse_value/parse_seq/parse_map is handled once ([pv_main]) for all four flag combinations, which yields
   offsets/depth (flags true,true), fuel sufficiency (false,true) and panic freedom (true,false).

   Everything is proved for ALL environments E (any reader kind, any terminator, any cfg) and without any
   assumption on byte values; the theorems with the exact statements requested (with [tm E = TEof], [wf_in] ...)
   are corollaries at the end of the file.  Nothing is assumed: the string layer and the f64_from_parts loop
   bound are proved here as well ([parse_str_tot], [ignore_str_tot], [F64Fuel.f64_loop_fuel]). *)
From SJ Require Import Base.Bytes Base.Utf8 Base.FloatB Gen.Tables Model.Read Model.Str Model.Num Model.Value Model.De Model.Ignore Model.Stream.
From Flocq Require Import Core BinarySingleNaN.
From Coq Require Import Reals Lra.
Require Import Lia ZifyBool ZifyNat ZifyN.
Open Scope N_scope.

(* ================================================================== *)
(** * Part 0 — f64_from_parts: the division loop runs at most 3 times (fuel 4 suffices) *)
Module F64Fuel.
Local Open Scope Z_scope.
Notation fexp64 := (SpecFloat.fexp 53 1024).
Notation rnd64 := (round radix2 fexp64 ZnearestE).

Lemma fexp64_eq e : fexp64 e = Z.max (e - 53) (-1074).
Proof. reflexivity. Qed.

Definition small (k : Z) (f : b64) : Prop := is_finite f = true /\ (Rabs (B2R f) <= bpow radix2 k)%R.

Lemma format_bpow64 k : -1074 <= k -> generic_format radix2 fexp64 (bpow radix2 k).
Proof. intros Hk. apply generic_format_bpow. rewrite fexp64_eq. lia. Qed.

Lemma b64_of_Z_small z : 0 <= z < 2 ^ 64 -> small 64 (b64_of_Z z).
Proof.
  intros Hz. unfold b64_of_Z.
  pose proof (binary_normalize_correct 53 1024 _ _ mode_NE z 0 false) as H. cbv zeta in H.
  assert (Hx : F2R (Float radix2 z 0) = IZR z) by (unfold F2R; cbn; lra).
  rewrite Hx in H.
  assert (Hb : (Rabs (round radix2 fexp64 (round_mode mode_NE) (IZR z)) <= bpow radix2 64)%R).
  { apply abs_round_le_generic; try typeclasses eauto.
    - apply format_bpow64. lia.
    - rewrite Rabs_pos_eq by (apply IZR_le; lia). change (bpow radix2 64) with (IZR (2 ^ 64)). apply IZR_le. lia. }
  rewrite Rlt_bool_true in H.
  - destruct H as (Hr & Hf & _). split; [exact Hf|]. rewrite Hr. exact Hb.
  - eapply Rle_lt_trans; [exact Hb|]. apply bpow_lt. lia.
Qed.

Definition P308 : b64 := rne_decimal 1 308.

Definition sme (x : b64) : option (bool * positive * Z) :=
  match x with B754_finite s m e _ => Some (s, m, e) | _ => None end.

Lemma sme_B2R x s m e : sme x = Some (s, m, e) -> B2R x = F2R (Float radix2 (cond_Zopp s (Zpos m)) e).
Proof. destruct x as [s'|s'| |s' m' e' pf]; cbn [sme]; intros H; try discriminate H. injection H as -> -> ->. reflexivity. Qed.

Lemma P308_sme : sme P308 = Some (false, 5010420900022432%positive, 971).
Proof. vm_compute. reflexivity. Qed.

Lemma P308_ge : (bpow radix2 1023 <= B2R P308)%R.
Proof.
  rewrite (sme_B2R _ _ _ _ P308_sme). cbn [cond_Zopp]. unfold F2R. cbn [Fnum Fexp].
  change 1023 with (52 + 971). rewrite bpow_plus.
  apply Rmult_le_compat_r; [apply bpow_ge_0|].
  change (bpow radix2 52) with (IZR (2 ^ 52)). apply IZR_le. lia.
Qed.

Lemma div_abs_le x y k : (Rabs x <= bpow radix2 k)%R -> (bpow radix2 1023 <= y)%R ->
  (Rabs (x / y) <= bpow radix2 (k - 1023))%R.
Proof.
  intros Hx Hy. pose proof (bpow_gt_0 radix2 1023) as Hp.
  unfold Rdiv. rewrite Rabs_mult, Rabs_inv. rewrite (Rabs_pos_eq y) by lra.
  unfold Z.sub. rewrite bpow_plus, bpow_opp.
  apply Rmult_le_compat; [apply Rabs_pos| |exact Hx|].
  - left. apply Rinv_0_lt_compat. lra.
  - apply Rinv_le_contravar; lra.
Qed.

Lemma div308_small k f : small k f -> -1074 <= k - 1023 -> k < 2000 -> small (k - 1023) (b64_div f P308).
Proof.
  intros [Hf Hk] Hlo Hhi. unfold b64_div.
  pose proof P308_ge as Hge. pose proof (bpow_gt_0 radix2 1023) as Hp.
  pose proof (Bdiv_correct 53 1024 _ _ mode_NE f P308) as H.
  assert (Hb : (Rabs (round radix2 fexp64 (round_mode mode_NE) (B2R f / B2R P308)) <= bpow radix2 (k - 1023))%R).
  { apply abs_round_le_generic; try typeclasses eauto.
    - apply format_bpow64. lia.
    - apply div_abs_le; assumption. }
  rewrite Rlt_bool_true in H.
  - destruct H as (Hr & Hfin & _); [lra|]. split; [rewrite Hfin; exact Hf|]. rewrite Hr. exact Hb.
  - eapply Rle_lt_trans; [exact Hb|]. apply bpow_lt. lia.
Qed.

Lemma rnd64_tiny v : (Rabs v <= bpow radix2 (-1076))%R -> rnd64 v = 0%R.
Proof.
  intros Hv.
  assert (Hz : rnd64 (bpow radix2 (-1076)) = 0%R).
  { apply round_N_small_pos with (ex := -1075).
    - split; [apply Rle_refl|apply bpow_lt; lia].
    - rewrite fexp64_eq. lia. }
  apply Rabs_le_inv in Hv. destruct Hv as [Hlo Hhi].
  apply Rle_antisym.
  - rewrite <- Hz. apply round_le; try typeclasses eauto. exact Hhi.
  - replace 0%R with (- 0)%R by lra. rewrite <- Hz. rewrite <- round_NE_opp.
    apply round_le; try typeclasses eauto. exact Hlo.
Qed.

Lemma finite_B2R_0 (g : b64) : is_finite g = true -> B2R g = 0%R -> b64_is_zero g = true.
Proof.
  destruct g as [s|s| |s m e pf]; cbn [is_finite b64_is_zero B2R]; try reflexivity; try discriminate.
  intros _ H. apply eq_0_F2R in H. destruct s; discriminate H.
Qed.

Lemma div308_zero k f : small k f -> k - 1023 <= -1076 -> b64_is_zero (b64_div f P308) = true.
Proof.
  intros [Hf Hk] Hlo. unfold b64_div.
  pose proof P308_ge as Hge. pose proof (bpow_gt_0 radix2 1023) as Hp.
  pose proof (Bdiv_correct 53 1024 _ _ mode_NE f P308) as H.
  assert (Hr0 : round radix2 fexp64 (round_mode mode_NE) (B2R f / B2R P308) = 0%R).
  { apply rnd64_tiny. eapply Rle_trans; [apply div_abs_le; eassumption|]. apply bpow_le. lia. }
  rewrite Hr0 in H. rewrite Rlt_bool_true in H.
  - destruct H as (Hr & Hfin & _); [lra|]. apply finite_B2R_0; [rewrite Hfin; exact Hf|exact Hr].
  - rewrite Rabs_R0. apply bpow_gt_0.
Qed.

Lemma f64_loop_S_oof fu f e : f64_loop (S fu) f e = OutOfFuel ->
  b64_is_zero f = false /\ f64_loop fu (b64_div f P308) (e + 308) = OutOfFuel.
Proof.
  cbn [f64_loop]. destruct (pow10_tab (Z.abs e)).
  - destruct (0 <=? e); [destruct (b64_is_inf _)|]; discriminate.
  - destruct (b64_is_zero f); [discriminate|]. destruct (0 <=? e); [discriminate|]. auto.
Qed.

Theorem f64_loop_fuel : forall (sig : N) (e : Z), (sig < two64)%N -> f64_loop 4 (b64_of_Z (Z.of_N sig)) e <> OutOfFuel.
Proof.
  intros sig e Hs H4.
  assert (H0 : small 64 (b64_of_Z (Z.of_N sig))).
  { apply b64_of_Z_small. unfold two64 in Hs. lia. }
  apply f64_loop_S_oof in H4. destruct H4 as [_ H3].
  pose proof (div308_small 64 _ H0 ltac:(lia) ltac:(lia)) as H1.
  apply f64_loop_S_oof in H3. destruct H3 as [_ H2].
  pose proof (div308_zero (64 - 1023) _ H1 ltac:(lia)) as Hz.
  apply f64_loop_S_oof in H2. destruct H2 as [Hnz _]. congruence.
Qed.
End F64Fuel.

(* ================================================================== *)
(** * Part 1 — outcome predicates, cursor movement, Model/Read.v *)
(* ------------------------------------------------------------------ *)
(** * Outcome predicates *)

Definition chk {A} (af ap : bool) (P : A -> Prop) (r : res A) : Prop :=
  match r with
  | Ok a => P a
  | Err _ _ => True
  | OutOfFuel => af = true
  | Panic => ap = true
  end.

Notation tot := (chk false false).

Lemma chk_bind {A B} af ap (P : A -> Prop) (Q : B -> Prop) (r : res A) (f : A -> res B) :
  chk af ap P r -> (forall a, P a -> chk af ap Q (f a)) -> chk af ap Q (bind r f).
Proof. destruct r as [a|c i| |]; cbn [chk bind]; auto. Qed.

Lemma chk_weaken {A} af ap (P Q : A -> Prop) (r : res A) :
  chk af ap P r -> (forall a, P a -> Q a) -> chk af ap Q r.
Proof. destruct r as [a|c i| |]; cbn [chk]; auto. Qed.

Lemma tot_chk {A} af ap (P : A -> Prop) (r : res A) : tot P r -> chk af ap P r.
Proof. destruct r as [a|c i| |]; cbn [chk]; auto; discriminate. Qed.

Lemma chk_ok {A} af ap (P : A -> Prop) r a : chk af ap P r -> r = Ok a -> P a.
Proof. intros H ->. exact H. Qed.

Lemma chk_no_fuel {A} ap (P : A -> Prop) r : chk false ap P r -> r <> OutOfFuel.
Proof. intros H ->. discriminate H. Qed.

Lemma chk_no_panic {A} af (P : A -> Prop) r : chk af false P r -> r <> Panic.
Proof. intros H ->. discriminate H. Qed.

Lemma chk_error {A} af ap (P : A -> Prop) E s c : chk af ap P (error E s c).
Proof. exact I. Qed.
Lemma chk_peek_error {A} af ap (P : A -> Prop) E s c : chk af ap P (peek_error E s c).
Proof. exact I. Qed.

(* ------------------------------------------------------------------ *)
(** * Cursor movement *)

(* [advd n s s']: s' is s after consuming at least n bytes; depth unchanged *)
Definition adv (n : nat) (s s' : st) : Prop :=
  exists pre, rest s = pre ++ rest s' /\ off s' = (off s + length pre)%nat /\ (n <= length pre)%nat.
Definition advd (n : nat) (s s' : st) : Prop := adv n s s' /\ depth s' = depth s.

Lemma adv_refl s : adv 0 s s.
Proof. exists []. cbn. repeat split; lia. Qed.

Lemma adv_same s s' : rest s' = rest s -> off s' = off s -> adv 0 s s'.
Proof. intros Hr Ho. exists []. rewrite Hr, Ho. cbn. repeat split; lia. Qed.

Lemma adv_trans n m k s t u : adv n s t -> adv m t u -> (k <= n + m)%nat -> adv k s u.
Proof.
  intros (p1 & Hr1 & Ho1 & Hn1) (p2 & Hr2 & Ho2 & Hn2) Hk.
  exists (p1 ++ p2). rewrite Hr1, Hr2, app_assoc, app_length. repeat split; lia.
Qed.

Lemma adv_le n m s t : adv n s t -> (m <= n)%nat -> adv m s t.
Proof. intros (p & Hr & Ho & Hn) Hm. exists p. repeat split; auto; lia. Qed.

Lemma adv_len n s t : adv n s t -> (length (rest t) + n <= length (rest s))%nat.
Proof. intros (p & Hr & Ho & Hn). rewrite Hr, app_length. lia. Qed.

Lemma advd_refl s : advd 0 s s.
Proof. split; [apply adv_refl | reflexivity]. Qed.

Lemma advd_trans n m k s t u : advd n s t -> advd m t u -> (k <= n + m)%nat -> advd k s u.
Proof. intros [H1 D1] [H2 D2] Hk. split; [eapply adv_trans; eauto | congruence]. Qed.

Lemma advd_trans' n m s t u : advd n s t -> advd m t u -> advd (n + m) s u.
Proof. intros H1 H2. eapply advd_trans; eauto. Qed.

Lemma advd_le n m s t : advd n s t -> (m <= n)%nat -> advd m s t.
Proof. intros [H1 D1] Hm. split; [eapply adv_le; eauto | auto]. Qed.

Lemma advd_len n s t : advd n s t -> (length (rest t) + n <= length (rest s))%nat.
Proof. intros [H _]. apply adv_len; auto. Qed.

Lemma advd_discard s : rest s <> [] -> advd 1 s (discard s).
Proof.
  intros Hne. destruct s as [r o p d]. cbn [rest] in Hne. destruct r as [|b r]; [congruence|].
  split; [|reflexivity]. exists [b]. cbn. repeat split; lia.
Qed.

Lemma advd_advance j s : (j <= length (rest s))%nat -> advd j s (advance j s).
Proof.
  intros Hj. split; [|reflexivity]. exists (firstn j (rest s)). unfold advance; cbn [rest off].
  rewrite firstn_skipn, firstn_length. repeat split; lia.
Qed.

Lemma span_len_le p l : (span_len p l <= length l)%nat.
Proof. induction l as [|b l IH]; cbn; [lia|]. destruct (p b); lia. Qed.

Lemma advd_span p s : advd 0 s (advance (span_len p (rest s)) s).
Proof. eapply advd_le; [apply advd_advance, span_len_le | lia]. Qed.

(* chaining tactic: proves [advd k s u] from hypotheses [advd _ _ _] by transitivity *)
Ltac advs_core :=
  first [ apply advd_refl
        | match goal with
          | H : advd _ ?s ?t |- advd _ ?s _ => eapply advd_trans'; [ exact H | advs_core ]
          end ].
Ltac advs := solve [ eapply advd_le; [ advs_core | lia ] ].

Ltac ne_solve :=
  solve [ assumption | congruence
        | match goal with H : _ -> rest ?s <> [] |- rest ?s <> [] => apply H; first [ congruence | lia ] end ].

(* record the effect of every [discard t] / span-[advance] appearing in the goal *)
Ltac note_moves :=
  repeat match goal with
  | |- context [discard ?t] =>
      lazymatch goal with
      | _ : advd 1 t (discard t) |- _ => fail
      | _ => assert (advd 1 t (discard t)) by (apply advd_discard; ne_solve)
      end
  | |- context [advance (span_len ?p (rest ?t)) ?t] =>
      lazymatch goal with
      | _ : advd 0 t (advance (span_len p (rest t)) t) |- _ => fail
      | _ => assert (advd 0 t (advance (span_len p (rest t)) t)) by apply advd_span
      end
  end.

(* ------------------------------------------------------------------ *)
(** * Model/Read.v *)

Definition pk_post (s : st) (p : option byte * st) : Prop :=
  advd 0 s (snd p) /\ (fst p <> None -> rest (snd p) <> []).
Definition pn_post (s : st) (p : byte * st) : Prop :=
  advd 0 s (snd p) /\ (fst p <> 0 -> rest (snd p) <> []).

Lemma at_end_chk {A} af ap (P : A -> Prop) E k : chk af ap P k -> chk af ap P (at_end E k).
Proof. unfold at_end. destruct (tm E); auto. intros _. exact I. Qed.

Lemma peek_tot E s : tot (pk_post s) (peek E s).
Proof.
  unfold peek. destruct (rest s) as [|b r] eqn:Hr.
  - apply at_end_chk. unfold pk_post. cbn. split; [|congruence]. split; [apply adv_same; cbn; auto|reflexivity].
  - unfold pk_post. cbn. split; [|congruence]. split; [apply adv_same; cbn; auto|reflexivity].
Qed.

Lemma next_tot E s : tot (fun p => match fst p with Some _ => advd 1 s (snd p) | None => advd 0 s (snd p) end) (next E s).
Proof.
  unfold next. destruct (rest s) as [|b r] eqn:Hr.
  - apply at_end_chk. cbn. split; [apply adv_same; cbn; auto|reflexivity].
  - cbn. split; [|reflexivity]. exists [b]. cbn. rewrite Hr. repeat split; lia.
Qed.

Lemma peek_or_null_tot E s : tot (pn_post s) (peek_or_null E s).
Proof.
  unfold peek_or_null. eapply chk_bind; [apply peek_tot|]. intros [o s1] [Ha Hn]. cbn [fst snd] in *.
  unfold pn_post; cbn [chk fst snd]. split; [exact Ha|]. intros H. apply Hn. destruct o; congruence.
Qed.

Lemma parse_whitespace_tot E s : tot (pk_post s) (parse_whitespace E s).
Proof.
  unfold parse_whitespace. note_moves.
  eapply chk_weaken; [apply peek_tot|]. intros [o s1] [Ha Hn]. split; cbn [fst snd] in *; [advs|exact Hn].
Qed.

Lemma skip_digits_tot E s : tot (pn_post s) (skip_digits E s).
Proof.
  unfold skip_digits. note_moves.
  eapply chk_weaken; [apply peek_or_null_tot|]. intros [o s1] [Ha Hn]. split; cbn [fst snd] in *; [advs|exact Hn].
Qed.

Lemma parse_ident_tot E ident : forall s, tot (fun s' => advd (length ident) s s') (parse_ident E ident s).
Proof.
  induction ident as [|e ident IH]; intros s; cbn [parse_ident length].
  - cbn. apply advd_refl.
  - eapply chk_bind; [apply next_tot|]. intros [o s1] Ha. cbn [fst snd] in *.
    destruct o as [b|]; [|exact I].
    destruct (b =? e); [|exact I].
    eapply chk_weaken; [apply IH|]. intros s2 H2. cbn beta in *. advs.
Qed.

(* ================================================================== *)
(** * Part 2 — stepping tactics; Model/De.v helpers; check_recursion! *)
Ltac split_hyps := repeat match goal with H : _ /\ _ |- _ => destruct H end.

Ltac note_moves2 :=
  note_moves;
  repeat match goal with
  | Hle : (?n <= length (rest ?t))%nat |- context [advance ?n ?t] =>
      lazymatch goal with
      | _ : advd n t (advance n t) |- _ => fail
      | _ => assert (advd n t (advance n t)) by (apply advd_advance; exact Hle)
      end
  end.

Ltac side := first [ ne_solve | assumption | lia | (unfold Num.two64; lia) ].

(* one monadic step: the first computation is discharged by lemma [lem] *)
Tactic Notation "bw" constr(lem) "as" simple_intropattern(pat) :=
  note_moves2;
  eapply chk_bind; [ apply tot_chk; apply lem; side | ];
  let Hp := fresh "Hp" in
  intros pat Hp;
  unfold pk_post, pn_post in Hp; cbn [fst snd] in Hp; split_hyps.

(* the last computation *)
Tactic Notation "fin" constr(lem) "as" simple_intropattern(pat) :=
  note_moves2;
  eapply chk_weaken; [ apply tot_chk; apply lem; side | ];
  let Hp := fresh "Hp" in
  intros pat Hp;
  unfold pk_post, pn_post in Hp; cbn [fst snd] in *; split_hyps; try advs.

Ltac brk :=
  match goal with
  | |- chk _ _ _ (error _ _ _) => exact I
  | |- chk _ _ _ (peek_error _ _ _) => exact I
  | |- chk _ _ _ (Err _ _) => exact I
  | |- chk _ _ _ (if ?c then _ else _) => destruct c eqn:?
  | |- chk _ _ _ (match ?o with Some _ => _ | None => _ end) => destruct o
  end.

Ltac okk := cbn [chk fst snd]; note_moves2; try advs.

Lemma end_seq_tot E s : tot (fun s' => advd 1 s s') (end_seq E s).
Proof.
  unfold end_seq. bw parse_whitespace_tot as [o1 s1]. brk; [|brk]. brk; [okk|]. brk; [|brk].
  bw parse_whitespace_tot as [o2 s2]. brk; [|brk]. brk; brk.
Qed.

Lemma end_map_tot E s : tot (fun s' => advd 1 s s') (end_map E s).
Proof.
  unfold end_map. bw parse_whitespace_tot as [o1 s1]. brk; [|brk]. brk; [okk|]. brk; brk.
Qed.

Lemma parse_object_colon_tot E s : tot (fun s' => advd 1 s s') (parse_object_colon E s).
Proof.
  unfold parse_object_colon. bw parse_whitespace_tot as [o1 s1]. brk; [|brk]. brk; [okk|brk].
Qed.

Lemma de_end_tot E s : tot (fun s' => advd 0 s s') (de_end E s).
Proof.
  unfold de_end. bw parse_whitespace_tot as [o1 s1]. brk; [brk|okk].
Qed.

Definition hn_post (first : bool) (s : st) (o : option st) : Prop :=
  match o with
  | None => True
  | Some s1 => advd (if first then 0 else 1) s s1 /\ rest s1 <> []
  end.

Lemma has_next_element_tot E first s : tot (hn_post first s) (has_next_element E first s).
Proof.
  unfold has_next_element. bw parse_whitespace_tot as [o1 s1]. brk; [|brk]. brk; [exact I|].
  brk. { cbn [chk hn_post]. split; [advs|ne_solve]. }
  brk; [|brk]. bw parse_whitespace_tot as [o2 s2]. brk; [|brk]. brk; [brk|].
  cbn [chk hn_post]. note_moves2. split; [advs|ne_solve].
Qed.

Lemma has_next_key_tot E first s : tot (hn_post first s) (has_next_key E first s).
Proof.
  unfold has_next_key. bw parse_whitespace_tot as [o1 s1]. brk; [|brk]. brk; [exact I|].
  brk. { brk; [|brk]. cbn [chk hn_post]. split; [advs|ne_solve]. }
  brk; [|brk]. bw parse_whitespace_tot as [o2 s2]. brk; [|brk]. brk.
  - cbn [chk hn_post]. note_moves2. split; [advs|ne_solve].
  - brk; brk.
Qed.

(* check_recursion! *)
Definition enter_post (E : env) (s s' : st) : Prop :=
  adv 0 s s' /\ rest s' = rest s /\
  (if limit_disabled (cf E) then depth s' = depth s else depth s = depth s' + 1 /\ 1 <= depth s').
Definition leave_post (E : env) (s s' : st) : Prop :=
  adv 0 s s' /\ (if limit_disabled (cf E) then depth s' = depth s else depth s' = depth s + 1).

Definition dok (E : env) (s : st) : Prop := limit_disabled (cf E) = true \/ 1 <= depth s <= 255.

Lemma enter_chk E af ap s : (ap = true \/ dok E s) -> chk af ap (enter_post E s) (enter E s).
Proof.
  unfold enter, enter_post, dok. intros Hd. destruct (limit_disabled (cf E)) eqn:Hl.
  - cbn [chk]. repeat split. apply adv_refl.
  - destruct (depth s =? 0) eqn:Hz.
    + cbn [chk]. destruct Hd as [Hd|[Hd|Hd]]; [exact Hd|discriminate|lia].
    + cbn [depth]. destruct (depth s - 1 =? 0) eqn:Hz'; [exact I|].
      cbn [chk rest depth]. repeat split; try lia. apply adv_same; reflexivity.
Qed.

Lemma leave_chk E af ap s : (ap = true \/ limit_disabled (cf E) = true \/ depth s < 255) ->
  chk af ap (leave_post E s) (leave E s).
Proof.
  unfold leave, leave_post. intros Hd. destruct (limit_disabled (cf E)) eqn:Hl.
  - cbn [chk]. split; [apply adv_refl|reflexivity].
  - destruct (255 <=? depth s) eqn:Hz.
    + cbn [chk]. destruct Hd as [Hd|[Hd|Hd]]; [exact Hd|discriminate|lia].
    + cbn [chk depth]. split; [apply adv_same; reflexivity|reflexivity].
Qed.

(* ================================================================== *)
(** * Part 3 — Model/Str.v: string literals *)
(* ---- bit-level bounds ---- *)
Lemma Zlor_bound a b n : (0 < n)%Z -> (0 <= a < 2 ^ n)%Z -> (0 <= b < 2 ^ n)%Z -> (0 <= Z.lor a b < 2 ^ n)%Z.
Proof.
  intros Hn Ha Hb. assert (Hnn : (0 <= Z.lor a b)%Z) by (apply Z.lor_nonneg; lia).
  split; [exact Hnn|].
  destruct (Z.eq_dec (Z.lor a b) 0) as [e|ne]; [rewrite e; apply Z.pow_pos_nonneg; lia|].
  apply Z.log2_lt_pow2; [lia|]. rewrite Z.log2_lor by lia.
  apply Z.max_lub_lt.
  - destruct (Z.eq_dec a 0) as [->|na]; [exact Hn|]. apply Z.log2_lt_pow2; lia.
  - destruct (Z.eq_dec b 0) as [->|nb]; [exact Hn|]. apply Z.log2_lt_pow2; lia.
Qed.

Lemma Nlor_bound a b n : 0 < n -> a < 2 ^ n -> b < 2 ^ n -> N.lor a b < 2 ^ n.
Proof.
  intros Hn Ha Hb.
  destruct (N.eq_dec (N.lor a b) 0) as [e|ne]; [rewrite e; lia|].
  apply N.log2_lt_pow2; [lia|]. rewrite N.log2_lor.
  apply N.max_lub_lt.
  - destruct (N.eq_dec a 0) as [->|na]; [exact Hn|]. apply N.log2_lt_pow2; lia.
  - destruct (N.eq_dec b 0) as [->|nb]; [exact Hn|]. apply N.log2_lt_pow2; lia.
Qed.

Lemma hex_val_le b v : hex_val b = Some v -> v <= 15.
Proof.
  unfold hex_val, HEX_RANGES. cbn [hex_lookup].
  repeat match goal with |- context [if ?c then _ else _] => destruct c eqn:? end;
    intros H; try discriminate H; injection H as <-; lia.
Qed.

Lemma hex_tab_range sh b : sh = 0 \/ sh = 4 -> (0 <= hex_tab sh b -> 0 <= hex_tab sh b < 256)%Z.
Proof.
  intros Hsh. unfold hex_tab. destruct (hex_val b) as [v|] eqn:Hv; [|lia].
  apply hex_val_le in Hv. intros _. rewrite Z.shiftl_mul_pow2 by lia.
  destruct Hsh as [-> | ->]; cbn; lia.
Qed.

Lemma decode_four_hex_lt a b c d v : decode_four_hex a b c d = Some v -> v < 65536.
Proof.
  unfold decode_four_hex.
  set (ha := hex_tab 4 a). set (hb := hex_tab 0 b). set (hc := hex_tab 4 c). set (hd := hex_tab 0 d).
  destruct (0 <=? _)%Z eqn:Hnn; [|discriminate]. intros H; injection H as <-.
  apply Z.leb_le in Hnn.
  apply Z.lor_nonneg in Hnn. destruct Hnn as [Hnn Hd].
  apply Z.lor_nonneg in Hnn. destruct Hnn as [Hnn Hc].
  apply Z.shiftl_nonneg in Hnn. apply Z.lor_nonneg in Hnn. destruct Hnn as [Ha Hb].
  apply (hex_tab_range 4 a) in Ha; [|auto]. apply (hex_tab_range 0 b) in Hb; [|auto].
  apply (hex_tab_range 4 c) in Hc; [|auto]. apply (hex_tab_range 0 d) in Hd; [|auto].
  fold ha in Ha. fold hb in Hb. fold hc in Hc. fold hd in Hd.
  assert (H1 : (0 <= Z.lor ha hb < 2 ^ 8)%Z) by (apply Zlor_bound; cbn; lia).
  assert (H2 : (0 <= Z.shiftl (Z.lor ha hb) 8 < 2 ^ 16)%Z).
  { rewrite Z.shiftl_mul_pow2 by lia. cbn in *. lia. }
  assert (H3 : (0 <= Z.lor (Z.shiftl (Z.lor ha hb) 8) hc < 2 ^ 16)%Z) by (apply Zlor_bound; cbn in *; lia).
  assert (H4 : (0 <= Z.lor (Z.lor (Z.shiftl (Z.lor ha hb) 8) hc) hd < 2 ^ 16)%Z) by (apply Zlor_bound; cbn in *; lia).
  cbn in H4. lia.
Qed.

Lemma surrogate_pair_le n1 n2 : 55296 <= n1 <= 56319 -> 56320 <= n2 <= 57343 ->
  N.lor (N.shiftl (n1 - 55296) 10) (n2 - 56320) + 65536 <= 1114111.
Proof.
  intros H1 H2.
  assert (H : N.lor (N.shiftl (n1 - 55296) 10) (n2 - 56320) < 2 ^ 20).
  { apply Nlor_bound; [lia| |cbn; lia]. rewrite N.shiftl_mul_pow2. cbn. lia. }
  cbn in H. lia.
Qed.

Lemma push_wtf8_tot n : n <= 1114111 -> tot (fun _ => True) (push_wtf8 n).
Proof.
  intros Hn. unfold push_wtf8.
  repeat match goal with |- context [if ?c then _ else _] => destruct c eqn:? end; try exact I. lia.
Qed.

(* ---- escapes ---- *)
Lemma next_or_eof_tot E s : tot (fun p => advd 1 s (snd p)) (next_or_eof E s).
Proof. unfold next_or_eof. bw next_tot as [o s1]. destruct o as [b|]; [okk|exact I]. Qed.

Lemma peek_or_eof_tot E s : tot (fun p => advd 0 s (snd p) /\ rest (snd p) <> []) (peek_or_eof E s).
Proof.
  unfold peek_or_eof. bw peek_tot as [o s1]. destruct o as [b|]; [|exact I].
  cbn [chk fst snd]. split; [advs|ne_solve].
Qed.

Lemma decode_hex_escape_tot E s : tot (fun p => advd 4 s (snd p) /\ fst p < 65536) (decode_hex_escape E s).
Proof.
  unfold decode_hex_escape. destruct (is_io E).
  - bw next_or_eof_tot as [a s1]. bw next_or_eof_tot as [b s2].
    bw next_or_eof_tot as [c s3]. bw next_or_eof_tot as [d s4].
    destruct (decode_four_hex a b c d) as [v|] eqn:Hv; [|exact I].
    apply decode_four_hex_lt in Hv. cbn [chk fst snd]. split; [advs|exact Hv].
  - destruct (rest s) as [|a [|b [|c [|d r]]]] eqn:Hr; try exact I.
    assert (Hl : (4 <= length (rest s))%nat) by (rewrite Hr; cbn [length]; lia).
    destruct (decode_four_hex a b c d) as [v|] eqn:Hv; [|exact I].
    apply decode_four_hex_lt in Hv. cbn [chk fst snd]. split; [|exact Hv].
    apply advd_advance. exact Hl.
Qed.

Lemma parse_escape_nonu_tot E s : tot (fun p => advd 1 s (snd p)) (parse_escape_nonu E s).
Proof.
  unfold parse_escape_nonu. bw next_or_eof_tot as [ch s1]. destruct (escape_simple ch); [okk|exact I].
Qed.

Lemma unicode_loop_S f E validate n s : unicode_loop (S f) E validate n s =
    if (n <? 55296) || (56319 <? n) then
      let* w := push_wtf8 n in Ok (w, s)
    else
      let n1 := n in
      let* (b, s1) := peek_or_eof E s in
      if b =? 92 then
        let s2 := discard s1 in
        let* (b2, s3) := peek_or_eof E s2 in
        if b2 =? 117 then
          let s4 := discard s3 in
          let* (n2, s5) := decode_hex_escape E s4 in
          if (n2 <? 56320) || (57343 <? n2) then
            if validate then error E s5 LoneLeadingSurrogateInHexEscape
            else
              let* w := push_wtf8 n1 in
              let* (w', s6) := unicode_loop f E validate n2 s5 in
              Ok (w ++ w', s6)
          else
            let cp := N.lor (N.shiftl (n1 - 55296) 10) (n2 - 56320) + 65536 in
            let* w := push_wtf8 cp in Ok (w, s5)
        else
          if validate then error E (discard s3) UnexpectedEndOfHexEscape
          else
            let* w := push_wtf8 n1 in
            let* (w', s4) := parse_escape_nonu E s3 in
            Ok (w ++ w', s4)
      else
        if validate then error E (discard s1) UnexpectedEndOfHexEscape
        else let* w := push_wtf8 n1 in Ok (w, s1).
Proof. reflexivity. Qed.

Lemma unicode_loop_tot E validate : forall fuel n s, n < 65536 -> (length (rest s) < fuel)%nat ->
  tot (fun p => advd 0 s (snd p)) (unicode_loop fuel E validate n s).
Proof.
  induction fuel as [|f IH]; intros n s Hn Hfu; [lia|]. rewrite unicode_loop_S.
  brk; [bw push_wtf8_tot as w; okk|]. cbv zeta.
  bw peek_or_eof_tot as [b s1]. brk.
  - bw peek_or_eof_tot as [b2 s3]. brk.
    + bw decode_hex_escape_tot as [n2 s5]. brk.
      * brk; [exact I|]. bw push_wtf8_tot as w.
        assert (H05 : advd 6 s s5) by advs.
        eapply chk_bind; [apply IH; [assumption|apply advd_len in H05; lia]|].
        intros [w' s6] Hx6. cbn [chk fst snd] in *. advs.
      * eapply chk_bind; [apply push_wtf8_tot, surrogate_pair_le; lia|]. intros w _. okk.
    + brk; [exact I|]. bw push_wtf8_tot as w. bw parse_escape_nonu_tot as [w' s4]. okk.
  - brk; [exact I|]. bw push_wtf8_tot as w. okk.
Qed.

Lemma parse_unicode_escape_tot E validate fuel s : (length (rest s) < fuel)%nat ->
  tot (fun p => advd 4 s (snd p)) (parse_unicode_escape fuel E validate s).
Proof.
  intros Hfu. unfold parse_unicode_escape. bw decode_hex_escape_tot as [n s1]. brk; [exact I|].
  eapply chk_weaken; [apply unicode_loop_tot; [assumption|]|].
  - match goal with H : advd 4 s s1 |- _ => apply advd_len in H; lia end.
  - intros [w s2] Hx2. cbn [fst snd] in *. advs.
Qed.

Lemma parse_escape_tot E validate fuel s : (length (rest s) < fuel)%nat ->
  tot (fun p => advd 1 s (snd p)) (parse_escape fuel E validate s).
Proof.
  intros Hfu. unfold parse_escape. bw next_or_eof_tot as [ch s1]. brk.
  - eapply chk_weaken; [apply parse_unicode_escape_tot|].
    + match goal with H : advd 1 s s1 |- _ => apply advd_len in H; lia end.
    + intros [w s2] Hx2. cbn [fst snd] in *. advs.
  - destruct (escape_simple ch); [okk|exact I].
Qed.

Lemma ignore_escape_tot E s : tot (fun s' => advd 1 s s') (ignore_escape E s).
Proof.
  unfold ignore_escape. bw next_or_eof_tot as [ch s1]. brk.
  - bw decode_hex_escape_tot as [n s2]. okk.
  - destruct (escape_simple ch); [okk|exact I].
Qed.

(* ---- the scanning loops ---- *)
Lemma io_str_loop_tot E validate : forall fuel s, (length (rest s) < fuel)%nat ->
  tot (fun p => advd 1 s (snd p)) (io_str_loop fuel E validate s).
Proof.
  induction fuel as [|f IH]; intros s Hfu; [lia|]. cbn [io_str_loop].
  bw next_or_eof_tot as [ch s1].
  assert (Hl1 : (length (rest s1) < f)%nat).
  { match goal with H : advd 1 s s1 |- _ => apply advd_len in H; lia end. }
  brk.
  - eapply chk_bind; [apply IH; exact Hl1|]. intros [out s2] Hx2. cbn [chk fst snd] in *. advs.
  - brk; [okk|]. brk.
    + bw parse_escape_tot as [w s2].
      eapply chk_bind.
      { apply IH. match goal with H : advd 1 s1 s2 |- _ => apply advd_len in H; lia end. }
      intros [out s3] Hx3. cbn [chk fst snd] in *. advs.
    + brk; [exact I|].
      eapply chk_bind; [apply IH; exact Hl1|]. intros [out s2] Hx2. cbn [chk fst snd] in *. advs.
Qed.

Lemma io_ignore_loop_tot E : forall fuel s, (length (rest s) < fuel)%nat ->
  tot (fun s' => advd 1 s s') (io_ignore_loop fuel E s).
Proof.
  induction fuel as [|f IH]; intros s Hfu; [lia|]. cbn [io_ignore_loop].
  bw next_or_eof_tot as [ch s1].
  assert (Hl1 : (length (rest s1) < f)%nat).
  { match goal with H : advd 1 s s1 |- _ => apply advd_len in H; lia end. }
  brk.
  - eapply chk_weaken; [apply IH; exact Hl1|]. intros s2 Hx2. cbn beta in *. advs.
  - brk; [okk|]. brk; [|exact I].
    bw ignore_escape_tot as s2.
    eapply chk_weaken.
    { apply IH. match goal with H : advd 1 s1 s2 |- _ => apply advd_len in H; lia end. }
    intros s3 Hx3. cbn beta in *. advs.
Qed.

Lemma advd_esc_span ctrl s : advd 0 s (advance (esc_span ctrl (rest s)) s).
Proof. unfold esc_span. apply advd_span. Qed.

Lemma slice_str_loop_tot E validate : forall fuel s, (length (rest s) < fuel)%nat ->
  tot (fun p => advd 1 s (snd p)) (slice_str_loop fuel E validate s).
Proof.
  induction fuel as [|f IH]; intros s Hfu; [lia|]. cbn [slice_str_loop]. cbv zeta.
  pose proof (advd_esc_span validate s) as Hsp.
  set (s1 := advance (esc_span validate (rest s)) s) in *.
  destruct (rest s1) as [|b r] eqn:Hr1; [exact I|].
  assert (Hne1 : rest s1 <> []) by congruence.
  assert (Hl1 : (1 <= length (rest s1))%nat) by (rewrite Hr1; cbn [length]; lia).
  pose proof (advd_advance 1 s1 Hl1) as Had.
  brk; [okk|]. brk; [|exact I].
  assert (Hl2 : (length (rest (advance 1 s1)) < f)%nat).
  { apply advd_len in Hsp. apply advd_len in Had. lia. }
  bw parse_escape_tot as [w s2].
  eapply chk_bind.
  { apply IH. apply advd_len in Hsp. apply advd_len in Had.
    match goal with H : advd 1 (advance 1 s1) s2 |- _ => apply advd_len in H; lia end. }
  intros [[out cp] s3] Hx3. cbn [chk fst snd] in *. advs.
Qed.

Lemma slice_ignore_loop_tot E : forall fuel s, (length (rest s) < fuel)%nat ->
  tot (fun s' => advd 1 s s') (slice_ignore_loop fuel E s).
Proof.
  induction fuel as [|f IH]; intros s Hfu; [lia|]. cbn [slice_ignore_loop]. cbv zeta.
  pose proof (advd_esc_span true s) as Hsp.
  set (s1 := advance (esc_span true (rest s)) s) in *.
  destruct (rest s1) as [|b r] eqn:Hr1; [exact I|].
  assert (Hl1 : (1 <= length (rest s1))%nat) by (rewrite Hr1; cbn [length]; lia).
  pose proof (advd_advance 1 s1 Hl1) as Had.
  brk; [okk|]. brk; [|exact I].
  bw ignore_escape_tot as s2.
  eapply chk_weaken.
  { apply IH. apply advd_len in Hsp. apply advd_len in Had.
    match goal with H : advd 1 (advance 1 s1) s2 |- _ => apply advd_len in H; lia end. }
  intros s3 Hx3. cbn beta in *. advs.
Qed.

Theorem parse_str_tot E s : tot (fun p => advd 1 s (snd p)) (parse_str E s).
Proof.
  unfold parse_str, str_fuel. destruct (rk E).
  - bw slice_str_loop_tot as [[out cp] s1]. brk; [okk|exact I].
  - bw slice_str_loop_tot as [[out cp] s1]. okk.
  - bw io_str_loop_tot as [out s1]. brk; [okk|exact I].
Qed.

Theorem ignore_str_tot E s : tot (fun s' => advd 1 s s') (ignore_str E s).
Proof.
  unfold ignore_str, str_fuel. destruct (rk E).
  - apply slice_ignore_loop_tot. lia.
  - apply slice_ignore_loop_tot. lia.
  - apply io_ignore_loop_tot. lia.
Qed.

(* ================================================================== *)
(** * Part 4 — Model/Num.v: numbers *)
Lemma exp_loop_le : forall l e n e' o, exp_loop l e = (n, e', o) -> (n <= length l)%nat.
Proof.
  induction l as [|c r IH]; intros e n e' o H; cbn [exp_loop length] in *.
  - injection H as <- _ _. lia.
  - destruct (is_digit c); [|injection H as <- _ _; lia].
    destruct (overflow_mac e (digit_val c) i32_max); [injection H as <- _ _; lia|].
    destruct (exp_loop r (e * 10 + digit_val c)) as [[n1 e1] o1] eqn:Hr.
    injection H as <- _ _. apply IH in Hr. lia.
Qed.

Lemma mul10add_lt a d : mul10add a d < two64.
Proof. unfold mul10add. apply N.mod_lt. discriminate. Qed.

Lemma sig_loop_le : forall l sig n sg ov, sig_loop l sig = (n, sg, ov) ->
  (n <= length l)%nat /\ (sig < two64 -> sg < two64).
Proof.
  induction l as [|c r IH]; intros sig n sg ov H; cbn [sig_loop length] in *.
  - injection H as <- <- _. split; [lia|auto].
  - destruct (is_digit c); [|injection H as <- <- _; split; [lia|auto]].
    destruct (overflow_mac sig (digit_val c) u64_max); [injection H as <- <- _; split; [lia|auto]|].
    destruct (sig_loop r (mul10add sig (digit_val c))) as [[n1 sg1] o1] eqn:Hr.
    injection H as <- <- _. apply IH in Hr. destruct Hr as [Hr1 Hr2]. split; [lia|].
    intros _. apply Hr2, mul10add_lt.
Qed.

Lemma f64_loop_no_panic : forall fuel f e, chk true false (fun _ => True) (f64_loop fuel f e).
Proof.
  induction fuel as [|fu IH]; intros f e; cbn [f64_loop]; [reflexivity|].
  destruct (pow10_tab (Z.abs e)).
  - destruct (0 <=? e)%Z; [destruct (b64_is_inf _)|]; exact I.
  - destruct (b64_is_zero f); [exact I|]. destruct (0 <=? e)%Z; [exact I|apply IH].
Qed.

Lemma f64_loop_fuel : forall sig e, sig < two64 -> f64_loop 4 (b64_of_Z (Z.of_N sig)) e <> OutOfFuel.
Proof. exact F64Fuel.f64_loop_fuel. Qed.

Lemma f64_from_parts_tot E positive sig e s : sig < two64 ->
  tot (fun p => advd 0 s (snd p)) (f64_from_parts E positive sig e s).
Proof.
  intros Hs. unfold f64_from_parts. eapply chk_bind with (P := fun _ => True).
  - destruct (float_roundtrip (cf E)); [exact I|].
    pose proof (f64_loop_no_panic 4 (b64_of_Z (Z.of_N sig)) e) as Hp.
    pose proof (f64_loop_fuel sig e Hs) as Hf.
    destruct (f64_loop 4 (b64_of_Z (Z.of_N sig)) e); cbn [chk] in *; auto; congruence.
  - intros o _. destruct o; [okk|exact I].
Qed.

Lemma parse_exponent_overflow_tot E positive zs pe s :
  tot (fun p => advd 0 s (snd p)) (parse_exponent_overflow E positive zs pe s).
Proof.
  unfold parse_exponent_overflow. brk; [brk|]. bw skip_digits_tot as [c1 s1]. okk.
Qed.

Ltac brk_if := match goal with |- context [if ?c then _ else _] => destruct c eqn:? end.

Lemma exponent_front_tot E s : rest s <> [] -> tot (fun p => advd 1 s (snd p)) (exponent_front E s).
Proof.
  intros Hne. unfold exponent_front. bw peek_or_null_tot as [c s1].
  assert (Hsg : forall (pe : bool) s2, advd 1 s s2 -> 
     tot (fun p : bool * (N * bool) * st => advd 1 s (snd p))
       (let* (o, s3) := next E s2 in
        match o with
        | None => error E s3 EofWhileParsingValue
        | Some c1 =>
          if is_digit c1 then
            let '(n, e, ov) := exp_loop (rest s3) (digit_val c1) in
            Ok (pe, (e, ov), advance n s3)
          else error E s3 InvalidNumber
        end)).
  { intros pe s2 H2. bw next_tot as [o3 s3]. destruct o3 as [c1|]; [|exact I]. brk; [|brk].
    destruct (exp_loop (rest s3) (digit_val c1)) as [[n1 e1] ov1] eqn:Hel.
    apply exp_loop_le in Hel. okk. }
  eapply chk_weaken.
  - destruct (c =? 43) eqn:H43; [|destruct (c =? 45) eqn:H45]; cbv beta iota; apply Hsg; note_moves2; advs.
  - intros [[pe [e ov]] s3] H3. cbn [fst snd] in *. note_moves2. advs.
Qed.

Lemma parse_exponent_tot E positive sig se s : rest s <> [] -> sig < two64 ->
  tot (fun p => advd 1 s (snd p)) (parse_exponent E positive sig se s).
Proof.
  intros Hne Hs. unfold parse_exponent. bw exponent_front_tot as [[pe [e ov]] s1].
  brk.
  - fin parse_exponent_overflow_tot as [f s2].
  - bw peek_or_null_tot as [c2 s2]. fin f64_from_parts_tot as [f s3].
Qed.

Lemma f64_long_from_parts_tot E positive i f e s :
  tot (fun p => advd 0 s (snd p)) (f64_long_from_parts E positive i f e s).
Proof. unfold f64_long_from_parts. brk; [exact I|okk]. Qed.

Lemma parse_long_exponent_tot E positive i f s : rest s <> [] ->
  tot (fun p => advd 1 s (snd p)) (parse_long_exponent E positive i f s).
Proof.
  intros Hne. unfold parse_long_exponent. bw exponent_front_tot as [[pe [e ov]] s1].
  brk.
  - fin parse_exponent_overflow_tot as [x s2].
  - bw peek_or_null_tot as [c2 s2]. fin f64_long_from_parts_tot as [x s3].
Qed.

Lemma parse_long_decimal_tot E positive i f0 s :
  tot (fun p => advd 0 s (snd p)) (parse_long_decimal E positive i f0 s).
Proof.
  unfold parse_long_decimal. bw peek_or_null_tot as [c s1].
  destruct (f0 ++ firstn (span_len is_digit (rest s)) (rest s)) as [|d fr].
  - bw peek_tot as [o s2]. brk; exact I.
  - brk.
    + fin parse_long_exponent_tot as [x s2].
    + fin f64_long_from_parts_tot as [x s2].
Qed.

Lemma parse_decimal_overflow_tot E positive sig e s : sig < two64 ->
  tot (fun p => advd 0 s (snd p)) (parse_decimal_overflow E positive sig e s).
Proof.
  intros Hs. unfold parse_decimal_overflow. brk.
  - fin parse_long_decimal_tot as [x s2].
  - bw skip_digits_tot as [c s1]. brk.
    + fin parse_exponent_tot as [x s2].
    + fin f64_from_parts_tot as [x s2].
Qed.

Lemma parse_decimal_tot E positive sig eb s : rest s <> [] -> sig < two64 ->
  tot (fun p => advd 1 s (snd p)) (parse_decimal E positive sig eb s).
Proof.
  intros Hne Hs. unfold parse_decimal.
  destruct (sig_loop (rest (discard s)) sig) as [[n sg] ov] eqn:Hsl.
  apply sig_loop_le in Hsl. destruct Hsl as [Hn Hsg]. specialize (Hsg Hs).
  bw peek_or_null_tot as [c s1]. brk.
  - fin parse_decimal_overflow_tot as [x s2].
  - brk.
    + bw peek_tot as [o s2]. brk; exact I.
    + brk.
      * fin parse_exponent_tot as [x s2].
      * fin f64_from_parts_tot as [x s2].
Qed.

Lemma parse_long_integer_tot E positive sig s : sig < two64 ->
  tot (fun p => advd 0 s (snd p)) (parse_long_integer E positive sig s).
Proof.
  intros Hs. unfold parse_long_integer. bw peek_or_null_tot as [c s1]. brk.
  - brk; [|brk].
    + fin parse_long_decimal_tot as [x s2].
    + fin parse_long_exponent_tot as [x s2].
    + fin f64_long_from_parts_tot as [x s2].
  - brk; [|brk].
    + fin parse_decimal_tot as [x s2].
    + fin parse_exponent_tot as [x s2].
    + fin f64_from_parts_tot as [x s2].
Qed.

Lemma parse_number_tot E positive sig s : sig < two64 ->
  tot (fun p => advd 0 s (snd p)) (parse_number E positive sig s).
Proof.
  intros Hs. unfold parse_number. bw peek_or_null_tot as [c s1]. brk; [|brk].
  - bw parse_decimal_tot as [f s2]. okk.
  - bw parse_exponent_tot as [f s2]. okk.
  - brk; [okk|]. brk; okk.
Qed.

Lemma parse_integer_tot E positive s : tot (fun p => advd 1 s (snd p)) (parse_integer E positive s).
Proof.
  unfold parse_integer. bw next_tot as [o s1]. destruct o as [c|]; [|exact I].
  brk; [|brk]; [| |exact I].
  - bw peek_or_null_tot as [c2 s2]. brk; [exact I|].
    fin parse_number_tot as [x s3].
  - destruct (sig_loop (rest s1) (digit_val c)) as [[n sg] ov] eqn:Hsl.
    apply sig_loop_le in Hsl. destruct Hsl as [Hn Hsg].
    assert (Hsg' : sg < two64) by (apply Hsg; unfold is_digit19, digit_val, two64 in *; lia).
    bw peek_or_null_tot as [c2 s2]. brk.
    + bw parse_long_integer_tot as [f s3]. okk.
    + fin parse_number_tot as [x s3].
Qed.

(* arbitrary_precision scanners *)
Lemma scan_or_eof_tot E s : tot (fun p => advd 1 s (snd p)) (scan_or_eof E s).
Proof. unfold scan_or_eof. bw next_tot as [o s1]. destruct o as [c|]; [okk|exact I]. Qed.

Lemma scan_exponent_tot E e s : rest s <> [] -> tot (fun p => advd 1 s (snd p)) (scan_exponent E e s).
Proof.
  intros Hne. unfold scan_exponent. bw peek_or_null_tot as [c s1].
  assert (Hsg : forall (sgn : bytes) s2, advd 1 s s2 ->
     tot (fun p : bytes * st => advd 1 s (snd p))
       (let* (d, s3) := scan_or_eof E s2 in
        if is_digit d then
          let n := span_len is_digit (rest s3) in
          let* (_, s4) := peek_or_null E (advance n s3) in
          Ok (e :: sgn ++ d :: firstn n (rest s3), s4)
        else error E s3 InvalidNumber)).
  { intros sgn s2 H2. bw scan_or_eof_tot as [d s3]. brk; [|brk]. cbv zeta.
    bw peek_or_null_tot as [c4 s4]. okk. }
  destruct (c =? 43) eqn:H43; [|destruct (c =? 45) eqn:H45]; cbv beta iota; apply Hsg; note_moves2; advs.
Qed.

Lemma scan_decimal_tot E s : rest s <> [] -> tot (fun p => advd 1 s (snd p)) (scan_decimal E s).
Proof.
  intros Hne. unfold scan_decimal. cbv zeta. bw peek_or_null_tot as [c s1]. brk.
  - bw peek_tot as [o s2]. brk; exact I.
  - brk; [|okk]. bw scan_exponent_tot as [ex s2]. okk.
Qed.

Lemma scan_number_tot E s : tot (fun p => advd 0 s (snd p)) (scan_number E s).
Proof.
  unfold scan_number. bw peek_or_null_tot as [c s1]. brk; [|brk].
  - fin scan_decimal_tot as [x s2].
  - fin scan_exponent_tot as [x s2].
  - okk.
Qed.

Lemma scan_integer_tot E s : tot (fun p => advd 1 s (snd p)) (scan_integer E s).
Proof.
  unfold scan_integer. bw scan_or_eof_tot as [c s1]. brk; [|brk]; [| |exact I].
  - bw peek_or_null_tot as [c2 s2]. brk; [exact I|]. bw scan_number_tot as [t s3]. okk.
  - cbv zeta. bw peek_or_null_tot as [c2 s2]. bw scan_number_tot as [t s3]. okk.
Qed.

Lemma parse_any_number_tot E positive s : tot (fun p => advd 1 s (snd p)) (parse_any_number E positive s).
Proof.
  unfold parse_any_number. brk; [|apply parse_integer_tot].
  bw scan_integer_tot as [buf s1]. repeat brk; okk.
Qed.

(* ignore_* *)
Lemma ignore_exponent_tot E s : rest s <> [] -> tot (fun s' => advd 1 s s') (ignore_exponent E s).
Proof.
  intros Hne. unfold ignore_exponent. bw peek_or_null_tot as [c s1].
  assert (Hsg : forall s2, advd 1 s s2 ->
     tot (fun s' => advd 1 s s')
       (let* (o, s3) := next E s2 in
        match o with
        | None => error E s3 EofWhileParsingValue
        | Some d => if is_digit d then let* (_, s4) := skip_digits E s3 in Ok s4 else error E s3 InvalidNumber
        end)).
  { intros s2 H2. bw next_tot as [o s3]. destruct o as [d|]; [|exact I]. brk; [|brk].
    bw skip_digits_tot as [c4 s4]. okk. }
  destruct ((c =? 43) || (c =? 45)) eqn:Hc; cbv beta iota; apply Hsg; note_moves2; advs.
Qed.

Lemma ignore_decimal_tot E s : rest s <> [] -> tot (fun s' => advd 1 s s') (ignore_decimal E s).
Proof.
  intros Hne. unfold ignore_decimal. cbv zeta. bw peek_or_null_tot as [c s1]. brk.
  - bw peek_tot as [o s2]. brk; exact I.
  - brk; [|okk]. fin ignore_exponent_tot as s2.
Qed.

Lemma ignore_integer_tot E s : tot (fun s' => advd 1 s s') (ignore_integer E s).
Proof.
  unfold ignore_integer. bw next_tot as [o s1]. destruct o as [c|]; [|exact I].
  eapply chk_bind with (P := fun p => advd 1 s (snd p) /\ (fst p <> 0 -> rest (snd p) <> [])).
  - brk; [|brk]; [| |exact I].
    + bw peek_or_null_tot as [c2 s2]. brk; [exact I|]. cbn [chk fst snd]. split; [advs|assumption].
    + eapply chk_weaken; [apply skip_digits_tot|]. intros [c2 s2] [Ha Hn]. cbn [fst snd] in *. split; [advs|assumption].
  - intros [c2 s2] [Ha Hn]. cbn [fst snd] in *. brk; [|brk].
    + fin ignore_decimal_tot as s3.
    + fin ignore_exponent_tot as s3.
    + okk.
Qed.

(* ================================================================== *)
(** * Part 5 — parse_value / parse_seq / parse_map *)
Lemma parse_value_S f E s : parse_value (S f) E s =
    let* (o, s1) := parse_whitespace E s in
    match o with
    | None => peek_error E s1 EofWhileParsingValue
    | Some b =>
      if b =? 110 then let* s2 := parse_ident E lit_ull (discard s1) in Ok (VNull, s2)
      else if b =? 116 then let* s2 := parse_ident E lit_rue (discard s1) in Ok (VBool true, s2)
      else if b =? 102 then let* s2 := parse_ident E lit_alse (discard s1) in Ok (VBool false, s2)
      else if b =? 45 then
        let* (p, s2) := parse_any_number E false (discard s1) in Ok (visit_number_cfg E p, s2)
      else if is_digit b then
        let* (p, s2) := parse_any_number E true s1 in Ok (visit_number_cfg E p, s2)
      else if b =? 34 then
        let* (str, _, s2) := parse_str E (discard s1) in Ok (VStr str, s2)
      else if b =? 91 then
        let* s2 := enter E s1 in
        let* (vs, s3) := parse_seq f E true (discard s2) in
        let* s4 := leave E s3 in
        let* s5 := end_seq E s4 in
        Ok (VArr vs, s5)
      else if b =? 123 then
        let* s2 := enter E s1 in
        let* (es, s3) := parse_map f E true (discard s2) in
        let* s4 := leave E s3 in
        let* s5 := end_map E s4 in
        Ok (VObj (map_of_entries (preserve_order (cf E)) es), s5)
      else peek_error E s1 ExpectedSomeValue
    end.
Proof. reflexivity. Qed.

Lemma parse_seq_S f E first s : parse_seq (S f) E first s =
    let* o := has_next_element E first s in
    match o with
    | None => Ok ([], s)
    | Some s1 =>
      let* (v, s2) := parse_value f E s1 in
      let* (vs, s3) := parse_seq f E false s2 in
      Ok (v :: vs, s3)
    end.
Proof. reflexivity. Qed.

Lemma parse_map_S f E first s : parse_map (S f) E first s =
    let* o := has_next_key E first s in
    match o with
    | None => Ok ([], s)
    | Some s1 =>
      let* (k, _, s2) := parse_str E (discard s1) in
      let* s3 := parse_object_colon E s2 in
      let* (v, s4) := parse_value f E s3 in
      let* (es, s5) := parse_map f E false s4 in
      Ok ((k, v) :: es, s5)
    end.
Proof. reflexivity. Qed.



Lemma dok_advd E n s s' : advd n s s' -> dok E s -> dok E s'.
Proof. intros [_ Hd] H. unfold dok in *. rewrite Hd. exact H. Qed.

Section Flags.
Variables (E : env) (af ap : bool).

Definition fuel_ok (c : nat) (fuel : nat) (s : st) : Prop := af = true \/ (2 * length (rest s) + c <= fuel)%nat.
Definition depth_ok (s : st) : Prop := ap = true \/ dok E s.

Lemma pv_main : forall fuel,
  (forall s, fuel_ok 3 fuel s -> depth_ok s -> chk af ap (fun p => advd 1 s (snd p)) (parse_value fuel E s)) /\
  (forall first s, fuel_ok 4 fuel s -> depth_ok s -> chk af ap (fun p => advd 0 s (snd p)) (parse_seq fuel E first s)) /\
  (forall first s, fuel_ok 4 fuel s -> depth_ok s -> chk af ap (fun p => advd 0 s (snd p)) (parse_map fuel E first s)).
Proof.
  induction fuel as [|f IH].
  - repeat split; intros; cbn [parse_value parse_seq parse_map chk];
      match goal with H : fuel_ok _ _ _ |- _ => destruct H as [H|H]; [exact H|lia] end.
  - destruct IH as (IHv & IHs & IHm). split; [|split].
    + (* parse_value *)
      intros s Hfu Hdo. rewrite parse_value_S.
      bw parse_whitespace_tot as [o s1]. destruct o as [b|]; [|exact I].
      brk; [bw parse_ident_tot as s2; okk|].
      brk; [bw parse_ident_tot as s2; okk|].
      brk; [bw parse_ident_tot as s2; okk|].
      brk; [bw parse_any_number_tot as [p s2]; okk|].
      brk; [bw parse_any_number_tot as [p s2]; okk|].
      brk; [bw parse_str_tot as [[str bo] s2]; okk|].
      assert (Hne1 : rest s1 <> []) by ne_solve.
      assert (Hdo1 : depth_ok s1).
      { destruct Hdo as [Hdo|Hdo]; [left; exact Hdo|right; eapply dok_advd; eauto]. }
      assert (Hlen1 : (length (rest s1) <= length (rest s))%nat).
      { match goal with H : advd _ s s1 |- _ => apply advd_len in H; lia end. }
      brk; [|brk]; [| |exact I].
      * (* array *)
        eapply chk_bind; [apply enter_chk; exact Hdo1|]. intros s2 (Ha2 & Hr2 & Hd2).
        assert (Hne2 : rest s2 <> []) by congruence.
        assert (Hm2 : advd 1 s2 (discard s2)) by (apply advd_discard; exact Hne2).
        eapply chk_bind.
        { apply IHs.
          - destruct Hfu as [Hfu|Hfu]; [left; exact Hfu|right].
            apply advd_len in Hm2. rewrite Hr2 in Hm2. lia.
          - destruct Hdo1 as [Hdo1|Hdo1]; [left; exact Hdo1|right].
            unfold dok in *. destruct Hm2 as [_ Hm2]. rewrite Hm2.
            destruct (limit_disabled (cf E)); [left; reflexivity|right; lia]. }
        intros [vs s3] H3. cbn [fst snd] in H3.
        eapply chk_bind.
        { apply leave_chk. destruct Hdo1 as [Hdo1|Hdo1]; [left; exact Hdo1|right].
          unfold dok in Hdo1. destruct H3 as [_ H3]. destruct Hm2 as [_ Hm2].
          destruct (limit_disabled (cf E)); [left; reflexivity|right]. rewrite H3, Hm2. lia. }
        intros s4 (Ha4 & Hd4).
        bw end_seq_tot as s5. cbn [chk fst snd].
        match goal with H : advd 1 s4 s5 |- _ => destruct H as [Ha5 Hd5] end.
        match goal with H : advd 0 s s1 |- _ => destruct H as [Ha1 Hd1] end.
        destruct H3 as [Ha3 Hd3]. destruct Hm2 as [Ham Hdm].
        split.
        -- eapply adv_trans; [exact Ha1|eapply adv_trans; [exact Ha2|eapply adv_trans; [exact Ham|
             eapply adv_trans; [exact Ha3|eapply adv_trans; [exact Ha4|exact Ha5|reflexivity]|reflexivity]|reflexivity]|reflexivity]|lia].
        -- destruct (limit_disabled (cf E)); lia.
      * (* object *)
        eapply chk_bind; [apply enter_chk; exact Hdo1|]. intros s2 (Ha2 & Hr2 & Hd2).
        assert (Hne2 : rest s2 <> []) by congruence.
        assert (Hm2 : advd 1 s2 (discard s2)) by (apply advd_discard; exact Hne2).
        eapply chk_bind.
        { apply IHm.
          - destruct Hfu as [Hfu|Hfu]; [left; exact Hfu|right].
            apply advd_len in Hm2. rewrite Hr2 in Hm2. lia.
          - destruct Hdo1 as [Hdo1|Hdo1]; [left; exact Hdo1|right].
            unfold dok in *. destruct Hm2 as [_ Hm2]. rewrite Hm2.
            destruct (limit_disabled (cf E)); [left; reflexivity|right; lia]. }
        intros [vs s3] H3. cbn [fst snd] in H3.
        eapply chk_bind.
        { apply leave_chk. destruct Hdo1 as [Hdo1|Hdo1]; [left; exact Hdo1|right].
          unfold dok in Hdo1. destruct H3 as [_ H3]. destruct Hm2 as [_ Hm2].
          destruct (limit_disabled (cf E)); [left; reflexivity|right]. rewrite H3, Hm2. lia. }
        intros s4 (Ha4 & Hd4).
        bw end_map_tot as s5. cbn [chk fst snd].
        match goal with H : advd 1 s4 s5 |- _ => destruct H as [Ha5 Hd5] end.
        match goal with H : advd 0 s s1 |- _ => destruct H as [Ha1 Hd1] end.
        destruct H3 as [Ha3 Hd3]. destruct Hm2 as [Ham Hdm].
        split.
        -- eapply adv_trans; [exact Ha1|eapply adv_trans; [exact Ha2|eapply adv_trans; [exact Ham|
             eapply adv_trans; [exact Ha3|eapply adv_trans; [exact Ha4|exact Ha5|reflexivity]|reflexivity]|reflexivity]|reflexivity]|lia].
        -- destruct (limit_disabled (cf E)); lia.
    + (* parse_seq *)
      intros first s Hfu Hdo. rewrite parse_seq_S.
      bw has_next_element_tot as o. destruct o as [s1|]; [|okk].
      match goal with H : hn_post _ _ _ |- _ => destruct H as [H1 Hne1] end.
      eapply chk_bind.
      { apply IHv.
        - destruct Hfu as [Hfu|Hfu]; [left; exact Hfu|right]. apply advd_len in H1. lia.
        - destruct Hdo as [Hdo|Hdo]; [left; exact Hdo|right; eapply dok_advd; eauto]. }
      intros [v s2] H2. cbn [fst snd] in H2.
      eapply chk_bind.
      { apply IHs.
        - destruct Hfu as [Hfu|Hfu]; [left; exact Hfu|right]. apply advd_len in H1. apply advd_len in H2. lia.
        - destruct Hdo as [Hdo|Hdo]; [left; exact Hdo|right]. eapply dok_advd; [exact H2|]. eapply dok_advd; eauto. }
      intros [vs s3] H3. cbn [chk fst snd] in *.
      eapply advd_trans; [exact H1|eapply advd_trans; [exact H2|exact H3|reflexivity]|lia].
    + (* parse_map *)
      intros first s Hfu Hdo. rewrite parse_map_S.
      bw has_next_key_tot as o. destruct o as [s1|]; [|okk].
      match goal with H : hn_post _ _ _ |- _ => destruct H as [H1 Hne1] end.
      bw parse_str_tot as [[k bo] s2]. bw parse_object_colon_tot as s3.
      assert (H13 : advd 2 s1 s3) by advs.
      eapply chk_bind.
      { apply IHv.
        - destruct Hfu as [Hfu|Hfu]; [left; exact Hfu|right]. apply advd_len in H1. apply advd_len in H13. lia.
        - destruct Hdo as [Hdo|Hdo]; [left; exact Hdo|right]. eapply dok_advd; [exact H13|]. eapply dok_advd; eauto. }
      intros [v s4] H4. cbn [fst snd] in H4.
      eapply chk_bind.
      { apply IHm.
        - destruct Hfu as [Hfu|Hfu]; [left; exact Hfu|right].
          apply advd_len in H1. apply advd_len in H13. apply advd_len in H4. lia.
        - destruct Hdo as [Hdo|Hdo]; [left; exact Hdo|right].
          eapply dok_advd; [exact H4|]. eapply dok_advd; [exact H13|]. eapply dok_advd; eauto. }
      intros [es s5] H5. cbn [chk fst snd] in *.
      eapply advd_trans; [exact H1|eapply advd_trans; [exact H13|eapply advd_trans; [exact H4|exact H5|reflexivity]|reflexivity]|lia].
Qed.
End Flags.

(* ---- corollaries for parse_value ---- *)
Lemma adv_firstn n s s' : adv n s s' ->
  exists k, rest s = firstn k (rest s) ++ rest s' /\ off s' = (off s + k)%nat /\ (k <= length (rest s))%nat /\ (n <= k)%nat.
Proof.
  intros (pre & Hr & Ho & Hn). exists (length pre).
  assert (Hf : firstn (length pre) (rest s) = pre).
  { rewrite Hr, firstn_app, firstn_all, Nat.sub_diag. cbn. apply app_nil_r. }
  rewrite Hf. repeat split; auto. rewrite Hr, app_length. lia.
Qed.

Lemma parse_value_ok_advd fuel E s v s' : parse_value fuel E s = Ok (v, s') -> advd 1 s s'.
Proof.
  intros H. pose proof (proj1 (pv_main E true true fuel) s (or_introl eq_refl) (or_introl eq_refl)) as Hc.
  rewrite H in Hc. exact Hc.
Qed.

Theorem parse_value_offsets_strong : forall fuel E s v s', parse_value fuel E s = Ok (v, s') ->
  exists k, rest s = firstn k (rest s) ++ rest s' /\ off s' = (off s + k)%nat /\ (1 <= k <= length (rest s))%nat.
Proof.
  intros fuel E s v s' H. apply parse_value_ok_advd in H. destruct H as [H _].
  apply adv_firstn in H. destruct H as (k & H1 & H2 & H3 & H4). exists k. repeat split; auto.
Qed.

Theorem parse_value_offsets : forall fuel E s v s', parse_value fuel E s = Ok (v, s') ->
  exists k, rest s = firstn k (rest s) ++ rest s' /\ off s' = (off s + k)%nat /\ (k <= length (rest s))%nat.
Proof.
  intros fuel E s v s' H. apply parse_value_offsets_strong in H. destruct H as (k & H1 & H2 & H3 & H4).
  exists k. repeat split; auto.
Qed.

Theorem parse_value_depth : forall fuel E s v s', parse_value fuel E s = Ok (v, s') -> depth s' = depth s.
Proof. intros fuel E s v s' H. apply parse_value_ok_advd in H. exact (proj2 H). Qed.

Theorem parse_value_fuel_strong : forall E s fuel, (value_fuel (rest s) <= fuel)%nat -> parse_value fuel E s <> OutOfFuel.
Proof.
  intros E s fuel Hf. eapply chk_no_fuel. apply (proj1 (pv_main E false true fuel) s).
  - right. unfold value_fuel in Hf. lia.
  - left; reflexivity.
Qed.

Theorem parse_value_no_panic_strong : forall fuel E s,
  (limit_disabled (cf E) = true \/ 1 <= depth s <= 255) -> parse_value fuel E s <> Panic.
Proof.
  intros fuel E s Hd. eapply chk_no_panic. apply (proj1 (pv_main E true false fuel) s).
  - left; reflexivity.
  - right. exact Hd.
Qed.

Lemma DEPTH0_val : DEPTH0 = 128.
Proof. reflexivity. Qed.

Lemma from_input_chk E bs : tot (fun _ => True) (from_input E bs).
Proof.
  unfold from_input. eapply chk_bind.
  - apply (proj1 (pv_main E false false (value_fuel bs)) (init_st bs)).
    + right. unfold value_fuel, init_st; cbn [rest]. lia.
    + right. right. unfold init_st; cbn [depth]. rewrite DEPTH0_val. lia.
  - intros [v s1] _. bw de_end_tot as s2. exact I.
Qed.

Theorem from_input_no_fuel_strong : forall E bs, from_input E bs <> OutOfFuel.
Proof. intros E bs. eapply chk_no_fuel, from_input_chk. Qed.
Theorem from_input_no_panic_strong : forall E bs, from_input E bs <> Panic.
Proof. intros E bs. eapply chk_no_panic, from_input_chk. Qed.

(* ================================================================== *)
(** * Part 6 — ignore_value *)
Definition ig_scalar (f : nat) (E : env) (stk : bytes) (r : res st) : res st :=
  let* s2 := r in
  match stk with
  | [] => Ok s2
  | frame :: stk' => ig_inner f E true frame stk' s2
  end.

Lemma ig_outer_S f E stk s : ig_outer (S f) E stk s =
    let* (o, s1) := parse_whitespace E s in
    match o with
    | None => peek_error E s1 EofWhileParsingValue
    | Some b =>
      if b =? 110 then ig_scalar f E stk (parse_ident E lit_ull (discard s1))
      else if b =? 116 then ig_scalar f E stk (parse_ident E lit_rue (discard s1))
      else if b =? 102 then ig_scalar f E stk (parse_ident E lit_alse (discard s1))
      else if b =? 45 then ig_scalar f E stk (ignore_integer E (discard s1))
      else if is_digit b then ig_scalar f E stk (ignore_integer E s1)
      else if b =? 34 then ig_scalar f E stk (ignore_str E (discard s1))
      else if (b =? 91) || (b =? 123) then ig_inner f E false b stk (discard s1)
      else peek_error E s1 ExpectedSomeValue
    end.
Proof. reflexivity. Qed.

Definition ig_continue (f : nat) (E : env) (frame : byte) (stk : bytes) (s2 : st) : res st :=
  if frame =? 123 then
    let* (o, s3) := parse_whitespace E s2 in
    match o with
    | None => peek_error E s3 EofWhileParsingObject
    | Some q =>
      if q =? 34 then
        let* s4 := ignore_str E (discard s3) in
        let* (o2, s5) := parse_whitespace E s4 in
        match o2 with
        | None => peek_error E s5 EofWhileParsingObject
        | Some c => if c =? 58 then ig_outer f E (frame :: stk) (discard s5) else peek_error E s5 ExpectedColon
        end
      else peek_error E s3 KeyMustBeAString
    end
  else ig_outer f E (frame :: stk) s2.

Lemma ig_inner_S f E accept_comma frame stk s : ig_inner (S f) E accept_comma frame stk s =
    let* (o, s1) := parse_whitespace E s in
    match o with
    | None => peek_error E s1 (if frame =? 91 then EofWhileParsingList else EofWhileParsingObject)
    | Some b =>
      if (b =? 44) && accept_comma then ig_continue f E frame stk (discard s1)
      else if ((b =? 93) && (frame =? 91)) || ((b =? 125) && (frame =? 123)) then
        match stk with
        | [] => Ok (discard s1)
        | frame' :: stk' => ig_inner f E true frame' stk' (discard s1)
        end
      else if accept_comma then
        peek_error E s1 (if frame =? 91 then ExpectedListCommaOrEnd else ExpectedObjectCommaOrEnd)
      else ig_continue f E frame stk s1
    end.
Proof. reflexivity. Qed.


Lemma ig_main E : forall fuel,
  (forall stk s, (2 * length (rest s) + 1 <= fuel)%nat -> tot (fun s' => advd 1 s s') (ig_outer fuel E stk s)) /\
  (forall ac frame stk s, (2 * length (rest s) + 2 <= fuel)%nat -> tot (fun s' => advd 0 s s') (ig_inner fuel E ac frame stk s)).
Proof.
  induction fuel as [|f IH].
  - split; intros; lia.
  - destruct IH as [IHo IHi]. split.
    + intros stk s Hfu. rewrite ig_outer_S.
      bw parse_whitespace_tot as [o s1]. destruct o as [b|]; [|exact I].
      assert (Hne1 : rest s1 <> []) by ne_solve.
      assert (Hm1 : advd 1 s1 (discard s1)) by (apply advd_discard; exact Hne1).
      assert (Hsc : forall r, tot (fun s2 => advd 1 s s2) r -> tot (fun s' => advd 1 s s') (ig_scalar f E stk r)).
      { intros r Hr. unfold ig_scalar. eapply chk_bind; [exact Hr|]. intros s2 Hx2. cbn beta in Hx2.
        destruct stk as [|frame stk']; [exact Hx2|].
        eapply chk_weaken; [apply IHi; apply advd_len in Hx2; lia|].
        intros s3 Hx3. cbn beta in Hx3. advs. }
      brk; [apply Hsc; fin parse_ident_tot as s2|].
      brk; [apply Hsc; fin parse_ident_tot as s2|].
      brk; [apply Hsc; fin parse_ident_tot as s2|].
      brk; [apply Hsc; fin ignore_integer_tot as s2|].
      brk; [apply Hsc; fin ignore_integer_tot as s2|].
      brk; [apply Hsc; fin ignore_str_tot as s2|].
      brk; [|exact I].
      eapply chk_weaken.
      * apply IHi. match goal with H : advd 0 s s1 |- _ => apply advd_len in H end. apply advd_len in Hm1. lia.
      * intros s3 Hx3. cbn beta in Hx3. advs.
    + intros ac frame stk s Hfu. rewrite ig_inner_S.
      bw parse_whitespace_tot as [o s1]. destruct o as [b|]; [|exact I].
      assert (Hne1 : rest s1 <> []) by ne_solve.
      assert (Hm1 : advd 1 s1 (discard s1)) by (apply advd_discard; exact Hne1).
      assert (Hlen1 : (length (rest s1) <= length (rest s))%nat).
      { match goal with H : advd 0 s s1 |- _ => apply advd_len in H; lia end. }
      assert (Hco : forall s2, advd 0 s s2 -> tot (fun s' => advd 0 s s') (ig_continue f E frame stk s2)).
      { intros s2 Hx2. pose proof (advd_len _ _ _ Hx2) as Hl2. unfold ig_continue. brk.
        - bw parse_whitespace_tot as [o3 s3]. destruct o3 as [q|]; [|exact I]. brk; [|exact I].
          bw ignore_str_tot as s4. bw parse_whitespace_tot as [o5 s5]. destruct o5 as [c|]; [|exact I].
          brk; [|exact I]. note_moves2.
          assert (H25 : advd 2 s2 (discard s5)) by advs.
          eapply chk_weaken; [apply IHo; apply advd_len in H25; lia|].
          intros s6 Hx6. cbn beta in Hx6. advs.
        - eapply chk_weaken; [apply IHo; lia|]. intros s6 Hx6. cbn beta in Hx6. advs. }
      brk; [apply Hco; advs|].
      brk.
      * destruct stk as [|frame' stk']; [okk|].
        eapply chk_weaken; [apply IHi; apply advd_len in Hm1; lia|].
        intros s3 Hx3. cbn beta in Hx3. advs.
      * brk; [exact I|]. apply Hco; advs.
Qed.

Lemma ignore_value_tot E s : tot (fun s' => advd 1 s s') (ignore_value E s).
Proof. unfold ignore_value, ignore_fuel. apply (proj1 (ig_main E _)). lia. Qed.

Theorem ignore_value_no_fuel_strong : forall E s, ignore_value E s <> OutOfFuel.
Proof. intros E s. eapply chk_no_fuel, ignore_value_tot. Qed.
Theorem ignore_value_no_panic_strong : forall E s, ignore_value E s <> Panic.
Proof. intros E s. eapply chk_no_panic, ignore_value_tot. Qed.

(* ================================================================== *)
(** * Part 7 — the recursion limit; streams *)
(* ---- the recursion limit ---- *)
Lemma ws_bracket E s r : rest s = 91 :: r ->
  exists s1, parse_whitespace E s = Ok (Some 91, s1) /\ rest s1 = 91 :: r /\ depth s1 = depth s.
Proof.
  intros H. unfold parse_whitespace. rewrite H.
  change (span_len is_ws (91 :: r)) with 0%nat.
  unfold peek, advance. cbn [rest skipn]. rewrite H.
  eexists. split; [reflexivity|]. cbn [rest depth]. auto.
Qed.

Lemma parse_value_bracket f E s s1 : parse_whitespace E s = Ok (Some 91, s1) ->
  parse_value (S f) E s =
    let* s2 := enter E s1 in
    let* (vs, s3) := parse_seq f E true (discard s2) in
    let* s4 := leave E s3 in
    let* s5 := end_seq E s4 in
    Ok (VArr vs, s5).
Proof. intros H. rewrite parse_value_S, H. reflexivity. Qed.

Lemma hne_bracket E s r : rest s = 91 :: r ->
  exists s1, has_next_element E true s = Ok (Some s1) /\ rest s1 = 91 :: r /\ depth s1 = depth s.
Proof.
  intros H. destruct (ws_bracket E s r H) as (s1 & Hw & Hr & Hd).
  exists s1. unfold has_next_element. rewrite Hw. split; [reflexivity|auto].
Qed.

Lemma enter_cases E s : limit_disabled (cf E) = false -> depth s <> 0 ->
  (depth s = 1 /\ exists i, enter E s = Err RecursionLimitExceeded i) \/
  (2 <= depth s /\ exists s2, enter E s = Ok s2 /\ rest s2 = rest s /\ depth s2 = depth s - 1).
Proof.
  intros Hl Hd. unfold enter. rewrite Hl. destruct (depth s =? 0) eqn:Hz; [lia|].
  cbn [depth]. destruct (depth s - 1 =? 0) eqn:Hz1.
  - left. split; [lia|]. eexists. reflexivity.
  - right. split; [lia|]. eexists. split; [reflexivity|]. cbn [rest depth]. auto.
Qed.

Lemma nest_aux E : limit_disabled (cf E) = false ->
  forall d fuel s k tail, (1 <= d)%nat -> (d <= k)%nat -> (2 * d - 1 <= fuel)%nat ->
    rest s = repeat 91 k ++ tail -> depth s = N.of_nat d ->
    exists i, parse_value fuel E s = Err RecursionLimitExceeded i.
Proof.
  intros Hl. induction d as [|d IH]; intros fuel s k tail Hd1 Hdk Hfu Hr Hdep; [lia|].
  destruct fuel as [|f]; [lia|]. destruct k as [|k]; [lia|].
  cbn [repeat app] in Hr.
  destruct (ws_bracket E s _ Hr) as (s1 & Hw & Hr1 & Hd1').
  rewrite (parse_value_bracket f E s s1 Hw).
  destruct (enter_cases E s1 Hl) as [[He1 [i He]]|[He1 (s2 & He & Hr2 & Hd2)]]; [lia| |].
  - rewrite He. exists i. reflexivity.
  - rewrite He. cbn [bind].
    destruct f as [|f]; [lia|]. rewrite parse_seq_S.
    assert (Hrd : rest (discard s2) = repeat 91 k ++ tail).
    { unfold discard; cbn [rest]. rewrite Hr2, Hr1. reflexivity. }
    destruct k as [|k]; [lia|]. cbn [repeat app] in Hrd.
    destruct (hne_bracket E (discard s2) _ Hrd) as (s3 & Hh & Hr3 & Hd3).
    rewrite Hh. cbn [bind].
    destruct (IH f s3 (S k) tail) as [i Hi]; try lia.
    + exact Hr3.
    + rewrite Hd3. unfold discard; cbn [depth]. lia.
    + rewrite Hi. exists i. reflexivity.
Qed.

Theorem nesting_limit_strong : forall E k tail, limit_disabled (cf E) = false -> (128 <= k)%nat ->
  exists i, from_input E (repeat 91 k ++ tail) = Err RecursionLimitExceeded i.
Proof.
  intros E k tail Hl Hk. unfold from_input.
  destruct (nest_aux E Hl 128 (value_fuel (repeat 91 k ++ tail)) (init_st (repeat 91 k ++ tail)) k tail) as [i Hi]; try lia.
  - unfold value_fuel. rewrite app_length, repeat_length. lia.
  - reflexivity.
  - reflexivity.
  - rewrite Hi. exists i. reflexivity.
Qed.

(* ---- streams ---- *)
Lemma peek_end_of_value_tot E s : tot (fun s' => advd 0 s s') (peek_end_of_value E s).
Proof. unfold peek_end_of_value. bw peek_tot as [o s1]. destruct o as [b|]; [brk; [okk|exact I]|okk]. Qed.


Lemma value_item_tot E s : dok E s -> tot (fun p => advd 1 s (snd p)) (value_item E s).
Proof.
  intros Hd. unfold value_item. apply (proj1 (pv_main E false false _) s).
  - right. unfold value_fuel. lia.
  - right. exact Hd.
Qed.

Lemma ignored_item_tot E s : tot (fun p => advd 1 s (snd p)) (ignored_item E s).
Proof. unfold ignored_item. bw ignore_value_tot as s1. okk. Qed.

Theorem stream_next_no_bad_strong : forall E itemp ss, (itemp = value_item \/ itemp = ignored_item) ->
  (limit_disabled (cf E) = true \/ 1 <= depth (ss_st ss) <= 255) ->
  fst (stream_next E itemp ss) <> Some IBad.
Proof.
  intros E itemp ss Hit Hd. unfold stream_next.
  destruct (is_io E && ss_failed ss); [cbn [fst]; discriminate|].
  pose proof (parse_whitespace_tot E (ss_st ss)) as Hw.
  destruct (parse_whitespace E (ss_st ss)) as [[o s1]|c i| |]; cbn [chk] in Hw; try discriminate Hw;
    [|cbn [fst res_item]; discriminate].
  destruct Hw as [Ha Hn]; cbn [fst snd] in Ha, Hn.
  destruct o as [b|]; [|cbn [fst]; discriminate].
  assert (Hit' : tot (fun p => advd 1 s1 (snd p)) (itemp E s1)).
  { destruct Hit as [-> | ->]; [apply value_item_tot; eapply dok_advd; eauto|apply ignored_item_tot]. }
  destruct (itemp E s1) as [[v s2]|c i| |]; cbn [chk] in Hit'; try discriminate Hit';
    [|cbn [fst res_item]; discriminate].
  destruct ((b =? 91) || (b =? 34) || (b =? 123)); [cbn [fst]; discriminate|].
  pose proof (peek_end_of_value_tot E s2) as Hp.
  destruct (peek_end_of_value E s2) as [s3|c i| |]; cbn [chk] in Hp; try discriminate Hp.
  - cbn [fst]; discriminate.
  - (* an error of the lookahead: an I/O error is yielded as IErr (and fuses the stream), any other code as IErr too *)
    destruct c; cbn [fst res_item]; discriminate.
Qed.


(* ================================================================== *)
(** * Part 8 — further corollaries *)

Theorem ignore_value_offsets : forall E s s', ignore_value E s = Ok s' ->
  (exists k, rest s = firstn k (rest s) ++ rest s' /\ off s' = (off s + k)%nat /\ (1 <= k <= length (rest s))%nat) /\
  depth s' = depth s.
Proof.
  intros E s s' H. pose proof (ignore_value_tot E s) as Hc. rewrite H in Hc. destruct Hc as [Ha Hd].
  split; [|exact Hd]. apply adv_firstn in Ha. destruct Ha as (k & H1 & H2 & H3 & H4). exists k. repeat split; auto.
Qed.

Lemma ignored_from_input_chk E bs : tot (fun _ => True) (ignored_from_input E bs).
Proof. unfold ignored_from_input. bw ignore_value_tot as s1. bw de_end_tot as s2. exact I. Qed.

Theorem ignored_from_input_no_fuel : forall E bs, ignored_from_input E bs <> OutOfFuel.
Proof. intros E bs. eapply chk_no_fuel, ignored_from_input_chk. Qed.
Theorem ignored_from_input_no_panic : forall E bs, ignored_from_input E bs <> Panic.
Proof. intros E bs. eapply chk_no_panic, ignored_from_input_chk. Qed.

Lemma raw_value_chk E s : tot (fun _ => True) (raw_value E s).
Proof. unfold raw_value. bw parse_whitespace_tot as [o s0]. bw ignore_value_tot as s1. exact I. Qed.

Theorem raw_value_no_fuel : forall E s, raw_value E s <> OutOfFuel.
Proof. intros E s. eapply chk_no_fuel, raw_value_chk. Qed.
Theorem raw_value_no_panic : forall E s, raw_value E s <> Panic.
Proof. intros E s. eapply chk_no_panic, raw_value_chk. Qed.

(* The limit is tight: 127 nested arrays are accepted (checked by computation for every reader kind and cfg
   with the limit enabled), and the depth hypothesis of [parse_value_no_panic_strong] cannot be dropped:
   a budget of 0 (resp. 256, not a u8) on entry makes the model Panic at `-= 1` (resp. `+= 1`). *)
Lemma nesting_127_accepted : forall r po fr ap,
  exists v, from_input (mkEnv r TEof (mkCfg po fr ap false)) (repeat 91 127 ++ repeat 93 127) = Ok v.
Proof. intros [] [] [] []; vm_compute; eexists; reflexivity. Qed.

Example depth_0_panics :
  parse_value 10 (mkEnv RSlice TEof (mkCfg false false false false)) (mkSt [91; 93] 0 false 0) = Panic.
Proof. vm_compute. reflexivity. Qed.
Example depth_256_panics :
  parse_value 10 (mkEnv RSlice TEof (mkCfg false false false false)) (mkSt [91; 93] 0 false 256) = Panic.
Proof. vm_compute. reflexivity. Qed.

(* ================================================================== *)
(** * Part 9 — the theorems exactly as requested (weaker than the _strong versions above) *)

Definition wf_in (s : st) : Prop := Forall (fun b => (b < 256)%N) (rest s).

(* parse_value_offsets and parse_value_depth are stated above in exactly the requested form. *)

Theorem parse_value_fuel : forall E s fuel, tm E = TEof -> (value_fuel (rest s) <= fuel)%nat ->
  parse_value fuel E s <> OutOfFuel.
Proof. intros E s fuel _. apply parse_value_fuel_strong. Qed.

Theorem from_input_no_fuel : forall E bs, tm E = TEof -> from_input E bs <> OutOfFuel.
Proof. intros E bs _. apply from_input_no_fuel_strong. Qed.

Theorem ignore_value_no_fuel : forall E s, tm E = TEof -> ignore_value E s <> OutOfFuel.
Proof. intros E s _. apply ignore_value_no_fuel_strong. Qed.

Theorem parse_value_no_panic : forall fuel E s, tm E = TEof -> wf_in s ->
  (limit_disabled (cf E) = true \/ (1 <= depth s <= 128)%N) -> parse_value fuel E s <> Panic.
Proof. intros fuel E s _ _ Hd. apply parse_value_no_panic_strong. destruct Hd as [Hd|Hd]; [left; exact Hd|right; lia]. Qed.

Theorem from_input_no_panic : forall E bs, tm E = TEof -> Forall (fun b => (b < 256)%N) bs -> from_input E bs <> Panic.
Proof. intros E bs _ _. apply from_input_no_panic_strong. Qed.

Theorem ignore_value_no_panic : forall E s, tm E = TEof -> wf_in s -> ignore_value E s <> Panic.
Proof. intros E s _ _. apply ignore_value_no_panic_strong. Qed.

Theorem nesting_limit : forall E k tail, tm E = TEof -> limit_disabled (cf E) = false -> (128 <= k)%nat ->
  exists i, from_input E (repeat 91%N k ++ tail) = Err RecursionLimitExceeded i.
Proof. intros E k tail _. apply nesting_limit_strong. Qed.

Theorem stream_next_no_bad : forall E itemp ss, tm E = TEof -> (itemp = value_item \/ itemp = ignored_item) ->
  wf_in (ss_st ss) -> (limit_disabled (cf E) = true \/ (1 <= depth (ss_st ss) <= 128)%N) ->
  fst (stream_next E itemp ss) <> Some IBad.
Proof.
  intros E itemp ss _ Hit _ Hd. apply stream_next_no_bad_strong; [exact Hit|].
  destruct Hd as [Hd|Hd]; [left; exact Hd|right; lia].
Qed.

Print Assumptions parse_value_offsets.
Print Assumptions parse_value_depth.
Print Assumptions parse_value_fuel.
Print Assumptions from_input_no_fuel.
Print Assumptions ignore_value_no_fuel.
Print Assumptions parse_value_no_panic.
Print Assumptions from_input_no_panic.
Print Assumptions ignore_value_no_panic.
Print Assumptions nesting_limit.
Print Assumptions stream_next_no_bad.
Print Assumptions parse_value_fuel_strong.
Print Assumptions parse_value_no_panic_strong.
Print Assumptions stream_next_no_bad_strong.
Print Assumptions ignored_from_input_no_fuel.
Print Assumptions ignored_from_input_no_panic.
