(* Proofs/LexAlgSrc2.v — part 2 of Proofs/LexAlgSrc.v: the hand model Model/Lex.v is the translated source (Gen/LexAlgTables.v) for

       rounding.rs   round_nearest  tie_even  round_nearest_tie_even  round_toward  downard  round_downward
       float.rs      ExtendedFloat::{normalize, mul, imul}

   mul: the checked u64 operations of the 32-bit-halves product never overflow (the last sum by Proofs/LexExt.ef_mul_round);
   its debug_assert (both mantissas have a bit in the upper half) is a hypothesis.
   See the header of Proofs/LexAlgSrc.v for the shape of the statements. *)
From Coq Require Import String ZArith NArith List Bool Lia ZifyBool ZifyNat ZifyN.
From SJ Require Import Base.Bytes Base.FloatB Gen.LexTables Model.Num Model.Lex Model.LexAlgAst Gen.LexAlgTables Model.LexAlgEnv.
From SJ Require Import Proofs.LexExt Proofs.LexAlgSrc.
Import ListNotations.
Local Open Scope string_scope.
Local Open Scope list_scope.
Local Open Scope Z_scope.

Ltac Zify.zify_post_hook ::= idtac.      (* Proofs/LexExt.v turns it on; the goals here have no use for it *)

Ltac fold_ef := repeat match goal with |- context [VEF (Z.of_N ?m) ?e] => change (VEF (Z.of_N m) e) with (ef_val (mkEF m e)) end.

Lemma ltb_N a b : (Z.of_N a <? Z.of_N b) = (a <? b)%N.
Proof. destruct (a <? b)%N eqn:E; lia. Qed.
Lemma leb_N a b : (Z.of_N a <=? Z.of_N b) = (a <=? b)%N.
Proof. destruct (a <=? b)%N eqn:E; lia. Qed.
Lemma eqb_N a b : (Z.of_N a =? Z.of_N b) = (a =? b)%N.
Proof. destruct (a =? b)%N eqn:E; lia. Qed.

Lemma shiftr_half m s : (m < two64N)%N -> 1 <= s -> (N.shiftr m (Z.to_N s) < 9223372036854775808)%N.
Proof.
  intros Hm Hs. replace (Z.to_N s) with (1 + (Z.to_N s - 1))%N by lia.
  rewrite <- N.shiftr_shiftr. eapply N.le_lt_trans; [apply shiftr_le|].
  rewrite N.shiftr_div_pow2. change (2 ^ 1)%N with 2%N. unfold two64N in Hm. 
  apply N.div_lt_upper_bound; lia.
Qed.

Lemma ef_ok_overflowing_shr fp s : ef_ok fp -> 0 <= s <= 64 -> i32_ok (exp fp + s) -> ef_ok (overflowing_shr fp s).
Proof.
  intros [Hm He] Hs Hx. unfold ef_ok, overflowing_shr. cbn [mant exp]. split; [|exact Hx].
  destruct (s =? 64); [reflexivity|]. eapply N.le_lt_trans; [apply shiftr_le|exact Hm].
Qed.

Section Rounding.
Variable G : genv.

Theorem round_nearest_src : forall fp shift f, ef_ok fp -> 0 <= shift <= 64 -> i32_ok (exp fp + shift) -> (7 <= f)%nat ->
  call f G "round_nearest" [ef_val fp; VInt I32 shift] =
  Ok (let '(fp1, is_above, is_halfway) := round_nearest fp shift in (VTup (VB is_above) (VB is_halfway), [ef_val fp1])).
Proof.
  intros [m e] shift f Hok Hs Hx Hf. pose proof Hok as [Hm He]. cbn [mant exp] in *. do 2 fuel1. enter LA_round_nearest. unfold ef_val. cbn [mant exp].
  step. rewrite wrap_id by inr. pcall LA_lower_n_mask. rewrite lower_n_mask_src by lia. cbn.
  step. rewrite wrap_id by inr. pcall LA_lower_n_halfway. rewrite lower_n_halfway_src by lia. cbn.
  step. unfold nbits. rewrite !N2Z.id. step. step. step.
  fold_ef. rewrite overflowing_shr_src by (try assumption; lia). cbn. step.
  rewrite ltb_N, eqb_N. reflexivity.
Qed.

Theorem tie_even_src : forall fp is_above is_halfway f, ef_ok fp -> (mant fp + 1 < two64N)%N -> (3 <= f)%nat ->
  call f G "tie_even" [ef_val fp; VB is_above; VB is_halfway] = Ok (VUnit, [ef_val (tie_even fp is_above is_halfway)]).
Proof.
  intros [m e] ab hw f [Hm He] Hm1 Hf. cbn [mant exp] in *. unfold two64N in *. do 3 fuel1. enter LA_tie_even. unfold ef_val, tie_even. cbn [mant exp].
  step. unfold nbits. rewrite N2Z.id. change (Z.to_N 1) with 1%N. change 1 with (Z.of_N 1) at 2. rewrite eqb_N. step.
  destruct ab, hw, (N.land m 1 =? 1)%N; cbn; step; try reflexivity.
  all: rewrite checked_ok by (apply in_range_u64; lia); cbn; step; replace (Z.of_N m + 1) with (Z.of_N (m + 1)) by lia; reflexivity.
Qed.

Example tie_even_needs_room : run 10 G P "tie_even" [VEF 18446744073709551615 0; VB true; VB false] = Panic
                              /\ tie_even (mkEF 18446744073709551615 0) true false = mkEF 18446744073709551616 0.
Proof. split; reflexivity. Qed.

Theorem round_nearest_tie_even_src : forall fp shift f, ef_ok fp -> 1 <= shift <= 64 -> i32_ok (exp fp + shift) -> (9 <= f)%nat ->
  call f G "round_nearest_tie_even" [ef_val fp; VInt I32 shift] = Ok (VUnit, [ef_val (round_nearest_tie_even fp shift)]).
Proof.
  intros fp shift f Hok Hs Hx Hf. do 2 fuel1. enter LA_round_nearest_tie_even.
  step. rewrite round_nearest_src by (try assumption; lia).
  unfold round_nearest_tie_even, round_nearest. cbn. step.
  rewrite tie_even_src; [reflexivity| apply ef_ok_overflowing_shr; (assumption || lia) | | lia].
  destruct Hok as [Hm He]. unfold overflowing_shr. cbn [mant]. destruct (shift =? 64); [reflexivity|].
  pose proof (shiftr_half (mant fp) shift Hm). unfold two64N. lia.
Qed.

Theorem round_toward_src : forall fp shift f, ef_ok fp -> 0 <= shift <= 64 -> i32_ok (exp fp + shift) -> (5 <= f)%nat ->
  call f G "round_toward" [ef_val fp; VInt I32 shift] =
  Ok (VB (negb (N.land (mant fp) (lower_n_mask shift) =? 0)%N), [ef_val (overflowing_shr fp shift)]).
Proof.
  intros [m e] shift f Hok Hs Hx Hf. pose proof Hok as [Hm He]. cbn [mant exp] in *. do 2 fuel1. enter LA_round_toward. unfold ef_val. cbn [mant exp].
  step. rewrite wrap_id by inr. pcall LA_lower_n_mask. rewrite lower_n_mask_src by lia. cbn.
  step. unfold nbits. rewrite !N2Z.id. step.
  fold_ef. rewrite overflowing_shr_src by (try assumption; lia). cbn. step.
  change 0 with (Z.of_N 0). rewrite eqb_N. reflexivity.
Qed.

Theorem downard_src : forall v b f, (1 <= f)%nat -> call f G "downard" [v; VB b] = Ok (VUnit, [v]).
Proof. intros v b f Hf. do 1 fuel1. enter LA_downard. step. reflexivity. Qed.

Theorem round_downward_src : forall fp shift f, ef_ok fp -> 0 <= shift <= 64 -> i32_ok (exp fp + shift) -> (7 <= f)%nat ->
  call f G "round_downward" [ef_val fp; VInt I32 shift] = Ok (VUnit, [ef_val (round_downward fp shift)]).
Proof.
  intros fp shift f Hok Hs Hx Hf. do 2 fuel1. enter LA_round_downward.
  step. rewrite round_toward_src by (try assumption; lia). cbn. step.
  rewrite downard_src by lia. cbn. step. reflexivity.
Qed.
End Rounding.

(* ================================================================================================ *)
(** * float.rs: normalize, mul, imul *)
Lemma clz_range m : (0 < m)%N -> (m < two64N)%N -> 0 <= Lex.clz64 m <= 63.
Proof.
  intros H0 H1. unfold Lex.clz64. assert (N.log2 m < 64)%N by (apply N.log2_lt_pow2; [exact H0|exact H1]). lia.
Qed.
Lemma clz_agree m : (0 < m)%N -> LexAlgAst.clz64 (Z.of_N m) = Lex.clz64 m.
Proof. intros H. unfold LexAlgAst.clz64, Lex.clz64. replace (Z.of_N m =? 0) with false by lia. rewrite N2Z.id. reflexivity. Qed.

Lemma himask_nonzero m : (two32N <= m)%N -> (m < two64N)%N -> N.land m 18446744069414584320 <> 0%N.
Proof.
  intros Hlo Hhi Hz.
  assert (Hm : m = N.land m (N.ones 64)) by (rewrite N.land_ones; symmetry; apply N.mod_small; exact Hhi).
  change (N.ones 64) with (N.lor 18446744069414584320 (N.ones 32)) in Hm.
  rewrite N.land_lor_distr_r, Hz, N.lor_0_l, N.land_ones in Hm.
  assert (m mod 2 ^ 32 < 2 ^ 32)%N by (apply N.mod_lt; discriminate).
  change (2 ^ 32)%N with two32N in *. lia.
Qed.

Section Float1.
Variable G : genv.

Theorem normalize_src : forall fp f, ef_ok fp -> -2147483648 + 63 <= exp fp -> (4 <= f)%nat ->
  call f G "ExtendedFloat::normalize" [ef_val fp] =
  Ok (VInt U32 (snd (ef_normalize fp)), [ef_val (fst (ef_normalize fp))]).
Proof.
  intros [m e] f Hok Hx Hf. pose proof Hok as [Hm He]. cbn [mant exp] in *. do 2 fuel1. enter LA_ExtendedFloat_normalize.
  unfold ef_val, ef_normalize. cbn [mant exp fst snd]. step.
  change 0 with (Z.of_N 0) at 1. rewrite eqb_N. destruct (m =? 0)%N eqn:E; cbn.
  - step. rewrite (wrap_id I32 0) by reflexivity. fold_ef. rewrite shl_src by (try assumption; unfold i32_ok in *; cbn [exp]; lia).
    cbn. step. reflexivity.
  - assert (H0 : (0 < m)%N) by lia. pose proof (clz_range m H0 Hm) as Hc. rewrite clz_agree by exact H0.
    step. rewrite wrap_id by inr. fold_ef. rewrite shl_src by (try assumption; unfold i32_ok in *; cbn [exp]; lia).
    cbn. step. reflexivity.
Qed.

Example normalize_needs_exp_room : run 10 G P "ExtendedFloat::normalize" [VEF 1 (-2147483648)] = Panic
                                   /\ fst (ef_normalize (mkEF 1 (-2147483648))) = mkEF 9223372036854775808 (-2147483711).
Proof. split; reflexivity. Qed.

Lemma div32_lt m : (m < two64N)%N -> (m / two32N < two32N)%N.
Proof. intros H. apply N.div_lt_upper_bound; [discriminate|exact H]. Qed.
Lemma mod32_lt m : (m mod two32N < two32N)%N.
Proof. apply N.mod_lt. discriminate. Qed.
Lemma shr32 m : N.shiftr m (Z.to_N 32) = (m / two32N)%N.
Proof. change (Z.to_N 32) with 32%N. rewrite N.shiftr_div_pow2. reflexivity. Qed.
Lemma lomask m : N.land m (Z.to_N 4294967295) = (m mod two32N)%N.
Proof. change (Z.to_N 4294967295) with (N.ones 32). rewrite N.land_ones. reflexivity. Qed.

Lemma mul32 a b : (a < 4294967296)%N -> (b < 4294967296)%N -> 0 <= Z.of_N a * Z.of_N b <= 18446744073709551615.
Proof. intros Ha Hb. nia. Qed.
Lemma mul32N a b : (a < 4294967296)%N -> (b < 4294967296)%N -> (a * b < two64N)%N.
Proof. intros Ha Hb. unfold two64N. nia. Qed.
Lemma mul32N' a b : (a < 4294967296)%N -> (b < 4294967296)%N -> (a * b <= 18446744065119617025)%N.
Proof. intros Ha Hb. nia. Qed.

Lemma ef_mul_fits a b : (mant a < two64N)%N -> (mant b < two64N)%N -> (mant (ef_mul a b) < two64N)%N.
Proof.
  intros Ha Hb. pose proof (ef_mul_round a b Ha Hb) as H. cbv zeta in H. destruct H as [_ [_ H]].
  generalize dependent (mant (ef_mul a b)). intros M H. unfold two64N in *.
  change (2 ^ 64) with 18446744073709551616 in H. change (2 ^ 63) with 9223372036854775808 in H.
  assert (Hab : Z.of_N (mant a) * Z.of_N (mant b) <= 18446744073709551615 * 18446744073709551615) by nia.
  lia.
Qed.

Theorem mul_src : forall a b f, ef_ok a -> ef_ok b -> (two32N <= mant a)%N -> (two32N <= mant b)%N ->
  i32_ok (exp a + exp b) -> i32_ok (exp a + exp b + 64) -> (2 <= f)%nat ->
  call f G "ExtendedFloat::mul" [ef_val a; ef_val b] = Ok (ef_val (ef_mul a b), []).
Proof.
  intros [ma ea] [mb eb] f [Hma Hea] [Hmb Heb] Ha32 Hb32 Hx1 Hx2 Hf. cbn [mant exp] in *.
  do 2 fuel1. enter LA_ExtendedFloat_mul. unfold ef_val, ef_mul in *. cbn [mant exp] in *.
  step. unfold nbits. rewrite !N2Z.id. change (Z.to_N 18446744069414584320) with 18446744069414584320%N.
  change 0 with (Z.of_N 0). rewrite !eqb_N.
  pose proof (himask_nonzero ma Ha32 Hma) as Ha0. pose proof (himask_nonzero mb Hb32 Hmb) as Hb0.
  replace (N.land ma 18446744069414584320 =? 0)%N with false by lia.
  replace (N.land mb 18446744069414584320 =? 0)%N with false by lia. cbn.
  step. rewrite int_shr_ok by lia. rewrite shr32. cbn.
  step. unfold nbits. rewrite N2Z.id, lomask.
  step. rewrite int_shr_ok by lia. rewrite shr32. cbn.
  step. unfold nbits. rewrite N2Z.id, lomask.
  pose proof (div32_lt ma Hma) as Hah. pose proof (mod32_lt ma) as Hal.
  pose proof (div32_lt mb Hmb) as Hbh. pose proof (mod32_lt mb) as Hbl.
  remember (ma / two32N)%N as ah eqn:Eah. remember (ma mod two32N)%N as al eqn:Eal.
  remember (mb / two32N)%N as bh eqn:Ebh. remember (mb mod two32N)%N as bl eqn:Ebl.
  unfold two32N in Hah, Hal, Hbh, Hbl.
  step. rewrite checked_ok by (apply in_range_u64, mul32; assumption). rewrite <- N2Z.inj_mul. cbn.
  step. rewrite checked_ok by (apply in_range_u64, mul32; assumption). rewrite <- N2Z.inj_mul. cbn.
  step. rewrite checked_ok by (apply in_range_u64, mul32; assumption). rewrite <- N2Z.inj_mul. cbn.
  step. rewrite checked_ok by (apply in_range_u64, mul32; assumption). rewrite <- N2Z.inj_mul. cbn.
  assert (Hp1 : (ah * bl < two64N)%N) by (apply mul32N; assumption).
  assert (Hp2 : (al * bh < two64N)%N) by (apply mul32N; assumption).
  assert (Hp3 : (al * bl < two64N)%N) by (apply mul32N; assumption).
  assert (Hah_bh : (ah * bh <= 18446744065119617025)%N) by (apply mul32N'; assumption).
  remember (ah * bl)%N as ah_bl eqn:E1. remember (al * bh)%N as al_bh eqn:E2.
  remember (al * bl)%N as al_bl eqn:E3. remember (ah * bh)%N as ah_bh eqn:E4.
  step. unfold nbits. rewrite !N2Z.id, !lomask. rewrite int_shr_ok by lia. rewrite shr32. cbn.
  pose proof (mod32_lt ah_bl) as Hl1. pose proof (mod32_lt al_bh) as Hl2. pose proof (div32_lt al_bl Hp3) as Hl3.
  unfold two32N in *.
  rewrite checked_ok by (apply in_range_u64; lia). cbn. rewrite <- N2Z.inj_add.
  rewrite checked_ok by (apply in_range_u64; lia). cbn. rewrite <- N2Z.inj_add.
  step. change (int_shift OShl U64 1 31) with (Ok (VInt U64 (Z.of_N 2147483648))). cbn.
  rewrite checked_ok by (apply in_range_u64; lia). cbn. change 2147483648 with (Z.of_N 2147483648). rewrite <- N2Z.inj_add.
  step. rewrite !int_shr_ok by lia. rewrite !shr32. cbn.
  pose proof (div32_lt ah_bl Hp1) as Hd1. pose proof (div32_lt al_bh Hp2) as Hd2. unfold two32N in Hd1, Hd2 |- *.
  rewrite checked_ok by (apply in_range_u64; unfold two64N in *; lia). cbn. rewrite <- N2Z.inj_add.
  rewrite checked_ok by (apply in_range_u64; unfold two64N in *; lia). cbn. rewrite <- N2Z.inj_add.
  rewrite <- N2Z.inj_add.
  pose proof (ef_mul_fits (mkEF ma ea) (mkEF mb eb) Hma Hmb) as Hfit. unfold ef_mul in Hfit. cbn [mant exp] in Hfit.
  unfold two32N in Hfit. rewrite <- Eah, <- Eal, <- Ebh, <- Ebl, <- E1, <- E2, <- E3, <- E4 in Hfit.
  rewrite checked_ok by (apply in_range_N; exact Hfit).
  cbn. rewrite checked_ok by inr. cbn. rewrite checked_ok by inr. cbn. reflexivity.
Qed.
End Float1.

Section Float2.
Variable G : genv.

Theorem imul_src : forall a b f, ef_ok a -> ef_ok b -> (two32N <= mant a)%N -> (two32N <= mant b)%N ->
  i32_ok (exp a + exp b) -> i32_ok (exp a + exp b + 64) -> (4 <= f)%nat ->
  call f G "ExtendedFloat::imul" [ef_val a; ef_val b] = Ok (VUnit, [ef_val (ef_mul a b)]).
Proof.
  intros a b f Ha Hb Ha32 Hb32 Hx1 Hx2 Hf. do 2 fuel1. enter LA_ExtendedFloat_imul. step.
  pcall LA_ExtendedFloat_mul. rewrite mul_src by (assumption || lia). cbn. step. reflexivity.
Qed.

(* the debug_assert of mul: both mantissas must have a bit in the upper half *)
Example mul_needs_high_bits : run 10 G P "ExtendedFloat::mul" [VEF 1 0; VEF 9223372036854775808 0] = Panic
                              /\ ef_mul (mkEF 1 0) (mkEF 9223372036854775808 0) = mkEF 1 64.
Proof. split; reflexivity. Qed.
End Float2.


Print Assumptions round_nearest_src.
Print Assumptions tie_even_src.
Print Assumptions round_nearest_tie_even_src.
Print Assumptions round_toward_src.
Print Assumptions downard_src.
Print Assumptions round_downward_src.
Print Assumptions normalize_src.
Print Assumptions mul_src.
Print Assumptions imul_src.
