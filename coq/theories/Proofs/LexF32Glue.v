(* Proofs/LexF32Glue.v — float_roundtrip build, f32 targets (`single_precision = true`): the de.rs GLUE around lexical,
   with the lexical ALGORITHM of Model/Lex.v in it, against the SPECIFICATION Model/NumF32.v uses (rne_decimal32: the
   literal's exact value rounded once to binary32).

   Part 1 (this file): function level.
     f32_of_bits_bits            f32::from_bits (ValueSer.f32_of_bits) inverts bits_of_b32 on every non-NaN float
     C07_f32_fr_spec             Lex.f32_fr sig e = option_map bits_of_b32 (f32_fr_spec sig e)         (the twin of C07_alg_spec)
     lex_truncated_ext32         parse_truncated_float F32 = the oracle's bits for every exponent an i32 can hold
                                 (LexFull32.lex_truncated_correct32 stops at |exponent| <= 10^9; beyond that both sides saturate)
     C07_f32_long_spec           the same as an option (None = NumberOutOfRange)
     C07_f32_negint_spec         Lex.negated_u64_as_float_bits F32 sig = bits of -(sig rounded once to binary32)
     b64_of_b32_opp, b32_of_b64_of_b32   widening f32 -> f64 commutes with negation and is undone by narrowing
     short_agree / long_agree / negint_agree   the three back ends of the glue against those of Model/NumF32.v
   and the definitions of the glue with the algorithm in it (section 4: finish_a .. parse_integer_a, deserialize_f32_a):
   Model/NumF32.v function for function, with every `rne_decimal32 ..` replaced by what the code runs
   (Lex.f32_fr / Lex.parse_truncated_float F32 / Lex.negated_u64_as_float_bits F32, decoded by f32::from_bits).

   Part 2 (LexF32Glue2.v): parse_integer_a = NumF32.parse_integer_s on every input, C07_f32_glue_spec (literal level),
   and the corollary for Model/DeTyped.v. *)
From Coq Require Import ZArith NArith Reals Lia Lra List Bool.
From Flocq Require Import Core BinarySingleNaN.
From SJ Require Import Base.Bytes Base.FloatB Gen.Tables Gen.LexTables Model.Read Model.Num Model.Lex Model.NumF32 Model.ValueSer.
From SJ Require Import Proofs.GrammarNum Proofs.LexGlue Proofs.FloatDefault Proofs.LexOracle32 Proofs.LexFull32.
Import ListNotations.
Open Scope Z_scope.
Set Warnings "-abstract-large-number".

(* ================================================================================================ *)
(** * 1. bit patterns of binary32 values *)

(* the two copies of the oracle (Model/Lex.v, Model/NumF32.v) are the same function *)
Lemma rne_decimal32_same : forall m e, NumF32.rne_decimal32 m e = Lex.rne_decimal32 m e.
Proof. reflexivity. Qed.

(* the shape of a finite binary32 *)
Lemma b32_bounded_inv (m : positive) (e : Z) : SpecFloat.bounded 24 128 m e = true ->
  Zpos m < 16777216 /\ -149 <= e <= 104 /\ (Zpos m < 8388608 -> e = -149).
Proof.
  intros Hb. unfold SpecFloat.bounded, SpecFloat.canonical_mantissa in Hb.
  apply andb_true_iff in Hb as [Hc He]. apply Zle_bool_imp_le in He. apply Zeq_bool_eq in Hc.
  unfold SpecFloat.fexp, SpecFloat.emin in Hc. rewrite Digits.Zpos_digits2_pos in Hc.
  pose proof (Digits.Zdigits_correct radix2 (Zpos m)) as [Hlo Hhi]. rewrite Z.abs_eq in Hlo, Hhi by lia.
  set (dg := Digits.Zdigits radix2 (Zpos m)) in *.
  change (Z.pow radix2 dg) with (2 ^ dg) in Hhi. change (Z.pow radix2 (dg - 1)) with (2 ^ (dg - 1)) in Hlo.
  assert (Hdg : dg <= 24) by lia.
  split; [|split].
  - apply Z.lt_le_trans with (1 := Hhi). change 16777216 with (2 ^ 24). apply Z.pow_le_mono_r; lia.
  - lia.
  - intros Hsub. destruct (Z_lt_le_dec dg 24) as [Hlt|Hge]; [lia|].
    assert (dg = 24) by lia. exfalso.
    assert (2 ^ 23 <= 2 ^ (dg - 1)) by (apply Z.pow_le_mono_r; lia). change (2 ^ 23) with 8388608 in *. lia.
Qed.

(* a float is rebuilt from (finite, sign, value) *)
Lemma bn32_rebuild (s : bool) (m : positive) (e : Z) (Hb : SpecFloat.bounded 24 128 m e = true) :
  binary_normalize 24 128 prec24_gt_0 prec24_lt_emax mode_NE (if s then Zneg m else Zpos m) e s = B754_finite s m e Hb.
Proof.
  set (f := B754_finite s m e Hb).
  assert (HF : F2R (Float radix2 (if s then Zneg m else Zpos m) e) = B2R f).
  { unfold f. cbn [B2R]. destruct s; reflexivity. }
  assert (Hfmt : generic_format radix2 fexp32 (B2R f)).
  { exact (generic_format_B2R 24 128 f). }
  assert (Hrnd : RNE32 (B2R f) = B2R f) by (apply RNE32_generic; exact Hfmt).
  destruct (bn32_correct (if s then Zneg m else Zpos m) e s) as (H1 & H2 & H3).
  { rewrite HF, Hrnd. exact (abs_B2R_lt_emax 24 128 f). }
  cbv zeta in H1, H2, H3. rewrite HF, Hrnd in H1. rewrite HF in H3.
  apply B2R_Bsign_inj; [exact H2|reflexivity|exact H1|].
  rewrite H3. unfold f. cbn [B2R Bsign].
  destruct s.
  - rewrite Rcompare_Lt; [reflexivity|]. apply F2R_lt_0. reflexivity.
  - rewrite Rcompare_Gt; [reflexivity|]. apply F2R_gt_0. reflexivity.
Qed.

Open Scope N_scope.

(* f32::from_bits . f32::to_bits = id (NaN payloads are not modelled) *)
Theorem f32_of_bits_bits : forall f : b32, f <> B754_nan -> f32_of_bits (bits_of_b32 f) = f.
Proof.
  intros f Hn. destruct f as [s|s| |s m e Hb].
  - destruct s; reflexivity.
  - destruct s; reflexivity.
  - exfalso. apply Hn. reflexivity.
  - destruct (b32_bounded_inv m e Hb) as (Hm & He & Hsub).
    unfold bits_of_b32. set (sb := if s then 2147483648 else 0).
    destruct (Z.ltb_spec (Zpos m) 8388608) as [Hlt|Hge].
    + (* subnormal *)
      specialize (Hsub Hlt). subst e.
      assert (Hm2 : N.pos m < 8388608) by lia.
      unfold f32_of_bits. cbv zeta.
      assert (Hs : (2147483648 <=? sb + N.pos m) = s).
      { unfold sb. destruct s; [apply N.leb_le; lia|apply N.leb_gt; lia]. }
      assert (Hr : (sb + N.pos m) mod 2147483648 = N.pos m).
      { unfold sb. destruct s.
        - symmetry. apply (N.mod_unique _ _ 1); lia.
        - apply N.mod_small. lia. }
      rewrite Hs, Hr. rewrite N.div_small by exact Hm2. rewrite N.mod_small by exact Hm2.
      change (0 =? 0) with true. cbv iota.
      replace (N.pos m =? 0) with false by (symmetry; apply N.eqb_neq; lia).
      change (Z.of_N (N.pos m)) with (Zpos m). change (- Zpos m)%Z with (Zneg m).
      apply bn32_rebuild.
    + (* normal *)
      assert (Hm2 : 8388608 <= N.pos m < 16777216) by lia.
      set (E := Z.to_N (e + 150)). assert (HE : 1 <= E <= 254) by (unfold E; lia).
      set (r := N.pos m - 8388608). assert (Hr : r < 8388608) by (unfold r; lia).
      unfold f32_of_bits. cbv zeta.
      assert (Hs : (2147483648 <=? sb + E * 8388608 + r) = s).
      { unfold sb. destruct s; [apply N.leb_le; lia|apply N.leb_gt; lia]. }
      assert (Hmod : (sb + E * 8388608 + r) mod 2147483648 = E * 8388608 + r).
      { unfold sb. destruct s.
        - symmetry. apply (N.mod_unique _ _ 1); lia.
        - apply N.mod_small. lia. }
      rewrite Hs, Hmod.
      replace ((E * 8388608 + r) / 8388608) with E by (apply (N.div_unique _ _ _ r); lia).
      replace ((E * 8388608 + r) mod 8388608) with r by (apply (N.mod_unique _ _ E); lia).
      replace (E =? 0) with false by (symmetry; apply N.eqb_neq; lia).
      replace (E =? 255) with false by (symmetry; apply N.eqb_neq; lia).
      replace (8388608 + r) with (N.pos m) by (unfold r; lia).
      replace (Z.of_N E - 150)%Z with e by (unfold E; lia).
      change (Z.of_N (N.pos m)) with (Zpos m). change (- Zpos m)%Z with (Zneg m).
      apply bn32_rebuild.
Qed.

(* hence bits_of_b32 is injective away from NaN *)
Lemma bits_of_b32_inj : forall f g : b32, f <> B754_nan -> g <> B754_nan -> bits_of_b32 f = bits_of_b32 g -> f = g.
Proof. intros f g Hf Hg H. rewrite <- (f32_of_bits_bits f Hf), <- (f32_of_bits_bits g Hg), H. reflexivity. Qed.

(* `is_infinite` on the bit pattern of a value that is not negative: the test of Lex.f32_is_inf_bits *)
Lemma f32_inf_bits_iff : forall f : b32, f <> B754_nan ->
  f32_is_inf_bits (bits_of_b32 f) = match f with B754_infinity false => true | _ => false end.
Proof.
  intros f Hn. unfold f32_is_inf_bits.
  destruct (N.eqb_spec (bits_of_b32 f) F32_INFINITY_BITS) as [Heq|Hne].
  - change F32_INFINITY_BITS with (bits_of_b32 (B754_infinity false)) in Heq.
    apply bits_of_b32_inj in Heq; [subst f; reflexivity|exact Hn|discriminate].
  - destruct f as [s|[|]| |s m e Hb]; try reflexivity. exfalso. apply Hne. reflexivity.
Qed.

(* `-x` on bit patterns *)
Lemma bits_of_b32_opp : forall f : b32, f <> B754_nan -> Bsign f = false ->
  bits_of_b32 (Bopp f) = bits_of_b32 f + 2147483648.
Proof.
  intros f Hn Hs. destruct f as [s|s| |s m e Hb]; cbn [Bsign] in Hs; try subst s.
  - reflexivity.
  - reflexivity.
  - exfalso. apply Hn. reflexivity.
  - cbn [Bopp negb bits_of_b32]. destruct (Zpos m <? 8388608)%Z; lia.
Qed.
Close Scope N_scope.

(* the oracle never returns NaN, and nothing negative *)
Lemma rne_decimal32_shape : forall m e,
  Lex.rne_decimal32 m e <> B754_nan /\
  (NumF32.b32_is_inf (Lex.rne_decimal32 m e) = match Lex.rne_decimal32 m e with B754_infinity false => true | _ => false end).
Proof.
  intros m e. destruct (Z_lt_le_dec 0 m) as [Hpos|Hle].
  - destruct (rne_decimal32_cases m e Hpos) as [(Hfin & _)|(Hinf & _)].
    + destruct (Lex.rne_decimal32 m e); try discriminate Hfin; split; try discriminate; reflexivity.
    + rewrite Hinf. split; [discriminate|reflexivity].
  - unfold Lex.rne_decimal32. replace (m <=? 0) with true by (symmetry; apply Z.leb_le; exact Hle).
    split; [discriminate|reflexivity].
Qed.

(* ================================================================================================ *)
(** * 2. f64_from_parts with single_precision: Lex.f32_fr against the specification *)

(* what Model/NumF32.v's f64_from_parts_s asks of lexical, as an option (None = NumberOutOfRange) *)
Definition f32_fr_spec (sig : N) (e : Z) : option b32 :=
  let f := NumF32.rne_decimal32 (Z.of_N sig) e in if NumF32.b32_is_inf f then None else Some f.

(* the twin of C07_alg_spec (LexFull.f64_fr_alg_spec) *)
Theorem C07_f32_fr_spec : forall (sig : N) (e : Z), (sig < two64N)%N ->
  f32_fr sig e = option_map bits_of_b32 (f32_fr_spec sig e).
Proof.
  intros sig e Hsig. unfold f32_fr, f32_fr_spec. cbv zeta.
  rewrite (lex_concise_correct32 sig e Hsig). change NumF32.rne_decimal32 with Lex.rne_decimal32.
  destruct (rne_decimal32_shape (Z.of_N sig) e) as (Hn & Hi).
  rewrite (f32_inf_bits_iff _ Hn), Hi.
  destruct (Lex.rne_decimal32 (Z.of_N sig) e) as [s|[|]| |s m ex Hb]; reflexivity.
Qed.

(* ================================================================================================ *)
(** * 3. f64_long_from_parts with single_precision: every exponent an i32 can hold *)
From SJ Require Import Proofs.LexBh Proofs.LexFull.

(* far outside the table of cached powers the moderate path answers at once *)
Lemma mee_big (k : fkind) (fp : efloat) (e : Z) (tr : bool) : 310 <= e ->
  multiply_exponent_extended k fp e tr = (mkEF 9223372036854775808%N 2047, true).
Proof.
  intros He. unfold multiply_exponent_extended. cbv zeta.
  change BASE10_BIAS with 350. change BASE10_STEP with 10. change (Z.of_nat (length BASE10_LARGE_MANTISSA)) with 66.
  assert (Hs : 660 <= i32_sat (e + 350)) by (unfold i32_sat; lia).
  set (x := i32_sat (e + 350)) in *.
  destruct (Z.ltb_spec x 0) as [Hneg|_]; [lia|].
  destruct (Z.leb_spec 66 (Z.quot x 10)) as [_|Hlt]; [reflexivity|].
  exfalso. assert (66 <= Z.quot x 10) by (apply Z.quot_le_lower_bound; lia). lia.
Qed.

Lemma mee_tiny (k : fkind) (fp : efloat) (e : Z) (tr : bool) : e < -350 ->
  multiply_exponent_extended k fp e tr = (mkEF 0%N (exp fp), true).
Proof.
  intros He. unfold multiply_exponent_extended. cbv zeta.
  change BASE10_BIAS with 350.
  assert (Hs : i32_sat (e + 350) < 0) by (unfold i32_sat; lia).
  destruct (Z.ltb_spec (i32_sat (e + 350)) 0) as [_|Hge]; [reflexivity|lia].
Qed.

Lemma fallback_big32 (i f : bytes) (w : N) (x mexp : Z) (tr : bool) : 310 <= mexp ->
  fallback_path F32 i f w x mexp tr = F32_INFINITY_BITS.
Proof.
  intros H. unfold fallback_path, fallback_trace, moderate_path. rewrite (mee_big F32 _ mexp tr H).
  vm_compute. reflexivity.
Qed.

Lemma fallback_tiny32 (i f : bytes) (w : N) (x mexp : Z) (tr : bool) : mexp < -350 ->
  fallback_path F32 i f w x mexp tr = 0%N.
Proof.
  intros H. unfold fallback_path, fallback_trace, moderate_path. rewrite (mee_tiny F32 _ mexp tr H).
  vm_compute. reflexivity.
Qed.

(* the two guards of the oracle *)
Lemma rne32_huge (m e : Z) : 0 < m -> 400 < e -> Lex.rne_decimal32 m e = B754_infinity false.
Proof.
  intros Hm He. unfold Lex.rne_decimal32. destruct (Z.leb_spec m 0); [lia|].
  destruct (Z.ltb_spec 400 e); [reflexivity|lia].
Qed.
Lemma rne32_tiny (m e : Z) : 0 < m -> e < - (400 + Z.log2 m) -> Lex.rne_decimal32 m e = B754_zero false.
Proof.
  intros Hm He. pose proof (Z.log2_nonneg m). unfold Lex.rne_decimal32. destruct (Z.leb_spec m 0); [lia|].
  destruct (Z.ltb_spec 400 e); [lia|]. destruct (Z.ltb_spec e (- (400 + Z.log2 m))); [reflexivity|lia].
Qed.

(* a string of L digits has a value below 10^L, hence fewer than 4L+1 bits *)
Lemma digits_log2 (l : bytes) : forallb is_digit l = true -> Z.log2 (digits_val l 0) <= 4 * Z.of_nat (length l).
Proof.
  intros Hd. rewrite digits_val_N. apply log2_digits.
  pose proof (nval_lt l 0%N Hd) as H. lia.
Qed.

Theorem lex_truncated_ext32 : forall (integer fraction : bytes) (exponent : Z),
  forallb is_digit integer = true -> forallb is_digit fraction = true -> (integer = [] \/ hd 0%N integer <> 48%N) ->
  -2147483648 <= exponent <= 2147483647 -> Z.of_nat (length integer) + Z.of_nat (length fraction) <= 200000000 ->
  let fr := strip_trailing_zeros fraction in
  0 < digits_val (integer ++ fr) 0 ->
  parse_truncated_float F32 integer fraction exponent =
  bits_of_b32 (Lex.rne_decimal32 (digits_val (integer ++ fr) 0) (exponent - Z.of_nat (length fr))).
Proof.
  intros integer fraction exponent Hi Hf Hlead Hexp Hlen fr HD.
  destruct (Z_le_dec (-1000000000) exponent) as [Hlo|Hlo]; [destruct (Z_le_dec exponent 1000000000) as [Hhi|Hhi]|].
  - apply lex_truncated_correct32; try assumption; lia.
  - (* exponent > 10^9: infinite on both sides *)
    destruct (strip_alldig fraction Hf) as (Hfr & Hfrl). fold fr in Hfr, Hfrl.
    rewrite rne32_huge by (try exact HD; lia).
    unfold parse_truncated_float, truncated_trace. cbv zeta. fold fr.
    pose proof (trunc_loop_spec (integer ++ fr) 0%N ltac:(rewrite forallb_app, Hi, Hfr; reflexivity) ltac:(reflexivity)) as Htl.
    cbv zeta in Htl. destruct (trunc_loop (integer ++ fr) 0) as (w, t) eqn:Hloop. cbn [fst snd] in Htl.
    destruct Htl as (Ht & _). rewrite app_length in Ht. cbn [snd].
    fold (fallback_path F32 integer fr w exponent (mantissa_exponent exponent (length fr) t) true).
    apply fallback_big32. unfold mantissa_exponent, into_i32, i32_sat.
    destruct (Nat.ltb_spec t (length fr)); destruct (Z.ltb_spec 2147483647 (Z.of_nat (length fr - t)));
      destruct (Z.ltb_spec 2147483647 (Z.of_nat (t - length fr))); lia.
  - (* exponent < -10^9: zero on both sides *)
    destruct (strip_alldig fraction Hf) as (Hfr & Hfrl). fold fr in Hfr, Hfrl.
    assert (Hlog : Z.log2 (digits_val (integer ++ fr) 0) <= 4 * Z.of_nat (length (integer ++ fr))).
    { apply digits_log2. rewrite forallb_app, Hi, Hfr. reflexivity. }
    rewrite app_length in Hlog.
    rewrite rne32_tiny by (try exact HD; lia).
    unfold parse_truncated_float, truncated_trace. cbv zeta. fold fr.
    pose proof (trunc_loop_spec (integer ++ fr) 0%N ltac:(rewrite forallb_app, Hi, Hfr; reflexivity) ltac:(reflexivity)) as Htl.
    cbv zeta in Htl. destruct (trunc_loop (integer ++ fr) 0) as (w, t) eqn:Hloop. cbn [fst snd] in Htl.
    destruct Htl as (Ht & _). rewrite app_length in Ht. cbn [snd].
    fold (fallback_path F32 integer fr w exponent (mantissa_exponent exponent (length fr) t) true).
    rewrite fallback_tiny32; [reflexivity|]. unfold mantissa_exponent, into_i32, i32_sat.
    destruct (Nat.ltb_spec t (length fr)); destruct (Z.ltb_spec 2147483647 (Z.of_nat (length fr - t)));
      destruct (Z.ltb_spec 2147483647 (Z.of_nat (t - length fr))); lia.
Qed.

(* the arguments f64_long_from_parts can hand to lexical (established for every input in part 2) *)
Definition long_ok (integer fraction : bytes) (e : Z) : Prop :=
  forallb is_digit integer = true /\ forallb is_digit fraction = true /\ (integer = [] \/ hd 0%N integer <> 48%N) /\
  -2147483648 <= e <= 2147483647 /\ Z.of_nat (length integer) + Z.of_nat (length fraction) <= 200000000 /\
  0 < digits_val (integer ++ strip_trailing_zeros fraction) 0.

(* what Model/NumF32.v's f64_long_from_parts_s asks of lexical *)
Definition f32_long_spec (integer fraction : bytes) (e : Z) : option b32 :=
  let fr := strip_trailing_zeros fraction in
  let f := NumF32.rne_decimal32 (digits_val (integer ++ fr) 0) (e - Z.of_nat (length fr)) in
  if NumF32.b32_is_inf f then None else Some f.
(* what the code does: `parse_truncated_float::<f32>(..) as f64`, then `is_infinite` *)
Definition f32_long (integer fraction : bytes) (e : Z) : option N :=
  let f := parse_truncated_float F32 integer fraction e in if f32_is_inf_bits f then None else Some f.

Theorem C07_f32_long_spec : forall (integer fraction : bytes) (e : Z), long_ok integer fraction e ->
  f32_long integer fraction e = option_map bits_of_b32 (f32_long_spec integer fraction e).
Proof.
  intros i f e (Hi & Hf & Hlead & He & Hlen & HD). unfold f32_long, f32_long_spec. cbv zeta.
  rewrite (lex_truncated_ext32 i f e Hi Hf Hlead He Hlen HD). change NumF32.rne_decimal32 with Lex.rne_decimal32.
  set (D := digits_val (i ++ strip_trailing_zeros f) 0). set (x := e - Z.of_nat (length (strip_trailing_zeros f))).
  destruct (rne_decimal32_shape D x) as (Hn & Hinf).
  rewrite (f32_inf_bits_iff _ Hn), Hinf.
  destruct (Lex.rne_decimal32 D x) as [s|[|]| |s m ex Hb]; reflexivity.
Qed.

(* ---- negated_u64_as_float with single_precision ---- *)
Lemma b32_of_Z_u64 (z : Z) : 0 <= z < 2 ^ 64 ->
  Lex.b32_of_Z z <> B754_nan /\ Bsign (Lex.b32_of_Z z) = false.
Proof.
  intros Hz. destruct (Z.eq_dec z 0) as [->|Hnz]; [split; [discriminate|reflexivity]|].
  rewrite cast32_oracle by lia.
  destruct (rne_decimal32_cases z 0 ltac:(lia)) as [(Hfin & Hs & _)|(Hinf & _)].
  - split; [|exact Hs]. destruct (Lex.rne_decimal32 z 0); try discriminate Hfin; discriminate.
  - rewrite Hinf. split; [discriminate|reflexivity].
Qed.

Theorem C07_f32_negint_spec : forall sig : N, (sig < two64N)%N ->
  negated_u64_as_float_bits F32 sig = bits_of_b32 (Bopp (binary_normalize 24 128 prec24_gt_0 prec24_lt_emax mode_NE (Z.of_N sig) 0 false)).
Proof.
  intros sig Hsig. unfold negated_u64_as_float_bits, f_cast.
  destruct (b32_of_Z_u64 (Z.of_N sig)) as (Hn & Hs).
  { change (2 ^ 64) with (Z.of_N two64N). lia. }
  symmetry. exact (bits_of_b32_opp _ Hn Hs).
Qed.

(* ================================================================================================ *)
(** * 4. the glue with the algorithm in it

   [Gen]: Model/NumF32.v function for function (same names with _g), the three places where de.rs turns to float code
   left as parameters:
       short  = f64_from_parts          (positive, significand, exponent)
       long   = f64_long_from_parts     (positive, integer digits, fraction digits, exponent)
       negint = negated_u64_as_float    (significand)
   Instantiated with the back ends of Model/NumF32.v the result IS NumF32.parse_integer_s ([parse_integer_g_spec]:
   by reflexivity); instantiated with the algorithm back ends below it is [parse_integer_a], the executable glue
   (Extract/Driver_f32.v runs it against the crate). *)
Open Scope N_scope.
Section Gen.
Variable short : env -> bool -> N -> Z -> st -> res (b64 * st).
Variable long : env -> bool -> bytes -> bytes -> Z -> st -> res (b64 * st).
Variable negint : N -> b64.

Definition parse_exponent_g (E : env) (positive : bool) (sig : N) (starting_exp : Z) (s : st) : res (b64 * st) :=
  let* (positive_exp, (e, ov), s1) := exponent_front E s in
  if ov then parse_exponent_overflow E positive (sig =? 0) positive_exp s1
  else
    let* (_, s2) := peek_or_null E s1 in
    let final_exp := if positive_exp then i32_sat (starting_exp + Z.of_N e) else i32_sat (starting_exp - Z.of_N e) in
    short E positive sig final_exp s2.

Definition parse_long_exponent_g (E : env) (positive : bool) (integer fraction : bytes) (s : st) : res (b64 * st) :=
  let* (positive_exp, (e, ov), s1) := exponent_front E s in
  if ov then parse_exponent_overflow E positive (forallb (N.eqb 48) (integer ++ fraction)) positive_exp s1
  else
    let* (_, s2) := peek_or_null E s1 in
    let final_exp := if positive_exp then Z.of_N e else (- Z.of_N e)%Z in
    long E positive integer fraction final_exp s2.

Definition parse_long_decimal_g (E : env) (positive : bool) (integer fraction0 : bytes) (s : st) : res (b64 * st) :=
  let n := span_len is_digit (rest s) in
  let fraction := fraction0 ++ firstn n (rest s) in
  let* (c, s1) := peek_or_null E (advance n s) in
  match fraction with
  | [] =>
    let* (o, s2) := peek E s1 in
    match o with
    | Some _ => peek_error E s2 InvalidNumber
    | None => peek_error E s2 EofWhileParsingValue
    end
  | _ :: _ =>
    if (c =? 101) || (c =? 69) then parse_long_exponent_g E positive integer fraction s1
    else long E positive integer fraction 0 s1
  end.

Definition parse_decimal_overflow_g (E : env) (positive : bool) (sig : N) (e : Z) (s : st) : res (b64 * st) :=
  let sd := itoa sig in
  let fraction_digits := Z.to_nat (- e) in
  let scratch := (if Nat.leb (S (length sd)) fraction_digits
                  then repeat 48 (S (fraction_digits - S (length sd))) else []) ++ sd in
  let integer_end := (length scratch - fraction_digits)%nat in
  parse_long_decimal_g E positive (firstn integer_end scratch) (skipn integer_end scratch) s.

Definition parse_decimal_g (E : env) (positive : bool) (sig : N) (exp_before : Z) (s : st) : res (b64 * st) :=
  let s0 := discard s in
  let '(n, sg, ov) := sig_loop (rest s0) sig in
  let exp_after := (- Z.of_nat n)%Z in
  let* (c, s1) := peek_or_null E (advance n s0) in
  if ov then parse_decimal_overflow_g E positive sg (exp_before + exp_after) s1
  else if Nat.eqb n 0 then
    let* (o, s2) := peek E s1 in
    match o with
    | Some _ => peek_error E s2 InvalidNumber
    | None => peek_error E s2 EofWhileParsingValue
    end
  else
    let e := (exp_before + exp_after)%Z in
    if (c =? 101) || (c =? 69) then parse_exponent_g E positive sg e s1
    else short E positive sg e s1.

Definition parse_long_integer_g (E : env) (positive : bool) (sig : N) (s : st) : res (b64 * st) :=
  let n := span_len is_digit (rest s) in
  let* (c, s1) := peek_or_null E (advance n s) in
  let integer := itoa sig ++ firstn n (rest s) in
  if c =? 46 then parse_long_decimal_g E positive integer [] (discard s1)
  else if (c =? 101) || (c =? 69) then parse_long_exponent_g E positive integer [] s1
  else long E positive integer [] 0 s1.

Definition parse_number_g (E : env) (positive : bool) (sig : N) (s : st) : res (pnum * st) :=
  let* (c, s1) := peek_or_null E s in
  if c =? 46 then let* (f, s2) := parse_decimal_g E positive sig 0 s1 in Ok (PF64 f, s2)
  else if (c =? 101) || (c =? 69) then let* (f, s2) := parse_exponent_g E positive sig 0 s1 in Ok (PF64 f, s2)
  else if positive then Ok (PU64 sig, s1)
  else
    let as_i64 := wrap_i64 (Z.of_N sig) in
    let neg := wrap_i64 (- as_i64) in
    if (0 <=? neg)%Z then Ok (PF64 (negint sig), s1)
    else Ok (PI64 neg, s1).

Definition parse_integer_g (E : env) (positive : bool) (s : st) : res (pnum * st) :=
  let* (o, s1) := next E s in
  match o with
  | None => error E s1 EofWhileParsingValue
  | Some c =>
    if c =? 48 then
      let* (c2, s2) := peek_or_null E s1 in
      if is_digit c2 then peek_error E s2 InvalidNumber else parse_number_g E positive 0 s2
    else if is_digit19 c then
      let '(n, sg, ov) := sig_loop (rest s1) (digit_val c) in
      let* (_, s2) := peek_or_null E (advance n s1) in
      if ov then let* (f, s3) := parse_long_integer_g E positive sg s2 in Ok (PF64 f, s3)
      else parse_number_g E positive sg s2
    else error E s1 InvalidNumber
  end.
End Gen.

(* ---- the back ends of Model/NumF32.v: the generic parser is NumF32's ---- *)
Definition negint_s (sig : N) : b64 :=
  b64_neg (b64_of_b32 (binary_normalize 24 128 _ _ mode_NE (Z.of_N sig) 0 false)).

Lemma parse_integer_g_spec : forall E positive s,
  parse_integer_g f64_from_parts_s f64_long_from_parts_s negint_s E positive s = parse_integer_s E positive s.
Proof. reflexivity. Qed.

(* ---- the algorithm back ends: what src/de.rs runs when single_precision is set ---- *)
(* `f as f64` on an f32 given by its bits, the is_infinite test already made on the bits (Lex.f32_fr: None) *)
Definition finish_a (E : env) (positive : bool) (o : option N) (s : st) : res (b64 * st) :=
  match o with
  | None => peek_error E s NumberOutOfRange
  | Some bits => let w := b64_of_b32 (f32_of_bits bits) in Ok (if positive then w else b64_neg w, s)
  end.
(* f64_from_parts: lexical::parse_concise_float::<f32>(significand, exponent) as f64 *)
Definition f64_from_parts_a (E : env) (positive : bool) (sig : N) (e : Z) (s : st) : res (b64 * st) :=
  finish_a E positive (f32_fr sig e) s.
(* f64_long_from_parts: lexical::parse_truncated_float::<f32>(integer, fraction, exponent) as f64 *)
Definition f64_long_from_parts_a (E : env) (positive : bool) (integer fraction : bytes) (e : Z) (s : st) : res (b64 * st) :=
  finish_a E positive (f32_long integer fraction e) s.
(* negated_u64_as_float: -(significand as f32) as f64 *)
Definition negint_a (sig : N) : b64 := b64_of_b32 (f32_of_bits (negated_u64_as_float_bits F32 sig)).

Definition parse_number_a := parse_number_g f64_from_parts_a f64_long_from_parts_a negint_a.
Definition parse_integer_a := parse_integer_g f64_from_parts_a f64_long_from_parts_a negint_a.

(* ---- Model/DeTyped.v's f32 request with the algorithm in it ---- *)
From SJ Require Import Model.Ty Model.DeTyped.
(* DeTyped.deserialize_number_s with parse_integer_a *)
Definition deserialize_number_a (E : env) (visit : pnum -> st -> tres (dval * st)) (s : st) : tres (dval * st) :=
  let^ (o, s1) := parse_whitespace E s in
  match o with
  | None => lift (peek_error E s1 EofWhileParsingValue)
  | Some b =>
    fix_position E
      (if N.eqb b 45 then let^ (p, s2) := parse_integer_a E false (discard s1) in visit p s2
       else if is_digit b then let^ (p, s2) := parse_integer_a E true s1 in visit p s2
       else peek_invalid_type E s1)
  end.
(* DeTyped.deserialize_f32 *)
Definition deserialize_f32_a (E : env) (s : st) : tres (dval * st) :=
  if float_roundtrip (cf E) then deserialize_number_a E visit_f32 s else deserialize_number E visit_f32 s.

Close Scope N_scope.
Open Scope Z_scope.

(* ---- the back ends agree wherever part 2 shows the parser to call them ---- *)
Lemma finish_a_spec (E : env) (positive : bool) (o : option b32) (s : st) :
  (forall f, o = Some f -> f <> B754_nan /\ NumF32.b32_is_inf f = false) ->
  finish_a E positive (option_map bits_of_b32 o) s =
  match o with None => peek_error E s NumberOutOfRange | Some f => finish_s E positive f s end.
Proof.
  intros H. destruct o as [f|]; cbn [option_map finish_a]; [|reflexivity].
  destruct (H f eq_refl) as (Hn & Hi). unfold finish_s. rewrite Hi, (f32_of_bits_bits f Hn). reflexivity.
Qed.

Theorem short_agree : forall E positive sig e s, (sig < two64N)%N ->
  f64_from_parts_a E positive sig e s = f64_from_parts_s E positive sig e s.
Proof.
  intros E positive sig e s Hsig. unfold f64_from_parts_a, f64_from_parts_s.
  rewrite (C07_f32_fr_spec sig e Hsig), finish_a_spec.
  - unfold f32_fr_spec, finish_s. cbv zeta.
    destruct (NumF32.b32_is_inf (NumF32.rne_decimal32 (Z.of_N sig) e)) eqn:Hi; cbv beta iota; rewrite ?Hi; reflexivity.
  - intros f Hf. unfold f32_fr_spec in Hf. cbv zeta in Hf.
    destruct (NumF32.b32_is_inf (NumF32.rne_decimal32 (Z.of_N sig) e)) eqn:Hi; [discriminate Hf|].
    injection Hf as <-. split; [apply (rne_decimal32_shape (Z.of_N sig) e)|exact Hi].
Qed.

Theorem long_agree : forall E positive i f e s, long_ok i f e ->
  f64_long_from_parts_a E positive i f e s = f64_long_from_parts_s E positive i f e s.
Proof.
  intros E positive i f e s Hok. unfold f64_long_from_parts_a, f64_long_from_parts_s.
  rewrite (C07_f32_long_spec i f e Hok), finish_a_spec.
  - unfold f32_long_spec, finish_s. cbv zeta.
    destruct (NumF32.b32_is_inf (NumF32.rne_decimal32 (digits_val (i ++ strip_trailing_zeros f) 0)
                (e - Z.of_nat (length (strip_trailing_zeros f))))) eqn:Hi; cbv beta iota; rewrite ?Hi; reflexivity.
  - intros g Hg. unfold f32_long_spec in Hg. cbv zeta in Hg.
    set (D := digits_val (i ++ strip_trailing_zeros f) 0) in *.
    set (x := e - Z.of_nat (length (strip_trailing_zeros f))) in *.
    destruct (NumF32.b32_is_inf (NumF32.rne_decimal32 D x)) eqn:Hi; [discriminate Hg|].
    injection Hg as <-. split; [apply (rne_decimal32_shape D x)|exact Hi].
Qed.

(* widening is exact: every finite binary32 value is a binary64 value *)
Lemma widen_exact (m : positive) (e : Z) (b sz : bool) : SpecFloat.bounded 24 128 m e = true ->
  let z := if b then Zneg m else Zpos m in
  let g := binary_normalize 53 1024 prec53_gt_0 prec53_lt_emax mode_NE z e sz in
  B2R g = F2R (Float radix2 z e) /\ is_finite g = true /\ Bsign g = b.
Proof.
  intros Hb z g. destruct (b32_bounded_inv m e Hb) as (Hm & He & _).
  pose proof (binary_normalize_correct 53 1024 prec53_gt_0 prec53_lt_emax mode_NE z e sz) as H.
  cbv zeta in H. cbn [round_mode] in H.
  assert (Hfmt : generic_format radix2 (SpecFloat.fexp 53 1024) (F2R (Float radix2 z e))).
  { apply generic_format_F2R. intros _. unfold cexp, SpecFloat.fexp, SpecFloat.emin.
    rewrite mag_F2R by (unfold z; destruct b; discriminate).
    assert (Hmag : (mag radix2 (IZR z) <= 24)%Z).
    { apply mag_le_bpow; [unfold z; destruct b; apply IZR_neq; discriminate|].
      rewrite <- abs_IZR, bpow_IZR by lia. apply IZR_lt. unfold z. destruct b; cbn [Z.abs]; exact Hm. }
    cbn [Fexp]. lia. }
  rewrite round_generic in H by (try apply valid_rnd_N; exact Hfmt).
  rewrite Rlt_bool_true in H.
  - destruct H as (H1 & H2 & H3). split; [exact H1|]. split; [exact H2|]. unfold g. rewrite H3.
    unfold z. destruct b.
    + rewrite Rcompare_Lt; [reflexivity|]. apply F2R_lt_0. reflexivity.
    + rewrite Rcompare_Gt; [reflexivity|]. apply F2R_gt_0. reflexivity.
  - rewrite <- F2R_Zabs. replace (Z.abs z) with (Zpos m) by (unfold z; destruct b; reflexivity).
    apply Rlt_le_trans with (bpow radix2 24 * bpow radix2 e)%R.
    + unfold F2R. cbn [Fnum Fexp]. apply Rmult_lt_compat_r; [apply bpow_gt_0|].
      rewrite bpow_IZR by lia. apply IZR_lt. exact Hm.
    + rewrite <- bpow_plus. apply bpow_le. lia.
Qed.

(* widening commutes with negation *)
Lemma b64_of_b32_opp : forall f : b32, b64_of_b32 (Bopp f) = Bopp (b64_of_b32 f).
Proof.
  intros f. destruct f as [s|s| |s m e Hb]; try reflexivity.
  cbn [Bopp b64_of_b32].
  destruct (widen_exact m e (negb s) (negb s) Hb) as (A1 & A2 & A3).
  destruct (widen_exact m e s s Hb) as (B1 & B2 & B3). cbv zeta in *.
  apply B2R_Bsign_inj.
  - exact A2.
  - rewrite is_finite_Bopp. exact B2.
  - rewrite B2R_Bopp, A1, B1. destruct s; cbn [negb]; rewrite <- F2R_Zopp; reflexivity.
  - rewrite Bsign_Bopp, A3, B3; [reflexivity|].
    destruct (binary_normalize 53 1024 prec53_gt_0 prec53_lt_emax mode_NE (if s then Zneg m else Zpos m) e s);
      try reflexivity; discriminate B2.
Qed.

(* narrowing undoes widening: the `as f32` of serde's f32 visitor gives back the f32 the glue widened *)
Lemma b32_of_b64_of_b32 : forall f : b32, b32_of_b64 (b64_of_b32 f) = f.
Proof.
  intros f. destruct f as [s|s| |s m e Hb]; try reflexivity.
  cbn [b64_of_b32].
  destruct (widen_exact m e s s Hb) as (B1 & B2 & B3). cbv zeta in B1, B2, B3.
  set (f := B754_finite s m e Hb).
  assert (HF : F2R (Float radix2 (if s then Zneg m else Zpos m) e) = B2R f).
  { unfold f. cbn [B2R]. destruct s; reflexivity. }
  rewrite HF in B1.
  assert (Hnz : B2R f <> 0%R).
  { unfold f. cbn [B2R]. destruct s; cbn [cond_Zopp].
    - apply Rlt_not_eq. apply F2R_lt_0. reflexivity.
    - apply Rgt_not_eq. apply F2R_gt_0. reflexivity. }
  destruct (binary_normalize 53 1024 prec53_gt_0 prec53_lt_emax mode_NE (if s then Zneg m else Zpos m) e s)
    as [s'|s'| |s' m' e' Hb'] eqn:Hg; try discriminate B2.
  - exfalso. apply Hnz. rewrite <- B1. reflexivity.
  - cbn [Bsign] in B3. subst s'. cbn [b32_of_b64].
    set (g := B754_finite s m' e' Hb') in *.
    assert (HG : F2R (Float radix2 (if s then Zneg m' else Zpos m') e') = B2R g).
    { unfold g. cbn [B2R]. destruct s; reflexivity. }
    assert (Hrnd : RNE32 (B2R f) = B2R f) by (apply RNE32_generic; exact (generic_format_B2R 24 128 f)).
    destruct (bn32_correct (if s then Zneg m' else Zpos m') e' s) as (H1 & H2 & H3).
    { rewrite HG, B1, Hrnd. exact (abs_B2R_lt_emax 24 128 f). }
    cbv zeta in H1, H2, H3. rewrite HG, B1, Hrnd in H1. rewrite HG, B1 in H3.
    apply B2R_Bsign_inj; [exact H2|reflexivity|exact H1|].
    rewrite H3. unfold f. cbn [B2R Bsign].
    destruct s.
    + rewrite Rcompare_Lt; [reflexivity|]. apply F2R_lt_0. reflexivity.
    + rewrite Rcompare_Gt; [reflexivity|]. apply F2R_gt_0. reflexivity.
Qed.

Theorem negint_agree : forall sig : N, (sig < two64N)%N -> negint_a sig = negint_s sig.
Proof.
  intros sig Hsig. unfold negint_a, negint_s. rewrite (C07_f32_negint_spec sig Hsig).
  rewrite f32_of_bits_bits.
  - rewrite b64_of_b32_opp. reflexivity.
  - destruct (b32_of_Z_u64 (Z.of_N sig)) as (Hn & _).
    { change (2 ^ 64) with (Z.of_N two64N). lia. }
    unfold Lex.b32_of_Z in Hn. intros H.
    destruct (binary_normalize 24 128 prec24_gt_0 prec24_lt_emax mode_NE (Z.of_N sig) 0 false); try discriminate H.
    apply Hn. reflexivity.
Qed.

Print Assumptions f32_of_bits_bits.
Print Assumptions C07_f32_fr_spec.
Print Assumptions lex_truncated_ext32.
Print Assumptions C07_f32_long_spec.
Print Assumptions C07_f32_negint_spec.
Print Assumptions short_agree.
Print Assumptions long_agree.
Print Assumptions negint_agree.
Print Assumptions b32_of_b64_of_b32.
