(* Proofs/TypedPrefixInt.v — prefix dichotomy for the typed deserializer, part 2: integers at the boundary.

   A number parser is LOOSE (Proofs/PrefixNum.v): "30" at the end of the prefix says nothing about "300".
   For a typed integer target the visitor may reject the prefix run's value (invalid_value / invalid_type, a Data
   error): this file shows that then the extended run's value is rejected as well.  [pworse p p']: whatever
   range check [p] fails, [p'] fails too. *)
From SJ Require Import Base.Bytes Base.FloatB Gen.Tables Model.Read Model.Num Model.NumF32 Model.Ty Model.DeTyped.
From SJ Require Import Proofs.PrefixBase Proofs.PrefixNum Proofs.NumInt.
Require Import Lia ZifyBool ZifyNat ZifyN.
Open Scope N_scope.

Definition pworse (p p' : pnum) : Prop :=
  match p' with
  | PF64 _ | PString _ => True
  | PU64 n' => match p with PU64 n => n <= n' | _ => False end
  | PI64 z' => match p with PI64 z => (z' <= z < 0)%Z | _ => False end
  end.

Lemma int_min_le0 t : (int_min t <= 0)%Z.
Proof. destruct t; cbn [int_min]; lia. Qed.
Lemma int_max_ge0 t : (0 <= int_max t)%Z.
Proof. destruct t; cbn [int_max]; lia. Qed.

Lemma visit_int_worse t p p' s s' d :
  pworse p p' -> visit_int t p' s' = TOk d -> exists d', visit_int t p s = TOk d'.
Proof.
  pose proof (int_min_le0 t) as Hmin. pose proof (int_max_ge0 t) as Hmax.
  destruct p' as [f'|n'|z'|b']; cbn [pworse visit_int]; try discriminate.
  - destruct p as [f|n|z|b]; try contradiction. intros Hle.
    destruct (in_range t (Z.of_N n')) eqn:Hr; [|discriminate]. intros _.
    assert (Hr2 : in_range t (Z.of_N n) = true) by (unfold in_range in *; lia).
    cbn [visit_int]. rewrite Hr2. eauto.
  - destruct p as [f|n|z|b]; try contradiction. intros Hle.
    destruct (in_range t z') eqn:Hr; [|discriminate]. intros _.
    assert (Hr2 : in_range t z = true) by (unfold in_range in *; lia).
    cbn [visit_int]. rewrite Hr2. eauto.
Qed.

(* the value parse_number builds when no fraction / exponent follows *)
Definition pn_tail (positive : bool) (sig : N) : pnum :=
  if positive then PU64 sig
  else
    let as_i64 := wrap_i64 (Z.of_N sig) in
    let neg := wrap_i64 (- as_i64) in
    if (0 <=? neg)%Z then PF64 (b64_neg (b64_of_Z (Z.of_N sig))) else PI64 neg.

Lemma pn_tail_mono positive sig sig' : sig <= sig' -> sig' <= u64_max -> (sig = 0 -> sig' = 0) ->
  pworse (pn_tail positive sig) (pn_tail positive sig').
Proof.
  intros Hle Hmax Hz. unfold pn_tail. destruct positive; [exact Hle|]. cbv zeta.
  pose proof (wrapping_neg_spec sig' Hmax) as H2. cbv zeta in H2.
  pose proof (wrapping_neg_spec sig ltac:(lia)) as H1. cbv zeta in H1.
  destruct ((0 <? sig') && (sig' <=? i64_min_abs)) eqn:Hc2.
  - destruct H2 as [H2a H2b]. rewrite H2a.
    assert (Hc1 : (0 <? sig) && (sig <=? i64_min_abs) = true) by lia. rewrite Hc1 in H1.
    destruct H1 as [H1a H1b]. rewrite H1a. cbn [pworse]. rewrite H1b, H2b. lia.
  - rewrite H2. exact I.
Qed.

(* what parse_number returns: a float when `.` / `e` / `E` follows, [pn_tail] otherwise *)
Lemma parse_number_spec E positive sig s p s2 : parse_number E positive sig s = Ok (p, s2) ->
  exists c s1, peek_or_null E s = Ok (c, s1) /\
    (((c =? 46) || (c =? 101) || (c =? 69) = true /\ exists f, p = PF64 f) \/
     ((c =? 46) || (c =? 101) || (c =? 69) = false /\ p = pn_tail positive sig)).
Proof.
  unfold parse_number. intros H. apply bind_ok in H. destruct H as ([c s1] & Hp & H). exists c, s1. split; [exact Hp|].
  destruct (c =? 46) eqn:E46.
  { left. split; [reflexivity|]. apply bind_ok in H. destruct H as ([f s3] & _ & H). injection H as <- _. eauto. }
  destruct ((c =? 101) || (c =? 69)) eqn:Ee.
  { left. split; [cbn [orb]; exact Ee|]. apply bind_ok in H. destruct H as ([f s3] & _ & H). injection H as <- _. eauto. }
  right. split; [cbn [orb]; exact Ee|]. unfold pn_tail. destruct positive; [now injection H as <- _|].
  cbv zeta in H |- *. destruct (0 <=? _)%Z; now injection H as <- _.
Qed.

Lemma parse_number_s_spec E positive sig s p s2 : parse_number_s E positive sig s = Ok (p, s2) ->
  forall b, p <> PString b.
Proof.
  unfold parse_number_s. intros H b. apply bind_ok in H. destruct H as ([c s1] & Hp & H).
  destruct (c =? 46).
  { apply bind_ok in H. destruct H as ([f s3] & _ & H). injection H as <- _. discriminate. }
  destruct ((c =? 101) || (c =? 69)).
  { apply bind_ok in H. destruct H as ([f s3] & _ & H). injection H as <- _. discriminate. }
  destruct positive; [injection H as <- _; discriminate|].
  cbv zeta in H. destruct (0 <=? _)%Z; injection H as <- _; discriminate.
Qed.

Lemma pn_tail_no_string positive sig b : pn_tail positive sig <> PString b.
Proof. unfold pn_tail. destruct positive; [discriminate|]. cbv zeta. destruct (0 <=? _)%Z; discriminate. Qed.

Lemma parse_number_no_string E positive sig s p s2 : parse_number E positive sig s = Ok (p, s2) ->
  forall b, p <> PString b.
Proof.
  intros H b. apply parse_number_spec in H. destruct H as (c & s1 & _ & [[_ [f ->]] | [_ ->]]); [discriminate|].
  apply pn_tail_no_string.
Qed.

Lemma parse_integer_no_string E positive s p s2 : parse_integer E positive s = Ok (p, s2) ->
  forall b, p <> PString b.
Proof.
  unfold parse_integer. intros H b. apply bind_ok in H. destruct H as ([o s1] & _ & H).
  destruct o as [c|]; [|discriminate]. destruct (c =? 48).
  { apply bind_ok in H. destruct H as ([c2 s3] & _ & H). destruct (is_digit c2); [discriminate|].
    eapply parse_number_no_string; exact H. }
  destruct (is_digit19 c); [|discriminate].
  destruct (sig_loop (rest s1) (digit_val c)) as [[n sg] ov].
  apply bind_ok in H. destruct H as ([c2 s3] & _ & H). destruct ov.
  - apply bind_ok in H. destruct H as ([f s4] & _ & H). injection H as <- _. discriminate.
  - eapply parse_number_no_string; exact H.
Qed.

Lemma parse_integer_s_no_string E positive s p s2 : parse_integer_s E positive s = Ok (p, s2) ->
  forall b, p <> PString b.
Proof.
  unfold parse_integer_s. intros H b. apply bind_ok in H. destruct H as ([o s1] & _ & H).
  destruct o as [c|]; [|discriminate]. destruct (c =? 48).
  { apply bind_ok in H. destruct H as ([c2 s3] & _ & H). destruct (is_digit c2); [discriminate|].
    eapply parse_number_s_spec; exact H. }
  destruct (is_digit19 c); [|discriminate].
  destruct (sig_loop (rest s1) (digit_val c)) as [[n sg] ov].
  apply bind_ok in H. destruct H as ([c2 s3] & _ & H). destruct ov.
  - apply bind_ok in H. destruct H as ([f s4] & _ & H). injection H as <- _. discriminate.
  - eapply parse_number_s_spec; exact H.
Qed.

(* ---------- the significand loop on an extended input ---------- *)
Lemma sig_loop_ge l : forall sig, sig <= u64_max ->
  sig <= snd (fst (sig_loop l sig)) /\ snd (fst (sig_loop l sig)) <= u64_max.
Proof.
  induction l as [|c l IH]; intros sig Hs; cbn [sig_loop fst snd]; [lia|].
  destruct (is_digit c) eqn:Hd; [|cbn [fst snd]; lia].
  rewrite overflow_mac_spec by (now apply is_digit_val).
  destruct (u64_max <? sig * 10 + digit_val c) eqn:Ho; [cbn [fst snd]; lia|].
  assert (Hle : sig * 10 + digit_val c <= u64_max) by lia.
  rewrite (mul10add_small _ _ Hle). specialize (IH _ Hle).
  destruct (sig_loop l (sig * 10 + digit_val c)) as [[n sg] ov]. cbn [fst snd] in *. lia.
Qed.

Lemma sig_loop_app l t : forall sig n sg,
  sig_loop l sig = (n, sg, false) -> skipn n l = [] ->
  sig_loop (l ++ t) sig = (let '(n', sg', ov') := sig_loop t sg in ((n + n')%nat, sg', ov')).
Proof.
  induction l as [|c l IH]; intros sig n sg; cbn [sig_loop app].
  - intros [= <- <-] _. destruct (sig_loop t sig) as [[n' sg'] ov']. reflexivity.
  - destruct (is_digit c) eqn:Hd.
    2:{ intros [= <- <-]. cbn [skipn]. discriminate. }
    destruct (overflow_mac sig (digit_val c) u64_max) eqn:Ho; [discriminate|].
    destruct (sig_loop l (mul10add sig (digit_val c))) as [[n1 sg1] ov1] eqn:Hs.
    intros [= <- <- ->]. cbn [skipn]. intros Hsk.
    rewrite (IH _ _ _ Hs Hsk). destruct (sig_loop t sg1) as [[n' sg'] ov']. reflexivity.
Qed.

Lemma digit19_val c : is_digit19 c = true -> 1 <= digit_val c /\ digit_val c <= u64_max.
Proof. unfold is_digit19, digit_val, u64_max. lia. Qed.

Section Mono.
Variable C : ctx.
Notation rk0 := (c_rk C).
Notation cf0 := (c_cf C).
Notation tm1 := (c_tm1 C).
Notation tm2 := (c_tm2 C).
Notation t := (c_t C).
Notation L := (c_L C).
Notation E1 := (mkEnv (c_rk C) (c_tm1 C) (c_cf C)).
Notation E2 := (mkEnv (c_rk C) (c_tm2 C) (c_cf C)).

(* how the two runs' peeks are related (peek_or_null_dich, unfolded) *)
Lemma pon_rel s c s1 c' s1' : inv C s ->
  peek_or_null E1 s = Ok (c, s1) -> peek_or_null E2 (ext C s) = Ok (c', s1') ->
  inv C s1 /\ ((c' = c /\ s1' = ext C s1) \/ (touched s1 /\ c = 0)).
Proof.
  intros Hi H1 H2. pose proof (peek_or_null_dich C s Hi) as Hd. rewrite H1, H2 in Hd.
  cbn [dich ShP iv tch ex fst snd] in Hd. destruct Hd as [Hi1 [Hd | [Ht [Hz _]]]]; split; auto.
  injection Hd as -> ->. auto.
Qed.

Lemma pon_touched E s c s1 : peek_or_null E s = Ok (c, s1) -> rest s = [] -> touched s1 /\ c = 0.
Proof.
  intros H Hr. pose proof (peek_or_null_spec _ _ _ _ H) as [(Ht & Hc & _) | (r & Hr1 & _)]; [auto|].
  unfold peek_or_null in H. destruct (peek E s) as [[o s']| | |] eqn:Hp; cbn [bind] in H; try discriminate.
  injection H as _ <-. apply peek_rest in Hp. congruence.
Qed.

(* same significand, same position *)
Lemma parse_number_mono_same positive sig s p s2 p' s2' : inv C s -> sig <= u64_max ->
  parse_number E1 positive sig s = Ok (p, s2) -> parse_number E2 positive sig (ext C s) = Ok (p', s2') ->
  pworse p p'.
Proof.
  intros Hi Hs H1 H2. apply parse_number_spec in H1, H2.
  destruct H1 as (c & s1 & Hp1 & H1). destruct H2 as (c' & s1' & Hp2 & H2).
  destruct (pon_rel _ _ _ _ _ Hi Hp1 Hp2) as [_ [[-> ->] | [_ ->]]].
  - destruct H2 as [[_ [f' ->]] | [Hc2 ->]]; [exact I|].
    destruct H1 as [[Hc1 _] | [_ ->]]; [congruence|]. apply pn_tail_mono; lia.
  - destruct H2 as [[_ [f' ->]] | [Hc2 ->]]; [exact I|].
    destruct H1 as [[Hc1 _] | [_ ->]]; [discriminate|]. apply pn_tail_mono; lia.
Qed.

(* the prefix run is at the boundary; the extended run has read more digits *)
Lemma parse_number_mono_touched positive sig sig' s s' p s2 p' s2' :
  rest s = [] -> sig <= sig' -> sig' <= u64_max -> (sig = 0 -> sig' = 0) ->
  parse_number E1 positive sig s = Ok (p, s2) -> parse_number E2 positive sig' s' = Ok (p', s2') ->
  pworse p p'.
Proof.
  intros Hr Hle Hmax Hz H1 H2. apply parse_number_spec in H1, H2.
  destruct H1 as (c & s1 & Hp1 & H1). destruct H2 as (c' & s1' & Hp2 & H2).
  destruct (pon_touched _ _ _ _ Hp1 Hr) as [_ ->].
  destruct H2 as [[_ [f' ->]] | [Hc2 ->]]; [exact I|].
  destruct H1 as [[Hc1 _] | [_ ->]]; [discriminate|]. now apply pn_tail_mono.
Qed.

Lemma next_live E s o s1 : next E s = Ok (o, s1) -> o <> None ->
  exists c r, rest s = c :: r /\ o = Some c /\ s1 = mkSt r (S (off s)) false (depth s).
Proof.
  unfold next. destruct (rest s) as [|c r].
  - unfold at_end. destruct (tm E); [|discriminate]. intros [= <- _] H. now destruct H.
  - intros [= <- <-] _. eauto.
Qed.

Theorem parse_integer_mono positive s p s2 p' s2' : inv C s ->
  parse_integer E1 positive s = Ok (p, s2) -> parse_integer E2 positive (ext C s) = Ok (p', s2') ->
  pworse p p'.
Proof.
  intros Hi H1 H2. unfold parse_integer in H1, H2.
  apply bind_ok in H1. destruct H1 as ([o s1] & Hn1 & H1).
  destruct o as [c|]; [|discriminate].
  destruct (next_live _ _ _ _ Hn1 ltac:(discriminate)) as (c0 & r & Hr & [= <-] & ->).
  assert (Hn2 : next E2 (ext C s) = Ok (Some c, ext C (mkSt r (S (off s)) false (depth s)))).
  { unfold next, ext. cbn [rest off pk depth]. rewrite Hr. reflexivity. }
  rewrite Hn2 in H2. cbn [bind] in H2.
  set (s1 := mkSt r (S (off s)) false (depth s)) in *.
  assert (Hi1 : inv C s1).
  { destruct Hi as [Ho _]. rewrite Hr in Ho. cbn [length] in Ho. apply inv_mk; [lia|discriminate]. }
  destruct (c =? 48).
  { apply bind_ok in H1. destruct H1 as ([c2 s3] & Hp1 & H1).
    apply bind_ok in H2. destruct H2 as ([c2' s3'] & Hp2 & H2).
    destruct (is_digit c2); [discriminate|]. destruct (is_digit c2'); [discriminate|].
    destruct (pon_rel _ _ _ _ _ Hi1 Hp1 Hp2) as [Hi3 [[-> ->] | [[Hr3 _] ->]]].
    - eapply parse_number_mono_same; [exact Hi3| |exact H1|exact H2]. unfold u64_max; lia.
    - eapply parse_number_mono_touched; [exact Hr3| | | |exact H1|exact H2]; unfold u64_max; lia. }
  destruct (is_digit19 c) eqn:H19; [|discriminate].
  destruct (digit19_val c H19) as [Hd1 Hd2].
  change (rest (ext C s1)) with (rest s1 ++ t) in H2.
  destruct (sig_loop_cases (rest s1) (digit_val c)) as [Hle [[Hb Hov] | [(b & r' & Hsk) Hin]]].
  - pose proof (sig_loop_ge (rest s1) (digit_val c) Hd2) as Hge.
    destruct (sig_loop (rest s1) (digit_val c)) as [[n sg] ov] eqn:Hsl. cbn [fst snd] in *. subst ov.
    rewrite (sig_loop_app _ t _ _ _ Hsl Hb) in H2.
    pose proof (sig_loop_ge t sg ltac:(lia)) as Hge2.
    destruct (sig_loop t sg) as [[n' sg'] ov']. cbn [fst snd] in *.
    apply bind_ok in H1. destruct H1 as ([c2 s3] & Hp1 & H1).
    apply bind_ok in H2. destruct H2 as ([c2' s3'] & Hp2 & H2).
    destruct ov'.
    { apply bind_ok in H2. destruct H2 as ([f s4] & _ & H2). injection H2 as <- _. exact I. }
    assert (Hr3 : rest s3 = []) by (apply (pon_touched _ _ _ _ Hp1); exact Hb).
    eapply parse_number_mono_touched; [exact Hr3| | | |exact H1|exact H2]; lia.
  - rewrite Hin in H2. destruct (sig_loop (rest s1) (digit_val c)) as [[n sg] ov] eqn:Hsl. cbn [fst snd] in *.
    pose proof (sig_loop_ge (rest s1) (digit_val c) Hd2) as Hge. rewrite Hsl in Hge. cbn [fst snd] in Hge.
    rewrite advance_ext in H2 by assumption.
    apply bind_ok in H1. destruct H1 as ([c2 s3] & Hp1 & H1).
    apply bind_ok in H2. destruct H2 as ([c2' s3'] & Hp2 & H2).
    assert (Hia : inv C (advance n s1)) by now apply inv_advance.
    destruct (pon_rel _ _ _ _ _ Hia Hp1 Hp2) as [Hi3 [[-> ->] | [Ht3 _]]].
    2:{ exfalso. eapply pon_not_touched; [exact Hp1|eapply live_advance; exact Hsk|exact Ht3]. }
    destruct ov.
    { apply bind_ok in H2. destruct H2 as ([f s4] & _ & H2). injection H2 as <- _. exact I. }
    eapply parse_number_mono_same; [exact Hi3| |exact H1|exact H2]. lia.
Qed.

End Mono.
