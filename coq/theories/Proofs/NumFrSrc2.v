(* Proofs/NumFrSrc2.v — second half of Proofs/NumFrSrc.v: the two ENTRY POINTS of the float_roundtrip long-literal paths,
       parse_long_integer (fr twin)     clears the buffer, writes itoa(significand), pushes the remaining integer digits
       parse_decimal_overflow (fr twin) clears the buffer, writes leading-zero padding ++ itoa(significand)
   are the translated source for EVERY content of `self.scratch` on entry; the exported conjunctions
       numfr_model_is_translated_source       (single_precision = false : Model/Num.v, float_roundtrip (cf E) = true)
       numfr_f32_model_is_translated_source   (single_precision = true  : Model/NumF32.v)
   and numfr_scratch_independent: what the caller observes of an entry point (value, cursor, error) does not depend on what the buffer
   held on entry.  Bounds (explicit, as in Proofs/NumParseSrc.v):
       Z.of_nat (length (rest s)) <= 9223372036854775807   the remaining input is at most isize::MAX bytes (so `self.scratch.len()` fits usize)
       -2147483648 < e <= 0  (parse_decimal_overflow)      `-exponent as usize` is the number of fraction digits: for e = i32::MIN the checked
                                                          negation panics, for e > 0 the cast wraps to 2^64 - e (the model has Z.to_nat (- e) = 0);
                                                          de.rs only calls it with 0 + exponent_after_decimal_point <= 0 in this build
                                                          (witnesses: parse_decimal_overflow_needs_e_above_min, neg_exponent_as_usize_wraps). *)
From Coq Require Import String ZArith Lia ZifyBool ZifyNat ZifyN.
From SJ Require Import Base.Bytes Base.FloatB Gen.Tables Model.Read Model.Num Model.NumF32 Model.NumParseAst Model.NumFrAst Gen.NumFrTables
  Proofs.NumInt Proofs.NumParseSrc Proofs.LexF32Glue Proofs.NumFrSrc.
From Flocq Require Import Core BinarySingleNaN.
Local Open Scope string_scope.
Local Open Scope list_scope.
Local Open Scope Z_scope.

#[local] Arguments peek_or_null : simpl never.
#[local] Arguments peek : simpl never.
#[local] Arguments next : simpl never.
#[local] Arguments discard : simpl never.
#[local] Arguments advance : simpl never.
#[local] Arguments error : simpl never.
#[local] Arguments peek_error : simpl never.
#[local] Arguments is_digit : simpl never.
#[local] Arguments digit_val : simpl never.
#[local] Arguments xexec : simpl never.
#[local] Arguments xcall_fn : simpl never.
#[local] Arguments xexec_block : simpl never.
#[local] Arguments usize_of_nat : simpl never.
#[local] Arguments checked : simpl nomatch.
#[local] Arguments wrap : simpl never.
#[local] Arguments sat : simpl nomatch.
#[local] Arguments rne_decimal : simpl never.
#[local] Arguments rne_decimal32 : simpl never.
#[local] Arguments lexical_truncated : simpl never.
#[local] Arguments lexical_truncated32 : simpl never.
#[local] Arguments itoa : simpl never.
#[local] Arguments b64_of_b32 : simpl never.
#[local] Arguments b64_neg : simpl never.
#[local] Arguments b64_is_inf : simpl never.
#[local] Arguments firstn : simpl nomatch.
#[local] Arguments skipn : simpl nomatch.
#[local] Arguments repeat : simpl never.
#[local] Arguments Z.add : simpl nomatch.
#[local] Arguments Z.sub : simpl nomatch.
#[local] Arguments Z.mul : simpl nomatch.
#[local] Arguments Z.opp : simpl nomatch.
#[local] Arguments Z.leb : simpl nomatch.
#[local] Arguments Z.ltb : simpl nomatch.
#[local] Arguments Z.eqb : simpl nomatch.
#[local] Arguments Z.of_N : simpl nomatch.
#[local] Arguments Z.to_N : simpl nomatch.
#[local] Arguments Z.of_nat : simpl nomatch.
#[local] Arguments Z.to_nat : simpl nomatch.
#[local] Arguments in_range : simpl nomatch.
#[local] Arguments N.eqb : simpl nomatch.
#[local] Arguments N.leb : simpl nomatch.
#[local] Arguments N.ltb : simpl nomatch.
#[local] Arguments Num.parse_exponent_overflow : simpl never.
#[local] Arguments Num.f64_long_from_parts : simpl never.
#[local] Arguments f64_from_parts_s : simpl never.
#[local] Arguments f64_long_from_parts_s : simpl never.
#[local] Arguments parse_long_decimal_g : simpl never.
#[local] Arguments parse_long_exponent_g : simpl never.

(* itoa writes at most 40 bytes (u64: at most 20) *)
Lemma dec_digits_len : forall fuel n acc, (length (dec_digits_aux fuel n acc) <= fuel + length acc)%nat.
Proof.
  induction fuel as [|f IH]; intros n acc; [cbn; lia|].
  cbn [dec_digits_aux]. destruct (n <? 10)%N; [cbn [length]; lia|].
  specialize (IH (n / 10)%N ((48 + n mod 10)%N :: acc)). cbn [length] in IH. lia.
Qed.
Lemma itoa_len n : (length (itoa n) <= 40)%nat.
Proof. unfold itoa. pose proof (dec_digits_len 40 n []). cbn [length] in *. lia. Qed.

Definition isize_max : Z := 9223372036854775807.

Section S2.
Variable E : env.

Ltac xstep := unfold xexec_scope;
  first [rewrite xblk_nil
        | rewrite xblk_cons;
          first [rewrite xx_eat | rewrite xx_let | rewrite xx_assign | rewrite xx_if | rewrite xx_ifletsome | rewrite xx_match
                | rewrite xx_letmatch | rewrite xx_break | rewrite xx_clear | rewrite xx_push | rewrite xx_extend | rewrite xx_extendrepeat
                | rewrite xx_ret]]; unfold xselect; cbn.
Ltac xenter fn src := unfold xrun, xcall_fn; change (xfind_fn fn PF) with (Some src); cbn.

(* ---- 6. parse_long_integer, float_roundtrip twin ---- *)
Definition XLOOP_pli := XSLoop [
    XSMatch ScPeekOrNull [
      ((PByte (Some "c") (PRange 48 57)), [
        XSPush (XVar "c");
        XSEat]);
      ((PByte None (PLit 46)), [
        XSEat;
        XSRet (XRCall "parse_long_decimal" [(XVar "positive"); XScratchLen])]);
      ((PByte None (POr (PLit 101) (PLit 69))), [XSRet (XRCall "parse_long_exponent" [(XVar "positive"); XScratchLen])]);
      (PAny, [XSRet (XRCall "f64_long_from_parts" [(XVar "positive"); XScratchLen; (XInt I32 0)])])]].

Notation pli_locals positive sig := [[("positive", XV (VB positive)); ("partial_significand", sig)]].

(* the dispatch after the integer digits, on the buffer content [integer] *)
Definition pli_disp (sp positive : bool) (integer : bytes) (c : N) (s1 : st) : res (b64 * st) :=
  if (c =? 46)%N then parse_long_decimal_g (long_g sp) E positive integer [] (discard s1)
  else if (c =? 101)%N || (c =? 69)%N then parse_long_exponent_g (long_g sp) E positive integer [] s1
  else long_g sp E positive integer [] 0 s1.
(* ... and what the buffer holds afterwards *)
Definition pli_fin (integer : bytes) (c : N) (s1 : st) : bytes :=
  if (c =? 46)%N then integer ++ firstn (span_len is_digit (rest (discard s1))) (rest (discard s1)) else integer.

Lemma xloop_pli_st sp positive sig : forall r fuel o p d k,
  Z.of_nat (length k + length r) <= 18446744073709551615 -> (length r + 40 <= fuel)%nat ->
  xexec fuel E sp PF XLOOP_pli (pli_locals positive sig) (mkSt r o p d) k =
  let n := span_len is_digit r in
  let k' := k ++ firstn n r in
  let* (c, s1) := peek_or_null E (advance n (mkSt r o p d)) in
  let* (f, s') := pli_disp sp positive k' c s1 in Ok (XRetO (XV (VF f)) s' (pli_fin k' c s1)).
Proof.
  induction r as [|b r IH]; intros fuel o p d k Hlen Hf.
  - destruct fuel as [|[|[|[|f]]]]; [cbn in Hf; lia ..|]. unfold XLOOP_pli. rewrite xx_loop. xstep. unfold advance. cbn.
    rewrite Nat.add_0_r, !pon_nil. destruct (tm E); cbn; [|reflexivity]. xstep.
    rewrite usize_len by lia. cbn. rewrite app_nil_r.
    rewrite (call_flfp E sp positive k [] 0 _ k) by (rewrite ?app_nil_r; reflexivity || lia).
    unfold pli_disp, pli_fin, liftS. cbn.
    destruct (long_g sp E positive k [] 0 _) as [[f0 s']| | |]; reflexivity.
  - cbn [length span_len] in *.
    destruct fuel as [|[|[|[|f]]]]; [lia ..|]. unfold XLOOP_pli. rewrite xx_loop. xstep. rewrite pon_cons. cbn.
    change ((48 <=? b)%N && (b <=? 57)%N) with (is_digit b).
    destruct (is_digit b) eqn:Hd.
    + cbn. repeat xstep. fold XLOOP_pli. rewrite N2Z.id.
      unfold discard. cbn [rest off depth tl]. rewrite IH by (rewrite ?app_length; cbn [length]; lia). cbn zeta.
      unfold advance. cbn [rest off depth skipn].
      replace (S o + span_len is_digit r)%nat with (o + S (span_len is_digit r))%nat by lia.
      cbn [firstn]. rewrite <- app_assoc. reflexivity.
    + unfold advance. cbn. rewrite Nat.add_0_r, pon_cons. cbn. rewrite app_nil_r. unfold pli_disp, pli_fin.
      destruct (b =? 46)%N eqn:H46; [|destruct (b =? 101)%N eqn:H101; [|destruct (b =? 69)%N eqn:H69]]; cbn; repeat xstep.
      all: rewrite usize_len by lia; cbn.
      * rewrite (call_pld E sp positive k [] _ k) by (rewrite ?app_nil_r; unfold discard; cbn [rest tl length]; reflexivity || lia).
        unfold liftS. destruct (parse_long_decimal_g (long_g sp) E positive k [] _) as [[f0 s']| | |]; reflexivity.
      * rewrite (call_ple E sp positive k [] _ k) by (rewrite ?app_nil_r; cbn [rest length]; reflexivity || lia).
        unfold liftS. destruct (parse_long_exponent_g (long_g sp) E positive k [] _) as [[f0 s']| | |]; reflexivity.
      * rewrite (call_ple E sp positive k [] _ k) by (rewrite ?app_nil_r; cbn [rest length]; reflexivity || lia).
        unfold liftS. destruct (parse_long_exponent_g (long_g sp) E positive k [] _) as [[f0 s']| | |]; reflexivity.
      * rewrite (call_flfp E sp positive k [] 0 _ k) by (rewrite ?app_nil_r; reflexivity || lia).
        unfold liftS. destruct (long_g sp E positive k [] 0 _) as [[f0 s']| | |]; reflexivity.
Qed.

Theorem parse_long_integer_fr_src : forall sp positive sig s k fuel, (sig <= u64_max)%N ->
  Z.of_nat (length (rest s)) <= isize_max -> (length (rest s) + 44 <= fuel)%nat ->
  observe (xrun fuel E sp PF "parse_long_integer" [XV (VB positive); XV (VInt U64 (Z.of_N sig))] s k) =
  liftX (parse_long_integer_g (long_g sp) E positive sig s).
Proof.
  intros sp positive sig s k fuel Hsig Hlen Hf. unfold isize_max in Hlen. destruct fuel as [|[|fuel]]; [lia|lia|].
  xenter "parse_long_integer" NF_parse_long_integer. xstep. xstep. rewrite N2Z.id.
  rewrite xblk_cons. fold XLOOP_pli. destruct s as [r o p d]. cbn [rest] in *.
  pose proof (itoa_len sig) as Hil.
  rewrite (xloop_pli_st sp positive) by lia. cbn zeta.
  unfold parse_long_integer_g, liftX. cbn [rest].
  destruct (peek_or_null E (advance (span_len is_digit r) (mkSt r o p d))) as [[c s1]| | |]; cbn; try reflexivity.
  unfold pli_disp.
  destruct (c =? 46)%N; [|destruct ((c =? 101)%N || (c =? 69)%N)].
  - destruct (parse_long_decimal_g (long_g sp) E positive _ [] _) as [[f0 s']| | |]; reflexivity.
  - destruct (parse_long_exponent_g (long_g sp) E positive _ [] _) as [[f0 s']| | |]; reflexivity.
  - destruct (long_g sp E positive _ [] 0 _) as [[f0 s']| | |]; reflexivity.
Qed.

(* ---- 7. parse_decimal_overflow, float_roundtrip twin ---- *)
(* the buffer the source builds: leading-zero padding ++ itoa(significand)  (the model's `scratch`) *)
Definition pdo_scratch (sig : N) (e : Z) : bytes :=
  let sd := itoa sig in
  let fraction_digits := Z.to_nat (- e) in
  (if Nat.leb (S (length sd)) fraction_digits then repeat 48%N (S (fraction_digits - S (length sd))) else []) ++ sd.

Lemma pdo_scratch_len sig e : (Z.to_nat (- e) <= length (pdo_scratch sig e) <= Z.to_nat (- e) + 40)%nat.
Proof.
  unfold pdo_scratch. pose proof (itoa_len sig) as Hil. rewrite app_length.
  destruct (Nat.leb (S (length (itoa sig))) (Z.to_nat (- e))) eqn:Hc.
  - apply Nat.leb_le in Hc. rewrite repeat_length. lia.
  - apply Nat.leb_gt in Hc. cbn [length]. lia.
Qed.

#[local] Arguments pdo_scratch : simpl never.

Theorem parse_decimal_overflow_fr_src : forall sp positive sig e s k fuel, (sig <= u64_max)%N -> -2147483648 < e <= 0 ->
  Z.of_nat (length (rest s)) <= isize_max -> (length (rest s) + 34 <= fuel)%nat ->
  observe (xrun fuel E sp PF "parse_decimal_overflow" [XV (VB positive); XV (VInt U64 (Z.of_N sig)); XV (VInt I32 e)] s k) =
  liftX (parse_decimal_overflow_g (long_g sp) E positive sig e s).
Proof.
  intros sp positive sig e s k fuel Hsig He Hlen Hf. unfold isize_max in Hlen. destruct fuel as [|[|[|fuel]]]; [lia ..|].
  xenter "parse_decimal_overflow" NF_parse_decimal_overflow. xstep. xstep. rewrite N2Z.id. xstep.
  rewrite checked_ok by (apply in_range_i32; unfold i32_ok; lia). cbn.
  rewrite wrap_id by (unfold in_range, ity_lo, ity_hi; lia).
  xstep.
  pose proof (itoa_len sig) as Hil.
  pose proof (pdo_scratch_len sig e) as Hpl.
  (* the buffer after the two extends is pdo_scratch *)
  assert (Hbuf : forall (rest_ss : list xstmt),
    xexec_block (xexec (S (S (S fuel))) E sp PF)
      (XSIfLetSome "zeros" (XCheckedSub (XVar "fraction_digits") (XBin OAdd (XLen (XVar "significand")) (XInt Usize 1)))
         [XSExtendRepeat (XInt U8 48) (XBin OAdd (XVar "zeros") (XInt Usize 1))] [] ::
       XSExtend (XAsBytes (XVar "significand")) :: rest_ss)
      [[("fraction_digits", XV (VInt Usize (- e))); ("significand", XS (itoa sig)); ("buffer", XBuf);
        ("positive", XV (VB positive)); ("significand", XV (VInt U64 (Z.of_N sig))); ("exponent", XV (VInt I32 e))]] s [] =
    xexec_block (xexec (S (S (S fuel))) E sp PF) rest_ss
      [[("fraction_digits", XV (VInt Usize (- e))); ("significand", XS (itoa sig)); ("buffer", XBuf);
        ("positive", XV (VB positive)); ("significand", XV (VInt U64 (Z.of_N sig))); ("exponent", XV (VInt I32 e))]] s (pdo_scratch sig e)).
  { intros rest_ss. xstep. rewrite usize_len by lia. cbn.
    rewrite checked_ok by (unfold in_range, ity_lo, ity_hi; lia). cbn.
    destruct (Nat.leb (S (length (itoa sig))) (Z.to_nat (- e))) eqn:Hc; pose proof Hc as Hc'.
    - apply Nat.leb_le in Hc.
      replace (in_range Usize (- e - (Z.of_nat (length (itoa sig)) + 1))) with true by (unfold in_range, ity_lo, ity_hi; lia).
      xstep. rewrite checked_ok by (unfold in_range, ity_lo, ity_hi; lia). cbn. xstep. xstep.
      replace (Z.to_nat (- e - (Z.of_nat (length (itoa sig)) + 1) + 1)) with (S (Z.to_nat (- e) - S (length (itoa sig)))) by lia.
      unfold pdo_scratch. cbv zeta. rewrite Hc'. reflexivity.
    - apply Nat.leb_gt in Hc.
      replace (in_range Usize (- e - (Z.of_nat (length (itoa sig)) + 1))) with false by (unfold in_range, ity_lo, ity_hi; lia).
      xstep. xstep. unfold pdo_scratch. cbv zeta. rewrite Hc'. reflexivity. }
  rewrite Hbuf. clear Hbuf.
  set (K := pdo_scratch sig e) in *.
  xstep. rewrite usize_len by lia. cbn.
  rewrite checked_ok by (unfold in_range, ity_lo, ity_hi; lia). cbn. xstep.
  set (ie := (length K - Z.to_nat (- e))%nat).
  replace (Z.of_nat (length K) - - e) with (Z.of_nat (length (firstn ie K))) by (rewrite firstn_length_le by (unfold ie; lia); unfold ie; lia).
  rewrite (call_pld E sp positive (firstn ie K) (skipn ie K) s K) by (rewrite ?firstn_skipn; reflexivity || lia).
  unfold parse_decimal_overflow_g. fold (pdo_scratch sig e). fold K. fold ie.
  unfold liftS, liftX.
  destruct (parse_long_decimal_g (long_g sp) E positive (firstn ie K) (skipn ie K) s) as [[f0 s']| | |]; reflexivity.
Qed.

End S2.

(* ---- the generic parser of LexF32Glue, instantiated, IS the hand model ---- *)
Lemma long_false E positive i f e s : long_g false E positive i f e s = Num.f64_long_from_parts E positive i f e s.
Proof. reflexivity. Qed.
Lemma ple_false E positive i f s : parse_long_exponent_g (long_g false) E positive i f s = Num.parse_long_exponent E positive i f s.
Proof. reflexivity. Qed.
Lemma pld_false E positive i f s : parse_long_decimal_g (long_g false) E positive i f s = Num.parse_long_decimal E positive i f s.
Proof. reflexivity. Qed.
Lemma pdo_false E positive sig e s : float_roundtrip (cf E) = true ->
  parse_decimal_overflow_g (long_g false) E positive sig e s = Num.parse_decimal_overflow E positive sig e s.
Proof. intros H. unfold Num.parse_decimal_overflow. rewrite H. reflexivity. Qed.
Lemma pli_false E positive sig s : float_roundtrip (cf E) = true ->
  parse_long_integer_g (long_g false) E positive sig s = Num.parse_long_integer E positive sig s.
Proof. intros H. unfold parse_long_integer_g, Num.parse_long_integer. rewrite H. reflexivity. Qed.

Lemma short_true E positive sig e s : short_g true E positive sig e s = f64_from_parts_s E positive sig e s.
Proof. reflexivity. Qed.
Lemma long_true E positive i f e s : long_g true E positive i f e s = f64_long_from_parts_s E positive i f e s.
Proof. reflexivity. Qed.
Lemma ple_true E positive i f s : parse_long_exponent_g (long_g true) E positive i f s = parse_long_exponent_s E positive i f s.
Proof. reflexivity. Qed.
Lemma pld_true E positive i f s : parse_long_decimal_g (long_g true) E positive i f s = parse_long_decimal_s E positive i f s.
Proof. reflexivity. Qed.
Lemma pdo_true E positive sig e s : parse_decimal_overflow_g (long_g true) E positive sig e s = parse_decimal_overflow_s E positive sig e s.
Proof. reflexivity. Qed.
Lemma pli_true E positive sig s : parse_long_integer_g (long_g true) E positive sig s = parse_long_integer_s E positive sig s.
Proof. reflexivity. Qed.

(* ---- the exported statements ---- *)
(* single_precision = false: the `float_roundtrip (cf E) = true` branches of Model/Num.v *)
Theorem numfr_model_is_translated_source : forall (E : env), float_roundtrip (cf E) = true ->
  forall (positive : bool) (s : st) (fuel : nat),
  (forall zs pe k, (length (rest s) + 4 <= fuel)%nat ->
     xrun fuel E false NUMFR "parse_exponent_overflow" [XV (VB positive); XV (VB zs); XV (VB pe)] s k =
     liftS k (Num.parse_exponent_overflow E positive zs pe s)) /\
  (forall sig e k, (sig <= u64_max)%N -> (3 <= fuel)%nat ->
     xrun fuel E false NUMFR "f64_from_parts" [XV (VB positive); XV (VInt U64 (Z.of_N sig)); XV (VInt I32 e)] s k =
     liftS k (Num.f64_from_parts E positive sig e s)) /\
  (forall integer fraction e, (3 <= fuel)%nat ->
     xrun fuel E false NUMFR "f64_long_from_parts" [XV (VB positive); XV (VInt Usize (Z.of_nat (length integer))); XV (VInt I32 e)] s
       (integer ++ fraction) =
     liftS (integer ++ fraction) (Num.f64_long_from_parts E positive integer fraction e s)) /\
  (forall integer fraction, (length (rest s) + 16 <= fuel)%nat ->
     xrun fuel E false NUMFR "parse_long_exponent" [XV (VB positive); XV (VInt Usize (Z.of_nat (length integer)))] s (integer ++ fraction) =
     liftS (integer ++ fraction) (Num.parse_long_exponent E positive integer fraction s)) /\
  (forall integer fraction0, Z.of_nat (length integer + length fraction0 + length (rest s)) <= 18446744073709551615 ->
     (length (rest s) + 30 <= fuel)%nat ->
     xrun fuel E false NUMFR "parse_long_decimal" [XV (VB positive); XV (VInt Usize (Z.of_nat (length integer)))] s (integer ++ fraction0) =
     liftS ((integer ++ fraction0) ++ firstn (span_len is_digit (rest s)) (rest s)) (Num.parse_long_decimal E positive integer fraction0 s)) /\
  (forall sig k, (sig <= u64_max)%N -> Z.of_nat (length (rest s)) <= isize_max -> (length (rest s) + 44 <= fuel)%nat ->
     observe (xrun fuel E false NUMFR "parse_long_integer" [XV (VB positive); XV (VInt U64 (Z.of_N sig))] s k) =
     liftX (Num.parse_long_integer E positive sig s)) /\
  (forall sig e k, (sig <= u64_max)%N -> -2147483648 < e <= 0 -> Z.of_nat (length (rest s)) <= isize_max ->
     (length (rest s) + 34 <= fuel)%nat ->
     observe (xrun fuel E false NUMFR "parse_decimal_overflow" [XV (VB positive); XV (VInt U64 (Z.of_N sig)); XV (VInt I32 e)] s k) =
     liftX (Num.parse_decimal_overflow E positive sig e s)).
Proof.
  intros E Hfr positive s fuel.
  split; [intros zs pe k Hf; apply parse_exponent_overflow_fr_src; exact Hf|].
  split; [intros sig e k Hsig Hf; rewrite <- short_g_false by exact Hfr; apply f64_from_parts_fr_src; assumption|].
  split; [intros integer fraction e Hf; rewrite <- long_false; apply f64_long_from_parts_src; exact Hf|].
  split; [intros integer fraction Hf; rewrite <- ple_false; apply parse_long_exponent_src; exact Hf|].
  split; [intros integer fraction0 Hlen Hf; rewrite <- pld_false; apply parse_long_decimal_src; assumption|].
  split; [intros sig k Hsig Hlen Hf; rewrite <- pli_false by exact Hfr; apply parse_long_integer_fr_src; assumption|].
  intros sig e k Hsig He Hlen Hf; rewrite <- pdo_false by exact Hfr; apply parse_decimal_overflow_fr_src; assumption.
Qed.

(* single_precision = true (do_deserialize_f32): Model/NumF32.v *)
Theorem numfr_f32_model_is_translated_source : forall (E : env) (positive : bool) (s : st) (fuel : nat),
  (forall zs pe k, (length (rest s) + 4 <= fuel)%nat ->
     xrun fuel E true NUMFR "parse_exponent_overflow" [XV (VB positive); XV (VB zs); XV (VB pe)] s k =
     liftS k (Num.parse_exponent_overflow E positive zs pe s)) /\
  (forall sig e k, (sig <= u64_max)%N -> (3 <= fuel)%nat ->
     xrun fuel E true NUMFR "f64_from_parts" [XV (VB positive); XV (VInt U64 (Z.of_N sig)); XV (VInt I32 e)] s k =
     liftS k (f64_from_parts_s E positive sig e s)) /\
  (forall integer fraction e, (3 <= fuel)%nat ->
     xrun fuel E true NUMFR "f64_long_from_parts" [XV (VB positive); XV (VInt Usize (Z.of_nat (length integer))); XV (VInt I32 e)] s
       (integer ++ fraction) =
     liftS (integer ++ fraction) (f64_long_from_parts_s E positive integer fraction e s)) /\
  (forall integer fraction, (length (rest s) + 16 <= fuel)%nat ->
     xrun fuel E true NUMFR "parse_long_exponent" [XV (VB positive); XV (VInt Usize (Z.of_nat (length integer)))] s (integer ++ fraction) =
     liftS (integer ++ fraction) (parse_long_exponent_s E positive integer fraction s)) /\
  (forall integer fraction0, Z.of_nat (length integer + length fraction0 + length (rest s)) <= 18446744073709551615 ->
     (length (rest s) + 30 <= fuel)%nat ->
     xrun fuel E true NUMFR "parse_long_decimal" [XV (VB positive); XV (VInt Usize (Z.of_nat (length integer)))] s (integer ++ fraction0) =
     liftS ((integer ++ fraction0) ++ firstn (span_len is_digit (rest s)) (rest s)) (parse_long_decimal_s E positive integer fraction0 s)) /\
  (forall sig k, (sig <= u64_max)%N -> Z.of_nat (length (rest s)) <= isize_max -> (length (rest s) + 44 <= fuel)%nat ->
     observe (xrun fuel E true NUMFR "parse_long_integer" [XV (VB positive); XV (VInt U64 (Z.of_N sig))] s k) =
     liftX (parse_long_integer_s E positive sig s)) /\
  (forall sig e k, (sig <= u64_max)%N -> -2147483648 < e <= 0 -> Z.of_nat (length (rest s)) <= isize_max ->
     (length (rest s) + 34 <= fuel)%nat ->
     observe (xrun fuel E true NUMFR "parse_decimal_overflow" [XV (VB positive); XV (VInt U64 (Z.of_N sig)); XV (VInt I32 e)] s k) =
     liftX (parse_decimal_overflow_s E positive sig e s)).
Proof.
  intros E positive s fuel.
  split; [intros zs pe k Hf; apply parse_exponent_overflow_fr_src; exact Hf|].
  split; [intros sig e k Hsig Hf; rewrite <- short_true; apply f64_from_parts_fr_src; assumption|].
  split; [intros integer fraction e Hf; rewrite <- long_true; apply f64_long_from_parts_src; exact Hf|].
  split; [intros integer fraction Hf; rewrite <- ple_true; apply parse_long_exponent_src; exact Hf|].
  split; [intros integer fraction0 Hlen Hf; rewrite <- pld_true; apply parse_long_decimal_src; assumption|].
  split; [intros sig k Hsig Hlen Hf; rewrite <- pli_true; apply parse_long_integer_fr_src; assumption|].
  intros sig e k Hsig He Hlen Hf; rewrite <- pdo_true; apply parse_decimal_overflow_fr_src; assumption.
Qed.

(* ---- scratch independence: what the caller observes of the functions that the short paths call (parse_integer -> parse_long_integer,
   parse_decimal -> parse_decimal_overflow, parse_exponent / parse_decimal -> f64_from_parts) does not depend on what `self.scratch` held on
   entry — in particular not on what a previous string or number left there.  No hypothesis on the build (cf E) or on single_precision.
   This is the invariant under which the buffer-free hand models are right; the three functions that take `integer_end` are NOT independent
   (they read the digits from the buffer: scratch_is_an_input_of_the_callees below). *)
Theorem numfr_scratch_independent : forall (E : env) (sp positive : bool) (s : st) (fuel : nat) (k1 k2 : bytes),
  (forall sig, (sig <= u64_max)%N -> Z.of_nat (length (rest s)) <= isize_max -> (length (rest s) + 44 <= fuel)%nat ->
     observe (xrun fuel E sp NUMFR "parse_long_integer" [XV (VB positive); XV (VInt U64 (Z.of_N sig))] s k1) =
     observe (xrun fuel E sp NUMFR "parse_long_integer" [XV (VB positive); XV (VInt U64 (Z.of_N sig))] s k2)) /\
  (forall sig e, (sig <= u64_max)%N -> -2147483648 < e <= 0 -> Z.of_nat (length (rest s)) <= isize_max ->
     (length (rest s) + 34 <= fuel)%nat ->
     observe (xrun fuel E sp NUMFR "parse_decimal_overflow" [XV (VB positive); XV (VInt U64 (Z.of_N sig)); XV (VInt I32 e)] s k1) =
     observe (xrun fuel E sp NUMFR "parse_decimal_overflow" [XV (VB positive); XV (VInt U64 (Z.of_N sig)); XV (VInt I32 e)] s k2)) /\
  (forall sig e, (sig <= u64_max)%N -> (3 <= fuel)%nat ->
     observe (xrun fuel E sp NUMFR "f64_from_parts" [XV (VB positive); XV (VInt U64 (Z.of_N sig)); XV (VInt I32 e)] s k1) =
     observe (xrun fuel E sp NUMFR "f64_from_parts" [XV (VB positive); XV (VInt U64 (Z.of_N sig)); XV (VInt I32 e)] s k2)) /\
  (forall zs pe, (length (rest s) + 4 <= fuel)%nat ->
     observe (xrun fuel E sp NUMFR "parse_exponent_overflow" [XV (VB positive); XV (VB zs); XV (VB pe)] s k1) =
     observe (xrun fuel E sp NUMFR "parse_exponent_overflow" [XV (VB positive); XV (VB zs); XV (VB pe)] s k2)).
Proof.
  intros E sp positive s fuel k1 k2.
  split; [intros sig Hsig Hlen Hf; rewrite !parse_long_integer_fr_src by assumption; reflexivity|].
  split; [intros sig e Hsig He Hlen Hf; rewrite !parse_decimal_overflow_fr_src by assumption; reflexivity|].
  split; [intros sig e Hsig Hf; rewrite !f64_from_parts_fr_src by assumption; rewrite !observe_liftS; reflexivity|].
  intros zs pe Hf; rewrite !parse_exponent_overflow_fr_src by assumption; rewrite !observe_liftS; reflexivity.
Qed.

(* ---- not vacuous: the interpreted source on concrete inputs ---- *)
Definition E_fr : env := mkEnv RSlice TEof (mkCfg false true false false).
(* floats are compared through their IEEE bit patterns (a [b64] carries a proof term) *)
Definition xbits (r : res (xval * st)) : res (N * st) :=
  match r with
  | Ok (XV (VF f), s) => Ok (bits_of_b64 f, s)
  | Ok _ => Panic | Err c i => Err c i | OutOfFuel => OutOfFuel | Panic => Panic
  end.
(* 18446744073709551619.5e-3 : parse_integer stops at 1844674407370955161 with "99.5e-3," ahead; the buffer holds rubbish on entry *)
Example parse_long_integer_runs :
  xbits (observe (xrun 60 E_fr false NUMFR "parse_long_integer" [XV (VB true); XV (VInt U64 1844674407370955161)]
                   (init_st [57; 57; 46; 53; 101; 45; 51; 44]%N) [1; 2; 3]%N))
  = Ok (4865148605455799419%N, mkSt [44%N] 7 true Gen.Tables.DEPTH0) /\
  xbits (liftX (Num.parse_long_integer E_fr true 1844674407370955161 (init_st [57; 57; 46; 53; 101; 45; 51; 44]%N)))
  = Ok (4865148605455799419%N, mkSt [44%N] 7 true Gen.Tables.DEPTH0) /\
  (* the same with single_precision: a different f64 *)
  xbits (observe (xrun 60 E_fr true NUMFR "parse_long_integer" [XV (VB true); XV (VInt U64 1844674407370955161)]
                   (init_st [57; 57; 46; 53; 101; 45; 51; 44]%N) [1; 2; 3]%N))
  = Ok (4865148605326950400%N, mkSt [44%N] 7 true Gen.Tables.DEPTH0).
Proof. repeat split; vm_compute; reflexivity. Qed.
(* the final buffer: every digit of the literal's significand *)
Example parse_long_integer_buffer :
  match xrun 60 E_fr false NUMFR "parse_long_integer" [XV (VB true); XV (VInt U64 1844674407370955161)]
          (init_st [57; 57; 46; 53; 101; 45; 51; 44]%N) [1; 2; 3]%N with
  | Ok (_, _, k) => k = [49; 56; 52; 52; 54; 55; 52; 52; 48; 55; 51; 55; 48; 57; 53; 53; 49; 54; 49; 57; 57; 53]%N
  | _ => False
  end.
Proof. vm_compute. reflexivity. Qed.
(* 0.00000018446744073709551615|99e-3 : leading-zero padding (exponent -26, 20 digits: 6 zeros), integer_end = 0 *)
Example parse_decimal_overflow_runs :
  xbits (observe (xrun 60 E_fr false NUMFR "parse_decimal_overflow" [XV (VB false); XV (VInt U64 18446744073709551615); XV (VInt I32 (-26))]
                   (init_st [57; 57; 101; 45; 51; 44]%N) [7; 7]%N))
  = xbits (liftX (Num.parse_decimal_overflow E_fr false 18446744073709551615 (-26) (init_st [57; 57; 101; 45; 51; 44]%N))) /\
  match xrun 60 E_fr false NUMFR "parse_decimal_overflow" [XV (VB false); XV (VInt U64 18446744073709551615); XV (VInt I32 (-26))]
          (init_st [57; 57; 101; 45; 51; 44]%N) [7; 7]%N with
  | Ok (XV (VF _), s', k) => k = ([48; 48; 48; 48; 48; 48] ++ itoa 18446744073709551615 ++ [57; 57])%N /\ off s' = 5%nat
  | _ => False
  end.
Proof. split; vm_compute; [reflexivity|split; reflexivity]. Qed.
(* the functions that take `integer_end` read their digits from the buffer: "1|" vs "2|" followed by the input "5," : 1.5 vs 2.5 *)
Example scratch_is_an_input_of_the_callees :
  xbits (observe (xrun 40 E_fr false NUMFR "parse_long_decimal" [XV (VB true); XV (VInt Usize 1)] (init_st [53; 44]%N) [49]%N))
  = Ok (4609434218613702656%N, mkSt [44%N] 1 true Gen.Tables.DEPTH0) /\
  xbits (observe (xrun 40 E_fr false NUMFR "parse_long_decimal" [XV (VB true); XV (VInt Usize 1)] (init_st [53; 44]%N) [50]%N))
  = Ok (4612811918334230528%N, mkSt [44%N] 1 true Gen.Tables.DEPTH0) /\
  (* an `integer_end` beyond the buffer is a slice-index panic *)
  xrun 40 E_fr false NUMFR "f64_long_from_parts" [XV (VB true); XV (VInt Usize 2); XV (VInt I32 0)] (init_st [44]%N) [49]%N = Panic.
Proof. repeat split; vm_compute; reflexivity. Qed.
(* why parse_decimal_overflow needs [-2147483648 < e]: `-exponent` is a checked i32 negation *)
Example parse_decimal_overflow_needs_e_above_min :
  xrun 40 E_fr false NUMFR "parse_decimal_overflow" [XV (VB true); XV (VInt U64 5); XV (VInt I32 (-2147483648))] (init_st [44]%N) [] = Panic.
Proof. vm_compute. reflexivity. Qed.
(* ... and [e <= 0]: `-exponent as usize` wraps for a positive exponent (the source would try to push 2^64 - 4 zeros), the model has 0 *)
Example neg_exponent_as_usize_wraps :
  xeval false [] (XCast (XNeg (XVar "exponent")) (TInt Usize)) [[("exponent", XV (VInt I32 1))]] = Ok (XV (VInt Usize 18446744073709551615)) /\
  Z.to_nat (- 1) = 0%nat.
Proof. split; vm_compute; reflexivity. Qed.
Example parse_long_integer_out_of_fuel :
  xrun 5 E_fr false NUMFR "parse_long_integer" [XV (VB true); XV (VInt U64 1844674407370955161)] (init_st [57; 57; 44]%N) [] = OutOfFuel.
Proof. vm_compute. reflexivity. Qed.

Print Assumptions parse_long_integer_fr_src.
Print Assumptions parse_decimal_overflow_fr_src.
Print Assumptions numfr_model_is_translated_source.
Print Assumptions numfr_f32_model_is_translated_source.
Print Assumptions numfr_scratch_independent.
