(* Proofs/StreamTypedProps.v — typed counterpart of property C12: StreamDeserializer::next / byte_offset over TYPED
   items (Model/StreamTyped.v: [stream_next_typed], [stream_run_typed]; item parser [de_typed] of Model/DeTyped.v).

   Part 0  concrete streams (vm_compute) that the statements below were tested against
   Part 1  stream_typed_end, stream_typed_none_forever
   Part 2  stream_typed_item_fail (general), stream_typed_item_error (TErr), stream_typed_item_error_unpos (TUnpos):
           both fusing mechanisms of set_failed
   Part 3  stream_typed_item_ok, stream_typed_scalar_needs_delim
   Part 4  the recursion budget is an invariant of next(): stream_typed_depth_any, stream_typed_depth, stream_run_typed_depth
   Part 5  totality: stream_typed_total is FALSE as an unconditional statement (counterexample: budget 0);
           stream_typed_bad_only_panic (unconditional: only a Panic of the item parser),
           stream_typed_total_partial (budget a u8 in 1..255, or limit disabled), stream_typed_total_run (whole histories),
           stream_typed_total_init (from stream_init: unconditional)
   Part 6  histories: item_accepts, stream_typed_history (+ _from), with instances and a concrete corollary

   All theorems hold for every type program [t]; the reader kind and the cfg are arbitrary, the reader ends with
   end-of-input (tm E = TEof) where stated.  Offsets are [nat]; N_scope is open, nat arithmetic is written with %nat. *)
From SJ Require Import Base.Bytes Base.FloatB Gen.Tables Model.Read Model.Str Model.Num Model.Value Model.De Model.Ignore
  Model.Stream Model.Ty Model.DeTyped Model.StreamTyped Spec.Syntax.
From SJ Require Import Proofs.Total Proofs.StreamProps Proofs.TypedTotal.
From Coq Require Import Lia ZifyBool ZifyNat ZifyN.
Open Scope N_scope.

(* ------------------------------------------------------------------------------------------ *)
(** * Part 0: concrete streams *)

Definition cfT : cfg := mkCfg false false false false.
Definition E_slT : env := mkEnv RSlice TEof cfT.
Definition E_ioT : env := mkEnv RIo TEof cfT.
Definition ty_vec_u8 : ty := TSeq (TInt U8).
Definition ty_enumA : ty := TEnum [([65], VNewtype (TInt U8))].        (* enum T { A(u8) } *)

(*  [1] [2,3]  as Vec<u8>: two values, byte_offset 3 and 9, then None *)
Example ex_vec_stream : forall E, E = E_slT \/ E = E_ioT ->
  stream_run_typed 4 E ty_vec_u8 (stream_init [91; 49; 93; 32; 91; 50; 44; 51; 93])
  = [(Some (TIVal (DSeq [DInt 1])), 3%nat); (Some (TIVal (DSeq [DInt 2; DInt 3])), 9%nat); (None, 9%nat); (None, 9%nat)].
Proof. intros E [-> | ->]; vm_compute; reflexivity. Qed.

(*  {"A":1} {"A":2}\n  as the enum: offsets 7, 15; the final None moves byte_offset past the newline *)
Example ex_enum_stream : forall E, E = E_slT \/ E = E_ioT ->
  stream_run_typed 4 E ty_enumA
    (stream_init [123; 34; 65; 34; 58; 49; 125; 32; 123; 34; 65; 34; 58; 50; 125; 10])
  = [(Some (TIVal (DVariant [65] (DInt 1))), 7%nat); (Some (TIVal (DVariant [65] (DInt 2))), 15%nat);
     (None, 16%nat); (None, 16%nat)].
Proof. intros E [-> | ->]; vm_compute; reflexivity. Qed.

(*  [1] [x [1]  : the second item fails (positioned error); reported once with byte_offset at its first byte, then None *)
Example ex_failing_item : forall E, E = E_slT \/ E = E_ioT ->
  stream_run_typed 4 E ty_vec_u8 (stream_init [91; 49; 93; 32; 91; 120; 32; 91; 49; 93])
  = [(Some (TIVal (DSeq [DInt 1])), 3%nat); (Some (TIErr ExpectedSomeValue 6), 4%nat); (None, 4%nat); (None, 4%nat)].
Proof. intros E [-> | ->]; vm_compute; reflexivity. Qed.

(*  {"A":1} "A" {"A":2}  : `"A"` for a newtype variant is a data error that never receives a position (TIUnpos) *)
Example ex_unpos_item : forall E, E = E_slT \/ E = E_ioT ->
  stream_run_typed 4 E ty_enumA
    (stream_init [123; 34; 65; 34; 58; 49; 125; 32; 34; 65; 34; 32; 123; 34; 65; 34; 58; 50; 125; 10])
  = [(Some (TIVal (DVariant [65] (DInt 1))), 7%nat); (Some (TIUnpos MInvalidType), 8%nat); (None, 8%nat); (None, 8%nat)].
Proof. intros E [-> | ->]; vm_compute; reflexivity. Qed.

(*  1 2x 3  as u8: the bare scalar 2 is followed by a non-delimiter: TrailingCharacters, byte_offset just past the 2,
    and the stream is NOT fused on this path (the next call reports the x) *)
Example ex_scalar_no_delim :
  stream_run_typed 4 E_ioT (TInt U8) (stream_init [49; 32; 50; 120; 32; 51])
  = [(Some (TIVal (DInt 1)), 1%nat); (Some (TIErr TrailingCharacters 4), 3%nat);
     (Some (TIErr ExpectedSomeValue 4), 3%nat); (None, 3%nat)].
Proof. vm_compute. reflexivity. Qed.

(*  1 300 3  as u8: a positioned data error (invalid_value through fix_position) fuses the stream as well *)
Example ex_data_error :
  stream_run_typed 4 E_ioT (TInt U8) (stream_init [49; 32; 51; 48; 48; 32; 51])
  = [(Some (TIVal (DInt 1)), 1%nat); (Some (TIErr (Message MInvalidValue) 6), 2%nat); (None, 2%nat); (None, 2%nat)].
Proof. vm_compute. reflexivity. Qed.

(* ------------------------------------------------------------------------------------------ *)
(** * Histories of the typed iterator: the quiet states of StreamProps.v *)

Lemma stream_run_typed_S : forall n E t ss it ss',
  stream_next_typed E t ss = (it, ss') ->
  stream_run_typed (S n) E t ss = (it, ss_off ss') :: stream_run_typed n E t ss'.
Proof. intros n E t ss it ss' H. cbn [stream_run_typed]. rewrite H. reflexivity. Qed.

(* [quiet E ss] (StreamProps.v) does not mention the item parser: io flag set, or nothing left and offset = cursor *)
Lemma tquiet_step : forall E t ss, quiet E ss ->
  exists ss2, stream_next_typed E t ss = (None, ss2) /\ ss_off ss2 = ss_off ss /\ quiet E ss2.
Proof.
  intros E t ss [Hf | (Htm & Hr & Hoff)].
  - exists ss. unfold stream_next_typed. rewrite Hf. split; [reflexivity|]. split; [reflexivity|]. left; exact Hf.
  - unfold stream_next_typed. destruct (is_io E && ss_failed ss) eqn:Hf.
    + exists ss. split; [reflexivity|]. split; [reflexivity|]. left; exact Hf.
    + rewrite (pws_none E (ss_st ss) Htm) by (rewrite Hr; reflexivity).
      rewrite Hr. cbn [length].
      eexists. split; [reflexivity|]. cbn [ss_off ss_st rest off ss_failed]. split; [lia|].
      right. split; [exact Htm|]. split; reflexivity.
Qed.

Lemma tquiet_run : forall E t n ss, quiet E ss ->
  stream_run_typed n E t ss = repeat (None, ss_off ss) n.
Proof.
  intros E t n. induction n as [|n IHn]; intros ss Hq; [reflexivity|].
  destruct (tquiet_step E t ss Hq) as (ss2 & Hnext & Hoff & Hq2).
  rewrite (stream_run_typed_S n E t ss None ss2 Hnext), (IHn ss2 Hq2), Hoff. reflexivity.
Qed.

(* every None leaves a quiet state (whatever the reader's end behaviour is) *)
Lemma tnext_none_quiet : forall E t ss ss',
  stream_next_typed E t ss = (None, ss') -> quiet E ss'.
Proof.
  intros E t ss ss' H. unfold stream_next_typed in H.
  destruct (is_io E && ss_failed ss) eqn:Hf.
  - injection H as <-. left; exact Hf.
  - unfold parse_whitespace, peek in H.
    set (s0 := advance (span_len is_ws (rest (ss_st ss))) (ss_st ss)) in H.
    destruct (rest s0) as [|b r].
    + unfold at_end in H. destruct (tm E) eqn:Htm.
      * injection H as <-. right. cbn [ss_st ss_off rest off]. repeat split; first [exact Htm | reflexivity].
      * cbn [res_titem] in H. discriminate H.
    + destruct (de_typed _ E t _) as [[v s2]|c i|k s'| |].
      * destruct ((b =? 91) || (b =? 34) || (b =? 123))%bool; [discriminate H|].
        destruct (peek_end_of_value E s2) as [s3|c i| |]; try discriminate H. destruct c; discriminate H.
      * discriminate H.
      * discriminate H.
      * discriminate H.
      * discriminate H.
Qed.

(* ------------------------------------------------------------------------------------------ *)
(** * Part 1: end of stream *)

Theorem stream_typed_end : forall E t ss,
  tm E = TEof -> (is_io E && ss_failed ss = false) ->
  ws_ok (rest (ss_st ss)) = true ->
  exists ss', stream_next_typed E t ss = (None, ss')
    /\ ss_off ss' = (off (ss_st ss) + length (rest (ss_st ss)))%nat
    /\ rest (ss_st ss') = [].
Proof.
  intros E t ss Htm Hf Hw. unfold stream_next_typed. rewrite Hf, (pws_none E (ss_st ss) Htm Hw).
  eexists. split; [reflexivity|]. split; reflexivity.
Qed.

(* valid for any reader end behaviour *)
Theorem stream_typed_none_forever : forall E t ss ss',
  stream_next_typed E t ss = (None, ss') ->
  forall n, stream_run_typed n E t ss' = repeat (None, ss_off ss') n.
Proof.
  intros E t ss ss' H n. apply tquiet_run. exact (tnext_none_quiet E t ss ss' H).
Qed.

(* ------------------------------------------------------------------------------------------ *)
(** * Part 2: a failing item is reported once, at the first byte of the value; then None forever *)

(* the item parser call made by next() on a cursor state *)
Definition typed_item (E : env) (t : ty) (s : st) : tres (dval * st) := de_typed (typed_fuel t (rest s)) E t s.

(* general form: any non-TOk outcome [r] of the item parser (TErr, TUnpos, and also TFuel/TPanic as TIBad) *)
Lemma stream_typed_item_fail : forall E t ss w rst (r : tres (dval * st)),
  tm E = TEof -> (is_io E && ss_failed ss = false) ->
  rest (ss_st ss) = w ++ rst -> ws_ok w = true ->
  (match rst with b :: _ => ws_byte b = false | [] => False end) ->
  typed_item E t (mkSt rst (off (ss_st ss) + length w)%nat true (depth (ss_st ss))) = r ->
  (forall x, r <> TOk x) ->
  exists ss', stream_next_typed E t ss = (Some (tres_item r), ss')
    /\ ss_off ss' = (off (ss_st ss) + length w)%nat
    /\ forall n, stream_run_typed n E t ss' = repeat (None, (off (ss_st ss) + length w)%nat) n.
Proof.
  intros E t ss w rst r Htm Hf Hrest Hw Hb Hitem Hnok.
  destruct rst as [|b rs]; [contradiction|].
  unfold typed_item in Hitem. cbn [rest] in Hitem.
  unfold stream_next_typed. rewrite Hf, (pws_some E (ss_st ss) w b rs Hrest Hw Hb).
  cbv zeta. cbn [rest]. rewrite Hitem.
  set (s1 := mkSt (b :: rs) (off (ss_st ss) + length w)%nat true (depth (ss_st ss))).
  change (off s1) with (off (ss_st ss) + length w)%nat.
  set (ss1 := mkSS s1 (off (ss_st ss) + length w)%nat (ss_failed ss)).
  exists (set_failed E ss1).
  assert (Hq : quiet E (set_failed E ss1)) by (apply set_failed_quiet; [exact Htm|reflexivity]).
  assert (Ho : ss_off (set_failed E ss1) = (off (ss_st ss) + length w)%nat) by (rewrite set_failed_off; reflexivity).
  split; [|split].
  - destruct r as [[v s2]|c i|k s'| |]; try reflexivity. exfalso. exact (Hnok (v, s2) eq_refl).
  - exact Ho.
  - intros n. rewrite (tquiet_run E t n _ Hq), Ho. reflexivity.
Qed.

(* a positioned error *)
Theorem stream_typed_item_error : forall E t ss w rst c i,
  tm E = TEof -> (is_io E && ss_failed ss = false) ->
  rest (ss_st ss) = w ++ rst -> ws_ok w = true ->
  (match rst with b :: _ => ws_byte b = false | [] => False end) ->
  (* the state after parse_whitespace: cursor on the first byte of the value, that byte peeked *)
  de_typed (typed_fuel t rst) E t (mkSt rst (off (ss_st ss) + length w)%nat true (depth (ss_st ss))) = TErr c i ->
  exists ss', stream_next_typed E t ss = (Some (TIErr c i), ss')
    /\ ss_off ss' = (off (ss_st ss) + length w)%nat
    /\ forall n, Forall (fun o => fst o = None /\ snd o = (off (ss_st ss) + length w)%nat) (stream_run_typed n E t ss').
Proof.
  intros E t ss w rst c i Htm Hf Hrest Hw Hb Hitem.
  destruct (stream_typed_item_fail E t ss w rst (TErr c i) Htm Hf Hrest Hw Hb Hitem) as (ss' & Hn & Ho & Hrun).
  { intros x Hx. discriminate Hx. }
  exists ss'. split; [exact Hn|]. split; [exact Ho|].
  intros n. rewrite Hrun. apply Forall_repeat. split; reflexivity.
Qed.

(* a data error that never received a position (line 0, column 0) *)
Theorem stream_typed_item_error_unpos : forall E t ss w rst k s',
  tm E = TEof -> (is_io E && ss_failed ss = false) ->
  rest (ss_st ss) = w ++ rst -> ws_ok w = true ->
  (match rst with b :: _ => ws_byte b = false | [] => False end) ->
  de_typed (typed_fuel t rst) E t (mkSt rst (off (ss_st ss) + length w)%nat true (depth (ss_st ss))) = TUnpos k s' ->
  exists ss', stream_next_typed E t ss = (Some (TIUnpos k), ss')
    /\ ss_off ss' = (off (ss_st ss) + length w)%nat
    /\ forall n, Forall (fun o => fst o = None /\ snd o = (off (ss_st ss) + length w)%nat) (stream_run_typed n E t ss').
Proof.
  intros E t ss w rst k s' Htm Hf Hrest Hw Hb Hitem.
  destruct (stream_typed_item_fail E t ss w rst (TUnpos k s') Htm Hf Hrest Hw Hb Hitem) as (ss' & Hn & Ho & Hrun).
  { intros x Hx. discriminate Hx. }
  exists ss'. split; [exact Hn|]. split; [exact Ho|].
  intros n. rewrite Hrun. apply Forall_repeat. split; reflexivity.
Qed.

(* ------------------------------------------------------------------------------------------ *)
(** * Part 3: a successful item *)

Theorem stream_typed_item_ok : forall E t ss w b r v s2,
  tm E = TEof -> (is_io E && ss_failed ss = false) ->
  rest (ss_st ss) = w ++ b :: r -> ws_ok w = true -> ws_byte b = false ->
  de_typed (typed_fuel t (b :: r)) E t (mkSt (b :: r) (off (ss_st ss) + length w)%nat true (depth (ss_st ss))) = TOk (v, s2) ->
  (self_del b = true \/ rest s2 = [] \/ (exists b' r', rest s2 = b' :: r' /\ is_delim b' = true)) ->
  exists ss', stream_next_typed E t ss = (Some (TIVal v), ss')
    /\ ss_off ss' = off s2 /\ rest (ss_st ss') = rest s2 /\ depth (ss_st ss') = depth s2
    /\ ss_failed ss' = ss_failed ss /\ off (ss_st ss') = off s2.
Proof.
  intros E t ss w b r v s2 Htm Hf Hrest Hw Hb Hitem Hsep.
  unfold stream_next_typed. rewrite Hf, (pws_some E (ss_st ss) w b r Hrest Hw Hb).
  cbv zeta. cbn [rest]. rewrite Hitem.
  fold (self_del b). destruct (self_del b) eqn:Hsd.
  - eexists. split; [reflexivity|]. cbn [ss_off ss_st ss_failed]. repeat split; reflexivity.
  - destruct Hsep as [Hsd' | [Hnil | (b' & r' & Hr2 & Hd)]].
    + discriminate Hsd'.
    + rewrite (pev_ok_nil E s2 Htm Hnil). eexists. split; [reflexivity|].
      cbn [ss_off ss_st ss_failed rest depth off]. rewrite Hnil. repeat split; reflexivity.
    + rewrite (pev_ok_delim E s2 b' r' Hr2 Hd). eexists. split; [reflexivity|].
      cbn [ss_off ss_st ss_failed rest depth off]. repeat split; reflexivity.
Qed.

(* A bare scalar directly followed by a non-delimiter: TrailingCharacters, positioned on that byte; byte_offset() is
   just past the scalar; set_failed is NOT called on this path (src/de.rs, StreamDeserializer::next). *)
Theorem stream_typed_scalar_needs_delim : forall E t ss w b r v s2 b' r',
  tm E = TEof -> (is_io E && ss_failed ss = false) ->
  rest (ss_st ss) = w ++ b :: r -> ws_ok w = true -> ws_byte b = false ->
  de_typed (typed_fuel t (b :: r)) E t (mkSt (b :: r) (off (ss_st ss) + length w)%nat true (depth (ss_st ss))) = TOk (v, s2) ->
  self_del b = false -> rest s2 = b' :: r' -> is_delim b' = false ->
  exists c i ss', stream_next_typed E t ss = (Some (TIErr c i), ss') /\ c = TrailingCharacters
    /\ i = (off s2 + 1)%nat /\ ss_off ss' = off s2 /\ ss_st ss' = s2 /\ ss_failed ss' = ss_failed ss.
Proof.
  intros E t ss w b r v s2 b' r' Htm Hf Hrest Hw Hb Hitem Hsd Hr2 Hd.
  unfold stream_next_typed. rewrite Hf, (pws_some E (ss_st ss) w b r Hrest Hw Hb).
  cbv zeta. cbn [rest]. rewrite Hitem.
  fold (self_del b). rewrite Hsd, (pev_err E s2 b' r' Hr2 Hd). cbn [res_titem].
  eexists _, _, _. split; [reflexivity|]. cbn [ss_off ss_st ss_failed]. repeat split; reflexivity.
Qed.

(* ------------------------------------------------------------------------------------------ *)
(** * Part 4: the recursion budget is an invariant of next() *)

Lemma pev_depth : forall E s s3, peek_end_of_value E s = Ok s3 -> depth s3 = depth s.
Proof.
  intros E s s3. unfold peek_end_of_value, peek. destruct (rest s) as [|b r].
  - unfold at_end. destruct (tm E); cbn [bind]; intros H; [|discriminate H]. injection H as <-. reflexivity.
  - cbn [bind]. destruct (is_delim b); [|unfold peek_error; intros H; discriminate H].
    intros H. injection H as <-. reflexivity.
Qed.

Lemma set_failed_depth : forall E ss, depth (ss_st (set_failed E ss)) = depth (ss_st ss).
Proof. intros E ss. unfold set_failed. destruct (is_io E); reflexivity. Qed.

(* whatever the call returns (None, a value, an error), for every environment and every state *)
Theorem stream_typed_depth_any : forall E t ss it ss',
  stream_next_typed E t ss = (it, ss') -> depth (ss_st ss') = depth (ss_st ss).
Proof.
  intros E t ss it ss' H. unfold stream_next_typed in H.
  destruct (is_io E && ss_failed ss); [injection H as _ <-; reflexivity|].
  destruct (parse_whitespace E (ss_st ss)) as [[o s1]|c i| |] eqn:Hpw;
    try (injection H as _ <-; apply set_failed_depth).
  pose proof (pw_depth E (ss_st ss) o s1 Hpw) as Hd1.
  destruct o as [b|]; [|injection H as _ <-; exact Hd1].
  cbv zeta in H.
  destruct (de_typed (typed_fuel t (rest s1)) E t s1) as [[v s2]|c i|k s'| |] eqn:Hit;
    try (injection H as _ <-; rewrite set_failed_depth; exact Hd1).
  pose proof (de_typed_depth_restored _ E t s1 v s2 Hit) as Hd2.
  destruct ((b =? 91) || (b =? 34) || (b =? 123))%bool.
  - injection H as _ <-. cbn [ss_st]. lia.
  - destruct (peek_end_of_value E s2) as [s3|c i| |] eqn:Hpev; [| destruct c | |];
      injection H as _ <-; rewrite ?set_failed_depth; cbn [ss_st]; try lia.
    rewrite (pev_depth E s2 s3 Hpev). lia.
Qed.

(* the form asked for: after a successfully yielded item the budget is the one before *)
Theorem stream_typed_depth : forall E t ss v ss',
  stream_next_typed E t ss = (Some (TIVal v), ss') -> depth (ss_st ss') = depth (ss_st ss).
Proof. intros E t ss v ss'. apply stream_typed_depth_any. Qed.

(* n calls: the state reached *)
Fixpoint stream_iter_typed (n : nat) (E : env) (t : ty) (ss : sstate) : sstate :=
  match n with
  | O => ss
  | S n' => stream_iter_typed n' E t (snd (stream_next_typed E t ss))
  end.

Theorem stream_run_typed_depth : forall n E t ss,
  depth (ss_st (stream_iter_typed n E t ss)) = depth (ss_st ss).
Proof.
  induction n as [|n IHn]; intros E t ss; [reflexivity|].
  cbn [stream_iter_typed]. rewrite IHn.
  destruct (stream_next_typed E t ss) as [it ss'] eqn:Hn. cbn [snd].
  exact (stream_typed_depth_any E t ss it ss' Hn).
Qed.

(* ------------------------------------------------------------------------------------------ *)
(** * Part 5: totality *)

(* COUNTEREXAMPLE to the unconditional statement "stream_next_typed never yields TIBad": with a recursion budget of 0
   (not reachable from stream_init, see stream_typed_total_init) the `-= 1` of check_recursion! panics. *)
Example stream_typed_total_counterexample :
  stream_next_typed E_slT (TSeq TBool) (mkSS (mkSt [91; 93] 0 false 0) 0 false)
  = (Some TIBad, mkSS (mkSt [] 0 true 0) 0 false).
Proof. vm_compute. reflexivity. Qed.

(* Unconditional version (typed counterpart of C12_total, sharpened by de_typed_no_fuel): next() itself never produces
   TIBad; it can only come from a Panic of the item parser (fuel never runs out), on the state left by parse_whitespace. *)
Theorem stream_typed_bad_only_panic : forall E t ss ss',
  stream_next_typed E t ss = (Some TIBad, ss') ->
  exists s1, de_typed (typed_fuel t (rest s1)) E t s1 = TPanic /\ depth s1 = depth (ss_st ss).
Proof.
  intros E t ss ss' H. unfold stream_next_typed in H.
  destruct (is_io E && ss_failed ss); [discriminate H|].
  destruct (parse_whitespace E (ss_st ss)) as [[o s1]|c i| |] eqn:Hpw.
  - destruct o as [b|]; [|discriminate H]. cbv zeta in H.
    destruct (de_typed (typed_fuel t (rest s1)) E t s1) as [[v s2]|c i|k s'| |] eqn:Hit.
    + destruct ((b =? 91) || (b =? 34) || (b =? 123))%bool; [discriminate H|].
      unfold peek_end_of_value, peek in H. destruct (rest s2) as [|b2 r2].
      * unfold at_end in H. destruct (tm E) as [|kind]; cbn [bind res_titem] in H; discriminate H.
      * cbn [bind] in H. destruct (is_delim b2); [discriminate H|].
        unfold peek_error in H. cbn [res_titem] in H. discriminate H.
    + cbn [tres_item] in H. discriminate H.
    + cbn [tres_item] in H. discriminate H.
    + exfalso. exact (de_typed_no_fuel E t s1 Hit).
    + exists s1. split; [exact Hit|]. exact (pw_depth E (ss_st ss) (Some b) s1 Hpw).
  - cbn [res_titem] in H. discriminate H.
  - exfalso. pose proof (parse_whitespace_tot E (ss_st ss)) as Hw. rewrite Hpw in Hw. discriminate Hw.
  - exfalso. pose proof (parse_whitespace_tot E (ss_st ss)) as Hw. rewrite Hpw in Hw. discriminate Hw.
Qed.

(* the strongest true variant for one call: the budget is a u8 in 1..255 (or the limit is disabled).
   (= TypedTotal.stream_next_typed_no_bad, which rests on dt_main: de_typed with typed_fuel is never TFuel / TPanic) *)
Theorem stream_typed_total_partial : forall E t ss it ss',
  (limit_disabled (cf E) = true \/ 1 <= depth (ss_st ss) <= 255) ->
  stream_next_typed E t ss = (it, ss') -> it <> Some TIBad.
Proof.
  intros E t ss it ss' Hd Hn. pose proof (stream_next_typed_no_bad E t ss Hd) as H.
  rewrite Hn in H. exact H.
Qed.

(* whole histories: by Part 4 the hypothesis is an invariant *)
Theorem stream_typed_total_run : forall n E t ss,
  (limit_disabled (cf E) = true \/ 1 <= depth (ss_st ss) <= 255) ->
  Forall (fun o => fst o <> Some TIBad) (stream_run_typed n E t ss).
Proof.
  induction n as [|n IHn]; intros E t ss Hd; [constructor|].
  cbn [stream_run_typed]. destruct (stream_next_typed E t ss) as [it ss'] eqn:Hn.
  constructor.
  - cbn [fst]. exact (stream_typed_total_partial E t ss it ss' Hd Hn).
  - apply IHn. rewrite (stream_typed_depth_any E t ss it ss' Hn). exact Hd.
Qed.

(* from the initial state: unconditional (every type program, every input, every environment) *)
Theorem stream_typed_total_init : forall n E t input,
  Forall (fun o => fst o <> Some TIBad) (stream_run_typed n E t (stream_init input)).
Proof.
  intros n E t input. apply stream_typed_total_run. right.
  unfold stream_init, init_st. cbn [ss_st depth]. rewrite DEPTH0_val. lia.
Qed.

(* ------------------------------------------------------------------------------------------ *)
(** * Part 6: the history of a whole typed stream text *)

(* [item_accepts_at d E t txt v]: the text [txt] (first byte not whitespace) is accepted as a [t] with value [v] by the
   item parser, exactly as next() calls it — fuel [typed_fuel t] of everything that is left, cursor on the first byte
   of txt with that byte peeked, budget d — from ANY start offset and before ANY remaining input that is empty or
   starts with a whitespace byte; the cursor stops just past txt with the budget restored.
   (The peek flag is fixed to [true] because that is the only way next() calls the item parser; a hypothesis
   quantified over the flag as well is stronger and implies this one.) *)
Definition ws_or_end (rst : list N) : Prop :=
  match rst with [] => True | c :: _ => ws_byte c = true end.

Definition item_accepts_at (d : N) (E : env) (t : ty) (txt : list N) (v : dval) : Prop :=
  (exists b r, txt = b :: r /\ ws_byte b = false)
  /\ forall rst o, ws_or_end rst ->
       exists p', de_typed (typed_fuel t (txt ++ rst)) E t (mkSt (txt ++ rst) o true d)
                  = TOk (v, mkSt rst (o + length txt)%nat p' d).

Definition item_accepts : env -> ty -> list N -> dval -> Prop := item_accepts_at DEPTH0.

(* a stream text: items are (text, its typed value, the whitespace following it) *)
Fixpoint tstream_text (items : list (list N * dval * list N)) : list N :=
  match items with
  | [] => []
  | (x, _, w) :: r => x ++ w ++ tstream_text r
  end.

(* the expected observations: value j, byte_offset() just past text j; [o] = offset of the first text *)
Fixpoint tstream_obs (o : nat) (items : list (list N * dval * list N)) : list (option titem * nat) :=
  match items with
  | [] => []
  | (x, v, w) :: r => (Some (TIVal v), (o + length x)%nat) :: tstream_obs (o + length x + length w)%nat r
  end.

(* every text is accepted; items are separated by NON-EMPTY whitespace (after the last one it may be empty) *)
Fixpoint titems_ok_at (d : N) (E : env) (t : ty) (items : list (list N * dval * list N)) : Prop :=
  match items with
  | [] => True
  | (x, v, w) :: r => item_accepts_at d E t x v /\ ws_ok w = true /\ (w <> [] \/ r = []) /\ titems_ok_at d E t r
  end.

Definition titems_ok : env -> ty -> list (list N * dval * list N) -> Prop := titems_ok_at DEPTH0.

Lemma ws_or_end_sep : forall w (r : list (list N * dval * list N)),
  ws_ok w = true -> (w <> [] \/ r = []) -> ws_or_end (w ++ tstream_text r).
Proof.
  intros w r Hw Hsep. destruct w as [|a w'].
  - destruct Hsep as [Hne | ->]; [exfalso; apply Hne; reflexivity|]. exact I.
  - cbn [ws_ok forallb] in Hw. apply andb_true_iff in Hw as [Ha _]. exact Ha.
Qed.

(* generalised start state: any cursor offset, any peek flag, any stored offset, any budget d *)
Lemma stream_typed_history_from : forall E t d, tm E = TEof ->
  forall items k ss w,
  (is_io E && ss_failed ss = false) ->
  rest (ss_st ss) = w ++ tstream_text items -> depth (ss_st ss) = d ->
  ws_ok w = true -> titems_ok_at d E t items ->
  stream_run_typed (length items + k) E t ss
  = tstream_obs (off (ss_st ss) + length w)%nat items
    ++ repeat (None, (off (ss_st ss) + length w + length (tstream_text items))%nat) k.
Proof.
  intros E t d Htm.
  induction items as [|[[x v] w1] items IH]; intros k ss w Hf Hrest Hd Hw Hok.
  - cbn [tstream_text] in Hrest. rewrite app_nil_r in Hrest.
    cbn [length tstream_text tstream_obs app Nat.add].
    destruct k as [|k]; [reflexivity|].
    destruct (stream_typed_end E t ss Htm Hf) as (ss' & Hn & Ho & _).
    { rewrite Hrest; exact Hw. }
    rewrite (stream_run_typed_S k E t ss None ss' Hn).
    rewrite (stream_typed_none_forever E t ss ss' Hn k), Ho, Hrest.
    cbn [repeat]. rewrite Nat.add_0_r. reflexivity.
  - cbn [titems_ok_at] in Hok. destruct Hok as (((b & r & Hx & Hb) & Hacc) & Hw1 & Hsep & Hok).
    cbn [tstream_text] in Hrest.
    set (nxt := w1 ++ tstream_text items) in *.
    assert (Hnxt : ws_or_end nxt) by (apply ws_or_end_sep; assumption).
    destruct (Hacc nxt (off (ss_st ss) + length w)%nat Hnxt) as (pk' & Hit).
    set (s2 := mkSt nxt (off (ss_st ss) + length w + length x)%nat pk' d) in Hit.
    rewrite Hx in Hit, Hrest. cbn [app] in Hit, Hrest.
    destruct (stream_typed_item_ok E t ss w b (r ++ nxt) v s2 Htm Hf Hrest Hw Hb) as
      (ss' & Hn & Ho & Hr' & Hd' & Hf' & Hoff').
    { rewrite Hd. exact Hit. }
    { right. cbn [s2 rest]. destruct nxt as [|c nx]; [left; reflexivity|].
      right. exists c, nx. split; [reflexivity|]. apply ws_is_delim. exact Hnxt. }
    cbn [length Nat.add].
    rewrite (stream_run_typed_S (length items + k) E t ss (Some (TIVal v)) ss' Hn).
    cbn [s2 rest off depth] in Ho, Hr', Hd', Hoff'.
    rewrite (IH k ss' w1); [| rewrite Hf'; exact Hf | exact Hr' | exact Hd' | exact Hw1 | exact Hok].
    cbn [tstream_obs tstream_text]. rewrite Ho, Hoff'.
    assert (Hlen : (off (ss_st ss) + length w + length (x ++ w1 ++ tstream_text items)
                    = off (ss_st ss) + length w + length x + length w1 + length (tstream_text items))%nat)
      by (rewrite !app_length; lia).
    rewrite Hlen. reflexivity.
Qed.

(* The history theorem: a text  w0 x1 w1 x2 w2 ... xn wn  of n accepted item texts separated by non-empty whitespace
   yields exactly the n values, byte_offset just past each text, then None k times with byte_offset at the end. *)
Theorem stream_typed_history : forall E t (items : list (list N * dval * list N)) (w0 : list N) (k : nat),
  tm E = TEof -> ws_ok w0 = true -> titems_ok E t items ->
  stream_run_typed (length items + k) E t (stream_init (w0 ++ tstream_text items))
  = tstream_obs (length w0) items ++ repeat (None, length (w0 ++ tstream_text items)) k.
Proof.
  intros E t items w0 k Htm Hw0 Hok.
  rewrite (stream_typed_history_from E t DEPTH0 Htm items k (stream_init (w0 ++ tstream_text items)) w0);
    [| unfold stream_init; cbn [ss_failed]; apply andb_false_r | reflexivity | reflexivity | exact Hw0 | exact Hok].
  unfold stream_init, init_st. cbn [ss_st off]. rewrite app_length. reflexivity.
Qed.

(* and the budget after the whole history is the initial one (Part 4) *)
Corollary stream_typed_history_depth : forall n E t input,
  depth (ss_st (stream_iter_typed n E t (stream_init input))) = DEPTH0.
Proof. intros n E t input. rewrite stream_run_typed_depth. reflexivity. Qed.

(* ------------------------------------------------------------------------------------------ *)
(** * Non-vacuity of [item_accepts]: instances proved for EVERY environment (reader kind, cfg, terminator),
      every start offset and every continuation, and two concrete histories obtained from the theorem *)

Lemma pws_here : forall E c l o p d, ws_byte c = false ->
  parse_whitespace E (mkSt (c :: l) o p d) = Ok (Some c, mkSt (c :: l) o true d).
Proof.
  intros E c l o p d Hc.
  rewrite (pws_some E (mkSt (c :: l) o p d) [] c l eq_refl eq_refl Hc). cbn [off depth length].
  rewrite Nat.add_0_r. reflexivity.
Qed.

Lemma typed_fuel_ge : forall t c l, exists f, typed_fuel t (c :: l) = S (S (S (S f))).
Proof. intros t c l. unfold typed_fuel. cbn [length]. exists (4 * length l + 2 * ty_depth t + 8)%nat. lia. Qed.

(* `true` / `false` as bool, any fuel > 0, any reader state *)
Lemma de_true : forall f E rst o p d,
  de_typed (S f) E TBool (mkSt (116 :: 114 :: 117 :: 101 :: rst) o p d) = TOk (DBool true, mkSt rst (o + 4)%nat false d).
Proof.
  intros f E rst o p d. cbn [de_typed]. unfold deserialize_bool. rewrite pws_here by reflexivity. cbn [lift tbind].
  change (116 =? 116) with true. cbv iota.
  unfold discard, lit_rue. cbn [rest off depth tl parse_ident next bind].
  change (114 =? 114) with true. change (117 =? 117) with true. change (101 =? 101) with true. cbv iota.
  cbn [lift tbind fix_position]. replace (o + 4)%nat with (S (S (S (S o)))) by lia. reflexivity.
Qed.

Lemma de_false : forall f E rst o p d,
  de_typed (S f) E TBool (mkSt (102 :: 97 :: 108 :: 115 :: 101 :: rst) o p d) = TOk (DBool false, mkSt rst (o + 5)%nat false d).
Proof.
  intros f E rst o p d. cbn [de_typed]. unfold deserialize_bool. rewrite pws_here by reflexivity. cbn [lift tbind].
  change (102 =? 116) with false. change (102 =? 102) with true. cbv iota.
  unfold discard, lit_alse. cbn [rest off depth tl parse_ident next bind].
  change (97 =? 97) with true. change (108 =? 108) with true. change (115 =? 115) with true. change (101 =? 101) with true.
  cbv iota. cbn [lift tbind fix_position]. replace (o + 5)%nat with (S (S (S (S (S o))))) by lia. reflexivity.
Qed.

Theorem accepts_true : forall E d, item_accepts_at d E TBool [116; 114; 117; 101] (DBool true).
Proof.
  intros E d. split; [eexists _, _; split; reflexivity|].
  intros rst o _. cbn [app]. destruct (typed_fuel_ge TBool 116 (114 :: 117 :: 101 :: rst)) as (f & ->).
  exists false. apply de_true.
Qed.

Theorem accepts_false : forall E d, item_accepts_at d E TBool [102; 97; 108; 115; 101] (DBool false).
Proof.
  intros E d. split; [eexists _, _; split; reflexivity|].
  intros rst o _. cbn [app]. destruct (typed_fuel_ge TBool 102 (97 :: 108 :: 115 :: 101 :: rst)) as (f & ->).
  exists false. apply de_false.
Qed.

(* `[true]` as Vec<bool>, with the initial budget: exercises check_recursion! (enter / leave) *)
Theorem accepts_seq_true : forall E, item_accepts E (TSeq TBool) [91; 116; 114; 117; 101; 93] (DSeq [DBool true]).
Proof.
  intros E. split; [eexists _, _; split; reflexivity|].
  intros rst o _. cbn [app]. destruct (typed_fuel_ge (TSeq TBool) 91 (116 :: 114 :: 117 :: 101 :: 93 :: rst)) as (f & ->).
  exists false. cbn [de_typed]. unfold deserialize_seq. rewrite pws_here by reflexivity. cbn [lift tbind].
  change (91 =? 91) with true. cbv iota.
  unfold frame, enter, leave.
  destruct (limit_disabled (cf E)) eqn:HL.
  - cbn [lift tbind]. unfold discard at 1. cbn [rest off depth tl].
    cbn [de_elems]. unfold has_next_element at 1. rewrite pws_here by reflexivity. cbn [bind lift tbind].
    change (116 =? 93) with false. cbv iota. cbn [lift tbind]. rewrite de_true. cbn [tbind].
    unfold has_next_element. rewrite pws_here by reflexivity. cbn [bind lift tbind].
    change (93 =? 93) with true. cbv iota. cbn [lift tbind].
    unfold end_seq. rewrite pws_here by reflexivity. cbn [bind lift tbind].
    change (93 =? 93) with true. cbv iota. cbn [lift tbind fix_position tmap].
    unfold discard. cbn [rest off depth tl].
    assert (Hoff : (S (S o + 4) = o + 6)%nat) by lia. cbn [length]. rewrite Hoff. reflexivity.
  - cbn [depth rest off pk]. change (DEPTH0 =? 0) with false. cbv iota.
    change (DEPTH0 - 1 =? 0) with false. cbv iota.
    cbn [lift tbind]. unfold discard at 1. cbn [rest off depth tl].
    cbn [de_elems]. unfold has_next_element at 1. rewrite pws_here by reflexivity. cbn [bind lift tbind].
    change (116 =? 93) with false. cbv iota. cbn [lift tbind]. rewrite de_true. cbn [tbind].
    unfold has_next_element. rewrite pws_here by reflexivity. cbn [bind lift tbind].
    change (93 =? 93) with true. cbv iota. cbn [lift tbind depth rest off pk].
    change (255 <=? DEPTH0 - 1) with false. cbv iota. cbn [lift tbind].
    unfold end_seq. rewrite pws_here by reflexivity. cbn [bind lift tbind].
    change (93 =? 93) with true. cbv iota. cbn [lift tbind fix_position tmap].
    unfold discard. cbn [rest off depth tl]. change (DEPTH0 - 1 + 1) with DEPTH0.
    assert (Hoff : (S (S o + 4) = o + 6)%nat) by lia. cbn [length]. rewrite Hoff. reflexivity.
Qed.

Definition txt_true : list N := [116; 114; 117; 101].
Definition txt_false : list N := [102; 97; 108; 115; 101].
Definition txt_vec_true : list N := [91; 116; 114; 117; 101; 93].

(*  ` true \n false true`  as bool, any reader kind / cfg: values at byte offsets 5, 12, 17, then None forever at 17 *)
Corollary history_bools : forall E k, tm E = TEof ->
  stream_run_typed (3 + k) E TBool
    (stream_init [32; 116; 114; 117; 101; 32; 10; 102; 97; 108; 115; 101; 32; 116; 114; 117; 101])
  = [(Some (TIVal (DBool true)), 5%nat); (Some (TIVal (DBool false)), 12%nat); (Some (TIVal (DBool true)), 17%nat)]
    ++ repeat (None, 17%nat) k.
Proof.
  intros E k Htm.
  assert (Hok : titems_ok E TBool
                  [(txt_true, DBool true, [32; 10]); (txt_false, DBool false, [32]); (txt_true, DBool true, [])]).
  { unfold titems_ok. cbn [titems_ok_at].
    split; [exact (accepts_true E DEPTH0)|]. split; [reflexivity|]. split; [left; discriminate|].
    split; [exact (accepts_false E DEPTH0)|]. split; [reflexivity|]. split; [left; discriminate|].
    split; [exact (accepts_true E DEPTH0)|]. split; [reflexivity|]. split; [right; reflexivity|]. exact I. }
  pose proof (stream_typed_history E TBool _ [32] k Htm eq_refl Hok) as H.
  unfold txt_true, txt_false in H. cbn [length tstream_text tstream_obs app Nat.add] in H. exact H.
Qed.

(*  `[true] [true]\n`  as Vec<bool>: offsets 6 and 13, then None forever at 14 (the final None consumes the newline) *)
Corollary history_vecs : forall E k, tm E = TEof ->
  stream_run_typed (2 + k) E (TSeq TBool)
    (stream_init [91; 116; 114; 117; 101; 93; 32; 91; 116; 114; 117; 101; 93; 10])
  = [(Some (TIVal (DSeq [DBool true])), 6%nat); (Some (TIVal (DSeq [DBool true])), 13%nat)] ++ repeat (None, 14%nat) k.
Proof.
  intros E k Htm.
  assert (Hok : titems_ok E (TSeq TBool)
                  [(txt_vec_true, DSeq [DBool true], [32]); (txt_vec_true, DSeq [DBool true], [10])]).
  { unfold titems_ok. cbn [titems_ok_at].
    split; [exact (accepts_seq_true E)|]. split; [reflexivity|]. split; [left; discriminate|].
    split; [exact (accepts_seq_true E)|]. split; [reflexivity|]. split; [left; discriminate|]. exact I. }
  pose proof (stream_typed_history E (TSeq TBool) _ [] k Htm eq_refl Hok) as H.
  unfold txt_vec_true in H. cbn [length tstream_text tstream_obs app Nat.add] in H. exact H.
Qed.

(* the separation hypothesis of [titems_ok] cannot be dropped for bare scalars: `truefalse` *)
Example history_needs_separation :
  stream_run_typed 2 E_slT TBool (stream_init [116; 114; 117; 101; 102; 97; 108; 115; 101])
  = [(Some (TIErr TrailingCharacters 5), 4%nat); (Some (TIVal (DBool false)), 9%nat)].
Proof. vm_compute. reflexivity. Qed.

Print Assumptions stream_typed_end.
Print Assumptions stream_typed_none_forever.
Print Assumptions stream_typed_item_fail.
Print Assumptions stream_typed_item_error.
Print Assumptions stream_typed_item_error_unpos.
Print Assumptions stream_typed_item_ok.
Print Assumptions stream_typed_scalar_needs_delim.
Print Assumptions stream_typed_depth_any.
Print Assumptions stream_typed_depth.
Print Assumptions stream_run_typed_depth.
Print Assumptions stream_typed_bad_only_panic.
Print Assumptions stream_typed_total_partial.
Print Assumptions stream_typed_total_run.
Print Assumptions stream_typed_total_init.
Print Assumptions stream_typed_history_from.
Print Assumptions stream_typed_history.
Print Assumptions stream_typed_history_depth.
Print Assumptions history_bools.
Print Assumptions history_vecs.
