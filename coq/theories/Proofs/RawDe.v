(* Proofs/RawDe.v — C19, part 1: the raw deserializer [DeTyped.deserialize_raw] (de.rs deserialize_raw_value) at ANY
   cursor position, for the three reader kinds, and `RawValue::from_string` (Model/RawM.v).

     deserialize_raw_sound     what it returns is `render c` of a well-formed tree, cut out of the input with only
                               whitespace skipped before it; nothing else consumed; depth budget untouched
     deserialize_raw_complete  on  w ++ render c ++ rst  it returns exactly `render c` and stops at [rst]
     raw_from_input_lang / from_string_lang / from_string_total
   Everything is reduced to Proofs/GrammarIgnore.v (slice reader) through the reader-kind independence results
   (Proofs/RkIndep.v, StrRefine.v, StrSource.v). *)
From SJ Require Import Base.Bytes Base.Utf8 Gen.Tables Model.Read Model.Str Model.Num Model.Value Model.De Model.Ignore Spec.Syntax.
From SJ Require Import Model.Ty Model.DeTyped Model.RawM.
From SJ Require Import Proofs.GrammarIgnore Proofs.StrRefine Proofs.RkIndep Proofs.StrSource Proofs.Utf8Lemmas Proofs.Total Proofs.TypedTotal.
Require Import Lia ZifyBool ZifyNat ZifyN.
Open Scope N_scope.

(* ------------------------------------------------------------------------------------------ *)
(** * 1. Inversion of the [tres] monad *)

Lemma tbind_ok {A B} (r : tres A) (f : A -> tres B) (b : B) :
  tbind r f = TOk b -> exists a, r = TOk a /\ f a = TOk b.
Proof. destruct r as [a|c i|k s| |]; cbn [tbind]; intros H; try discriminate. eauto. Qed.

Lemma lift_ok {A} (r : res A) (a : A) : lift r = TOk a -> r = Ok a.
Proof. destruct r; cbn [lift]; intros H; try discriminate. now injection H as ->. Qed.

Lemma tbind_lift_ok {A B} (r : res A) (f : A -> tres B) (b : B) :
  tbind (lift r) f = TOk b -> exists a, r = Ok a /\ f a = TOk b.
Proof. intros H. apply tbind_ok in H as (a & Hr & Hf). apply lift_ok in Hr. eauto. Qed.

(* ------------------------------------------------------------------------------------------ *)
(** * 2. The reader kind does not matter for whitespace, the skip scanner and `end` *)

Notation EK k cf := (mkEnv k TEof cf) (only parsing).

Lemma pw_any k cf s : parse_whitespace (EK k cf) s = parse_whitespace (EK RSlice cf) s.
Proof. destruct k; reflexivity. Qed.

Lemma ig_any k cf s : ignore_value (EK k cf) s = ignore_value (EK RSlice cf) s.
Proof.
  destruct k.
  - reflexivity.
  - apply ignore_value_str_slice.
  - apply ignore_value_rk; intros; first [apply parse_str_io_slice | apply ignore_str_io_slice].
Qed.

(* Deserializer::end succeeds exactly on trailing whitespace (any kind: `peek_error` is only on the failing side) *)
Lemma de_end_ok_any k cf s s' : de_end (EK k cf) s = Ok s' -> ws_ok (rest s) = true.
Proof.
  unfold de_end. intros H. apply bind_ok in H as ([o s1] & Hpw & H).
  rewrite pw_any in Hpw. apply pw_inv in Hpw as (w & (G1 & _) & Hw & Ho).
  destruct o as [b|]; [discriminate H|]. rewrite Ho, app_nil_r in G1. now rewrite G1.
Qed.

Lemma de_end_ws_any k cf w o p d : ws_ok w = true -> exists s', de_end (EK k cf) (mkSt w o p d) = Ok s'.
Proof.
  intros Hw. unfold de_end. rewrite pw_any, (pw_eof cf w o p d Hw). cbn [bind]. eauto.
Qed.

Lemma de_end_not_ws_any k cf s : ws_ok (rest s) = false -> exists i, de_end (EK k cf) s = Err TrailingCharacters i.
Proof.
  intros Hw. unfold de_end. rewrite pw_any.
  destruct (parse_whitespace (EK RSlice cf) s) as [[o s1]|c i| |] eqn:Hpw.
  - pose proof Hpw as Hpw'. apply pw_inv in Hpw' as (w & (G1 & _) & Hw' & Ho). destruct o as [b|].
    + cbn [bind]. unfold peek_error. eauto.
    + exfalso. rewrite Ho, app_nil_r in G1. rewrite G1, Hw' in Hw. discriminate.
  - exfalso. revert Hpw. unfold parse_whitespace, peek, at_end. cbn [tm].
    destruct (rest (advance (span_len is_ws (rest s)) s)); discriminate.
  - exfalso. revert Hpw. unfold parse_whitespace, peek, at_end. cbn [tm].
    destruct (rest (advance (span_len is_ws (rest s)) s)); discriminate.
  - exfalso. revert Hpw. unfold parse_whitespace, peek, at_end. cbn [tm].
    destruct (rest (advance (span_len is_ws (rest s)) s)); discriminate.
Qed.

(* ------------------------------------------------------------------------------------------ *)
(** * 3. First and last byte of a rendered value are ASCII; UTF-8 validity of a cut-out value *)

Lemma last_app_ne {A} (a b : list A) (d : A) : b <> [] -> last (a ++ b) d = last b d.
Proof.
  intros Hb. induction a as [|x a IH]; [reflexivity|].
  cbn [app]. change (last (x :: a ++ b) d) with (match a ++ b with [] => x | _ :: _ => last (a ++ b) d end).
  destruct (a ++ b) eqn:Hab; [|exact IH].
  apply app_eq_nil in Hab as [_ ->]. now contradiction Hb.
Qed.

Lemma last_in {A} (l : list A) (d : A) : l <> [] -> In (last l d) l.
Proof.
  induction l as [|x l IH]; [congruence|]. intros _. destruct l as [|y l]; [left; reflexivity|].
  right. apply IH. discriminate.
Qed.

Lemma digits_last (l : list N) : forallb is_digit l = true -> l <> [] -> last l 0 < 128.
Proof.
  intros H Hne. pose proof (last_in l 0 Hne) as Hin. rewrite forallb_forall in H. specialize (H _ Hin).
  unfold is_digit in H. lia.
Qed.

Lemma int_ok_digits (i : list N) : int_ok i = true -> forallb is_digit i = true /\ i <> [].
Proof.
  intros H. destruct (int_ok_head i H) as (b & r & -> & Hb). split; [|discriminate].
  destruct (N.eq_dec b 48) as [->|Hne].
  - destruct r as [|x r]; [reflexivity|]. cbn [int_ok] in H. cbn [forallb]. apply andb_prop in H as [H1 H2].
    unfold is_digit19 in H1. lia.
  - rewrite int_ok_cons in H by exact Hne. apply andb_prop in H as [_ H]. cbn [forallb]. now rewrite Hb, H.
Qed.

Lemma render_num_last (n : numlit) : num_ok n = true -> last (render_num n) 0 < 128.
Proof.
  destruct n as [neg i fr ex]. unfold num_ok, render_num. cbn [nneg nint nfrac nexp]. intros H.
  apply andb_prop in H as [H Hex]. apply andb_prop in H as [Hi Hfr].
  destruct ex as [[[e sg] ds]|].
  - apply andb_prop in Hex as [_ Hds]. apply digits_ok_elim in Hds as (Hd & b & r & Heq).
    rewrite !app_assoc. rewrite last_app_ne by discriminate.
    change (e :: (match sg with Some c => [c] | None => [] end) ++ ds)
      with ((e :: match sg with Some c => [c] | None => [] end) ++ ds).
    rewrite last_app_ne by (rewrite Heq; discriminate). apply digits_last; [exact Hd|rewrite Heq; discriminate].
  - rewrite app_nil_r. destruct fr as [f|].
    + apply digits_ok_elim in Hfr as (Hd & b & r & Heq).
      rewrite app_assoc. change (46 :: f) with ([46] ++ f). rewrite app_assoc.
      rewrite last_app_ne by (rewrite Heq; discriminate). apply digits_last; [exact Hd|rewrite Heq; discriminate].
    + rewrite app_nil_r. apply int_ok_digits in Hi as [Hd Hne]. rewrite last_app_ne by exact Hne.
      apply digits_last; assumption.
Qed.

Lemma render_last (c : cst) : wfb c = true -> last (render c) 0 < 128.
Proof.
  destruct c as [| | |n|s|w es|w ms]; intros H.
  - cbn. lia.
  - cbn. lia.
  - cbn. lia.
  - cbn [render]. apply render_num_last. exact H.
  - cbn [render]. unfold render_str. change (34 :: flat_map render_piece s ++ [34]) with ((34 :: flat_map render_piece s) ++ [34]).
    rewrite last_last. lia.
  - rewrite render_arr. match goal with |- last (91 :: ?x ++ [93]) 0 < 128 => change (91 :: x ++ [93]) with ((91 :: x) ++ [93]) end.
    rewrite last_last. lia.
  - rewrite render_obj. match goal with |- last (123 :: ?x ++ [125]) 0 < 128 => change (123 :: x ++ [125]) with ((123 :: x) ++ [125]) end.
    rewrite last_last. lia.
Qed.

Lemma render_first (c : cst) : wfb c = true -> exists b r, render c = b :: r /\ b < 128.
Proof.
  intros H. destruct (render_head c H) as (b & r & Hr & _). exists b, r. split; [exact Hr|].
  destruct c as [| | |n|s|w es|w ms].
  - injection Hr as <- _. lia.
  - injection Hr as <- _. lia.
  - injection Hr as <- _. lia.
  - destruct n as [neg i fr ex]. cbn [wfb] in H. rewrite num_ok_eq in H. apply andb_prop in H as [H _]. apply andb_prop in H as [Hi _].
    cbn [render] in Hr. rewrite render_num_eq in Hr. destruct neg.
    + injection Hr as <- _. lia.
    + destruct (int_ok_head i Hi) as (b' & r' & -> & Hb). cbn [app] in Hr. injection Hr as <- _. unfold is_digit in Hb. lia.
  - cbn [render] in Hr. unfold render_str in Hr. injection Hr as <- _. lia.
  - rewrite render_arr in Hr. injection Hr as <- _. lia.
  - rewrite render_obj in Hr. injection Hr as <- _. lia.
Qed.

(* a piece of a valid UTF-8 text that starts and ends with an ASCII byte is valid UTF-8 *)
Lemma utf8_mid (a m b : list N) :
  utf8_valid (a ++ m ++ b) = true -> m <> [] -> hd 0 m < 128 -> last m 0 < 128 -> utf8_valid m = true.
Proof.
  intros Hv Hne Hh Hl. destruct m as [|x m']; [congruence|]. cbn [hd] in Hh.
  cbn [app] in Hv. apply utf8_valid_cut in Hv as [_ Hv]; [|exact Hh].
  destruct (exists_last (l := x :: m') ltac:(discriminate)) as (m0 & y & Heq).
  assert (Hy : y < 128). { rewrite Heq, last_last in Hl. exact Hl. }
  destruct m0 as [|x0 m0].
  - cbn [app] in Heq. injection Heq as -> ->. rewrite utf8_valid_cons_ascii by exact Hh. reflexivity.
  - cbn [app] in Heq. injection Heq as <- ->.
    rewrite <- app_assoc in Hv. cbn [app] in Hv. apply utf8_valid_cut in Hv as [Hv _]; [|exact Hy].
    change (x :: m0 ++ [y]) with ((x :: m0) ++ y :: []). apply utf8_valid_join; [exact Hy| |reflexivity].
    rewrite utf8_valid_cons_ascii by exact Hh. exact Hv.
Qed.

Lemma render_utf8_mid (a b : list N) (c : cst) :
  wfb c = true -> utf8_valid (a ++ render c ++ b) = true -> utf8_valid (render c) = true.
Proof.
  intros Hc Hv. destruct (render_first c Hc) as (x & r & Hr & Hx).
  apply (utf8_mid a (render c) b Hv).
  - rewrite Hr. discriminate.
  - rewrite Hr. exact Hx.
  - apply render_last. exact Hc.
Qed.

(* ------------------------------------------------------------------------------------------ *)
(** * 4. deserialize_raw at any position *)

Theorem deserialize_raw_sound : forall k cf s d s1,
  Forall (fun b => (b < 256)%N) (rest s) ->
  deserialize_raw (EK k cf) s = TOk (d, s1) ->
  exists w c, rest s = w ++ render c ++ rest s1 /\ ws_ok w = true /\ wfb c = true /\ d = DRaw (render c)
          /\ off s1 = (off s + length w + length (render c))%nat /\ depth s1 = depth s
          /\ (k <> RStr -> utf8_valid (render c) = true).
Proof.
  intros k cf s d s1 F H. unfold deserialize_raw in H.
  apply tbind_lift_ok in H as ([o s0] & Hpw & H). apply tbind_lift_ok in H as (s1' & Hig & H). cbv zeta in H.
  set (span := firstn (off s1' - off s0) (rest s0)) in H.
  assert (Hres : d = DRaw span /\ s1 = s1' /\ (k <> RStr -> utf8_valid span = true)).
  { destruct k; cbn [rk] in H.
    - destruct (utf8_valid span) eqn:Hu; [|discriminate H]. injection H as <- <-. auto.
    - injection H as <- <-. split; [reflexivity|split; [reflexivity|congruence]].
    - destruct (utf8_valid span) eqn:Hu; [|discriminate H]. injection H as <- <-. auto. }
  destruct Hres as (-> & <- & Hu). clear H.
  rewrite pw_any in Hpw. apply pw_inv in Hpw as (w & Hst & Hw & Ho).
  rewrite ig_any in Hig.
  destruct (steps_lt256 _ _ _ Hst F) as [_ F'].
  apply ignore_value_sound in Hig as (w' & c & Hr & Hw' & Hc & Hoff & Hd); [|exact F'].
  assert (w' = []).
  { destruct w' as [|x w'']; [reflexivity|]. exfalso. unfold ws_ok in Hw'. cbn [forallb] in Hw'.
    apply andb_prop in Hw' as [Hx _]. rewrite <- is_ws_ws_byte in Hx. cbn [app] in Hr. destruct o as [b0|].
    - destruct Ho as (r & Hr0 & Hb0). rewrite Hr0 in Hr. injection Hr as -> _. congruence.
    - rewrite Ho in Hr. discriminate. }
  subst w'. cbn [app length] in Hr, Hoff. destruct Hst as (G1 & G2 & G3).
  assert (Hspan : span = render c).
  { unfold span. rewrite Hr. replace (off s1 - off s0)%nat with (length (render c)) by lia. apply firstn_app_len. }
  rewrite Hspan in *.
  exists w, c. rewrite G1, Hr. repeat split; try assumption; try lia.
Qed.

Theorem deserialize_raw_complete : forall k cf w c rst o p d,
  ws_ok w = true -> wfb c = true -> val_follow rst ->
  (k = RStr \/ utf8_valid (render c) = true) ->
  exists p', deserialize_raw (EK k cf) (mkSt (w ++ render c ++ rst) o p d)
           = TOk (DRaw (render c), mkSt rst (o + length w + length (render c)) p' d).
Proof.
  intros k cf w c rst o p d Hw Hc Hf Hu.
  destruct (render_head c Hc) as (b & rc & Hrc & Hb & _).
  destruct (ignore_value_complete cf [] c rst (o + length w) true d eq_refl Hc Hf) as (p' & Heq).
  cbn [app] in Heq. rewrite Hrc in Heq at 1. cbn [app] in Heq.
  exists p'. unfold deserialize_raw.
  rewrite pw_any. rewrite Hrc at 1. cbn [app]. rewrite pw_complete by assumption. cbn [lift tbind].
  rewrite ig_any. rewrite Heq. cbn [lift tbind]. cbv zeta. cbn [off rest length].
  assert (Hspan : firstn (o + length w + 0 + length (render c) - (o + length w)) (b :: rc ++ rst) = render c).
  { replace (o + length w + 0 + length (render c) - (o + length w))%nat with (length (render c)) by lia.
    change (b :: rc ++ rst) with ((b :: rc) ++ rst). rewrite <- Hrc. apply firstn_app_len. }
  rewrite Hspan. rewrite Nat.add_0_r.
  destruct k; cbn [rk].
  - destruct Hu as [Hu|Hu]; [discriminate Hu|]. rewrite Hu. reflexivity.
  - reflexivity.
  - destruct Hu as [Hu|Hu]; [discriminate Hu|]. rewrite Hu. reflexivity.
Qed.

(* the span is valid UTF-8 whenever the text around it is: the check of SliceRead / IoRead cannot fail on a &str's bytes *)
Corollary deserialize_raw_complete_utf8 : forall k cf a w c rst o p d,
  ws_ok w = true -> wfb c = true -> val_follow rst ->
  utf8_valid (a ++ w ++ render c ++ rst) = true ->
  exists p', deserialize_raw (EK k cf) (mkSt (w ++ render c ++ rst) o p d)
           = TOk (DRaw (render c), mkSt rst (o + length w + length (render c)) p' d).
Proof.
  intros k cf a w c rst o p d Hw Hc Hf Hv. apply deserialize_raw_complete; try assumption.
  right. rewrite app_assoc in Hv. exact (render_utf8_mid _ _ c Hc Hv).
Qed.

(* never out of fuel, never a panic, never an unpositioned error *)
Lemma deserialize_raw_total k cf s :
  (exists d s1, deserialize_raw (EK k cf) s = TOk (d, s1)) \/ (exists c i, deserialize_raw (EK k cf) s = TErr c i).
Proof.
  pose proof (deserialize_raw_chk (EK k cf) false false s) as H.
  destruct (deserialize_raw (EK k cf) s) as [[d s1]|c i|kk s'| |] eqn:Heq.
  - left. eauto.
  - right. eauto.
  - exfalso. revert Heq. unfold deserialize_raw.
    destruct (parse_whitespace (EK k cf) s) as [[o s0]| | |]; cbn [lift tbind]; try discriminate.
    destruct (ignore_value (EK k cf) s0) as [s1'| | |]; cbn [lift tbind]; try discriminate. cbv zeta.
    destruct (rk (EK k cf)); try discriminate;
      destruct (utf8_valid _); try discriminate; unfold error; cbn [lift]; discriminate.
  - cbn [tchk] in H. discriminate H.
  - cbn [tchk] in H. discriminate H.
Qed.

(* ------------------------------------------------------------------------------------------ *)
(** * 5. Top level: from_str / from_slice / from_reader ::<Box<RawValue>> and RawValue::from_string *)

Definition raw_lang (bs r : list N) : Prop :=
  exists w1 c w2, bs = w1 ++ render c ++ w2 /\ ws_ok w1 = true /\ ws_ok w2 = true /\ wfb c = true /\ r = render c.

Theorem raw_from_input_lang : forall k cf bs r,
  Forall (fun b => (b < 256)%N) bs -> (k = RStr \/ utf8_valid bs = true) ->
  (raw_from_input (EK k cf) bs = TOk r <-> raw_lang bs r).
Proof.
  intros k cf bs r F Hu. unfold raw_from_input. split.
  - intros H. apply tbind_ok in H as ([d s1] & Hraw & H). apply tbind_lift_ok in H as (s2 & Hend & H). injection H as <-.
    apply deserialize_raw_sound in Hraw as (w & c & Hr & Hw & Hc & -> & _); [|exact F].
    apply de_end_ok_any in Hend. cbn [init_st rest] in Hr.
    exists w, c, (rest s1). cbn [raw_of]. repeat split; assumption.
  - intros (w1 & c & w2 & -> & Hw1 & Hw2 & Hc & ->).
    assert (Hu' : k = RStr \/ utf8_valid (render c) = true).
    { destruct Hu as [Hu|Hu]; [left; exact Hu|right]. exact (render_utf8_mid w1 w2 c Hc Hu). }
    destruct (deserialize_raw_complete k cf w1 c w2 0 false DEPTH0 Hw1 Hc (ws_follow w2 Hw2) Hu') as (p' & Heq).
    unfold init_st. rewrite Heq. cbn [tbind].
    destruct (de_end_ws_any k cf w2 (0 + length w1 + length (render c)) p' DEPTH0 Hw2) as (s' & Hend).
    rewrite Hend. reflexivity.
Qed.

(* without any assumption on the input's encoding: SliceRead / IoRead additionally require the SPAN to be valid UTF-8 *)
Theorem raw_from_input_lang_exact : forall k cf bs r,
  Forall (fun b => (b < 256)%N) bs ->
  (raw_from_input (EK k cf) bs = TOk r <-> raw_lang bs r /\ (k = RStr \/ utf8_valid r = true)).
Proof.
  intros k cf bs r F. unfold raw_from_input. split.
  - intros H. apply tbind_ok in H as ([d s1] & Hraw & H). apply tbind_lift_ok in H as (s2 & Hend & H). injection H as <-.
    apply deserialize_raw_sound in Hraw as (w & c & Hr & Hw & Hc & -> & _ & _ & Hu); [|exact F].
    apply de_end_ok_any in Hend. cbn [init_st rest] in Hr. cbn [raw_of]. split.
    + exists w, c, (rest s1). repeat split; assumption.
    + destruct k; [right; apply Hu; discriminate|left; reflexivity|right; apply Hu; discriminate].
  - intros [(w1 & c & w2 & -> & Hw1 & Hw2 & Hc & ->) Hu].
    destruct (deserialize_raw_complete k cf w1 c w2 0 false DEPTH0 Hw1 Hc (ws_follow w2 Hw2) Hu) as (p' & Heq).
    unfold init_st. rewrite Heq. cbn [tbind].
    destruct (de_end_ws_any k cf w2 (0 + length w1 + length (render c)) p' DEPTH0 Hw2) as (s' & Hend).
    rewrite Hend. reflexivity.
Qed.

(* outcome is a value or a positioned error *)
Lemma raw_from_input_total k cf bs :
  (exists r, raw_from_input (EK k cf) bs = TOk r) \/ (exists c i, raw_from_input (EK k cf) bs = TErr c i).
Proof.
  unfold raw_from_input. destruct (deserialize_raw_total k cf (init_st bs)) as [(d & s1 & ->)|(c & i & ->)]; cbn [tbind].
  - destruct (ws_ok (rest s1)) eqn:Hw.
    + destruct s1 as [l o p dd]. cbn [rest] in Hw. destruct (de_end_ws_any k cf l o p dd Hw) as (s' & ->). left. cbn [lift tbind]. eauto.
    + destruct (de_end_not_ws_any k cf s1 Hw) as (i & ->). right. cbn [lift tbind]. eauto.
  - right. eauto.
Qed.

(* a sublist that is as long as the list is the list *)
Lemma app3_len_eq {A} (a m b : list A) : (length (a ++ m ++ b) <= length m)%nat -> a ++ m ++ b = m.
Proof.
  rewrite !app_length. intros H. destruct a as [|x a]; [|cbn [length] in H; lia].
  destruct b as [|y b]; [|cbn [length] in H; lia]. cbn [app]. apply app_nil_r.
Qed.

(* RawValue::from_string: whichever branch of the allocation-reuse logic runs, the result holds the span *)
Theorem from_string_is_span : forall cf json r,
  Forall (fun b => (b < 256)%N) json ->
  (from_string cf json = TOk r <-> raw_from_input (EK RStr cf) json = TOk r).
Proof.
  intros cf json r F. unfold from_string.
  destruct (raw_from_input (EK RStr cf) json) as [b|c i|kk s| |] eqn:Hraw; cbn [tbind]; try (split; discriminate).
  destruct (length b <? length json)%nat eqn:Hlen; [reflexivity|].
  apply Nat.ltb_ge in Hlen.
  apply (raw_from_input_lang RStr cf json b F (or_introl eq_refl)) in Hraw as (w1 & c & w2 & Hj & _ & _ & _ & ->).
  rewrite Hj in Hlen. apply app3_len_eq in Hlen. rewrite <- Hj in Hlen. rewrite Hlen. reflexivity.
Qed.

Theorem from_string_lang : forall cf json r,
  utf8_valid json = true ->
  (from_string cf json = TOk r <-> raw_lang json r).
Proof.
  intros cf json r Hu. pose proof (utf8_valid_bytes json Hu) as F.
  rewrite (from_string_is_span cf json r F). apply raw_from_input_lang; [exact F|left; reflexivity].
Qed.

Theorem from_string_total : forall cf json,
  (exists r, from_string cf json = TOk r) \/ (exists c i, from_string cf json = TErr c i).
Proof.
  intros cf json. unfold from_string.
  destruct (raw_from_input_total RStr cf json) as [(r & ->)|(c & i & ->)]; cbn [tbind].
  - left. destruct (length r <? length json)%nat; eauto.
  - right. eauto.
Qed.

(* the error of from_string is the error of from_str::<&RawValue> *)
Theorem from_string_err : forall cf json c i,
  from_string cf json = TErr c i <-> raw_from_input (EK RStr cf) json = TErr c i.
Proof.
  intros cf json c i. unfold from_string.
  destruct (raw_from_input (EK RStr cf) json) as [b|c' i'|kk s| |]; cbn [tbind]; try (split; intros H; discriminate H); try reflexivity.
  destruct (length b <? length json)%nat; split; discriminate.
Qed.

Print Assumptions deserialize_raw_sound.
Print Assumptions deserialize_raw_complete.
Print Assumptions raw_from_input_lang.
Print Assumptions raw_from_input_lang_exact.
Print Assumptions from_string_lang.
Print Assumptions from_string_total.
