(* Proofs/ViableBase.v — C11 converse ("an Eof-category error means the input is a viable prefix"), part 1:
   vocabulary shared by the Viable*.v files.

     1. [bind] inversion for error outcomes.
     2. [lex]: a seven-state lexer that tracks where a byte string ends relative to JSON string literals
        (outside / inside a literal / inside an escape / inside the hex digits of a \u escape, first or second half of a
        surrogate pair).  [lex_ok] is the (decidable) condition under which an input that ends inside a \u escape can
        still be completed:  the hex digits typed so far are hex digits, a first escape is not bound to be a lone low
        surrogate (\uDC.. – \uDF..), a second escape can still become a low surrogate.
     3. [lex] steps over whitespace, structural bytes, number literals, well-formed string literals with defined text,
        and rendered syntax trees with defined denotation ("lexically closed" texts).
     4. [defd]: definedness of [denote] as a boolean, with its structural equations.
     5. the invariant [Inv] carried by the remaining input and its transport over a lexically closed prefix. *)
From Coq Require Import List NArith ZArith Bool Arith Lia ZifyBool ZifyNat ZifyN.
From SJ Require Import Base.Bytes Base.Utf8 Base.FloatB Gen.Tables Model.Read Model.Str Model.Num Model.Value Model.De
  Spec.Syntax Spec.Denote.
From SJ Require Import Proofs.Utf8Lemmas Proofs.GrammarStr Proofs.GrammarNum Proofs.GrammarValueBase Proofs.StrEscapeUtf8
  Proofs.StrSource.
Import ListNotations.
Open Scope N_scope.

(* ------------------------------------------------------------------------------------------ *)
(** * 1. bind *)

Lemma bind_err {A B} (r : res A) (f : A -> res B) c i :
  bind r f = Err c i -> r = Err c i \/ exists a, r = Ok a /\ f a = Err c i.
Proof.
  destruct r as [a|c' i'| |]; cbn [bind]; intros H; try discriminate H.
  - right. exists a. split; [reflexivity|exact H].
  - left. injection H as -> ->. reflexivity.
Qed.

Lemma forallb_imp {A} (p q : A -> bool) l : (forall x, p x = true -> q x = true) -> forallb p l = true -> forallb q l = true.
Proof.
  intros Hpq. induction l as [|x l IH]; [reflexivity|]. cbn [forallb]. intros H.
  apply andb_prop in H as [H1 H2]. rewrite (Hpq x H1), (IH H2). reflexivity.
Qed.

(* ------------------------------------------------------------------------------------------ *)
(** * 2. The lexer *)

Inductive lexst :=
  | LOut                    (* outside string literals *)
  | LStr                    (* inside a literal *)
  | LEsc                    (* just after a backslash *)
  | LU (h : bytes)          (* after \u and the hex digits h (fewer than four) *)
  | LHi                     (* just after a complete \uXXXX naming a high surrogate *)
  | LHiEsc                  (* ... followed by a backslash *)
  | LHiU (h : bytes).       (* ... followed by \u and the hex digits h (fewer than four) *)

Definition lex_step (q : lexst) (b : byte) : lexst :=
  match q with
  | LOut => if b =? 34 then LStr else LOut
  | LStr => if b =? 34 then LOut else if b =? 92 then LEsc else LStr
  | LEsc => if b =? 117 then LU [] else LStr
  | LU h =>
    match h with
    | [a1; a2; a3] => if is_hi_surr (u4_val a1 a2 a3 b) then LHi else LStr
    | _ => LU (h ++ [b])
    end
  | LHi => if b =? 92 then LHiEsc else if b =? 34 then LOut else LStr
  | LHiEsc => if b =? 117 then LHiU [] else LStr
  | LHiU h =>
    match h with
    | [_; _; _] => LStr
    | _ => LHiU (h ++ [b])
    end
  end.

Definition lex (q : lexst) (l : bytes) : lexst := fold_left lex_step l q.

(* the code unit named by the hex digits typed so far, padded with '0' / with the tail of "dc00" *)
Definition pad0 (h : bytes) : N := u4_val (nth 0%nat h 48) (nth 1%nat h 48) (nth 2%nat h 48) 48.
Definition padlo (h : bytes) : N := u4_val (nth 0%nat h 100) (nth 1%nat h 99) (nth 2%nat h 48) 48.

Definition lex_ok (q : lexst) : bool :=
  match q with
  | LU h => forallb hex_byte h && negb (is_lo_surr (pad0 h))
  | LHiU h => forallb hex_byte h && is_lo_surr (padlo h)
  | _ => true
  end.

Lemma lex_app q a b : lex q (a ++ b) = lex (lex q a) b.
Proof. unfold lex. apply fold_left_app. Qed.
Lemma lex_cons q b l : lex q (b :: l) = lex (lex_step q b) l.
Proof. reflexivity. Qed.
Lemma lex_nil q : lex q [] = q.
Proof. reflexivity. Qed.

(* ------------------------------------------------------------------------------------------ *)
(** * 3. Lexically closed texts *)

Definition noq (b : byte) : bool := negb (b =? 34).

Lemma lex_out_noq w : forallb noq w = true -> lex LOut w = LOut.
Proof.
  induction w as [|b w IH]; [reflexivity|]. cbn [forallb]. intros H. apply andb_prop in H as [Hb Hw].
  rewrite lex_cons. cbn [lex_step]. unfold noq in Hb. destruct (b =? 34); [discriminate Hb|]. exact (IH Hw).
Qed.

Lemma ws_noq w : ws_ok w = true -> forallb noq w = true.
Proof. unfold ws_ok. apply forallb_imp. intros x H. unfold ws_byte in H. unfold noq. apply negb_true_iff. lia. Qed.

Lemma lex_out_ws w : ws_ok w = true -> lex LOut w = LOut.
Proof. intros H. apply lex_out_noq, ws_noq, H. Qed.

Lemma digits_noq l : forallb is_digit l = true -> forallb noq l = true.
Proof. apply forallb_imp. intros x H. unfold is_digit in H. unfold noq. apply negb_true_iff. lia. Qed.

Lemma noq_app a b : forallb noq a = true -> forallb noq b = true -> forallb noq (a ++ b) = true.
Proof. intros Ha Hb. rewrite forallb_app, Ha, Hb. reflexivity. Qed.

Lemma render_abs_noq n : num_ok n = true -> forallb noq (render_abs n) = true.
Proof.
  intros Hok. destruct (num_ok_inv n Hok) as (Hint & Hf & Hx). rewrite render_abs_eq.
  apply noq_app; [|apply noq_app].
  - destruct (int_ok_inv _ Hint) as [->|(c & ds & -> & Hc & Hd)]; [reflexivity|].
    cbn [forallb]. rewrite (digits_noq ds Hd). unfold is_digit19 in Hc. unfold noq. lia.
  - destruct (nfrac n) as [f|]; [|reflexivity]. cbn [frac_wf fracl] in *. destruct Hf as [Hf _].
    cbn [forallb]. rewrite (digits_noq f Hf). reflexivity.
  - destruct (nexp n) as [[[e sg] ds]|]; [|reflexivity]. cbn [exp_wf] in Hx.
    destruct Hx as (He & Hsg & c1 & ds' & -> & Hc1 & Hd'). unfold expl. cbn [forallb].
    apply andb_true_intro. split; [unfold noq; lia|]. apply noq_app.
    + destruct sg as [c|]; [|reflexivity]. unfold sg_ok in Hsg. cbn [sgl forallb]. unfold noq. lia.
    + cbn [forallb]. rewrite (digits_noq ds' Hd'). unfold is_digit in Hc1. unfold noq. lia.
Qed.

Lemma render_num_noq n : num_ok n = true -> forallb noq (render_num n) = true.
Proof.
  intros Hok. rewrite render_num_abs. apply noq_app; [destruct (nneg n); reflexivity|apply render_abs_noq, Hok].
Qed.

(* one-step equations of the lexer inside a literal *)
Lemma lex_str_bs x : lex LStr (92 :: x) = lex LEsc x. Proof. reflexivity. Qed.
Lemma lex_str_quote x : lex LStr (34 :: x) = lex LOut x. Proof. reflexivity. Qed.
Lemma lex_out_quote x : lex LOut (34 :: x) = lex LStr x. Proof. reflexivity. Qed.
Lemma lex_esc_u x : lex LEsc (117 :: x) = lex (LU []) x. Proof. reflexivity. Qed.
Lemma lex_u4 a b c d x :
  lex (LU []) (a :: b :: c :: d :: x) = lex (if is_hi_surr (u4_val a b c d) then LHi else LStr) x.
Proof. reflexivity. Qed.
Lemma lex_hi_bs x : lex LHi (92 :: x) = lex LHiEsc x. Proof. reflexivity. Qed.
Lemma lex_hiesc_u x : lex LHiEsc (117 :: x) = lex (LHiU []) x. Proof. reflexivity. Qed.
Lemma lex_hiu4 a b c d x : lex (LHiU []) (a :: b :: c :: d :: x) = lex LStr x. Proof. reflexivity. Qed.
Lemma lex_esc_other c x : (c =? 117) = false -> lex LEsc (c :: x) = lex LStr x.
Proof. intros H. rewrite lex_cons. cbn [lex_step]. rewrite H. reflexivity. Qed.
Lemma lex_str_raw b x : (b =? 34) = false -> (b =? 92) = false -> lex LStr (b :: x) = lex LStr x.
Proof. intros H1 H2. rewrite lex_cons. cbn [lex_step]. rewrite H1, H2. reflexivity. Qed.

(* string literals: the pieces of a well-formed literal with a defined text bring the lexer back to LStr *)
Lemma lex_str_pieces : forall n ps, (length ps <= n)%nat -> str_ok ps = true -> str_decode ps <> None ->
  forall x, lex LStr (flat_map render_piece ps ++ x) = lex LStr x.
Proof.
  induction n as [|n IH]; intros ps Hlen Hok Hdec x.
  { destruct ps; [reflexivity|cbn [length] in Hlen; lia]. }
  destruct ps as [|pc r]; [reflexivity|]. cbn [length] in Hlen.
  unfold str_ok in Hok. cbn [forallb] in Hok. apply andb_prop in Hok as [Hpc Hr]. fold (str_ok r) in Hr.
  cbn [flat_map]. rewrite <- app_assoc.
  destruct pc as [b|c|a b c d]; cbn [render_piece app].
  - cbn [piece_ok] in Hpc. rewrite lex_str_raw by lia.
    apply IH; [lia|exact Hr|]. rewrite str_decode_raw in Hdec. destruct (str_decode r); [discriminate|exact Hdec].
  - cbn [piece_ok] in Hpc. rewrite lex_str_bs, (lex_esc_other c _ (esc_letter_not_u c Hpc)).
    apply IH; [lia|exact Hr|]. rewrite str_decode_esc in Hdec. destruct (str_decode r); [discriminate|exact Hdec].
  - rewrite lex_str_bs, lex_esc_u, lex_u4.
    rewrite str_decode_u4 in Hdec. cbv zeta in Hdec.
    destruct (is_lo_surr (u4_val a b c d)) eqn:Hlo; [exfalso; apply Hdec; reflexivity|].
    destruct (is_hi_surr (u4_val a b c d)) eqn:Hhi.
    + destruct r as [|[y|y|a' b' c' d'] r']; try (exfalso; apply Hdec; reflexivity).
      destruct (is_lo_surr (u4_val a' b' c' d')) eqn:Hlo2; [|exfalso; apply Hdec; reflexivity].
      unfold str_ok in Hr. cbn [forallb] in Hr. apply andb_prop in Hr as [_ Hr']. fold (str_ok r') in Hr'.
      cbn [flat_map render_piece app]. rewrite lex_hi_bs, lex_hiesc_u, lex_hiu4.
      cbn [length] in Hlen. apply IH; [lia|exact Hr'|]. destruct (str_decode r'); [discriminate|exact Hdec].
    + apply IH; [lia|exact Hr|]. destruct (str_decode r); [discriminate|exact Hdec].
Qed.

Lemma str_text_decode ps : str_text ps <> None -> str_decode ps <> None.
Proof. unfold str_text. destruct (str_decode ps); [discriminate|intros H; exact H]. Qed.

Lemma lex_render_str ps : str_ok ps = true -> str_text ps <> None -> lex LOut (render_str ps) = LOut.
Proof.
  intros Hok Ht. unfold render_str. rewrite lex_out_quote.
  rewrite (lex_str_pieces (length ps) ps (Nat.le_refl _) Hok (str_text_decode ps Ht)). reflexivity.
Qed.

(* ------------------------------------------------------------------------------------------ *)
(** * 4. Definedness of the denotation *)

Definition is_some {A} (o : option A) : bool := match o with Some _ => true | None => false end.
Definition defd (cf : cfg) (c : cst) : bool := is_some (denote cf c).
Definition defd_elems (cf : cfg) (es : elems) : bool := is_some (denote_elems cf es).
Definition defd_members (cf : cfg) (ms : members) : bool := is_some (denote_members cf ms).

Lemma is_some_map {A B} (f : A -> B) o : is_some (option_map f o) = is_some o.
Proof. destruct o; reflexivity. Qed.
Lemma is_some_neq {A} (o : option A) : is_some o = true <-> o <> None.
Proof. destruct o; cbn [is_some]; split; intros H; try reflexivity; try discriminate; congruence. Qed.
Lemma is_some_ex {A} (o : option A) : is_some o = true -> exists a, o = Some a.
Proof. destruct o as [a|]; [eauto|discriminate]. Qed.

Lemma defd_num cf n : defd cf (CNum n) = is_some (num_den cf n). Proof. reflexivity. Qed.
Lemma defd_str cf s : defd cf (CStr s) = is_some (str_text s).
Proof. unfold defd. cbn [denote]. apply is_some_map. Qed.
Lemma defd_arr cf w es : defd cf (CArr w es) = defd_elems cf es.
Proof. unfold defd, defd_elems. cbn [denote]. apply is_some_map. Qed.
Lemma defd_obj cf w ms : defd cf (CObj w ms) = defd_members cf ms.
Proof. unfold defd, defd_members. cbn [denote]. apply is_some_map. Qed.
Lemma defd_enil cf : defd_elems cf ENil = true. Proof. reflexivity. Qed.
Lemma defd_mnil cf : defd_members cf MNil = true. Proof. reflexivity. Qed.
Lemma defd_econs cf w1 c w2 r : defd_elems cf (ECons w1 c w2 r) = defd cf c && defd_elems cf r.
Proof. unfold defd, defd_elems. cbn [denote_elems]. destruct (denote cf c); [|reflexivity]. destruct (denote_elems cf r); reflexivity. Qed.
Lemma defd_mcons cf w1 k w2 w3 c w4 r :
  defd_members cf (MCons w1 k w2 w3 c w4 r) = is_some (str_text k) && defd cf c && defd_members cf r.
Proof.
  unfold defd, defd_members. cbn [denote_members]. destruct (str_text k); [|reflexivity].
  destruct (denote cf c); [|reflexivity]. destruct (denote_members cf r); reflexivity.
Qed.
Lemma defd_some cf c v : denote cf c = Some v -> defd cf c = true.
Proof. unfold defd. intros ->. reflexivity. Qed.

(* the three literals and the number 0 *)
Definition nzero : numlit := mkNum false [48] None None.
Lemma zero_defd cf : defd cf (CNum nzero) = true.
Proof. destruct cf as [po fr ap ld]. destruct fr, ap; vm_compute; reflexivity. Qed.

(* a rendered tree with defined denotation is lexically closed *)
Lemma lex_render_all cf :
  (forall c, wfb c = true -> defd cf c = true -> lex LOut (render c) = LOut) /\
  (forall es, wfb_elems es = true -> defd_elems cf es = true -> lex LOut (render_elems es) = LOut) /\
  (forall ms, wfb_members ms = true -> defd_members cf ms = true -> lex LOut (render_members ms) = LOut).
Proof.
  apply cst_elems_members_ind.
  - reflexivity.
  - reflexivity.
  - reflexivity.
  - intros n Hwf _. cbn [wfb] in Hwf. cbn [render]. apply lex_out_noq, render_num_noq, Hwf.
  - intros s Hwf Hd. cbn [wfb] in Hwf. rewrite defd_str in Hd. cbn [render].
    apply lex_render_str; [exact Hwf|]. apply is_some_neq, Hd.
  - intros w es IH Hwf Hd. cbn [wfb] in Hwf. apply andb_prop in Hwf as [Hw Hes]. rewrite defd_arr in Hd.
    rewrite render_arr. rewrite lex_cons. cbn [lex_step]. change (91 =? 34) with false. cbv iota.
    rewrite lex_app. destruct es as [|w1 c w2 rest].
    + cbn [seq_text]. rewrite (lex_out_ws w Hw). reflexivity.
    + cbn [seq_text]. rewrite (IH Hes Hd). reflexivity.
  - intros w ms IH Hwf Hd. cbn [wfb] in Hwf. apply andb_prop in Hwf as [Hw Hms]. rewrite defd_obj in Hd.
    rewrite render_obj. rewrite lex_cons. cbn [lex_step]. change (123 =? 34) with false. cbv iota.
    rewrite lex_app. destruct ms as [|w1 k w2 w3 c w4 rest].
    + cbn [map_text]. rewrite (lex_out_ws w Hw). reflexivity.
    + cbn [map_text]. rewrite (IH Hms Hd). reflexivity.
  - reflexivity.
  - intros w1 c IHc w2 rest IHr Hwf Hd. cbn [wfb_elems] in Hwf.
    apply andb_prop in Hwf as [Hwf Hrest]. apply andb_prop in Hwf as [Hwf Hw2]. apply andb_prop in Hwf as [Hw1 Hc].
    rewrite defd_econs in Hd. apply andb_prop in Hd as [Hdc Hdr].
    rewrite render_elems_cons, !lex_app, (lex_out_ws w1 Hw1), (IHc Hc Hdc), (lex_out_ws w2 Hw2).
    destruct rest as [|w1' c' w2' rest']; [reflexivity|].
    cbn [tail_elems]. rewrite lex_cons. cbn [lex_step]. change (44 =? 34) with false. cbv iota. exact (IHr Hrest Hdr).
  - reflexivity.
  - intros w1 k w2 w3 c IHc w4 rest IHr Hwf Hd. cbn [wfb_members] in Hwf.
    apply andb_prop in Hwf as [Hwf Hrest]. apply andb_prop in Hwf as [Hwf Hw4]. apply andb_prop in Hwf as [Hwf Hc].
    apply andb_prop in Hwf as [Hwf Hw3]. apply andb_prop in Hwf as [Hwf Hw2]. apply andb_prop in Hwf as [Hw1 Hk].
    rewrite defd_mcons in Hd. apply andb_prop in Hd as [Hd Hdr]. apply andb_prop in Hd as [Hdk Hdc].
    rewrite render_members_cons, !lex_app, (lex_out_ws w1 Hw1).
    rewrite (lex_render_str k Hk) by (apply is_some_neq, Hdk). rewrite (lex_out_ws w2 Hw2).
    rewrite lex_cons. cbn [lex_step]. change (58 =? 34) with false. cbv iota.
    rewrite !lex_app, (lex_out_ws w3 Hw3), (IHc Hc Hdc), (lex_out_ws w4 Hw4).
    destruct rest as [|w1' k' w2' w3' c' w4' rest']; [reflexivity|].
    cbn [tail_members]. rewrite lex_cons. cbn [lex_step]. change (44 =? 34) with false. cbv iota. exact (IHr Hrest Hdr).
Qed.

Lemma lex_render cf c : wfb c = true -> defd cf c = true -> lex LOut (render c) = LOut.
Proof. apply (lex_render_all cf). Qed.

(* ------------------------------------------------------------------------------------------ *)
(** * 5. The invariant of the remaining input *)

Definition P256 (x : N) : Prop := x < 256.
Definition conts (cmp : bytes) : Prop := forallb is_cont cmp = true.

Section Inv.
  (* continuation bytes that complete a truncated final UTF-8 sequence *)
  Variable cmp : bytes.
  (* a suffix-closed side condition used by the number layer *)
  Variable HR : bytes -> Prop.
  Hypothesis HR_suffix : forall a b, HR (a ++ b) -> HR b.

  Definition Uok (r : bytes) : Prop := exists a, utf8_valid (a ++ r ++ cmp) = true.

  Definition Inv (r : bytes) : Prop :=
    Forall P256 r /\ Uok r /\ HR r /\ lex_ok (lex LOut r) = true.

  Lemma Inv_skip pre r : lex LOut pre = LOut -> Inv (pre ++ r) -> Inv r.
  Proof.
    intros Hc (HF & (a & Hu) & Hh & Hl). split; [|split; [|split]].
    - apply Forall_app in HF. apply HF.
    - exists (a ++ pre). rewrite <- !app_assoc in *. exact Hu.
    - exact (HR_suffix _ _ Hh).
    - rewrite lex_app, Hc in Hl. exact Hl.
  Qed.

  Lemma Inv_F r : Inv r -> Forall P256 r. Proof. intros H; apply H. Qed.
  Lemma Inv_HR r : Inv r -> HR r. Proof. intros H; apply H. Qed.

  (* at an opening quote: what the string layer needs *)
  Lemma Inv_quote r : Inv (34 :: r) ->
    Forall P256 r /\ utf8_valid (r ++ cmp) = true /\ lex_ok (lex LStr r) = true.
  Proof.
    intros (HF & (a & Hu) & _ & Hl). split; [|split].
    - inversion HF; assumption.
    - cbn [app] in Hu. apply utf8_valid_cut in Hu; [|lia]. apply Hu.
    - exact Hl.
  Qed.
End Inv.
