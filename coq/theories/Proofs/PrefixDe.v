(* Proofs/PrefixDe.v — prefix dichotomy, part 4: Model/De.v (parse_value / parse_seq / parse_map, de_end, from_input). *)
From SJ Require Import Base.Bytes Base.FloatB Gen.Tables Model.Read Model.Str Model.Num Model.Value Model.De.
From SJ Require Import Proofs.PrefixBase Proofs.PrefixStr Proofs.PrefixNum.
Require Import Lia ZifyBool ZifyNat ZifyN.
Open Scope N_scope.

(* the next non-whitespace byte of [s] is [b] *)
Definition at_byte (b : N) (s : st) : Prop :=
  exists r, skipn (span_len is_ws (rest s)) (rest s) = b :: r.

Lemma pw_some E s b s1 : parse_whitespace E s = Ok (Some b, s1) -> at_byte b s /\ live s1.
Proof.
  unfold parse_whitespace, peek, at_byte, live. cbn [rest advance].
  destruct (skipn (span_len is_ws (rest s)) (rest s)) as [|b' r] eqn:Hs.
  - unfold at_end. destruct (tm E); discriminate.
  - intros [= <- <-]. cbn [rest]. split; [eauto|discriminate].
Qed.

Lemma pw_at_byte E s b o s1 : at_byte b s -> parse_whitespace E s = Ok (o, s1) -> o = Some b /\ live s1.
Proof.
  intros (r & Hr). unfold parse_whitespace, peek, live. cbn [rest advance]. rewrite Hr.
  intros [= <- <-]. cbn [rest]. split; [reflexivity|discriminate].
Qed.

Lemma has_next_element_none E first s : has_next_element E first s = Ok None -> at_byte 93 s.
Proof.
  unfold has_next_element. destruct (parse_whitespace E s) as [[o s1]| | |] eqn:Hp; cbn [bind]; try discriminate.
  destruct o as [b|]; [|discriminate].
  destruct (b =? 93) eqn:Eb.
  - intros _. apply N.eqb_eq in Eb. subst b. now apply pw_some in Hp.
  - destruct first; [discriminate|]. destruct (b =? 44); [|discriminate].
    destruct (parse_whitespace E (discard s1)) as [[o2 s2]| | |]; cbn [bind]; try discriminate.
    destruct o2 as [b2|]; [|discriminate]. destruct (b2 =? 93); discriminate.
Qed.

Lemma parse_seq_at_end E : forall f first s vs s', parse_seq f E first s = Ok (vs, s') -> at_byte 93 s'.
Proof.
  induction f as [|f IH]; intros first s vs s'; [discriminate|]. cbn [parse_seq].
  destruct (has_next_element E first s) as [o| | |] eqn:Hh; cbn [bind]; try discriminate.
  destruct o as [s1|].
  - destruct (parse_value f E s1) as [[v s2]| | |]; cbn [bind]; try discriminate.
    destruct (parse_seq f E false s2) as [[vs' s3]| | |] eqn:Hs; cbn [bind]; try discriminate.
    intros [= <- <-]. eapply IH. exact Hs.
  - intros [= <- <-]. eapply has_next_element_none. exact Hh.
Qed.

Lemma leave_rest E s s' : leave E s = Ok s' -> rest s' = rest s.
Proof.
  unfold leave. destruct (limit_disabled (cf E)); [now intros [= <-]|].
  destruct (255 <=? depth s); [discriminate|]. now intros [= <-].
Qed.

Section DichDe.
Variable C : ctx.
Notation rk0 := (c_rk C).
Notation cf0 := (c_cf C).
Notation tm1 := (c_tm1 C).
Notation tm2 := (c_tm2 C).
Notation t := (c_t C).
Notation L := (c_L C).
Notation E1 := (mkEnv (c_rk C) (c_tm1 C) (c_cf C)).
Notation E2 := (mkEnv (c_rk C) (c_tm2 C) (c_cf C)).

Lemma eofish_list : eofish EofWhileParsingList.
Proof. left; reflexivity. Qed.
Lemma eofish_obj : eofish EofWhileParsingObject.
Proof. left; reflexivity. Qed.

(* facts about a successful parse_whitespace in the prefix run *)
Lemma pw_facts s o s1 : parse_whitespace E1 s = Ok (o, s1) ->
  match o with Some _ => live s1 | None => tm1 = TEof end.
Proof.
  intros H. apply parse_whitespace_spec in H. cbn [tm] in H. destruct o.
  - destruct H as (r & Hr & _). unfold live. congruence.
  - tauto.
Qed.

Lemma parse_object_colon_dich s : inv C s ->
  dich C (ShSn C) (parse_object_colon E1 s) (parse_object_colon E2 (ext C s)).
Proof.
  intros Hi. unfold parse_object_colon.
  apply (bind_dichP C (isNone C)); [now apply parse_whitespace_dich| |].
  - intros o s1 Hp Hi1. cbv beta iota. apply pw_facts in Hp. destruct o as [b|].
    + destruct (b =? 58).
      * rewrite discard_ext by assumption. apply retSn_dich. now apply inv_discard.
      * apply peek_error_dich; auto.
    + apply peek_error_dich; [assumption|]. right. split; [assumption|apply eofish_obj].
  - intros o s1 _ Hi1 Ht1 [-> Htm]. cbv beta iota. apply peek_error_eofc; auto using eofish_obj.
Qed.

Lemma end_seq_dich s : inv C s -> at_byte 93 s ->
  dich C (ShSn C) (end_seq E1 s) (end_seq E2 (ext C s)).
Proof.
  intros Hi Hat. unfold end_seq.
  apply (bind_dichP C (isNone C)); [now apply parse_whitespace_dich| |].
  - intros o s1 Hp Hi1. cbv beta iota. destruct (pw_at_byte _ _ _ _ _ Hat Hp) as [-> Hl].
    cbn [N.eqb Pos.eqb]. rewrite discard_ext by assumption. apply retSn_dich. now apply inv_discard.
  - intros o s1 Hp Hi1 Ht1 [-> Htm]. destruct (pw_at_byte _ _ _ _ _ Hat Hp) as [Hc _]. discriminate.
Qed.

Lemma end_map_dich s : inv C s ->
  dich C (ShSn C) (end_map E1 s) (end_map E2 (ext C s)).
Proof.
  intros Hi. unfold end_map.
  apply (bind_dichP C (isNone C)); [now apply parse_whitespace_dich| |].
  - intros o s1 Hp Hi1. cbv beta iota. apply pw_facts in Hp. destruct o as [b|].
    + destruct (b =? 125).
      * rewrite discard_ext by assumption. apply retSn_dich. now apply inv_discard.
      * destruct (b =? 44); apply peek_error_dich; auto.
    + apply peek_error_dich; [assumption|]. right. split; [assumption|apply eofish_obj].
  - intros o s1 _ Hi1 Ht1 [-> Htm]. cbv beta iota. apply peek_error_eofc; auto using eofish_obj.
Qed.

Lemma retO_none_dich : dich C (ShO C) (Ok None) (Ok None).
Proof. cbn [dich ShO iv ex tch option_map]. auto. Qed.
Lemma retO_some_dich s : inv C s -> live s -> dich C (ShO C) (Ok (Some s)) (Ok (Some (ext C s))).
Proof. intros Hi Hl. cbn [dich ShO iv ex tch option_map]. auto. Qed.

Lemma has_next_element_dich first s : inv C s ->
  dich C (ShO C) (has_next_element E1 first s) (has_next_element E2 first (ext C s)).
Proof.
  intros Hi. unfold has_next_element.
  apply (bind_dichP C (isNone C)); [now apply parse_whitespace_dich| |].
  2:{ intros o s1 _ Hi1 Ht1 [-> Htm]. cbv beta iota. apply peek_error_eofc; auto using eofish_list. }
  intros o s1 Hp Hi1. cbv beta iota. apply pw_facts in Hp. destruct o as [b|].
  2:{ apply peek_error_dich; [assumption|]. right. split; [assumption|apply eofish_list]. }
  destruct (b =? 93); [apply retO_none_dich|].
  destruct first; [now apply retO_some_dich|].
  destruct (b =? 44); [|apply peek_error_dich; auto].
  rewrite discard_ext by assumption.
  apply (bind_dichP C (isNone C)); [apply parse_whitespace_dich; now apply inv_discard| |].
  - intros o2 s2 Hp2 Hi2. cbv beta iota. apply pw_facts in Hp2. destruct o2 as [b2|].
    + destruct (b2 =? 93); [apply peek_error_dich; auto|now apply retO_some_dich].
    + apply peek_error_dich; [assumption|]. right. split; [assumption|apply eofish_val].
  - intros o2 s2 _ Hi2 Ht2 [-> Htm]. cbv beta iota. apply peek_error_eofc; auto using eofish_val.
Qed.

Lemma has_next_element_eofc first s : inv C s -> touched s ->
  eofc C (ShO C) (has_next_element E1 first s).
Proof.
  intros Hi Ht. unfold has_next_element.
  apply (bind_eofcP C (isNone C)); [now apply parse_whitespace_eofc|].
  intros o s1 _ Hi1 Ht1 [-> Htm]. cbv beta iota. apply peek_error_eofc; auto using eofish_list.
Qed.

Lemma has_next_key_dich first s : inv C s ->
  dich C (ShO C) (has_next_key E1 first s) (has_next_key E2 first (ext C s)).
Proof.
  intros Hi. unfold has_next_key.
  apply (bind_dichP C (isNone C)); [now apply parse_whitespace_dich| |].
  2:{ intros o s1 _ Hi1 Ht1 [-> Htm]. cbv beta iota. apply peek_error_eofc; auto using eofish_obj. }
  intros o s1 Hp Hi1. cbv beta iota. apply pw_facts in Hp. destruct o as [b|].
  2:{ apply peek_error_dich; [assumption|]. right. split; [assumption|apply eofish_obj]. }
  destruct (b =? 125); [apply retO_none_dich|].
  destruct first.
  { destruct (b =? 34); [now apply retO_some_dich|apply peek_error_dich; auto]. }
  destruct (b =? 44); [|apply peek_error_dich; auto].
  rewrite discard_ext by assumption.
  apply (bind_dichP C (isNone C)); [apply parse_whitespace_dich; now apply inv_discard| |].
  - intros o2 s2 Hp2 Hi2. cbv beta iota. apply pw_facts in Hp2. destruct o2 as [b2|].
    + destruct (b2 =? 34); [now apply retO_some_dich|].
      destruct (b2 =? 125); apply peek_error_dich; auto.
    + apply peek_error_dich; [assumption|]. right. split; [assumption|apply eofish_val].
  - intros o2 s2 _ Hi2 Ht2 [-> Htm]. cbv beta iota. apply peek_error_eofc; auto using eofish_val.
Qed.

Lemma has_next_key_eofc first s : inv C s -> touched s ->
  eofc C (ShO C) (has_next_key E1 first s).
Proof.
  intros Hi Ht. unfold has_next_key.
  apply (bind_eofcP C (isNone C)); [now apply parse_whitespace_eofc|].
  intros o s1 _ Hi1 Ht1 [-> Htm]. cbv beta iota. apply peek_error_eofc; auto using eofish_obj.
Qed.

(* a run of parse_seq / parse_map that starts at the boundary fails there *)
Lemma parse_seq_eofc f first s : inv C s -> touched s -> eofc C (ShP C nov) (parse_seq f E1 first s).
Proof.
  intros Hi Ht. destruct f; [exact I|]. cbn [parse_seq].
  apply (bind_eofc C (ShO C)); [now apply has_next_element_eofc|]. intros x _ _ [].
Qed.
Lemma parse_map_eofc f first s : inv C s -> touched s -> eofc C (ShP C nov) (parse_map f E1 first s).
Proof.
  intros Hi Ht. destruct f; [exact I|]. cbn [parse_map].
  apply (bind_eofc C (ShO C)); [now apply has_next_key_eofc|]. intros x _ _ [].
Qed.

Definition PV f := forall f' s, (f <= f')%nat -> inv C s ->
  dich C (ShP C anyv) (parse_value f E1 s) (parse_value f' E2 (ext C s)).
Definition PS f := forall f' first s, (f <= f')%nat -> inv C s ->
  dich C (ShP C nov) (parse_seq f E1 first s) (parse_seq f' E2 first (ext C s)).
Definition PM f := forall f' first s, (f <= f')%nat -> inv C s ->
  dich C (ShP C nov) (parse_map f E1 first s) (parse_map f' E2 first (ext C s)).

Lemma parse_value_step f : PS f -> PM f -> PV (S f).
Proof.
  intros IHs IHm f' s Hf Hi. destruct f' as [|f']; [lia|]. assert (Hf' : (f <= f')%nat) by lia.
  cbn [parse_value].
  apply (bind_dichP C (isNone C)); [now apply parse_whitespace_dich| |].
  2:{ intros o s1 _ Hi1 Ht1 [-> Htm]. cbv beta iota. apply peek_error_eofc; auto using eofish_val. }
  intros o s1 Hp Hi1. cbv beta iota. apply pw_facts in Hp. destruct o as [b|].
  2:{ apply peek_error_dich; [assumption|]. right. split; [assumption|apply eofish_val]. }
  assert (Hid : inv C (discard s1)) by now apply inv_discard.
  destruct (b =? 110).
  { rewrite discard_ext by assumption. apply bind_dichSn; [now apply parse_ident_dich|].
    intros s2 _ Hi2. now apply ret_dich. }
  destruct (b =? 116).
  { rewrite discard_ext by assumption. apply bind_dichSn; [now apply parse_ident_dich|].
    intros s2 _ Hi2. now apply ret_dich. }
  destruct (b =? 102).
  { rewrite discard_ext by assumption. apply bind_dichSn; [now apply parse_ident_dich|].
    intros s2 _ Hi2. now apply ret_dich. }
  destruct (b =? 45).
  { rewrite discard_ext by assumption. apply (bind_dichP C anyv); [now apply parse_any_number_dich| |].
    - intros p s2 _ Hi2. cbv beta iota. now apply ret_dich.
    - intros p s2 _ Hi2 Ht2 _. cbv beta iota. apply ret_eofc; auto; exact I. }
  destruct (is_digit b).
  { apply (bind_dichP C anyv); [now apply parse_any_number_dich| |].
    - intros p s2 _ Hi2. cbv beta iota. now apply ret_dich.
    - intros p s2 _ Hi2 Ht2 _. cbv beta iota. apply ret_eofc; auto; exact I. }
  destruct (b =? 34).
  { rewrite discard_ext by assumption. apply bind_dich_strict; [now apply parse_str_dich|].
    intros [str bw] s2 _ Hi2. cbv beta iota. now apply ret_dich. }
  destruct (b =? 91).
  { apply bind_dichSn; [now apply enter_dich|]. intros s2 He Hi2.
    apply enter_spec in He. destruct He as [Her _].
    assert (Hl2 : live s2) by (unfold live in *; congruence).
    rewrite discard_ext by assumption.
    apply bind_dich_strict; [apply IHs; [assumption|now apply inv_discard]|].
    intros vs s3 Hps Hi3. cbv beta iota. apply parse_seq_at_end in Hps.
    apply bind_dichSn; [now apply leave_dich|]. intros s4 Hlv Hi4.
    apply leave_rest in Hlv.
    apply bind_dichSn; [apply end_seq_dich; [assumption|]|].
    - unfold at_byte in *. now rewrite Hlv.
    - intros s5 _ Hi5. now apply ret_dich. }
  destruct (b =? 123).
  { apply bind_dichSn; [now apply enter_dich|]. intros s2 He Hi2.
    apply enter_spec in He. destruct He as [Her _].
    assert (Hl2 : live s2) by (unfold live in *; congruence).
    rewrite discard_ext by assumption.
    apply bind_dich_strict; [apply IHm; [assumption|now apply inv_discard]|].
    intros es s3 _ Hi3. cbv beta iota.
    apply bind_dichSn; [now apply leave_dich|]. intros s4 _ Hi4.
    apply bind_dichSn; [now apply end_map_dich|].
    intros s5 _ Hi5. now apply ret_dich. }
  apply peek_error_dich; auto.
Qed.

Lemma parse_seq_step f : PV f -> PS f -> PS (S f).
Proof.
  intros IHv IHs f' first s Hf Hi. destruct f' as [|f']; [lia|]. assert (Hf' : (f <= f')%nat) by lia.
  cbn [parse_seq].
  apply (bind_dich C (ShO C)); [now apply has_next_element_dich| |].
  2:{ intros x _ _ []. }
  intros [s1|] _ Hx; cbn [ShO ex option_map iv] in *; [|now apply ret_dich].
  destruct Hx as [Hi1 Hl1].
  apply (bind_dichP C anyv); [now apply IHv| |].
  - intros v s2 _ Hi2. cbv beta iota.
    apply bind_dich_strict; [now apply IHs|]. intros vs s3 _ Hi3. cbv beta iota. now apply ret_dich.
  - intros v s2 _ Hi2 Ht2 _. cbv beta iota.
    apply (bind_eofcP C nov); [now apply parse_seq_eofc|]. intros vs s3 _ _ _ [].
Qed.

Lemma parse_map_step f : PV f -> PM f -> PM (S f).
Proof.
  intros IHv IHm f' first s Hf Hi. destruct f' as [|f']; [lia|]. assert (Hf' : (f <= f')%nat) by lia.
  cbn [parse_map].
  apply (bind_dich C (ShO C)); [now apply has_next_key_dich| |].
  2:{ intros x _ _ []. }
  intros [s1|] _ Hx; cbn [ShO ex option_map iv] in *; [|now apply ret_dich].
  destruct Hx as [Hi1 Hl1].
  rewrite discard_ext by assumption.
  apply bind_dich_strict; [apply parse_str_dich; now apply inv_discard|].
  intros [k bw] s2 _ Hi2. cbv beta iota.
  apply bind_dichSn; [now apply parse_object_colon_dich|]. intros s3 _ Hi3.
  apply (bind_dichP C anyv); [now apply IHv| |].
  - intros v s4 _ Hi4. cbv beta iota.
    apply bind_dich_strict; [now apply IHm|]. intros es s5 _ Hi5. cbv beta iota. now apply ret_dich.
  - intros v s4 _ Hi4 Ht4 _. cbv beta iota.
    apply (bind_eofcP C nov); [now apply parse_map_eofc|]. intros es s5 _ _ _ [].
Qed.

Lemma parse_all_dich : forall f, PV f /\ PS f /\ PM f.
Proof.
  induction f as [|f (IHv & IHs & IHm)].
  - repeat split; intros ? **; exact I.
  - repeat split; [now apply parse_value_step|now apply parse_seq_step|now apply parse_map_step].
Qed.

Lemma parse_value_dich f f' s : (f <= f')%nat -> inv C s ->
  dich C (ShP C anyv) (parse_value f E1 s) (parse_value f' E2 (ext C s)).
Proof. apply (proj1 (parse_all_dich f)). Qed.

Lemma de_end_dich s : inv C s -> dich C (ShS C) (de_end E1 s) (de_end E2 (ext C s)).
Proof.
  intros Hi. unfold de_end.
  apply (bind_dichP C (isNone C)); [now apply parse_whitespace_dich| |].
  - intros o s1 Hp Hi1. cbv beta iota. apply pw_facts in Hp. destruct o; [|now apply retS_dich].
    apply peek_error_dich; auto.
  - intros o s1 _ Hi1 Ht1 [-> Htm]. cbv beta iota. now apply retS_eofc.
Qed.

Lemma de_end_eofc s : inv C s -> touched s -> eofc C (ShS C) (de_end E1 s).
Proof.
  intros Hi Ht. unfold de_end.
  apply (bind_eofcP C (isNone C)); [now apply parse_whitespace_eofc|].
  intros o s1 _ Hi1 Ht1 [-> Htm]. cbv beta iota. now apply retS_eofc.
Qed.

End DichDe.

(* ---------- the top level ---------- *)
Lemma value_fuel_app p t : (value_fuel p <= value_fuel (p ++ t))%nat.
Proof. unfold value_fuel. rewrite app_length. lia. Qed.

Theorem from_input_dich rk cf tm1 tm2 p t :
  let C := mkCtx rk cf tm1 tm2 t (length p) in
  dich C ShT (from_input (mkEnv rk tm1 cf) p) (from_input (mkEnv rk tm2 cf) (p ++ t)).
Proof.
  intros C. unfold from_input.
  assert (Hi : inv C (init_st p)) by (apply inv_mk; [reflexivity|discriminate]).
  change (init_st (p ++ t)) with (ext C (init_st p)).
  apply (bind_dichP C anyv).
  - apply (parse_value_dich C); [apply value_fuel_app|exact Hi].
  - intros v s1 _ Hi1. cbv beta iota.
    apply (bind_dichS C); [now apply (de_end_dich C)| |].
    + intros s2 _ _. cbn [dich ShT iv tch ex]. auto.
    + intros s2 _ _ _. cbn [eofc ShT iv tch]. auto.
  - intros v s1 _ Hi1 Ht1 _. cbv beta iota.
    apply (bind_eofcS C); [now apply (de_end_eofc C)|].
    intros s2 _ _ _. cbn [eofc ShT iv tch]. auto.
Qed.
