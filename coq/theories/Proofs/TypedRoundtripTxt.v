(* Proofs/TypedRoundtripTxt.v — C04 (typed half), part 1: the meeting point of the serializer and the typed deserializer.

     [txt t d]        the compact JSON text of typed data [d] read at type [t] (a plain recursive printer)
     [dval_ind']      induction principle for the nested type [dval]
     [ser_txt]        the universal Serialize of the harness (Model/SerTyped.v) run through the text serializer
                      (Model/Ser.v, CompactFormatter) exists for every well-typed datum of the universe and prints [txt t d]
     [serialize_txt]  ... in terms of [serialize]: the concatenated buffers are [txt t d]

   No hypothesis on the float printers is needed here. *)
From SJ Require Import Base.Bytes Base.Utf8 Base.FloatB Gen.Tables Model.Read Model.Num Model.Sval Model.Ser Model.ValueSer
  Model.Ty Model.DeTyped Model.SerTyped Spec.Syntax Spec.Denote Spec.Layout
  Proofs.SerUtf8 Proofs.SerBase Proofs.SerRender Proofs.StrEscape.
From SJ Require Import Model.Ser.   (* last: [lift] / [tbind] below are the trace monad's *)
From Coq Require Import Lia.
Open Scope N_scope.

(* ------------------------------------------------------------------------------------------ *)
(** * The compact text *)
Definition esc (s : bytes) : bytes := flat_map render_piece (SerRender.pieces_of s).
Definition qstr (s : bytes) : bytes := 34 :: esc s ++ [34].
Definition quote (t : bytes) : bytes := 34 :: t ++ [34].

Fixpoint items (first : bool) (l : list bytes) : bytes :=
  match l with
  | [] => []
  | x :: r => (if first then [] else [44]) ++ x ++ items false r
  end.
Definition arr_text (l : list bytes) : bytes := 91 :: items true l ++ [93].
Definition obj_text (l : list bytes) : bytes := 123 :: items true l ++ [125].
Definition member (k v : bytes) : bytes := k ++ 58 :: v.

Section Txt.
  Variable fmt32 fmt64 : N -> bytes.

  Fixpoint key_txt (k : kty) (d : dval) {struct k} : bytes :=
    match k, d with
    | KStr, DStr s _ => qstr s
    | KInt _, DInt z => quote (itoa_z z)
    | KBool, DBool b => quote (if b then lit_true else lit_false)
    | KChar, DChar c => qstr (utf8_encode c)
    | KF32, DFloat b => quote (fmt32 (f32_bits_of_f64_bits b))
    | KF64, DFloat b => quote (fmt64 b)
    | KOption k1, DSome d1 => key_txt k1 d1
    | KNewtype k1, DNewtype d1 => key_txt k1 d1
    | KUnitEnum _, DVariant n _ => qstr n
    | _, _ => []
    end.

  Definition fields_txt (txt : ty -> dval -> bytes) (fs : list (bytes * ty)) (l : list dval) : list bytes :=
    zipw (fun f d => member (qstr (fst f)) (txt (snd f) d)) fs l.

  Fixpoint txt (t : ty) (d : dval) {struct d} : bytes :=
    match t, d with
    | TBool, DBool b => if b then lit_true else lit_false
    | TInt _, DInt z => itoa_z z
    | TF32, DFloat b =>
      let b32 := f32_bits_of_f64_bits b in if f32_finite_bits b32 then fmt32 b32 else lit_null
    | TF64, DFloat b => if f64_finite_bits b then fmt64 b else lit_null
    | TChar, DChar c => qstr (utf8_encode c)
    | TStr, DStr s _ | TBorrowedStr, DStr s _ => qstr s
    | TUnit, DUnit | TUnitStruct, DUnit => lit_null
    | TIgnored, _ => lit_null
    | TOption _, DNone => lit_null
    | TOption t1, DSome d1 => txt t1 d1
    | TNewtype t1, DNewtype d1 => txt t1 d1
    | TSeq t1, DSeq l => arr_text (map (fun x => txt t1 x) l)
    | TTuple ts, DSeq l | TTupleStruct ts, DSeq l => arr_text (zipw (fun t0 x => txt t0 x) ts l)
    | TMap k v, DMap l =>
      obj_text (map (fun kv : dval * dval => let '(kd, vd) := kv in member (key_txt k kd) (txt v vd)) l)
    | TStruct fs, DStruct l => obj_text (fields_txt (fun t0 x => txt t0 x) fs l)
    | TEnum vs, DVariant n p =>
      match index_of n vs with
      | Some (_, VUnit) => qstr n
      | Some (_, VNewtype t1) => obj_text [member (qstr n) (txt t1 p)]
      | Some (_, VTuple ts) =>
        match p with DSeq l => obj_text [member (qstr n) (arr_text (zipw (fun t0 x => txt t0 x) ts l))] | _ => [] end
      | Some (_, VStruct fs) =>
        match p with
        | DStruct l => obj_text [member (qstr n) (obj_text (fields_txt (fun t0 x => txt t0 x) fs l))]
        | _ => []
        end
      | None => []
      end
    | _, _ => []
    end.
End Txt.

(* ------------------------------------------------------------------------------------------ *)
(** * Induction on typed data *)
Definition dleaf (d : dval) : Prop :=
  match d with DSome _ | DNewtype _ | DSeq _ | DMap _ | DStruct _ | DVariant _ _ => False | _ => True end.

Definition payload_lists (P : dval -> Prop) (p : dval) : Prop :=
  match p with DSeq l | DStruct l => Forall P l | _ => True end.

Section DvalInd.
  Variable P : dval -> Prop.
  Hypothesis Hleaf : forall d, dleaf d -> P d.
  Hypothesis HSome : forall d, P d -> P (DSome d).
  Hypothesis HNewtype : forall d, P d -> P (DNewtype d).
  Hypothesis HSeq : forall l, Forall P l -> P (DSeq l).
  Hypothesis HMap : forall l, Forall (fun kv => P (fst kv) /\ P (snd kv)) l -> P (DMap l).
  Hypothesis HStruct : forall l, Forall P l -> P (DStruct l).
  Hypothesis HVariant : forall n p, P p -> payload_lists P p -> P (DVariant n p).

  Fixpoint dval_ind' (d : dval) : P d :=
    let go := fix go (l : list dval) : Forall P l :=
      match l with [] => Forall_nil _ | x :: r => Forall_cons _ (dval_ind' x) (go r) end in
    match d with
    | DValue v => Hleaf (DValue v) I
    | DIgnored => Hleaf DIgnored I
    | DRaw s => Hleaf (DRaw s) I
    | DBool b => Hleaf (DBool b) I
    | DInt z => Hleaf (DInt z) I
    | DFloat b => Hleaf (DFloat b) I
    | DChar c => Hleaf (DChar c) I
    | DStr s b => Hleaf (DStr s b) I
    | DBytes b => Hleaf (DBytes b) I
    | DUnit => Hleaf DUnit I
    | DNone => Hleaf DNone I
    | DSome d1 => HSome d1 (dval_ind' d1)
    | DNewtype d1 => HNewtype d1 (dval_ind' d1)
    | DSeq l => HSeq l (go l)
    | DMap l => HMap l ((fix gom (l : list (dval * dval)) : Forall (fun kv => P (fst kv) /\ P (snd kv)) l :=
                           match l with
                           | [] => Forall_nil _
                           | (k, x) :: r => Forall_cons (k, x) (conj (dval_ind' k) (dval_ind' x)) (gom r)
                           end) l)
    | DStruct l => HStruct l (go l)
    | DVariant n p =>
      HVariant n p (dval_ind' p)
        (match p as p0 return payload_lists P p0 with
         | DSeq l => go l
         | DStruct l => go l
         | _ => I
         end)
    end.
End DvalInd.

(* ------------------------------------------------------------------------------------------ *)
(** * Lists *)
Lemma zipw_cons {A B C} (f : A -> B -> C) a la b lb : zipw f (a :: la) (b :: lb) = f a b :: zipw f la lb.
Proof. reflexivity. Qed.
Lemma zipw_nil_r {A B C} (f : A -> B -> C) la : zipw f la [] = [].
Proof. reflexivity. Qed.
Lemma zipw_nil_l {A B C} (f : A -> B -> C) lb : zipw f [] lb = [].
Proof. destruct lb; reflexivity. Qed.

Lemma andl_cons a l : andl (a :: l) = a && andl l.
Proof. reflexivity. Qed.

Lemma index_of_forallb {A} (Q : bytes * A -> bool) (vs : list (bytes * A)) : forall n i v,
  forallb Q vs = true -> index_of n vs = Some (i, v) -> Q (n, v) = true.
Proof.
  induction vs as [|[n0 a] vs IH]; intros n i v HQ Hi; cbn [index_of] in Hi; [discriminate Hi|].
  cbn [forallb] in HQ. apply andb_prop in HQ as [H0 HQ].
  destruct (beq_bytes n n0) eqn:Hb.
  - injection Hi as _ <-. apply beq_bytes_eq in Hb. subst n0. exact H0.
  - destruct (index_of n vs) as [[i' a']|] eqn:Hi'; [|discriminate Hi]. injection Hi as _ <-. exact (IH n i' a' HQ Hi').
Qed.

Lemma fields_ok_inv iu fs : fields_ok iu fs = true ->
  nodupb (map fst fs) = true /\ forallb (fun f => utf8_valid (fst f) && iu (snd f)) fs = true.
Proof. unfold fields_ok. intros H. apply andb_prop in H. exact H. Qed.

(* ------------------------------------------------------------------------------------------ *)
(** * The serializer prints [txt] *)
Section SerSide.
  Variable cf : cfg.
  Variable fmt32 fmt64 : N -> bytes.
  Notation ser := (ser cf fmt32 fmt64 Compact).
  Notation txt := (txt fmt32 fmt64).
  Notation key_txt := (key_txt fmt32 fmt64).

  Definition Prints (sv : sval) (x : bytes) : Prop := forall st, Run (ser sv st) x st.

  Lemma Run_liftc {S} (bufs : list bytes) (s : S) out : concat bufs = out -> Run (lift (bufs, s)) out s.
  Proof. intros <-. exact (Run_lift (bufs, s)). Qed.

  Lemma Run_sep first st : Run (lift (begin_array_value Compact first st)) (if first then [] else [44]) st.
  Proof. destruct first; apply Run_liftc; reflexivity. Qed.
  Lemma Run_sepk first st : Run (lift (begin_object_key Compact first st)) (if first then [] else [44]) st.
  Proof. destruct first; apply Run_liftc; reflexivity. Qed.

  Lemma Run_qstr s : Run (format_escaped_str s) (qstr s) tt.
  Proof. exact (Run_str s). Qed.
  Lemma Run_quote t : Run (quoted (twrite t)) (quote t) tt.
  Proof. eapply Run_eq; [apply Run_quoted|]. unfold render_str, quote. rewrite render_raw_pieces. reflexivity. Qed.

  (* ---- element loop ---- *)
  Lemma elems_prints svs xs : Forall2 Prints svs xs -> forall cs st,
    Run (ser_elems Compact ser svs cs st) (items (is_first cs) xs) (match svs with [] => cs | _ => Rest end, st).
  Proof.
    induction 1 as [|sv x svs xs Hsv _ IH]; intros cs st; cbn [ser_elems items].
    - apply Run_ret.
    - eapply Run_bind; [apply Run_sep|].
      eapply Run_bind; [apply Hsv|].
      eapply Run_eq.
      + eapply Run_bind; [apply (Run_liftc [] st []); reflexivity|].
        specialize (IH Rest st). cbn [is_first] in IH.
        assert (Er : (match svs with [] => Rest | _ => Rest end) = Rest) by (destruct svs; reflexivity).
        rewrite Er in IH. exact IH.
      + reflexivity.
  Qed.

  Definition seq_body (es : list sval) (st : fstate) : tr fstate :=
    Ser.tbind (open_seq Compact (Some (length es)) st) (fun p => let '(cs, st1) := p in
    Ser.tbind (ser_elems Compact ser es cs st1) (fun q => let '(cs2, st2) := q in close_seq Compact cs2 st2)).

  Lemma seq_body_prints svs xs : Forall2 Prints svs xs -> forall st, Run (seq_body svs st) (arr_text xs) st.
  Proof.
    intros H st. unfold seq_body. destruct H as [|sv x svs xs Hsv Hr].
    - cbn [length open_seq is_some0]. eapply Run_eq.
      + eapply Run_bind.
        * eapply Run_bind; [apply (Run_liftc [[91]] st [91]); reflexivity|].
          eapply Run_bind; [apply (Run_liftc [[93]] st [93]); reflexivity|apply Run_ret].
        * cbn [ser_elems]. eapply Run_bind; [apply Run_ret|]. cbn [close_seq]. apply Run_ret.
      + reflexivity.
    - cbn [length open_seq is_some0]. eapply Run_eq.
      + eapply Run_bind.
        * eapply Run_bind; [apply (Run_liftc [[91]] st [91]); reflexivity|apply Run_ret].
        * eapply Run_bind; [apply (elems_prints (sv :: svs) (x :: xs) (Forall2_cons _ _ Hsv Hr) First st)|].
          cbn [close_seq]. apply (Run_liftc [[93]] st [93]). reflexivity.
      + unfold arr_text. cbn [is_first app]. rewrite ?app_nil_r, <- ?app_assoc. reflexivity.
  Qed.

  (* ---- entry loop ---- *)
  Definition EntryPrints {K} (serkey : K -> tr unit) (kv : K * sval) (x : bytes) : Prop :=
    exists kx vx, x = member kx vx /\ Run (serkey (fst kv)) kx tt /\ Prints (snd kv) vx.

  Lemma entries_prints {K} (serkey : K -> tr unit) kvs xs : Forall2 (EntryPrints serkey) kvs xs -> forall cs st,
    Run (ser_entries Compact ser serkey kvs cs st) (items (is_first cs) xs) (match kvs with [] => cs | _ => Rest end, st).
  Proof.
    induction 1 as [|[k v] x kvs xs (kx & vx & -> & Hk & Hv) _ IH]; intros cs st; cbn [ser_entries items].
    - apply Run_ret.
    - cbn [fst snd] in Hk, Hv.
      eapply Run_bind; [apply Run_sepk|].
      eapply Run_eq.
      + eapply Run_bind; [exact Hk|].
        eapply Run_bind; [apply (Run_liftc [] st []); reflexivity|].
        eapply Run_bind; [apply (Run_liftc [[58]] st [58]); reflexivity|].
        eapply Run_bind; [apply Hv|].
        eapply Run_bind; [apply (Run_liftc [] st []); reflexivity|].
        specialize (IH Rest st). cbn [is_first] in IH.
        assert (Er : (match kvs with [] => Rest | _ => Rest end) = Rest) by (destruct kvs; reflexivity).
        rewrite Er in IH. exact IH.
      + unfold member. rewrite <- !app_assoc. reflexivity.
  Qed.

  Definition map_body {K} (serkey : K -> tr unit) (kvs : list (K * sval)) (st : fstate) : tr fstate :=
    Ser.tbind (open_map Compact (Some (length kvs)) st) (fun p => let '(cs, st1) := p in
    Ser.tbind (ser_entries Compact ser serkey kvs cs st1) (fun q => let '(cs2, st2) := q in close_map Compact cs2 st2)).

  Lemma map_body_prints {K} (serkey : K -> tr unit) kvs xs : Forall2 (EntryPrints serkey) kvs xs ->
    forall st, Run (map_body serkey kvs st) (obj_text xs) st.
  Proof.
    intros H st. unfold map_body. destruct H as [|kv x kvs xs Hkv Hr].
    - cbn [length open_map is_some0]. eapply Run_eq.
      + eapply Run_bind.
        * eapply Run_bind; [apply (Run_liftc [[123]] st [123]); reflexivity|].
          eapply Run_bind; [apply (Run_liftc [[125]] st [125]); reflexivity|apply Run_ret].
        * cbn [ser_entries]. eapply Run_bind; [apply Run_ret|]. cbn [close_map]. apply Run_ret.
      + reflexivity.
    - cbn [length open_map is_some0]. eapply Run_eq.
      + eapply Run_bind.
        * eapply Run_bind; [apply (Run_liftc [[123]] st [123]); reflexivity|apply Run_ret].
        * eapply Run_bind; [apply (entries_prints serkey (kv :: kvs) (x :: xs) (Forall2_cons _ _ Hkv Hr) First st)|].
          destruct kv as [k v]. cbn [close_map]. apply (Run_liftc [[125]] st [125]). reflexivity.
      + unfold obj_text. cbn [is_first app]. rewrite ?app_nil_r, <- ?app_assoc. reflexivity.
  Qed.

  (* ---- variants ---- *)
  Lemma open_variant_run n st : Run (open_variant Compact n st) (123 :: qstr n ++ [58]) st.
  Proof.
    unfold open_variant. eapply Run_eq.
    - eapply Run_bind; [apply (Run_liftc [[123]] st [123]); reflexivity|].
      eapply Run_bind; [apply (Run_liftc [] st []); reflexivity|].
      eapply Run_bind; [apply Run_qstr|].
      eapply Run_bind; [apply (Run_liftc [] st []); reflexivity|].
      apply (Run_liftc [[58]] st [58]). reflexivity.
    - reflexivity.
  Qed.
  Lemma close_variant_run st : Run (close_variant Compact st) [125] st.
  Proof.
    unfold close_variant. eapply Run_eq.
    - eapply Run_bind; [apply (Run_liftc [] st []); reflexivity|]. apply (Run_liftc [[125]] st [125]). reflexivity.
    - reflexivity.
  Qed.

  Lemma variant_text n x : obj_text [member (qstr n) x] = (123 :: qstr n ++ [58]) ++ x ++ [125].
  Proof. unfold obj_text, member. cbn [items app]. rewrite app_nil_r, <- !app_assoc. reflexivity. Qed.

  Lemma newtype_variant_prints n sv x : Prints sv x -> Prints (SNewtypeVariant n sv) (obj_text [member (qstr n) x]).
  Proof.
    intros H st. rewrite variant_text. cbn [Ser.ser].
    eapply Run_bind; [apply open_variant_run|]. eapply Run_bind; [apply H|apply close_variant_run].
  Qed.

  Lemma tuple_variant_prints n svs xs : Forall2 Prints svs xs ->
    Prints (STupleVariant n svs) (obj_text [member (qstr n) (arr_text xs)]).
  Proof.
    intros H st. rewrite variant_text. cbn [Ser.ser].
    eapply Run_bind; [apply open_variant_run|].
    pose proof (seq_body_prints svs xs H st) as HB. unfold seq_body in HB.
    destruct HB as (o & HE & HC).
    destruct (open_seq Compact (Some (length svs)) st) as [o1 [[cs st1]| | |]] eqn:E1; cbn [Ser.tbind] in HE |- *; try discriminate HE.
    destruct (ser_elems Compact ser svs cs st1) as [o2 [[cs2 st2]| | |]] eqn:E2; cbn [Ser.tbind] in HE |- *; try discriminate HE.
    destruct (close_seq Compact cs2 st2) as [o3 [st3| | |]] eqn:E3; cbn [Ser.tbind] in HE |- *; try discriminate HE.
    injection HE as Ho Hst. subst st3.
    pose proof (close_variant_run st) as (o4 & E4 & C4). rewrite E4.
    eexists. split; [reflexivity|]. rewrite <- Ho in HC. rewrite !concat_app in *. rewrite C4.
    rewrite <- HC, <- !app_assoc. reflexivity.
  Qed.

  Lemma struct_variant_prints n kvs xs : Forall2 (EntryPrints format_escaped_str) kvs xs ->
    Prints (SStructVariant n kvs) (obj_text [member (qstr n) (obj_text xs)]).
  Proof.
    intros H st. rewrite variant_text. cbn [Ser.ser].
    eapply Run_bind; [apply open_variant_run|].
    pose proof (map_body_prints format_escaped_str kvs xs H st) as HB. unfold map_body in HB.
    destruct HB as (o & HE & HC).
    destruct (open_map Compact (Some (length kvs)) st) as [o1 [[cs st1]| | |]] eqn:E1; cbn [Ser.tbind] in HE |- *; try discriminate HE.
    destruct (ser_entries Compact ser format_escaped_str kvs cs st1) as [o2 [[cs2 st2]| | |]] eqn:E2; cbn [Ser.tbind] in HE |- *; try discriminate HE.
    destruct (close_map Compact cs2 st2) as [o3 [st3| | |]] eqn:E3; cbn [Ser.tbind] in HE |- *; try discriminate HE.
    injection HE as Ho Hst. subst st3.
    pose proof (close_variant_run st) as (o4 & E4 & C4). rewrite E4.
    eexists. split; [reflexivity|]. rewrite <- Ho in HC. rewrite !concat_app in *. rewrite C4.
    rewrite <- HC, <- !app_assoc. reflexivity.
  Qed.

  (* ---- scalars ---- *)
  Lemma scalar_prints (m : tr unit) x : Run m x tt -> forall st : fstate, Run (Ser.tbind m (fun _ => tret st)) x st.
  Proof. intros H st. eapply Run_eq; [eapply Run_bind; [exact H|apply Run_ret]|apply app_nil_r]. Qed.

  (* ---- map keys ---- *)
  Lemma key_prints : forall k d, key_in_universe k = true -> key_has_type k d = true ->
    exists sv, sval_of_key k d = Some sv /\ Run (key_ser fmt32 fmt64 sv) (key_txt k d) tt.
  Proof.
    induction k as [| it | | | | |k1 IH|k1 IH|names]; intros d HU HT; cbn [key_in_universe] in HU; try discriminate HU;
      destruct d; cbn [key_has_type] in HT; try discriminate HT; cbn [sval_of_key key_txt].
    - rewrite HT. eexists. split; [reflexivity|]. cbn [key_ser]. apply Run_qstr.
    - rewrite HT. eexists. split; [reflexivity|]. cbn [key_ser]. apply Run_quote.
    - eexists. split; [reflexivity|]. cbn [key_ser]. unfold write_bool. apply Run_quote.
    - rewrite HT. eexists. split; [reflexivity|]. cbn [key_ser]. apply Run_qstr.
    - destruct (IH d HU HT) as (sv & Hsv & HR). rewrite Hsv. eexists. split; [reflexivity|]. cbn [key_ser]. exact HR.
  Qed.

  (* ---- list helpers: from the induction hypothesis on the elements to Forall2 on the calls ---- *)
  Definition Pd (d : dval) : Prop := forall t, in_universe t = true -> has_type t d = true ->
    exists sv, sval_of_dval t d = Some sv /\ Prints sv (txt t d).

  Lemma map_prints t l : Forall Pd l -> in_universe t = true -> forallb (fun x => has_type t x) l = true ->
    exists svs, sequence (map (fun x => sval_of_dval t x) l) = Some svs /\ length svs = length l /\
                Forall2 Prints svs (map (fun x => txt t x) l).
  Proof.
    intros HP HU. induction HP as [|x l Hx _ IH]; intros HT; cbn [map sequence forallb] in *.
    - exists []. repeat split. constructor.
    - apply andb_prop in HT as [HTx HTl]. destruct (Hx t HU HTx) as (sv & Hsv & Hp). destruct (IH HTl) as (svs & Hs & Hl & Hf).
      rewrite Hsv, Hs. exists (sv :: svs). split; [reflexivity|]. split; [cbn [length]; congruence|]. constructor; assumption.
  Qed.

  Lemma zip_prints l : Forall Pd l -> forall ts, forallb in_universe ts = true ->
    andl (zipw (fun t0 x => has_type t0 x) ts l) = true -> length ts = length l ->
    exists svs, sequence (zipw (fun t0 x => sval_of_dval t0 x) ts l) = Some svs /\ length svs = length l /\
                Forall2 Prints svs (zipw (fun t0 x => txt t0 x) ts l).
  Proof.
    induction 1 as [|x l Hx _ IH]; intros ts HU HT HL; destruct ts as [|t ts]; try discriminate HL.
    - exists []. repeat split. constructor.
    - rewrite !zipw_cons in *. rewrite andl_cons in HT. cbn [forallb] in HU. cbn [sequence].
      apply andb_prop in HT as [HTx HTl]. apply andb_prop in HU as [HUt HUl]. injection HL as HL.
      destruct (Hx t HUt HTx) as (sv & Hsv & Hp). destruct (IH ts HUl HTl HL) as (svs & Hs & Hl & Hf).
      rewrite Hsv, Hs. exists (sv :: svs). split; [reflexivity|]. split; [cbn [length]; congruence|]. constructor; assumption.
  Qed.

  Lemma fields_prints l : Forall Pd l -> forall fs, forallb (fun f => utf8_valid (fst f) && in_universe (snd f)) fs = true ->
    andl (zipw (fun f x => has_type (snd f) x) fs l) = true -> length fs = length l ->
    exists svs, sequence (zipw (fun f x => sval_of_dval (snd f) x) fs l) = Some svs /\ length svs = length l /\
                Forall2 (EntryPrints format_escaped_str) (mk_fields fs svs) (fields_txt (fun t0 x => txt t0 x) fs l).
  Proof.
    induction 1 as [|x l Hx _ IH]; intros fs HU HT HL; destruct fs as [|[n t] fs]; try discriminate HL.
    - exists []. repeat split. constructor.
    - unfold fields_txt, mk_fields in *. rewrite !zipw_cons in *. rewrite andl_cons in HT. cbn [forallb fst snd] in HU. cbn [sequence fst snd].
      apply andb_prop in HT as [HTx HTl]. apply andb_prop in HU as [HUt HUl]. apply andb_prop in HUt as [_ HUt]. injection HL as HL.
      destruct (Hx t HUt HTx) as (sv & Hsv & Hp). destruct (IH fs HUl HTl HL) as (svs & Hs & Hl & Hf).
      rewrite Hsv, Hs. exists (sv :: svs). split; [reflexivity|]. split; [cbn [length]; congruence|].
      cbn [option_map]. rewrite zipw_cons. constructor; [|exact Hf].
      exists (qstr n), (txt t x). cbn [fst snd]. split; [reflexivity|]. split; [apply Run_qstr|exact Hp].
  Qed.

  Lemma entries_list_prints k v l : Forall (fun kv => Pd (fst kv) /\ Pd (snd kv)) l ->
    key_in_universe k = true -> in_universe v = true ->
    forallb (fun kv : dval * dval => let '(kd, vd) := kv in key_has_type k kd && has_type v vd) l = true ->
    exists kvs, sequence (map (fun kv : dval * dval =>
                        let '(kd, vd) := kv in
                        match sval_of_key k kd, sval_of_dval v vd with
                        | Some a, Some b => Some (a, b)
                        | _, _ => None
                        end) l) = Some kvs /\ length kvs = length l /\
                Forall2 (EntryPrints (key_ser fmt32 fmt64)) kvs
                  (map (fun kv : dval * dval => let '(kd, vd) := kv in member (key_txt k kd) (txt v vd)) l).
  Proof.
    intros HP HK HV. induction HP as [|[kd vd] l [_ Hx] _ IH]; intros HT; cbn [map sequence forallb fst snd] in *.
    - exists []. repeat split. constructor.
    - apply andb_prop in HT as [HTx HTl]. apply andb_prop in HTx as [HTk HTv].
      destruct (key_prints k kd HK HTk) as (sk & Hsk & Hpk). destruct (Hx v HV HTv) as (sv & Hsv & Hp).
      destruct (IH HTl) as (kvs & Hs & Hl & Hf).
      rewrite Hsk, Hsv, Hs. exists ((sk, sv) :: kvs). split; [reflexivity|]. split; [cbn [length]; congruence|].
      constructor; [|exact Hf]. exists (key_txt k kd), (txt v vd). cbn [fst snd]. auto.
  Qed.

  Lemma mk_fields_length fs svs : length fs = length svs -> length (mk_fields fs svs) = length svs.
  Proof.
    unfold mk_fields. revert fs. induction svs as [|sv svs IH]; intros fs H; destruct fs as [|f fs]; try discriminate H; [reflexivity|].
    rewrite zipw_cons. cbn [length]. f_equal. apply IH. injection H as H. exact H.
  Qed.

  (* ---- the theorem ---- *)
  Theorem ser_txt : forall d t, in_universe t = true -> has_type t d = true ->
    exists sv, sval_of_dval t d = Some sv /\ Prints sv (txt t d).
  Proof.
    induction d as [d Hl|d IH|d IH|l IH|l IH|l IH|n p IHp IHl] using dval_ind'; intros t HU HT.
    - (* leaves *)
      destruct d; try contradiction Hl; clear Hl;
        destruct t; cbn [in_universe] in HU; try discriminate HU; cbn [has_type] in HT; try discriminate HT;
        cbn [sval_of_dval txt]; rewrite ?HT.
      + (* bool *) eexists. split; [reflexivity|]. intros st. cbn [Ser.ser]. apply scalar_prints. apply Run_write.
      + (* int *) eexists. split; [reflexivity|]. intros st. cbn [Ser.ser]. apply scalar_prints. apply Run_write.
      + (* f32 *) eexists. split; [reflexivity|]. intros st. cbn [Ser.ser]. apply scalar_prints.
        destruct (f32_finite_bits (f32_bits_of_f64_bits bits)); apply Run_write.
      + (* f64 *) eexists. split; [reflexivity|]. intros st. cbn [Ser.ser]. apply scalar_prints.
        destruct (f64_finite_bits bits); apply Run_write.
      + (* char *) eexists. split; [reflexivity|]. intros st. cbn [Ser.ser]. apply scalar_prints. apply Run_qstr.
      + (* String *) eexists. split; [reflexivity|]. intros st. cbn [Ser.ser]. apply scalar_prints. apply Run_qstr.
      + (* &str *) eexists. split; [reflexivity|]. intros st. cbn [Ser.ser]. apply scalar_prints. apply Run_qstr.
      + (* unit *) eexists. split; [reflexivity|]. intros st. cbn [Ser.ser]. apply scalar_prints. apply Run_write.
      + (* unit struct *) eexists. split; [reflexivity|]. intros st. cbn [Ser.ser]. apply scalar_prints. apply Run_write.
      + (* None *) eexists. split; [reflexivity|]. intros st. cbn [Ser.ser]. apply scalar_prints. apply Run_write.
    - (* Some *)
      destruct t; cbn [in_universe] in HU; try discriminate HU; cbn [has_type] in HT; try discriminate HT.
      destruct (IH t HU HT) as (sv & Hsv & Hp). cbn [sval_of_dval txt]. rewrite Hsv. eexists. split; [reflexivity|].
      intros st. cbn [Ser.ser]. apply Hp.
    - (* newtype *)
      destruct t; cbn [in_universe] in HU; try discriminate HU; cbn [has_type] in HT; try discriminate HT.
      destruct (IH t HU HT) as (sv & Hsv & Hp). cbn [sval_of_dval txt]. rewrite Hsv. eexists. split; [reflexivity|].
      intros st. cbn [Ser.ser]. apply Hp.
    - (* seq / tuple / tuple struct *)
      destruct t; cbn [in_universe] in HU; try discriminate HU; cbn [has_type] in HT; try discriminate HT; cbn [sval_of_dval txt].
      + destruct (map_prints t l IH HU HT) as (svs & Hs & Hl & Hf). rewrite Hs. eexists. split; [reflexivity|].
        intros st. cbn [Ser.ser]. rewrite <- Hl. exact (seq_body_prints svs _ Hf st).
      + apply andb_prop in HT as [HL HT]. rewrite HL. apply Nat.eqb_eq in HL.
        destruct (zip_prints l IH ts HU HT HL) as (svs & Hs & Hl & Hf). rewrite Hs. eexists. split; [reflexivity|].
        intros st. cbn [Ser.ser]. exact (seq_body_prints svs _ Hf st).
      + apply andb_prop in HT as [HL HT]. rewrite HL. apply Nat.eqb_eq in HL.
        destruct (zip_prints l IH ts HU HT HL) as (svs & Hs & Hl & Hf). rewrite Hs. eexists. split; [reflexivity|].
        intros st. cbn [Ser.ser]. exact (seq_body_prints svs _ Hf st).
    - (* map *)
      destruct t; cbn [in_universe] in HU; try discriminate HU; cbn [has_type] in HT; try discriminate HT; cbn [sval_of_dval txt].
      apply andb_prop in HU as [HK HV].
      destruct (entries_list_prints k t l IH HK HV HT) as (kvs & Hs & Hl & Hf). rewrite Hs. eexists. split; [reflexivity|].
      intros st. cbn [Ser.ser]. rewrite <- Hl. exact (map_body_prints _ kvs _ Hf st).
    - (* struct *)
      destruct t; cbn [in_universe] in HU; try discriminate HU; cbn [has_type] in HT; try discriminate HT; cbn [sval_of_dval txt].
      apply fields_ok_inv in HU as [_ HU]. apply andb_prop in HT as [HL HT]. rewrite HL. apply Nat.eqb_eq in HL.
      destruct (fields_prints l IH fields HU HT HL) as (svs & Hs & Hl & Hf). rewrite Hs. eexists. split; [reflexivity|].
      intros st. cbn [Ser.ser]. cbn [option_map].
      pose proof (map_body_prints format_escaped_str _ _ Hf st) as HB. unfold map_body in HB.
      rewrite mk_fields_length in HB |- * by congruence.
      exact HB.
    - (* variant *)
      destruct t; cbn [in_universe] in HU; try discriminate HU; cbn [has_type] in HT; try discriminate HT; cbn [sval_of_dval txt].
      destruct (index_of n variants) as [[i v]|] eqn:Hi; [|discriminate HT].
      pose proof (index_of_forallb _ variants n i v HU Hi) as HQ. cbn [fst snd] in HQ. apply andb_prop in HQ as [Hn HQ].
      destruct v as [|t1|ts|fs].
      + destruct p; try discriminate HT. eexists. split; [reflexivity|]. intros st. cbn [Ser.ser]. apply scalar_prints. apply Run_qstr.
      + destruct (IHp t1 HQ HT) as (sv & Hsv & Hp). rewrite Hsv. eexists. split; [reflexivity|]. apply newtype_variant_prints, Hp.
      + destruct p; try discriminate HT. apply andb_prop in HT as [HL HT]. rewrite HL. apply Nat.eqb_eq in HL.
        destruct (zip_prints l IHl ts HQ HT HL) as (svs & Hs & Hl & Hf). rewrite Hs. eexists. split; [reflexivity|].
        apply tuple_variant_prints, Hf.
      + destruct p; try discriminate HT. apply fields_ok_inv in HQ as [_ HQ]. apply andb_prop in HT as [HL HT]. rewrite HL. apply Nat.eqb_eq in HL.
        destruct (fields_prints l IHl fs HQ HT HL) as (svs & Hs & Hl & Hf). rewrite Hs. eexists. split; [reflexivity|].
        apply struct_variant_prints, Hf.
  Qed.

  (* in terms of [serialize]: the Serialize impl succeeds and the concatenated buffers are [txt t d] *)
  Theorem serialize_txt : forall t d, in_universe t = true -> has_type t d = true ->
    exists sv bufs, sval_of_dval t d = Some sv /\ serialize cf fmt32 fmt64 Compact sv = Ok bufs /\ concat bufs = txt t d.
  Proof.
    intros t d HU HT. destruct (ser_txt d t HU HT) as (sv & Hsv & Hp). destruct (Hp fs0) as (o & HE & HC).
    exists sv, o. split; [exact Hsv|]. unfold serialize, serialize_trace. rewrite HE. cbn [Ser.tbind tret]. rewrite app_nil_r. auto.
  Qed.

  Corollary serialize_txt_inv : forall t d sv bufs, in_universe t = true -> has_type t d = true ->
    sval_of_dval t d = Some sv -> serialize cf fmt32 fmt64 Compact sv = Ok bufs -> concat bufs = txt t d.
  Proof.
    intros t d sv bufs HU HT Hsv Hser. destruct (serialize_txt t d HU HT) as (sv' & bufs' & Hsv' & Hser' & HC).
    rewrite Hsv in Hsv'. injection Hsv' as <-. rewrite Hser in Hser'. injection Hser' as <-. exact HC.
  Qed.

  (* the typing judgement is exactly "the Serialize impl does not return Err(bad(..))" on the universe *)
  Corollary has_type_sval : forall t d, in_universe t = true -> has_type t d = true -> exists sv, sval_of_dval t d = Some sv.
  Proof. intros t d HU HT. destruct (ser_txt d t HU HT) as (sv & Hsv & _). eauto. Qed.
End SerSide.

(* ------------------------------------------------------------------------------------------ *)
(** * The typing judgement is not stronger than "the Serialize impl does not return Err(bad(..))" *)
Lemma option_map_some {A B} (g : A -> B) (o : option A) b : option_map g o = Some b -> exists a, o = Some a.
Proof. destruct o as [a|]; [eauto|discriminate]. Qed.

Lemma sval_key_has_type : forall k d sv, sval_of_key k d = Some sv -> key_has_type k d = true.
Proof.
  induction k as [| it | | | | |k1 IH|k1 IH|names]; intros d sv H; destruct d; cbn [sval_of_key] in H; try discriminate H;
    cbn [key_has_type]; try reflexivity.
  - destruct (utf8_valid s); [reflexivity|discriminate H].
  - destruct (in_range it z); [reflexivity|discriminate H].
  - destruct (is_scalar scalar); [reflexivity|discriminate H].
  - destruct (is_u64 bits); [reflexivity|discriminate H].
  - destruct (is_u64 bits); [reflexivity|discriminate H].
  - apply option_map_some in H as [a Ha]. exact (IH d a Ha).
  - apply option_map_some in H as [a Ha]. exact (IH d a Ha).
  - destruct (name_index name names); [reflexivity|discriminate H].
Qed.

Definition Ph (d : dval) : Prop := forall t sv, sval_of_dval t d = Some sv -> has_type t d = true.

Lemma seq_zip_has_type {A} (f : A -> dval -> option sval) (g : A -> dval -> bool) l :
  Forall (fun x => forall a sv, f a x = Some sv -> g a x = true) l ->
  forall la svs, sequence (zipw f la l) = Some svs -> andl (zipw g la l) = true.
Proof.
  induction 1 as [|x l Hx _ IH]; intros la svs H; destruct la as [|a la]; rewrite ?zipw_nil_l, ?zipw_nil_r; try reflexivity.
  rewrite zipw_cons in H. rewrite zipw_cons, andl_cons. cbn [sequence] in H.
  destruct (f a x) as [sv|] eqn:Hf; [|discriminate H]. apply option_map_some in H as [r Hr].
  rewrite (Hx a sv Hf), (IH la r Hr). reflexivity.
Qed.

Theorem sval_has_type : forall d t sv, sval_of_dval t d = Some sv -> has_type t d = true.
Proof.
  induction d as [d Hl|d IH|d IH|l IH|l IH|l IH|n p IHp IHl] using dval_ind'; intros t sv H.
  - destruct d; try contradiction Hl; destruct t; cbn [sval_of_dval] in H; try discriminate H; cbn [has_type]; try reflexivity.
    + destruct (in_range t z); [reflexivity|discriminate H].
    + destruct (is_u64 bits); [reflexivity|discriminate H].
    + destruct (is_u64 bits); [reflexivity|discriminate H].
    + destruct (is_scalar scalar); [reflexivity|discriminate H].
    + destruct (utf8_valid s); [reflexivity|discriminate H].
    + destruct (utf8_valid s); [reflexivity|discriminate H].
    + destruct (forallb (fun x => x <? 256) b); [reflexivity|discriminate H].
  - destruct t; cbn [sval_of_dval] in H; try discriminate H; cbn [has_type]; try reflexivity.
    apply option_map_some in H as [a Ha]. exact (IH t a Ha).
  - destruct t; cbn [sval_of_dval] in H; try discriminate H; cbn [has_type]; try reflexivity.
    apply option_map_some in H as [a Ha]. exact (IH t a Ha).
  - destruct t; cbn [sval_of_dval] in H; try discriminate H; cbn [has_type]; try reflexivity.
    + apply option_map_some in H as [svs Hs]. revert svs Hs.
      induction IH as [|x l Hx _ IHl]; intros svs Hs; [reflexivity|]. cbn [map sequence forallb] in *.
      destruct (sval_of_dval t x) as [a|] eqn:Ha; [|discriminate Hs]. apply option_map_some in Hs as [r Hr].
      rewrite (Hx t a Ha), (IHl r Hr). reflexivity.
    + destruct (Nat.eqb (length ts) (length l)); [|discriminate H]. apply option_map_some in H as [svs Hs].
      exact (seq_zip_has_type _ (fun t0 x => has_type t0 x) l IH ts svs Hs).
    + destruct (Nat.eqb (length ts) (length l)); [|discriminate H]. apply option_map_some in H as [svs Hs].
      exact (seq_zip_has_type _ (fun t0 x => has_type t0 x) l IH ts svs Hs).
  - destruct t; cbn [sval_of_dval] in H; try discriminate H; cbn [has_type]; try reflexivity.
    apply option_map_some in H as [kvs Hs]. revert kvs Hs.
    induction IH as [|[kd vd] l [_ Hx] _ IHl]; intros kvs Hs; [reflexivity|]. cbn [map sequence forallb snd] in *.
    destruct (sval_of_key k kd) as [a|] eqn:Ha; [|discriminate Hs]. destruct (sval_of_dval t vd) as [b|] eqn:Hb; [|discriminate Hs].
    apply option_map_some in Hs as [r Hr]. rewrite (sval_key_has_type k kd a Ha), (Hx t b Hb), (IHl r Hr). reflexivity.
  - destruct t; cbn [sval_of_dval] in H; try discriminate H; cbn [has_type]; try reflexivity.
    destruct (Nat.eqb (length fields) (length l)); [|discriminate H]. apply option_map_some in H as [svs Hs].
    refine (seq_zip_has_type (fun f0 x => sval_of_dval (snd f0) x) (fun f0 x => has_type (snd f0) x) l _ fields svs Hs).
    eapply Forall_impl; [|exact IH]. intros x Hx a. apply Hx.
  - destruct t; cbn [sval_of_dval] in H; try discriminate H; cbn [has_type]; try reflexivity.
    destruct (index_of n variants) as [[i v]|]; [|discriminate H]. destruct v as [|t1|ts|fs].
    + destruct p; try discriminate H. reflexivity.
    + apply option_map_some in H as [a Ha]. exact (IHp t1 a Ha).
    + destruct p; try discriminate H. destruct (Nat.eqb (length ts) (length l)); [|discriminate H].
      apply option_map_some in H as [svs Hs]. exact (seq_zip_has_type _ (fun t0 x => has_type t0 x) l IHl ts svs Hs).
    + destruct p; try discriminate H. destruct (Nat.eqb (length fs) (length l)); [|discriminate H].
      apply option_map_some in H as [svs Hs].
      refine (seq_zip_has_type (fun f0 x => sval_of_dval (snd f0) x) (fun f0 x => has_type (snd f0) x) l _ fs svs Hs).
      eapply Forall_impl; [|exact IHl]. intros x Hx a. apply Hx.
Qed.

Print Assumptions sval_has_type.
Print Assumptions ser_txt.
Print Assumptions serialize_txt.
