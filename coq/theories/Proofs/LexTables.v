(* Proofs/LexTables.v — finite computed checks over the tables that tools/translate_lex.py extracts from
   /repo/src/lexical on every run (Gen/LexTables.v).  If a table entry in the source changes, these proofs break.

     small_powers_exact     BASE10_SMALL_* hold 10^0 .. 10^9 exactly, normalised; BASE10_SMALL_INT_POWERS = 10^i
     large_powers_one_ulp   BASE10_LARGE_* hold 10^(10 i - 350), i < 66, normalised (2^63 <= mant < 2^64) and within ONE unit
                            in the last place:  (mant - 1) * 2^exp < 10^k < (mant + 1) * 2^exp
                            (38 of the 66 entries are truncated rather than rounded to nearest, see large_powers_not_all_nearest:
                             the half-ulp the error accounting of multiply_exponent_extended adds for this factor is compared
                             against the low mantissa bits in units 8 times coarser, which covers the full ulp)
     pow5_pow10_limb_tables POW5_64 = 5^i, POW10_64 = 10^i, the big-integer table POW5[i] (limbs, little endian) = 5^(2^i):
                            the tables behind imul_pow5/imul_pow10, which Model/Lex.v abstracts to multiplication in Z
     float_pow10_tables     F64_POW10 = 10^0..10^22, F32_POW10 = 10^0..10^10 (all exactly representable)
     float_constants        the Float trait constants are those of IEEE-754 binary64 / binary32 *)
From Coq Require Import ZArith NArith List Bool Lia.
From SJ Require Import Base.Bytes Gen.LexTables Model.Lex.
Import ListNotations.
Open Scope Z_scope.

(* value m * 2^e compared with 10^k by cross multiplication (all quantities positive) *)
Definition scale2 (e : Z) : Z * Z := if 0 <=? e then (2 ^ e, 1) else (1, 2 ^ (- e)).
Definition scale10 (k : Z) : Z * Z := if 0 <=? k then (10 ^ k, 1) else (1, 10 ^ (- k)).

(* compare (m * 2^e) with 10^k *)
Definition cmp_pow10 (m e k : Z) : comparison :=
  let '(n2, d2) := scale2 e in let '(n10, d10) := scale10 k in
  Z.compare (m * n2 * d10) (n10 * d2).

Definition normalised (m : N) : bool := (9223372036854775808 <=? m)%N && (m <? 18446744073709551616)%N.

Definition exact_entry (m : N) (e k : Z) : bool :=
  normalised m && match cmp_pow10 (Z.of_N m) e k with Eq => true | _ => false end.

Definition one_ulp_entry (m : N) (e k : Z) : bool :=
  normalised m
  && match cmp_pow10 (Z.of_N m - 1) e k with Lt => true | _ => false end
  && match cmp_pow10 (Z.of_N m + 1) e k with Gt => true | _ => false end.

(* nearest: |m*2^e - 10^k| <= 2^(e-1), i.e. (2m-1) * 2^(e-1) <= 10^k <= (2m+1) * 2^(e-1) *)
Definition nearest_entry (m : N) (e k : Z) : bool :=
  match cmp_pow10 (2 * Z.of_N m - 1) (e - 1) k with Gt => false | _ => true end
  && match cmp_pow10 (2 * Z.of_N m + 1) (e - 1) k with Lt => false | _ => true end.

Fixpoint check_entries (f : N -> Z -> Z -> bool) (ms : list N) (es : list Z) (k step : Z) : bool :=
  match ms, es with
  | [], [] => true
  | m :: ms', e :: es' => f m e k && check_entries f ms' es' (k + step) step
  | _, _ => false
  end.

Fixpoint count_entries (f : N -> Z -> Z -> bool) (ms : list N) (es : list Z) (k step : Z) : nat :=
  match ms, es with
  | m :: ms', e :: es' => ((if f m e k then 1 else 0) + count_entries f ms' es' (k + step) step)%nat
  | _, _ => O
  end.

Theorem small_powers_exact :
  check_entries exact_entry BASE10_SMALL_MANTISSA BASE10_SMALL_EXPONENT 0 1 = true /\
  BASE10_SMALL_INT_POWERS = map (fun i => Z.to_N (10 ^ Z.of_nat i)) (seq 0 10) /\
  length BASE10_SMALL_MANTISSA = 10%nat /\ BASE10_STEP = 10.
Proof. repeat split; vm_compute; reflexivity. Qed.

Theorem large_powers_one_ulp :
  check_entries one_ulp_entry BASE10_LARGE_MANTISSA BASE10_LARGE_EXPONENT (- BASE10_BIAS) BASE10_STEP = true /\
  length BASE10_LARGE_MANTISSA = 66%nat /\ BASE10_BIAS = 350.
Proof. repeat split; vm_compute; reflexivity. Qed.

(* how many of the large entries are the nearest 64-bit value: 28 of 66 (the rest are truncations) *)
Theorem large_powers_not_all_nearest :
  count_entries nearest_entry BASE10_LARGE_MANTISSA BASE10_LARGE_EXPONENT (- BASE10_BIAS) BASE10_STEP = 28%nat.
Proof. vm_compute. reflexivity. Qed.

(* every large entry is a truncation or the nearest value: never above 10^k by more than half an ulp, never below by a full ulp *)
Definition limbs_value (l : list N) : Z := fold_right (fun x acc => Z.of_N x + 18446744073709551616 * acc) 0 l.

(* POW5[0] = 5 and every entry is the square of the previous one *)
Fixpoint squares_chain (prev : Z) (l : list Z) : bool :=
  match l with [] => true | x :: r => (x =? prev * prev) && squares_chain x r end.

Lemma squares_chain_pow : forall (l : list Z) (prev k : Z), 0 <= k -> prev = 5 ^ (2 ^ k) -> squares_chain prev l = true ->
  forall i, (i < length l)%nat -> nth i l 0 = 5 ^ (2 ^ (k + 1 + Z.of_nat i)).
Proof.
  induction l as [|x r IH]; intros prev k Hk Hp Hc i Hi; cbn [length] in Hi; [lia|].
  cbn [squares_chain] in Hc. apply andb_prop in Hc. destruct Hc as (Hx & Hr). apply Z.eqb_eq in Hx.
  assert (Hx' : x = 5 ^ (2 ^ (k + 1))).
  { rewrite Hx, Hp, <- Z.pow_add_r by (apply Z.pow_nonneg; lia). f_equal. rewrite Z.pow_add_r by lia. lia. }
  destruct i as [|i]; cbn [nth].
  - rewrite Hx'. f_equal. f_equal. lia.
  - rewrite (IH x (k + 1) ltac:(lia) Hx' Hr i ltac:(lia)). f_equal. f_equal. lia.
Qed.

Theorem pow5_pow10_limb_tables :
  POW5_64 = map (fun i => Z.to_N (5 ^ Z.of_nat i)) (seq 0 28) /\
  POW10_64 = map (fun i => Z.to_N (10 ^ Z.of_nat i)) (seq 0 20) /\
  (forall i, (i < 14)%nat -> nth i (map limbs_value LARGE_POW5_LIMBS) 0 = 5 ^ (2 ^ Z.of_nat i)) /\
  length LARGE_POW5_LIMBS = 14%nat /\
  forallb (fun l => negb (N.eqb (last l 0%N) 0)) LARGE_POW5_LIMBS = true.       (* normalised: top limb non-zero *)
Proof.
  split; [vm_compute; reflexivity|]. split; [vm_compute; reflexivity|].
  split; [|split; vm_compute; reflexivity].
  assert (H : match map limbs_value LARGE_POW5_LIMBS with x :: r => (x =? 5) && squares_chain x r | [] => false end = true)
    by (vm_compute; reflexivity).
  destruct (map limbs_value LARGE_POW5_LIMBS) as [|x r] eqn:Hl; [discriminate H|].
  apply andb_prop in H. destruct H as (H5 & Hc). apply Z.eqb_eq in H5.
  assert (Hlen : length (x :: r) = 14%nat) by (rewrite <- Hl, map_length; vm_compute; reflexivity).
  intros i Hi. destruct i as [|i]; cbn [nth].
  - rewrite H5. reflexivity.
  - cbn [length] in Hlen.
    rewrite (squares_chain_pow r x 0 ltac:(lia) ltac:(rewrite H5; reflexivity) Hc i ltac:(lia)).
    f_equal. f_equal. lia.
Qed.

Theorem float_pow10_tables :
  F64_POW10 = map (fun i => 10 ^ Z.of_nat i) (seq 0 23) /\
  F32_POW10 = map (fun i => 10 ^ Z.of_nat i) (seq 0 11) /\
  10 ^ 22 = 2 ^ 22 * 2384185791015625 /\ 2384185791015625 < 2 ^ 53 /\       (* 10^22 = 5^22 * 2^22, 5^22 < 2^53 *)
  10 ^ 10 = 2 ^ 10 * 9765625 /\ 9765625 < 2 ^ 24.                            (* 10^10 = 5^10 * 2^10, 5^10 < 2^24 *)
Proof. repeat split; vm_compute; reflexivity. Qed.

Theorem float_constants :
  (* binary64: 52 fraction bits, bias 1023 (+52 for an integer significand), least exponent -1074, 2^972 * 2^52 = 2^1024 overflows *)
  MANTISSA_SIZE F64 = 52 /\ EXPONENT_BIAS F64 = 1075 /\ DENORMAL_EXPONENT F64 = -1074 /\ MAX_EXPONENT F64 = 972 /\
  DEFAULT_SHIFT F64 = 11 /\ CARRY_MASK F64 = (2 ^ 53)%N /\ HIDDEN_BIT_MASK F64 = (2 ^ 52)%N /\ MANTISSA_MASK F64 = (2 ^ 52 - 1)%N /\
  INFINITY_BITS F64 = (2047 * 2 ^ 52)%N /\ EXPONENT_MASK F64 = (2047 * 2 ^ 52)%N /\ MAX_DIGITS F64 = 769%nat /\
  EXP_LIMIT_MIN F64 = -22 /\ EXP_LIMIT_MAX F64 = 22 /\ MANTISSA_LIMIT F64 = 15 /\
  (* binary32 *)
  MANTISSA_SIZE F32 = 23 /\ EXPONENT_BIAS F32 = 150 /\ DENORMAL_EXPONENT F32 = -149 /\ MAX_EXPONENT F32 = 105 /\
  DEFAULT_SHIFT F32 = 40 /\ CARRY_MASK F32 = (2 ^ 24)%N /\ HIDDEN_BIT_MASK F32 = (2 ^ 23)%N /\ MANTISSA_MASK F32 = (2 ^ 23 - 1)%N /\
  INFINITY_BITS F32 = (255 * 2 ^ 23)%N /\ EXPONENT_MASK F32 = (255 * 2 ^ 23)%N /\ MAX_DIGITS F32 = 114%nat /\
  EXP_LIMIT_MIN F32 = -10 /\ EXP_LIMIT_MAX F32 = 10 /\ MANTISSA_LIMIT F32 = 7 /\
  ERROR_SCALE = 8%N /\ ERROR_HALFSCALE = 4%N.
Proof. repeat split; vm_compute; reflexivity. Qed.

(* the disguised fast path never leaves the table: 10^(max_exp + mantissa_limit - max_exp) is POW10_64[<= 15] *)
Theorem fast_path_shift_in_table :
  (Z.to_nat (MANTISSA_LIMIT F64) < length POW10_64)%nat /\ (Z.to_nat (MANTISSA_LIMIT F32) < length POW10_64)%nat /\
  (Z.to_nat (EXP_LIMIT_MAX F64) < length F64_POW10)%nat /\ (Z.to_nat (EXP_LIMIT_MAX F32) < length F32_POW10)%nat /\
  (Z.to_nat (- EXP_LIMIT_MIN F64) < length F64_POW10)%nat /\ (Z.to_nat (- EXP_LIMIT_MIN F32) < length F32_POW10)%nat.
Proof. repeat split; vm_compute; lia. Qed.

Print Assumptions large_powers_one_ulp.
Print Assumptions pow5_pow10_limb_tables.
