(* Proofs/GrammarStr.v - JSON string literals: the slice reader in text mode (parse_str, validate = true)
   accepts exactly the literals of RFC 8259 section 7 and returns exactly the text the RFC assigns them.

   Part 1  the generated tables (is_escape, ESCAPE_DECODE, HEX_RANGES) and the bit-twiddling helpers
           (decode_four_hex_digits, push_wtf8_codepoint) say what the RFC / Unicode say.
   Part 2  one-step equations for slice_str_loop, parse_escape, unicode_loop on the slice reader.
   Part 3  forward direction: on a well-formed literal the loop computes str_decode, or fails when it is undefined
           (slice_loop_spec) => parse_str_complete, parse_str_borrowed, parse_str_rejects.
   Part 4  backward direction: inversion of an accepting run (slice_loop_sound) => parse_str_sound.
   Part 5  the piece decomposition of a literal is unique (render_unique). *)
From Coq Require Import List NArith ZArith Bool Arith Lia ZifyBool ZifyNat ZifyN.
From SJ Require Import Base.Bytes Base.Utf8 Gen.Tables Model.Read Model.Str Spec.Syntax.
Import ListNotations.
Open Scope N_scope.

Local Notation SE cf := (mkEnv RSlice TEof cf).

(* ===== Part 1a: escape tables ===== *)
Theorem is_escape_spec : forall b ctrl,
  is_escape b ctrl = ((b =? 34) || (b =? 92) || (ctrl && (b <? 32)))%N%bool.
Proof. intros b ctrl. reflexivity. Qed.

Theorem escape_simple_spec : forall c,
  escape_simple c = if esc_letter c then Some (esc_val c) else None.
Proof.
  intros c. unfold escape_simple, ESCAPE_DECODE, esc_letter, esc_val. cbn [assoc_N].
  repeat match goal with
  | |- context [N.eqb c ?k] => destruct (N.eqb_spec c k) as [->|?]; [reflexivity|]
  end.
  reflexivity.
Qed.

Lemma hex_val_spec : forall b, hex_val b = if hex_byte b then Some (hexv b) else None.
Proof.
  intros b. unfold hex_val, HEX_RANGES, hex_byte, hexv. cbn [hex_lookup].
  destruct (N.leb_spec 48 b), (N.leb_spec b 57), (N.leb_spec 65 b), (N.leb_spec b 70),
           (N.leb_spec 97 b), (N.leb_spec b 102); cbn [andb orb]; try lia; try (f_equal; lia); reflexivity.
Qed.

Lemma hexv_lt16 : forall b, hex_byte b = true -> hexv b < 16.
Proof.
  intros b. unfold hex_byte, hexv.
  destruct (N.leb_spec 48 b), (N.leb_spec b 57), (N.leb_spec 65 b), (N.leb_spec b 70),
           (N.leb_spec 97 b), (N.leb_spec b 102); cbn [andb orb]; intros Hb; try discriminate Hb; lia.
Qed.

(* ===== Part 1b: hex decoding and WTF-8 encoding ===== *)
(* lor of disjoint bit ranges is addition *)
Lemma Z_lor_shiftl_add : forall X Y k : Z,
  (0 <= k -> 0 <= Y < 2 ^ k -> Z.lor (Z.shiftl X k) Y = X * 2 ^ k + Y)%Z.
Proof.
  intros X Y k Hk HY.
  assert (Hland : Z.land (Z.shiftl X k) Y = 0%Z).
  { apply Z.bits_inj'. intros n Hn. rewrite Z.land_spec, Z.bits_0.
    destruct (Z.ltb_spec n k) as [Hlt|Hge].
    - rewrite Z.shiftl_spec_low by exact Hlt. reflexivity.
    - rewrite <- (Z.mod_small Y (2 ^ k)) by exact HY.
      rewrite Z.mod_pow2_bits_high by lia. apply andb_false_r. }
  rewrite <- Z.lxor_lor by exact Hland.
  rewrite <- Z.add_nocarry_lxor by exact Hland.
  rewrite Z.shiftl_mul_pow2 by exact Hk. reflexivity.
Qed.

Lemma N_lor_shiftl_add : forall x y k : N, y < 2 ^ k -> N.lor (N.shiftl x k) y = x * 2 ^ k + y.
Proof.
  intros x y k Hy.
  assert (Hland : N.land (N.shiftl x k) y = 0).
  { apply N.bits_inj. intros n. rewrite N.land_spec, N.bits_0.
    destruct (N.ltb_spec n k) as [Hlt|Hge].
    - rewrite N.shiftl_spec_low by exact Hlt. reflexivity.
    - rewrite <- (N.mod_small y (2 ^ k)) by exact Hy.
      rewrite N.mod_pow2_bits_high by exact Hge. apply andb_false_r. }
  rewrite <- N.lxor_lor by exact Hland.
  rewrite <- N.add_nocarry_lxor by exact Hland.
  rewrite N.shiftl_mul_pow2. reflexivity.
Qed.

Lemma hex_tab_spec : forall sh b,
  hex_tab sh b = if hex_byte b then Z.shiftl (Z.of_N (hexv b)) (Z.of_N sh) else (-1)%Z.
Proof. intros sh b. unfold hex_tab. rewrite hex_val_spec. destruct (hex_byte b); reflexivity. Qed.

Lemma hex_tab_neg : forall sh b, (hex_tab sh b < 0)%Z <-> hex_byte b = false.
Proof.
  intros sh b. rewrite hex_tab_spec. destruct (hex_byte b).
  - rewrite Z.shiftl_neg. split; [lia|discriminate].
  - split; [reflexivity|lia].
Qed.

Lemma cp_neg : forall A B C D : Z,
  (Z.lor (Z.lor (Z.shiftl (Z.lor A B) 8) C) D < 0 <-> A < 0 \/ B < 0 \/ C < 0 \/ D < 0)%Z.
Proof. intros A B C D. rewrite !Z.lor_neg, Z.shiftl_neg, Z.lor_neg. tauto. Qed.

Lemma cp_val : forall ha hb hc hd : N, ha < 16 -> hb < 16 -> hc < 16 -> hd < 16 ->
  Z.lor (Z.lor (Z.shiftl (Z.lor (Z.shiftl (Z.of_N ha) 4) (Z.shiftl (Z.of_N hb) 0)) 8)
               (Z.shiftl (Z.of_N hc) 4)) (Z.shiftl (Z.of_N hd) 0)
  = Z.of_N (((ha * 16 + hb) * 16 + hc) * 16 + hd).
Proof.
  intros ha hb hc hd Ha Hb Hc Hd.
  rewrite !Z.shiftl_0_r, <- Z.lor_assoc.
  rewrite (Z_lor_shiftl_add (Z.of_N ha) (Z.of_N hb) 4) by (change (2 ^ 4)%Z with 16%Z; lia).
  rewrite (Z_lor_shiftl_add (Z.of_N hc) (Z.of_N hd) 4) by (change (2 ^ 4)%Z with 16%Z; lia).
  rewrite Z_lor_shiftl_add by (change (2 ^ 4)%Z with 16%Z; change (2 ^ 8)%Z with 256%Z; lia).
  change (2 ^ 4)%Z with 16%Z; change (2 ^ 8)%Z with 256%Z. lia.
Qed.

Theorem decode_four_hex_spec_gen : forall a b c d,
  decode_four_hex a b c d
  = if hex_byte a && hex_byte b && hex_byte c && hex_byte d then Some (u4_val a b c d) else None.
Proof.
  intros a b c d. unfold decode_four_hex.
  destruct (hex_byte a && hex_byte b && hex_byte c && hex_byte d) eqn:Hall.
  - apply andb_true_iff in Hall. destruct Hall as [Hall Hd].
    apply andb_true_iff in Hall. destruct Hall as [Hall Hc].
    apply andb_true_iff in Hall. destruct Hall as [Ha Hb].
    rewrite !hex_tab_spec, Ha, Hb, Hc, Hd.
    change (Z.of_N 4) with 4%Z. change (Z.of_N 0) with 0%Z.
    rewrite cp_val by (apply hexv_lt16; assumption).
    unfold u4_val.
    destruct (Z.leb_spec 0 (Z.of_N (((hexv a * 16 + hexv b) * 16 + hexv c) * 16 + hexv d))) as [_|Hneg];
      [|lia].
    rewrite N2Z.id. reflexivity.
  - assert (Hneg : (Z.lor (Z.lor (Z.shiftl (Z.lor (hex_tab 4 a) (hex_tab 0 b)) 8) (hex_tab 4 c)) (hex_tab 0 d) < 0)%Z).
    { apply cp_neg. rewrite !hex_tab_neg.
      destruct (hex_byte a); [|tauto]. destruct (hex_byte b); [|tauto].
      destruct (hex_byte c); [|tauto]. destruct (hex_byte d); [discriminate Hall|tauto]. }
    destruct (Z.leb_spec 0 (Z.lor (Z.lor (Z.shiftl (Z.lor (hex_tab 4 a) (hex_tab 0 b)) 8) (hex_tab 4 c)) (hex_tab 0 d)));
      [lia|reflexivity].
Qed.

Theorem decode_four_hex_spec : forall a b c d, (a < 256 -> b < 256 -> c < 256 -> d < 256 ->
   decode_four_hex a b c d = if hex_byte a && hex_byte b && hex_byte c && hex_byte d then Some (u4_val a b c d) else None)%N.
Proof. intros a b c d _ _ _ _. apply decode_four_hex_spec_gen. Qed.

Lemma land_ones_small : forall x k, x < 2 ^ k -> N.land x (N.ones k) = x.
Proof. intros x k Hx. rewrite N.land_ones. apply N.mod_small. exact Hx. Qed.

Theorem push_wtf8_scalar : forall n, is_scalar n = true -> push_wtf8 n = Ok (utf8_encode n).
Proof.
  intros n Hs. unfold is_scalar in Hs. unfold push_wtf8, utf8_encode.
  destruct (N.ltb_spec n 128) as [H1|H1]; [reflexivity|].
  destruct (N.leb_spec n 2047) as [H2|H2].
  { destruct (N.ltb_spec n 2048) as [_|H2']; [|lia].
    change 31 with (N.ones 5). rewrite land_ones_small; [reflexivity|].
    rewrite N.shiftr_div_pow2. change (2 ^ 6) with 64. change (2 ^ 5) with 32.
    apply N.div_lt_upper_bound; lia. }
  destruct (N.ltb_spec n 2048) as [H2'|_]; [lia|].
  destruct (N.leb_spec n 65535) as [H3|H3].
  { destruct (N.ltb_spec n 65536) as [_|H3']; [|lia].
    change 15 with (N.ones 4). rewrite land_ones_small; [reflexivity|].
    rewrite N.shiftr_div_pow2. change (2 ^ 12) with 4096. change (2 ^ 4) with 16.
    apply N.div_lt_upper_bound; lia. }
  destruct (N.ltb_spec n 65536) as [H3'|_]; [lia|].
  destruct (N.leb_spec n 1114111) as [H4|H4]; [|lia].
  change 7 with (N.ones 3). rewrite land_ones_small; [reflexivity|].
  rewrite N.shiftr_div_pow2. change (2 ^ 18) with 262144. change (2 ^ 3) with 8.
  apply N.div_lt_upper_bound; lia.
Qed.

(* ===== Part 2a: the scanning loop, one step ===== *)
Definition is_raw (p : strpiece) : bool := match p with PRaw _ => true | _ => false end.

Lemma bind_ok : forall {A B} (r : res A) (f : A -> res B) b,
  bind r f = Ok b -> exists a, r = Ok a /\ f a = Ok b.
Proof. intros A B r f b H. destruct r as [a| | |]; try discriminate H. exists a. split; [reflexivity|exact H]. Qed.

(* ---- one-step unfoldings ---- *)
Lemma slice_loop_S : forall f E v s,
  slice_str_loop (S f) E v s =
    let n := esc_span v (rest s) in
    let chunk := firstn n (rest s) in
    let s1 := advance n s in
    match rest s1 with
    | [] => error E s1 EofWhileParsingString
    | b :: _ =>
      if b =? 34 then Ok (chunk, false, advance 1 s1)
      else if b =? 92 then
        let* (w, s2) := parse_escape f E v (advance 1 s1) in
        let* (out, _, s3) := slice_str_loop f E v s2 in
        Ok (chunk ++ w ++ out, true, s3)
      else error E (advance 1 s1) ControlCharacterWhileParsingString
    end.
Proof. reflexivity. Qed.

Lemma esc_span_cons : forall b r, esc_span true (b :: r) = if is_escape b true then O else S (esc_span true r).
Proof. intros b r. unfold esc_span. cbn [span_len]. destruct (is_escape b true); reflexivity. Qed.

Lemma st_eq : forall r o o' p d, o = o' -> mkSt r o p d = mkSt r o' p d.
Proof. intros; subst; reflexivity. Qed.

Lemma slice_loop_quote : forall f cf r o p d,
  slice_str_loop (S f) (SE cf) true (mkSt (34 :: r) o p d) = Ok ([], false, mkSt r (S o) false d).
Proof.
  intros. rewrite slice_loop_S. cbn [rest]. rewrite esc_span_cons.
  change (is_escape 34 true) with true. cbv beta iota zeta.
  unfold advance. cbn [rest off depth skipn firstn N.eqb Pos.eqb].
  do 2 f_equal. apply st_eq. lia.
Qed.

Lemma slice_loop_esc : forall f cf r o p d,
  slice_str_loop (S f) (SE cf) true (mkSt (92 :: r) o p d) =
    let* (w, s2) := parse_escape f (SE cf) true (mkSt r (S o) false d) in
    let* (out, _, s3) := slice_str_loop f (SE cf) true s2 in
    Ok (w ++ out, true, s3).
Proof.
  intros. rewrite slice_loop_S. cbn [rest]. rewrite esc_span_cons.
  change (is_escape 92 true) with true. cbv beta iota zeta.
  unfold advance. cbn [rest off depth skipn firstn N.eqb Pos.eqb app].
  replace (o + 0 + 1)%nat with (S o) by lia. reflexivity.
Qed.

Definition lift_cons (b : byte) (r : res (bytes * bool * st)) : res (bytes * bool * st) :=
  match r with
  | Ok (out, cp, s') => Ok (b :: out, cp, s')
  | Err c i => Err c i
  | OutOfFuel => OutOfFuel
  | Panic => Panic
  end.

Lemma slice_loop_raw_cons : forall fuel cf b r o p p' d,
  is_escape b true = false ->
  slice_str_loop fuel (SE cf) true (mkSt (b :: r) o p d)
  = lift_cons b (slice_str_loop fuel (SE cf) true (mkSt r (S o) p' d)).
Proof.
  intros fuel cf b r o p p' d Hb. destruct fuel as [|f]; [reflexivity|].
  rewrite !slice_loop_S. cbn [rest]. rewrite esc_span_cons, Hb.
  set (n := esc_span true r). cbv beta iota zeta.
  unfold advance. cbn [rest off depth skipn firstn].
  replace (o + S n)%nat with (S o + n)%nat by lia.
  destruct (skipn n r) as [|x tl]; [reflexivity|].
  destruct (x =? 34); [reflexivity|].
  destruct (x =? 92); [|reflexivity].
  destruct (parse_escape f (SE cf) true _) as [[w s2]| | |]; cbn [bind lift_cons]; try reflexivity.
  destruct (slice_str_loop f (SE cf) true s2) as [[[out cp] s3]| | |]; cbn [bind lift_cons]; reflexivity.
Qed.

(* ===== Part 2b: escapes, forward equations ===== *)
Lemma esc_letter_not_u : forall c, esc_letter c = true -> (c =? 117) = false.
Proof. intros c Hc. destruct (N.eqb_spec c 117) as [->|_]; [discriminate Hc|reflexivity]. Qed.

Lemma parse_escape_cons : forall f cf v ch r o p d,
  parse_escape f (SE cf) v (mkSt (ch :: r) o p d) =
    if ch =? 117 then parse_unicode_escape f (SE cf) v (mkSt r (S o) false d)
    else match escape_simple ch with
         | Some b => Ok ([b], mkSt r (S o) false d)
         | None => Err InvalidEscape (S o)
         end.
Proof. reflexivity. Qed.

Lemma parse_escape_simple : forall f cf c r o p d,
  esc_letter c = true ->
  parse_escape f (SE cf) true (mkSt (c :: r) o p d) = Ok ([esc_val c], mkSt r (S o) false d).
Proof.
  intros f cf c r o p d Hc. rewrite parse_escape_cons, (esc_letter_not_u c Hc), escape_simple_spec, Hc.
  reflexivity.
Qed.

Lemma decode_hex_escape_slice : forall cf a b c d r o p dp,
  decode_hex_escape (SE cf) (mkSt (a :: b :: c :: d :: r) o p dp) =
    match decode_four_hex a b c d with
    | Some v => Ok (v, mkSt r (o + 4) false dp)
    | None => Err InvalidEscape (o + 4)
    end.
Proof. reflexivity. Qed.

Definition hex4 (a b c d : byte) : bool := hex_byte a && hex_byte b && hex_byte c && hex_byte d.

Lemma u4_val_lt : forall a b c d, hex4 a b c d = true -> u4_val a b c d < 65536.
Proof.
  intros a b c d H. unfold hex4 in H.
  apply andb_true_iff in H. destruct H as [H Hd].
  apply andb_true_iff in H. destruct H as [H Hc].
  apply andb_true_iff in H. destruct H as [Ha Hb].
  apply hexv_lt16 in Ha, Hb, Hc, Hd. unfold u4_val. lia.
Qed.

(* \uXXXX with the first code unit decoded *)
Lemma parse_escape_u : forall f cf v a b c d r o p dp,
  hex4 a b c d = true ->
  parse_escape f (SE cf) v (mkSt (117 :: a :: b :: c :: d :: r) o p dp) =
    let n := u4_val a b c d in
    if v && (56320 <=? n) && (n <=? 57343) then Err LoneLeadingSurrogateInHexEscape (S o + 4)
    else unicode_loop f (SE cf) v n (mkSt r (S o + 4) false dp).
Proof.
  intros f cf v a b c d r o p dp Hh. rewrite parse_escape_cons. change (117 =? 117) with true.
  cbv iota. unfold parse_unicode_escape. rewrite decode_hex_escape_slice, decode_four_hex_spec_gen.
  fold (hex4 a b c d). rewrite Hh. reflexivity.
Qed.

Lemma unicode_loop_S : forall f E v n s,
  unicode_loop (S f) E v n s =
    if (n <? 55296) || (56319 <? n) then
      let* w := push_wtf8 n in Ok (w, s)
    else
      let n1 := n in
      let* (b, s1) := peek_or_eof E s in
      if b =? 92 then
        let s2 := discard s1 in
        let* (b2, s3) := peek_or_eof E s2 in
        if b2 =? 117 then
          let s4 := discard s3 in
          let* (n2, s5) := decode_hex_escape E s4 in
          if (n2 <? 56320) || (57343 <? n2) then
            if v then error E s5 LoneLeadingSurrogateInHexEscape
            else
              let* w := push_wtf8 n1 in
              let* (w', s6) := unicode_loop f E v n2 s5 in
              Ok (w ++ w', s6)
          else
            let cp := N.lor (N.shiftl (n1 - 55296) 10) (n2 - 56320) + 65536 in
            let* w := push_wtf8 cp in Ok (w, s5)
        else
          if v then error E (discard s3) UnexpectedEndOfHexEscape
          else
            let* w := push_wtf8 n1 in
            let* (w', s4) := parse_escape_nonu E s3 in
            Ok (w ++ w', s4)
      else
        if v then error E (discard s1) UnexpectedEndOfHexEscape
        else let* w := push_wtf8 n1 in Ok (w, s1).
Proof. reflexivity. Qed.

Definition pair_cp (n1 n2 : N) : N := (n1 - 55296) * 1024 + (n2 - 56320) + 65536.

Lemma pair_cp_lor : forall n1 n2, is_lo_surr n2 = true ->
  N.lor (N.shiftl (n1 - 55296) 10) (n2 - 56320) + 65536 = pair_cp n1 n2.
Proof.
  intros n1 n2 H2. unfold is_lo_surr in H2. unfold pair_cp.
  rewrite N_lor_shiftl_add by (change (2 ^ 10) with 1024; lia). reflexivity.
Qed.

Lemma pair_cp_scalar : forall n1 n2, is_hi_surr n1 = true -> is_lo_surr n2 = true ->
  is_scalar (pair_cp n1 n2) = true.
Proof. intros n1 n2 H1 H2. unfold is_hi_surr in H1. unfold is_lo_surr in H2. unfold is_scalar, pair_cp. lia. Qed.

Lemma unicode_loop_scalar : forall f cf v n s,
  n < 65536 -> is_hi_surr n = false -> is_lo_surr n = false ->
  unicode_loop (S f) (SE cf) v n s = Ok (utf8_encode n, s).
Proof.
  intros f cf v n s Hn Hhi Hlo. rewrite unicode_loop_S.
  unfold is_hi_surr in Hhi. unfold is_lo_surr in Hlo.
  replace ((n <? 55296) || (56319 <? n)) with true by lia.
  rewrite push_wtf8_scalar by (unfold is_scalar; lia). reflexivity.
Qed.

(* a high surrogate in validate mode: the three shapes of what follows *)
Lemma unicode_loop_hi_pair : forall f cf n a b c d r o p dp,
  is_hi_surr n = true -> hex4 a b c d = true ->
  unicode_loop (S f) (SE cf) true n (mkSt (92 :: 117 :: a :: b :: c :: d :: r) o p dp) =
    if is_lo_surr (u4_val a b c d)
    then Ok (utf8_encode (pair_cp n (u4_val a b c d)), mkSt r (S (S o) + 4) false dp)
    else Err LoneLeadingSurrogateInHexEscape (S (S o) + 4).
Proof.
  intros f cf n a b c d r o p dp Hhi Hh. rewrite unicode_loop_S.
  replace ((n <? 55296) || (56319 <? n)) with false by (unfold is_hi_surr in Hhi; lia).
  unfold peek_or_eof, peek, discard. cbn [rest off depth bind tl].
  change (92 =? 92) with true. change (117 =? 117) with true. cbv iota.
  rewrite decode_hex_escape_slice, decode_four_hex_spec_gen. fold (hex4 a b c d). rewrite Hh.
  cbn [bind]. set (n2 := u4_val a b c d).
  destruct (is_lo_surr n2) eqn:Hlo.
  - replace ((n2 <? 56320) || (57343 <? n2)) with false by (unfold is_lo_surr in Hlo; lia).
    rewrite pair_cp_lor by exact Hlo.
    rewrite push_wtf8_scalar by (apply pair_cp_scalar; assumption). reflexivity.
  - replace ((n2 <? 56320) || (57343 <? n2)) with true by (unfold is_lo_surr in Hlo; lia).
    reflexivity.
Qed.

Lemma unicode_loop_hi_other : forall f cf n x r o p dp,
  is_hi_surr n = true -> (x =? 92) = false ->
  exists c i, unicode_loop (S f) (SE cf) true n (mkSt (x :: r) o p dp) = Err c i.
Proof.
  intros f cf n x r o p dp Hhi Hx. rewrite unicode_loop_S.
  replace ((n <? 55296) || (56319 <? n)) with false by (unfold is_hi_surr in Hhi; lia).
  unfold peek_or_eof, peek. cbn [rest off depth bind]. rewrite Hx.
  eexists; eexists; reflexivity.
Qed.

Lemma unicode_loop_hi_esc : forall f cf n x r o p dp,
  is_hi_surr n = true -> (x =? 117) = false ->
  exists c i, unicode_loop (S f) (SE cf) true n (mkSt (92 :: x :: r) o p dp) = Err c i.
Proof.
  intros f cf n x r o p dp Hhi Hx. rewrite unicode_loop_S.
  replace ((n <? 55296) || (56319 <? n)) with false by (unfold is_hi_surr in Hhi; lia).
  unfold peek_or_eof, peek, discard. cbn [rest off depth bind tl].
  change (92 =? 92) with true. cbv iota. rewrite Hx.
  eexists; eexists; reflexivity.
Qed.

(* ===== Part 3a: the loop computes str_decode on well-formed literals ===== *)
Lemma parse_escape_u_true : forall f cf a b c d r o p dp,
  hex4 a b c d = true ->
  parse_escape f (SE cf) true (mkSt (117 :: a :: b :: c :: d :: r) o p dp) =
    if is_lo_surr (u4_val a b c d) then Err LoneLeadingSurrogateInHexEscape (S o + 4)
    else unicode_loop f (SE cf) true (u4_val a b c d) (mkSt r (S o + 4) false dp).
Proof. intros. rewrite parse_escape_u by assumption. reflexivity. Qed.

Lemma str_decode_raw : forall b r, str_decode (PRaw b :: r) = option_map (cons b) (str_decode r).
Proof. reflexivity. Qed.
Lemma str_decode_esc : forall c r, str_decode (PEsc c :: r) = option_map (cons (esc_val c)) (str_decode r).
Proof. reflexivity. Qed.
Lemma str_decode_u4 : forall a b c d r,
  str_decode (PU4 a b c d :: r) =
    let n := u4_val a b c d in
    if is_lo_surr n then None
    else if is_hi_surr n then
      match r with
      | PU4 a' b' c' d' :: r' =>
        let n2 := u4_val a' b' c' d' in
        if is_lo_surr n2 then option_map (app (utf8_encode (pair_cp n n2))) (str_decode r') else None
      | _ => None
      end
    else option_map (app (utf8_encode n)) (str_decode r).
Proof. intros. destruct r as [|[x|x|a' b' c' d'] r']; reflexivity. Qed.

Lemma render_len_ge : forall s, (length s <= length (flat_map render_piece s))%nat.
Proof.
  induction s as [|p r IH]; [apply Nat.le_refl|].
  cbn [flat_map]. rewrite app_length. destruct p; cbn [render_piece length]; lia.
Qed.

Definition loop_post (cf : cfg) (fuel : nat) (s : list strpiece) (rst : bytes) (o : nat) (p : bool) (d : N) : Prop :=
  match str_decode s with
  | Some b => slice_str_loop fuel (SE cf) true (mkSt (flat_map render_piece s ++ 34 :: rst) o p d)
              = Ok (b, negb (forallb is_raw s), mkSt rst (o + length (flat_map render_piece s) + 1) false d)
  | None => exists c i, slice_str_loop fuel (SE cf) true (mkSt (flat_map render_piece s ++ 34 :: rst) o p d) = Err c i
  end.

(* continuing after an escape that produced [w] from pieces [ps] *)
Lemma loop_post_step : forall cf f ps w r rst o o' p d tl,
  flat_map render_piece (ps ++ r) ++ 34 :: rst = 92 :: tl ->
  parse_escape f (SE cf) true (mkSt tl (S o) false d)
    = Ok (w, mkSt (flat_map render_piece r ++ 34 :: rst) o' false d) ->
  o' = (o + length (flat_map render_piece ps))%nat ->
  str_decode (ps ++ r) = option_map (app w) (str_decode r) ->
  forallb is_raw (ps ++ r) = false ->
  loop_post cf f r rst o' false d ->
  loop_post cf (S f) (ps ++ r) rst o p d.
Proof.
  intros cf f ps w r rst o o' p d tl Hrender Hesc Ho Hdec Hraw IH.
  unfold loop_post in *. rewrite Hdec, Hrender, slice_loop_esc, Hesc. cbn [bind].
  destruct (str_decode r) as [br|]; cbn [option_map].
  - rewrite IH. cbn [bind]. rewrite Hraw. cbn [negb]. do 2 f_equal. apply st_eq.
    rewrite flat_map_app, app_length. lia.
  - destruct IH as (c & i & IH). rewrite IH. cbn [bind]. eauto.
Qed.

Lemma slice_loop_spec : forall cf n s, (length s <= n)%nat -> forall fuel rst o p dp,
  str_ok s = true -> (length s < fuel)%nat -> loop_post cf fuel s rst o p dp.
Proof.
  intros cf n. induction n as [|n IH]; intros s Hlen fuel rst o p dp Hok Hfuel.
  { destruct s as [|? ?]; [|cbn [length] in Hlen; lia].
    destruct fuel as [|f]; [cbn [length] in Hfuel; lia|].
    unfold loop_post. cbn [str_decode flat_map app]. rewrite slice_loop_quote.
    cbn [forallb negb length]. do 2 f_equal. apply st_eq. lia. }
  destruct s as [|pc r].
  { destruct fuel as [|f]; [cbn [length] in Hfuel; lia|].
    unfold loop_post. cbn [str_decode flat_map app]. rewrite slice_loop_quote.
    cbn [forallb negb length]. do 2 f_equal. apply st_eq. lia. }
  cbn [length] in Hlen, Hfuel. unfold str_ok in Hok. cbn [forallb] in Hok.
  apply andb_true_iff in Hok. destruct Hok as [Hpc Hr]. fold (str_ok r) in Hr.
  destruct pc as [x|c|a b c d].
  - (* raw byte *)
    assert (Hx : is_escape x true = false).
    { rewrite is_escape_spec. cbn [piece_ok] in Hpc. lia. }
    assert (IHr := IH r ltac:(lia) fuel rst (S o) p dp Hr ltac:(lia)).
    unfold loop_post in *. rewrite str_decode_raw.
    cbn [flat_map render_piece app]. rewrite (slice_loop_raw_cons fuel cf x _ o p p dp Hx).
    destruct (str_decode r) as [br|]; cbn [option_map].
    + rewrite IHr. cbn [lift_cons forallb is_raw andb length]. do 2 f_equal. apply st_eq. lia.
    + destruct IHr as (c & i & IHr). rewrite IHr. cbn [lift_cons]. eauto.
  - (* simple escape *)
    destruct fuel as [|f]; [lia|]. cbn [piece_ok] in Hpc.
    apply (loop_post_step cf f [PEsc c] [esc_val c] r rst o (o + 2)%nat p dp
             (c :: flat_map render_piece r ++ 34 :: rst)).
    + reflexivity.
    + rewrite parse_escape_simple by exact Hpc. do 2 f_equal. apply st_eq. lia.
    + reflexivity.
    + reflexivity.
    + reflexivity.
    + apply (IH r); [lia|exact Hr|lia].
  - (* \uXXXX *)
    destruct fuel as [|f]; [lia|]. cbn [piece_ok] in Hpc. fold (hex4 a b c d) in Hpc.
    assert (Hlt := u4_val_lt a b c d Hpc).
    destruct f as [|f]; [lia|].
    destruct (is_lo_surr (u4_val a b c d)) eqn:Hlo.
    { unfold loop_post. rewrite str_decode_u4. cbv zeta. rewrite Hlo.
      cbn [flat_map render_piece app]. rewrite slice_loop_esc, parse_escape_u_true, Hlo by exact Hpc.
      cbn [bind]. eauto. }
    destruct (is_hi_surr (u4_val a b c d)) eqn:Hhi.
    + (* high surrogate: what follows decides *)
      destruct r as [|[x|x|a' b' c' d'] r'].
      * unfold loop_post. rewrite str_decode_u4. cbv zeta. rewrite Hlo, Hhi.
        cbn [flat_map render_piece app]. rewrite slice_loop_esc, parse_escape_u_true, Hlo by exact Hpc.
        destruct (unicode_loop_hi_other f cf (u4_val a b c d) 34 rst (S (S o) + 4) false dp Hhi eq_refl)
          as (e & i & He).
        rewrite He. cbn [bind]. eauto.
      * unfold loop_post. rewrite str_decode_u4. cbv zeta. rewrite Hlo, Hhi.
        cbn [flat_map render_piece app]. rewrite slice_loop_esc, parse_escape_u_true, Hlo by exact Hpc.
        unfold str_ok in Hr. cbn [forallb piece_ok] in Hr.
        assert (Hx : (x =? 92) = false) by lia.
        destruct (unicode_loop_hi_other f cf (u4_val a b c d) x
                    (flat_map render_piece r' ++ 34 :: rst) (S (S o) + 4) false dp Hhi Hx)
          as (e & i & He).
        rewrite He. cbn [bind]. eauto.
      * unfold loop_post. rewrite str_decode_u4. cbv zeta. rewrite Hlo, Hhi.
        cbn [flat_map render_piece app]. rewrite slice_loop_esc, parse_escape_u_true, Hlo by exact Hpc.
        unfold str_ok in Hr. cbn [forallb piece_ok] in Hr.
        apply andb_true_iff in Hr. destruct Hr as [Hx Hr'].
        destruct (unicode_loop_hi_esc f cf (u4_val a b c d) x
                    (flat_map render_piece r' ++ 34 :: rst) (S (S o) + 4) false dp Hhi
                    (esc_letter_not_u x Hx))
          as (e & i & He).
        rewrite He. cbn [bind]. eauto.
      * unfold str_ok in Hr. cbn [forallb piece_ok] in Hr.
        apply andb_true_iff in Hr. destruct Hr as [Hh2 Hr']. fold (hex4 a' b' c' d') in Hh2.
        fold (str_ok r') in Hr'. cbn [length] in Hlen, Hfuel.
        destruct (is_lo_surr (u4_val a' b' c' d')) eqn:Hlo2.
        -- apply (loop_post_step cf (S f) [PU4 a b c d; PU4 a' b' c' d']
                    (utf8_encode (pair_cp (u4_val a b c d) (u4_val a' b' c' d')))
                    r' rst o (o + 12)%nat p dp
                    (117 :: a :: b :: c :: d :: 92 :: 117 :: a' :: b' :: c' :: d'
                       :: flat_map render_piece r' ++ 34 :: rst)).
           ++ reflexivity.
           ++ rewrite parse_escape_u_true, Hlo by exact Hpc.
              rewrite unicode_loop_hi_pair, Hlo2 by assumption.
              do 2 f_equal. apply st_eq. lia.
           ++ reflexivity.
           ++ cbn [app]. rewrite str_decode_u4. cbv zeta. rewrite Hlo, Hhi, Hlo2. reflexivity.
           ++ reflexivity.
           ++ apply (IH r'); [lia|exact Hr'|lia].
        -- unfold loop_post. rewrite str_decode_u4. cbv zeta. rewrite Hlo, Hhi, Hlo2.
           cbn [flat_map render_piece app]. rewrite slice_loop_esc, parse_escape_u_true, Hlo by exact Hpc.
           rewrite unicode_loop_hi_pair, Hlo2 by assumption. cbn [bind]. eauto.
    + (* a BMP scalar *)
      apply (loop_post_step cf (S f) [PU4 a b c d] (utf8_encode (u4_val a b c d))
               r rst o (o + 6)%nat p dp
               (117 :: a :: b :: c :: d :: flat_map render_piece r ++ 34 :: rst)).
      * reflexivity.
      * rewrite parse_escape_u_true, Hlo by exact Hpc.
        rewrite unicode_loop_scalar by assumption.
        do 2 f_equal. apply st_eq. lia.
      * reflexivity.
      * cbn [app]. rewrite str_decode_u4. cbv zeta. rewrite Hlo, Hhi. reflexivity.
      * reflexivity.
      * apply (IH r); [lia|exact Hr|lia].
Qed.

(* ===== Part 3b: completeness, borrowed flag, rejection ===== *)
Lemma parse_str_slice : forall cf s,
  parse_str (SE cf) s =
    let* (out, copied, s1) := slice_str_loop (str_fuel s) (SE cf) true s in
    if utf8_valid out then Ok (out, negb copied, s1) else error (SE cf) s1 InvalidUnicodeCodePoint.
Proof. reflexivity. Qed.

Lemma str_fuel_enough : forall s rst o p d,
  lt (length s) (str_fuel (mkSt (flat_map render_piece s ++ 34 :: rst) o p d)).
Proof.
  intros s rst o p d. unfold str_fuel. cbn [rest]. rewrite app_length. cbn [length].
  pose proof (render_len_ge s). lia.
Qed.

Lemma str_text_some : forall s b, str_text s = Some b -> str_decode s = Some b /\ utf8_valid b = true.
Proof.
  intros s b H. unfold str_text in H. destruct (str_decode s) as [b'|]; [|discriminate H].
  destruct (utf8_valid b') eqn:Hv; [|discriminate H]. injection H as ->. split; [reflexivity|exact Hv].
Qed.

Theorem parse_str_complete_strong : forall cf s b rst off pk d,
  str_ok s = true -> str_text s = Some b ->
  parse_str (mkEnv RSlice TEof cf) (mkSt (flat_map render_piece s ++ 34 :: rst) off pk d)
  = Ok (b, forallb (fun p => match p with PRaw _ => true | _ => false end) s,
        mkSt rst (off + length (flat_map render_piece s) + 1) false d).
Proof.
  intros cf s b rst o p d Hok Htext. apply str_text_some in Htext. destruct Htext as [Hdec Hv].
  pose proof (slice_loop_spec cf (length s) s (Nat.le_refl _) _ rst o p d Hok (str_fuel_enough s rst o p d)) as H.
  unfold loop_post in H. rewrite Hdec in H.
  rewrite parse_str_slice, H. cbn [bind]. rewrite Hv, negb_involutive. reflexivity.
Qed.

Theorem parse_str_complete : forall cf s b rst off pk d,
  str_ok s = true -> str_text s = Some b ->
  exists bw, parse_str (mkEnv RSlice TEof cf) (mkSt (flat_map render_piece s ++ 34 :: rst) off pk d)
           = Ok (b, bw, mkSt rst (off + length (flat_map render_piece s) + 1) false d).
Proof.
  intros cf s b rst o p d Hok Htext. eexists. apply parse_str_complete_strong; assumption.
Qed.

Theorem parse_str_borrowed : forall cf s b rst off pk d b' bw s1,
  str_ok s = true -> str_text s = Some b ->
  parse_str (mkEnv RSlice TEof cf) (mkSt (flat_map render_piece s ++ 34 :: rst) off pk d) = Ok (b', bw, s1) ->
  bw = forallb (fun p => match p with PRaw _ => true | _ => false end) s.
Proof.
  intros cf s b rst o p d b' bw s1 Hok Htext Hrun.
  rewrite (parse_str_complete_strong cf s b rst o p d Hok Htext) in Hrun.
  injection Hrun as _ Hbw _. symmetry. exact Hbw.
Qed.

Theorem parse_str_rejects : forall cf s rst off pk d,
  str_ok s = true -> str_text s = None ->
  exists c i, parse_str (mkEnv RSlice TEof cf) (mkSt (flat_map render_piece s ++ 34 :: rst) off pk d) = Err c i.
Proof.
  intros cf s rst o p d Hok Htext.
  pose proof (slice_loop_spec cf (length s) s (Nat.le_refl _) _ rst o p d Hok (str_fuel_enough s rst o p d)) as H.
  unfold loop_post in H. unfold str_text in Htext. rewrite parse_str_slice.
  destruct (str_decode s) as [b|].
  - rewrite H. cbn [bind]. destruct (utf8_valid b); [discriminate Htext|].
    eexists; eexists; reflexivity.
  - destruct H as (c & i & H). rewrite H. cbn [bind]. eauto.
Qed.

(* ===== Part 4: soundness ===== *)
(* ---- inversion of the escape decoders (validate mode) ---- *)
Lemma unicode_loop_hi_inv : forall f cf n tl o p dp w s2,
  is_hi_surr n = true ->
  unicode_loop (S f) (SE cf) true n (mkSt tl o p dp) = Ok (w, s2) ->
  exists a b c d r,
    tl = 92 :: 117 :: a :: b :: c :: d :: r /\ hex4 a b c d = true /\
    is_lo_surr (u4_val a b c d) = true /\
    w = utf8_encode (pair_cp n (u4_val a b c d)) /\ s2 = mkSt r (S (S o) + 4) false dp.
Proof.
  intros f cf n tl o p dp w s2 Hhi H.
  destruct tl as [|x tl].
  { rewrite unicode_loop_S in H.
    replace ((n <? 55296) || (56319 <? n)) with false in H by (unfold is_hi_surr in Hhi; lia).
    discriminate H. }
  destruct (N.eqb_spec x 92) as [->|Hx].
  2:{ apply N.eqb_neq in Hx.
      destruct (unicode_loop_hi_other f cf n x tl o p dp Hhi Hx) as (e & i & He).
      rewrite He in H. discriminate H. }
  destruct tl as [|y tl].
  { rewrite unicode_loop_S in H.
    replace ((n <? 55296) || (56319 <? n)) with false in H by (unfold is_hi_surr in Hhi; lia).
    discriminate H. }
  destruct (N.eqb_spec y 117) as [->|Hy].
  2:{ apply N.eqb_neq in Hy.
      destruct (unicode_loop_hi_esc f cf n y tl o p dp Hhi Hy) as (e & i & He).
      rewrite He in H. discriminate H. }
  destruct tl as [|a [|b [|c [|d r]]]];
    try (rewrite unicode_loop_S in H;
         replace ((n <? 55296) || (56319 <? n)) with false in H by (unfold is_hi_surr in Hhi; lia);
         discriminate H).
  destruct (hex4 a b c d) eqn:Hh.
  - rewrite unicode_loop_hi_pair in H by assumption.
    destruct (is_lo_surr (u4_val a b c d)) eqn:Hlo; [|discriminate H].
    injection H as Hw Hs. exists a, b, c, d, r. repeat split; try reflexivity; try assumption; symmetry; assumption.
  - rewrite unicode_loop_S in H.
    replace ((n <? 55296) || (56319 <? n)) with false in H by (unfold is_hi_surr in Hhi; lia).
    unfold peek_or_eof, peek, discard in H. cbn [rest off depth bind tl] in H.
    change (92 =? 92) with true in H. change (117 =? 117) with true in H. cbv iota in H.
    rewrite decode_hex_escape_slice, decode_four_hex_spec_gen in H. fold (hex4 a b c d) in H.
    rewrite Hh in H. discriminate H.
Qed.

Lemma parse_escape_nil : forall f cf v o p d,
  parse_escape f (SE cf) v (mkSt [] o p d) = Err EofWhileParsingString o.
Proof. reflexivity. Qed.

Lemma parse_escape_sound : forall f cf l o p dp w s2,
  parse_escape f (SE cf) true (mkSt l o p dp) = Ok (w, s2) ->
  exists ps,
    92 :: l = flat_map render_piece ps ++ rest s2 /\ str_ok ps = true /\
    (forall r, str_decode (ps ++ r) = option_map (app w) (str_decode r)) /\
    (S (off s2) = o + length (flat_map render_piece ps))%nat /\ pk s2 = false /\ depth s2 = dp /\
    (forall r, forallb is_raw (ps ++ r) = false).
Proof.
  intros f cf l o p dp w s2 H.
  destruct l as [|ch l]; [rewrite parse_escape_nil in H; discriminate H|].
  destruct (N.eqb_spec ch 117) as [->|Hch].
  - (* \u *)
    destruct l as [|a [|b [|c [|d tl]]]]; try discriminate H.
    destruct (hex4 a b c d) eqn:Hh.
    2:{ rewrite parse_escape_cons in H. change (117 =? 117) with true in H. cbv iota in H.
        unfold parse_unicode_escape in H.
        rewrite decode_hex_escape_slice, decode_four_hex_spec_gen in H. fold (hex4 a b c d) in H.
        rewrite Hh in H. discriminate H. }
    rewrite parse_escape_u_true in H by exact Hh.
    pose proof (u4_val_lt a b c d Hh) as Hlt.
    destruct (is_lo_surr (u4_val a b c d)) eqn:Hlo; [discriminate H|].
    destruct f as [|f]; [discriminate H|].
    destruct (is_hi_surr (u4_val a b c d)) eqn:Hhi.
    + apply unicode_loop_hi_inv in H; [|exact Hhi].
      destruct H as (a' & b' & c' & d' & r & -> & Hh2 & Hlo2 & -> & ->).
      exists [PU4 a b c d; PU4 a' b' c' d']. cbn [rest off pk depth].
      split; [reflexivity|]. split.
      { unfold str_ok. cbn [forallb piece_ok]. unfold hex4 in Hh, Hh2. rewrite Hh, Hh2. reflexivity. }
      split.
      { intros r0. cbn [app]. rewrite str_decode_u4. cbv zeta. rewrite Hlo, Hhi, Hlo2. reflexivity. }
      split; [cbn [flat_map render_piece app length]; lia|].
      split; [reflexivity|]. split; reflexivity.
    + rewrite unicode_loop_scalar in H by assumption. injection H as <- <-.
      exists [PU4 a b c d]. cbn [rest off pk depth].
      split; [reflexivity|]. split.
      { unfold str_ok. cbn [forallb piece_ok]. unfold hex4 in Hh. rewrite Hh. reflexivity. }
      split.
      { intros r0. cbn [app]. rewrite str_decode_u4. cbv zeta. rewrite Hlo, Hhi. reflexivity. }
      split; [cbn [flat_map render_piece app length]; lia|].
      split; [reflexivity|]. split; reflexivity.
  - (* one-letter escape *)
    rewrite parse_escape_cons in H. apply N.eqb_neq in Hch. rewrite Hch, escape_simple_spec in H.
    destruct (esc_letter ch) eqn:Hl; [|discriminate H].
    injection H as <- <-.
    exists [PEsc ch]. cbn [rest off pk depth].
    split; [reflexivity|]. split.
    { unfold str_ok. cbn [forallb piece_ok]. rewrite Hl. reflexivity. }
    split; [intros r0; reflexivity|].
    split; [cbn [flat_map render_piece app length]; lia|].
    split; [reflexivity|]. split; reflexivity.
Qed.

(* ---- spans of unescaped bytes ---- *)
Lemma span_firstn_all : forall (p : byte -> bool) l, forallb p (firstn (span_len p l) l) = true.
Proof.
  intros p l. induction l as [|b r IH]; [reflexivity|].
  cbn [span_len]. destruct (p b) eqn:Hb; [|reflexivity].
  cbn [firstn forallb]. rewrite Hb, IH. reflexivity.
Qed.

Lemma span_len_le : forall (p : byte -> bool) l, (span_len p l <= length l)%nat.
Proof.
  intros p l. induction l as [|b r IH]; [apply Nat.le_refl|].
  cbn [span_len length]. destruct (p b); lia.
Qed.

Lemma render_raw : forall chunk, flat_map render_piece (map PRaw chunk) = chunk.
Proof. induction chunk as [|b r IH]; [reflexivity|]. cbn [map flat_map render_piece app]. rewrite IH. reflexivity. Qed.

Lemma str_decode_raw_app : forall chunk s,
  str_decode (map PRaw chunk ++ s) = option_map (app chunk) (str_decode s).
Proof.
  induction chunk as [|b r IH]; intros s.
  - cbn [map app]. destruct (str_decode s); reflexivity.
  - cbn [map app]. rewrite str_decode_raw, IH. destruct (str_decode s); reflexivity.
Qed.

Lemma str_ok_raw : forall chunk,
  Forall (fun x => x < 256) chunk -> forallb (fun b => negb (is_escape b true)) chunk = true ->
  str_ok (map PRaw chunk) = true.
Proof.
  induction chunk as [|b r IH]; intros HF Hall; [reflexivity|].
  inversion HF as [|? ? Hb HF']; subst. cbn [forallb] in Hall.
  apply andb_true_iff in Hall. destruct Hall as [Hesc Hall].
  unfold str_ok. cbn [map forallb piece_ok]. fold (str_ok (map PRaw r)). rewrite (IH HF' Hall).
  rewrite is_escape_spec in Hesc. lia.
Qed.

Lemma is_raw_map_app : forall chunk s, forallb is_raw (map PRaw chunk ++ s) = forallb is_raw s.
Proof. induction chunk as [|b r IH]; intros s; [reflexivity|]. cbn [map app forallb is_raw andb]. apply IH. Qed.

Lemma str_ok_app : forall s1 s2, str_ok (s1 ++ s2) = str_ok s1 && str_ok s2.
Proof. intros. unfold str_ok. apply forallb_app. Qed.

(* ---- soundness of the scanning loop ---- *)
Lemma slice_loop_sound : forall cf fuel s0 out cp s1,
  Forall (fun x => x < 256) (rest s0) ->
  slice_str_loop fuel (SE cf) true s0 = Ok (out, cp, s1) ->
  exists s, rest s0 = flat_map render_piece s ++ 34 :: rest s1 /\ str_ok s = true /\
            str_decode s = Some out /\
            (off s1 = off s0 + length (flat_map render_piece s) + 1)%nat /\
            pk s1 = false /\ depth s1 = depth s0 /\ cp = negb (forallb is_raw s).
Proof.
  intros cf fuel. induction fuel as [|f IH]; intros s0 out cp s1 HF H; [discriminate H|].
  destruct s0 as [l o p dp]. cbn [rest off depth] in *.
  rewrite slice_loop_S in H. cbn [rest] in H. cbv zeta in H.
  set (n := esc_span true l) in *.
  pose proof (firstn_skipn n l) as Hsplit.
  pose proof (span_firstn_all (fun b => negb (is_escape b true)) l) as Hall.
  fold (esc_span true l) in Hall. fold n in Hall.
  assert (Hn : length (firstn n l) = n).
  { apply firstn_length_le. apply span_len_le. }
  set (chunk := firstn n l) in *.
  assert (HFc : Forall (fun x => x < 256) chunk /\ Forall (fun x => x < 256) (skipn n l)).
  { rewrite <- Hsplit in HF. apply Forall_app in HF. exact HF. }
  destruct HFc as [HFc HFs].
  unfold advance in H. cbn [rest off depth] in H.
  destruct (skipn n l) as [|b tl] eqn:Hsk; [discriminate H|].
  destruct (N.eqb_spec b 34) as [->|Hb34].
  { (* closing quote *)
    injection H as <- <- <-. exists (map PRaw chunk). cbn [rest off pk depth skipn].
    rewrite render_raw. split; [symmetry; exact Hsplit|].
    split; [apply str_ok_raw; assumption|].
    split.
    { rewrite <- (app_nil_r (map PRaw chunk)), str_decode_raw_app. cbn [str_decode option_map].
      rewrite app_nil_r. reflexivity. }
    split; [lia|]. split; [reflexivity|]. split; [reflexivity|].
    rewrite <- (app_nil_r (map PRaw chunk)), is_raw_map_app. reflexivity. }
  destruct (N.eqb_spec b 92) as [->|Hb92]; [|discriminate H].
  cbn [skipn] in H.
  apply bind_ok in H. destruct H as ([w s2] & Hesc & H).
  apply bind_ok in H. destruct H as ([[out' cp'] s3] & Hloop & H).
  injection H as <- <- <-.
  apply parse_escape_sound in Hesc.
  destruct Hesc as (ps & Hrender & Hps & Hdec & Hoff & Hpk & Hdp & Hraw).
  assert (HF2 : Forall (fun x => x < 256) (rest s2)).
  { rewrite Hrender in HFs. apply Forall_app in HFs. apply HFs. }
  destruct (IH s2 out' cp' s3 HF2 Hloop) as (s' & Hr' & Hok' & Hdec' & Hoff' & Hpk' & Hdp' & Hcp').
  exists (map PRaw chunk ++ ps ++ s').
  split.
  { rewrite !flat_map_app, render_raw, <- !app_assoc, <- Hr', <- Hrender. symmetry. exact Hsplit. }
  split.
  { rewrite !str_ok_app, Hps, Hok', (str_ok_raw chunk HFc Hall). reflexivity. }
  split.
  { rewrite str_decode_raw_app, Hdec, Hdec'. reflexivity. }
  split.
  { rewrite !flat_map_app, render_raw, !app_length. lia. }
  split; [exact Hpk'|]. split; [congruence|].
  rewrite is_raw_map_app, Hraw. reflexivity.
Qed.

Lemma str_text_intro : forall s b, str_decode s = Some b -> utf8_valid b = true -> str_text s = Some b.
Proof. intros s b Hd Hv. unfold str_text. rewrite Hd, Hv. reflexivity. Qed.

Theorem parse_str_sound_strong : forall cf s0 b bw s1,
  Forall (fun x => (x < 256)%N) (rest s0) ->
  parse_str (mkEnv RSlice TEof cf) s0 = Ok (b, bw, s1) ->
  exists s, rest s0 = flat_map render_piece s ++ 34 :: rest s1 /\ str_ok s = true /\ str_text s = Some b
         /\ (off s1 = off s0 + length (flat_map render_piece s) + 1)%nat /\ pk s1 = false /\ depth s1 = depth s0
         /\ bw = forallb (fun p => match p with PRaw _ => true | _ => false end) s.
Proof.
  intros cf s0 b bw s1 HF H. rewrite parse_str_slice in H.
  apply bind_ok in H. destruct H as ([[out cp] s1'] & Hloop & H).
  destruct (utf8_valid out) eqn:Hv; [|discriminate H].
  injection H as <- <- <-.
  destruct (slice_loop_sound cf _ s0 out cp s1' HF Hloop) as (s & Hr & Hok & Hdec & Hoff & Hpk & Hdp & Hcp).
  exists s. repeat split; try assumption.
  - apply str_text_intro; assumption.
  - rewrite Hcp, negb_involutive. reflexivity.
Qed.

Theorem parse_str_sound : forall cf s0 b bw s1,
  Forall (fun x => (x < 256)%N) (rest s0) ->
  parse_str (mkEnv RSlice TEof cf) s0 = Ok (b, bw, s1) ->
  exists s, rest s0 = flat_map render_piece s ++ 34 :: rest s1 /\ str_ok s = true /\ str_text s = Some b
         /\ (off s1 = off s0 + length (flat_map render_piece s) + 1)%nat /\ pk s1 = false /\ depth s1 = depth s0.
Proof.
  intros cf s0 b bw s1 HF H.
  destruct (parse_str_sound_strong cf s0 b bw s1 HF H) as (s & H1 & H2 & H3 & H4 & H5 & H6 & _).
  exists s. repeat split; assumption.
Qed.

(* ===== Part 5: unique decomposition ===== *)
Lemma render_unique : forall s s' rst rst',
  str_ok s = true -> str_ok s' = true ->
  flat_map render_piece s ++ 34 :: rst = flat_map render_piece s' ++ 34 :: rst' ->
  s = s' /\ rst = rst'.
Proof.
  induction s as [|p r IH]; intros s' rst rst' Hok Hok' Heq.
  - destruct s' as [|p' r'].
    + cbn [flat_map app] in Heq. injection Heq as ->. split; reflexivity.
    + exfalso. unfold str_ok in Hok'. cbn [forallb] in Hok'.
      apply andb_true_iff in Hok'. destruct Hok' as [Hp' _].
      destruct p' as [x|x|a b c d]; cbn [flat_map render_piece app] in Heq; injection Heq as Hx;
        [subst x; discriminate Hp'|discriminate Hx|discriminate Hx].
  - unfold str_ok in Hok. cbn [forallb] in Hok.
    apply andb_true_iff in Hok. destruct Hok as [Hp Hr]. fold (str_ok r) in Hr.
    destruct s' as [|p' r'].
    + exfalso.
      destruct p as [x|x|a b c d]; cbn [flat_map render_piece app] in Heq; injection Heq as Hx;
        [subst x; discriminate Hp|discriminate Hx|discriminate Hx].
    + unfold str_ok in Hok'. cbn [forallb] in Hok'.
      apply andb_true_iff in Hok'. destruct Hok' as [Hp' Hr']. fold (str_ok r') in Hr'.
      destruct p as [x|x|a b c d], p' as [x'|x'|a' b' c' d'];
        cbn [flat_map render_piece app] in Heq.
      * injection Heq as -> Heq. destruct (IH r' rst rst' Hr Hr' Heq) as [-> ->]. split; reflexivity.
      * exfalso. injection Heq as -> _. discriminate Hp.
      * exfalso. injection Heq as -> _. discriminate Hp.
      * exfalso. injection Heq as <- _. discriminate Hp'.
      * injection Heq as -> Heq. destruct (IH r' rst rst' Hr Hr' Heq) as [-> ->]. split; reflexivity.
      * exfalso. injection Heq as -> _. discriminate Hp.
      * exfalso. injection Heq as <- _. discriminate Hp'.
      * exfalso. injection Heq as <- _. discriminate Hp'.
      * injection Heq as -> -> -> -> Heq. destruct (IH r' rst rst' Hr Hr' Heq) as [-> ->]. split; reflexivity.
Qed.

(* ===== sanity: the statements on concrete literals (validated with vm_compute) ===== *)
Section Examples.
  Let cf0 := mkCfg false false false false.
  Let run l := parse_str (mkEnv RSlice TEof cf0) (mkSt l 7 true 5).
  (* a \n quote *)
  Example ex_esc : run [97; 92; 110; 34; 1] = Ok ([97; 10], false, mkSt [1] 11 false 5)
                   /\ str_text [PRaw 97; PEsc 110] = Some [97; 10].
  Proof. split; vm_compute; reflexivity. Qed.
  (* U+00E9 raw, and a truncated sequence *)
  Example ex_raw : run [195; 169; 34] = Ok ([195; 169], true, mkSt [] 10 false 5)
                   /\ str_text [PRaw 195; PRaw 169] = Some [195; 169].
  Proof. split; vm_compute; reflexivity. Qed.
  Example ex_bad_utf8 : run [195; 34] = Err InvalidUnicodeCodePoint 9 /\ str_text [PRaw 195] = None.
  Proof. split; vm_compute; reflexivity. Qed.
  (* U+1F600 as a surrogate pair d83d de00 *)
  Example ex_pair : run [92;117;100;56;51;100;92;117;100;101;48;48;34;9] = Ok ([240;159;152;128], false, mkSt [9] 20 false 5)
                    /\ str_text [PU4 100 56 51 100; PU4 100 101 48 48] = Some [240;159;152;128].
  Proof. split; vm_compute; reflexivity. Qed.
  (* lone d800 ; d800 d800 ; d800 A ; d800 \n ; lone dc00 *)
  Example ex_lone_hi : run [92;117;100;56;48;48;34] = Err UnexpectedEndOfHexEscape 14
                       /\ str_text [PU4 100 56 48 48] = None.
  Proof. split; vm_compute; reflexivity. Qed.
  Example ex_hi_hi : run [92;117;100;56;48;48;92;117;100;56;48;48;34] = Err LoneLeadingSurrogateInHexEscape 19
                     /\ str_text [PU4 100 56 48 48; PU4 100 56 48 48] = None.
  Proof. split; vm_compute; reflexivity. Qed.
  Example ex_hi_raw : run [92;117;100;56;48;48;65;34] = Err UnexpectedEndOfHexEscape 14
                      /\ str_text [PU4 100 56 48 48; PRaw 65] = None.
  Proof. split; vm_compute; reflexivity. Qed.
  Example ex_hi_esc : run [92;117;100;56;48;48;92;110;34] = Err UnexpectedEndOfHexEscape 15
                      /\ str_text [PU4 100 56 48 48; PEsc 110] = None.
  Proof. split; vm_compute; reflexivity. Qed.
  Example ex_lone_lo : run [92;117;100;67;48;48;34] = Err LoneLeadingSurrogateInHexEscape 13
                       /\ str_text [PU4 100 67 48 48] = None.
  Proof. split; vm_compute; reflexivity. Qed.
End Examples.

Print Assumptions is_escape_spec.
Print Assumptions escape_simple_spec.
Print Assumptions decode_four_hex_spec.
Print Assumptions push_wtf8_scalar.
Print Assumptions parse_str_complete_strong.
Print Assumptions parse_str_complete.
Print Assumptions parse_str_borrowed.
Print Assumptions parse_str_sound_strong.
Print Assumptions parse_str_sound.
Print Assumptions parse_str_rejects.
Print Assumptions render_unique.
