(* Proofs/PointerEq.v — C18, comparisons of a Value with Rust primitives (src/value/partial_eq.rs as modelled in
   Model/Pointer.v): for every comparand type, exactly when the comparison is true.
   Integers, bool, str: true iff the Value holds that very value.
   f64 / f32: the code converts the STORED number to the comparand's float type (`as f64`, `as f32`) and compares with
   IEEE ==.  For integers that are exactly representable this is "holds that value"; beyond 2^53 (f64) / 2^24 (f32), and for
   stored f64 compared with f32, it is equality after rounding — see the [deviation_*] examples at the end. *)
From Coq Require Import Reals Lia Lra ZifyBool ZifyN.
From Flocq Require Import Core BinarySingleNaN.
From SJ Require Import Base.Bytes Base.FloatB Model.Value Model.Pointer.
From SJ Require Import Proofs.Pointer.
Open Scope N_scope.

(* ====================================================================== integers, bool, str *)
Definition num_int (n : num) : option Z :=
  match n with
  | NPos n => Some (Z.of_N n)
  | NNeg z => Some z
  | _ => None
  end.
(* invariant of Number (default build): PosInt is a u64, NegInt a negative i64 *)
Definition num_wf (n : num) : Prop :=
  match n with
  | NPos n => n <= u64_max
  | NNeg z => (- 9223372036854775808 <= z < 0)%Z
  | _ => True
  end.
Definition value_num_wf (v : value) : Prop := match v with VNum n => num_wf n | _ => True end.

Theorem eq_int_spec : forall t v z,
  ity_in_range t z = true -> value_num_wf v ->
  (eq_int t v z = true <-> exists n, v = VNum n /\ num_int n = Some z).
Proof.
  intros t v z Hr Hwf.
  assert (Hnot : forall v0 : value, (forall n, v0 <> VNum n) ->
            (eq_int t v0 z = true <-> exists n, v0 = VNum n /\ num_int n = Some z)).
  { intros v0 Hv0. split.
    - unfold eq_int, eq_i64, eq_u64. destruct v0; try (destruct (ity_signed t); discriminate).
      exfalso. eapply Hv0. reflexivity.
    - intros [n [Hn _]]. exfalso. eapply Hv0. exact Hn. }
  destruct v as [| b | n | s | l | m]; try (apply Hnot; intros n0; discriminate).
  cbn [value_num_wf] in Hwf.
  unfold ity_in_range in Hr. apply Bool.andb_true_iff in Hr. destruct Hr as [Hlo Hhi].
  apply Z.leb_le in Hlo. apply Z.leb_le in Hhi.
  assert (Hs : ity_signed t = true -> (- 9223372036854775808 <= z <= 9223372036854775807)%Z).
  { intros Hsg. destruct t; try discriminate; cbn [ity_min ity_max] in Hlo, Hhi; lia. }
  assert (Hu : ity_signed t = false -> (0 <= z <= 18446744073709551615)%Z).
  { intros Hsg. destruct t; try discriminate; cbn [ity_min ity_max] in Hlo, Hhi; lia. }
  unfold eq_int. destruct (ity_signed t) eqn:Hsg.
  - specialize (Hs eq_refl). unfold eq_i64, as_i64, num_as_i64.
    destruct n as [p | z' | fl | lit]; cbn [num_wf] in Hwf.
    + unfold i64_max. destruct (p <=? 9223372036854775807) eqn:Hp.
      * split.
        -- intros H. apply Z.eqb_eq in H. exists (NPos p). split; [reflexivity|]. cbn [num_int]. f_equal. exact H.
        -- intros [n [Hn Hi]]. injection Hn as Hn. subst n. cbn [num_int] in Hi. injection Hi as Hi. apply Z.eqb_eq. exact Hi.
      * split; [discriminate|]. intros [n [Hn Hi]]. injection Hn as Hn. subst n. cbn [num_int] in Hi. injection Hi as Hi. lia.
    + split.
      * intros H. apply Z.eqb_eq in H. exists (NNeg z'). split; [reflexivity|]. cbn [num_int]. f_equal. exact H.
      * intros [n [Hn Hi]]. injection Hn as Hn. subst n. cbn [num_int] in Hi. injection Hi as Hi. apply Z.eqb_eq. exact Hi.
    + split; [discriminate|]. intros [n [Hn Hi]]. injection Hn as Hn. subst n. discriminate.
    + split; [discriminate|]. intros [n [Hn Hi]]. injection Hn as Hn. subst n. discriminate.
  - specialize (Hu eq_refl). unfold eq_u64, as_u64, num_as_u64.
    destruct n as [p | z' | fl | lit]; cbn [num_wf] in Hwf.
    + split.
      * intros H. apply N.eqb_eq in H. exists (NPos p). split; [reflexivity|]. cbn [num_int]. f_equal. lia.
      * intros [n [Hn Hi]]. injection Hn as Hn. subst n. cbn [num_int] in Hi. injection Hi as Hi. apply N.eqb_eq. lia.
    + split; [discriminate|]. intros [n [Hn Hi]]. injection Hn as Hn. subst n. cbn [num_int] in Hi. injection Hi as Hi. lia.
    + split; [discriminate|]. intros [n [Hn Hi]]. injection Hn as Hn. subst n. discriminate.
    + split; [discriminate|]. intros [n [Hn Hi]]. injection Hn as Hn. subst n. discriminate.
Qed.

Theorem eq_bool_spec : forall v b, eq_bool v b = true <-> v = VBool b.
Proof.
  intros v b. unfold eq_bool, as_bool. destruct v as [| b0 | n | s | l | m]; try (split; discriminate).
  split.
  - intros H. apply Bool.eqb_prop in H. subst. reflexivity.
  - intros H. injection H as H. subst. apply Bool.eqb_reflx.
Qed.

Theorem eq_str_spec : forall v s, eq_str v s = true <-> v = VStr s.
Proof.
  intros v s. unfold eq_str, as_str. destruct v as [| b0 | n | s0 | l | m]; try (split; discriminate).
  split.
  - intros H. apply beq_bytes_eq in H. subst. reflexivity.
  - intros H. injection H as H. subst. apply beq_bytes_eq. reflexivity.
Qed.

(* ====================================================================== floats *)
Open Scope R_scope.

(* IEEE == against a finite left operand: true iff the right operand is finite and denotes the same real *)
Lemma Beqb_finite_l : forall prec emax (x o : binary_float prec emax),
  is_finite x = true -> (Beqb x o = true <-> is_finite o = true /\ B2R x = B2R o).
Proof.
  intros prec emax x o Hx. destruct (is_finite o) eqn:Ho.
  - rewrite Beqb_correct by assumption. split.
    + intros H. split; [reflexivity|]. destruct (Req_bool_spec (B2R x) (B2R o)); [assumption|discriminate].
    + intros [_ H]. apply Req_bool_true. exact H.
  - split; [|intros [H _]; discriminate].
    intros H. exfalso.
    destruct o as [so | so | | so mo eo Hbo]; try discriminate Ho;
      destruct x as [sx | sx | | sx mx ex Hbx]; try discriminate Hx;
      unfold Beqb in H; simpl in H; try discriminate H;
      destruct so; try discriminate H; destruct sx; discriminate H.
Qed.

(* integer -> float conversion (`as f64`, `as f32`): one rounding to nearest-even, never overflowing for 64-bit integers *)
Section IntConv.
  Variables prec emax : Z.
  Context (Hp : Prec_gt_0 prec) (He : Prec_lt_emax prec emax).
  Hypothesis Hemax : (64 < emax)%Z.

  Let rnd (x : R) : R := round radix2 (SpecFloat.fexp prec emax) ZnearestE x.

  Lemma int_conv_correct : forall z, (Z.abs z <= 2 ^ 64)%Z ->
    let f := binary_normalize prec emax Hp He mode_NE z 0 false in
    B2R f = rnd (IZR z) /\ is_finite f = true.
  Proof.
    intros z Hz f.
    pose proof (binary_normalize_correct prec emax Hp He mode_NE z 0 false) as H.
    cbv zeta in H.
    assert (Hx : F2R (Float radix2 z 0) = IZR z).
    { unfold F2R. cbn [Fnum Fexp bpow]. ring. }
    rewrite Hx in H.
    assert (Hlt : Rabs (round radix2 (SpecFloat.fexp prec emax) (round_mode mode_NE) (IZR z)) < bpow radix2 emax).
    { apply Rle_lt_trans with (bpow radix2 64).
      - apply abs_round_le_generic.
        + apply (fexp_correct prec emax Hp).
        + apply valid_rnd_round_mode.
        + apply generic_format_FLT_bpow; [exact Hp|]. unfold SpecFloat.emin.
          unfold Prec_gt_0 in Hp. lia.
        + rewrite <- abs_IZR. change (bpow radix2 64) with (IZR (2 ^ 64)). apply IZR_le. exact Hz.
      - apply bpow_lt. exact Hemax. }
    rewrite Rlt_bool_true in H by exact Hlt.
    destruct H as [HR [HF _]]. split; [exact HR | exact HF].
  Qed.

  (* integers of at most [prec] bits are exact *)
  Lemma int_conv_exact : forall z, (Z.abs z <= 2 ^ prec)%Z -> rnd (IZR z) = IZR z.
  Proof.
    intros z Hz. apply round_generic; [apply valid_rnd_N|].
    assert (Hprec : (0 < prec)%Z) by exact Hp.
    assert (Hemin : (SpecFloat.emin prec emax <= 0)%Z).
    { unfold SpecFloat.emin. lia. }
    destruct (Z.eq_dec (Z.abs z) (2 ^ prec)) as [Heq|Hne].
    - (* +- 2^prec *)
      assert (Hb : generic_format radix2 (SpecFloat.fexp prec emax) (bpow radix2 prec)).
      { apply generic_format_FLT_bpow; [exact Hp|]. lia. }
      assert (Hpow : IZR (2 ^ prec) = bpow radix2 prec).
      { rewrite <- (IZR_Zpower radix2) by lia. reflexivity. }
      destruct (Z.abs_eq_or_opp z) as [Ha|Ha]; rewrite Ha in Heq.
      + rewrite Heq, Hpow. exact Hb.
      + assert (Hz' : z = (- 2 ^ prec)%Z) by lia. rewrite Hz', opp_IZR, Hpow.
        apply generic_format_opp. exact Hb.
    - apply generic_format_FLT. exists (Float radix2 z 0).
      + unfold F2R. cbn [Fnum Fexp bpow]. ring.
      + cbn [Fnum]. change (Z.pow_pos 2) with (Z.pow 2) in *.
        assert (H2 : (radix2 ^ prec = 2 ^ prec)%Z) by reflexivity. rewrite H2. lia.
      + cbn [Fexp]. exact Hemin.
  Qed.
End IntConv.

Definition rnd64 (x : R) : R := round radix2 (FLT_exp (-1074) 53) ZnearestE x.
Definition rnd32 (x : R) : R := round radix2 (FLT_exp (-149) 24) ZnearestE x.

(* the Number holding the integer z *)
Definition num_of_Z (z : Z) : num := if (0 <=? z)%Z then NPos (Z.to_N z) else NNeg z.

Lemma num_as_f64_int : forall z, num_as_f64 (num_of_Z z) = Some (b64_of_Z z).
Proof.
  intros z. unfold num_of_Z. destruct (0 <=? z)%Z eqn:Hz; cbn [num_as_f64]; [|reflexivity].
  rewrite Z2N.id by lia. reflexivity.
Qed.
Lemma num_as_f32_int : forall z, num_as_f32 (num_of_Z z) = Some (b32_of_Z z).
Proof.
  intros z. unfold num_of_Z. destruct (0 <=? z)%Z eqn:Hz; cbn [num_as_f32]; [|reflexivity].
  rewrite Z2N.id by lia. reflexivity.
Qed.

(* Value(integer z) == f64 o : true iff o is the f64 nearest to z *)
Theorem eq_f64_int : forall z o, (Z.abs z <= 2 ^ 64)%Z ->
  (eq_f64 (VNum (num_of_Z z)) o = true <-> is_finite o = true /\ B2R o = rnd64 (IZR z)).
Proof.
  intros z o Hz. unfold eq_f64, as_f64. rewrite num_as_f64_int.
  destruct (int_conv_correct 53 1024 prec53_gt_0 prec53_lt_emax ltac:(lia) z Hz) as [HR HF].
  fold (b64_of_Z z) in HR, HF.
  rewrite Beqb_finite_l by exact HF. rewrite HR. unfold rnd64.
  change (SpecFloat.fexp 53 1024) with (FLT_exp (-1074) 53).
  split; intros [H1 H2]; (split; [exact H1 | symmetry; exact H2]).
Qed.

(* ... which is z itself up to 2^53: there the comparison is "the Value holds exactly o" *)
Theorem eq_f64_int_exact : forall z o, (Z.abs z <= 2 ^ 53)%Z ->
  (eq_f64 (VNum (num_of_Z z)) o = true <-> is_finite o = true /\ B2R o = IZR z).
Proof.
  intros z o Hz. rewrite eq_f64_int by lia. unfold rnd64.
  change (FLT_exp (-1074) 53) with (SpecFloat.fexp 53 1024).
  rewrite (int_conv_exact 53 1024 prec53_gt_0 prec53_lt_emax) by exact Hz. reflexivity.
Qed.

(* Value(f64 g) == f64 o : IEEE equality (same real number; -0.0 == 0.0; never true for NaN / infinite o) *)
Theorem eq_f64_float : forall g o, is_finite g = true ->
  (eq_f64 (VNum (NFloat g)) o = true <-> is_finite o = true /\ B2R o = B2R g).
Proof.
  intros g o Hg. unfold eq_f64, as_f64, num_as_f64. rewrite Beqb_finite_l by exact Hg.
  split; intros [H1 H2]; (split; [exact H1 | symmetry; exact H2]).
Qed.

(* Value(integer z) == f32 o : true iff o is the f32 nearest to z; exact up to 2^24 *)
Theorem eq_f32_int : forall z o, (Z.abs z <= 2 ^ 64)%Z ->
  (eq_f32 (VNum (num_of_Z z)) o = true <-> is_finite o = true /\ B2R o = rnd32 (IZR z)).
Proof.
  intros z o Hz. unfold eq_f32. rewrite num_as_f32_int.
  destruct (int_conv_correct 24 128 prec24_gt_0 prec24_lt_emax ltac:(lia) z Hz) as [HR HF].
  fold (b32_of_Z z) in HR, HF.
  rewrite Beqb_finite_l by exact HF. rewrite HR. unfold rnd32.
  change (SpecFloat.fexp 24 128) with (FLT_exp (-149) 24).
  split; intros [H1 H2]; (split; [exact H1 | symmetry; exact H2]).
Qed.
Theorem eq_f32_int_exact : forall z o, (Z.abs z <= 2 ^ 24)%Z ->
  (eq_f32 (VNum (num_of_Z z)) o = true <-> is_finite o = true /\ B2R o = IZR z).
Proof.
  intros z o Hz. rewrite eq_f32_int by lia. unfold rnd32.
  change (FLT_exp (-149) 24) with (SpecFloat.fexp 24 128).
  rewrite (int_conv_exact 24 128 prec24_gt_0 prec24_lt_emax) by exact Hz. reflexivity.
Qed.

(* Value(f64 g) == f32 o is decided on g rounded to f32 *)
Theorem eq_f32_float : forall g o,
  eq_f32 (VNum (NFloat g)) o = Beqb (b32_of_b64 g) o.
Proof. reflexivity. Qed.

(* only numbers compare equal to floats *)
Theorem eq_float_kind : forall v, (forall n, v <> VNum n) -> (forall o, eq_f64 v o = false) /\ (forall o, eq_f32 v o = false).
Proof.
  intros v Hv. split; intros o; destruct v; try reflexivity; exfalso; eapply Hv; reflexivity.
Qed.

(* ---- where "true exactly when the Value holds that value" fails for float comparands (all confirmed on the real code) *)
Close Scope R_scope.
(* 2^53 + 1 (stored exactly as PosInt) == 9007199254740992.0_f64 *)
Example deviation_f64_int : eq_f64 (VNum (NPos 9007199254740993)) (b64_of_bits 4845873199050653696) = true.
Proof. vm_compute. reflexivity. Qed.
(* 0.1_f64 (0x3fb999999999999a) == 0.1_f32 (0x3dcccccd), although 0.1_f32 as f64 is a different number *)
Example deviation_f32_float :
  eq_f32 (VNum (NFloat (b64_of_bits 4591870180066957722))) (b32_of_bits 1036831949) = true /\
  eq_f64 (VNum (NFloat (b64_of_bits 4591870180066957722))) (b64_of_b32 (b32_of_bits 1036831949)) = false.
Proof. split; vm_compute; reflexivity. Qed.
(* 1e300_f64 == f32::INFINITY *)
Example deviation_f32_overflow : eq_f32 (VNum (NFloat (b64_of_bits 9094988921128908188))) (b32_of_bits 2139095040) = true.
Proof. vm_compute. reflexivity. Qed.
(* 16777217 (2^24 + 1) == 16777216.0_f32 *)
Example deviation_f32_int : eq_f32 (VNum (NPos 16777217)) (b32_of_bits 1266679808) = true.
Proof. vm_compute. reflexivity. Qed.
(* an integer-valued float is not equal to the integer comparand: Value(1.0) == 1_i64 is false, Value(1) == 1.0_f64 is true *)
Example int_vs_float :
  eq_int I64 (VNum (NFloat (b64_of_bits 4607182418800017408))) 1 = false /\
  eq_f64 (VNum (NPos 1)) (b64_of_bits 4607182418800017408) = true.
Proof. split; vm_compute; reflexivity. Qed.

Print Assumptions eq_int_spec.
Print Assumptions eq_bool_spec.
Print Assumptions eq_str_spec.
Print Assumptions eq_f64_int_exact.
Print Assumptions eq_f32_int_exact.
Print Assumptions eq_f64_float.
