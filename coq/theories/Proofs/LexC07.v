(* Proofs/LexC07.v — property C07 for the parser model (float_roundtrip build):

     every well-formed JSON number literal that is not a plain integer fitting u64 is deserialised to the IEEE-754
     binary64 value nearest (ties to even) to the literal's exact decimal value, with the literal's sign (including
     -0.0 and underflow to +-0), and is rejected with NumberOutOfRange exactly when that nearest value would be infinite.

   Assembled from
     LexGlue.lex_glue              what the number parser hands to lexical denotes the literal's value
     FloatOracle.rne_decimal_correct  (taken as a Section hypothesis with the statement given in the task, then discharged)
     LexOracle.rne_decimal_overflow   the overflow side of the oracle.

   lexical itself is represented in Model/Num.v by its specification (rne_decimal); that the ALGORITHM computes this
   specification is proved for the fast path (LexFast.lex_fast_correct) and checked against the real code and the
   oracle for all paths by tools/checks/lex.py. *)
From Coq Require Import ZArith NArith Reals Lia Lra List Bool.
From Flocq Require Import Core BinarySingleNaN.
From SJ Require Import Base.Bytes Base.FloatB Gen.Tables Model.Read Model.Num Spec.Syntax Spec.Denote.
From SJ Require Import Proofs.GrammarNum Proofs.LexGlue Proofs.FloatDefault Proofs.FloatOracle Proofs.LexOracle.
Open Scope Z_scope.
Set Warnings "-abstract-large-number".

(* |value| of the literal as a real number *)
Definition lit_real (n : numlit) : R := (IZR (fst (lit_value n)) * powerRZ 10 (snd (lit_value n)))%R.
(* the literal has a fraction or an exponent, or is an integer beyond u64 *)
Definition is_float_lit (n : numlit) : Prop := int_syntax n && (fst (lit_value n) <=? Z.of_N u64_max) = false.

Lemma powerRZ_10_split (a b : Z) : 0 <= a -> (IZR (10 ^ a) * powerRZ 10 b = powerRZ 10 (a + b))%R.
Proof.
  intros Ha. rewrite <- powerRZ_10_nonneg by exact Ha. rewrite <- powerRZ_add by lra. reflexivity.
Qed.

Lemma same_value_real (m e m0 e0 : Z) : same_value m e m0 e0 ->
  (IZR m * powerRZ 10 e = IZR m0 * powerRZ 10 e0)%R.
Proof.
  unfold same_value. intros H. set (k := Z.min e e0) in *.
  assert (He : 0 <= e - k) by (unfold k; lia). assert (He0 : 0 <= e0 - k) by (unfold k; lia).
  replace e with ((e - k) + k) at 1 by lia. replace e0 with ((e0 - k) + k) at 1 by lia.
  rewrite <- (powerRZ_10_split (e - k) k He), <- (powerRZ_10_split (e0 - k) k He0).
  rewrite <- !Rmult_assoc, <- !mult_IZR, H. reflexivity.
Qed.

Section WithOracle.
(* the oracle theorem, exactly as stated in the task (proved in FloatOracle.v; discharged below) *)
Hypothesis rne_decimal_correct_H : forall m e, (0 < m)%Z ->
  (Rabs (round radix2 (FLT_exp (-1074) 53) ZnearestE (IZR m * powerRZ 10 e)) < bpow radix2 1024)%R ->
  is_finite (rne_decimal m e) = true /\
  B2R (rne_decimal m e) = round radix2 (FLT_exp (-1074) 53) ZnearestE (IZR m * powerRZ 10 e) /\
  Bsign (rne_decimal m e) = false.

(* the oracle on a non-negative significand: finite case *)
Lemma oracle_finite (m e : Z) : 0 <= m -> (Rabs (RNE64 (IZR m * powerRZ 10 e)) < bpow radix2 1024)%R ->
  is_finite (rne_decimal m e) = true /\ B2R (rne_decimal m e) = RNE64 (IZR m * powerRZ 10 e) /\
  Bsign (rne_decimal m e) = false.
Proof.
  intros Hm Hlt. destruct (Z.eq_dec m 0) as [->|Hne].
  - rewrite rne_decimal_zero. cbn [is_finite B2R Bsign]. rewrite Rmult_0_l, RNE64_0. auto.
  - apply rne_decimal_correct_H; [lia|exact Hlt].
Qed.

Theorem C07_model_hyp : forall (E : env) (n : numlit) (positive : bool) (r : bytes) (o : nat) (p : bool) (d : N),
  tm E = TEof -> float_roundtrip (cf E) = true -> arbitrary_precision (cf E) = false ->
  num_ok n = true -> fw n r -> (length (render_abs n) < 100000000)%nat ->
  is_float_lit n ->
  let x := lit_real n in
  let run := parse_any_number E positive (mkSt (render_abs n ++ r) o p d) in
  let s_end := pkd r (o + length (render_abs n)) d in
  ((Rabs (RNE64 x) < bpow radix2 1024)%R /\
   exists f : b64, run = Ok (PF64 f, s_end) /\ is_finite f = true /\ Bsign f = negb positive /\
                   B2R f = (if positive then RNE64 x else - RNE64 x)%R)
  \/
  ((bpow radix2 1024 <= Rabs (RNE64 x))%R /\ exists i, run = Err NumberOutOfRange i).
Proof.
  intros E n positive r o p d HE HFR HAP Hok Hfw Hlen Hfl x run s_end.
  pose proof (lex_glue E n positive r o p d HE HFR HAP Hok Hfw Hlen) as G.
  unfold is_float_lit in Hfl. unfold x, lit_real.
  destruct (lit_value n) as [m0 e0] eqn:Hlv. cbn [fst snd] in *.
  rewrite Hfl in G. destruct G as (m & e & Hm & Hsv & G).
  rewrite <- (same_value_real m e m0 e0 Hsv).
  unfold glue_float in G. cbv zeta in G.
  destruct (Rlt_le_dec (Rabs (RNE64 (IZR m * powerRZ 10 e))) (bpow radix2 1024)) as [Hlt|Hge].
  - left. split; [exact Hlt|].
    destruct (oracle_finite m e Hm Hlt) as (Hfin & HR & Hsg).
    assert (Hni : b64_is_inf (rne_decimal m e) = false).
    { destruct (rne_decimal m e); try reflexivity; discriminate Hfin. }
    rewrite Hni in G.
    exists (if positive then rne_decimal m e else b64_neg (rne_decimal m e)).
    split; [exact G|].
    destruct positive; cbn [negb].
    + split; [exact Hfin|]. split; [exact Hsg|exact HR].
    + unfold b64_neg. rewrite is_finite_Bopp, Bsign_Bopp, B2R_Bopp, Hsg, HR.
      * split; [exact Hfin|]. split; reflexivity.
      * destruct (rne_decimal m e); try reflexivity; discriminate Hfin.
  - right. split; [exact Hge|].
    assert (Hpos : 0 < m).
    { destruct (Z_lt_le_dec 0 m) as [Hp|Hp]; [exact Hp|]. exfalso.
      assert (Hz : m = 0) by (clear - Hm Hp; lia). rewrite Hz in Hge.
      rewrite Rmult_0_l, RNE64_0, Rabs_R0 in Hge. pose proof (bpow_gt_0 radix2 1024). lra. }
    rewrite (rne_decimal_overflow m e Hpos Hge) in G. cbn [b64_is_inf] in G. exact G.
Qed.

End WithOracle.

(* the hypothesis is FloatOracle.rne_decimal_correct *)
Theorem C07_model : forall (E : env) (n : numlit) (positive : bool) (r : bytes) (o : nat) (p : bool) (d : N),
  tm E = TEof -> float_roundtrip (cf E) = true -> arbitrary_precision (cf E) = false ->
  num_ok n = true -> fw n r -> (length (render_abs n) < 100000000)%nat ->
  is_float_lit n ->
  let x := lit_real n in
  let run := parse_any_number E positive (mkSt (render_abs n ++ r) o p d) in
  let s_end := pkd r (o + length (render_abs n)) d in
  ((Rabs (RNE64 x) < bpow radix2 1024)%R /\
   exists f : b64, run = Ok (PF64 f, s_end) /\ is_finite f = true /\ Bsign f = negb positive /\
                   B2R f = (if positive then RNE64 x else - RNE64 x)%R)
  \/
  ((bpow radix2 1024 <= Rabs (RNE64 x))%R /\ exists i, run = Err NumberOutOfRange i).
Proof. exact (C07_model_hyp rne_decimal_correct). Qed.

(* the result is unique: two finite floats with the same sign and real value are the same float (so `f` above is THE
   correctly rounded value, bit for bit) *)
Theorem C07_unique : forall f g : b64, is_finite f = true -> is_finite g = true ->
  Bsign f = Bsign g -> B2R f = B2R g -> f = g.
Proof. intros f g Hf Hg Hs Hr. apply B2R_Bsign_inj; assumption. Qed.

(* a negative integer literal below i64::MIN (but within u64) becomes -(n as f64): also correctly rounded *)
Theorem C07_model_negint : forall (E : env) (n : numlit) (r : bytes) (o : nat) (p : bool) (d : N),
  tm E = TEof -> float_roundtrip (cf E) = true -> arbitrary_precision (cf E) = false ->
  num_ok n = true -> fw n r -> (length (render_abs n) < 100000000)%nat ->
  int_syntax n = true -> fst (lit_value n) <= Z.of_N u64_max ->
  (0 <=? wrap_i64 (- wrap_i64 (fst (lit_value n)))) = true ->
  exists f : b64,
    parse_any_number E false (mkSt (render_abs n ++ r) o p d) = Ok (PF64 f, pkd r (o + length (render_abs n)) d) /\
    is_finite f = true /\ Bsign f = true /\ B2R f = (- RNE64 (IZR (fst (lit_value n))))%R.
Proof.
  intros E n r o p d HE HFR HAP Hok Hfw Hlen Hint Hle Hw.
  pose proof (lex_glue E n false r o p d HE HFR HAP Hok Hfw Hlen) as G.
  destruct (lit_value n) as [m0 e0] eqn:Hlv. cbn [fst snd] in *.
  rewrite Hint in G. replace (m0 <=? Z.of_N u64_max) with true in G by (symmetry; apply Z.leb_le; exact Hle).
  cbn [andb] in G. rewrite Hw in G.
  assert (Hm0 : 0 <= m0).
  { assert (H : m0 = digits_val (nint n ++ frac_digits n) 0) by (unfold lit_value in Hlv; congruence).
    rewrite H. change 0 with (Z.of_N 0) at 2. rewrite digits_val_nval. lia. }
  destruct (b64_of_Z_u64 m0 (conj Hm0 Hle)) as (HR & Hfin & Hsg).
  exists (b64_neg (b64_of_Z m0)). split; [exact G|].
  unfold b64_neg. rewrite is_finite_Bopp, Bsign_Bopp, B2R_Bopp, Hsg, HR.
  - split; [exact Hfin|]. split; reflexivity.
  - destruct (b64_of_Z m0); try reflexivity; discriminate Hfin.
Qed.

Print Assumptions C07_model_hyp.
Print Assumptions C07_model.
Print Assumptions C07_model_negint.
