(* Proofs/SerHint.v — C03_hint_irrelevant: a length hint of None or Some(exact length) gives the same trace
   (same buffers, same outcome, same formatter state), at the top of a tree and anywhere inside it. *)
From SJ Require Import Base.Bytes Base.Utf8 Gen.Tables Model.Read Model.Num Model.Sval Model.Ser Spec.Layout Proofs.SerBase.
From Coq Require Import Lia.
Open Scope N_scope.

Section Hint.
  Variable cf : cfg.
  Variable fmt32 fmt64 : N -> bytes.
  Variable F : formatter.
  Notation ser := (ser cf fmt32 fmt64 F).

  Lemma tbind_assoc_nil {A} (m : tr A) : tbind m (fun a => tret a) = m.
  Proof. destruct m as [o [a|c i| |]]; cbn [tbind tret]; rewrite ?app_nil_r; reflexivity. Qed.

  (* Some(0) on an empty sequence: `[` `]` at once and State::Empty, against State::First and `]` from end() *)
  Lemma seq_empty_hint st : ser (SSeq None []) st = ser (SSeq (Some O) []) st.
  Proof.
    cbn [ser ser_elems]. unfold open_seq. cbn [is_some0].
    rewrite !tbind_lift. cbn [tret tbind fst snd close_seq].
    destruct (begin_array F st) as [o1 st1]. cbn [fst snd].
    destruct (end_array F st1) as [o2 st2]. cbn [fst snd lift]. rewrite !app_nil_r. reflexivity.
  Qed.
  Lemma map_empty_hint st : ser (SMap None []) st = ser (SMap (Some O) []) st.
  Proof.
    cbn [ser ser_entries]. unfold open_map. cbn [is_some0].
    rewrite !tbind_lift. cbn [tret tbind fst snd close_map].
    destruct (begin_object F st) as [o1 st1]. cbn [fst snd].
    destruct (end_object F st1) as [o2 st2]. cbn [fst snd lift]. rewrite !app_nil_r. reflexivity.
  Qed.

  Theorem seq_hint_irrelevant es st : ser (SSeq None es) st = ser (SSeq (Some (length es)) es) st.
  Proof. destruct es as [|e r]; [apply seq_empty_hint | reflexivity]. Qed.

  Theorem map_hint_irrelevant kvs st : ser (SMap None kvs) st = ser (SMap (Some (length kvs)) kvs) st.
  Proof. destruct kvs as [|e r]; [apply map_empty_hint | reflexivity]. Qed.

  Theorem C03_hint_irrelevant_seq es :
    serialize cf fmt32 fmt64 F (SSeq None es) = serialize cf fmt32 fmt64 F (SSeq (Some (length es)) es).
  Proof. unfold serialize, serialize_trace. rewrite seq_hint_irrelevant. reflexivity. Qed.

  Theorem C03_hint_irrelevant_map kvs :
    serialize cf fmt32 fmt64 F (SMap None kvs) = serialize cf fmt32 fmt64 F (SMap (Some (length kvs)) kvs).
  Proof. unfold serialize, serialize_trace. rewrite map_hint_irrelevant. reflexivity. Qed.

  (* ---- anywhere in the tree: erasing every hint of a well-formed tree changes nothing ---- *)
  Fixpoint hint_free (v : sval) : sval :=
    match v with
    | SSome v => SSome (hint_free v)
    | SNewtypeStruct v => SNewtypeStruct (hint_free v)
    | SNewtypeVariant n v => SNewtypeVariant n (hint_free v)
    | SSeq _ es => SSeq None (map hint_free es)
    | STuple es => STuple (map hint_free es)
    | STupleStruct es => STupleStruct (map hint_free es)
    | STupleVariant n es => STupleVariant n (map hint_free es)
    | SMap _ kvs => SMap None (map (fun kv => (hint_free (fst kv), hint_free (snd kv))) kvs)
    | SStruct fs => SStruct (map (fun kv => (fst kv, hint_free (snd kv))) fs)
    | SStructVariant n fs => SStructVariant n (map (fun kv => (fst kv, hint_free (snd kv))) fs)
    | _ => v
    end.

  Lemma ser_elems_ext (f g : sval -> fstate -> tr fstate) (h : sval -> sval) es :
    Forall (fun e => forall st, f e st = g (h e) st) es ->
    forall cs st, ser_elems F f es cs st = ser_elems F g (map h es) cs st.
  Proof.
    induction 1 as [|e r He _ IH]; intros cs st; [reflexivity|]. cbn [ser_elems map].
    apply tbind_ext. intros st1. rewrite He. apply tbind_ext. intros st2. apply tbind_ext. intros st3. apply IH.
  Qed.

  Lemma ser_entries_ext {K} (f g : sval -> fstate -> tr fstate) (kf kg : K -> tr unit) (hk : K -> K) (h : sval -> sval) (l : list (K * sval)) :
    Forall (fun kv => kf (fst kv) = kg (hk (fst kv)) /\ forall st, f (snd kv) st = g (h (snd kv)) st) l ->
    forall cs st, ser_entries F f kf l cs st = ser_entries F g kg (map (fun kv => (hk (fst kv), h (snd kv))) l) cs st.
  Proof.
    induction 1 as [|[k v] r [Hk Hv] _ IH]; intros cs st; [reflexivity|]. cbn [ser_entries map fst snd] in *.
    apply tbind_ext. intros st1. rewrite Hk. apply tbind_ext. intros _. apply tbind_ext. intros st2.
    apply tbind_ext. intros st3. rewrite Hv. apply tbind_ext. intros st4. apply tbind_ext. intros st5. apply IH.
  Qed.

  Lemma key_ser_hint_free : forall k, key_ser fmt32 fmt64 k = key_ser fmt32 fmt64 (hint_free k).
  Proof. induction k using sval_ind'; cbn [key_ser hint_free]; auto. Qed.

  Lemma hint_cases h n : hint_ok h n = true -> h = None \/ h = Some n.
  Proof. destruct h as [k|]; [|auto]. cbn [hint_ok]. intros H. apply Nat.eqb_eq in H. subst. auto. Qed.

  Lemma Forall_wfs_IH (P : sval -> Prop) es : Forall (fun v => wfs v = true -> P v) es -> forallb wfs es = true -> Forall P es.
  Proof.
    intros H W. rewrite Forall_forall in *. rewrite forallb_forall in W. intros e He. apply (H e He), (W e He).
  Qed.

  Theorem hint_free_same : forall v, wfs v = true -> forall st, ser v st = ser (hint_free v) st.
  Proof.
    induction v using sval_ind'; intros W st; cbn [hint_free]; try reflexivity; cbn [wfs] in W.
    - cbn [ser]. apply IHv, W.
    - cbn [ser]. apply IHv, W.
    - apply andb_true_iff in W as [_ W]. cbn [ser]. apply tbind_ext. intros st1. rewrite (IHv W). reflexivity.
    - apply andb_true_iff in W as [Wh W].
      assert (E : ser (SSeq h es) st = ser (SSeq None es) st).
      { destruct (hint_cases _ _ Wh) as [->| ->]; [reflexivity | symmetry; apply seq_hint_irrelevant]. }
      rewrite E. cbn [ser]. apply tbind_ext. intros [cs st1].
      rewrite (ser_elems_ext ser ser hint_free es); [reflexivity|]. apply (Forall_wfs_IH _ _ H W).
    - cbn [ser]. rewrite map_length. apply tbind_ext. intros [cs st1].
      rewrite (ser_elems_ext ser ser hint_free es); [reflexivity|]. apply (Forall_wfs_IH _ _ H W).
    - cbn [ser]. rewrite map_length. apply tbind_ext. intros [cs st1].
      rewrite (ser_elems_ext ser ser hint_free es); [reflexivity|]. apply (Forall_wfs_IH _ _ H W).
    - apply andb_true_iff in W as [_ W]. cbn [ser]. rewrite map_length. apply tbind_ext. intros st0. apply tbind_ext. intros [cs st1].
      rewrite (ser_elems_ext ser ser hint_free es); [reflexivity|]. apply (Forall_wfs_IH _ _ H W).
    - apply andb_true_iff in W as [Wh W].
      assert (E : ser (SMap h kvs) st = ser (SMap None kvs) st).
      { destruct (hint_cases _ _ Wh) as [->| ->]; [reflexivity | symmetry; apply map_hint_irrelevant]. }
      rewrite E. cbn [ser]. apply tbind_ext. intros [cs st1].
      rewrite (ser_entries_ext ser ser (key_ser fmt32 fmt64) (key_ser fmt32 fmt64) hint_free hint_free kvs); [reflexivity|].
      rewrite Forall_forall in *. rewrite forallb_forall in W. intros kv Hkv. specialize (H kv Hkv). specialize (W kv Hkv).
      cbn beta in W. apply andb_true_iff in W as [Wk Wv]. split; [apply key_ser_hint_free | intros st'; apply (proj2 H), Wv].
    - cbn [ser]. rewrite map_length. apply tbind_ext. intros [cs st1].
      rewrite (ser_entries_ext ser ser format_escaped_str format_escaped_str (fun k => k) hint_free fs); [reflexivity|].
      rewrite Forall_forall in *. rewrite forallb_forall in W. intros kv Hkv. specialize (H kv Hkv). specialize (W kv Hkv).
      cbn beta in W. apply andb_true_iff in W as [Wk Wv]. split; [reflexivity | intros st'; apply H, Wv].
    - apply andb_true_iff in W as [_ W]. cbn [ser]. rewrite map_length. apply tbind_ext. intros st0. apply tbind_ext. intros [cs st1].
      rewrite (ser_entries_ext ser ser format_escaped_str format_escaped_str (fun k => k) hint_free fs); [reflexivity|].
      rewrite Forall_forall in *. rewrite forallb_forall in W. intros kv Hkv. specialize (H kv Hkv). specialize (W kv Hkv).
      cbn beta in W. apply andb_true_iff in W as [Wk Wv]. split; [reflexivity | intros st'; apply H, Wv].
  Qed.

  Theorem C03_hint_irrelevant_deep v : wfs v = true ->
    serialize cf fmt32 fmt64 F v = serialize cf fmt32 fmt64 F (hint_free v).
  Proof. intros W. unfold serialize, serialize_trace. rewrite (hint_free_same v W). reflexivity. Qed.
End Hint.

Print Assumptions C03_hint_irrelevant_seq.
Print Assumptions C03_hint_irrelevant_map.
Print Assumptions C03_hint_irrelevant_deep.
