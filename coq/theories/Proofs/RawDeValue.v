(* Proofs/RawDeValue.v — the untyped parser (`Value::deserialize`, Model/De.v parse_value / parse_seq / parse_map) on a
   `from_str` reader standing in front of a rendered well-formed value: IF it succeeds, it has consumed exactly that
   value ([parse_value_rest]).  No hypothesis on the value being denotable: a number out of range, a lone surrogate or
   too deep a nesting make the parser fail, which is the other alternative.
   Induction on fuel; the syntax tree of the text is given, the scalars go through the forward lemmas of
   Proofs/RawDeBase.v.  This is the [TValue] case of Proofs/RawDeProps.v. *)
From SJ Require Import Base.Bytes Base.Utf8 Base.FloatB Gen.Tables Model.Read Model.Str Model.Num Model.Value Model.De
  Model.Ignore Model.Ty Model.DeTyped Spec.Syntax Spec.Denote.
From SJ Require Import Proofs.GrammarNum Proofs.RawDe Proofs.RawAny Proofs.GrammarValueBase Proofs.RawDeBase.
Require Import Lia ZifyBool ZifyNat ZifyN.
Open Scope N_scope.

Section Value.
Variable cf : cfg.
Notation E := (mkEnv RStr TEof cf).

Lemma parse_value_SE f s : parse_value (S f) E s =
  let* (o, s1) := parse_whitespace E s in
  match o with
  | None => peek_error E s1 EofWhileParsingValue
  | Some b =>
    if b =? 110 then let* s2 := parse_ident E lit_ull (discard s1) in Ok (VNull, s2)
    else if b =? 116 then let* s2 := parse_ident E lit_rue (discard s1) in Ok (VBool true, s2)
    else if b =? 102 then let* s2 := parse_ident E lit_alse (discard s1) in Ok (VBool false, s2)
    else if b =? 45 then
      let* (p, s2) := parse_any_number E false (discard s1) in Ok (visit_number_cfg E p, s2)
    else if is_digit b then
      let* (p, s2) := parse_any_number E true s1 in Ok (visit_number_cfg E p, s2)
    else if b =? 34 then
      let* (str, _, s2) := parse_str E (discard s1) in Ok (VStr str, s2)
    else if b =? 91 then
      let* s2 := enter E s1 in
      let* (vs, s3) := parse_seq f E true (discard s2) in
      let* s4 := leave E s3 in
      let* s5 := end_seq E s4 in
      Ok (VArr vs, s5)
    else if b =? 123 then
      let* s2 := enter E s1 in
      let* (es, s3) := parse_map f E true (discard s2) in
      let* s4 := leave E s3 in
      let* s5 := end_map E s4 in
      Ok (VObj (map_of_entries (preserve_order cf) es), s5)
    else peek_error E s1 ExpectedSomeValue
  end.
Proof. reflexivity. Qed.

Lemma parse_seq_SE f first s : parse_seq (S f) E first s =
  let* o := has_next_element E first s in
  match o with
  | None => Ok ([], s)
  | Some s1 =>
    let* (v, s2) := parse_value f E s1 in
    let* (vs, s3) := parse_seq f E false s2 in
    Ok (v :: vs, s3)
  end.
Proof. reflexivity. Qed.

Lemma parse_map_SE f first s : parse_map (S f) E first s =
  let* o := has_next_key E first s in
  match o with
  | None => Ok ([], s)
  | Some s1 =>
    let* (k, _, s2) := parse_str E (discard s1) in
    let* s3 := parse_object_colon E s2 in
    let* (v, s4) := parse_value f E s3 in
    let* (es, s5) := parse_map f E false s4 in
    Ok ((k, v) :: es, s5)
  end.
Proof. reflexivity. Qed.

Definition PV (f : nat) : Prop := forall s v s1 c x,
  parse_value f E s = Ok (v, s1) -> skipws (rest s) = render c ++ x -> wfb c = true -> val_follow x -> rest s1 = x.
Definition PQ (f : nat) : Prop := forall first s vs s1 wp es x,
  parse_seq f E first s = Ok (vs, s1) -> rest s = seq_text first wp es ++ 93 :: x -> ws_ok wp = true -> wfb_elems es = true ->
  exists wl, ws_ok wl = true /\ rest s1 = wl ++ 93 :: x.
Definition PM (f : nat) : Prop := forall first s vs s1 wp ms x,
  parse_map f E first s = Ok (vs, s1) -> rest s = map_text first wp ms ++ 125 :: x -> ws_ok wp = true -> wfb_members ms = true ->
  exists wl, ws_ok wl = true /\ rest s1 = wl ++ 125 :: x.

(* a byte that is the head of a rendered value of the given node kind; used to dismiss the impossible nodes *)
Ltac head_contra Hh :=
  first [ discriminate Hh
        | (destruct Hh as [(Hh & _)|(Hh & _)]; first [discriminate Hh | (unfold is_digit in Hh; lia)]) ].

Lemma pv_step f : PV f -> PQ f -> PM f -> PV (S f).
Proof.
  intros IHv IHq IHm s v s1 c x H Hr Hc Hx. rewrite parse_value_SE in H.
  apply bind_ok in H as ([o s0] & Hpw & H).
  destruct (pw_on_value cf s o s0 c x Hpw Hr Hc) as (b & rc & Hrc & -> & Hs0 & Hd0).
  pose proof (head_cases c b rc Hc Hrc) as Hh.
  destruct (b =? 110) eqn:E110.
  { apply N.eqb_eq in E110. subst b. apply bind_ok in H as (s2 & Hid & [= _ <-]). apply ident_invE in Hid. rewrite Hd0 in Hid.
    destruct c; try head_contra Hh. cbn in Hrc. injection Hrc as <-. exact (eq_sym (app_inv_head _ _ _ Hid)). }
  destruct (b =? 116) eqn:E116.
  { apply N.eqb_eq in E116. subst b. apply bind_ok in H as (s2 & Hid & [= _ <-]). apply ident_invE in Hid. rewrite Hd0 in Hid.
    destruct c; try head_contra Hh. cbn in Hrc. injection Hrc as <-. exact (eq_sym (app_inv_head _ _ _ Hid)). }
  destruct (b =? 102) eqn:E102.
  { apply N.eqb_eq in E102. subst b. apply bind_ok in H as (s2 & Hid & [= _ <-]). apply ident_invE in Hid. rewrite Hd0 in Hid.
    destruct c; try head_contra Hh. cbn in Hrc. injection Hrc as <-. exact (eq_sym (app_inv_head _ _ _ Hid)). }
  destruct (b =? 45) eqn:E45.
  { apply N.eqb_eq in E45. subst b. apply bind_ok in H as ([p s2] & Hn & [= _ <-]).
    destruct c as [| | |n|ps|w es|w ms]; try head_contra Hh. cbn [wfb] in Hc.
    destruct Hh as [(_ & _ & Hrn)|(Hdig & _)]; [|unfold is_digit in Hdig; lia]. subst rc.
    exact (parse_any_number_rest cf false n x _ _ _ Hc Hx Hd0 Hn). }
  destruct (is_digit b) eqn:Edig.
  { apply bind_ok in H as ([p s2] & Hn & [= _ <-]).
    destruct c as [| | |n|ps|w es|w ms]; try (subst b; discriminate Edig). cbn [wfb] in Hc.
    destruct Hh as [(Hb & _)|(_ & _ & Hrn)]; [subst b; discriminate E45|].
    assert (Hs0' : rest s0 = render_abs n ++ x). { rewrite Hs0, app_comm_cons, Hrn. reflexivity. }
    exact (parse_any_number_rest cf true n x _ _ _ Hc Hx Hs0' Hn). }
  destruct (b =? 34) eqn:E34.
  { apply N.eqb_eq in E34. subst b. apply bind_ok in H as ([[str bw] s2] & Hp & [= _ <-]).
    destruct c as [| | |n|ps|w es|w ms]; try head_contra Hh. cbn [wfb] in Hc.
    cbn [render] in Hrc. unfold render_str in Hrc. injection Hrc as <-. rewrite <- app_assoc in Hd0. cbn [app] in Hd0.
    exact (parse_str_rest cf ps x _ _ _ _ Hc Hd0 Hp). }
  destruct (b =? 91) eqn:E91.
  { apply N.eqb_eq in E91. subst b.
    apply bind_ok in H as (s2 & Hen & H). apply bind_ok in H as ([vs s3] & Hsq & H).
    apply bind_ok in H as (s4 & Hlv & H). apply bind_ok in H as (s5 & Hes & [= _ <-]).
    destruct c as [| | |n|ps|w es|w ms]; try head_contra Hh. cbn [wfb] in Hc. apply andb_prop in Hc as [Hw Hes'].
    rewrite render_arr in Hrc. injection Hrc as <-.
    assert (Hd2 : rest (discard s2) = seq_text true w es ++ 93 :: x).
    { rewrite discard_restE, (enter_restE cf _ _ Hen), Hs0. cbn [tl]. rewrite <- app_assoc. reflexivity. }
    destruct (IHq true _ _ _ w es x Hsq Hd2 Hw Hes') as (wl & Hwl & Hr3).
    apply end_seq_invE in Hes. rewrite (leave_restE cf _ _ Hlv), Hr3 in Hes.
    rewrite skipws_to in Hes by (try assumption; reflexivity). now injection Hes as <-. }
  destruct (b =? 123) eqn:E123; [|unfold peek_error in H; discriminate H].
  apply N.eqb_eq in E123. subst b.
  apply bind_ok in H as (s2 & Hen & H). apply bind_ok in H as ([vs s3] & Hsq & H).
  apply bind_ok in H as (s4 & Hlv & H). apply bind_ok in H as (s5 & Hes & [= _ <-]).
  destruct c as [| | |n|ps|w es|w ms]; try head_contra Hh. cbn [wfb] in Hc. apply andb_prop in Hc as [Hw Hms].
  rewrite render_obj in Hrc. injection Hrc as <-.
  assert (Hd2 : rest (discard s2) = map_text true w ms ++ 125 :: x).
  { rewrite discard_restE, (enter_restE cf _ _ Hen), Hs0. cbn [tl]. rewrite <- app_assoc. reflexivity. }
  destruct (IHm true _ _ _ w ms x Hsq Hd2 Hw Hms) as (wl & Hwl & Hr3).
  apply end_map_invE in Hes. rewrite (leave_restE cf _ _ Hlv), Hr3 in Hes.
  rewrite skipws_to in Hes by (try assumption; reflexivity). now injection Hes as <-.
Qed.


(* the text in front of the first / next element of a non-empty list *)
Lemma seq_text_cons_skip first wp w1 c w2 es x : ws_ok wp = true -> ws_ok w1 = true -> wfb c = true ->
  seq_text first wp (ECons w1 c w2 es) ++ 93 :: x
  = (if first then [] else wp ++ [44]) ++ w1 ++ render c ++ (w2 ++ tail_elems es ++ 93 :: x).
Proof. intros _ _ _. rewrite seq_text_cons. destruct first; lnorm; reflexivity. Qed.

Lemma map_text_cons_skip first wp w1 k w2 w3 c w4 ms x :
  map_text first wp (MCons w1 k w2 w3 c w4 ms) ++ 125 :: x
  = (if first then [] else wp ++ [44]) ++ w1 ++ 34 :: flat_map render_piece k ++ 34 :: (w2 ++ 58 :: w3 ++ render c ++ (w4 ++ tail_members ms ++ 125 :: x)).
Proof.
  rewrite map_text_cons. unfold render_str. destruct first; lnorm; reflexivity.
Qed.

(* has_next_element in front of a non-empty element list: it finds the first element *)
Lemma hne_on_cons first s o wp w1 c w2 es x :
  has_next_element E first s = Ok o -> rest s = seq_text first wp (ECons w1 c w2 es) ++ 93 :: x ->
  ws_ok wp = true -> ws_ok w1 = true -> wfb c = true ->
  exists s0, o = Some s0 /\ rest s0 = render c ++ (w2 ++ tail_elems es ++ 93 :: x).
Proof.
  intros H Hr Hwp Hw1 Hc. rewrite (seq_text_cons_skip first wp w1 c w2 es x Hwp Hw1 Hc) in Hr.
  apply hne_invE in H. destruct (render_head c Hc) as (b & rc & Hrc & Hb & Hb93 & _).
  destruct first.
  - cbn [app] in Hr. rewrite Hr, skipws_ws_render in H by assumption. destruct o as [s0|].
    + exists s0. auto.
    + exfalso. destruct H as (r & H). rewrite Hrc in H. injection H as H _. contradiction.
  - rewrite <- app_assoc in Hr. cbn [app] in Hr. rewrite Hr in H. rewrite skipws_to in H by (try assumption; reflexivity).
    destruct o as [s0|].
    + destruct H as (r & Hr0 & Hs0). injection Hr0 as <-. exists s0. split; [reflexivity|].
      rewrite Hs0. now apply skipws_ws_render.
    + exfalso. destruct H as (r & H). discriminate H.
Qed.

Lemma hne_on_nil first s o wp x :
  has_next_element E first s = Ok o -> rest s = seq_text first wp ENil ++ 93 :: x -> ws_ok wp = true -> o = None.
Proof.
  intros H Hr Hwp. cbn [seq_text] in Hr.
  assert (G : has_next_element E first s = Ok None).
  { apply (hne_fwd_none cf first s x). rewrite Hr. apply skipws_to; [assumption|reflexivity]. }
  rewrite G in H. now injection H as <-.
Qed.

Lemma hnk_on_cons first s o wp w1 k w2 w3 c w4 ms x :
  has_next_key E first s = Ok o -> rest s = map_text first wp (MCons w1 k w2 w3 c w4 ms) ++ 125 :: x ->
  ws_ok wp = true -> ws_ok w1 = true ->
  exists s0, o = Some s0 /\
    rest s0 = 34 :: flat_map render_piece k ++ 34 :: (w2 ++ 58 :: w3 ++ render c ++ (w4 ++ tail_members ms ++ 125 :: x)).
Proof.
  intros H Hr Hwp Hw1. rewrite map_text_cons_skip in Hr. apply hnk_invE in H.
  destruct first.
  - cbn [app] in Hr. rewrite Hr in H. rewrite skipws_to in H by (try assumption; reflexivity). destruct o as [s0|].
    + destruct H as (r1 & Hs0 & H). injection H as <-. exists s0. auto.
    + exfalso. destruct H as (r & H). discriminate H.
  - rewrite <- app_assoc in Hr. cbn [app] in Hr. rewrite Hr in H. rewrite skipws_to in H by (try assumption; reflexivity).
    destruct o as [s0|].
    + destruct H as (r1 & Hs0 & r & Hr0 & Hr1). injection Hr0 as <-.
      rewrite skipws_to in Hr1 by (try assumption; reflexivity). injection Hr1 as <-. exists s0. auto.
    + exfalso. destruct H as (r & H). discriminate H.
Qed.

Lemma hnk_on_nil first s o wp x :
  has_next_key E first s = Ok o -> rest s = map_text first wp MNil ++ 125 :: x -> ws_ok wp = true -> o = None.
Proof.
  intros H Hr Hwp. cbn [map_text] in Hr.
  assert (G : has_next_key E first s = Ok None).
  { apply (hnk_fwd_none cf first s x). rewrite Hr. apply skipws_to; [assumption|reflexivity]. }
  rewrite G in H. now injection H as <-.
Qed.

(* the colon between a key and its value *)
Lemma colon_on s s3 w2 z : parse_object_colon E s = Ok s3 -> rest s = w2 ++ 58 :: z -> ws_ok w2 = true -> rest s3 = z.
Proof.
  intros H Hr Hw. apply colon_invE in H. rewrite Hr, skipws_to in H by (try assumption; reflexivity). now injection H as <-.
Qed.

Lemma wfb_elems_cons w1 c w2 es : wfb_elems (ECons w1 c w2 es) = true ->
  ws_ok w1 = true /\ wfb c = true /\ ws_ok w2 = true /\ wfb_elems es = true.
Proof.
  cbn [wfb_elems]. intros H. apply andb_prop in H as [H H4]. apply andb_prop in H as [H H3]. apply andb_prop in H as [H1 H2]. auto.
Qed.

Lemma wfb_members_cons w1 k w2 w3 c w4 ms : wfb_members (MCons w1 k w2 w3 c w4 ms) = true ->
  ws_ok w1 = true /\ str_ok k = true /\ ws_ok w2 = true /\ ws_ok w3 = true /\ wfb c = true /\ ws_ok w4 = true /\ wfb_members ms = true.
Proof.
  cbn [wfb_members]. intros H. apply andb_prop in H as [H H7]. apply andb_prop in H as [H H6]. apply andb_prop in H as [H H5].
  apply andb_prop in H as [H H4]. apply andb_prop in H as [H H3]. apply andb_prop in H as [H1 H2]. auto 10.
Qed.

Lemma pq_step f : PV f -> PQ f -> PQ (S f).
Proof.
  intros IHv IHq first s vs s1 wp es x H Hr Hwp Hes. rewrite parse_seq_SE in H.
  apply bind_ok in H as (o & Hhn & H). destruct es as [|w1 c w2 es'].
  - rewrite (hne_on_nil first s o wp x Hhn Hr Hwp) in H. injection H as _ <-. exists wp. auto.
  - destruct (wfb_elems_cons _ _ _ _ Hes) as (Hw1 & Hc & Hw2 & Hes').
    destruct (hne_on_cons first s o wp w1 c w2 es' x Hhn Hr Hwp Hw1 Hc) as (s0 & -> & Hs0).
    apply bind_ok in H as ([v s2] & Hv & H). apply bind_ok in H as ([vs' s3] & Hq & [= _ <-]).
    assert (Hs2 : rest s2 = w2 ++ tail_elems es' ++ 93 :: x).
    { apply (IHv s0 v s2 c _ Hv); [rewrite Hs0; now apply skipws_render|exact Hc|now apply vf_tail_elems]. }
    apply (IHq false s2 vs' s3 w2 es' x Hq); [|exact Hw2|exact Hes'].
    rewrite seq_text_false, <- app_assoc. exact Hs2.
Qed.

Lemma pm_step f : PV f -> PM f -> PM (S f).
Proof.
  intros IHv IHm first s vs s1 wp ms x H Hr Hwp Hms. rewrite parse_map_SE in H.
  apply bind_ok in H as (o & Hhn & H). destruct ms as [|w1 k w2 w3 c w4 ms'].
  - rewrite (hnk_on_nil first s o wp x Hhn Hr Hwp) in H. injection H as _ <-. exists wp. auto.
  - destruct (wfb_members_cons _ _ _ _ _ _ _ Hms) as (Hw1 & Hk & Hw2 & Hw3 & Hc & Hw4 & Hms').
    destruct (hnk_on_cons first s o wp w1 k w2 w3 c w4 ms' x Hhn Hr Hwp Hw1) as (s0 & -> & Hs0).
    apply bind_ok in H as ([[kk bw] s2] & Hk2 & H). apply bind_ok in H as (s3 & Hcol & H).
    apply bind_ok in H as ([v s4] & Hv & H). apply bind_ok in H as ([vs' s5] & Hm & [= _ <-]).
    assert (Hd0 : rest (discard s0) = flat_map render_piece k ++ 34 :: (w2 ++ 58 :: w3 ++ render c ++ (w4 ++ tail_members ms' ++ 125 :: x))).
    { rewrite discard_restE, Hs0. reflexivity. }
    pose proof (parse_str_rest cf k _ _ _ _ _ Hk Hd0 Hk2) as Hs2.
    pose proof (colon_on s2 s3 w2 _ Hcol Hs2 Hw2) as Hs3.
    assert (Hs4 : rest s4 = w4 ++ tail_members ms' ++ 125 :: x).
    { apply (IHv s3 v s4 c _ Hv); [rewrite Hs3; now apply skipws_ws_render|exact Hc|now apply vf_tail_members]. }
    apply (IHm false s4 vs' s5 w4 ms' x Hm); [|exact Hw4|exact Hms'].
    rewrite map_text_false, <- app_assoc. exact Hs4.
Qed.

Lemma pv_all : forall f, PV f /\ PQ f /\ PM f.
Proof.
  induction f as [|f (IHv & IHq & IHm)].
  - split; [|split]; intros ? **; discriminate.
  - split; [|split]; [now apply pv_step|now apply pq_step|now apply pm_step].
Qed.

(* the [TValue] case *)
Theorem parse_value_rest : forall f s v s1 c x,
  parse_value f E s = Ok (v, s1) -> skipws (rest s) = render c ++ x -> wfb c = true -> val_follow x -> rest s1 = x.
Proof. intros f. exact (proj1 (pv_all f)). Qed.

End Value.

Print Assumptions parse_value_rest.
