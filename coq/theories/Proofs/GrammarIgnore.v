(* Proofs/GrammarIgnore.v — the iterative skip scanner `Deserializer::ignore_value` (Model/Ignore.v) accepts
   exactly the RFC 8259 grammar of Spec/Syntax.v ([render] of a [wfb] tree), on a slice reader with an
   end-of-input terminator; consequently `RawValue` captures exactly the text of one value.

   Structure
     1. generic helpers ([bind] inversion, [span_len], the cursor relation [steps])
     2. reader primitives on E = (RSlice, TEof, cf): peek / next / parse_whitespace / skip_digits / parse_ident
     3. strings: hex digits, escapes, [slice_ignore_loop] against [render_piece]* QUOTE   (sound + complete)
     4. numbers: [ignore_integer] against [render_num]                                 (sound + complete)
     5. one-step unfoldings of [ig_outer] / [ig_inner]
     6. soundness: invariant on the bracket stack ([Tail]), induction on fuel
     7. completeness: continuation-passing equations by induction on the syntax tree, exact fuel cost
     8. the theorems: ignore_value_sound / _complete, ignored_lang, raw_value_span / _complete *)
From SJ Require Import Base.Bytes Base.Utf8 Gen.Tables Model.Read Model.Str Model.Num Model.Value Model.De Model.Ignore Spec.Syntax.
Require Import Lia ZifyBool ZifyNat ZifyN.
Open Scope N_scope.

(* ------------------------------------------------------------------------------------------ *)
(** * 1. Generic helpers *)

Lemma bind_ok {A B} (r : res A) (f : A -> res B) (b : B) :
  bind r f = Ok b -> exists a, r = Ok a /\ f a = Ok b.
Proof. destruct r as [a|c i| |]; cbn [bind]; intros H; try discriminate. eauto. Qed.

Definition lt256 (b : N) : Prop := b < 256.

Lemma span_len_le (p : N -> bool) (l : list N) : (span_len p l <= length l)%nat.
Proof. induction l as [|b r IH]; cbn [span_len length]; [lia|]. destruct (p b); lia. Qed.

Lemma span_len_firstn (p : N -> bool) (l : list N) : forallb p (firstn (span_len p l) l) = true.
Proof.
  induction l as [|b r IH]; cbn [span_len firstn forallb]; [reflexivity|].
  destruct (p b) eqn:Hb; cbn [firstn forallb]; [rewrite Hb, IH|]; reflexivity.
Qed.

Lemma span_len_skipn (p : N -> bool) (l : list N) :
  match skipn (span_len p l) l with [] => True | b :: _ => p b = false end.
Proof.
  induction l as [|b r IH]; cbn [span_len skipn]; [exact I|].
  destruct (p b) eqn:Hb; cbn [skipn]; [exact IH|exact Hb].
Qed.

Lemma span_len_app (p : N -> bool) (w x : list N) :
  forallb p w = true -> span_len p (w ++ x) = (length w + span_len p x)%nat.
Proof.
  induction w as [|b w IH]; cbn [forallb app span_len length Nat.add]; intros H; [reflexivity|].
  apply andb_prop in H as [Hb Hw]. rewrite Hb, IH by exact Hw. reflexivity.
Qed.

Lemma span_len_stop (p : N -> bool) (x : list N) :
  match x with [] => True | b :: _ => p b = false end -> span_len p x = O.
Proof. destruct x as [|b r]; cbn [span_len]; intros H; [reflexivity|]. rewrite H. reflexivity. Qed.

Lemma skipn_app_len {A} (w x : list A) : skipn (length w) (w ++ x) = x.
Proof. induction w as [|a w IH]; cbn [length skipn app]; auto. Qed.

Lemma skipn_app_len_add {A} (w x : list A) (n : nat) : skipn (length w + n) (w ++ x) = skipn n x.
Proof. induction w as [|a w IH]; cbn [length skipn app Nat.add]; auto. Qed.

Lemma firstn_app_len {A} (w x : list A) : firstn (length w) (w ++ x) = w.
Proof. induction w as [|a w IH]; cbn [length firstn app]; [reflexivity|]. now rewrite IH. Qed.

Lemma Forall_app_r {A} (P : A -> Prop) (l1 l2 : list A) : Forall P (l1 ++ l2) -> Forall P l2.
Proof. intros H. apply Forall_app in H. tauto. Qed.

Lemma Forall_app_l {A} (P : A -> Prop) (l1 l2 : list A) : Forall P (l1 ++ l2) -> Forall P l1.
Proof. intros H. apply Forall_app in H. tauto. Qed.

(* [steps s bs s']: going from cursor [s] to cursor [s'] consumed exactly the bytes [bs];
   the recursion budget is untouched (the peek flag is irrelevant for a slice reader). *)
Definition steps (s : st) (bs : list N) (s' : st) : Prop :=
  rest s = bs ++ rest s' /\ off s' = (off s + length bs)%nat /\ depth s' = depth s.

Lemma steps_nil (s s' : st) : rest s' = rest s -> off s' = off s -> depth s' = depth s -> steps s [] s'.
Proof. intros H1 H2 H3. unfold steps. cbn [app length]. rewrite H1, H2, H3. repeat split; lia. Qed.

Lemma steps_trans (s1 s2 s3 : st) (a b : list N) : steps s1 a s2 -> steps s2 b s3 -> steps s1 (a ++ b) s3.
Proof.
  intros (H1 & H2 & H3) (G1 & G2 & G3). unfold steps. rewrite app_length, <- app_assoc, <- G1.
  repeat split; [exact H1|lia|congruence].
Qed.

Lemma steps_eq (s s' : st) (a b : list N) : steps s a s' -> a = b -> steps s b s'.
Proof. intros H <-. exact H. Qed.

Lemma steps_discard (s : st) (b : N) (r : list N) : rest s = b :: r -> steps s [b] (discard s).
Proof. intros H. unfold steps, discard. cbn [rest off depth app length]. rewrite H. cbn [tl]. repeat split; lia. Qed.

Lemma steps_advance (n : nat) (s : st) : (n <= length (rest s))%nat -> steps s (firstn n (rest s)) (advance n s).
Proof.
  intros H. unfold steps, advance. cbn [rest off depth]. rewrite firstn_skipn, firstn_length. repeat split; lia.
Qed.

Lemma steps_lt256 (s s' : st) (bs : list N) : steps s bs s' -> Forall lt256 (rest s) -> Forall lt256 bs /\ Forall lt256 (rest s').
Proof. intros (H & _ & _) F. rewrite H in F. apply Forall_app in F. exact F. Qed.

(* ------------------------------------------------------------------------------------------ *)
(** * 2. Reader primitives on a slice with end-of-input terminator *)

(* what may follow a value in a JSON text *)
Definition val_follow (rst : list N) : Prop :=
  match rst with [] => True | c :: _ => is_digit c = false /\ c <> 46%N /\ c <> 101%N /\ c <> 69%N /\ c <> 43%N /\ c <> 45%N end.

Section Ignore.
Variable cf0 : cfg.
Let E : env := mkEnv RSlice TEof cf0.

Lemma peek_cons (s : st) (b : N) (r : list N) :
  rest s = b :: r -> peek E s = Ok (Some b, mkSt (rest s) (off s) true (depth s)).
Proof. intros H. unfold peek. rewrite H. reflexivity. Qed.

Lemma peek_nil (s : st) : rest s = [] -> peek E s = Ok (None, mkSt [] (off s) false (depth s)).
Proof. intros H. unfold peek. rewrite H. reflexivity. Qed.

Lemma next_cons (s : st) (b : N) (r : list N) :
  rest s = b :: r -> next E s = Ok (Some b, mkSt r (S (off s)) false (depth s)).
Proof. intros H. unfold next. rewrite H. reflexivity. Qed.

Lemma next_nil (s : st) : rest s = [] -> next E s = Ok (None, mkSt [] (off s) false (depth s)).
Proof. intros H. unfold next. rewrite H. reflexivity. Qed.

Definition nonempty (l : list N) : bool := match l with [] => false | _ :: _ => true end.

Lemma peek_or_null_eq (s : st) :
  peek_or_null E s = Ok (hd 0 (rest s), mkSt (rest s) (off s) (nonempty (rest s)) (depth s)).
Proof. unfold peek_or_null, peek. destruct (rest s) as [|b r]; reflexivity. Qed.

Lemma is_ws_ws_byte (b : N) : is_ws b = ws_byte b.
Proof.
  unfold is_ws, ws_byte. cbn [existsb WS_SET].
  destruct (b =? 9), (b =? 10), (b =? 13), (b =? 32); reflexivity.
Qed.

Lemma ws_ok_is_ws (w : list N) : ws_ok w = forallb is_ws w.
Proof. unfold ws_ok. induction w as [|b w IH]; cbn [forallb]; [reflexivity|]. now rewrite IH, is_ws_ws_byte. Qed.

Lemma ws_ok_app (a b : list N) : ws_ok (a ++ b) = ws_ok a && ws_ok b.
Proof. unfold ws_ok. apply forallb_app. Qed.

(* inversion of parse_whitespace *)
Lemma pw_inv (s s1 : st) (o : option N) :
  parse_whitespace E s = Ok (o, s1) ->
  exists w, steps s w s1 /\ ws_ok w = true /\
    match o with Some b => exists r, rest s1 = b :: r /\ is_ws b = false | None => rest s1 = [] end.
Proof.
  unfold parse_whitespace. intros H.
  pose proof (span_len_le is_ws (rest s)) as Hle.
  pose proof (span_len_firstn is_ws (rest s)) as Hf.
  pose proof (span_len_skipn is_ws (rest s)) as Hs.
  pose proof (steps_advance _ s Hle) as Hst.
  set (s' := advance (span_len is_ws (rest s)) s) in *.
  assert (Hr : rest s' = skipn (span_len is_ws (rest s)) (rest s)) by reflexivity.
  rewrite <- Hr in Hs.
  exists (firstn (span_len is_ws (rest s)) (rest s)).
  rewrite ws_ok_is_ws. destruct (rest s') as [|b r] eqn:Hrest.
  - rewrite (peek_nil s' Hrest) in H. injection H as <- <-. split; [|split; [exact Hf|reflexivity]].
    destruct Hst as (H1 & H2 & H3). unfold steps. cbn [rest off depth]. rewrite app_nil_r. rewrite Hrest, app_nil_r in H1. auto.
  - rewrite (peek_cons s' b r Hrest) in H. injection H as <- <-. split; [|split; [exact Hf|]].
    + destruct Hst as (H1 & H2 & H3). unfold steps. cbn [rest off depth]. auto.
    + exists r. cbn [rest]. auto.
Qed.

(* parse_whitespace skips a whitespace prefix *)
Lemma pw_skip (w x : list N) (o : nat) (p p' : bool) (d : N) :
  ws_ok w = true ->
  parse_whitespace E (mkSt (w ++ x) o p d) = parse_whitespace E (mkSt x (o + length w) p' d).
Proof.
  intros Hw. rewrite ws_ok_is_ws in Hw. unfold parse_whitespace, advance. cbn [rest off depth].
  rewrite (span_len_app is_ws w x Hw), skipn_app_len_add.
  f_equal. f_equal. lia.
Qed.

Lemma pw_head (b : N) (r : list N) (o : nat) (p : bool) (d : N) :
  is_ws b = false -> parse_whitespace E (mkSt (b :: r) o p d) = Ok (Some b, mkSt (b :: r) o true d).
Proof.
  intros Hb. unfold parse_whitespace, advance. cbn [rest off depth span_len]. rewrite Hb. cbn [skipn].
  rewrite Nat.add_0_r. reflexivity.
Qed.

Lemma pw_complete (w : list N) (b : N) (r : list N) (o : nat) (p : bool) (d : N) :
  ws_ok w = true -> is_ws b = false ->
  parse_whitespace E (mkSt (w ++ b :: r) o p d) = Ok (Some b, mkSt (b :: r) (o + length w) true d).
Proof. intros Hw Hb. rewrite (pw_skip w (b :: r) o p p d Hw). apply pw_head. exact Hb. Qed.

Lemma pw_eof (w : list N) (o : nat) (p : bool) (d : N) :
  ws_ok w = true -> parse_whitespace E (mkSt w o p d) = Ok (None, mkSt [] (o + length w) false d).
Proof.
  intros Hw. rewrite <- (app_nil_r w) at 1. rewrite (pw_skip w [] o p p d Hw).
  unfold parse_whitespace, advance. cbn [rest off depth span_len skipn]. rewrite Nat.add_0_r. reflexivity.
Qed.

(* skip_digits *)
Lemma skip_digits_eq (s : st) :
  let n := span_len is_digit (rest s) in
  skip_digits E s = Ok (hd 0 (skipn n (rest s)), mkSt (skipn n (rest s)) (off s + n) (nonempty (skipn n (rest s))) (depth s)).
Proof. cbv zeta. unfold skip_digits. rewrite peek_or_null_eq. reflexivity. Qed.

(* parse_ident *)
Lemma parse_ident_inv (ident : list N) : forall s s1, parse_ident E ident s = Ok s1 -> steps s ident s1.
Proof.
  induction ident as [|e ident IH]; intros s s1 H; cbn [parse_ident] in H.
  - injection H as <-. apply steps_nil; reflexivity.
  - destruct (rest s) as [|b r] eqn:Hr.
    + rewrite (next_nil s Hr) in H. cbn [bind] in H. discriminate.
    + rewrite (next_cons s b r Hr) in H. cbn [bind] in H.
      destruct (b =? e) eqn:Hbe; [|discriminate]. apply N.eqb_eq in Hbe. subst e.
      apply IH in H. change (b :: ident) with ([b] ++ ident). eapply steps_trans; [|exact H].
      unfold steps. cbn [rest off depth app length]. repeat split; [exact Hr|lia].
Qed.

Lemma parse_ident_complete (ident : list N) : forall x o p d,
  parse_ident E ident (mkSt (ident ++ x) o p d) = Ok (mkSt x (o + length ident) (match ident with [] => p | _ => false end) d).
Proof.
  induction ident as [|e ident IH]; intros x o p d; cbn [parse_ident app length].
  - rewrite Nat.add_0_r. reflexivity.
  - unfold next. cbn [rest off depth bind]. unfold at_end. cbn [bind]. rewrite N.eqb_refl, IH.
    f_equal. f_equal; [lia|]. destruct ident; reflexivity.
Qed.


(* ------------------------------------------------------------------------------------------ *)
(** * 3. Strings *)

Ltac dis := unfold error, peek_error in *; discriminate.
Ltac lnorm := repeat first [rewrite <- app_assoc | rewrite <- app_comm_cons]; cbn [app].

(* exhaustive check over all byte values *)
Lemma N_sweep (p : N -> bool) :
  forallb p (map N.of_nat (seq 0 256)) = true -> forall b, b < 256 -> p b = true.
Proof.
  intros H b Hb. rewrite forallb_forall in H. apply H. apply in_map_iff.
  exists (N.to_nat b). split; [lia|]. apply in_seq. lia.
Qed.

Lemma hex_val_hex_byte (b : N) : b < 256 ->
  match hex_val b with Some _ => hex_byte b = true | None => hex_byte b = false end.
Proof.
  intros Hb.
  pose proof (N_sweep (fun b => match hex_val b with Some _ => hex_byte b | None => negb (hex_byte b) end)) as H.
  specialize (H ltac:(vm_compute; reflexivity) b Hb). cbv beta in H. destruct (hex_val b); [exact H|]. now apply negb_true_iff in H.
Qed.

Lemma hex_byte_lt256 (b : N) : hex_byte b = true -> b < 256.
Proof. unfold hex_byte. lia. Qed.

Lemma hex_tab_nonneg (k b : N) : b < 256 -> ((0 <= hex_tab k b)%Z <-> hex_byte b = true).
Proof.
  intros Hb. pose proof (hex_val_hex_byte b Hb) as H. unfold hex_tab. destruct (hex_val b) as [v|].
  - rewrite Z.shiftl_nonneg. split; [intros _; exact H|lia].
  - split; [lia|congruence].
Qed.

Lemma decode_four_hex_iff (a b c d : N) : a < 256 -> b < 256 -> c < 256 -> d < 256 ->
  (decode_four_hex a b c d <> None <-> hex_byte a && hex_byte b && hex_byte c && hex_byte d = true).
Proof.
  intros Ha Hb Hc Hd. unfold decode_four_hex.
  set (cp := Z.lor _ _).
  assert (Hcp : (0 <= cp)%Z <-> hex_byte a && hex_byte b && hex_byte c && hex_byte d = true).
  { unfold cp. rewrite !Z.lor_nonneg, Z.shiftl_nonneg, Z.lor_nonneg.
    rewrite !hex_tab_nonneg by assumption. rewrite !andb_true_iff. tauto. }
  destruct (0 <=? cp)%Z eqn:Hle.
  - apply Z.leb_le in Hle. split; [intros _; now apply Hcp|discriminate].
  - apply Z.leb_gt in Hle. split; [congruence|]. intros H. apply Hcp in H. lia.
Qed.

Lemma esc_letter_simple (c : N) : esc_letter c = match escape_simple c with Some _ => true | None => false end.
Proof.
  unfold esc_letter, escape_simple. cbn [assoc_N ESCAPE_DECODE].
  destruct (c =? 34); [reflexivity|]. destruct (c =? 92); [reflexivity|]. destruct (c =? 47); [reflexivity|].
  destruct (c =? 98); [reflexivity|]. destruct (c =? 102); [reflexivity|]. destruct (c =? 110); [reflexivity|].
  destruct (c =? 114); [reflexivity|]. destruct (c =? 116); reflexivity.
Qed.

Lemma esc_letter_not_u (c : N) : esc_letter c = true -> (c =? 117) = false.
Proof. unfold esc_letter. lia. Qed.

Lemma is_escape_raw (b : N) : is_escape b true = false -> b < 256 -> piece_ok (PRaw b) = true.
Proof. unfold is_escape, ESC_QUOTE, ESC_BSLASH, CTRL_LIMIT, piece_ok. lia. Qed.

Lemma piece_raw_not_escape (b : N) : piece_ok (PRaw b) = true -> is_escape b true = false.
Proof. unfold is_escape, ESC_QUOTE, ESC_BSLASH, CTRL_LIMIT, piece_ok. lia. Qed.

Lemma raw_chunk (chunk : list N) :
  forallb (fun b => negb (is_escape b true)) chunk = true -> Forall lt256 chunk ->
  str_ok (map PRaw chunk) = true /\ flat_map render_piece (map PRaw chunk) = chunk.
Proof.
  unfold str_ok. induction chunk as [|b l IH]; cbn [forallb map flat_map]; intros H F; [auto|].
  apply andb_prop in H as [Hb Hl]. apply negb_true_iff in Hb. inversion F as [|? ? F1 F2]; subst.
  destruct (IH Hl F2) as [I1 I2]. rewrite is_escape_raw by assumption. rewrite I1. cbn [render_piece app andb].
  split; [reflexivity|]. now rewrite I2.
Qed.

(* ---- escapes ---- *)
Lemma decode_hex_escape_slice (s : st) :
  decode_hex_escape E s =
  match rest s with
  | a :: b :: c :: d :: _ =>
    match decode_four_hex a b c d with Some v => Ok (v, advance 4 s) | None => error E (advance 4 s) InvalidEscape end
  | _ => error E (advance (length (rest s)) s) EofWhileParsingString
  end.
Proof. reflexivity. Qed.

Lemma ignore_escape_inv (s s1 : st) :
  Forall lt256 (rest s) -> ignore_escape E s = Ok s1 ->
  exists p bs, render_piece p = 92 :: bs /\ steps s bs s1 /\ piece_ok p = true.
Proof.
  intros F H. unfold ignore_escape, next_or_eof in H.
  destruct (rest s) as [|ch r] eqn:Hr.
  - rewrite (next_nil s Hr) in H. cbn [bind] in H. dis.
  - rewrite (next_cons s ch r Hr) in H. cbn [bind] in H. destruct (ch =? 117) eqn:Hu.
    + apply N.eqb_eq in Hu. subst ch. rewrite decode_hex_escape_slice in H. cbn [rest] in H.
      destruct r as [|a [|b [|c [|d r']]]]; cbn [bind] in H; try dis.
      destruct (decode_four_hex a b c d) as [v|] eqn:Hd; cbn [bind] in H; [|dis].
      injection H as <-. inversion F as [|? ? _ F1]; subst. inversion F1 as [|? ? Fa F2]; subst.
      inversion F2 as [|? ? Fb F3]; subst. inversion F3 as [|? ? Fc F4]; subst. inversion F4 as [|? ? Fd F5]; subst.
      exists (PU4 a b c d), [117; a; b; c; d]. split; [reflexivity|]. split.
      * unfold steps, advance. cbn [rest off depth skipn app length]. rewrite Hr. repeat split; lia.
      * cbn [piece_ok]. apply decode_four_hex_iff; try assumption. congruence.
    + destruct (escape_simple ch) as [v|] eqn:Hs; [|dis]. injection H as <-.
      exists (PEsc ch), [ch]. split; [reflexivity|]. split.
      * unfold steps. cbn [rest off depth app length]. rewrite Hr. repeat split; lia.
      * cbn [piece_ok]. rewrite esc_letter_simple, Hs. reflexivity.
Qed.

Lemma ignore_escape_PEsc (c : N) (l : list N) (o : nat) (p : bool) (d : N) :
  esc_letter c = true -> ignore_escape E (mkSt (c :: l) o p d) = Ok (mkSt l (S o) false d).
Proof.
  intros H. unfold ignore_escape, next_or_eof, next. cbn [rest off depth bind].
  rewrite (esc_letter_not_u c H). rewrite esc_letter_simple in H. destruct (escape_simple c); [reflexivity|discriminate].
Qed.

Lemma ignore_escape_PU4 (a b c d : N) (l : list N) (o : nat) (p : bool) (dd : N) :
  hex_byte a && hex_byte b && hex_byte c && hex_byte d = true ->
  ignore_escape E (mkSt (117 :: a :: b :: c :: d :: l) o p dd) = Ok (mkSt l (o + 5) false dd).
Proof.
  intros H. unfold ignore_escape, next_or_eof, next. cbn [rest off depth bind].
  change (117 =? 117) with true. cbv iota. rewrite decode_hex_escape_slice. cbn [rest].
  assert (H' := H). rewrite !andb_true_iff in H'. destruct H' as [[[Ha Hb] Hc] Hd].
  apply hex_byte_lt256 in Ha, Hb, Hc, Hd.
  apply (decode_four_hex_iff a b c d Ha Hb Hc Hd) in H.
  destruct (decode_four_hex a b c d); [|congruence]. cbn [bind]. unfold advance. cbn [rest off depth skipn].
  f_equal. f_equal. lia.
Qed.

(* ---- the scanning loop ---- *)
Lemma sil_S (f : nat) (s : st) :
  slice_ignore_loop (S f) E s =
  let s1 := advance (esc_span true (rest s)) s in
  match rest s1 with
  | [] => error E s1 EofWhileParsingString
  | b :: _ =>
    if b =? 34 then Ok (advance 1 s1)
    else if b =? 92 then let* s2 := ignore_escape E (advance 1 s1) in slice_ignore_loop f E s2
    else error E (advance 1 s1) ControlCharacterWhileParsingString
  end.
Proof. reflexivity. Qed.

Lemma str_ok_app (a b : list strpiece) : str_ok (a ++ b) = str_ok a && str_ok b.
Proof. unfold str_ok. apply forallb_app. Qed.

Lemma sil_sound : forall f s s1, Forall lt256 (rest s) -> slice_ignore_loop f E s = Ok s1 ->
  exists ps, steps s (flat_map render_piece ps ++ [34]) s1 /\ str_ok ps = true.
Proof.
  induction f as [|f IH]; intros s s1 F H; [discriminate|].
  rewrite sil_S in H. cbv zeta in H. unfold esc_span in H.
  set (p := fun b => negb (is_escape b true)) in *.
  pose proof (span_len_le p (rest s)) as Hle.
  pose proof (span_len_firstn p (rest s)) as Hf.
  pose proof (steps_advance _ s Hle) as Hst.
  set (n := span_len p (rest s)) in *. set (sa := advance n s) in *.
  destruct (steps_lt256 _ _ _ Hst F) as [Fc Fr].
  destruct (raw_chunk _ Hf Fc) as [Rk Rf].
  destruct (rest sa) as [|b r] eqn:Hr; [dis|].
  assert (Hst1 : steps sa [b] (advance 1 sa)).
  { unfold steps, advance. cbn [rest off depth]. rewrite Hr. cbn [skipn app length]. repeat split; lia. }
  destruct (b =? 34) eqn:Hq.
  - apply N.eqb_eq in Hq. subst b. injection H as <-.
    exists (map PRaw (firstn n (rest s))). split; [|exact Rk]. rewrite Rf. eapply steps_trans; eassumption.
  - destruct (b =? 92) eqn:Hb; [|dis]. apply N.eqb_eq in Hb. subst b.
    apply bind_ok in H as (s2 & He & Hl).
    assert (F1 : Forall lt256 (rest (advance 1 sa))).
    { unfold advance. cbn [rest]. rewrite Hr. cbn [skipn]. now inversion Fr. }
    apply ignore_escape_inv in He as (pc & bs & Hpc & Hbs & Hok); [|exact F1].
    destruct (steps_lt256 _ _ _ Hbs F1) as [_ F2].
    apply IH in Hl as (ps & Hps & Hpok); [|exact F2].
    exists (map PRaw (firstn n (rest s)) ++ pc :: ps). split.
    + rewrite flat_map_app, Rf. cbn [flat_map]. rewrite Hpc.
      eapply steps_eq; [eapply steps_trans; [exact Hst|eapply steps_trans; [exact Hst1|eapply steps_trans; [exact Hbs|exact Hps]]]|].
      rewrite <- !app_assoc. reflexivity.
    + rewrite str_ok_app, Rk. unfold str_ok in *. cbn [forallb]. now rewrite Hok, Hpok.
Qed.

Lemma ignore_str_sound (s s1 : st) : Forall lt256 (rest s) -> ignore_str E s = Ok s1 ->
  exists ps, steps s (flat_map render_piece ps ++ [34]) s1 /\ str_ok ps = true.
Proof. intros F H. eapply sil_sound; [exact F|exact H]. Qed.

Lemma sil_raw_step (f : nat) (b : N) (l : list N) (o : nat) (p p' : bool) (d : N) :
  is_escape b true = false ->
  slice_ignore_loop (S f) E (mkSt (b :: l) o p d) = slice_ignore_loop (S f) E (mkSt l (S o) p' d).
Proof.
  intros H. rewrite !sil_S. cbv zeta. unfold esc_span, advance. cbn [rest off depth span_len].
  rewrite H. cbn [negb skipn]. rewrite Nat.add_succ_r. reflexivity.
Qed.

Lemma sil_at_special (f : nat) (b : N) (l : list N) (o : nat) (p : bool) (d : N) :
  is_escape b true = true ->
  slice_ignore_loop (S f) E (mkSt (b :: l) o p d) =
  if b =? 34 then Ok (mkSt l (S o) false d)
  else if b =? 92 then let* s2 := ignore_escape E (mkSt l (S o) false d) in slice_ignore_loop f E s2
  else error E (mkSt l (S o) false d) ControlCharacterWhileParsingString.
Proof.
  intros H. rewrite sil_S. cbv zeta. unfold esc_span, advance. cbn [rest off depth span_len].
  rewrite H. cbn [negb skipn rest off depth]. rewrite Nat.add_0_r, Nat.add_1_r. reflexivity.
Qed.

Lemma sil_complete (ps : list strpiece) : forall f x o p dd,
  str_ok ps = true -> (length ps <= f)%nat ->
  slice_ignore_loop (S f) E (mkSt (flat_map render_piece ps ++ 34 :: x) o p dd)
  = Ok (mkSt x (o + length (flat_map render_piece ps) + 1) false dd).
Proof.
  induction ps as [|pc ps IH]; intros f x o p dd Hok Hf.
  - cbn [flat_map app length]. rewrite sil_at_special by reflexivity. change (34 =? 34) with true. cbv iota.
    f_equal. f_equal. lia.
  - unfold str_ok in Hok. cbn [forallb] in Hok. apply andb_prop in Hok as [Hpc Hps].
    cbn [length] in Hf. cbn [flat_map]. rewrite <- app_assoc, app_length.
    destruct pc as [b|c|a b c d]; cbn [render_piece app length].
    + rewrite (sil_raw_step f b _ o p false dd) by (now apply piece_raw_not_escape).
      rewrite IH by (try assumption; lia). f_equal. f_equal. lia.
    + rewrite sil_at_special by reflexivity. change (92 =? 34) with false. change (92 =? 92) with true. cbv iota.
      rewrite ignore_escape_PEsc by exact Hpc. cbn [bind]. destruct f as [|f]; [lia|].
      rewrite IH by (try assumption; lia). f_equal. f_equal. lia.
    + rewrite sil_at_special by reflexivity. change (92 =? 34) with false. change (92 =? 92) with true. cbv iota.
      rewrite ignore_escape_PU4 by exact Hpc. cbn [bind]. destruct f as [|f]; [lia|].
      rewrite IH by (try assumption; lia). f_equal. f_equal. lia.
Qed.

Lemma length_pieces (ps : list strpiece) : (length ps <= length (flat_map render_piece ps))%nat.
Proof.
  induction ps as [|pc ps IH]; cbn [flat_map length]; [lia|]. rewrite app_length.
  destruct pc; cbn [render_piece length]; lia.
Qed.

Lemma ignore_str_complete (ps : list strpiece) (x : list N) (o : nat) (p : bool) (d : N) :
  str_ok ps = true ->
  ignore_str E (mkSt (flat_map render_piece ps ++ 34 :: x) o p d)
  = Ok (mkSt x (o + length (flat_map render_piece ps) + 1) false d).
Proof.
  intros Hok. change (ignore_str E ?s) with (slice_ignore_loop (str_fuel s) E s).
  unfold str_fuel. cbn [rest]. apply sil_complete; [exact Hok|].
  rewrite app_length. pose proof (length_pieces ps). lia.
Qed.

(* ------------------------------------------------------------------------------------------ *)
(** * 4. Numbers *)

Definition frac_bytes (fr : option (list N)) : list N := match fr with Some f => 46 :: f | None => [] end.
Definition sign_bytes (sg : option N) : list N := match sg with Some c => [c] | None => [] end.
Definition exp_bytes (ex : option (N * option N * list N)) : list N :=
  match ex with Some (e, sg, ds) => e :: sign_bytes sg ++ ds | None => [] end.
Definition frac_okb (fr : option (list N)) : bool := match fr with Some f => digits_ok f | None => true end.
Definition exp_okb (ex : option (N * option N * list N)) : bool :=
  match ex with
  | Some (e, sg, ds) => ((e =? 101) || (e =? 69)) && (match sg with Some c => (c =? 43) || (c =? 45) | None => true end) && digits_ok ds
  | None => true
  end.

Lemma render_num_eq (neg : bool) (i : list N) fr ex :
  render_num (mkNum neg i fr ex) = (if neg then [45] else []) ++ i ++ frac_bytes fr ++ exp_bytes ex.
Proof. destruct ex as [[[e sg] ds]|]; reflexivity. Qed.

Lemma num_ok_eq (neg : bool) (i : list N) fr ex :
  num_ok (mkNum neg i fr ex) = int_ok i && frac_okb fr && exp_okb ex.
Proof. destruct ex as [[[e sg] ds]|]; reflexivity. Qed.

Lemma digits_ok_intro (l : list N) : forallb is_digit l = true -> l <> [] -> digits_ok l = true.
Proof. destruct l; [congruence|]. intros H _. exact H. Qed.

Lemma digits_ok_elim (l : list N) : digits_ok l = true -> forallb is_digit l = true /\ exists b r, l = b :: r.
Proof. destruct l as [|b r]; [discriminate|]. intros H. split; [exact H|eauto]. Qed.

Lemma int_ok_cons (c : N) (l : list N) : c <> 48 -> int_ok (c :: l) = is_digit19 c && forallb is_digit l.
Proof.
  intros Hc. unfold int_ok. destruct c as [|p]; [reflexivity|].
  do 6 (try (destruct p as [p|p|]; try reflexivity)). congruence.
Qed.

Lemma hd_cons (l : list N) (c : N) : hd 0 l = c -> c <> 0 -> exists r, l = c :: r.
Proof. destruct l as [|b r]; cbn [hd]; intros H Hc; [congruence|]. subst. eauto. Qed.

Lemma steps_cons_mk (s : st) (b : N) (r : list N) (n : nat) (p : bool) :
  rest s = b :: r -> (n <= length r)%nat ->
  steps s (b :: firstn n r) (mkSt (skipn n r) (S (off s) + n) p (depth s)).
Proof.
  intros Hr Hn. unfold steps. cbn [rest off depth app length]. rewrite Hr, firstn_skipn, firstn_length.
  repeat split; lia.
Qed.

(* the part of ignore_exponent after the optional sign *)
Definition exp_tail (s2 : st) : res st :=
  let* (o, s3) := next E s2 in
  match o with
  | None => error E s3 EofWhileParsingValue
  | Some d => if is_digit d then let* (_, s4) := skip_digits E s3 in Ok s4 else error E s3 InvalidNumber
  end.

Lemma ignore_exponent_eq (s : st) :
  ignore_exponent E s =
  let s1 := mkSt (tl (rest s)) (S (off s)) (nonempty (tl (rest s))) (depth s) in
  exp_tail (if (hd 0 (tl (rest s)) =? 43) || (hd 0 (tl (rest s)) =? 45) then discard s1 else s1).
Proof. unfold ignore_exponent. rewrite peek_or_null_eq. reflexivity. Qed.

Lemma exp_tail_inv (s2 s1 : st) : exp_tail s2 = Ok s1 -> exists ds, steps s2 ds s1 /\ digits_ok ds = true.
Proof.
  unfold exp_tail. intros H. destruct (rest s2) as [|dg r] eqn:Hr.
  - rewrite (next_nil s2 Hr) in H. cbn [bind] in H. dis.
  - rewrite (next_cons s2 dg r Hr) in H. cbn [bind] in H. destruct (is_digit dg) eqn:Hd; [|dis].
    rewrite skip_digits_eq in H. cbv zeta in H. cbn [bind rest off depth] in H. injection H as <-.
    exists (dg :: firstn (span_len is_digit r) r). split.
    + apply steps_cons_mk; [exact Hr|apply span_len_le].
    + unfold digits_ok. cbn [forallb]. now rewrite Hd, span_len_firstn.
Qed.

Lemma ignore_exponent_inv (s s1 : st) (e : N) (r : list N) :
  rest s = e :: r -> ignore_exponent E s = Ok s1 ->
  exists sg ds, steps s (e :: sign_bytes sg ++ ds) s1
    /\ (match sg with Some c => (c =? 43) || (c =? 45) | None => true end) = true /\ digits_ok ds = true.
Proof.
  intros Hr H. rewrite ignore_exponent_eq in H. cbv zeta in H. rewrite Hr in H. cbn [tl] in H.
  destruct ((hd 0 r =? 43) || (hd 0 r =? 45)) eqn:Hs.
  - destruct r as [|c r2]; [vm_compute in Hs; discriminate|]. cbn [hd] in *.
    apply exp_tail_inv in H as (ds & (H1 & H2 & H3) & Hds). exists (Some c), ds. split; [|split; assumption].
    unfold steps. cbn [rest off depth discard tl sign_bytes app length] in *.
    rewrite Hr, H1. repeat split; [lia|exact H3].
  - apply exp_tail_inv in H as (ds & Hst & Hds). exists None, ds. split; [|split; [reflexivity|assumption]].
    destruct Hst as (H1 & H2 & H3). unfold steps. cbn [rest off depth sign_bytes app length] in *.
    rewrite Hr, H1. repeat split; [lia|exact H3].
Qed.

Lemma ignore_decimal_eq (s : st) :
  ignore_decimal E s =
  let r := tl (rest s) in
  let n := span_len is_digit r in
  let s1 := mkSt (skipn n r) (S (off s) + n) (nonempty (skipn n r)) (depth s) in
  if Nat.eqb n 0 then
    let* (o, s2) := peek E s1 in
    match o with Some _ => peek_error E s2 InvalidNumber | None => peek_error E s2 EofWhileParsingValue end
  else if (hd 0 (skipn n r) =? 101) || (hd 0 (skipn n r) =? 69) then ignore_exponent E s1
  else Ok s1.
Proof. unfold ignore_decimal. rewrite peek_or_null_eq. reflexivity. Qed.

Lemma firstn_nonempty (n : nat) (l : list N) : n <> O -> (n <= length l)%nat -> firstn n l <> [].
Proof. destruct n as [|n]; [congruence|]. destruct l as [|b r]; cbn [length firstn]; [lia|discriminate]. Qed.

Lemma ignore_decimal_inv (s s1 : st) (r : list N) :
  rest s = 46 :: r -> ignore_decimal E s = Ok s1 ->
  exists f ex, steps s (46 :: f ++ exp_bytes ex) s1 /\ digits_ok f = true /\ exp_okb ex = true.
Proof.
  intros Hr H. rewrite ignore_decimal_eq in H. cbv zeta in H. rewrite Hr in H. cbn [tl] in H.
  pose proof (span_len_le is_digit r) as Hle. pose proof (span_len_firstn is_digit r) as Hf.
  set (n := span_len is_digit r) in *.
  destruct (Nat.eqb n 0) eqn:Hn.
  { unfold peek in H. cbn [rest] in H. destruct (skipn n r); cbn [bind at_end tm E] in H; dis. }
  apply Nat.eqb_neq in Hn.
  assert (Hdf : digits_ok (firstn n r) = true) by (apply digits_ok_intro; [exact Hf|now apply firstn_nonempty]).
  pose proof (steps_cons_mk s 46 r n (nonempty (skipn n r)) Hr Hle) as Hst.
  destruct ((hd 0 (skipn n r) =? 101) || (hd 0 (skipn n r) =? 69)) eqn:He.
  - destruct (hd_cons (skipn n r) _ eq_refl ltac:(lia)) as (r2 & Hr2).
    eapply ignore_exponent_inv in H as (sg & ds & Hst2 & Hsg & Hds); [|cbn [rest]; exact Hr2].
    exists (firstn n r), (Some (hd 0 (skipn n r), sg, ds)). split; [|split; [exact Hdf|]].
    + eapply steps_eq; [eapply steps_trans; [exact Hst|exact Hst2]|]. cbn [exp_bytes app]. reflexivity.
    + cbn [exp_okb]. now rewrite He, Hsg, Hds.
  - injection H as <-. exists (firstn n r), None. cbn [exp_bytes exp_okb]. rewrite app_nil_r. auto.
Qed.

Lemma ignore_integer_eq (s : st) (c : N) (r : list N) :
  rest s = c :: r ->
  ignore_integer E s =
  let after (r2 : list N) (o2 : nat) : res st :=
    let s2 := mkSt r2 o2 (nonempty r2) (depth s) in
    if hd 0 r2 =? 46 then ignore_decimal E s2
    else if (hd 0 r2 =? 101) || (hd 0 r2 =? 69) then ignore_exponent E s2
    else Ok s2 in
  if c =? 48 then
    if is_digit (hd 0 r) then peek_error E (mkSt r (S (off s)) (nonempty r) (depth s)) InvalidNumber
    else after r (S (off s))
  else if is_digit19 c then after (skipn (span_len is_digit r) r) (S (off s) + span_len is_digit r)%nat
  else error E (mkSt r (S (off s)) false (depth s)) InvalidNumber.
Proof.
  intros Hr. unfold ignore_integer. rewrite (next_cons s c r Hr). cbn [bind]. cbv zeta.
  destruct (c =? 48).
  - rewrite peek_or_null_eq. cbn [bind rest off depth]. destruct (is_digit (hd 0 r)); reflexivity.
  - destruct (is_digit19 c); [|reflexivity]. rewrite skip_digits_eq. cbv zeta. cbn [bind rest off depth]. reflexivity.
Qed.

Lemma ignore_integer_inv (s s1 : st) :
  ignore_integer E s = Ok s1 ->
  exists i fr ex, steps s (i ++ frac_bytes fr ++ exp_bytes ex) s1
    /\ int_ok i = true /\ frac_okb fr = true /\ exp_okb ex = true.
Proof.
  intros H. destruct (rest s) as [|c r] eqn:Hr.
  { unfold ignore_integer in H. rewrite (next_nil s Hr) in H. cbn [bind] in H. dis. }
  rewrite (ignore_integer_eq s c r Hr) in H. cbv zeta in H.
  assert (Hafter : forall i r2 o2, steps s i (mkSt r2 o2 (nonempty r2) (depth s)) -> int_ok i = true ->
     (if hd 0 r2 =? 46 then ignore_decimal E (mkSt r2 o2 (nonempty r2) (depth s))
      else if (hd 0 r2 =? 101) || (hd 0 r2 =? 69) then ignore_exponent E (mkSt r2 o2 (nonempty r2) (depth s))
      else Ok (mkSt r2 o2 (nonempty r2) (depth s))) = Ok s1 ->
     exists i fr ex, steps s (i ++ frac_bytes fr ++ exp_bytes ex) s1
        /\ int_ok i = true /\ frac_okb fr = true /\ exp_okb ex = true).
  { intros i r2 o2 Hst Hi G. destruct (hd 0 r2 =? 46) eqn:Hdot.
    - apply N.eqb_eq in Hdot. destruct (hd_cons r2 _ Hdot ltac:(lia)) as (r3 & Hr3).
      eapply ignore_decimal_inv in G as (f & ex & Hst2 & Hf & Hex); [|cbn [rest]; exact Hr3].
      exists i, (Some f), ex. split; [|auto]. cbn [frac_bytes]. eapply steps_eq; [eapply steps_trans; [exact Hst|exact Hst2]|].
      cbn [app]. reflexivity.
    - destruct ((hd 0 r2 =? 101) || (hd 0 r2 =? 69)) eqn:He.
      + destruct (hd_cons r2 _ eq_refl ltac:(lia)) as (r3 & Hr3).
        eapply ignore_exponent_inv in G as (sg & ds & Hst2 & Hsg & Hds); [|cbn [rest]; exact Hr3].
        exists i, None, (Some (hd 0 r2, sg, ds)). split; [|split; [exact Hi|split; [reflexivity|]]].
        * cbn [frac_bytes exp_bytes app]. eapply steps_trans; [exact Hst|exact Hst2].
        * cbn [exp_okb]. now rewrite He, Hsg, Hds.
      + injection G as <-. exists i, None, None. cbn [frac_bytes exp_bytes app]. rewrite app_nil_r. auto. }
  destruct (c =? 48) eqn:H0.
  - apply N.eqb_eq in H0. subst c. destruct (is_digit (hd 0 r)); [dis|].
    eapply (Hafter [48]); [|reflexivity|exact H].
    unfold steps. cbn [rest off depth app length]. rewrite Hr. repeat split; lia.
  - destruct (is_digit19 c) eqn:H19; [|dis].
    eapply (Hafter (c :: firstn (span_len is_digit r) r)); [| |exact H].
    + apply steps_cons_mk; [exact Hr|apply span_len_le].
    + rewrite int_ok_cons by lia. now rewrite H19, span_len_firstn.
Qed.

(* ---- completeness ---- *)
(* what may follow a number: the next byte (0 at the end of input) neither extends nor continues it *)
Definition follow_ok (x : list N) : Prop :=
  is_digit (hd 0 x) = false /\ hd 0 x <> 46 /\ hd 0 x <> 101 /\ hd 0 x <> 69.

Lemma span_digits (ds x : list N) :
  forallb is_digit ds = true -> is_digit (hd 0 x) = false -> span_len is_digit (ds ++ x) = length ds.
Proof.
  intros Hd Hx. rewrite span_len_app by exact Hd. rewrite span_len_stop; [lia|].
  destruct x; [exact I|exact Hx].
Qed.

Lemma exp_tail_complete (ds x : list N) (o : nat) (p : bool) (d : N) :
  digits_ok ds = true -> is_digit (hd 0 x) = false ->
  exp_tail (mkSt (ds ++ x) o p d) = Ok (mkSt x (o + length ds) (nonempty x) d).
Proof.
  intros Hds Hx. apply digits_ok_elim in Hds as (Hall & dg & r & ->). cbn [forallb] in Hall.
  apply andb_prop in Hall as [Hdg Hr].
  unfold exp_tail, next. cbn [app rest off depth bind]. rewrite Hdg, skip_digits_eq. cbv zeta. cbn [rest off depth bind].
  rewrite (span_digits r x Hr Hx), skipn_app_len. cbn [length]. f_equal. f_equal. lia.
Qed.

Lemma ignore_exponent_complete (e : N) (sg : option N) (ds x : list N) (o : nat) (p : bool) (d : N) :
  (match sg with Some c => (c =? 43) || (c =? 45) | None => true end) = true -> digits_ok ds = true ->
  is_digit (hd 0 x) = false ->
  ignore_exponent E (mkSt (e :: sign_bytes sg ++ ds ++ x) o p d)
  = Ok (mkSt x (o + length (e :: sign_bytes sg ++ ds)) (nonempty x) d).
Proof.
  intros Hsg Hds Hx. rewrite ignore_exponent_eq. cbv zeta. cbn [rest off depth tl].
  destruct sg as [c|]; cbn [sign_bytes app hd length].
  - rewrite Hsg. cbv iota. unfold discard. cbn [rest off depth tl]. rewrite exp_tail_complete by assumption.
    f_equal. f_equal. lia.
  - destruct (digits_ok_elim ds Hds) as (Hall & dg & r & Hdr). rewrite Hdr in *. cbn [forallb] in Hall.
    apply andb_prop in Hall as [Hdg _]. cbn [app hd].
    replace ((dg =? 43) || (dg =? 45)) with false by (unfold is_digit in Hdg; lia).
    cbv iota. change (dg :: r ++ x) with ((dg :: r) ++ x). rewrite exp_tail_complete by assumption.
    f_equal. f_equal. cbn [length]. lia.
Qed.

Lemma exp_head (ex : option (N * option N * list N)) (x : list N) :
  exp_okb ex = true -> follow_ok x ->
  is_digit (hd 0 (exp_bytes ex ++ x)) = false /\ hd 0 (exp_bytes ex ++ x) <> 46
  /\ ((hd 0 (exp_bytes ex ++ x) =? 101) || (hd 0 (exp_bytes ex ++ x) =? 69) = match ex with Some _ => true | None => false end).
Proof.
  intros Hex (F1 & F2 & F3 & F4). destruct ex as [[[e sg] ds]|]; cbn [exp_bytes app hd exp_okb] in *.
  - unfold is_digit. lia.
  - repeat split; [exact F1|exact F2|lia].
Qed.

Lemma ignore_exp_opt_complete (ex : option (N * option N * list N)) (x : list N) (o : nat) (d : N) :
  exp_okb ex = true -> follow_ok x ->
  (if (hd 0 (exp_bytes ex ++ x) =? 101) || (hd 0 (exp_bytes ex ++ x) =? 69)
   then ignore_exponent E (mkSt (exp_bytes ex ++ x) o (nonempty (exp_bytes ex ++ x)) d)
   else Ok (mkSt (exp_bytes ex ++ x) o (nonempty (exp_bytes ex ++ x)) d))
  = Ok (mkSt x (o + length (exp_bytes ex)) (nonempty x) d).
Proof.
  intros Hex Hx. destruct (exp_head ex x Hex Hx) as (_ & _ & ->).
  destruct ex as [[[e sg] ds]|]; cbn [exp_bytes exp_okb] in *.
  - apply andb_prop in Hex as [Hex Hds]. apply andb_prop in Hex as [_ Hsg].
    rewrite <- !app_comm_cons, <- app_assoc. apply ignore_exponent_complete; try assumption. apply Hx.
  - cbn [app length]. rewrite Nat.add_0_r. reflexivity.
Qed.

Lemma ignore_decimal_complete (f : list N) ex (x : list N) (o : nat) (p : bool) (d : N) :
  digits_ok f = true -> exp_okb ex = true -> follow_ok x ->
  ignore_decimal E (mkSt (46 :: f ++ exp_bytes ex ++ x) o p d)
  = Ok (mkSt x (o + length (46 :: f ++ exp_bytes ex)) (nonempty x) d).
Proof.
  intros Hf Hex Hx. destruct (exp_head ex x Hex Hx) as (Hnd & _ & _).
  destruct (digits_ok_elim f Hf) as (Hall & dg & r & Hdr).
  rewrite ignore_decimal_eq. cbv zeta. cbn [rest off depth tl].
  rewrite (span_digits f _ Hall Hnd), skipn_app_len.
  replace (Nat.eqb (length f) 0) with false by (rewrite Hdr; reflexivity).
  rewrite ignore_exp_opt_complete by assumption. f_equal. f_equal. cbn [length]. rewrite app_length. lia.
Qed.

Lemma ignore_integer_complete (i : list N) fr ex (x : list N) (o : nat) (p : bool) (d : N) :
  int_ok i = true -> frac_okb fr = true -> exp_okb ex = true -> follow_ok x ->
  ignore_integer E (mkSt (i ++ frac_bytes fr ++ exp_bytes ex ++ x) o p d)
  = Ok (mkSt x (o + length (i ++ frac_bytes fr ++ exp_bytes ex)) (nonempty x) d).
Proof.
  intros Hi Hfr Hex Hx. destruct (exp_head ex x Hex Hx) as (Hnd & Hn46 & _).
  assert (Hafter : forall o2,
    (let r2 := frac_bytes fr ++ exp_bytes ex ++ x in
     let s2 := mkSt r2 o2 (nonempty r2) d in
     if hd 0 r2 =? 46 then ignore_decimal E s2
     else if (hd 0 r2 =? 101) || (hd 0 r2 =? 69) then ignore_exponent E s2 else Ok s2)
    = Ok (mkSt x (o2 + length (frac_bytes fr ++ exp_bytes ex)) (nonempty x) d)).
  { intros o2. cbv zeta. destruct fr as [f|]; cbn [frac_bytes frac_okb] in *.
    - cbn [app hd]. change (46 =? 46) with true. cbv iota.
      rewrite ignore_decimal_complete by assumption. reflexivity.
    - cbn [app]. replace (hd 0 (exp_bytes ex ++ x) =? 46) with false by lia.
      apply ignore_exp_opt_complete; assumption. }
  assert (Hhd : is_digit (hd 0 (frac_bytes fr ++ exp_bytes ex ++ x)) = false).
  { destruct fr as [f|]; [reflexivity|exact Hnd]. }
  destruct i as [|c l]; [discriminate|].
  cbn [app]. rewrite (ignore_integer_eq (mkSt (c :: l ++ frac_bytes fr ++ exp_bytes ex ++ x) o p d) c (l ++ frac_bytes fr ++ exp_bytes ex ++ x) eq_refl).
  cbv zeta in Hafter |- *. cbn [off depth].
  destruct (c =? 48) eqn:H0.
  - apply N.eqb_eq in H0. subst c. destruct l as [|c2 l2].
    + cbn [app]. rewrite Hhd, Hafter. f_equal. f_equal. cbn [app length]. lia.
    + cbn in Hi. discriminate.
  - rewrite int_ok_cons in Hi by lia. apply andb_prop in Hi as [H19 Hl]. rewrite H19.
    rewrite (span_digits l _ Hl Hhd), skipn_app_len, Hafter. f_equal. f_equal. cbn [length]. rewrite !app_length. lia.
Qed.

(* ------------------------------------------------------------------------------------------ *)
(** * 5. One-step unfoldings of the scanner *)

(* what happens after a complete value: done, or back in the inner loop of the enclosing container *)
Definition cont (f : nat) (stk : list N) (s2 : st) : res st :=
  match stk with [] => Ok s2 | frame :: stk' => ig_inner f E true frame stk' s2 end.

Definition scalar_k (f : nat) (stk : list N) (r : res st) : res st := let* s2 := r in cont f stk s2.

Definition dispatch (f : nat) (stk : list N) (b : N) (s1 : st) : res st :=
  if b =? 110 then scalar_k f stk (parse_ident E lit_ull (discard s1))
  else if b =? 116 then scalar_k f stk (parse_ident E lit_rue (discard s1))
  else if b =? 102 then scalar_k f stk (parse_ident E lit_alse (discard s1))
  else if b =? 45 then scalar_k f stk (ignore_integer E (discard s1))
  else if is_digit b then scalar_k f stk (ignore_integer E s1)
  else if b =? 34 then scalar_k f stk (ignore_str E (discard s1))
  else if (b =? 91) || (b =? 123) then ig_inner f E false b stk (discard s1)
  else peek_error E s1 ExpectedSomeValue.

Lemma ig_outer_S (f : nat) (stk : list N) (s : st) :
  ig_outer (S f) E stk s =
  let* (o, s1) := parse_whitespace E s in
  match o with None => peek_error E s1 EofWhileParsingValue | Some b => dispatch f stk b s1 end.
Proof. reflexivity. Qed.

(* the code after the inner loop `break`s *)
Definition cont_outer (f : nat) (frame : N) (stk : list N) (s2 : st) : res st :=
  if frame =? 123 then
    let* (o, s3) := parse_whitespace E s2 in
    match o with
    | None => peek_error E s3 EofWhileParsingObject
    | Some q =>
      if q =? 34 then
        let* s4 := ignore_str E (discard s3) in
        let* (o2, s5) := parse_whitespace E s4 in
        match o2 with
        | None => peek_error E s5 EofWhileParsingObject
        | Some c => if c =? 58 then ig_outer f E (frame :: stk) (discard s5) else peek_error E s5 ExpectedColon
        end
      else peek_error E s3 KeyMustBeAString
    end
  else ig_outer f E (frame :: stk) s2.

Definition inner_body (f : nat) (accept_comma : bool) (frame : N) (stk : list N) (b : N) (s1 : st) : res st :=
  if (b =? 44) && accept_comma then cont_outer f frame stk (discard s1)
  else if ((b =? 93) && (frame =? 91)) || ((b =? 125) && (frame =? 123)) then cont f stk (discard s1)
  else if accept_comma then
    peek_error E s1 (if frame =? 91 then ExpectedListCommaOrEnd else ExpectedObjectCommaOrEnd)
  else cont_outer f frame stk s1.

Lemma ig_inner_S (f : nat) (ac : bool) (frame : N) (stk : list N) (s : st) :
  ig_inner (S f) E ac frame stk s =
  let* (o, s1) := parse_whitespace E s in
  match o with
  | None => peek_error E s1 (if frame =? 91 then EofWhileParsingList else EofWhileParsingObject)
  | Some b => inner_body f ac frame stk b s1
  end.
Proof. reflexivity. Qed.

(* ------------------------------------------------------------------------------------------ *)
(** * 6. Soundness *)

Definition more_elems (es : elems) : list N := match es with ENil => [] | _ => 44 :: render_elems es end.
Definition more_members (ms : members) : list N := match ms with MNil => [] | _ => 44 :: render_members ms end.

Lemma render_elems_cons w1 c w2 r : render_elems (ECons w1 c w2 r) = w1 ++ render c ++ w2 ++ more_elems r.
Proof.
  destruct r as [|w1' c' w2' r']; [|reflexivity].
  change (render_elems (ECons w1 c w2 ENil)) with (w1 ++ render c ++ w2). cbn [more_elems]. now rewrite app_nil_r.
Qed.

Lemma render_members_cons w1 k w2 w3 c w4 r :
  render_members (MCons w1 k w2 w3 c w4 r) = w1 ++ render_str k ++ w2 ++ 58 :: w3 ++ render c ++ w4 ++ more_members r.
Proof.
  destruct r as [|w1' k' w2' w3' c' w4' r']; [|reflexivity].
  change (render_members (MCons w1 k w2 w3 c w4 MNil)) with (w1 ++ render_str k ++ w2 ++ 58 :: w3 ++ render c ++ w4).
  cbn [more_members]. now rewrite app_nil_r.
Qed.

Lemma render_arr w es : render (CArr w es) = 91 :: (match es with ENil => w | _ => render_elems es end) ++ [93].
Proof. destruct es; reflexivity. Qed.

Lemma render_obj w ms : render (CObj w ms) = 123 :: (match ms with MNil => w | _ => render_members ms end) ++ [125].
Proof. destruct ms; reflexivity. Qed.

(* text from just after a completed element/member up to and including the closing bracket *)
Definition after_val (fr : N) (body : list N) : Prop :=
  (fr = 91 /\ exists w es, body = w ++ more_elems es ++ [93] /\ ws_ok w = true /\ wfb_elems es = true) \/
  (fr = 123 /\ exists w ms, body = w ++ more_members ms ++ [125] /\ ws_ok w = true /\ wfb_members ms = true).

(* text that closes all open containers of the stack (innermost first) *)
Fixpoint Tail (stk : list N) (t : list N) : Prop :=
  match stk with
  | [] => t = []
  | fr :: stk' => exists body t', t = body ++ t' /\ after_val fr body /\ Tail stk' t'
  end.

(* text from the start of an element/member (a first one, or one after a comma) up to the closing bracket *)
Definition items (fr : N) (body : list N) : Prop :=
  (fr = 91 /\ exists es, es <> ENil /\ body = render_elems es ++ [93] /\ wfb_elems es = true) \/
  (fr = 123 /\ exists ms, ms <> MNil /\ body = render_members ms ++ [125] /\ wfb_members ms = true).

(* text from just after the opening bracket up to and including the closing bracket *)
Definition opened (fr : N) (body : list N) : Prop :=
  exists c, fr :: body = render c /\ wfb c = true.

Definition SoundO (f : nat) : Prop := forall stk s s1,
  Forall lt256 (rest s) -> ig_outer f E stk s = Ok s1 ->
  exists w c t, steps s (w ++ render c ++ t) s1 /\ ws_ok w = true /\ wfb c = true /\ Tail stk t.
Definition SoundT (f : nat) : Prop := forall fr stk s s1,
  Forall lt256 (rest s) -> ig_inner f E true fr stk s = Ok s1 ->
  exists t, steps s t s1 /\ Tail (fr :: stk) t.
Definition SoundF (f : nat) : Prop := forall fr stk s s1,
  Forall lt256 (rest s) -> ig_inner f E false fr stk s = Ok s1 ->
  exists body t, steps s (body ++ t) s1 /\ Tail stk t /\ opened fr body.

Lemma lt256_discard (s : st) (b : N) (r : list N) :
  rest s = b :: r -> Forall lt256 (rest s) -> Forall lt256 (rest (discard s)).
Proof. intros Hr F. unfold discard. cbn [rest]. rewrite Hr in *. cbn [tl]. now inversion F. Qed.

Lemma cont_sound (f : nat) (stk : list N) (s2 s1 : st) :
  SoundT f -> Forall lt256 (rest s2) -> cont f stk s2 = Ok s1 -> exists t, steps s2 t s1 /\ Tail stk t.
Proof.
  intros IT F H. destruct stk as [|fr stk']; cbn [cont] in H.
  - injection H as <-. exists []. split; [apply steps_nil; reflexivity|reflexivity].
  - eapply IT; eassumption.
Qed.

Lemma scalar_finish (f : nat) (stk : list N) (s0 s2 s1 : st) (c : cst) :
  SoundT f -> Forall lt256 (rest s0) -> steps s0 (render c) s2 -> wfb c = true -> cont f stk s2 = Ok s1 ->
  exists c t, steps s0 (render c ++ t) s1 /\ wfb c = true /\ Tail stk t.
Proof.
  intros IT F Hst Hc Hk. destruct (steps_lt256 _ _ _ Hst F) as [_ F2].
  destruct (cont_sound f stk s2 s1 IT F2 Hk) as (t & Hst2 & Ht).
  exists c, t. split; [eapply steps_trans; eassumption|auto].
Qed.

Lemma dispatch_sound (f : nat) (stk : list N) (b : N) (r : list N) (s0 s1 : st) :
  SoundT f -> SoundF f -> rest s0 = b :: r -> Forall lt256 (rest s0) ->
  dispatch f stk b s0 = Ok s1 ->
  exists c t, steps s0 (render c ++ t) s1 /\ wfb c = true /\ Tail stk t.
Proof.
  intros IT IF Hr F H. unfold dispatch in H.
  pose proof (steps_discard s0 b r Hr) as Hd.
  pose proof (lt256_discard s0 b r Hr F) as Fd.
  destruct (b =? 110) eqn:E1.
  { apply N.eqb_eq in E1. subst b. apply bind_ok in H as (s2 & Hs2 & Hk). apply parse_ident_inv in Hs2.
    apply (scalar_finish f stk s0 s2 s1 CNull IT F); [|reflexivity|exact Hk].
    eapply steps_eq; [eapply steps_trans; [exact Hd|exact Hs2]|reflexivity]. }
  destruct (b =? 116) eqn:E2.
  { apply N.eqb_eq in E2. subst b. apply bind_ok in H as (s2 & Hs2 & Hk). apply parse_ident_inv in Hs2.
    apply (scalar_finish f stk s0 s2 s1 CTrue IT F); [|reflexivity|exact Hk].
    eapply steps_eq; [eapply steps_trans; [exact Hd|exact Hs2]|reflexivity]. }
  destruct (b =? 102) eqn:E3.
  { apply N.eqb_eq in E3. subst b. apply bind_ok in H as (s2 & Hs2 & Hk). apply parse_ident_inv in Hs2.
    apply (scalar_finish f stk s0 s2 s1 CFalse IT F); [|reflexivity|exact Hk].
    eapply steps_eq; [eapply steps_trans; [exact Hd|exact Hs2]|reflexivity]. }
  destruct (b =? 45) eqn:E4.
  { apply N.eqb_eq in E4. subst b. apply bind_ok in H as (s2 & Hs2 & Hk).
    apply ignore_integer_inv in Hs2 as (i & fr & ex & Hst & Hi & Hfr & Hex).
    apply (scalar_finish f stk s0 s2 s1 (CNum (mkNum true i fr ex)) IT F); [| |exact Hk].
    - cbn [render]. rewrite render_num_eq. eapply steps_eq; [eapply steps_trans; [exact Hd|exact Hst]|reflexivity].
    - cbn [wfb]. rewrite num_ok_eq, Hi, Hfr, Hex. reflexivity. }
  destruct (is_digit b) eqn:E5.
  { apply bind_ok in H as (s2 & Hs2 & Hk).
    apply ignore_integer_inv in Hs2 as (i & fr & ex & Hst & Hi & Hfr & Hex).
    apply (scalar_finish f stk s0 s2 s1 (CNum (mkNum false i fr ex)) IT F); [| |exact Hk].
    - cbn [render]. rewrite render_num_eq. exact Hst.
    - cbn [wfb]. rewrite num_ok_eq, Hi, Hfr, Hex. reflexivity. }
  destruct (b =? 34) eqn:E6.
  { apply N.eqb_eq in E6. subst b. apply bind_ok in H as (s2 & Hs2 & Hk).
    apply ignore_str_sound in Hs2 as (ps & Hst & Hps); [|exact Fd].
    apply (scalar_finish f stk s0 s2 s1 (CStr ps) IT F); [|exact Hps|exact Hk].
    cbn [render]. unfold render_str. eapply steps_eq; [eapply steps_trans; [exact Hd|exact Hst]|reflexivity]. }
  destruct ((b =? 91) || (b =? 123)) eqn:E7; [|dis].
  apply IF in H as (body & t & Hst & Ht & (c & Hc & Hwf)); [|exact Fd].
  exists c, t. split; [|auto]. rewrite <- Hc. eapply steps_eq; [eapply steps_trans; [exact Hd|exact Hst]|reflexivity].
Qed.

(* prefixing whitespace to the first element / member *)
Lemma elems_prepend (w : list N) (es : elems) :
  es <> ENil -> ws_ok w = true -> wfb_elems es = true ->
  exists es', es' <> ENil /\ render_elems es' = w ++ render_elems es /\ wfb_elems es' = true.
Proof.
  intros Hne Hw Hes. destruct es as [|w1 c w2 r]; [congruence|].
  exists (ECons (w ++ w1) c w2 r). split; [discriminate|]. split.
  - rewrite !render_elems_cons, <- app_assoc. reflexivity.
  - cbn [wfb_elems] in *. rewrite ws_ok_app, Hw. exact Hes.
Qed.

Lemma members_prepend (w : list N) (ms : members) :
  ms <> MNil -> ws_ok w = true -> wfb_members ms = true ->
  exists ms', ms' <> MNil /\ render_members ms' = w ++ render_members ms /\ wfb_members ms' = true.
Proof.
  intros Hne Hw Hms. destruct ms as [|w1 k w2 w3 c w4 r]; [congruence|].
  exists (MCons (w ++ w1) k w2 w3 c w4 r). split; [discriminate|]. split.
  - rewrite !render_members_cons, <- app_assoc. reflexivity.
  - cbn [wfb_members] in *. rewrite ws_ok_app, Hw. exact Hms.
Qed.

Lemma items_opened (fr : N) (w body : list N) : ws_ok w = true -> items fr body -> opened fr (w ++ body).
Proof.
  intros Hw [(-> & es & Hne & -> & Hes)|(-> & ms & Hne & -> & Hms)].
  - destruct (elems_prepend w es Hne Hw Hes) as (es' & Hne' & Hr' & Hes').
    exists (CArr [] es'). split; [|exact Hes']. rewrite render_arr, app_assoc, <- Hr'. destruct es'; [congruence|reflexivity].
  - destruct (members_prepend w ms Hne Hw Hms) as (ms' & Hne' & Hr' & Hms').
    exists (CObj [] ms'). split; [|exact Hms']. rewrite render_obj, app_assoc, <- Hr'. destruct ms'; [congruence|reflexivity].
Qed.

Lemma cont_outer_sound (f : nat) (fr : N) (stk : list N) (s2 s1 : st) :
  SoundO f -> Forall lt256 (rest s2) -> cont_outer f fr stk s2 = Ok s1 ->
  exists body t, steps s2 (body ++ t) s1 /\ Tail stk t /\ items fr body.
Proof.
  intros IO F H. unfold cont_outer in H. destruct (fr =? 123) eqn:Efr.
  - apply N.eqb_eq in Efr. subst fr.
    apply bind_ok in H as ([o s3] & Hpw & H). apply pw_inv in Hpw as (w1 & Hst1 & Hw1 & Ho).
    destruct o as [q|]; [|dis]. destruct Ho as (r3 & Hr3 & _).
    destruct (q =? 34) eqn:Eq; [|dis]. apply N.eqb_eq in Eq. subst q.
    destruct (steps_lt256 _ _ _ Hst1 F) as [_ F3].
    apply bind_ok in H as (s4 & Hstr & H).
    apply ignore_str_sound in Hstr as (k & Hst4 & Hk); [|exact (lt256_discard s3 34 r3 Hr3 F3)].
    destruct (steps_lt256 _ _ _ Hst4 (lt256_discard s3 34 r3 Hr3 F3)) as [_ F4].
    apply bind_ok in H as ([o2 s5] & Hpw2 & H). apply pw_inv in Hpw2 as (w2 & Hst5 & Hw2 & Ho2).
    destruct o2 as [c5|]; [|dis]. destruct Ho2 as (r5 & Hr5 & _).
    destruct (c5 =? 58) eqn:Ec; [|dis]. apply N.eqb_eq in Ec. subst c5.
    destruct (steps_lt256 _ _ _ Hst5 F4) as [_ F5].
    apply IO in H as (w3 & c & t0 & Hst6 & Hw3 & Hc & (body0 & t & -> & Hav & Ht)); [|exact (lt256_discard s5 58 r5 Hr5 F5)].
    destruct Hav as [(Hfr & _)|(_ & w4 & ms & -> & Hw4 & Hms)]; [discriminate|].
    exists (render_members (MCons w1 k w2 w3 c w4 ms) ++ [125]), t. split; [|split; [exact Ht|]].
    + eapply steps_eq.
      * eapply steps_trans; [exact Hst1|]. eapply steps_trans; [exact (steps_discard s3 34 r3 Hr3)|].
        eapply steps_trans; [exact Hst4|]. eapply steps_trans; [exact Hst5|].
        eapply steps_trans; [exact (steps_discard s5 58 r5 Hr5)|exact Hst6].
      * rewrite render_members_cons. unfold render_str. lnorm. reflexivity.
    + right. split; [reflexivity|]. exists (MCons w1 k w2 w3 c w4 ms). split; [discriminate|]. split; [reflexivity|].
      cbn [wfb_members]. now rewrite Hw1, Hk, Hw2, Hw3, Hc, Hw4, Hms.
  - apply IO in H as (w1 & c & t0 & Hst & Hw1 & Hc & (body0 & t & -> & Hav & Ht)); [|exact F].
    destruct Hav as [(-> & w2 & es & -> & Hw2 & Hes)|(-> & _)]; [|discriminate].
    exists (render_elems (ECons w1 c w2 es) ++ [93]), t. split; [|split; [exact Ht|]].
    + eapply steps_eq; [exact Hst|]. rewrite render_elems_cons, <- !app_assoc. reflexivity.
    + left. split; [reflexivity|]. exists (ECons w1 c w2 es). split; [discriminate|]. split; [reflexivity|].
      cbn [wfb_elems]. now rewrite Hw1, Hc, Hw2, Hes.
Qed.

Lemma close_after_val (b fr : N) (w : list N) :
  ((b =? 93) && (fr =? 91)) || ((b =? 125) && (fr =? 123)) = true -> ws_ok w = true ->
  after_val fr (w ++ [b]) /\ opened fr (w ++ [b]).
Proof.
  intros H Hw. apply orb_prop in H as [H|H]; apply andb_prop in H as [H1 H2]; apply N.eqb_eq in H1, H2; subst b fr.
  - split.
    + left. split; [reflexivity|]. exists w, ENil. auto.
    + exists (CArr w ENil). split; [reflexivity|]. cbn [wfb wfb_elems]. now rewrite Hw.
  - split.
    + right. split; [reflexivity|]. exists w, MNil. auto.
    + exists (CObj w MNil). split; [reflexivity|]. cbn [wfb wfb_members]. now rewrite Hw.
Qed.

Lemma items_after_val (fr : N) (w body : list N) : ws_ok w = true -> items fr body -> after_val fr (w ++ 44 :: body).
Proof.
  intros Hw [(-> & es & Hne & -> & Hes)|(-> & ms & Hne & -> & Hms)].
  - left. split; [reflexivity|]. exists w, es. split; [|auto]. destruct es; [congruence|reflexivity].
  - right. split; [reflexivity|]. exists w, ms. split; [|auto]. destruct ms; [congruence|reflexivity].
Qed.

Lemma ig_sound : forall f, SoundO f /\ SoundT f /\ SoundF f.
Proof.
  induction f as [|f (IO & IT & IF)].
  { split; [|split]; [intros ? ? ? ? H|intros ? ? ? ? ? H|intros ? ? ? ? ? H]; discriminate. }
  split; [|split].
  - intros stk s s1 F H. rewrite ig_outer_S in H.
    apply bind_ok in H as ([o s0] & Hpw & H). apply pw_inv in Hpw as (w & Hst & Hw & Ho).
    destruct o as [b|]; [|dis]. destruct Ho as (r & Hr & _).
    destruct (steps_lt256 _ _ _ Hst F) as [_ F0].
    destruct (dispatch_sound f stk b r s0 s1 IT IF Hr F0 H) as (c & t & Hst2 & Hc & Ht).
    exists w, c, t. split; [eapply steps_trans; eassumption|auto].
  - intros fr stk s s1 F H. rewrite ig_inner_S in H.
    apply bind_ok in H as ([o s0] & Hpw & H). apply pw_inv in Hpw as (w & Hst & Hw & Ho).
    destruct o as [b|]; [|dis]. destruct Ho as (r & Hr & _).
    destruct (steps_lt256 _ _ _ Hst F) as [_ F0].
    pose proof (steps_discard s0 b r Hr) as Hd. pose proof (lt256_discard s0 b r Hr F0) as Fd.
    unfold inner_body in H. rewrite andb_true_r in H. destruct (b =? 44) eqn:Ecomma.
    + apply N.eqb_eq in Ecomma. subst b.
      apply (cont_outer_sound f fr stk _ s1 IO Fd) in H as (body & t & Hst2 & Ht & Hit).
      exists ((w ++ 44 :: body) ++ t). split.
      * eapply steps_eq; [eapply steps_trans; [exact Hst|eapply steps_trans; [exact Hd|exact Hst2]]|].
        rewrite <- !app_assoc. reflexivity.
      * cbn [Tail]. exists (w ++ 44 :: body), t. split; [reflexivity|]. split; [now apply items_after_val|exact Ht].
    + destruct (((b =? 93) && (fr =? 91)) || ((b =? 125) && (fr =? 123))) eqn:Eclose; [|dis].
      apply (cont_sound f stk _ s1 IT Fd) in H as (t & Hst2 & Ht).
      exists ((w ++ [b]) ++ t). split.
      * eapply steps_eq; [eapply steps_trans; [exact Hst|eapply steps_trans; [exact Hd|exact Hst2]]|].
        rewrite <- !app_assoc. reflexivity.
      * cbn [Tail]. exists (w ++ [b]), t. split; [reflexivity|]. split; [now apply close_after_val|exact Ht].
  - intros fr stk s s1 F H. rewrite ig_inner_S in H.
    apply bind_ok in H as ([o s0] & Hpw & H). apply pw_inv in Hpw as (w & Hst & Hw & Ho).
    destruct o as [b|]; [|dis]. destruct Ho as (r & Hr & _).
    destruct (steps_lt256 _ _ _ Hst F) as [_ F0].
    pose proof (steps_discard s0 b r Hr) as Hd. pose proof (lt256_discard s0 b r Hr F0) as Fd.
    unfold inner_body in H. rewrite andb_false_r in H.
    destruct (((b =? 93) && (fr =? 91)) || ((b =? 125) && (fr =? 123))) eqn:Eclose.
    + apply (cont_sound f stk _ s1 IT Fd) in H as (t & Hst2 & Ht).
      exists (w ++ [b]), t. split; [|split; [exact Ht|now apply close_after_val]].
      eapply steps_eq; [eapply steps_trans; [exact Hst|eapply steps_trans; [exact Hd|exact Hst2]]|].
      rewrite <- !app_assoc. reflexivity.
    + apply (cont_outer_sound f fr stk _ s1 IO F0) in H as (body & t & Hst2 & Ht & Hit).
      exists (w ++ body), t. split; [|split; [exact Ht|now apply items_opened]].
      eapply steps_eq; [eapply steps_trans; [exact Hst|exact Hst2]|]. rewrite <- !app_assoc. reflexivity.
Qed.

(* ------------------------------------------------------------------------------------------ *)
(** * 7. Completeness *)

(* exact number of [ig_outer]/[ig_inner] calls spent on a value *)
Fixpoint cost (c : cst) : nat :=
  match c with
  | CArr _ es => S (S (cost_elems es))
  | CObj _ ms => S (S (cost_members ms))
  | _ => 1%nat
  end
with cost_elems (es : elems) : nat :=
  match es with ENil => O | ECons _ c _ r => (cost c + S (cost_elems r))%nat end
with cost_members (ms : members) : nat :=
  match ms with MNil => O | MCons _ _ _ _ c _ r => (cost c + S (cost_members r))%nat end.

Lemma digit_not_ws (b : N) : is_digit b = true -> is_ws b = false.
Proof. rewrite is_ws_ws_byte. unfold is_digit, ws_byte. lia. Qed.

Lemma int_ok_head (i : list N) : int_ok i = true -> exists b r, i = b :: r /\ is_digit b = true.
Proof.
  destruct i as [|b r]; [discriminate|]. intros H. exists b, r. split; [reflexivity|].
  destruct (N.eq_dec b 48) as [->|Hb]; [reflexivity|]. rewrite int_ok_cons in H by exact Hb.
  apply andb_prop in H as [H _]. unfold is_digit19 in H. unfold is_digit. lia.
Qed.

(* first byte of a value *)
Lemma render_head (c : cst) : wfb c = true ->
  exists b r, render c = b :: r /\ is_ws b = false /\ (b =? 44) = false /\ (b =? 93) = false /\ (b =? 125) = false.
Proof.
  destruct c as [| | |n|s|w es|w ms]; intros H.
  - exists 110, [117; 108; 108]. repeat split.
  - exists 116, [114; 117; 101]. repeat split.
  - exists 102, [97; 108; 115; 101]. repeat split.
  - destruct n as [neg i fr ex]. cbn [wfb] in H. rewrite num_ok_eq in H. apply andb_prop in H as [H _]. apply andb_prop in H as [Hi _].
    cbn [render]. rewrite render_num_eq. destruct neg.
    + eexists 45, _. split; [reflexivity|]. repeat split.
    + destruct (int_ok_head i Hi) as (b & r & -> & Hb). eexists b, _. split; [reflexivity|].
      split; [now apply digit_not_ws|]. unfold is_digit in Hb. repeat split; lia.
  - eexists 34, _. split; [reflexivity|]. repeat split.
  - rewrite render_arr. eexists 91, _. split; [reflexivity|]. repeat split.
  - rewrite render_obj. eexists 123, _. split; [reflexivity|]. repeat split.
Qed.

Lemma follow_after (w : list N) (b : N) (y : list N) :
  ws_ok w = true -> b = 44 \/ b = 93 \/ b = 125 -> follow_ok (w ++ b :: y).
Proof.
  intros Hw Hb. unfold follow_ok. destruct w as [|a w]; cbn [app hd].
  - unfold is_digit. repeat split; lia.
  - unfold ws_ok in Hw. cbn [forallb] in Hw. apply andb_prop in Hw as [Ha _]. unfold ws_byte in Ha. unfold is_digit.
    repeat split; lia.
Qed.

Lemma follow_elems (w : list N) (r : elems) (y : list N) : ws_ok w = true -> follow_ok (w ++ more_elems r ++ 93 :: y).
Proof. intros Hw. destruct r; cbn [more_elems app]; apply follow_after; auto. Qed.

Lemma follow_members (w : list N) (r : members) (y : list N) : ws_ok w = true -> follow_ok (w ++ more_members r ++ 125 :: y).
Proof. intros Hw. destruct r; cbn [more_members app]; apply follow_after; auto. Qed.

(* dispatch on the first byte *)
Lemma dispatch_digit f stk b s1 : is_digit b = true -> dispatch f stk b s1 = scalar_k f stk (ignore_integer E s1).
Proof.
  intros H. unfold dispatch. rewrite H. unfold is_digit in H.
  replace (b =? 110) with false by lia. replace (b =? 116) with false by lia.
  replace (b =? 102) with false by lia. replace (b =? 45) with false by lia. reflexivity.
Qed.

Lemma inner_body_item f fr stk b s1 :
  (b =? 93) = false -> (b =? 125) = false -> inner_body f false fr stk b s1 = cont_outer f fr stk s1.
Proof. intros H1 H2. unfold inner_body. rewrite andb_false_r, H1, H2. reflexivity. Qed.

Lemma cont_outer_obj f stk (w1 : list N) k (w2 y : list N) o p d :
  ws_ok w1 = true -> str_ok k = true -> ws_ok w2 = true ->
  cont_outer f 123 stk (mkSt (w1 ++ 34 :: flat_map render_piece k ++ 34 :: w2 ++ 58 :: y) o p d)
  = ig_outer f E (123 :: stk) (mkSt y (o + length w1 + 1 + length (flat_map render_piece k) + 1 + length w2 + 1) false d).
Proof.
  intros Hw1 Hk Hw2. unfold cont_outer. change (123 =? 123) with true. cbv iota.
  rewrite pw_complete by (try assumption; reflexivity). cbn [bind]. change (34 =? 34) with true. cbv iota.
  unfold discard. cbn [rest off depth tl]. rewrite ignore_str_complete by exact Hk. cbn [bind].
  rewrite pw_complete by (try assumption; reflexivity). cbn [bind]. change (58 =? 58) with true. cbv iota.
  cbn [rest off depth tl]. f_equal. f_equal. lia.
Qed.

Definition CompleteV (c : cst) : Prop :=
  wfb c = true -> forall f stk w x o p d, ws_ok w = true -> follow_ok x ->
  exists p', ig_outer (cost c + f) E stk (mkSt (w ++ render c ++ x) o p d)
           = cont f stk (mkSt x (o + length w + length (render c)) p' d).
Definition CompleteE (es : elems) : Prop :=
  wfb_elems es = true ->
  (forall f stk w x o p d, ws_ok w = true ->
     ig_inner (S (cost_elems es + f)) E true 91 stk (mkSt (w ++ more_elems es ++ 93 :: x) o p d)
     = cont f stk (mkSt x (o + length w + length (more_elems es) + 1) false d)) /\
  (es <> ENil -> forall f stk x o p d,
     ig_inner (S (cost_elems es + f)) E false 91 stk (mkSt (render_elems es ++ 93 :: x) o p d)
     = cont f stk (mkSt x (o + length (render_elems es) + 1) false d)).
Definition CompleteM (ms : members) : Prop :=
  wfb_members ms = true ->
  (forall f stk w x o p d, ws_ok w = true ->
     ig_inner (S (cost_members ms + f)) E true 123 stk (mkSt (w ++ more_members ms ++ 125 :: x) o p d)
     = cont f stk (mkSt x (o + length w + length (more_members ms) + 1) false d)) /\
  (ms <> MNil -> forall f stk x o p d,
     ig_inner (S (cost_members ms + f)) E false 123 stk (mkSt (render_members ms ++ 125 :: x) o p d)
     = cont f stk (mkSt x (o + length (render_members ms) + 1) false d)).

Lemma ig_outer_skip f stk (w y : list N) o p p' d :
  ws_ok w = true -> ig_outer f E stk (mkSt (w ++ y) o p d) = ig_outer f E stk (mkSt y (o + length w) p' d).
Proof. intros Hw. destruct f as [|f]; [reflexivity|]. rewrite !ig_outer_S, (pw_skip w y o p p' d Hw). reflexivity. Qed.

Lemma cont_outer_skip f fr stk (w y : list N) o p p' d :
  ws_ok w = true -> cont_outer f fr stk (mkSt (w ++ y) o p d) = cont_outer f fr stk (mkSt y (o + length w) p' d).
Proof.
  intros Hw. unfold cont_outer. destruct (fr =? 123).
  - rewrite (pw_skip w y o p p' d Hw). reflexivity.
  - now apply ig_outer_skip.
Qed.

(* scalars *)
Lemma complete_scalar (c : cst) (b : N) (rc : list N) (scan : st -> res st) f stk w x o p d p' :
  cost c = 1%nat -> render c = b :: rc -> is_ws b = false -> ws_ok w = true ->
  (forall s1, dispatch f stk b s1 = scalar_k f stk (scan s1)) ->
  scan (mkSt (b :: rc ++ x) (o + length w) true d) = Ok (mkSt x (o + length w + length (render c)) p' d) ->
  ig_outer (cost c + f) E stk (mkSt (w ++ render c ++ x) o p d)
  = cont f stk (mkSt x (o + length w + length (render c)) p' d).
Proof.
  intros Hcost Hrc Hb Hw Hdisp Hr. rewrite Hcost. change (1 + f)%nat with (S f). rewrite ig_outer_S.
  rewrite Hrc at 1. lnorm. rewrite pw_complete by assumption. cbn [bind]. rewrite Hdisp.
  rewrite Hr. reflexivity.
Qed.

Lemma complete_all : (forall c, CompleteV c) /\ (forall es, CompleteE es) /\ (forall ms, CompleteM ms).
Proof.
  apply cst_elems_members_ind.
  - (* null *) intros _ f stk w x o p d Hw Hx. exists false.
    apply (complete_scalar CNull 110 lit_ull (fun s1 => parse_ident E lit_ull (discard s1))); try reflexivity; try assumption.
    unfold discard. cbn [rest off depth tl]. rewrite parse_ident_complete. unfold lit_ull. cbn [length render]. f_equal. f_equal. lia.
  - (* true *) intros _ f stk w x o p d Hw Hx. exists false.
    apply (complete_scalar CTrue 116 lit_rue (fun s1 => parse_ident E lit_rue (discard s1))); try reflexivity; try assumption.
    unfold discard. cbn [rest off depth tl]. rewrite parse_ident_complete. unfold lit_rue. cbn [length render]. f_equal. f_equal. lia.
  - (* false *) intros _ f stk w x o p d Hw Hx. exists false.
    apply (complete_scalar CFalse 102 lit_alse (fun s1 => parse_ident E lit_alse (discard s1))); try reflexivity; try assumption.
    unfold discard. cbn [rest off depth tl]. rewrite parse_ident_complete. unfold lit_alse. cbn [length render]. f_equal. f_equal. lia.
  - (* number *) intros [neg i fr ex] Hwf f stk w x o p d Hw Hx. cbn [wfb] in Hwf. rewrite num_ok_eq in Hwf.
    apply andb_prop in Hwf as [Hwf Hex]. apply andb_prop in Hwf as [Hi Hfr]. exists (nonempty x).
    destruct neg.
    + apply (complete_scalar _ 45 (i ++ frac_bytes fr ++ exp_bytes ex) (fun s1 => ignore_integer E (discard s1)));
        [reflexivity|cbn [render]; rewrite render_num_eq; reflexivity|reflexivity|assumption|reflexivity|].
      unfold discard. cbn [rest off depth tl]. lnorm. rewrite ignore_integer_complete by assumption.
      f_equal. f_equal. cbn [render]. rewrite render_num_eq. cbn [app length]. lia.
    + destruct (int_ok_head i Hi) as (b & r & Hir & Hb).
      apply (complete_scalar _ b (r ++ frac_bytes fr ++ exp_bytes ex) (fun s1 => ignore_integer E s1));
        [reflexivity|cbn [render]; rewrite render_num_eq, Hir; reflexivity|now apply digit_not_ws|assumption
        |intros s1; now apply dispatch_digit|].
      lnorm. change (b :: r ++ frac_bytes fr ++ exp_bytes ex ++ x) with ((b :: r) ++ frac_bytes fr ++ exp_bytes ex ++ x).
      rewrite <- Hir. rewrite ignore_integer_complete by assumption.
      f_equal; f_equal; cbn [render]; rewrite ?render_num_eq; cbn [app length]; lia.
  - (* string *) intros k Hk f stk w x o p d Hw Hx. cbn [wfb] in Hk. exists false.
    apply (complete_scalar _ 34 (flat_map render_piece k ++ [34]) (fun s1 => ignore_str E (discard s1)));
      try reflexivity; try assumption.
    unfold discard. cbn [rest off depth tl]. lnorm. rewrite ignore_str_complete by assumption.
    f_equal. f_equal. cbn [render]. unfold render_str. cbn [length]. rewrite app_length. cbn [length]. lia.
  - (* array *) intros w0 es IHes Hwf f stk w x o p d Hw Hx. cbn [wfb] in Hwf. apply andb_prop in Hwf as [Hw0 Hes].
    exists false. change (cost (CArr w0 es) + f)%nat with (S (S (cost_elems es + f))).
    rewrite ig_outer_S, render_arr. lnorm. rewrite pw_complete by (try assumption; reflexivity). cbn [bind].
    change (dispatch ?f0 stk 91 ?s1) with (ig_inner f0 E false 91 stk (discard s1)).
    unfold discard. cbn [rest off depth tl]. rewrite ig_inner_S.
    destruct es as [|w1 c w2 r].
    + rewrite pw_complete by (try assumption; reflexivity). cbn [bind].
      change (inner_body ?f0 false 91 stk 93 ?s1) with (cont f0 stk (discard s1)).
      unfold discard. cbn [rest off depth tl cost_elems Nat.add]. f_equal. f_equal.
      cbn [length]. rewrite app_length. cbn [length]. lia.
    + destruct (IHes Hes) as [_ IH2]. rewrite <- ig_inner_S. rewrite IH2 by discriminate.
      f_equal; f_equal; cbn [length]; rewrite ?app_length; cbn [length]; lia.
  - (* object *) intros w0 ms IHms Hwf f stk w x o p d Hw Hx. cbn [wfb] in Hwf. apply andb_prop in Hwf as [Hw0 Hms].
    exists false. change (cost (CObj w0 ms) + f)%nat with (S (S (cost_members ms + f))).
    rewrite ig_outer_S, render_obj. lnorm. rewrite pw_complete by (try assumption; reflexivity). cbn [bind].
    change (dispatch ?f0 stk 123 ?s1) with (ig_inner f0 E false 123 stk (discard s1)).
    unfold discard. cbn [rest off depth tl]. 
    destruct ms as [|w1 k w2 w3 c w4 r].
    + rewrite ig_inner_S. rewrite pw_complete by (try assumption; reflexivity). cbn [bind].
      change (inner_body ?f0 false 123 stk 125 ?s1) with (cont f0 stk (discard s1)).
      unfold discard. cbn [rest off depth tl cost_members Nat.add].
      f_equal; f_equal; cbn [length]; rewrite ?app_length; cbn [length]; lia.
    + destruct (IHms Hms) as [_ IH2]. rewrite IH2 by discriminate.
      f_equal; f_equal; cbn [length]; rewrite ?app_length; cbn [length]; lia.
  - (* no more elements *) intros _. split; [|congruence]. intros f stk w x o p d Hw. cbn [more_elems app cost_elems Nat.add].
    rewrite ig_inner_S. rewrite pw_complete by (try assumption; reflexivity). cbn [bind].
    change (inner_body ?f0 true 91 stk 93 ?s1) with (cont f0 stk (discard s1)).
    unfold discard. cbn [rest off depth tl]. f_equal; f_equal; cbn [length]; lia.
  - (* one more element *) intros w1 c IHc w2 r IHr Hwf. cbn [wfb_elems] in Hwf.
    apply andb_prop in Hwf as [Hwf Hr]. apply andb_prop in Hwf as [Hwf Hw2]. apply andb_prop in Hwf as [Hw1 Hc].
    destruct (IHr Hr) as [IHr1 _].
    assert (Hitem : forall f stk x o p d,
      ig_outer (cost_elems (ECons w1 c w2 r) + f) E (91 :: stk) (mkSt (w1 ++ render c ++ w2 ++ more_elems r ++ 93 :: x) o p d)
      = cont f stk (mkSt x (o + length (w1 ++ render c ++ w2 ++ more_elems r) + 1) false d)).
    { intros f stk x o p d. cbn [cost_elems]. rewrite <- Nat.add_assoc.
      change (S (cost_elems r) + f)%nat with (S (cost_elems r + f)).
      destruct (IHc Hc (S (cost_elems r + f)) (91 :: stk) w1 (w2 ++ more_elems r ++ 93 :: x) o p d Hw1 (follow_elems w2 r x Hw2)) as (p' & HIc).
      rewrite HIc. cbn [cont]. rewrite IHr1 by exact Hw2.
      f_equal; f_equal; rewrite ?app_length; lia. }
    split.
    + intros f stk w x o p d Hw. cbn [more_elems]. rewrite ig_inner_S. lnorm.
      rewrite pw_complete by (try assumption; reflexivity). cbn [bind].
      change (inner_body ?f0 true 91 stk 44 ?s1) with (ig_outer f0 E (91 :: stk) (discard s1)).
      unfold discard. cbn [rest off depth tl]. rewrite render_elems_cons. lnorm. rewrite Hitem.
      f_equal; f_equal; cbn [length]; rewrite ?app_length; cbn [length]; rewrite ?app_length; lia.
    + intros _ f stk x o p d. rewrite render_elems_cons. lnorm.
      destruct (render_head c Hc) as (b & rc & Hrc & Hb & Hb44 & Hb93 & Hb125).
      rewrite ig_inner_S. set (Y := w2 ++ more_elems r ++ 93 :: x). rewrite Hrc at 1. lnorm.
      rewrite pw_complete by assumption. cbn [bind]. rewrite inner_body_item by assumption.
      rewrite <- (cont_outer_skip _ 91 stk w1 (b :: rc ++ Y) o p true d Hw1).
      change (cont_outer ?f0 91 stk ?s) with (ig_outer f0 E (91 :: stk) s).
      change (b :: rc ++ Y) with ((b :: rc) ++ Y). rewrite <- Hrc. unfold Y. rewrite Hitem. reflexivity.
  - (* no more members *) intros _. split; [|congruence]. intros f stk w x o p d Hw. cbn [more_members app cost_members Nat.add].
    rewrite ig_inner_S. rewrite pw_complete by (try assumption; reflexivity). cbn [bind].
    change (inner_body ?f0 true 123 stk 125 ?s1) with (cont f0 stk (discard s1)).
    unfold discard. cbn [rest off depth tl]. f_equal; f_equal; cbn [length]; lia.
  - (* one more member *) intros w1 k w2 w3 c IHc w4 r IHr Hwf. cbn [wfb_members] in Hwf.
    apply andb_prop in Hwf as [Hwf Hr]. apply andb_prop in Hwf as [Hwf Hw4]. apply andb_prop in Hwf as [Hwf Hc].
    apply andb_prop in Hwf as [Hwf Hw3]. apply andb_prop in Hwf as [Hwf Hw2]. apply andb_prop in Hwf as [Hw1 Hk].
    destruct (IHr Hr) as [IHr1 _].
    assert (Hitem : forall f stk x o p d,
      cont_outer (cost_members (MCons w1 k w2 w3 c w4 r) + f) 123 stk
        (mkSt (w1 ++ 34 :: flat_map render_piece k ++ 34 :: w2 ++ 58 :: w3 ++ render c ++ w4 ++ more_members r ++ 125 :: x) o p d)
      = cont f stk (mkSt x (o + length (w1 ++ 34 :: flat_map render_piece k ++ 34 :: w2 ++ 58 :: w3 ++ render c ++ w4 ++ more_members r) + 1) false d)).
    { intros f stk x o p d. rewrite cont_outer_obj by assumption. cbn [cost_members]. rewrite <- Nat.add_assoc.
      change (S (cost_members r) + f)%nat with (S (cost_members r + f)).
      destruct (IHc Hc (S (cost_members r + f)) (123 :: stk) w3 (w4 ++ more_members r ++ 125 :: x)
                  (o + length w1 + 1 + length (flat_map render_piece k) + 1 + length w2 + 1)%nat false d Hw3 (follow_members w4 r x Hw4)) as (p' & HIc).
      rewrite HIc. cbn [cont]. rewrite IHr1 by exact Hw4.
      f_equal; f_equal; rewrite ?app_length; cbn [length]; rewrite ?app_length; cbn [length]; rewrite ?app_length; cbn [length]; rewrite ?app_length; lia. }
    split.
    + intros f stk w x o p d Hw. cbn [more_members]. rewrite ig_inner_S. lnorm.
      rewrite pw_complete by (try assumption; reflexivity). cbn [bind].
      change (inner_body ?f0 true 123 stk 44 ?s1) with (cont_outer f0 123 stk (discard s1)).
      unfold discard. cbn [rest off depth tl]. rewrite render_members_cons. unfold render_str. lnorm. rewrite Hitem.
      f_equal; f_equal; cbn [length]; rewrite ?app_length; cbn [length]; rewrite ?app_length; cbn [length]; rewrite ?app_length; cbn [length]; rewrite ?app_length; lia.
    + intros _ f stk x o p d. rewrite render_members_cons. unfold render_str. lnorm.
      rewrite ig_inner_S. rewrite pw_complete by (try assumption; reflexivity). cbn [bind].
      rewrite inner_body_item by reflexivity.
      rewrite <- (cont_outer_skip _ 123 stk w1 _ o p true d Hw1). rewrite Hitem. reflexivity.
Qed.

Lemma cost_bound :
  (forall c, wfb c = true -> (cost c + 1 <= 2 * length (render c))%nat) /\
  (forall es, wfb_elems es = true -> (cost_elems es <= 2 * length (render_elems es))%nat) /\
  (forall ms, wfb_members ms = true -> (cost_members ms <= 2 * length (render_members ms))%nat).
Proof.
  assert (Hscalar : forall c, cost c = 1%nat -> wfb c = true -> (cost c + 1 <= 2 * length (render c))%nat).
  { intros c Hc Hwf. destruct (render_head c Hwf) as (b & r & Hr & _). rewrite Hr, Hc. cbn [length]. lia. }
  apply cst_elems_members_ind.
  - apply Hscalar. reflexivity.
  - apply Hscalar. reflexivity.
  - apply Hscalar. reflexivity.
  - intros n. apply Hscalar. reflexivity.
  - intros k. apply Hscalar. reflexivity.
  - intros w es IH Hwf. cbn [wfb] in Hwf. apply andb_prop in Hwf as [_ Hes]. specialize (IH Hes).
    rewrite render_arr. cbn [cost length]. rewrite app_length. cbn [length].
    destruct es; [cbn [cost_elems]; lia|lia].
  - intros w ms IH Hwf. cbn [wfb] in Hwf. apply andb_prop in Hwf as [_ Hms]. specialize (IH Hms).
    rewrite render_obj. cbn [cost length]. rewrite app_length. cbn [length].
    destruct ms; [cbn [cost_members]; lia|lia].
  - intros _. cbn [cost_elems]. lia.
  - intros w1 c IHc w2 r IHr Hwf. cbn [wfb_elems] in Hwf.
    apply andb_prop in Hwf as [Hwf Hr]. apply andb_prop in Hwf as [Hwf _]. apply andb_prop in Hwf as [_ Hc].
    specialize (IHc Hc). specialize (IHr Hr). rewrite render_elems_cons, !app_length. cbn [cost_elems].
    destruct r; [cbn [cost_elems more_elems length] in *; lia|]. cbn [more_elems length]. lia.
  - intros _. cbn [cost_members]. lia.
  - intros w1 k w2 w3 c IHc w4 r IHr Hwf. cbn [wfb_members] in Hwf.
    apply andb_prop in Hwf as [Hwf Hr]. apply andb_prop in Hwf as [Hwf _]. apply andb_prop in Hwf as [_ Hc].
    specialize (IHc Hc). specialize (IHr Hr). rewrite render_members_cons, !app_length. cbn [cost_members length].
    rewrite !app_length.
    destruct r; [cbn [cost_members more_members length] in *; lia|]. cbn [more_members length]. lia.
Qed.

(* ------------------------------------------------------------------------------------------ *)
(** * 8. The theorems (for the fixed environment; restated in closed form after the section) *)

Lemma val_follow_ok (rst : list N) : val_follow rst -> follow_ok rst.
Proof.
  unfold val_follow, follow_ok. destruct rst as [|c r]; cbn [hd].
  - intros _. repeat split; discriminate.
  - tauto.
Qed.

Lemma ws_follow (w : list N) : ws_ok w = true -> val_follow w.
Proof.
  destruct w as [|a w]; [exact (fun _ => I)|]. unfold ws_ok. cbn [forallb val_follow]. intros H.
  apply andb_prop in H as [Ha _]. unfold ws_byte in Ha. unfold is_digit. repeat split; lia.
Qed.

Lemma ignore_value_complete_E (w : list N) (c : cst) (rst : list N) (o : nat) (p : bool) (d : N) :
  ws_ok w = true -> wfb c = true -> val_follow rst ->
  exists p', ignore_value E (mkSt (w ++ render c ++ rst) o p d)
           = Ok (mkSt rst (o + length w + length (render c)) p' d).
Proof.
  intros Hw Hc Hf. unfold ignore_value.
  set (fuel := ignore_fuel _).
  assert (Hfuel : (cost c <= fuel)%nat).
  { unfold fuel, ignore_fuel. cbn [rest]. rewrite !app_length. pose proof (proj1 cost_bound c Hc). lia. }
  replace fuel with (cost c + (fuel - cost c))%nat by lia.
  destruct (proj1 complete_all c Hc (fuel - cost c)%nat [] w rst o p d Hw (val_follow_ok rst Hf)) as (p' & Heq).
  exists p'. rewrite Heq. reflexivity.
Qed.

Lemma ignore_value_sound_E (s0 s1 : st) :
  Forall lt256 (rest s0) -> ignore_value E s0 = Ok s1 ->
  exists w c, rest s0 = w ++ render c ++ rest s1 /\ ws_ok w = true /\ wfb c = true
           /\ off s1 = (off s0 + length w + length (render c))%nat /\ depth s1 = depth s0.
Proof.
  intros F H. unfold ignore_value in H.
  destruct (proj1 (ig_sound (ignore_fuel s0)) [] s0 s1 F H) as (w & c & t & (H1 & H2 & H3) & Hw & Hc & Ht).
  cbn [Tail] in Ht. subst t. rewrite app_nil_r in H1, H2. exists w, c. rewrite app_length in H2.
  repeat split; try assumption; [now rewrite <- app_assoc in H1|lia].
Qed.

Lemma ignored_lang_E (bs : list N) : Forall lt256 bs ->
  (ignored_from_input E bs = Ok tt
   <-> exists w1 c w2, bs = w1 ++ render c ++ w2 /\ ws_ok w1 = true /\ ws_ok w2 = true /\ wfb c = true).
Proof.
  intros F. unfold ignored_from_input. split.
  - intros H. apply bind_ok in H as (s1 & Hig & H). apply bind_ok in H as (s2 & Hend & _).
    apply ignore_value_sound_E in Hig as (w1 & c & Hr & Hw1 & Hc & _); [|exact F]. unfold init_st in Hr. cbn [rest] in Hr.
    unfold de_end in Hend. apply bind_ok in Hend as ([o s3] & Hpw & Hend). apply pw_inv in Hpw as (w2 & (G1 & _) & Hw2 & Ho).
    destruct o as [b|]; [dis|]. rewrite Ho, app_nil_r in G1. exists w1, c, w2. rewrite <- G1 in Hw2 |- *. repeat split; assumption.
  - intros (w1 & c & w2 & -> & Hw1 & Hw2 & Hc).
    destruct (ignore_value_complete_E w1 c w2 0 false DEPTH0 Hw1 Hc (ws_follow w2 Hw2)) as (p' & Heq).
    unfold init_st. rewrite Heq. cbn [bind]. unfold de_end. rewrite pw_eof by exact Hw2. reflexivity.
Qed.

Lemma raw_value_span_E (s0 : st) (a b : nat) (s1 : st) :
  Forall lt256 (rest s0) -> raw_value E s0 = Ok (a, b, s1) ->
  exists w c, rest s0 = w ++ render c ++ rest s1 /\ ws_ok w = true /\ wfb c = true
           /\ a = (off s0 + length w)%nat /\ b = (a + length (render c))%nat /\ off s1 = b.
Proof.
  intros F H. unfold raw_value in H.
  apply bind_ok in H as ([o s0'] & Hpw & H). apply pw_inv in Hpw as (w & Hst & Hw & Ho).
  apply bind_ok in H as (s1' & Hig & H). injection H as <- <- <-.
  destruct (steps_lt256 _ _ _ Hst F) as [_ F'].
  apply ignore_value_sound_E in Hig as (w' & c & Hr & Hw' & Hc & Hoff & _); [|exact F'].
  assert (w' = []).
  { destruct w' as [|x w'']; [reflexivity|]. exfalso. unfold ws_ok in Hw'. cbn [forallb] in Hw'.
    apply andb_prop in Hw' as [Hx _]. rewrite <- is_ws_ws_byte in Hx. cbn [app] in Hr. destruct o as [b0|].
    - destruct Ho as (r & Hr0 & Hb0). rewrite Hr0 in Hr. injection Hr as -> _. congruence.
    - rewrite Ho in Hr. discriminate. }
  subst w'. cbn [app length] in Hr, Hoff. destruct Hst as (G1 & G2 & _).
  exists w, c. rewrite G1, Hr. repeat split; try assumption; lia.
Qed.

Lemma raw_value_complete_E (w : list N) (c : cst) (rst : list N) (o : nat) (p : bool) (d : N) :
  ws_ok w = true -> wfb c = true -> val_follow rst ->
  exists s1, raw_value E (mkSt (w ++ render c ++ rst) o p d)
             = Ok ((o + length w)%nat, (o + length w + length (render c))%nat, s1) /\ rest s1 = rst.
Proof.
  intros Hw Hc Hf.
  destruct (render_head c Hc) as (b & rc & Hrc & Hb & _).
  destruct (ignore_value_complete_E [] c rst (o + length w) true d eq_refl Hc Hf) as (p' & Heq).
  exists (mkSt rst (o + length w + length (@nil N) + length (render c)) p' d). split; [|reflexivity].
  unfold raw_value. rewrite Hrc at 1. lnorm. rewrite pw_complete by assumption. cbn [bind].
  change (b :: rc ++ rst) with ([] ++ (b :: rc) ++ rst). rewrite <- Hrc.
  rewrite Heq. cbn [bind off length]. rewrite Nat.add_0_r. reflexivity.
Qed.

End Ignore.

Theorem ignore_value_complete : forall cf w c rst off pk d,
  ws_ok w = true -> wfb c = true -> val_follow rst ->
  exists pk', ignore_value (mkEnv RSlice TEof cf) (mkSt (w ++ render c ++ rst) off pk d)
            = Ok (mkSt rst (off + length w + length (render c)) pk' d).
Proof. intros cf w c rst off pk d. apply ignore_value_complete_E. Qed.

Theorem ignore_value_sound : forall cf s0 s1,
  Forall (fun b => (b < 256)%N) (rest s0) ->
  ignore_value (mkEnv RSlice TEof cf) s0 = Ok s1 ->
  exists w c, rest s0 = w ++ render c ++ rest s1 /\ ws_ok w = true /\ wfb c = true
          /\ off s1 = (off s0 + length w + length (render c))%nat /\ depth s1 = depth s0.
Proof. intros cf s0 s1 F. apply ignore_value_sound_E. exact F. Qed.

(* top level: from_trait::<IgnoredAny> accepts exactly whitespace* value whitespace* *)
Theorem ignored_lang : forall cf bs, Forall (fun b => (b < 256)%N) bs ->
  (ignored_from_input (mkEnv RSlice TEof cf) bs = Ok tt
   <-> exists w1 c w2, bs = w1 ++ render c ++ w2 /\ ws_ok w1 = true /\ ws_ok w2 = true /\ wfb c = true).
Proof. intros cf bs F. apply ignored_lang_E. exact F. Qed.

(* RawValue: the captured span is exactly the text of one value *)
Theorem raw_value_span : forall cf s0 a b s1,
  Forall (fun x => (x < 256)%N) (rest s0) ->
  raw_value (mkEnv RSlice TEof cf) s0 = Ok (a, b, s1) ->
  exists w c, rest s0 = w ++ render c ++ rest s1 /\ ws_ok w = true /\ wfb c = true
          /\ a = (off s0 + length w)%nat /\ b = (a + length (render c))%nat /\ off s1 = b.
Proof. intros cf s0 a b s1 F. apply raw_value_span_E. exact F. Qed.

Theorem raw_value_complete : forall cf w c rst off pk d,
  ws_ok w = true -> wfb c = true -> val_follow rst ->
  exists s1, raw_value (mkEnv RSlice TEof cf) (mkSt (w ++ render c ++ rst) off pk d)
             = Ok ((off + length w)%nat, (off + length w + length (render c))%nat, s1) /\ rest s1 = rst.
Proof. intros cf w c rst off pk d. apply raw_value_complete_E. Qed.

(* the same, read off the input: the bytes input[a..b] of the captured span are the text of one value *)
Corollary raw_value_bytes : forall cf s0 a b s1,
  Forall (fun x => (x < 256)%N) (rest s0) ->
  raw_value (mkEnv RSlice TEof cf) s0 = Ok (a, b, s1) ->
  exists c, wfb c = true /\ firstn (b - a) (skipn (a - off s0) (rest s0)) = render c.
Proof.
  intros cf s0 a b s1 F H.
  destruct (raw_value_span cf s0 a b s1 F H) as (w & c & Hr & _ & Hc & Ha & Hb & _).
  exists c. split; [exact Hc|]. rewrite Hr.
  replace (a - off s0)%nat with (length w) by lia. replace (b - a)%nat with (length (render c)) by lia.
  rewrite skipn_app_len. apply firstn_app_len.
Qed.

Print Assumptions ignore_value_sound.
Print Assumptions ignore_value_complete.
Print Assumptions ignored_lang.
Print Assumptions raw_value_span.
Print Assumptions raw_value_complete.
Print Assumptions raw_value_bytes.
