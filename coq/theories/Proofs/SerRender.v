(* Proofs/SerRender.v — functional correctness of the text serialiser against the RFC 8259 printer:
   for a well-formed call tree the concatenated buffers are [render] of the concrete syntax tree [cst_of v]
   (CompactFormatter) resp. its [layout] (PrettyFormatter: the same token stream); the run fails exactly when a map
   key is not serialisable, with KeyMustBeAString / FloatKeyMustBeFinite. *)
From SJ Require Import Base.Bytes Base.Utf8 Gen.Tables Model.Read Model.Num Model.Sval Model.Ser
  Spec.Syntax Spec.Denote Spec.Layout Proofs.SerUtf8 Proofs.SerBase.
From Coq Require Import Lia ZifyBool ZifyN ZifyNat.
Open Scope N_scope.

(* ---- the concrete syntax tree a call tree is printed as ------------------------------------------ *)
Definition piece_of (b : N) : strpiece :=
  let e := nth (N.to_nat b) ESCAPE_TABLE 0 in
  if e =? 0 then PRaw b
  else if e =? 117 then PU4 48 48 (hex_lower (N.shiftr b 4)) (hex_lower (N.land b 15))
  else PEsc e.
Definition pieces_of (s : bytes) : list strpiece := map piece_of s.
Definition raw_pieces (s : bytes) : list strpiece := map PRaw s.

Definition cnum_text (t : bytes) : cst :=
  CNum (match numlit_of_text t with Some n => n | None => mkNum false t None None end).
Definition cint (z : Z) : cst := CNum (mkNum (z <? 0)%Z (itoa (Z.to_N (if (z <? 0)%Z then - z else z))) None None).

Fixpoint elems_of (l : list cst) : elems :=
  match l with [] => ENil | c :: r => ECons [] c [] (elems_of r) end.
Fixpoint members_of (l : list (list strpiece * cst)) : members :=
  match l with [] => MNil | (k, c) :: r => MCons [] k [] [] c [] (members_of r) end.
Definition variant_obj (name : bytes) (c : cst) : cst := CObj [] (members_of [(pieces_of name, c)]).

Section CstOf.
  Variable cf : cfg.
  Variable fmt32 fmt64 : N -> bytes.

  Fixpoint key_pieces (k : sval) : option (list strpiece) :=
    match k with
    | SStr s => Some (pieces_of s)
    | SUnitVariant n => Some (pieces_of n)
    | SChar c => Some (pieces_of (utf8_encode c))
    | SCollectStr cs => Some (pieces_of (concat cs))
    | SBool b => Some (raw_pieces (if b then lit_true else lit_false))
    | SInt _ z => Some (raw_pieces (itoa_z z))
    | SF32 b => if f32_finite_bits b then Some (raw_pieces (fmt32 b)) else None
    | SF64 b => if f64_finite_bits b then Some (raw_pieces (fmt64 b)) else None
    | SSome v => key_pieces v
    | SNewtypeStruct v => key_pieces v
    | _ => None
    end.

  Fixpoint cst_of (v : sval) : option cst :=
    match v with
    | SBool b => Some (if b then CTrue else CFalse)
    | SInt _ z => Some (cint z)
    | SF32 b => Some (if f32_finite_bits b then cnum_text (fmt32 b) else CNull)
    | SF64 b => Some (if f64_finite_bits b then cnum_text (fmt64 b) else CNull)
    | SChar c => Some (CStr (pieces_of (utf8_encode c)))
    | SStr s => Some (CStr (pieces_of s))
    | SBytes s => Some (CArr [] (elems_of (map (fun b => cint (Z.of_N b)) s)))
    | SNone | SUnit | SUnitStruct => Some CNull
    | SSome v => cst_of v
    | SUnitVariant n => Some (CStr (pieces_of n))
    | SNewtypeStruct v => cst_of v
    | SNewtypeVariant n v => option_map (variant_obj n) (cst_of v)
    | SSeq _ es => option_map (fun cs => CArr [] (elems_of cs)) (sequence (map cst_of es))
    | STuple es => option_map (fun cs => CArr [] (elems_of cs)) (sequence (map cst_of es))
    | STupleStruct es => option_map (fun cs => CArr [] (elems_of cs)) (sequence (map cst_of es))
    | STupleVariant n es => option_map (fun cs => variant_obj n (CArr [] (elems_of cs))) (sequence (map cst_of es))
    | SMap _ kvs =>
      option_map (fun ms => CObj [] (members_of ms))
                 (sequence (map (fun kv => pair_opt (key_pieces (fst kv)) (cst_of (snd kv))) kvs))
    | SStruct fs =>
      option_map (fun ms => CObj [] (members_of ms))
                 (sequence (map (fun kv => pair_opt (Some (pieces_of (fst kv))) (cst_of (snd kv))) fs))
    | SStructVariant n fs =>
      option_map (fun ms => variant_obj n (CObj [] (members_of ms)))
                 (sequence (map (fun kv => pair_opt (Some (pieces_of (fst kv))) (cst_of (snd kv))) fs))
    | SCollectStr cs => Some (CStr (pieces_of (concat cs)))
    | SNumLit l =>
      if arbitrary_precision cf then Some (cnum_text l)
      else Some (CObj [] (members_of [(pieces_of NUMBER_TOKEN, CStr (pieces_of l))]))
    end.
End CstOf.

(* ---- strings --------------------------------------------------------------------------------------- *)
Lemma render_raw_pieces s : flat_map render_piece (raw_pieces s) = s.
Proof. induction s as [|b r IH]; [reflexivity|]. cbn [raw_pieces map flat_map render_piece app]. unfold raw_pieces in IH. rewrite IH. reflexivity. Qed.

Lemma pieces_of_app a b : pieces_of (a ++ b) = pieces_of a ++ pieces_of b.
Proof. apply map_app. Qed.

Lemma char_escape_piece (b : N) : nth (N.to_nat b) ESCAPE_TABLE 0 <> 0 ->
  char_escape (nth (N.to_nat b) ESCAPE_TABLE 0) b = Some (render_piece (piece_of b)).
Proof.
  intros He. pose proof (escape_nonzero_lt b He) as Hb.
  assert (H := all_bytes (fun b => (nth (N.to_nat b) ESCAPE_TABLE 0 =? 0) ||
     match char_escape (nth (N.to_nat b) ESCAPE_TABLE 0) b with
     | Some out => beq_bytes out (render_piece (piece_of b))
     | None => false end)).
  specialize (H eq_refl b Hb). cbn beta in H.
  apply orb_true_iff in H as [H|H]; [apply N.eqb_eq in H; contradiction|].
  destruct (char_escape (nth (N.to_nat b) ESCAPE_TABLE 0) b) as [out|]; [|discriminate H].
  f_equal. revert H. generalize (render_piece (piece_of b)). induction out as [|x r IH]; intros [|y t] H; try discriminate H; [reflexivity|].
  cbn [beq_bytes] in H. apply andb_true_iff in H as [H1 H2]. apply N.eqb_eq in H1. subst y. f_equal. apply IH, H2.
Qed.

Lemma concat_flush frag : concat (flush_frag frag) = rev frag.
Proof. destruct frag; [reflexivity|]. cbn [flush_frag concat]. apply app_nil_r. Qed.

Lemma esc_loop_render (l : bytes) : forall frag, exists o,
  esc_loop l frag = (o, Ok tt) /\ concat o = rev frag ++ flat_map render_piece (pieces_of l).
Proof.
  induction l as [|b r IH]; intros frag; cbn [esc_loop].
  - exists (flush_frag frag). split; [reflexivity|]. rewrite concat_flush. cbn. rewrite app_nil_r. reflexivity.
  - cbn [pieces_of map flat_map]. unfold piece_of at 1.
    destruct (nth (N.to_nat b) ESCAPE_TABLE 0 =? 0) eqn:E.
    + destruct (IH (b :: frag)) as [o [H1 H2]]. exists o. split; [exact H1|]. rewrite H2. cbn [rev render_piece].
      rewrite <- app_assoc. reflexivity.
    + assert (He : nth (N.to_nat b) ESCAPE_TABLE 0 <> 0) by (apply N.eqb_neq, E).
      rewrite (char_escape_piece b He). destruct (IH []) as [o [H1 H2]].
      exists ((flush_frag frag ++ [render_piece (piece_of b)]) ++ o). split.
      * erewrite tbind_ok; [reflexivity | reflexivity | exact H1].
      * rewrite concat_app, concat_app, concat_flush, H2. cbn [concat rev app]. rewrite app_nil_r.
        unfold piece_of at 1. rewrite E. rewrite <- app_assoc. reflexivity.
Qed.

Lemma contents_render s : exists o, format_escaped_str_contents s = (o, Ok tt) /\ concat o = flat_map render_piece (pieces_of s).
Proof. destruct (esc_loop_render s []) as [o [H1 H2]]. exists o. auto. Qed.

Lemma str_render s : exists o, format_escaped_str s = (o, Ok tt) /\ concat o = render_str (pieces_of s).
Proof.
  destruct (contents_render s) as [o [H1 H2]]. exists ([[34]] ++ o ++ [[34]]). split.
  - unfold format_escaped_str, begin_string, end_string, twrite.
    erewrite tbind_ok; [reflexivity | reflexivity |]. erewrite tbind_ok; [reflexivity | exact H1 | reflexivity].
  - rewrite concat_app, concat_app, H2. reflexivity.
Qed.

Lemma collect_chunks_render cs : exists o, collect_chunks cs = (o, Ok tt) /\ concat o = flat_map render_piece (pieces_of (concat cs)).
Proof.
  induction cs as [|c r [o [H1 H2]]]; cbn [collect_chunks concat].
  - exists []. auto.
  - destruct (contents_render c) as [oc [Hc1 Hc2]]. exists (oc ++ o). split.
    + erewrite tbind_ok; [reflexivity | exact Hc1 | exact H1].
    + rewrite concat_app, Hc2, H2, pieces_of_app, flat_map_app. reflexivity.
Qed.

Lemma collect_render cs : exists o, collect_str cs = (o, Ok tt) /\ concat o = render_str (pieces_of (concat cs)).
Proof.
  destruct (collect_chunks_render cs) as [o [H1 H2]]. exists ([[34]] ++ o ++ [[34]]). split.
  - unfold collect_str, begin_string, end_string, twrite.
    erewrite tbind_ok; [reflexivity | reflexivity |]. erewrite tbind_ok; [reflexivity | exact H1 | reflexivity].
  - rewrite concat_app, concat_app, H2. reflexivity.
Qed.

Lemma quoted_render t : exists o, quoted (twrite t) = (o, Ok tt) /\ concat o = render_str (raw_pieces t).
Proof.
  exists [[34]; t; [34]]. split; [reflexivity|]. cbn [concat]. unfold render_str. rewrite render_raw_pieces, app_nil_r. reflexivity.
Qed.

(* ---- numbers ----------------------------------------------------------------------------------------- *)
Lemma render_cint z : render (cint z) = itoa_z z.
Proof.
  unfold cint, itoa_z. cbn [render]. unfold render_num. cbn [nneg nint nfrac nexp]. rewrite !app_nil_r.
  destruct (z <? 0)%Z; reflexivity.
Qed.

Lemma render_cnum_text t : render (cnum_text t) = t.
Proof.
  unfold cnum_text. cbn [render]. destruct (numlit_of_text t) as [n|] eqn:E.
  - apply numlit_of_text_render, E.
  - unfold render_num. cbn [nneg nint nfrac nexp]. rewrite !app_nil_r. reflexivity.
Qed.

(* ---- successful and failing runs of a trace computation ------------------------------------------------ *)
Definition Run {A} (m : tr A) (out : bytes) (a : A) : Prop := exists o, m = (o, Ok a) /\ concat o = out.
Definition keyerr (e : ecode) : Prop := e = KeyMustBeAString \/ e = FloatKeyMustBeFinite.
Definition Fails {A} (m : tr A) : Prop := exists o e, m = (o, Err e O) /\ keyerr e.

Lemma tbind_tret_l {A B} (a : A) (k : A -> tr B) : tbind (tret a) k = k a.
Proof. unfold tret, tbind. destruct (k a). reflexivity. Qed.

Lemma Run_ret {A} (a : A) : Run (tret a) [] a.
Proof. exists []. auto. Qed.
Lemma Run_bind {A B} (m : tr A) (k : A -> tr B) out1 a out2 b :
  Run m out1 a -> Run (k a) out2 b -> Run (tbind m k) (out1 ++ out2) b.
Proof.
  intros [o1 [E1 C1]] [o2 [E2 C2]]. exists (o1 ++ o2). split; [apply (tbind_ok _ _ _ _ _ _ E1 E2)|].
  rewrite concat_app, C1, C2. reflexivity.
Qed.
Lemma Run_lift {S} (p : list bytes * S) : Run (lift p) (concat (fst p)) (snd p).
Proof. exists (fst p). auto. Qed.
Lemma Run_lift_eq {S} (p : list bytes * S) out s : snd p = s -> concat (fst p) = out -> Run (lift p) out s.
Proof. intros <- <-. apply Run_lift. Qed.
Lemma Run_write b : Run (twrite b) b tt.
Proof. exists [b]. split; [reflexivity|]. cbn. apply app_nil_r. Qed.
Lemma Run_eq {A} (m : tr A) out out' a : Run m out a -> out = out' -> Run m out' a.
Proof. intros H <-. exact H. Qed.
Lemma Run_ex {A} (m : tr A) o out a : m = (o, Ok a) -> concat o = out -> Run m out a.
Proof. intros. exists o. auto. Qed.

Lemma Fails_bind {A B} (m : tr A) (k : A -> tr B) : Fails m -> Fails (tbind m k).
Proof. intros [o [e [E K]]]. exists o, e. split; [apply (tbind_err _ _ _ _ _ E) | exact K]. Qed.
Lemma Fails_bind_r {A B} (m : tr A) (k : A -> tr B) out a : Run m out a -> Fails (k a) -> Fails (tbind m k).
Proof.
  intros [o1 [E1 _]] [o2 [e [E2 K]]]. exists (o1 ++ o2), e. split; [apply (tbind_ok _ _ _ _ _ _ E1 E2) | exact K].
Qed.
Lemma Fails_tfail {A} e : keyerr e -> Fails (@tfail A e).
Proof. intros K. exists [], e. auto. Qed.

Lemma Run_not_Fails {A} (m : tr A) out a : Run m out a -> Fails m -> False.
Proof. intros [o [E _]] [o' [e [E' _]]]. rewrite E in E'. discriminate. Qed.

(* ---- printing, parametrised by the formatter -------------------------------------------------------------- *)
Definition inner (F : formatter) (d : nat) : nat := match F with Compact => d | Pretty _ => S d end.
Definition sep (F : formatter) (d : nat) (first : bool) : bytes :=
  match F with
  | Compact => if first then [] else [44]
  | Pretty ind => (if first then [10] else [44; 10]) ++ rep ind d
  end.
Definition colon (F : formatter) : bytes := match F with Compact => [58] | Pretty _ => [58; 32] end.
Definition end_text (F : formatter) (d : nat) (nonempty : bool) : bytes :=
  match F with Compact => [] | Pretty ind => if nonempty then nl ind d else [] end.
Definition print (F : formatter) (d : nat) (c : cst) : bytes :=
  match F with Compact => render c | Pretty ind => layout ind d c end.
Fixpoint print_items (F : formatter) (d : nat) (first : bool) (cs : list cst) : bytes :=
  match cs with [] => [] | c :: r => sep F d first ++ print F d c ++ print_items F d false r end.
Fixpoint print_members (F : formatter) (d : nat) (first : bool) (ms : list (list strpiece * cst)) : bytes :=
  match ms with
  | [] => []
  | (k, c) :: r => sep F d first ++ render_str k ++ colon F ++ print F d c ++ print_members F d false r
  end.

Lemma sep_false F d : sep F d false = 44 :: sep F d true.
Proof. destruct F; reflexivity. Qed.

Lemma print_items_false F d c r : print_items F d false (c :: r) = 44 :: print_items F d true (c :: r).
Proof. cbn [print_items]. rewrite sep_false. reflexivity. Qed.
Lemma print_members_false F d m r : print_members F d false (m :: r) = 44 :: print_members F d true (m :: r).
Proof. destruct m as [k c]. cbn [print_members]. rewrite sep_false. reflexivity. Qed.

Lemma render_elems_cons' c es :
  render_elems (ECons [] c [] es) = render c ++ match es with ENil => [] | _ => 44 :: render_elems es end.
Proof. destruct es; cbn [render_elems app]; rewrite ?app_nil_r; reflexivity. Qed.
Lemma layout_elems_cons' ind d c es :
  layout_elems ind d (ECons [] c [] es) = nl ind d ++ layout ind d c ++ match es with ENil => [] | _ => 44 :: layout_elems ind d es end.
Proof. destruct es; cbn [layout_elems app]; rewrite ?app_nil_r; reflexivity. Qed.
Lemma render_members_cons' k c ms :
  render_members (MCons [] k [] [] c [] ms) = render_str k ++ 58 :: render c ++ match ms with MNil => [] | _ => 44 :: render_members ms end.
Proof. destruct ms; cbn [render_members app]; rewrite ?app_nil_r; reflexivity. Qed.
Lemma layout_members_cons' ind d k c ms :
  layout_members ind d (MCons [] k [] [] c [] ms)
  = nl ind d ++ render_str k ++ [58; 32] ++ layout ind d c ++ match ms with MNil => [] | _ => 44 :: layout_members ind d ms end.
Proof. destruct ms; cbn [layout_members app]; rewrite ?app_nil_r; reflexivity. Qed.

Lemma render_elems_items d c r : render_elems (elems_of (c :: r)) = print_items Compact d true (c :: r).
Proof.
  revert c. induction r as [|c' r IH]; intros c.
  - cbn. rewrite !app_nil_r. reflexivity.
  - change (elems_of (c :: c' :: r)) with (ECons [] c [] (elems_of (c' :: r))).
    rewrite render_elems_cons', IH. cbn [elems_of print_items sep print app]. reflexivity.
Qed.

Lemma layout_elems_items ind d c r : layout_elems ind d (elems_of (c :: r)) = print_items (Pretty ind) d true (c :: r).
Proof.
  revert c. induction r as [|c' r IH]; intros c.
  - cbn. rewrite !app_nil_r. reflexivity.
  - change (elems_of (c :: c' :: r)) with (ECons [] c [] (elems_of (c' :: r))).
    rewrite layout_elems_cons', IH. cbn [elems_of print_items sep print app nl]. rewrite <- ?app_assoc. reflexivity.
Qed.

Lemma render_members_items d m r : render_members (members_of (m :: r)) = print_members Compact d true (m :: r).
Proof.
  revert m. induction r as [|m' r IH]; intros [k c].
  - cbn. rewrite !app_nil_r. reflexivity.
  - change (members_of ((k, c) :: m' :: r)) with (MCons [] k [] [] c [] (members_of (m' :: r))).
    rewrite render_members_cons', IH. destruct m' as [k' c']. cbn [members_of print_members sep print app colon]. reflexivity.
Qed.

Lemma layout_members_items ind d m r : layout_members ind d (members_of (m :: r)) = print_members (Pretty ind) d true (m :: r).
Proof.
  revert m. induction r as [|m' r IH]; intros [k c].
  - cbn. rewrite !app_nil_r. reflexivity.
  - change (members_of ((k, c) :: m' :: r)) with (MCons [] k [] [] c [] (members_of (m' :: r))).
    rewrite layout_members_cons', IH. destruct m' as [k' c']. cbn [members_of print_members sep print app colon nl]. rewrite <- ?app_assoc. reflexivity.
Qed.

Lemma print_arr F d cs : print F d (CArr [] (elems_of cs)) =
  match cs with [] => [91; 93] | _ => 91 :: print_items F (inner F d) true cs ++ end_text F d true ++ [93] end.
Proof.
  destruct cs as [|c r]; [destruct F; reflexivity|]. destruct F as [|ind]; cbn [print inner end_text].
  - rewrite <- (render_elems_items d c r). reflexivity.
  - rewrite <- (layout_elems_items ind (S d) c r). reflexivity.
Qed.

Lemma print_obj F d ms : print F d (CObj [] (members_of ms)) =
  match ms with [] => [123; 125] | _ => 123 :: print_members F (inner F d) true ms ++ end_text F d true ++ [125] end.
Proof.
  destruct ms as [|m r]; [destruct F; reflexivity|]. destruct F as [|ind]; cbn [print inner end_text].
  - rewrite <- (render_members_items d m r). destruct m. reflexivity.
  - rewrite <- (layout_members_items ind (S d) m r). destruct m. reflexivity.
Qed.

Lemma print_scalar F d c : (match c with CArr _ _ | CObj _ _ => False | _ => True end) -> print F d c = render c.
Proof. destruct F; [reflexivity|]. destruct c; cbn [print layout]; intros H; try reflexivity; contradiction. Qed.

(* ---- the formatter methods ------------------------------------------------------------------------------------ *)
Section Fmt.
  Variable F : formatter.

  Lemma begin_array_out st : concat (fst (begin_array F st)) = [91].
  Proof. destruct F; reflexivity. Qed.
  Lemma begin_array_cur st : cur (snd (begin_array F st)) = inner F (cur st).
  Proof. destruct F; reflexivity. Qed.
  Lemma begin_array_hasv st d : end_text F d (hasv (snd (begin_array F st))) = [].
  Proof. destruct F; reflexivity. Qed.
  Lemma begin_object_out st : concat (fst (begin_object F st)) = [123].
  Proof. destruct F; reflexivity. Qed.
  Lemma begin_object_cur st : cur (snd (begin_object F st)) = inner F (cur st).
  Proof. destruct F; reflexivity. Qed.
  Lemma begin_object_hasv st d : end_text F d (hasv (snd (begin_object F st))) = [].
  Proof. destruct F; reflexivity. Qed.

  Lemma concat_repeat_rep ind n : concat (indent_bufs n ind) = rep ind n.
  Proof. reflexivity. Qed.

  Lemma end_array_out st d : cur st = inner F d -> concat (fst (end_array F st)) = end_text F d (hasv st) ++ [93].
  Proof.
    destruct F as [|ind]; cbn [inner end_array end_text fst]; intros H; [reflexivity|]. rewrite H. cbn [pred].
    rewrite concat_app. destruct (hasv st); reflexivity.
  Qed.
  Lemma end_array_cur st d : cur st = inner F d -> cur (snd (end_array F st)) = d.
  Proof. destruct F; cbn [inner end_array snd cur]; intros H; rewrite H; reflexivity. Qed.
  Lemma end_object_out st d : cur st = inner F d -> concat (fst (end_object F st)) = end_text F d (hasv st) ++ [125].
  Proof.
    destruct F as [|ind]; cbn [inner end_object end_text fst]; intros H; [reflexivity|]. rewrite H. cbn [pred].
    rewrite concat_app. destruct (hasv st); reflexivity.
  Qed.
  Lemma end_object_cur st d : cur st = inner F d -> cur (snd (end_object F st)) = d.
  Proof. destruct F; cbn [inner end_object snd cur]; intros H; rewrite H; reflexivity. Qed.

  Lemma begin_array_value_out first st : concat (fst (begin_array_value F first st)) = sep F (cur st) first.
  Proof. destruct F; cbn [begin_array_value fst sep]; [destruct first; reflexivity|]. destruct first; reflexivity. Qed.
  Lemma begin_array_value_st first st : snd (begin_array_value F first st) = st.
  Proof. destruct F; reflexivity. Qed.
  Lemma begin_object_key_out first st : concat (fst (begin_object_key F first st)) = sep F (cur st) first.
  Proof. exact (begin_array_value_out first st). Qed.
  Lemma begin_object_key_st first st : snd (begin_object_key F first st) = st.
  Proof. destruct F; reflexivity. Qed.
  Lemma end_array_value_out st : concat (fst (end_array_value F st)) = [].
  Proof. destruct F; reflexivity. Qed.
  Lemma end_array_value_cur st : cur (snd (end_array_value F st)) = cur st.
  Proof. destruct F; reflexivity. Qed.
  Lemma end_array_value_hasv st d : end_text F d (hasv (snd (end_array_value F st))) = end_text F d true.
  Proof. destruct F; reflexivity. Qed.
  Lemma end_object_value_out st : concat (fst (end_object_value F st)) = [].
  Proof. destruct F; reflexivity. Qed.
  Lemma end_object_value_cur st : cur (snd (end_object_value F st)) = cur st.
  Proof. destruct F; reflexivity. Qed.
  Lemma end_object_value_hasv st d : end_text F d (hasv (snd (end_object_value F st))) = end_text F d true.
  Proof. destruct F; reflexivity. Qed.
  Lemma begin_object_value_out st : concat (fst (begin_object_value F st)) = colon F.
  Proof. destruct F; reflexivity. Qed.
  Lemma begin_object_value_st st : snd (begin_object_value F st) = st.
  Proof. destruct F; reflexivity. Qed.
End Fmt.

(* ---- the serialiser prints [cst_of v] ------------------------------------------------------------------------ *)
Section Main.
  Variable cf : cfg.
  Variable fmt32 fmt64 : N -> bytes.
  Variable F : formatter.
  Notation ser := (ser cf fmt32 fmt64 F).
  Notation cst_of := (cst_of cf fmt32 fmt64).
  Notation key_pieces := (key_pieces fmt32 fmt64).
  Notation key_ser := (key_ser fmt32 fmt64).

  Definition P (v : sval) : Prop := wfs v = true -> forall st,
    match cst_of v with
    | Some c => exists st', Run (ser v st) (print F (cur st) c) st' /\ cur st' = cur st
    | None => Fails (ser v st)
    end.

  Definition is_scalar_cst (c : cst) : Prop := match c with CArr _ _ | CObj _ _ => False | _ => True end.

  Lemma scalar_run (m : tr unit) out st c : Run m out tt -> out = render c -> is_scalar_cst c ->
    exists st', Run (tbind m (fun _ => tret st)) (print F (cur st) c) st' /\ cur st' = cur st.
  Proof.
    intros Hm -> Hc. exists st. split; [|reflexivity]. rewrite (print_scalar F _ c Hc).
    eapply Run_eq; [eapply Run_bind; [exact Hm | apply Run_ret]|]. apply app_nil_r.
  Qed.

  Lemma Run_str s : Run (format_escaped_str s) (render_str (pieces_of s)) tt.
  Proof. destruct (str_render s) as [o [H1 H2]]. exists o. auto. Qed.
  Lemma Run_collect cs : Run (collect_str cs) (render_str (pieces_of (concat cs))) tt.
  Proof. destruct (collect_render cs) as [o [H1 H2]]. exists o. auto. Qed.
  Lemma Run_quoted t : Run (quoted (twrite t)) (render_str (raw_pieces t)) tt.
  Proof. destruct (quoted_render t) as [o [H1 H2]]. exists o. auto. Qed.

  Lemma key_run : forall k,
    match key_pieces k with
    | Some p => Run (key_ser k) (render_str p) tt
    | None => Fails (key_ser k)
    end.
  Proof.
    induction k using sval_ind'; cbn [key_pieces key_ser]; try (apply Fails_tfail; left; reflexivity).
    - apply Run_quoted.
    - apply Run_quoted.
    - destruct (f32_finite_bits b); [apply Run_quoted | apply Fails_tfail; right; reflexivity].
    - destruct (f64_finite_bits b); [apply Run_quoted | apply Fails_tfail; right; reflexivity].
    - apply Run_str.
    - apply Run_str.
    - exact IHk.
    - apply Run_str.
    - exact IHk.
    - apply Run_collect.
  Qed.

  (* bytes: write_byte_array *)
  Lemma byte_loop_run (l : bytes) : forall first st, exists st',
    Run (byte_array_loop F l first st) (print_items F (cur st) first (map (fun b => cint (Z.of_N b)) l)) st'
    /\ cur st' = cur st /\ (match l with [] => st' = st | _ => forall d, end_text F d (hasv st') = end_text F d true end).
  Proof.
    induction l as [|b r IH]; intros first st; cbn [byte_array_loop map print_items].
    - exists st. split; [apply Run_ret | auto].
    - set (st1 := snd (begin_array_value F first st)).
      assert (E1 : st1 = st) by apply begin_array_value_st.
      set (st2 := snd (end_array_value F st1)).
      destruct (IH false st2) as [st' [HR [Hc Hh]]].
      assert (Ec : cur st2 = cur st) by (unfold st2; rewrite end_array_value_cur, E1; reflexivity).
      exists st'. split; [|split; [rewrite Hc; exact Ec|]].
      + eapply Run_eq.
        * eapply Run_bind; [apply Run_lift|]. eapply Run_bind; [apply Run_write|].
          eapply Run_bind; [apply Run_lift|]. exact HR.
        * rewrite begin_array_value_out. fold st1. rewrite end_array_value_out, Ec.
          rewrite (print_scalar F _ (cint (Z.of_N b)) I), render_cint. reflexivity.
      + intros d. destruct r as [|b' r'].
        * rewrite Hh. unfold st2. apply end_array_value_hasv.
        * apply Hh.
  Qed.

  Lemma open_first_run_seq h st : is_some0 h = false -> Run (open_seq F h st) [91] (First, snd (begin_array F st)).
  Proof.
    intros H. unfold open_seq. rewrite H. eapply Run_eq; [eapply Run_bind; [apply Run_lift | apply Run_ret]|].
    rewrite begin_array_out. reflexivity.
  Qed.
  Lemma open_empty_run_seq st : exists st2, Run (open_seq F (Some O) st) [91; 93] (Empty, st2) /\ cur st2 = cur st.
  Proof.
    set (st1 := snd (begin_array F st)).
    assert (Hc : cur st1 = inner F (cur st)) by apply begin_array_cur.
    exists (snd (end_array F st1)). split; [|apply end_array_cur, Hc].
    unfold open_seq. cbn [is_some0]. eapply Run_eq.
    - eapply Run_bind; [apply Run_lift|]. eapply Run_bind; [apply Run_lift | apply Run_ret].
    - rewrite begin_array_out. fold st1. rewrite (end_array_out F st1 _ Hc). unfold st1. rewrite begin_array_hasv. reflexivity.
  Qed.
  Lemma open_first_run_map h st : is_some0 h = false -> Run (open_map F h st) [123] (First, snd (begin_object F st)).
  Proof.
    intros H. unfold open_map. rewrite H. eapply Run_eq; [eapply Run_bind; [apply Run_lift | apply Run_ret]|].
    rewrite begin_object_out. reflexivity.
  Qed.
  Lemma open_empty_run_map st : exists st2, Run (open_map F (Some O) st) [123; 125] (Empty, st2) /\ cur st2 = cur st.
  Proof.
    set (st1 := snd (begin_object F st)).
    assert (Hc : cur st1 = inner F (cur st)) by apply begin_object_cur.
    exists (snd (end_object F st1)). split; [|apply end_object_cur, Hc].
    unfold open_map. cbn [is_some0]. eapply Run_eq.
    - eapply Run_bind; [apply Run_lift|]. eapply Run_bind; [apply Run_lift | apply Run_ret].
    - rewrite begin_object_out. fold st1. rewrite (end_object_out F st1 _ Hc). unfold st1. rewrite begin_object_hasv. reflexivity.
  Qed.

  Lemma is_some0_exact h n : hint_ok h (S n) = true -> is_some0 h = false.
  Proof. destruct h as [[|k]|]; cbn [hint_ok is_some0 Nat.eqb]; auto; discriminate. Qed.

  Lemma bytes_run s st : exists st',
    Run (write_byte_array F s st) (print F (cur st) (CArr [] (elems_of (map (fun b => cint (Z.of_N b)) s)))) st' /\ cur st' = cur st.
  Proof.
    set (st1 := snd (begin_array F st)).
    assert (Hc1 : cur st1 = inner F (cur st)) by apply begin_array_cur.
    destruct (byte_loop_run s true st1) as [st2 [HR [Hc Hh]]].
    assert (Hc2 : cur st2 = inner F (cur st)) by (rewrite Hc; exact Hc1).
    exists (snd (end_array F st2)). split; [|apply end_array_cur, Hc2].
    unfold write_byte_array. eapply Run_eq.
    - eapply Run_bind; [apply Run_lift|]. eapply Run_bind; [exact HR | apply Run_lift].
    - rewrite begin_array_out. fold st1. rewrite (end_array_out F st2 _ Hc2), print_arr, Hc1.
      destruct s as [|b r].
      + subst st2. unfold st1. rewrite begin_array_hasv. reflexivity.
      + rewrite Hh. cbn [map]. cbn [app]. reflexivity.
  Qed.

  (* SerializeSeq::serialize_element loop *)
  Lemma elems_run es : Forall P es -> forallb wfs es = true -> forall cs0 st,
    match sequence (map cst_of es) with
    | Some cs => exists st',
        Run (ser_elems F ser es cs0 st) (print_items F (cur st) (is_first cs0) cs) (match es with [] => cs0 | _ => Rest end, st')
        /\ cur st' = cur st
        /\ (match es with [] => st' = st | _ => forall d, end_text F d (hasv st') = end_text F d true end)
    | None => Fails (ser_elems F ser es cs0 st)
    end.
  Proof.
    induction 1 as [|e r He _ IH]; intros W cs0 st; cbn [map sequence ser_elems].
    - exists st. split; [apply Run_ret | auto].
    - cbn [forallb] in W. apply andb_true_iff in W as [We Wr].
      set (st1 := snd (begin_array_value F (is_first cs0) st)).
      assert (E1 : st1 = st) by apply begin_array_value_st.
      specialize (He We st1). destruct (cst_of e) as [c|].
      + destruct He as [st2 [HRe Hce]].
        set (st3 := snd (end_array_value F st2)).
        assert (Ec3 : cur st3 = cur st) by (unfold st3; rewrite end_array_value_cur, Hce, E1; reflexivity).
        specialize (IH Wr Rest st3). destruct (sequence (map cst_of r)) as [cs|]; cbn [option_map].
        * destruct IH as [st' [HR [Hc Hh]]]. exists st'. split; [|split; [rewrite Hc; exact Ec3|]].
          -- eapply Run_eq.
             ++ eapply Run_bind; [apply Run_lift|]. eapply Run_bind; [exact HRe|].
                eapply Run_bind; [apply Run_lift|]. assert (Er : (match r with [] => Rest | _ => Rest end) = Rest) by (destruct r; reflexivity).
                rewrite Er in HR. exact HR.
             ++ rewrite begin_array_value_out. fold st1. rewrite end_array_value_out, Ec3, E1. cbn [print_items is_first app]. reflexivity.
          -- intros d. destruct r as [|e' r'].
             ++ rewrite Hh. unfold st3. apply end_array_value_hasv.
             ++ apply Hh.
        * eapply Fails_bind_r; [apply Run_lift|]. eapply Fails_bind_r; [exact HRe|].
          eapply Fails_bind_r; [apply Run_lift|]. exact IH.
      + eapply Fails_bind_r; [apply Run_lift|]. apply Fails_bind. exact He.
  Qed.

  Definition seq_body (h : option nat) (es : list sval) (st : fstate) : tr fstate :=
    tbind (open_seq F h st) (fun p => let '(cs, st1) := p in
    tbind (ser_elems F ser es cs st1) (fun q => let '(cs2, st2) := q in close_seq F cs2 st2)).

  Lemma seq_run h es : hint_ok h (length es) = true -> Forall P es -> forallb wfs es = true -> forall st,
    match sequence (map cst_of es) with
    | Some cs => exists st', Run (seq_body h es st) (print F (cur st) (CArr [] (elems_of cs))) st' /\ cur st' = cur st
    | None => Fails (seq_body h es st)
    end.
  Proof.
    intros Hh HP W st. unfold seq_body. destruct es as [|e r].
    - cbn [map sequence]. rewrite print_arr.
      assert (Hcase : h = None \/ h = Some O) by (destruct h as [[|k]|]; cbn in Hh; auto; discriminate).
      destruct Hcase as [-> | ->].
      + set (st1 := snd (begin_array F st)).
        assert (Hc : cur st1 = inner F (cur st)) by apply begin_array_cur.
        exists (snd (end_array F st1)). split; [|apply end_array_cur, Hc].
        eapply Run_eq.
        * eapply Run_bind; [apply open_first_run_seq; reflexivity|]. cbn [ser_elems].
          eapply Run_bind; [apply Run_ret|]. cbn [close_seq]. apply Run_lift.
        * fold st1. rewrite (end_array_out F st1 _ Hc). unfold st1. rewrite begin_array_hasv. reflexivity.
      + destruct (open_empty_run_seq st) as [st2 [HR Hc]]. exists st2. split; [|exact Hc].
        eapply Run_eq.
        * eapply Run_bind; [exact HR|]. cbn [ser_elems]. eapply Run_bind; [apply Run_ret|]. cbn [close_seq]. apply Run_ret.
        * reflexivity.
    - cbn [length] in Hh. pose proof (is_some0_exact _ _ Hh) as H0.
      set (st1 := snd (begin_array F st)).
      assert (Hc1 : cur st1 = inner F (cur st)) by apply begin_array_cur.
      pose proof (elems_run (e :: r) HP W First st1) as HE.
      destruct (sequence (map cst_of (e :: r))) as [cs|] eqn:Es.
      + destruct HE as [st2 [HR [Hc Hhv]]].
        assert (Hc2 : cur st2 = inner F (cur st)) by (rewrite Hc; exact Hc1).
        exists (snd (end_array F st2)). split; [|apply end_array_cur, Hc2].
        eapply Run_eq.
        * eapply Run_bind; [apply open_first_run_seq, H0|]. fold st1.
          eapply Run_bind; [exact HR|]. cbn [close_seq]. apply Run_lift.
        * rewrite (end_array_out F st2 _ Hc2), Hhv, print_arr, Hc1. cbn [is_first].
          destruct cs as [|c0 cs0]; [|cbn [app]; reflexivity].
          exfalso. cbn [map sequence] in Es. destruct (cst_of e); [|discriminate].
          destruct (sequence (map cst_of r)); discriminate.
      + eapply Fails_bind_r; [apply open_first_run_seq, H0|]. fold st1. apply Fails_bind. exact HE.
  Qed.

  Lemma seq_run' h es : hint_ok h (length es) = true -> Forall P es -> forallb wfs es = true -> forall st,
    match option_map (fun cs => CArr [] (elems_of cs)) (sequence (map cst_of es)) with
    | Some c => exists st', Run (seq_body h es st) (print F (cur st) c) st' /\ cur st' = cur st
    | None => Fails (seq_body h es st)
    end.
  Proof. intros Hh HP W st. pose proof (seq_run h es Hh HP W st) as H. destruct (sequence (map cst_of es)); exact H. Qed.

  (* SerializeMap::serialize_key + serialize_value loop, for map keys (MapKeySerializer) and struct field names *)
  Lemma entries_run {K} (serkey : K -> tr unit) (kp : K -> option (list strpiece)) (l : list (K * sval)) :
    (forall k, match kp k with Some p => Run (serkey k) (render_str p) tt | None => Fails (serkey k) end) ->
    Forall (fun kv => P (snd kv)) l -> forallb (fun kv => wfs (snd kv)) l = true -> forall cs0 st,
    match sequence (map (fun kv => pair_opt (kp (fst kv)) (cst_of (snd kv))) l) with
    | Some ms => exists st',
        Run (ser_entries F ser serkey l cs0 st) (print_members F (cur st) (is_first cs0) ms) (match l with [] => cs0 | _ => Rest end, st')
        /\ cur st' = cur st
        /\ (match l with [] => st' = st | _ => forall d, end_text F d (hasv st') = end_text F d true end)
    | None => Fails (ser_entries F ser serkey l cs0 st)
    end.
  Proof.
    intros Hkey. induction 1 as [|[k v] r Hv _ IH]; intros W cs0 st; cbn [map sequence ser_entries fst snd].
    - exists st. split; [apply Run_ret | auto].
    - cbn [forallb snd] in W. apply andb_true_iff in W as [Wv Wr]. cbn [snd] in Hv.
      set (st1 := snd (begin_object_key F (is_first cs0) st)).
      assert (E1 : st1 = st) by apply begin_object_key_st.
      pose proof (Hkey k) as Hk. destruct (kp k) as [p|]; cbn [pair_opt].
      2:{ eapply Fails_bind_r; [apply Run_lift|]. apply Fails_bind. exact Hk. }
      set (st2 := snd (end_object_key F st1)). assert (E2 : st2 = st) by exact E1.
      set (st3 := snd (begin_object_value F st2)).
      assert (E3 : st3 = st) by (unfold st3; rewrite begin_object_value_st; exact E2).
      specialize (Hv Wv st3). destruct (cst_of v) as [c|].
      + destruct Hv as [st4 [HRv Hcv]].
        set (st5 := snd (end_object_value F st4)).
        assert (Ec5 : cur st5 = cur st) by (unfold st5; rewrite end_object_value_cur, Hcv, E3; reflexivity).
        specialize (IH Wr Rest st5).
        destruct (sequence (map (fun kv => pair_opt (kp (fst kv)) (cst_of (snd kv))) r)) as [ms|]; cbn [option_map].
        * destruct IH as [st' [HR [Hc Hh]]]. exists st'. split; [|split; [rewrite Hc; exact Ec5|]].
          -- eapply Run_eq.
             ++ eapply Run_bind; [apply Run_lift|]. eapply Run_bind; [exact Hk|].
                eapply Run_bind; [apply Run_lift|]. eapply Run_bind; [apply Run_lift|].
                eapply Run_bind; [exact HRv|]. eapply Run_bind; [apply Run_lift|].
                assert (Er : (match r with [] => Rest | _ => Rest end) = Rest) by (destruct r; reflexivity).
                rewrite Er in HR. exact HR.
             ++ rewrite begin_object_key_out. fold st1 st2. rewrite begin_object_value_out. fold st3.
                rewrite end_object_value_out, Ec5, E3. cbn [print_members is_first app concat fst end_object_key]. reflexivity.
          -- intros d. destruct r as [|e' r'].
             ++ rewrite Hh. unfold st5. apply end_object_value_hasv.
             ++ apply Hh.
        * eapply Fails_bind_r; [apply Run_lift|]. eapply Fails_bind_r; [exact Hk|].
          eapply Fails_bind_r; [apply Run_lift|]. eapply Fails_bind_r; [apply Run_lift|].
          eapply Fails_bind_r; [exact HRv|]. eapply Fails_bind_r; [apply Run_lift|]. exact IH.
      + eapply Fails_bind_r; [apply Run_lift|]. eapply Fails_bind_r; [exact Hk|].
        eapply Fails_bind_r; [apply Run_lift|]. eapply Fails_bind_r; [apply Run_lift|]. apply Fails_bind. exact Hv.
  Qed.

  Definition map_body {K} (serkey : K -> tr unit) (h : option nat) (l : list (K * sval)) (st : fstate) : tr fstate :=
    tbind (open_map F h st) (fun p => let '(cs, st1) := p in
    tbind (ser_entries F ser serkey l cs st1) (fun q => let '(cs2, st2) := q in close_map F cs2 st2)).

  Lemma map_run {K} (serkey : K -> tr unit) (kp : K -> option (list strpiece)) h (l : list (K * sval)) :
    (forall k, match kp k with Some p => Run (serkey k) (render_str p) tt | None => Fails (serkey k) end) ->
    hint_ok h (length l) = true -> Forall (fun kv => P (snd kv)) l -> forallb (fun kv => wfs (snd kv)) l = true -> forall st,
    match sequence (map (fun kv => pair_opt (kp (fst kv)) (cst_of (snd kv))) l) with
    | Some ms => exists st', Run (map_body serkey h l st) (print F (cur st) (CObj [] (members_of ms))) st' /\ cur st' = cur st
    | None => Fails (map_body serkey h l st)
    end.
  Proof.
    intros Hkey Hh HP W st. unfold map_body. destruct l as [|e r].
    - cbn [map sequence]. rewrite print_obj.
      assert (Hcase : h = None \/ h = Some O) by (destruct h as [[|k]|]; cbn in Hh; auto; discriminate).
      destruct Hcase as [-> | ->].
      + set (st1 := snd (begin_object F st)).
        assert (Hc : cur st1 = inner F (cur st)) by apply begin_object_cur.
        exists (snd (end_object F st1)). split; [|apply end_object_cur, Hc].
        eapply Run_eq.
        * eapply Run_bind; [apply open_first_run_map; reflexivity|]. cbn [ser_entries].
          eapply Run_bind; [apply Run_ret|]. cbn [close_map]. apply Run_lift.
        * fold st1. rewrite (end_object_out F st1 _ Hc). unfold st1. rewrite begin_object_hasv. reflexivity.
      + destruct (open_empty_run_map st) as [st2 [HR Hc]]. exists st2. split; [|exact Hc].
        eapply Run_eq.
        * eapply Run_bind; [exact HR|]. cbn [ser_entries]. eapply Run_bind; [apply Run_ret|]. cbn [close_map]. apply Run_ret.
        * reflexivity.
    - cbn [length] in Hh. pose proof (is_some0_exact _ _ Hh) as H0.
      set (st1 := snd (begin_object F st)).
      assert (Hc1 : cur st1 = inner F (cur st)) by apply begin_object_cur.
      pose proof (entries_run serkey kp (e :: r) Hkey HP W First st1) as HE.
      destruct (sequence (map (fun kv => pair_opt (kp (fst kv)) (cst_of (snd kv))) (e :: r))) as [ms|] eqn:Es.
      + destruct HE as [st2 [HR [Hc Hhv]]].
        assert (Hc2 : cur st2 = inner F (cur st)) by (rewrite Hc; exact Hc1).
        exists (snd (end_object F st2)). split; [|apply end_object_cur, Hc2].
        eapply Run_eq.
        * eapply Run_bind; [apply open_first_run_map, H0|]. fold st1.
          eapply Run_bind; [exact HR|]. cbn [close_map]. apply Run_lift.
        * rewrite (end_object_out F st2 _ Hc2), Hhv, print_obj, Hc1. cbn [is_first].
          destruct ms as [|m0 ms0]; [|cbn [app]; reflexivity].
          exfalso. cbn [map sequence] in Es. destruct (pair_opt (kp (fst e)) (cst_of (snd e))); [|discriminate].
          destruct (sequence (map (fun kv => pair_opt (kp (fst kv)) (cst_of (snd kv))) r)); discriminate.
      + eapply Fails_bind_r; [apply open_first_run_map, H0|]. fold st1. apply Fails_bind. exact HE.
  Qed.

  Lemma map_run' {K} (serkey : K -> tr unit) (kp : K -> option (list strpiece)) h (l : list (K * sval)) :
    (forall k, match kp k with Some p => Run (serkey k) (render_str p) tt | None => Fails (serkey k) end) ->
    hint_ok h (length l) = true -> Forall (fun kv => P (snd kv)) l -> forallb (fun kv => wfs (snd kv)) l = true -> forall st,
    match option_map (fun ms => CObj [] (members_of ms)) (sequence (map (fun kv => pair_opt (kp (fst kv)) (cst_of (snd kv))) l)) with
    | Some c => exists st', Run (map_body serkey h l st) (print F (cur st) c) st' /\ cur st' = cur st
    | None => Fails (map_body serkey h l st)
    end.
  Proof.
    intros Hk Hh HP W st. pose proof (map_run serkey kp h l Hk Hh HP W st) as H.
    destruct (sequence (map (fun kv => pair_opt (kp (fst kv)) (cst_of (snd kv))) l)); exact H.
  Qed.

  (* externally tagged variants: { "name": <value> } *)
  Lemma open_variant_run name st :
    Run (open_variant F name st) (123 :: sep F (inner F (cur st)) true ++ render_str (pieces_of name) ++ colon F) (snd (begin_object F st)).
  Proof.
    set (st1 := snd (begin_object F st)).
    assert (Hc1 : cur st1 = inner F (cur st)) by apply begin_object_cur.
    unfold open_variant. eapply Run_eq.
    - eapply Run_bind; [apply Run_lift|]. fold st1.
      eapply Run_bind; [apply (Run_lift_eq _ _ st1); [apply begin_object_key_st | reflexivity]|].
      eapply Run_bind; [apply Run_str|].
      eapply Run_bind; [apply (Run_lift_eq _ _ st1); reflexivity|].
      apply (Run_lift_eq _ _ st1); [apply begin_object_value_st | reflexivity].
    - rewrite begin_object_out, begin_object_key_out, begin_object_value_out, Hc1. cbn [end_object_key fst concat app].
      reflexivity.
  Qed.

  Lemma close_variant_run st d : cur st = inner F d ->
    exists st', Run (close_variant F st) (end_text F d true ++ [125]) st' /\ cur st' = d.
  Proof.
    intros Hc. set (st1 := snd (end_object_value F st)).
    assert (Hc1 : cur st1 = inner F d) by (unfold st1; rewrite end_object_value_cur; exact Hc).
    exists (snd (end_object F st1)). split; [|apply end_object_cur, Hc1].
    unfold close_variant. eapply Run_eq; [eapply Run_bind; [apply Run_lift | apply Run_lift]|].
    rewrite end_object_value_out. fold st1. rewrite (end_object_out F st1 _ Hc1). unfold st1.
    rewrite end_object_value_hasv. reflexivity.
  Qed.

  Lemma print_variant d name c : print F d (variant_obj name c) =
    (123 :: sep F (inner F d) true ++ render_str (pieces_of name) ++ colon F) ++ print F (inner F d) c ++ end_text F d true ++ [125].
  Proof.
    unfold variant_obj. rewrite print_obj. cbn [print_members]. rewrite app_nil_r. cbn [app]. rewrite <- !app_assoc. reflexivity.
  Qed.

  Lemma variant_run name (body : fstate -> tr fstate) st (oc : option cst) :
    (forall st1, match oc with
                 | Some c => exists st', Run (body st1) (print F (cur st1) c) st' /\ cur st' = cur st1
                 | None => Fails (body st1)
                 end) ->
    match option_map (variant_obj name) oc with
    | Some c => exists st', Run (tbind (open_variant F name st) (fun st1 => tbind (body st1) (fun st2 => close_variant F st2)))
                                (print F (cur st) c) st' /\ cur st' = cur st
    | None => Fails (tbind (open_variant F name st) (fun st1 => tbind (body st1) (fun st2 => close_variant F st2)))
    end.
  Proof.
    intros Hb. set (st1 := snd (begin_object F st)).
    assert (Hc1 : cur st1 = inner F (cur st)) by apply begin_object_cur.
    specialize (Hb st1). destruct oc as [c|]; cbn [option_map].
    - destruct Hb as [st2 [HR Hc2]]. rewrite Hc1 in Hc2.
      destruct (close_variant_run st2 (cur st) Hc2) as [st3 [HR3 Hc3]].
      exists st3. split; [|exact Hc3]. rewrite print_variant. rewrite Hc1 in HR.
      eapply Run_bind; [apply open_variant_run|]. eapply Run_bind; [exact HR | exact HR3].
    - eapply Fails_bind_r; [apply open_variant_run|]. apply Fails_bind. exact Hb.
  Qed.

  Lemma Forall_snd_P (fs : list (bytes * sval)) : Forall (fun kv => P (snd kv)) fs -> Forall (fun kv => P (snd kv)) fs.
  Proof. auto. Qed.

  Lemma wfs_fields fs : forallb (fun kv : bytes * sval => utf8_valid (fst kv) && wfs (snd kv)) fs = true ->
    forallb (fun kv : bytes * sval => wfs (snd kv)) fs = true.
  Proof. apply forallb_impl. intros kv H. apply andb_true_iff in H. tauto. Qed.
  Lemma wfs_entries (kvs : list (sval * sval)) : forallb (fun kv => wfs (fst kv) && wfs (snd kv)) kvs = true ->
    forallb (fun kv : sval * sval => wfs (snd kv)) kvs = true.
  Proof. apply forallb_impl. intros kv H. apply andb_true_iff in H. tauto. Qed.

  Lemma field_key_run : forall k : bytes,
    match Some (pieces_of k) with Some p => Run (format_escaped_str k) (render_str p) tt | None => Fails (format_escaped_str k) end.
  Proof. intros k. apply Run_str. Qed.

  Theorem ser_prints : forall v, P v.
  Proof.
    induction v using sval_ind'; unfold P; intros W st; cbn [cst_of ser]; cbn [wfs] in W.
    - apply scalar_run with (out := if b then lit_true else lit_false); [apply Run_write | destruct b; reflexivity | destruct b; exact I].
    - apply scalar_run with (out := itoa_z z); [apply Run_write | symmetry; apply render_cint | exact I].
    - destruct (f32_finite_bits b).
      + apply scalar_run with (out := fmt32 b); [apply Run_write | symmetry; apply render_cnum_text | exact I].
      + apply scalar_run with (out := lit_null); [apply Run_write | reflexivity | exact I].
    - destruct (f64_finite_bits b).
      + apply scalar_run with (out := fmt64 b); [apply Run_write | symmetry; apply render_cnum_text | exact I].
      + apply scalar_run with (out := lit_null); [apply Run_write | reflexivity | exact I].
    - apply scalar_run with (out := render_str (pieces_of (utf8_encode c))); [apply Run_str | reflexivity | exact I].
    - apply scalar_run with (out := render_str (pieces_of s)); [apply Run_str | reflexivity | exact I].
    - apply bytes_run.
    - apply scalar_run with (out := lit_null); [apply Run_write | reflexivity | exact I].
    - apply IHv, W.
    - apply scalar_run with (out := lit_null); [apply Run_write | reflexivity | exact I].
    - apply scalar_run with (out := lit_null); [apply Run_write | reflexivity | exact I].
    - apply scalar_run with (out := render_str (pieces_of n)); [apply Run_str | reflexivity | exact I].
    - apply IHv, W.
    - apply andb_true_iff in W as [_ W]. apply (variant_run n (fun st1 => ser v st1) st (cst_of v)). intros st1. apply IHv, W.
    - apply andb_true_iff in W as [Wh W]. exact (seq_run' h es Wh H W st).
    - exact (seq_run' (Some (length es)) es (Nat.eqb_refl _) H W st).
    - exact (seq_run' (Some (length es)) es (Nat.eqb_refl _) H W st).
    - apply andb_true_iff in W as [_ W].
      pose proof (variant_run n (fun st1 => seq_body (Some (length es)) es st1) st
                    (option_map (fun cs => CArr [] (elems_of cs)) (sequence (map cst_of es)))
                    (fun st1 => seq_run' (Some (length es)) es (Nat.eqb_refl _) H W st1)) as HV.
      assert (Eb : tbind (open_variant F n st) (fun st0 => tbind (seq_body (Some (length es)) es st0) (fun st2 => close_variant F st2))
                   = ser (STupleVariant n es) st).
      { cbn [ser]. apply tbind_ext. intros st0. unfold seq_body. rewrite tbind_assoc. apply tbind_ext. intros [cs st1].
        rewrite tbind_assoc. apply tbind_ext. intros [cs2 st2]. reflexivity. }
      cbn beta in HV. rewrite Eb in HV. destruct (sequence (map cst_of es)); exact HV.
    - apply andb_true_iff in W as [Wh W].
      exact (map_run' key_ser key_pieces h kvs key_run Wh (Forall_impl _ (fun kv HP => proj2 HP) H) (wfs_entries _ W) st).
    - exact (map_run' format_escaped_str (fun k => Some (pieces_of k)) (Some (length fs)) fs field_key_run (Nat.eqb_refl _) H (wfs_fields _ W) st).
    - apply andb_true_iff in W as [_ W].
      pose proof (variant_run n (fun st1 => map_body format_escaped_str (Some (length fs)) fs st1) st
                    (option_map (fun ms => CObj [] (members_of ms))
                       (sequence (map (fun kv => pair_opt (Some (pieces_of (fst kv))) (cst_of (snd kv))) fs)))
                    (fun st1 => map_run' format_escaped_str (fun k => Some (pieces_of k)) (Some (length fs)) fs field_key_run
                                  (Nat.eqb_refl _) H (wfs_fields _ W) st1)) as HV.
      assert (Eb : tbind (open_variant F n st) (fun st0 => tbind (map_body format_escaped_str (Some (length fs)) fs st0) (fun st2 => close_variant F st2))
                   = ser (SStructVariant n fs) st).
      { cbn [ser]. apply tbind_ext. intros st0. unfold map_body. rewrite tbind_assoc. apply tbind_ext. intros [cs st1].
        rewrite tbind_assoc. apply tbind_ext. intros [cs2 st2]. reflexivity. }
      cbn beta in HV. rewrite Eb in HV.
      destruct (sequence (map (fun kv => pair_opt (Some (pieces_of (fst kv))) (cst_of (snd kv))) fs)); exact HV.
    - apply scalar_run with (out := render_str (pieces_of (concat c))); [apply Run_collect | reflexivity | exact I].
    - destruct (arbitrary_precision cf).
      + apply scalar_run with (out := l); [apply Run_write | symmetry; apply render_cnum_text | exact I].
      + (* the token is an ordinary struct with one string field *)
        pose proof (map_run' format_escaped_str (fun k => Some (pieces_of k)) (Some 1%nat) [(NUMBER_TOKEN, SStr l)] field_key_run eq_refl) as HM.
        assert (HPl : Forall (fun kv : bytes * sval => P (snd kv)) [(NUMBER_TOKEN, SStr l)]).
        { constructor; [|constructor]. cbn [snd]. unfold P. intros _ st0. cbn [cst_of ser].
          apply scalar_run with (out := render_str (pieces_of l)); [apply Run_str | reflexivity | exact I]. }
        assert (Wl : forallb (fun kv : bytes * sval => wfs (snd kv)) [(NUMBER_TOKEN, SStr l)] = true).
        { cbn [forallb snd wfs]. rewrite (forallb_ascii_utf8 _ (number_text_ascii _ W)). reflexivity. }
        specialize (HM HPl Wl st). cbn [map sequence fst snd pair_opt option_map cst_of] in HM.
        destruct HM as [st' [HR Hc]]. exists st'. split; [|exact Hc].
        destruct HR as [o [E C]]. exists o. split; [|exact C]. rewrite <- E. unfold map_body. cbn [ser_entries].
        apply tbind_ext. intros [cs st1]. cbn beta iota. rewrite !tbind_assoc.
        apply tbind_ext. intros st2. cbn beta. rewrite ?tbind_assoc.
        apply tbind_ext. intros u. cbn beta. rewrite ?tbind_assoc.
        apply tbind_ext. intros st3. cbn beta. rewrite ?tbind_assoc.
        apply tbind_ext. intros st4. cbn beta. cbn [ser]. rewrite ?tbind_assoc.
        apply tbind_ext. intros u2. cbn beta. rewrite tbind_tret_l, ?tbind_assoc.
        apply tbind_ext. intros st5. cbn beta. rewrite tbind_tret_l. reflexivity.
  Qed.
End Main.

(* ---- whole runs ------------------------------------------------------------------------------------------------ *)
Section Top.
  Variable cf : cfg.
  Variable fmt32 fmt64 : N -> bytes.
  Notation cst_of := (cst_of cf fmt32 fmt64).
  Notation serialize := (serialize cf fmt32 fmt64).

  Lemma print_compact d c : print Compact d c = render c. Proof. reflexivity. Qed.
  Lemma print_pretty ind d c : print (Pretty ind) d c = layout ind d c. Proof. reflexivity. Qed.

  Theorem serialize_ok F v c : wfs v = true -> cst_of v = Some c ->
    exists bufs, serialize F v = Ok bufs /\ concat bufs = print F 0 c.
  Proof.
    intros W Ec. pose proof (ser_prints cf fmt32 fmt64 F v W fs0) as H. rewrite Ec in H.
    destruct H as [st' [[o [E C]] _]]. exists o. split; [|exact C].
    unfold Ser.serialize, serialize_trace. rewrite E. cbn [tbind tret]. rewrite app_nil_r. reflexivity.
  Qed.

  Theorem serialize_err F v : wfs v = true -> cst_of v = None ->
    exists e, serialize F v = Err e O /\ keyerr e.
  Proof.
    intros W Ec. pose proof (ser_prints cf fmt32 fmt64 F v W fs0) as H. rewrite Ec in H.
    destruct H as [o [e [E K]]]. exists e. split; [|exact K].
    unfold Ser.serialize, serialize_trace. rewrite E. cbn [tbind]. reflexivity.
  Qed.

  (* the outcome is decided by the tree alone: the same for both formatters *)
  Theorem serialize_ok_inv F v bufs : wfs v = true -> serialize F v = Ok bufs ->
    exists c, cst_of v = Some c /\ concat bufs = print F 0 c.
  Proof.
    intros W H. destruct (cst_of v) as [c|] eqn:Ec.
    - destruct (serialize_ok F v c W Ec) as [b' [E C]]. rewrite H in E. inversion E. subst b'. exists c. auto.
    - destruct (serialize_err F v W Ec) as [e [E _]]. rewrite H in E. discriminate.
  Qed.

  Theorem serialize_err_inv F v e i : wfs v = true -> serialize F v = Err e i ->
    cst_of v = None /\ keyerr e /\ i = O.
  Proof.
    intros W H. destruct (cst_of v) as [c|] eqn:Ec.
    - destruct (serialize_ok F v c W Ec) as [b' [E C]]. rewrite H in E. discriminate.
    - destruct (serialize_err F v W Ec) as [e' [E K]]. rewrite H in E. inversion E. subst. auto.
  Qed.

  Theorem serialize_total F v : wfs v = true ->
    (exists bufs, serialize F v = Ok bufs) \/ (exists e, serialize F v = Err e O /\ keyerr e).
  Proof.
    intros W. destruct (cst_of v) as [c|] eqn:Ec.
    - left. destruct (serialize_ok F v c W Ec) as [b [E _]]. exists b. exact E.
    - right. apply (serialize_err F v W Ec).
  Qed.

  (* which trees are rejected: exactly those with a map key that is not a string, a string-like call or a finite scalar *)
  Theorem C03_pretty_same_tokens v bufs ind : wfs v = true -> serialize Compact v = Ok bufs ->
    exists c bufsp, concat bufs = render c /\ serialize (Pretty ind) v = Ok bufsp /\ concat bufsp = layout ind 0 c.
  Proof.
    intros W H. destruct (serialize_ok_inv Compact v bufs W H) as [c [Ec C]].
    destruct (serialize_ok (Pretty ind) v c W Ec) as [bp [Ep Cp]]. exists c, bp. auto.
  Qed.
End Top.

Print Assumptions ser_prints.
Print Assumptions serialize_ok.
Print Assumptions serialize_err.
