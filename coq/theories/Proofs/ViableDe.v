(* Proofs/ViableDe.v — C11 converse, part 4: parse_value / parse_seq / parse_map and the top level.

   If the run of [from_input] on p fails with an Eof-category code, then (under the side conditions collected in [Inv])
   there is a continuation t such that p ++ t is a JSON text.  The completion is built from the parser state at the
   point of the error, innermost first: the open token is completed (ViableStr / ViableNum / literal names), a value is
   supplied where one is expected ("0", after a key ":0", after a comma in an object "\"\":0"), then every open
   container is closed.  No container is ever opened by the completion, so the depth limit is respected.

   Section Generic proves the statement once, for a target configuration cf' in which the completed text is to be
   accepted; it is instantiated twice:
     cf' = cf with arbitrary_precision switched on: the pure RFC 8259 reading (no number can be out of range)
     cf' = cf: acceptance by the parser itself, under the additional range condition of ViableNum. *)
From Coq Require Import List NArith ZArith Bool Arith Lia ZifyBool ZifyNat ZifyN.
From SJ Require Import Base.Bytes Base.Utf8 Base.FloatB Gen.Tables Model.Read Model.Str Model.Num Model.Value Model.De
  Spec.Syntax Spec.Denote.
From SJ Require Import Proofs.Utf8Lemmas Proofs.GrammarStr Proofs.GrammarNum Proofs.GrammarValueBase Proofs.GrammarValueSound
  Proofs.GrammarFinal Proofs.ViableBase Proofs.ViableStr Proofs.ViableNum.
Import ListNotations.
Open Scope N_scope.

Local Notation SE cf := (mkEnv RSlice TEof cf).
Ltac lnm := repeat (rewrite <- ?app_assoc; cbn [app]).
Ltac not_eof H Hc := injection H as <- _; discriminate Hc.

(* ------------------------------------------------------------------------------------------ *)
(** * 1. Cursor helpers: which Eof-category errors they raise *)
Section Helpers.
  Variable cf : cfg.
  Local Notation E := (SE cf).

  Lemma sound_inst fuel : sound_value cf fuel /\ sound_seq cf fuel /\ sound_map cf fuel.
  Proof.
    apply sound_all.
    - intros. eapply Hstr_sound_inst; eauto.
    - intros positive s0 p s1 H. eapply number_sound_plain; eauto.
  Qed.

  Lemma ident_eof ident : forall s c i, parse_ident E ident s = Err c i -> category c = CatEof ->
    exists t, rest s ++ t = ident.
  Proof.
    induction ident as [|e ident IH]; intros s c i H Hc; cbn [parse_ident] in H; [discriminate H|].
    unfold next in H. destruct (rest s) as [|b r] eqn:Hr.
    - exists (e :: ident). reflexivity.
    - cbn [bind] in H. destruct (b =? e) eqn:Hbe.
      + apply N.eqb_eq in Hbe. subst b. destruct (IH _ _ _ H Hc) as (t & Ht). cbn [rest] in Ht.
        exists t. cbn [app]. rewrite Ht. reflexivity.
      + exfalso. unfold error in H. not_eof H Hc.
  Qed.

  Lemma enter_not_eof s c i : enter E s = Err c i -> category c <> CatEof.
  Proof.
    unfold enter. destruct (limit_disabled (Read.cf E)); [discriminate|].
    destruct (depth s =? 0); [discriminate|]. cbn [depth]. destruct (depth s - 1 =? 0); [|discriminate].
    unfold peek_error. intros H. injection H as <- _. discriminate.
  Qed.

  Lemma leave_not_err s c i : leave E s = Err c i -> False.
  Proof. unfold leave. destruct (limit_disabled (Read.cf E)); [discriminate|]. destruct (255 <=? depth s); discriminate. Qed.

  Lemma de_end_not_eof s c i : de_end E s = Err c i -> category c <> CatEof.
  Proof.
    unfold de_end. destruct (pw_spec cf s) as (s1 & Hpw & _). rewrite Hpw. cbn [bind].
    destruct (hd_error (rest s1)); [|discriminate]. unfold peek_error. intros H. injection H as <- _. discriminate.
  Qed.

  (* has_next_element at the end of the input: before a comma (close the array) or after one (supply a value) *)
  Lemma hne_eof first s c i : has_next_element E first s = Err c i -> category c = CatEof ->
    ws_ok (rest s) = true \/
    (first = false /\ exists wa w1, ws_ok wa = true /\ ws_ok w1 = true /\ rest s = wa ++ 44 :: w1).
  Proof.
    unfold has_next_element. destruct (pw_spec cf s) as (s1 & Hpw & Hr & _). rewrite Hpw. cbn [bind].
    destruct (skipws_split (rest s)) as (w & Hw & Hsplit). rewrite <- Hr in Hsplit.
    destruct (rest s1) as [|b r] eqn:Hs1; cbn [hd_error].
    { intros _ _. left. apply skipws_nil. rewrite <- Hr. reflexivity. }
    intros H Hc. destruct (b =? 93); [discriminate H|]. destruct first; [discriminate H|].
    destruct (b =? 44) eqn:Hb; [|exfalso; unfold peek_error in H; not_eof H Hc].
    apply N.eqb_eq in Hb. subst b.
    destruct (pw_spec cf (discard s1)) as (s2 & Hpw2 & Hr2 & _). rewrite Hpw2 in H. cbn [bind] in H.
    rewrite discard_rest, Hs1 in Hr2. cbn [tl] in Hr2.
    destruct (rest s2) as [|b2 r2] eqn:Hs2; cbn [hd_error] in H.
    - right. split; [reflexivity|]. exists w, r. split; [exact Hw|]. split; [|exact Hsplit].
      apply skipws_nil. symmetry. exact Hr2.
    - exfalso. destruct (b2 =? 93); [unfold peek_error in H; not_eof H Hc|discriminate H].
  Qed.

  Lemma hnk_eof first s c i : has_next_key E first s = Err c i -> category c = CatEof ->
    ws_ok (rest s) = true \/
    (first = false /\ exists wa w1, ws_ok wa = true /\ ws_ok w1 = true /\ rest s = wa ++ 44 :: w1).
  Proof.
    unfold has_next_key. destruct (pw_spec cf s) as (s1 & Hpw & Hr & _). rewrite Hpw. cbn [bind].
    destruct (skipws_split (rest s)) as (w & Hw & Hsplit). rewrite <- Hr in Hsplit.
    destruct (rest s1) as [|b r] eqn:Hs1; cbn [hd_error].
    { intros _ _. left. apply skipws_nil. rewrite <- Hr. reflexivity. }
    intros H Hc. destruct (b =? 125); [discriminate H|]. destruct first.
    { exfalso. destruct (b =? 34); [discriminate H|unfold peek_error in H; not_eof H Hc]. }
    destruct (b =? 44) eqn:Hb; [|exfalso; unfold peek_error in H; not_eof H Hc].
    apply N.eqb_eq in Hb. subst b.
    destruct (pw_spec cf (discard s1)) as (s2 & Hpw2 & Hr2 & _). rewrite Hpw2 in H. cbn [bind] in H.
    rewrite discard_rest, Hs1 in Hr2. cbn [tl] in Hr2.
    destruct (rest s2) as [|b2 r2] eqn:Hs2; cbn [hd_error] in H.
    - right. split; [reflexivity|]. exists w, r. split; [exact Hw|]. split; [|exact Hsplit].
      apply skipws_nil. symmetry. exact Hr2.
    - exfalso. destruct (b2 =? 34); [discriminate H|]. destruct (b2 =? 125); unfold peek_error in H; not_eof H Hc.
  Qed.

  Lemma colon_eof s c i : parse_object_colon E s = Err c i -> category c = CatEof -> ws_ok (rest s) = true.
  Proof.
    unfold parse_object_colon. destruct (pw_spec cf s) as (s1 & Hpw & Hr & _). rewrite Hpw. cbn [bind].
    destruct (rest s1) as [|b r] eqn:Hs1; cbn [hd_error].
    - intros _ _. apply skipws_nil. rewrite <- Hr. reflexivity.
    - intros H Hc. exfalso. destruct (b =? 58); [discriminate H|unfold peek_error in H; not_eof H Hc].
  Qed.

  (* a successful parse_seq / parse_map stops in front of the closing bracket *)
  Lemma parse_seq_end : forall f first s vs s', parse_seq f E first s = Ok (vs, s') -> exists r, skipws (rest s') = 93 :: r.
  Proof.
    induction f as [|f IH]; intros first s vs s' H; [discriminate H|]. rewrite (parse_seq_S cf) in H.
    apply bind_ok in H as (o & Hh & H). destruct o as [s1|].
    - apply bind_ok in H as ([v s2] & _ & H). apply bind_ok in H as ([vs' s3] & Hsq & H). injection H as _ <-.
      exact (IH _ _ _ _ Hsq).
    - injection H as _ <-. apply (hne_inv cf) in Hh. exact Hh.
  Qed.

  Lemma parse_map_end : forall f first s es s', parse_map f E first s = Ok (es, s') -> exists r, skipws (rest s') = 125 :: r.
  Proof.
    induction f as [|f IH]; intros first s es s' H; [discriminate H|]. rewrite (parse_map_S cf) in H.
    apply bind_ok in H as (o & Hh & H). destruct o as [s1|].
    - apply bind_ok in H as ([[k bw] s2] & _ & H). apply bind_ok in H as (s3 & _ & H).
      apply bind_ok in H as ([v s4] & _ & H). apply bind_ok in H as ([es' s5] & Hmp & H). injection H as _ <-.
      exact (IH _ _ _ _ Hmp).
    - injection H as _ <-. apply (hnk_inv cf) in Hh. exact Hh.
  Qed.
End Helpers.

Lemma lex_sep (first : bool) wa w1 : ws_ok wa = true -> ws_ok w1 = true ->
  lex LOut ((if first then [] else wa ++ [44]) ++ w1) = LOut.
Proof.
  intros Ha H1. apply lex_out_noq. destruct first; cbn [app]; [apply ws_noq, H1|].
  apply noq_app; [apply noq_app; [apply ws_noq, Ha|reflexivity]|apply ws_noq, H1].
Qed.

(* ------------------------------------------------------------------------------------------ *)
(** * 2. The generic statement *)
Section Generic.
  Variable cf : cfg.          (* the configuration of the failing run *)
  Variable cf' : cfg.         (* the configuration in which the completed text is to be accepted *)
  Hypothesis Hlim : limit_disabled cf' = limit_disabled cf.
  Variable cmp : bytes.
  Hypothesis Hcmp : conts cmp.
  Variable HR : bytes -> Prop.
  Hypothesis HR_suffix : forall a b, HR (a ++ b) -> HR b.
  Local Notation E := (SE cf).
  Local Notation Inv := (Inv cmp HR).

  (* what has been parsed is also accepted in the target configuration *)
  Hypothesis Hparsed : forall c, wfb c = true -> defd cf c = true -> defd cf' c = true.
  (* the number layer *)
  Hypothesis Hleaf : forall positive s c i,
    parse_any_number E positive s = Err c i -> category c = CatEof -> HR (rest s) ->
    exists t n, num_ok n = true /\ nneg n = negb positive /\ rest s ++ t = render_abs n /\ defd cf' (CNum n) = true.

  Lemma Inv_ws w r : ws_ok w = true -> Inv (w ++ r) -> Inv r.
  Proof. intros Hw. apply (Inv_skip cmp HR HR_suffix). apply lex_out_ws, Hw. Qed.
  Lemma Inv_byte b r : (b =? 34) = false -> Inv (b :: r) -> Inv r.
  Proof.
    intros Hb. apply (Inv_skip cmp HR HR_suffix [b]). rewrite lex_cons. cbn [lex_step]. rewrite Hb. reflexivity.
  Qed.

  Definition VV (f : nat) : Prop := forall s c i,
    parse_value f E s = Err c i -> category c = CatEof -> Inv (rest s) ->
    exists t cst, skipws (rest s) ++ t = render cst /\ wfb cst = true /\ defd cf' cst = true /\
                  sdepth cf (cdepth cst) (depth s).
  Definition VS (f : nat) : Prop := forall first s c i,
    parse_seq f E first s = Err c i -> category c = CatEof -> Inv (rest s) ->
    exists t wp es, rest s ++ t = seq_text first wp es /\ ws_ok wp = true /\ wfb_elems es = true /\
                    defd_elems cf' es = true /\ sdepth cf (cdepth_elems es) (depth s).
  Definition VM (f : nat) : Prop := forall first s c i,
    parse_map f E first s = Err c i -> category c = CatEof -> Inv (rest s) ->
    exists t wp ms, rest s ++ t = map_text first wp ms /\ ws_ok wp = true /\ wfb_members ms = true /\
                    defd_members cf' ms = true /\ sdepth cf (cdepth_members ms) (depth s).

  Lemma sdepth_container n d d1 : d1 = d ->
    forall d2, (if limit_disabled cf then d2 = d1 else d2 = d1 - 1 /\ 2 <= d1) ->
    sdepth cf n d2 -> sdepth cf (S n) d.
  Proof.
    intros -> d2 He Hn. unfold sdepth in *. destruct (limit_disabled cf); [discriminate|].
    specialize (Hn eq_refl). intros _. right. lia.
  Qed.

  (* ---- the value step ---- *)
  Lemma VV_step f : VS f -> VM f -> VV (S f).
  Proof.
    intros IHs IHm s c i H Hc HI.
    destruct (parse_value_step cf f s) as (s1 & Hr1 & Hd1 & Heq). rewrite Heq in H. clear Heq.
    destruct (skipws_split (rest s)) as (w & Hw & Hsplit).
    destruct (rest s1) as [|b r] eqn:Hs1.
    { (* only whitespace: a value is expected *)
      exists [48], (CNum nzero). rewrite <- Hr1. split; [reflexivity|]. split; [reflexivity|].
      split; [apply zero_defd|apply sdepth_0]. }
    assert (HIb : Inv (b :: r)).
    { apply (Inv_ws w); [exact Hw|]. rewrite Hr1, <- Hsplit. exact HI. }
    rewrite <- Hr1. unfold value_branch in H.
    (* null *)
    destruct (b =? 110) eqn:Hb.
    { apply N.eqb_eq in Hb. subst b. apply bind_err in H as [H|(s2 & _ & H)]; [|discriminate H].
      destruct (ident_eof cf _ _ _ _ H Hc) as (t & Ht). rewrite discard_rest, Hs1 in Ht. cbn [tl] in Ht.
      exists t, CNull. split; [cbn [app render]; rewrite Ht; reflexivity|].
      split; [reflexivity|]. split; [reflexivity|apply sdepth_0]. }
    clear Hb. destruct (b =? 116) eqn:Hb.
    { apply N.eqb_eq in Hb. subst b. apply bind_err in H as [H|(s2 & _ & H)]; [|discriminate H].
      destruct (ident_eof cf _ _ _ _ H Hc) as (t & Ht). rewrite discard_rest, Hs1 in Ht. cbn [tl] in Ht.
      exists t, CTrue. split; [cbn [app render]; rewrite Ht; reflexivity|].
      split; [reflexivity|]. split; [reflexivity|apply sdepth_0]. }
    clear Hb. destruct (b =? 102) eqn:Hb.
    { apply N.eqb_eq in Hb. subst b. apply bind_err in H as [H|(s2 & _ & H)]; [|discriminate H].
      destruct (ident_eof cf _ _ _ _ H Hc) as (t & Ht). rewrite discard_rest, Hs1 in Ht. cbn [tl] in Ht.
      exists t, CFalse. split; [cbn [app render]; rewrite Ht; reflexivity|].
      split; [reflexivity|]. split; [reflexivity|apply sdepth_0]. }
    (* negative number *)
    clear Hb. destruct (b =? 45) eqn:Hb.
    { apply N.eqb_eq in Hb. subst b. apply bind_err in H as [H|([p s2] & _ & H)]; [|discriminate H].
      assert (HIr : Inv r) by (apply (Inv_byte 45); [reflexivity|exact HIb]).
      destruct (Hleaf false (discard s1) c i H Hc) as (t & n & Hok & Hneg & Hren & Hdef).
      { rewrite discard_rest, Hs1. cbn [tl]. exact (Inv_HR cmp HR r HIr). }
      rewrite discard_rest, Hs1 in Hren. cbn [tl] in Hren. cbn [negb] in Hneg.
      exists t, (CNum n). cbn [render wfb cdepth]. rewrite render_num_abs, Hneg. cbn [app]. rewrite Hren.
      split; [reflexivity|]. split; [exact Hok|]. split; [exact Hdef|apply sdepth_0]. }
    (* positive number *)
    clear Hb. destruct (is_digit b) eqn:Hb.
    { apply bind_err in H as [H|([p s2] & _ & H)]; [|discriminate H].
      destruct (Hleaf true s1 c i H Hc) as (t & n & Hok & Hneg & Hren & Hdef).
      { rewrite Hs1. exact (Inv_HR cmp HR _ HIb). }
      rewrite Hs1 in Hren. cbn [negb] in Hneg.
      exists t, (CNum n). cbn [render wfb cdepth]. rewrite render_num_abs, Hneg, Hren. cbn [app].
      split; [reflexivity|]. split; [exact Hok|]. split; [exact Hdef|apply sdepth_0]. }
    (* string *)
    clear Hb. destruct (b =? 34) eqn:Hb.
    { apply N.eqb_eq in Hb. subst b. apply bind_err in H as [H|([[str bw] s2] & _ & H)]; [|discriminate H].
      destruct (Inv_quote cmp HR HR_suffix r HIb) as (HF & Hu & Hl).
      destruct (parse_str_eof_viable cf cmp Hcmp (discard s1) c i H Hc) as (t & ps & Hren & Hok & Htext);
        try (rewrite discard_rest, Hs1; cbn [tl]; assumption).
      rewrite discard_rest, Hs1 in Hren. cbn [tl] in Hren.
      exists t, (CStr ps). cbn [render wfb cdepth]. unfold render_str. cbn [app]. rewrite Hren.
      split; [reflexivity|]. split; [exact Hok|]. split; [rewrite defd_str; apply is_some_neq, Htext|apply sdepth_0]. }
    (* array *)
    clear Hb. destruct (b =? 91) eqn:Hb.
    { apply N.eqb_eq in Hb. subst b.
      apply bind_err in H as [H|(s2 & Hen & H)]; [exfalso; exact (enter_not_eof cf _ _ _ H Hc)|].
      apply (enter_inv cf) in Hen as [He1 He2].
      assert (HIr : Inv r) by (apply (Inv_byte 91); [reflexivity|exact HIb]).
      apply bind_err in H as [H|([vs s3] & Hsq & H)].
      - destruct (IHs true (discard s2) c i H Hc) as (t & wp & es & Hren & Hwp & Hwf & Hdef & Hdp).
        { rewrite discard_rest, He1, Hs1. cbn [tl]. exact HIr. }
        rewrite discard_rest, He1, Hs1 in Hren. cbn [tl] in Hren. rewrite discard_depth in Hdp.
        exists (t ++ [93]), (CArr wp es). rewrite render_arr. cbn [wfb cdepth]. rewrite <- Hren, Hwp, Hwf, defd_arr.
        split; [lnm; reflexivity|]. split; [reflexivity|]. split; [exact Hdef|].
        exact (sdepth_container _ _ _ Hd1 _ He2 Hdp).
      - exfalso. apply bind_err in H as [H|(s4 & Hlv & H)]; [exact (leave_not_err cf _ _ _ H)|].
        apply bind_err in H as [H|(s5 & _ & H)]; [|discriminate H].
        apply (leave_inv cf) in Hlv as [Hl1 _]. destruct (parse_seq_end cf _ _ _ _ _ Hsq) as (r3 & Hr3).
        rewrite <- Hl1 in Hr3. destruct (end_seq_fwd cf s4 r3 Hr3) as (s5 & Hes & _). rewrite Hes in H. discriminate H. }
    (* object *)
    clear Hb. destruct (b =? 123) eqn:Hb; [|exfalso; unfold peek_error in H; not_eof H Hc].
    apply N.eqb_eq in Hb. subst b.
    apply bind_err in H as [H|(s2 & Hen & H)]; [exfalso; exact (enter_not_eof cf _ _ _ H Hc)|].
    apply (enter_inv cf) in Hen as [He1 He2].
    assert (HIr : Inv r) by (apply (Inv_byte 123); [reflexivity|exact HIb]).
    apply bind_err in H as [H|([vs s3] & Hsq & H)].
    - destruct (IHm true (discard s2) c i H Hc) as (t & wp & ms & Hren & Hwp & Hwf & Hdef & Hdp).
      { rewrite discard_rest, He1, Hs1. cbn [tl]. exact HIr. }
      rewrite discard_rest, He1, Hs1 in Hren. cbn [tl] in Hren. rewrite discard_depth in Hdp.
      exists (t ++ [125]), (CObj wp ms). rewrite render_obj. cbn [wfb cdepth]. rewrite <- Hren, Hwp, Hwf, defd_obj.
      split; [lnm; reflexivity|]. split; [reflexivity|]. split; [exact Hdef|].
      exact (sdepth_container _ _ _ Hd1 _ He2 Hdp).
    - exfalso. apply bind_err in H as [H|(s4 & Hlv & H)]; [exact (leave_not_err cf _ _ _ H)|].
      apply bind_err in H as [H|(s5 & _ & H)]; [|discriminate H].
      apply (leave_inv cf) in Hlv as [Hl1 _]. destruct (parse_map_end cf _ _ _ _ _ Hsq) as (r3 & Hr3).
      rewrite <- Hl1 in Hr3. destruct (end_map_fwd cf s4 r3 Hr3) as (s5 & Hes & _). rewrite Hes in H. discriminate H.
  Qed.

  (* ---- the sequence step ---- *)
  Lemma VS_step f : VV f -> VS f -> VS (S f).
  Proof.
    intros IHv IHs first s c i H Hc HI. rewrite (parse_seq_S cf) in H.
    apply bind_err in H as [H|(o & Hh & H)].
    { (* the input ends between elements *)
      destruct (hne_eof cf _ _ _ _ H Hc) as [Hws|(-> & wa & w1 & Hwa & Hw1 & Hrest)].
      - exists [], (rest s), ENil. rewrite app_nil_r. cbn [seq_text]. split; [reflexivity|]. split; [exact Hws|].
        split; [reflexivity|]. split; [reflexivity|apply sdepth_0].
      - exists [48], wa, (ECons w1 (CNum nzero) [] ENil). rewrite Hrest. cbn [seq_text render_elems].
        split; [lnm; reflexivity|]. split; [exact Hwa|]. cbn [wfb_elems wfb]. rewrite Hw1.
        split; [reflexivity|]. split; [rewrite defd_econs, zero_defd; reflexivity|apply sdepth_0]. }
    destruct o as [s1|]; [|discriminate H].
    apply (hne_sep cf) in Hh as (Hd1 & Hsk1 & wa & w1 & Hwa & Hw1 & Hsep).
    assert (HI1 : Inv (rest s1)).
    { apply (Inv_skip cmp HR HR_suffix ((if first then [] else wa ++ [44]) ++ w1)); [apply lex_sep; assumption|].
      rewrite <- app_assoc, <- Hsep. exact HI. }
    apply bind_err in H as [H|([v s2] & Hv & H)].
    - (* the input ends inside the element *)
      destruct (IHv s1 c i H Hc HI1) as (t & cst & Hren & Hwf & Hdef & Hdp). rewrite Hsk1 in Hren.
      exists t, wa, (ECons w1 cst [] ENil). rewrite seq_text_cons, Hsep, <- Hren. cbn [tail_elems].
      split; [lnm; rewrite !app_nil_r; reflexivity|]. split; [exact Hwa|]. cbn [wfb_elems]. rewrite Hw1, Hwf.
      split; [reflexivity|]. split; [rewrite defd_econs, Hdef; reflexivity|].
      cbn [cdepth_elems]. rewrite Nat.max_0_r, <- Hd1. exact Hdp.
    - (* the element is complete; the input ends later *)
      apply bind_err in H as [H|([vs s3] & _ & H)]; [|discriminate H].
      destruct (sound_inst cf f) as (Sv & _ & _).
      destruct (Sv _ _ _ Hv (Inv_F cmp HR _ HI1)) as (c0 & Hc0 & Hwf0 & Hden0 & Hdp0 & Hd2). rewrite Hsk1 in Hc0.
      assert (Hdef0 : defd cf c0 = true) by (exact (defd_some cf c0 v Hden0)).
      assert (HI2 : Inv (rest s2)).
      { apply (Inv_skip cmp HR HR_suffix (render c0)); [exact (lex_render cf c0 Hwf0 Hdef0)|]. rewrite <- Hc0. exact HI1. }
      destruct (IHs false s2 c i H Hc HI2) as (t & wp2 & es2 & Hren & Hwp2 & Hwf2 & Hdef2 & Hdp2).
      rewrite seq_text_false in Hren.
      exists t, wa, (ECons w1 c0 wp2 es2). rewrite seq_text_cons, Hsep, Hc0, <- Hren.
      split; [lnm; reflexivity|]. split; [exact Hwa|]. cbn [wfb_elems]. rewrite Hw1, Hwf0, Hwp2, Hwf2.
      split; [reflexivity|]. split; [rewrite defd_econs, (Hparsed c0 Hwf0 Hdef0), Hdef2; reflexivity|].
      cbn [cdepth_elems]. apply sdepth_max; [rewrite <- Hd1; exact Hdp0|rewrite <- Hd1, <- Hd2; exact Hdp2].
  Qed.

  (* ---- the map step ---- *)
  Lemma VM_step f : VV f -> VM f -> VM (S f).
  Proof.
    intros IHv IHm first s c i H Hc HI. rewrite (parse_map_S cf) in H.
    apply bind_err in H as [H|(o & Hh & H)].
    { destruct (hnk_eof cf _ _ _ _ H Hc) as [Hws|(-> & wa & w1 & Hwa & Hw1 & Hrest)].
      - exists [], (rest s), MNil. rewrite app_nil_r. cbn [map_text]. split; [reflexivity|]. split; [exact Hws|].
        split; [reflexivity|]. split; [reflexivity|apply sdepth_0].
      - exists [34; 34; 58; 48], wa, (MCons w1 [] [] [] (CNum nzero) [] MNil). rewrite Hrest. cbn [map_text render_members].
        split; [lnm; reflexivity|]. split; [exact Hwa|]. cbn [wfb_members wfb str_ok forallb]. rewrite Hw1.
        split; [reflexivity|]. split; [rewrite defd_mcons, zero_defd; reflexivity|apply sdepth_0]. }
    destruct o as [s1|]; [|discriminate H].
    apply (hnk_sep cf) in Hh as (Hd1 & wa & w1 & r1 & Hwa & Hw1 & Hs1 & Hsep).
    assert (HIq : Inv (34 :: r1)).
    { apply (Inv_skip cmp HR HR_suffix ((if first then [] else wa ++ [44]) ++ w1)); [apply lex_sep; assumption|].
      rewrite <- app_assoc, <- Hsep. exact HI. }
    destruct (Inv_quote cmp HR HR_suffix r1 HIq) as (HF1 & Hu1 & Hl1).
    apply bind_err in H as [H|([[k bw] s2] & Hk & H)].
    - (* the input ends inside the key *)
      destruct (parse_str_eof_viable cf cmp Hcmp (discard s1) c i H Hc) as (t & ps & Hren & Hok & Htext);
        try (rewrite discard_rest, Hs1; cbn [tl]; assumption).
      rewrite discard_rest, Hs1 in Hren. cbn [tl] in Hren.
      exists (t ++ [58; 48]), wa, (MCons w1 ps [] [] (CNum nzero) [] MNil).
      rewrite map_text_cons, Hsep. unfold render_str. cbn [tail_members].
      assert (Hren' : r1 ++ t ++ [58; 48] = flat_map render_piece ps ++ [34; 58; 48]).
      { rewrite app_assoc, Hren. lnm. reflexivity. }
      split; [lnm; rewrite Hren'; reflexivity|]. split; [exact Hwa|]. cbn [wfb_members wfb]. rewrite Hw1, Hok.
      split; [reflexivity|]. split; [|apply sdepth_0].
      rewrite defd_mcons, zero_defd. apply is_some_neq in Htext. rewrite Htext. reflexivity.
    - (* the key is complete *)
      apply (Hstr_sound_inst cf) in Hk as (ks & Hrest & Hok & Htext & _ & _ & Hdk).
      2:{ rewrite discard_rest, Hs1. exact HF1. }
      rewrite discard_rest, Hs1 in Hrest. cbn [tl] in Hrest. rewrite discard_depth in Hdk.
      assert (HI2 : Inv (rest s2)).
      { apply (Inv_skip cmp HR HR_suffix (render_str ks)).
        - apply lex_render_str; [exact Hok|]. rewrite Htext. discriminate.
        - unfold render_str. lnm. rewrite <- Hrest. exact HIq. }
      apply bind_err in H as [H|(s3 & Hcol & H)].
      + (* the input ends before the colon *)
        apply (colon_eof cf) in H; [|exact Hc].
        exists [58; 48], wa, (MCons w1 ks (rest s2) [] (CNum nzero) [] MNil).
        rewrite map_text_cons, Hsep, Hrest. unfold render_str. cbn [tail_members].
        split; [lnm; reflexivity|]. split; [exact Hwa|]. cbn [wfb_members wfb]. rewrite Hw1, Hok, H.
        split; [reflexivity|]. split; [rewrite defd_mcons, zero_defd, Htext; reflexivity|apply sdepth_0].
      + apply (colon_inv cf) in Hcol as [Hc1 Hc2].
        destruct (skipws_split (rest s2)) as (w2 & Hw2 & Hs2). rewrite Hc1 in Hs2.
        assert (HI3 : Inv (rest s3)).
        { apply (Inv_byte 58); [reflexivity|]. apply (Inv_ws w2); [exact Hw2|]. rewrite <- Hs2. exact HI2. }
        destruct (skipws_split (rest s3)) as (w3 & Hw3 & Hs3).
        assert (E3 : depth s3 = depth s) by congruence.
        apply bind_err in H as [H|([v s4] & Hv & H)].
        * (* the input ends inside the value *)
          destruct (IHv s3 c i H Hc HI3) as (t & cst & Hren & Hwf & Hdef & Hdp).
          exists t, wa, (MCons w1 ks w2 w3 cst [] MNil).
          rewrite map_text_cons, Hsep, Hrest, Hs2, Hs3, <- Hren. unfold render_str. cbn [tail_members].
          split; [lnm; rewrite !app_nil_r; reflexivity|]. split; [exact Hwa|]. cbn [wfb_members]. rewrite Hw1, Hok, Hw2, Hw3, Hwf.
          split; [reflexivity|]. split; [rewrite defd_mcons, Hdef, Htext; reflexivity|].
          cbn [cdepth_members]. rewrite Nat.max_0_r, <- E3. exact Hdp.
        * (* the value is complete *)
          apply bind_err in H as [H|([es s5] & _ & H)]; [|discriminate H].
          destruct (sound_inst cf f) as (Sv & _ & _).
          destruct (Sv _ _ _ Hv (Inv_F cmp HR _ HI3)) as (c0 & Hc0 & Hwf0 & Hden0 & Hdp0 & Hd4).
          assert (Hdef0 : defd cf c0 = true) by (exact (defd_some cf c0 v Hden0)).
          rewrite Hc0 in Hs3.
          assert (HI4 : Inv (rest s4)).
          { apply (Inv_skip cmp HR HR_suffix (render c0)); [exact (lex_render cf c0 Hwf0 Hdef0)|].
            apply (Inv_ws w3); [exact Hw3|]. rewrite <- Hs3. exact HI3. }
          destruct (IHm false s4 c i H Hc HI4) as (t & wp2 & ms2 & Hren & Hwp2 & Hwf2 & Hdef2 & Hdp2).
          rewrite map_text_false in Hren.
          exists t, wa, (MCons w1 ks w2 w3 c0 wp2 ms2).
          rewrite map_text_cons, Hsep, Hrest, Hs2, Hs3, <- Hren. unfold render_str.
          split; [lnm; reflexivity|]. split; [exact Hwa|]. cbn [wfb_members].
          rewrite Hw1, Hok, Hw2, Hw3, Hwf0, Hwp2, Hwf2.
          split; [reflexivity|]. split; [rewrite defd_mcons, (Hparsed c0 Hwf0 Hdef0), Hdef2, Htext; reflexivity|].
          cbn [cdepth_members]. apply sdepth_max; [rewrite <- E3; exact Hdp0|rewrite <- E3, <- Hd4; exact Hdp2].
  Qed.

  Lemma V_all : forall f, VV f /\ VS f /\ VM f.
  Proof.
    induction f as [|f (IHv & IHs & IHm)].
    - split; [|split]; intros ? **; discriminate.
    - split; [|split]; [now apply VV_step|now apply VS_step|now apply VM_step].
  Qed.

  (* ---- top level ---- *)
  Theorem viable_generic : forall p c i,
    from_input E p = Err c i -> category c = CatEof -> Inv p -> exists t, InLang cf' (p ++ t).
  Proof.
    intros p c i H Hc HI. unfold from_input in H.
    apply bind_err in H as [H|([v s1] & _ & H)].
    2:{ exfalso. apply bind_err in H as [H|(s2 & _ & H)]; [exact (de_end_not_eof cf _ _ _ H Hc)|discriminate H]. }
    destruct (V_all (value_fuel p)) as (Vv & _ & _).
    destruct (Vv _ _ _ H Hc HI) as (t & cst & Hren & Hwf & Hdef & Hdp). cbn [init_st rest depth] in Hren, Hdp.
    destruct (skipws_split p) as (w1 & Hw1 & Hp).
    exists t, w1, cst, []. split; [rewrite app_nil_r, <- Hren, app_assoc, <- Hp; reflexivity|].
    split; [exact Hw1|]. split; [reflexivity|]. split; [exact Hwf|]. split; [apply is_some_ex, Hdef|].
    rewrite Hlim. intros Hl. specialize (Hdp Hl). rewrite DEPTH0_eq in Hdp. lia.
  Qed.
End Generic.
