(* Proofs/GrammarValue.v — the grammar theorem of the Value parser (slice reader, end-of-input terminated):
   [from_input] accepts exactly the RFC 8259 language of Spec/Denote.v and returns the denoted value.

   The string layer and the number layer are proved elsewhere; their results are the premises of
   Section Grammar (after [End Grammar] they are explicit hypotheses of the four theorems).

     GrammarValueBase.v      whitespace, cursor helpers, fuel measure, text of element lists
     GrammarValueSound.v     induction on fuel:        run  ->  syntax tree      (value_sound_main)
     GrammarValueComplete.v  induction on the tree:    syntax tree -> run        (value_complete_main) *)
From SJ Require Import Base.Bytes Base.Utf8 Base.FloatB Gen.Tables Model.Read Model.Str Model.Num Model.Value Model.De
  Spec.Syntax Spec.Denote.
From SJ Require Import Proofs.GrammarValueBase Proofs.GrammarValueSound Proofs.GrammarValueComplete.
Open Scope N_scope.

Section Grammar.
  Variable cf : cfg.
  Let E := mkEnv RSlice TEof cf.

  (* strings *)
  Hypothesis Hstr_complete : forall s b rst off pk d, str_ok s = true -> str_text s = Some b ->
    exists bw, parse_str E (mkSt (flat_map render_piece s ++ 34 :: rst) off pk d)
             = Ok (b, bw, mkSt rst (off + length (flat_map render_piece s) + 1) false d).
  Hypothesis Hstr_sound : forall s0 b bw s1, Forall (fun x => (x < 256)%N) (rest s0) -> parse_str E s0 = Ok (b, bw, s1) ->
    exists s, rest s0 = flat_map render_piece s ++ 34 :: rest s1 /\ str_ok s = true /\ str_text s = Some b
           /\ off s1 = (off s0 + length (flat_map render_piece s) + 1)%nat /\ pk s1 = false /\ depth s1 = depth s0.

  (* numbers *)
  Definition num_follow (rst : list N) : Prop :=
    match rst with
    | [] => True
    | c :: _ => is_digit c = false /\ c <> 46%N /\ c <> 101%N /\ c <> 69%N /\ c <> 43%N /\ c <> 45%N
    end.
  Definition st_end (lit rst : list N) (off : nat) (d : N) : st :=
    mkSt rst (off + length lit) (match rst with [] => false | _ :: _ => true end) d.
  Hypothesis Hnum_local : forall positive n rst off pk d, num_ok n = true -> num_follow rst ->
    forall p s', parse_any_number E positive (init_st (render_abs n)) = Ok (p, s') ->
    parse_any_number E positive (mkSt (render_abs n ++ rst) off pk d) = Ok (p, st_end (render_abs n) rst off d).
  Hypothesis Hnum_sound : forall positive s0 p s1, parse_any_number E positive s0 = Ok (p, s1) ->
    exists n, num_ok n = true /\ nneg n = negb positive /\ rest s0 = render_abs n ++ rest s1
          /\ off s1 = (off s0 + length (render_abs n))%nat /\ depth s1 = depth s0
          /\ pk s1 = (match rest s1 with [] => false | _ => true end)
          /\ exists s', parse_any_number E positive (init_st (render_abs n)) = Ok (p, s').

  Theorem value_sound : forall bs v,
    Forall (fun b => (b < 256)%N) bs -> from_input (mkEnv RSlice TEof cf) bs = Ok v -> Denotes cf bs v.
  Proof. exact (value_sound_main cf Hstr_sound Hnum_sound). Qed.

  Theorem value_complete : forall bs v,
    Denotes cf bs v -> from_input (mkEnv RSlice TEof cf) bs = Ok v.
  Proof. exact (value_complete_main cf Hstr_complete Hnum_local). Qed.

  (* corollaries *)
  Theorem C01_slice : forall bs, Forall (fun b => (b < 256)%N) bs ->
    ((exists v, from_input (mkEnv RSlice TEof cf) bs = Ok v) <-> InLang cf bs).
  Proof.
    intros bs HF. split.
    - intros (v & Hrun). destruct (value_sound bs v HF Hrun) as (w1 & c & w2 & H1 & H2 & H3 & H4 & H5 & H6).
      exists w1, c, w2. split; [exact H1|]. split; [exact H2|]. split; [exact H3|]. split; [exact H4|].
      split; [exists v; exact H5|exact H6].
    - intros (w1 & c & w2 & H1 & H2 & H3 & H4 & (v & H5) & H6). exists v. apply value_complete.
      exists w1, c, w2. split; [exact H1|]. split; [exact H2|]. split; [exact H3|]. split; [exact H4|].
      split; [exact H5|exact H6].
  Qed.

  Theorem C02_slice : forall bs v, Forall (fun b => (b < 256)%N) bs ->
    from_input (mkEnv RSlice TEof cf) bs = Ok v -> Denotes cf bs v.
  Proof. exact value_sound. Qed.

End Grammar.

Check value_sound.
Check value_complete.
Check C01_slice.
Check C02_slice.
Print Assumptions value_sound.
Print Assumptions value_complete.
Print Assumptions C01_slice.
Print Assumptions C02_slice.
